import Holpy.C16.SimplexModel
import Mathlib.Tactic.Ring
import Mathlib.Tactic.Linarith
import Mathlib.Tactic.FieldSimp
import Mathlib.Algebra.Order.Field.Rat
/-
C16 — lemmas about linear forms of the simplex model: `evalJ`, `insertJar`, `reducePairs`,
`coeffOf`, filters and substitution.
-/
namespace Holpy.C16.Simplex

def varsOf (js : Jars) : List Var := js.map (·.1)
/-- every variable occurs once -/
def DistinctVars (js : Jars) : Prop := (varsOf js).Nodup
/-- strictly increasing variables (the shape `reduce_pairs` returns) -/
def SortedJ (js : Jars) : Prop := (varsOf js).Pairwise (· < ·)

theorem SortedJ.distinct {js : Jars} (h : SortedJ js) : DistinctVars js :=
  List.Pairwise.imp (fun hab => Nat.ne_of_lt hab) h

theorem evalJ_append (a b : Jars) (v : Var → ℚ) : evalJ (a ++ b) v = evalJ a v + evalJ b v := by
  induction a with
  | nil => simp [evalJ]
  | cons p a ih => obtain ⟨x, c⟩ := p; simp only [List.cons_append, evalJ, ih]; ring

theorem evalJ_scale (k : ℚ) (js : Jars) (v : Var → ℚ) :
    evalJ (js.map (fun j => (j.1, k * j.2))) v = k * evalJ js v := by
  induction js with
  | nil => simp [evalJ]
  | cons p js ih => obtain ⟨x, c⟩ := p; simp only [List.map_cons, evalJ, ih]; ring

theorem evalJ_insertJar (x : Var) (c : ℚ) (l : Jars) (v : Var → ℚ) :
    evalJ (insertJar x c l) v = c * v x + evalJ l v := by
  induction l with
  | nil => simp [insertJar, evalJ]
  | cons p l ih =>
    obtain ⟨y, d⟩ := p
    simp only [insertJar]
    split
    · simp [evalJ]
    · split
      · rename_i h; subst h; simp only [evalJ]; ring
      · simp only [evalJ, ih]; ring

theorem evalJ_foldl_insert (js acc : Jars) (v : Var → ℚ) :
    evalJ (js.foldl (fun acc j => insertJar j.1 j.2 acc) acc) v = evalJ acc v + evalJ js v := by
  induction js generalizing acc with
  | nil => simp [evalJ]
  | cons p js ih => obtain ⟨x, c⟩ := p; simp only [List.foldl_cons, ih, evalJ_insertJar, evalJ]; ring

/-- `reduce_pairs` does not change the value of a linear form -/
theorem evalJ_reducePairs (js : Jars) (v : Var → ℚ) : evalJ (reducePairs js) v = evalJ js v := by
  simp [reducePairs, evalJ_foldl_insert, evalJ]

theorem mem_varsOf_insertJar (x : Var) (c : ℚ) (l : Jars) (y : Var) :
    y ∈ varsOf (insertJar x c l) ↔ y = x ∨ y ∈ varsOf l := by
  induction l with
  | nil => simp [insertJar, varsOf]
  | cons p l ih =>
    obtain ⟨z, d⟩ := p
    simp only [insertJar]
    split
    · simp [varsOf]
    · split
      · rename_i h; subst h; simp [varsOf]
      · simp only [varsOf, List.map_cons, List.mem_cons] at ih ⊢; rw [ih]; tauto

theorem varsOf_cons (y : Var) (c : ℚ) (l : Jars) : varsOf ((y, c) :: l) = y :: varsOf l := rfl

theorem sorted_insertJar (x : Var) (c : ℚ) (l : Jars) (h : SortedJ l) : SortedJ (insertJar x c l) := by
  induction l with
  | nil => simp [insertJar, SortedJ, varsOf]
  | cons p l ih =>
    obtain ⟨z, d⟩ := p
    simp only [SortedJ, varsOf_cons, List.pairwise_cons] at h
    simp only [insertJar]
    split
    · rename_i hlt
      simp only [SortedJ, varsOf_cons, List.pairwise_cons, List.mem_cons]
      refine ⟨?_, h.1, h.2⟩
      intro y hy
      rcases hy with hyz | hy
      · rw [hyz]; exact hlt
      · exact Nat.lt_trans hlt (h.1 y hy)
    · split
      · rename_i _ heq; subst heq
        simp only [SortedJ, varsOf_cons, List.pairwise_cons]; exact h
      · rename_i hnlt hne
        have hs := ih h.2
        simp only [SortedJ, varsOf_cons, List.pairwise_cons]
        refine ⟨?_, hs⟩
        intro y hy
        rcases (mem_varsOf_insertJar x c l y).mp hy with hyx | hy
        · rw [hyx]; exact Nat.lt_of_le_of_ne (Nat.le_of_not_lt hnlt) (fun e => hne e.symm)
        · exact h.1 y hy

theorem sorted_foldl_insert (js acc : Jars) (h : SortedJ acc) :
    SortedJ (js.foldl (fun acc j => insertJar j.1 j.2 acc) acc) := by
  induction js generalizing acc with
  | nil => exact h
  | cons p js ih => exact ih _ (sorted_insertJar _ _ _ h)

theorem sorted_reducePairs (js : Jars) : SortedJ (reducePairs js) :=
  sorted_foldl_insert js [] (by simp [SortedJ, varsOf])

theorem mem_varsOf_foldl_insert (js acc : Jars) (y : Var) :
    y ∈ varsOf (js.foldl (fun acc j => insertJar j.1 j.2 acc) acc) ↔ y ∈ varsOf acc ∨ y ∈ varsOf js := by
  induction js generalizing acc with
  | nil => simp [varsOf]
  | cons p js ih =>
    obtain ⟨z, d⟩ := p
    rw [List.foldl_cons, ih, mem_varsOf_insertJar, varsOf_cons, List.mem_cons]; tauto

theorem mem_varsOf_reducePairs (js : Jars) (y : Var) : y ∈ varsOf (reducePairs js) ↔ y ∈ varsOf js := by
  rw [reducePairs, mem_varsOf_foldl_insert]; simp [varsOf]

theorem coeffOf_not_mem (x : Var) (js : Jars) (h : x ∉ varsOf js) : coeffOf x js = 0 := by
  induction js with
  | nil => rfl
  | cons p js ih =>
    obtain ⟨y, c⟩ := p
    simp only [varsOf_cons, List.mem_cons, not_or] at h
    simp only [coeffOf]
    rw [if_neg (fun e => h.1 e.symm)]
    exact ih h.2

/-- removing the monomial of `x` from a form in which `x` occurs at most once -/
theorem evalJ_filter_var (x : Var) (js : Jars) (v : Var → ℚ) (h : DistinctVars js) :
    evalJ (js.filter (fun j => j.1 != x)) v = evalJ js v - coeffOf x js * v x := by
  induction js with
  | nil => simp [evalJ, coeffOf]
  | cons p js ih =>
    obtain ⟨y, c⟩ := p
    simp only [DistinctVars, varsOf_cons, List.nodup_cons] at h
    by_cases hy : y = x
    · subst hy
      have hnm : coeffOf y js = 0 := coeffOf_not_mem y js h.1
      have := ih h.2
      simp only [List.filter_cons, bne_self_eq_false, Bool.false_eq_true, if_false, evalJ, coeffOf, if_true]
      rw [this, hnm]; ring
    · have hb : (y != x) = true := by simpa using hy
      simp only [List.filter_cons, hb, if_true, evalJ, coeffOf, if_neg hy]
      rw [ih h.2]; ring

theorem coeffOf_mem (x : Var) (c : ℚ) (js : Jars) (h : DistinctVars js) (hm : (x, c) ∈ js) : coeffOf x js = c := by
  induction js with
  | nil => cases hm
  | cons p js ih =>
    obtain ⟨y, d⟩ := p
    simp only [DistinctVars, varsOf_cons, List.nodup_cons] at h
    rcases List.mem_cons.mp hm with he | hm
    · cases he; simp [coeffOf]
    · have : y ≠ x := fun e => h.1 (e ▸ List.mem_map.mpr ⟨(x, c), hm, rfl⟩)
      simp only [coeffOf, if_neg this]; exact ih h.2 hm

/-- the filter of `pivot`'s substitution step (`j != xj_jar`) removes exactly the monomial of `x` -/
theorem filter_jar_eq (x : Var) (js : Jars) (h : DistinctVars js) :
    js.filter (fun j => !(j.1 == x && j.2 == coeffOf x js)) = js.filter (fun j => j.1 != x) := by
  apply List.filter_congr
  intro j hj
  by_cases hx : j.1 = x
  · have : coeffOf x js = j.2 := coeffOf_mem x j.2 js h (by rw [← hx]; exact hj)
    simp [hx, this]
  · have : (j.1 == x) = false := by simpa using hx
    simp [this, bne]

theorem evalJ_congr (js : Jars) (v v' : Var → ℚ) (h : ∀ x ∈ varsOf js, v x = v' x) : evalJ js v = evalJ js v' := by
  induction js with
  | nil => rfl
  | cons p js ih =>
    obtain ⟨y, c⟩ := p
    simp only [evalJ]
    rw [h y (by simp [varsOf]), ih (fun x hx => h x (by simp only [varsOf, List.map_cons, List.mem_cons]; right; exact hx))]

/-- changing the value of one variable -/
theorem evalJ_setQ (js : Jars) (v : Var → ℚ) (x : Var) (a : ℚ) (h : DistinctVars js) :
    evalJ js (setQ v x a) = evalJ js v + coeffOf x js * (a - v x) := by
  induction js with
  | nil => simp [evalJ, coeffOf]
  | cons p js ih =>
    obtain ⟨y, c⟩ := p
    simp only [DistinctVars, varsOf_cons, List.nodup_cons] at h
    by_cases hy : y = x
    · subst hy
      have hnm : coeffOf y js = 0 := coeffOf_not_mem y js h.1
      have := ih h.2
      rw [hnm] at this
      simp only [evalJ, coeffOf, if_true, this, setQ]
      simp; ring
    · simp only [evalJ, coeffOf, if_neg hy, ih h.2, setQ, if_neg hy]; ring

end Holpy.C16.Simplex
