import Holpy.C16.Py
import Holpy.C16.Gen
/-
C16 — executable model of `prover/omega.py` (`solve_matrix`, `solve` and everything below it) on
integer matrices, plus certificate checkers that judge the answers of *any* solver
(`checkWitness`, `checkWitnessQ`, `checkFarkas`, `checkDeriv`).  Core Lean only.

Row convention (omega.py `Factoid`): a row `[c₁, …, cₙ, c₀]` means `0 ≤ c₁·x₀ + … + cₙ·xₙ₋₁ + c₀`
(the constant is the LAST entry).

What is modelled exactly and what is idealised:
* Python's float divisions (`floor(c0 / -coeff)`, `ceil(-(c0/coeff))`, `floor(-e / a)`,
  `floor(i / g)`, `int(c0 / g)`) are exact integer floor/ceil/trunc divisions here.  CPython agrees
  while the operands stay below 2^53 in absolute value.
* The database `db` is a dict from `hash(key)` to a list of factoids.  Its iteration order is
  "buckets in first-insertion order, factoids in insertion order inside a bucket".  CPython hashes
  small ints to themselves except `hash(-1) = -2`, so two keys share a bucket iff they agree after
  replacing `-1` by `-2` (`hk`); other collisions of the tuple hash are not modelled.
* `extend_cross_product` looks for a "direct contradiction" in the bucket of the *negated* key but
  compares the bucket's keys with the *un-negated* key; under the hash model above this can never
  match for a non-zero key, so the branch is omitted (a run of the real code that takes it would
  show up as a derivation mismatch in the correspondence stream).
* `functools.reduce(gcd, key)` without initial value returns the single element itself for a
  one-element key; that only matters for width 2, where `solve` never reaches the cross product
  (every non-empty database is then a one-variable problem).  The model uses the true gcd.
-/
namespace Holpy.C16

abbrev Row := List Int

/-! ## Semantics of rows -/

/-- Value of the row `r` whose first coefficient belongs to variable `i`; the last entry is the
constant. -/
def evalAt : Row → Nat → (Nat → Int) → Int
  | [], _, _ => 0
  | [c], _, _ => c
  | a :: b :: rest, i, v => a * v i + evalAt (b :: rest) (i + 1) v

def evalRow (r : Row) (v : Nat → Int) : Int := evalAt r 0 v

/-- `v` is an integer solution of the system. -/
def Sat (rows : List Row) (v : Nat → Int) : Prop := ∀ r ∈ rows, 0 ≤ evalRow r v

/-- A list read as an assignment (missing variables are 0 — omega.py's `eval_factoid_rhs`). -/
def assignOf (l : List Int) : Nat → Int := fun i => l.getD i 0

/-! ## Certificate checkers -/

def rowKey (r : Row) : List Int := r.dropLast
def rowConst (r : Row) : Int := r.getLastD 0

def isZeroVar (r : Row) : Bool := (rowKey r).all (· == 0)
def isFalseRow (r : Row) : Bool := isZeroVar r && decide (rowConst r < 0)
def isTrueRow (r : Row) : Bool := isZeroVar r && decide (rowConst r ≥ 0)

/-- Iterative evaluation used by the run-time checkers (`evalAt` is the specification). -/
def dotFrom : List Int → List Int → Int → Int
  | [], _, acc => acc
  | [c], _, acc => acc + c
  | _ :: b :: rest, [], acc => dotFrom (b :: rest) [] acc
  | a :: b :: rest, x :: xs, acc => dotFrom (b :: rest) xs (acc + a * x)

/-- every row is `≥ 0` under the integer assignment `v` (variables beyond `v` are 0). -/
def checkWitness (rows : List Row) (v : List Int) : Bool :=
  rows.all fun r => decide (0 ≤ dotFrom r v 0)

/-- Rational assignment `xᵢ = pᵢ / q` with a common denominator `q > 0`:
`Σ cᵢ·pᵢ + c₀·q ≥ 0` for every row. -/
def dotFromQ : List Int → List Int → Int → Int → Int
  | [], _, _, acc => acc
  | [c], _, q, acc => acc + c * q
  | _ :: b :: rest, [], q, acc => dotFromQ (b :: rest) [] q acc
  | a :: b :: rest, x :: xs, q, acc => dotFromQ (b :: rest) xs q (acc + a * x)

def checkWitnessQ (rows : List Row) (p : List Int) (q : Int) : Bool :=
  decide (0 < q) && rows.all fun r => decide (0 ≤ dotFromQ r p q 0)

def addRow (a b : Row) : Row := List.zipWith (· + ·) a b
def scaleRow (k : Int) (r : Row) : Row := r.map (k * ·)

/-- `Σ kⱼ · rowⱼ` over rows of width `w`. -/
def combRows : List Int → List Row → Nat → Row
  | k :: ks, r :: rs, w => addRow (scaleRow k r) (combRows ks rs w)
  | _, _, w => List.replicate w 0

/-- Farkas certificate: non-negative multipliers, one per row, all rows of the same width `≥ 1`,
and the combination is a constant row with negative constant. -/
def checkFarkas (rows : List Row) (coeffs : List Int) : Bool :=
  match rows with
  | [] => false
  | r0 :: _ =>
    let w := r0.length
    decide (0 < w) && decide (coeffs.length = rows.length) && coeffs.all (fun k => decide (0 ≤ k)) &&
    rows.all (fun r => decide (r.length = w)) && isFalseRow (combRows coeffs rows w)

/-- Derivations of omega.py (`ASM`, `RealCombine`, `GCDCheck`, `DirectContr`). -/
inductive Deriv where
  | asm (r : Row)
  | realCombine (i : Nat) (d1 d2 : Deriv)
  | gcdCheck (d : Deriv)
  | directContr (d1 d2 : Deriv)
  deriving Repr, BEq, Inhabited

/-- gcd of a list of integers (0 for the empty / all-zero list). -/
def gcdList (l : List Int) : Nat := l.foldl (fun g c => Nat.gcd g c.natAbs) 0

/-- Division of every entry by `g > 0`, rounding down (the key entries divide exactly). -/
def divRow (r : Row) (g : Int) : Row := r.map (· / g)

/-- The row a derivation proves, if every step is legal:
* `asm r`: `r` is one of the given rows;
* `realCombine i d1 d2`: rows `f1`, `f2` of equal width with `f1[i] > 0 > f2[i]`, result
  `combine_real_factoid i f1 f2` (a positive combination);
* `gcdCheck d`: `g = gcd(key) > 1`, result: every entry divided by `g` (constant rounded down);
* `directContr d1 d2`: the sum of the two rows (it is a contradiction when that sum is a false row). -/
def evalDeriv (rows : List Row) : Deriv → Option Row
  | .asm r => if rows.contains r then some r else none
  | .realCombine i d1 d2 =>
    match evalDeriv rows d1, evalDeriv rows d2 with
    | some f1, some f2 => if f1.length = f2.length then Gen.combine_real_factoid (i : Int) f1 f2 else none
    | _, _ => none
  | .gcdCheck d =>
    match evalDeriv rows d with
    | some f =>
      let g := gcdList (rowKey f)
      if 1 < g ∧ f ≠ [] then some (divRow f (g : Int)) else none
    | none => none
  | .directContr d1 d2 =>
    match evalDeriv rows d1, evalDeriv rows d2 with
    | some f1, some f2 => if f1.length = f2.length then some (addRow f1 f2) else none
    | _, _ => none

/-- A derivation of a contradiction: it is legal and proves a row `0 ≤ c` with `c < 0`. -/
def checkDeriv (rows : List Row) (d : Deriv) : Bool :=
  match evalDeriv rows d with
  | some f => isFalseRow f
  | none => false

/-! ## The Omega procedure of omega.py -/

inductive Err where
  | assertion   -- AssertionError (`assert lower <= upper`, `zero_upto`, shadow preconditions)
  | value       -- ValueError (`one_var_analysis` without bounds, `min`/`max` of nothing)
  | type        -- TypeError (`f[None]` when no variable can be chosen)
  | fuel        -- model ran out of fuel (never happens with fuel > width)
  deriving Repr, BEq, Inhabited

structure DF where
  factoid : Row
  deriv : Deriv
  deriving Repr, Inhabited

/-- `db`: buckets `(hash class of the key, factoids)` in first-insertion order. -/
abbrev DB := List (List Int × List DF)

/-- the hash class of a key: CPython `hash(-1) == hash(-2)`. -/
def hk (key : List Int) : List Int := key.map fun c => if c == -1 then -2 else c

def insertDb : DB → DF → DB
  | [], fk => [(hk (rowKey fk.factoid), [fk])]
  | (h, b) :: rest, fk =>
    if h == hk (rowKey fk.factoid) then (h, b ++ [fk]) :: rest else (h, b) :: insertDb rest fk

/-- iteration order of `for _, dfs in db.items(): for df in dfs` -/
def flat (db : DB) : List DF := db.flatMap (·.2)

abbrev Store := List (Nat × Int)

def Store.get (s : Store) (i : Nat) : Int := (s.lookup i).getD 0
def Store.set : Store → Nat → Int → Store
  | [], i, v => [(i, v)]
  | (j, w) :: rest, i, v => if j == i then (j, v) :: rest else (j, w) :: Store.set rest i v

inductive Result where
  | contr (d : Deriv)
  | sat (s : Store)
  | noConcl
  | error (e : Err)
  deriving Repr, Inhabited

/-- the answer is a contradiction -/
def Result.isContr : Result → Bool
  | .contr _ => true
  | _ => false

/-- the answer is a satisfying assignment -/
def Result.isSat : Result → Bool
  | .sat _ => true
  | _ => false

inductive Mode where
  | real | dark | exact | edark
  deriving Repr, BEq, DecidableEq, Inhabited

def modeResult (em : Mode) (r : Result) : Result :=
  match em, r with
  | .exact, r => r
  | .real, .sat _ => .noConcl
  | .real, r => r
  | _, .contr _ => .noConcl
  | _, r => r

def dropContr : Result → Result
  | .contr _ => .noConcl
  | r => r

/-- `Factoid.eval_factoid_except(vmap, j)`: the row under `vmap` (absent variables count 0)
without the term of variable `j`. -/
def evalExcept : Row → Nat → Store → Nat → Int
  | [], _, _, _ => 0
  | [c], _, _, _ => c
  | a :: b :: rest, i, s, j => (if i == j then 0 else a * s.get i) + evalExcept (b :: rest) (i + 1) s j

/-- indices (in scan order) of the non-zero key entries of all factoids -/
def nonzeroIdx (dfs : List DF) : List Nat :=
  dfs.flatMap fun df => ((rowKey df.factoid).zipIdx.filter (fun p => p.1 != 0)).map (·.2)

/-- `has_one_var` -/
def hasOneVar (dfs : List DF) : Bool :=
  match nonzeroIdx dfs with
  | [] => false
  | x :: rest => rest.all (· == x)

/-- `find_var` -/
def findVar (dfs : List DF) : Option Nat := (nonzeroIdx dfs).head?

def coeffAt (f : Row) (i : Nat) : Int := (rowKey f).getD i 0

/-- the two scans of `one_var_analysis`: least upper constant / greatest lower bound, first wins -/
def scanUpper (x : Nat) : List DF → Option (Int × Deriv) → Option (Int × Deriv)
  | [], acc => acc
  | df :: rest, acc =>
    let fc := rowConst df.factoid
    if coeffAt df.factoid x < 0 then
      match acc with
      | none => scanUpper x rest (some (fc, df.deriv))
      | some (u, d) => if u > fc then scanUpper x rest (some (fc, df.deriv)) else scanUpper x rest (some (u, d))
    else scanUpper x rest acc

def scanLower (x : Nat) : List DF → Option (Int × Deriv) → Option (Int × Deriv)
  | [], acc => acc
  | df :: rest, acc =>
    let fc := rowConst df.factoid
    if coeffAt df.factoid x > 0 then
      match acc with
      | none => scanLower x rest (some (-fc, df.deriv))
      | some (l, d) => if l < -fc then scanLower x rest (some (-fc, df.deriv)) else scanLower x rest (some (l, d))
    else scanLower x rest acc

/-- `one_var_analysis` -/
def oneVarAnalysis (dfs : List DF) (em : Mode) : Result :=
  match findVar dfs with
  | none => .error .type
  | some x =>
    match scanUpper x dfs none, scanLower x dfs none with
    | none, none => .error .value
    | some (u, _), none => if em == .real then .noConcl else .sat [(x, u)]
    | none, some (l, _) => if em == .real then .noConcl else .sat [(x, l)]
    | some (u, du), some (l, dl) =>
      if u < l then
        if em == .dark || em == .edark then .noConcl else .contr (.directContr du dl)
      else
        if em == .real then .noConcl else .sat [(x, u)]

/-- per-variable summaries over the database -/
def anyNeg (dfs : List DF) (i : Nat) : Bool := dfs.any fun df => decide (coeffAt df.factoid i < 0)
def anyPos (dfs : List DF) (i : Nat) : Bool := dfs.any fun df => decide (coeffAt df.factoid i > 0)

/-- `find_redundant_var`: first variable with only upper or only lower bounds, with `has_up`.
(The Python scans inside a loop over the factoids, so an empty database or an empty key gives None.) -/
def findRedundantVar (dfs : List DF) (width : Nat) : Option (Nat × Bool) :=
  match dfs with
  | [] => none
  | df0 :: _ =>
    -- the inner loop ranges over the key of each factoid; all keys have the same length
    ((List.range (min (width - 1) (rowKey df0.factoid).length)).find? fun i => anyPos dfs i != anyNeg dfs i).map
      fun i => (i, anyNeg dfs i)

/-- `exact_var` -/
def exactVar (dfs : List DF) (width : Nat) : Option Nat :=
  let n := width - 1
  let lowUnit (i : Nat) : Bool := dfs.all fun df => decide (coeffAt df.factoid i > 0 → coeffAt df.factoid i = 1)
  let upUnit (i : Nat) : Bool := dfs.all fun df => decide (coeffAt df.factoid i < 0 → coeffAt df.factoid i = -1)
  let allZero (i : Nat) : Bool := dfs.all fun df => decide (coeffAt df.factoid i = 0)
  match (List.range n).find? (fun i => lowUnit i && !allZero i) with
  | some i => some i
  | none => (List.range n).find? (fun i => upUnit i && !allZero i)

/-- `least_coeff_var`: smallest non-zero sum of absolute values, smallest index among equals -/
def leastCoeffVar (dfs : List DF) (width : Nat) : Option Nat :=
  let sums := (List.range (width - 1)).map fun i => (dfs.foldl (fun s df => s + (coeffAt df.factoid i).natAbs) 0, i)
  (sums.filter (fun p => p.1 != 0)).foldl
    (fun best p => match best with
      | none => some p
      | some b => if p.1 < b.1 then some p else some b) none |>.map (·.2)

def listMin : List Int → Option Int
  | [] => none
  | a :: rest => some (rest.foldl min a)
def listMax : List Int → Option Int
  | [] => none
  | a :: rest => some (rest.foldl max a)

/-- `extend_vmap`: bounds for variable `i` from every factoid of `db` under `vmap`
(`upper` = least `⌊c0 / -coeff⌋` over the factoids with negative coefficient, `lower` = greatest
`⌈-c0 / coeff⌉` over those with positive coefficient; the Python loop computes the same minimum and
maximum one factoid at a time); returns the assignment extended with the least admissible value. -/
def extendVmap (dfs : List DF) (i : Nat) (s : Store) : Except Err Store :=
  let uppers := (dfs.filter fun df => decide (coeffAt df.factoid i < 0)).map fun df =>
    evalExcept df.factoid 0 s i / (-(coeffAt df.factoid i))
  let lowers := (dfs.filter fun df => decide (coeffAt df.factoid i > 0)).map fun df =>
    -(evalExcept df.factoid 0 s i / coeffAt df.factoid i)
  match listMax lowers, listMin uppers with
  | some lower, some upper => if lower ≤ upper then .ok (s.set i lower) else .error .assertion
  | _, _ => .error .type   -- comparison with None

def zeroUpto (n : Nat) : Store := (List.range (n + 1)).map fun i => (i, 0)

/-- gcd normalisation of a freshly combined factoid (`extend_cross_product`) -/
def normalizeDF (df : DF) : DF :=
  let g := gcdList (rowKey df.factoid)
  if 1 < g then ⟨divRow df.factoid (g : Int), .gcdCheck df.deriv⟩ else df

inductive XP where
  | contr (d : Deriv)
  | db (db : DB)
  | error (e : Err)
  deriving Inhabited

/-- is there a factoid with the same key and a constant `≤` in the bucket of `f`? -/
def redundantIn (db : DB) (f : Row) : Bool :=
  db.any fun hb => hb.1 == hk (rowKey f) &&
    hb.2.any fun v => rowKey v.factoid == rowKey f && decide (rowConst v.factoid ≤ rowConst f)

/-- one (lower, upper) pair of `extend_cross_product`; `none` = contradiction found -/
def crossStep (db : DB) (isExact : Bool) (i : Nat) (low up : DF) : XP :=
  let comb := if isExact then Gen.combine_real_factoid (i : Int) low.factoid up.factoid
              else Gen.combine_dark_factoid (i : Int) low.factoid up.factoid
  match comb with
  | none => .error .assertion
  | some f =>
    let df : DF := normalizeDF ⟨f, if isExact then .realCombine i low.deriv up.deriv else low.deriv⟩
    if isTrueRow df.factoid then .db db
    else if isFalseRow df.factoid then .contr df.deriv
    else if redundantIn db df.factoid then .db db
    else .db (insertDb db df)

def crossUppers (db : DB) (isExact : Bool) (i : Nat) (low : DF) : List DF → XP
  | [] => .db db
  | up :: rest =>
    match crossStep db isExact i low up with
    | .db db' => crossUppers db' isExact i low rest
    | r => r

/-- `extend_cross_product` -/
def extendCrossProduct (db : DB) (isExact : Bool) (i : Nat) : List DF → List DF → XP
  | [], _ => .db db
  | low :: rest, uppers =>
    match crossUppers db isExact i low uppers with
    | .db db' => extendCrossProduct db' isExact i rest uppers
    | r => r

def extendSat (dfs : List DF) (v : Nat) : Result → Result
  | .sat s => match extendVmap dfs v s with
    | .ok s' => .sat s'
    | .error e => .error e
  | r => r

/-- the redundant-variable branch of `solve` after the recursive call: give `j` its extreme value -/
def redundantPost (elim : List DF) (j : Nat) (hasUp : Bool) : Result → Result
  | .sat vmap =>
    let evaluated := elim.map fun df =>
      let e := evalExcept df.factoid 0 vmap j
      let a := coeffAt df.factoid j
      if hasUp then e / (-a) else -(e / a)
    match (if hasUp then listMin evaluated else listMax evaluated) with
    | some x => .sat (vmap.set j x)
    | none => .error .value
  | r => r

/-- the mode dispatch at the end of `solve`; `rec` is `solve` one level down -/
def elimDispatch (rec : Mode → XP → Result) (em : Mode) (isExact : Bool) (dfs : List DF) (v : Nat)
    (dbExact dbDark : XP) : Result :=
  match em with
  | .exact =>
    if isExact then extendSat dfs v (rec .exact dbExact)
    else match rec .real dbExact with
      | .contr d => .contr d
      | .error e => .error e
      | _ => dropContr (extendSat dfs v (rec .edark dbDark))
  | .real => rec .real dbExact
  | .edark =>
    if isExact then dropContr (extendSat dfs v (rec .edark dbExact))
    else dropContr (extendSat dfs v (rec .dark dbDark))
  | .dark =>
    if isExact then dropContr (extendSat dfs v (rec .dark dbExact))
    else dropContr (extendSat dfs v (rec .dark dbDark))

/-- `solve(em, db, width)`; `fuel` bounds the recursion depth (one variable disappears per level). -/
def solve : Nat → Mode → XP → Nat → Result
  | 0, _, _, _ => .error .fuel
  | _ + 1, _, .contr d, _ => .contr d
  | _ + 1, _, .error e, _ => .error e
  | fuel + 1, em, .db db, width =>
    let dfs := flat db
    if db.isEmpty then
      if width < 2 then .error .assertion else .sat (zeroUpto (width - 2))
    else if hasOneVar dfs then modeResult em (oneVarAnalysis dfs em)
    else match findRedundantVar dfs width with
    | some (j, hasUp) =>
      let newDb := (dfs.filter fun df => coeffAt df.factoid j == 0).foldl insertDb []
      let elim := dfs.filter fun df => coeffAt df.factoid j != 0
      redundantPost elim j hasUp (solve fuel em (.db newDb) width)
    | none =>
      let ev := exactVar dfs width
      let isExact := match ev with | some (_ + 1) => true | _ => false     -- `if var_to_elim:` (index 0 is falsy)
      let var? := if isExact then ev else leastCoeffVar dfs width
      match var? with
      | none => .error .type
      | some v =>
        -- `f[var_to_elim]` indexes the whole coefficient tuple; `var_to_elim < width - 1`, so it is the key entry
        let uppers := dfs.filter fun df => decide (coeffAt df.factoid v < 0)
        let lowers := dfs.filter fun df => decide (coeffAt df.factoid v > 0)
        let newDb := (dfs.filter fun df => decide (coeffAt df.factoid v = 0)).foldl insertDb []
        elimDispatch (fun m x => solve fuel m x width) em isExact dfs v
          (extendCrossProduct newDb true v lowers uppers) (extendCrossProduct newDb false v lowers uppers)

/-- `solve_matrix` (after fix C16-1: every input row is gcd-normalised, a false constant row is an
immediate contradiction, true constant rows are dropped). -/
def initDb : List Row → DB → XP
  | [], db => .db db
  | r :: rest, db =>
    let df := normalizeDF ⟨r, .asm r⟩
    if isFalseRow df.factoid then .contr df.deriv
    else if isTrueRow df.factoid then initDb rest db
    else initDb rest (insertDb db df)

def solveMatrix (fuel : Nat) (rows : List Row) : Result :=
  match rows with
  | [] => .error .type            -- `matrix[0]` on an empty matrix
  | r0 :: _ => solve fuel .exact (initDb rows []) r0.length

end Holpy.C16
