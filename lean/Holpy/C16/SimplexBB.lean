import Holpy.C16.SimplexModel
/-
C16 — executable model of `prover/simplex.py` `branch_and_bound` (the search loop).  Core Lean only.

A node of the search is the list `original` of its Simplex object: the constraints of the root plus
the bounds added on the way down (`add_ineqs(new_bound, *parent.original)`).  Processing a node is a
whole run `Simplex(); add_ineqs; handle_assertion()` (`run` of SimplexModel) — for the root the
caller has done `add_ineqs` already, which is the same computation.

* `all_integer()` looks at the variables in `input_vars` (here: the variables of the node's
  constraints) and tests `float(value).is_integer()`; the model tests the exact rational
  (they agree while numerators and denominators stay below 2^53).
* `find_not_int_var()` returns the first non-integer input variable in the iteration order of the
  `mapping` dict, which for constraints over several variables depends on the hash order of a set of
  strings (PYTHONHASHSEED).  The model takes the variables chosen by the real run as an oracle
  argument `picks` (one per branching); a pick that is not an input variable of the node is an error.
  No theorem depends on which variable is picked.
* the bare `except: continue` turns ANY exception inside a node into "node infeasible".  In the
  model the only exceptions of a node are `UNSATException` and `AssertUpper/LowerException`
  (`Outcome.unsat/conflict`); other exceptions (IndexError for a 27th slack name, KeyError, …) are
  not modelled — the harness counts the exceptions the real nodes raise and reports any other kind.
* the two children are pushed with `appendleft`, so the `x ≥ ⌈v⌉` child is expanded first.
* `budget` bounds the number of node expansions (the Python loop has no bound: it need not terminate).
-/
namespace Holpy.C16.Simplex

def floorQ (q : Rat) : Int := q.num / (q.den : Int)
def ceilQ (q : Rat) : Int := -floorQ (-q)

def inputVars (node : List Ineq) : List Var := node.flatMap fun q => q.jars.map (·.1)

def allInteger (node : List Ineq) (s : SState) : Bool := (inputVars node).all fun x => (s.mapping x).den == 1

inductive BBResult where
  | found (s : SState)        -- `return node.simplex.mapping`
  | none                      -- the queue ran empty: `return T` ("no integer solution")
  | gaveUp                    -- node budget exhausted (no counterpart in the Python: it keeps going)
  | fuel                      -- a `check()` of some node did not finish within the fuel
  | badPick                   -- the oracle named a variable that is not an input variable / ran out

/-- the loop of `branch_and_bound`; returns the result and the number of nodes expanded -/
def bbLoop (fuel : Nat) : Nat → List (List Ineq) → List Var → Nat → BBResult × Nat
  | _, [], _, n => (.none, n)
  | 0, _ :: _, _, n => (.gaveUp, n)
  | budget + 1, node :: rest, picks, n =>
    match (run fuel node).1 with
    | .unsat _ _ => bbLoop fuel budget rest picks (n + 1)
    | .conflict _ _ => bbLoop fuel budget rest picks (n + 1)
    | .fuel _ => (.fuel, n + 1)
    | .sat s =>
      if allInteger node s then (.found s, n + 1)
      else
        match picks with
        | [] => (.badPick, n + 1)
        | x :: picks' =>
          if !(inputVars node).contains x then (.badPick, n + 1)
          else
            let v := s.mapping x
            let lower : Ineq := ⟨.le, [(x, 1)], (floorQ v : Rat)⟩
            let upper : Ineq := ⟨.ge, [(x, 1)], (ceilQ v : Rat)⟩
            bbLoop fuel budget ((upper :: node) :: (lower :: node) :: rest) picks' (n + 1)

/-- `branch_and_bound(tableau built from qs, …)` -/
def branchAndBound (fuel budget : Nat) (qs : List Ineq) (picks : List Var) : BBResult × Nat :=
  bbLoop fuel budget [qs] picks 0

end Holpy.C16.Simplex
