import Holpy.C16.StrictSimplexAssert
/-
C16 — `handle_assertion` of the strict simplex model (mirror of SimplexHandle.lean over δ-rationals).
-/
namespace Holpy.C16.StrictSimplex
open Holpy.C16.Simplex Holpy.C16.Strict

/-- the statement about one outcome of `handle_assertion` started in `s` with `atoms` -/
def HandleSpecP (s : PState) (atoms : List PAtom) : POutcome → Prop
  | .sat s' => PInv s' ∧ (∀ w, RowsHold s'.sx.rows w ↔ RowsHold s.sx.rows w) ∧ (∀ x, PInB s' (pval s') x) ∧
      (∀ w : Var → Pair, (∀ y, PInB s' w y) ↔ ((∀ y, PInB s w y) ∧ ∀ a ∈ atoms, AtomHoldsP a w))
  | .unsat _ _ => ¬ ∃ w : Var → Pair, RowsHoldP s.sx.rows w ∧ (∀ y, PInB s w y) ∧ ∀ a ∈ atoms, AtomHoldsP a w
  | .conflict _ _ => ¬ ∃ w : Var → Pair, RowsHoldP s.sx.rows w ∧ (∀ y, PInB s w y) ∧ ∀ a ∈ atoms, AtomHoldsP a w
  | .fuel _ => True

theorem assert_atom (s : PState) (a : PAtom) (hinv : PInv s) :
    (∀ s1, (match a with | .leq x c => assertUpperP s x c | .geq x c => assertLowerP s x c) = .ok s1 →
      PInv s1 ∧ s1.sx.rows = s.sx.rows ∧ ∀ w : Var → Pair, (∀ y, PInB s1 w y) ↔ ((∀ y, PInB s w y) ∧ AtomHoldsP a w)) ∧
    ((match a with | .leq x c => assertUpperP s x c | .geq x c => assertLowerP s x c) = .conflict →
      ¬ ∃ w : Var → Pair, (∀ y, PInB s w y) ∧ AtomHoldsP a w) := by
  cases a with
  | geq x c => exact ⟨fun s1 h => assertLowerP_ok s s1 x c hinv h, fun h => assertLowerP_conflict s x c h⟩
  | leq x c => exact ⟨fun s1 h => assertUpperP_ok s s1 x c hinv h, fun h => assertUpperP_conflict s x c h⟩

theorem handle_spec (fuel : Nat) : ∀ (atoms : List PAtom) (s : PState) (k : Nat) (tr : List PState) (o : POutcome)
    (tr' : List PState), PInv s → (∀ x, PInB s (pval s) x) → handleAssertionP fuel s atoms k tr = (o, tr') →
    HandleSpecP s atoms o := by
  intro atoms
  induction atoms with
  | nil =>
    intro s k tr o tr' hinv hall h
    simp only [handleAssertionP] at h
    cases h
    exact ⟨hinv, fun _ => Iff.rfl, hall, fun w => by simp⟩
  | cons a rest ih =>
    intro s k tr o tr' hinv hall h
    simp only [handleAssertionP] at h
    obtain ⟨hok, hconf⟩ := assert_atom s a hinv
    split at h
    · rename_i hr
      cases h
      intro ⟨w, _, hb, hat⟩
      exact hconf hr ⟨w, hb, hat a (List.mem_cons_self ..)⟩
    · rename_i s1 hr
      obtain ⟨inv1, rows1, bnd1⟩ := hok s1 hr
      -- transfer a refutation for the state after the assertion / after check to `s`
      have back : ∀ (s2 : PState) (more : List PAtom), s2.lo = s1.lo → s2.hi = s1.hi → (∀ w, RowsHold s2.sx.rows w ↔ RowsHold s1.sx.rows w) →
          (∀ b ∈ more, b ∈ rest) →
          (¬ ∃ w : Var → Pair, RowsHoldP s2.sx.rows w ∧ (∀ y, PInB s2 w y) ∧ ∀ b ∈ more, AtomHoldsP b w) →
          ¬ ∃ w : Var → Pair, RowsHoldP s.sx.rows w ∧ (∀ y, PInB s w y) ∧ ∀ b ∈ a :: rest, AtomHoldsP b w := by
        intro s2 more hl hu hrw hsub hno
        rintro ⟨w, hw, hb, hat⟩
        apply hno
        refine ⟨w, ⟨(hrw _).mpr (by rw [rows1]; exact hw.1), (hrw _).mpr (by rw [rows1]; exact hw.2)⟩, fun y => (PInB_congr s1 s2 hl hu w y).mpr ?_, fun b hb' => hat b (List.mem_cons_of_mem _ (hsub b hb'))⟩
        exact ((bnd1 w).mpr ⟨hb, hat a (List.mem_cons_self ..)⟩) y
      split at h
      · rename_i s2 hc
        obtain ⟨inv2, l2, u2, r2, sat2, _⟩ := checkP_spec fuel s1 s2 .sat inv1 hc
        have hrec := ih s2 (k + 1) _ o tr' inv2 (sat2 rfl) h
        cases o with
        | sat s' =>
          obtain ⟨i3, r3, a3, b3⟩ := hrec
          refine ⟨i3, fun w => ((r3 w).trans (r2 w)).trans (by rw [rows1]), a3, fun w => ?_⟩
          rw [b3 w]
          constructor
          · rintro ⟨hb2, hrest⟩
            have hb1 : ∀ y, PInB s1 w y := fun y => (PInB_congr s1 s2 l2 u2 w y).mp (hb2 y)
            have := (bnd1 w).mp hb1
            refine ⟨this.1, ?_⟩
            intro b hb
            rcases List.mem_cons.mp hb with rfl | hb
            · exact this.2
            · exact hrest b hb
          · rintro ⟨hb, hat⟩
            refine ⟨fun y => (PInB_congr s1 s2 l2 u2 w y).mpr (((bnd1 w).mpr ⟨hb, hat a (List.mem_cons_self ..)⟩) y),
              fun b hb' => hat b (List.mem_cons_of_mem _ hb')⟩
        | unsat xi s' => exact back s2 rest l2 u2 r2 (fun b hb => hb) hrec
        | conflict k' s' => exact back s2 rest l2 u2 r2 (fun b hb => hb) hrec
        | fuel s' => trivial
      · rename_i xi s2 hc
        cases h
        obtain ⟨_, l2, u2, r2, _, un2⟩ := checkP_spec fuel s1 s2 (.unsat xi) inv1 hc
        refine back s2 [] l2 u2 r2 (by simp) ?_
        rintro ⟨w, hw, hb, _⟩
        exact un2 xi rfl ⟨w, hw, hb⟩
      · cases h; trivial

end Holpy.C16.StrictSimplex
