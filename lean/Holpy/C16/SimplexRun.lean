import Holpy.C16.SimplexBuild2
/-
C16 — a whole run of the simplex model (`Simplex(); add_ineqs; handle_assertion`) against the given constraints.
-/
namespace Holpy.C16.Simplex

theorem built_empty (N : Nat) : Built N emptyState :=
  ⟨rfl, rfl, rfl, rfl, rfl, by intro r hr; cases hr⟩

theorem rowOf_none (s : SState) (x : Var) (h : x ∉ s.rows.map (·.1)) : rowOf s x = none := by
  unfold rowOf
  cases hf : s.rows.find? (fun r => r.1 == x) with
  | none => rfl
  | some r =>
    have hr := List.mem_of_find?_eq_some hf
    have hb : r.1 = x := by simpa using List.find?_some hf
    exact absurd (List.mem_map.mpr ⟨r, hr, hb⟩) h

/-- conditions on the input of a run: every constraint mentions each variable once, and the
problem variables are numbered from `N` upwards, where `N` is at least the number of constraints
that are not plain bounds `x ≥ b` / `x ≤ b` (only those get slack variables, which are `0, 1, …`) -/
def InputOK (N : Nat) (qs : List Ineq) : Prop :=
  slackCount qs ≤ N ∧ ∀ q ∈ qs, DistinctVars q.jars ∧ ∀ x ∈ varsOf q.jars, N ≤ x

theorem run_sat (N fuel : Nat) (qs : List Ineq) (hin : InputOK N qs) (s' : SState) (tr : List SState)
    (h : run fuel qs = (.sat s', tr)) :
    ∀ q ∈ qs, (∀ x, q.jars ≠ [(x, 0)]) → IneqHolds q s'.mapping := by
  unfold run at h
  obtain ⟨b, idx, _, hat⟩ := addIneqs_spec N qs emptyState (built_empty N) hin.2
  generalize hs0 : addIneqs emptyState qs = res at h b idx hat
  obtain ⟨s0, atoms⟩ := res
  simp only at h b idx hat
  obtain ⟨hinv, hall⟩ := built_inv N s0 b (by simp [emptyState] at idx; have := hin.1; omega)
  obtain ⟨hr, hiff, _, hatoms⟩ := handle_assertion_sat hinv hall h
  exact ((hat s'.mapping ((hiff _).mp hr)).1).mp hatoms
where
  handle_assertion_sat {fuel : Nat} {s s' : SState} {atoms : List Atom} {k : Nat} {tr tr' : List SState}
      (hinv : Inv s) (hall : ∀ x, InB s s.mapping x) (h : handleAssertion fuel s atoms k tr = (.sat s', tr')) :
      RowsHold s'.rows s'.mapping ∧ (∀ w, RowsHold s'.rows w ↔ RowsHold s.rows w) ∧
        (∀ x, InB s s'.mapping x) ∧ ∀ a ∈ atoms, AtomHolds a s'.mapping := by
    obtain ⟨i, r, hb, hiff⟩ := handle_spec fuel atoms s k tr _ tr' hinv hall h
    have := (hiff s'.mapping).mp hb
    exact ⟨i.rows, r, this.1, this.2⟩

theorem run_unsat (N fuel : Nat) (qs : List Ineq) (hin : InputOK N qs) (o : Outcome) (tr : List SState)
    (h : run fuel qs = (o, tr)) (ho : (∃ xi s', o = .unsat xi s') ∨ (∃ j s', o = .conflict j s')) :
    ¬ ∃ w0 : Var → ℚ, ∀ q ∈ qs, IneqHolds q w0 := by
  unfold run at h
  obtain ⟨b, idx, _, hat⟩ := addIneqs_spec N qs emptyState (built_empty N) hin.2
  generalize hs0 : addIneqs emptyState qs = res at h b idx hat
  obtain ⟨s0, atoms⟩ := res
  simp only at h b idx hat
  have hidx : s0.index ≤ N := by simp [emptyState] at idx; have := hin.1; omega
  obtain ⟨hinv, hall⟩ := built_inv N s0 b hidx
  have hspec := handle_spec fuel atoms s0 0 [] o tr hinv hall h
  have hno : ¬ ∃ w : Var → ℚ, RowsHold s0.rows w ∧ (∀ y, InB s0 w y) ∧ ∀ a ∈ atoms, AtomHolds a w := by
    rcases ho with ⟨xi, s', rfl⟩ | ⟨j, s', rfl⟩ <;> exact hspec
  rintro ⟨w0, hw0⟩
  -- extend w0 to the slack variables by their defining rows
  let w : Var → ℚ := fun x => match rowOf s0 x with | some js => evalJ js w0 | none => w0 x
  have hheads := built_heads N s0 b
  have hfree : ∀ x, N ≤ x → w x = w0 x := by
    intro x hx
    have : x ∉ s0.rows.map (·.1) := by rw [hheads, List.mem_range]; omega
    simp only [w, rowOf_none s0 x this]
  have hevalN : ∀ js : Jars, (∀ x ∈ varsOf js, N ≤ x) → evalJ js w = evalJ js w0 :=
    fun js hjs => evalJ_congr js w w0 (fun x hx => hfree x (hjs x hx))
  have hrows : RowsHold s0.rows w := by
    intro r hr
    obtain ⟨bv, js⟩ := r
    have hro := rowOf_of_mem s0 hinv.wf.heads bv js hr
    show w bv = evalJ js w
    rw [hevalN js (b.rowvars _ hr).2]
    simp only [w, hro]
  have hq : ∀ q ∈ qs, IneqHolds q w := by
    intro q hq
    have := hw0 q hq
    have he := hevalN q.jars (hin.2 q hq).2
    unfold IneqHolds at this ⊢
    cases hk : q.kind <;> simp only [hk] at this ⊢ <;> rw [he] <;> exact this
  exact hno ⟨w, hrows, fun y => by simp [InB, b.nolo, b.nohi], (hat w hrows).2 hq⟩

end Holpy.C16.Simplex
