import Holpy.C16.SimplexStep
import Mathlib.Data.Fintype.Pi
import Mathlib.Data.Fintype.Card
import Mathlib.Data.Fintype.BigOperators
/-
C16 — `check n` is the n-fold iteration of `step`; if no configuration repeats along the run, `check`
terminates within the number of configurations (pigeonhole).
-/
namespace Holpy.C16.Simplex

/-- `check` unfolds into `step` -/
theorem check_succ (n : Nat) (s : SState) : check (n + 1) s =
    match step s with
    | .sat => (.sat, s)
    | .unsat xi => (.unsat xi, s)
    | .next s' => check n s' := by
  simp only [check, step]
  cases hp : pickViolated s with
  | none => rfl
  | some xi =>
    simp only
    by_cases hlt : ltLo s xi = true
    · simp only [hlt, if_true]
      generalize (List.find? _ (reducePairs ((rowOf s xi).getD []))) = o
      cases o <;> rfl
    · simp only [hlt, Bool.false_eq_true, if_false]
      generalize (List.find? _ (reducePairs ((rowOf s xi).getD []))) = o
      cases o <;> rfl

/-- if `check n` runs out of fuel, the first `n` steps were all repair steps -/
theorem traj_of_fuel : ∀ (n : Nat) (s : SState), (check n s).1 = .fuel → ∀ k, k ≤ n → ∃ a, traj s k = some a := by
  intro n
  induction n with
  | zero =>
    intro s _ k hk
    have : k = 0 := by omega
    subst this; exact ⟨s, rfl⟩
  | succ n ih =>
    intro s h k hk
    rw [check_succ] at h
    cases hs : step s with
    | sat => rw [hs] at h; cases h
    | unsat xi => rw [hs] at h; cases h
    | next s' =>
      rw [hs] at h
      cases k with
      | zero => exact ⟨s, rfl⟩
      | succ k =>
        obtain ⟨a, ha⟩ := ih s' h k (by omega)
        exact ⟨a, by simp only [traj, hs]; exact ha⟩

/-- no configuration (over the variables of the tableau of `s0`) occurs twice along the run from `s0` -/
def NoRepeat (s0 : SState) : Prop :=
  ∀ i j a b, i < j → traj s0 i = some a → traj s0 j = some b → conf (allVars s0) a ≠ conf (allVars s0) b

/-- **no repeat ⇒ terminates**: within `4 ^ (number of variable occurrences) + 1` steps -/
theorem check_terminates_of_no_repeat_aux (s0 : SState) (h : NoRepeat s0) : (check (confBound s0 + 1) s0).1 ≠ .fuel := by
  intro hf
  have hall := traj_of_fuel _ s0 hf
  let f : Fin (confBound s0 + 1) → (Fin (allVars s0).length → Fin 4) :=
    fun k => conf (allVars s0) ((traj s0 k.1).getD s0)
  have hinj : Function.Injective f := by
    intro i j hij
    by_contra hne
    have hne' : i.1 ≠ j.1 := fun e => hne (Fin.ext e)
    obtain ⟨a, ha⟩ := hall i.1 (by omega)
    obtain ⟨b, hb⟩ := hall j.1 (by omega)
    simp only [f, ha, hb, Option.getD_some] at hij
    rcases Nat.lt_or_gt_of_ne hne' with hlt | hgt
    · exact h i.1 j.1 a b hlt ha hb hij
    · exact h j.1 i.1 b a hgt hb ha hij.symm
  have := Fintype.card_le_of_injective f hinj
  rw [Fintype.card_fun, Fintype.card_fin, Fintype.card_fin, Fintype.card_fin] at this
  simp only [confBound] at this
  omega

/-- once the run has stopped it stays stopped -/
theorem traj_none_succ : ∀ (k : Nat) (s : SState), traj s k = none → traj s (k + 1) = none := by
  intro k
  induction k with
  | zero => intro s h; simp [traj] at h
  | succ k ih =>
    intro s h
    simp only [traj] at h ⊢
    cases hs : step s with
    | sat => rfl
    | unsat xi => rfl
    | next s' => rw [hs] at h; simp only at h ⊢; exact ih s' h

theorem traj_none_of_le (s : SState) (k n : Nat) (hk : k ≤ n) (h : traj s k = none) : traj s n = none := by
  induction n with
  | zero => have : k = 0 := by omega
            subst this; exact h
  | succ n ih =>
    rcases Nat.eq_or_lt_of_le hk with rfl | hlt
    · exact h
    · exact traj_none_succ n s (ih (by omega))

end Holpy.C16.Simplex
