import Holpy.C16.Model
import Holpy.C16.Proofs
namespace Holpy.C16
end Holpy.C16
