import Holpy.C16.Model
import Holpy.C16.Gen
import Holpy.C16.Proofs
import Holpy.C16.OmegaSound
import Holpy.C16.DarkShadow
import Holpy.C16.SatMain
/-
C16 — property theorems.  Rows are omega.py factoids `[c₁,…,cₙ,c₀]` meaning `0 ≤ Σ cᵢ·xᵢ₋₁ + c₀`.
`Sat rows v` : the integer assignment `v` satisfies every row.  `evalRowQ r v` : value of a row
under a rational assignment.
-/
namespace Holpy.C16

/-- A SAT answer whose witness passes `checkWitness` really satisfies every constraint
(the harness sends every `solve_matrix` / branch-and-bound witness through this checker). -/
theorem checkWitness_sound (rows : List Row) (v : List Int) (h : checkWitness rows v = true) :
    Sat rows (assignOf v) := by
  intro r hr
  have := List.all_eq_true.mp h r hr
  rw [decide_eq_true_eq, dotFrom_eq] at this
  exact this

example : checkWitness [[2, 3, 6], [-1, -4, 7]] [-9, 4] = true ∧ Sat [[2, 3, 6], [-1, -4, 7]] (assignOf [-9, 4]) :=
  ⟨by decide, checkWitness_sound _ _ (by decide)⟩

/-- A rational witness `xᵢ = pᵢ/q` (simplex assignment with denominators cleared) that passes
`checkWitnessQ` satisfies every constraint over ℚ. -/
theorem checkWitnessQ_sound (rows : List Row) (p : List Int) (q : Int) (h : checkWitnessQ rows p q = true) :
    ∀ r ∈ rows, 0 ≤ evalRowQ r (fun i => (p.getD i 0 : ℚ) / q) := by
  simp only [checkWitnessQ, Bool.and_eq_true, decide_eq_true_eq] at h
  intro r hr
  have hq : (0 : ℚ) < q := by exact_mod_cast h.1
  have h2 := List.all_eq_true.mp h.2 r hr
  rw [decide_eq_true_eq] at h2
  have hs := dotFromQ_spec r p q 0 0 (fun i => (p.getD i 0 : ℚ) / q) (ne_of_gt hq) (fun k => by simp)
  have h3 : (0 : ℚ) ≤ (dotFromQ r p q 0 : ℚ) := by exact_mod_cast h2
  rw [hs] at h3
  simp only [Int.cast_zero, zero_add] at h3
  exact nonneg_of_mul_nonneg_right h3 hq

example : checkWitnessQ [[2, -1], [-2, 1]] [1] 2 = true := by decide

/-- A Farkas certificate that passes `checkFarkas` (non-negative multipliers whose combination of the
rows is `0 ≤ c` with `c < 0`) proves that the system has no rational — hence no real, no integer —
solution.  The harness turns every simplex "unsatisfiable" explanation into such multipliers. -/
theorem checkFarkas_sound (rows : List Row) (coeffs : List Int) (h : checkFarkas rows coeffs = true) :
    ¬ ∃ v : Nat → ℚ, ∀ r ∈ rows, 0 ≤ evalRowQ r v := by
  rintro ⟨v, hv⟩
  cases rows with
  | nil => simp [checkFarkas] at h
  | cons r0 rs =>
    simp only [checkFarkas, Bool.and_eq_true, decide_eq_true_eq, List.all_eq_true] at h
    obtain ⟨⟨⟨⟨_, _⟩, hk⟩, hl⟩, hf⟩ := h
    have h1 := combRows_nonneg v coeffs (r0 :: rs) r0.length hl hk hv
    have h2 := isFalseRow_evalG_neg (combRows coeffs (r0 :: rs) r0.length) 0 v hf
    linarith

example : checkFarkas [[1, 1, -1], [-1, 0, 0], [0, -2, 1]] [2, 2, 1] = true := by decide

/-- A derivation that passes `checkDeriv` (assumptions are given rows; `combine_real_factoid`
combinations with the translated multipliers; division by the gcd of the variable coefficients with
the constant rounded down; sum of two rows) and ends in `0 ≤ c` with `c < 0` proves that the system
has no integer solution.  The harness sends every `Contr` derivation of `solve_matrix` through it. -/
theorem checkDeriv_sound (rows : List Row) (d : Deriv) (h : checkDeriv rows d = true) :
    ¬ ∃ v : Nat → Int, Sat rows v := by
  rintro ⟨v, hv⟩
  simp only [checkDeriv] at h
  split at h
  · rename_i f hf
    have h1 := evalDeriv_sound rows v hv d f hf
    have h2 := isFalseRow_evalG_neg f 0 v h
    rw [evalRow, evalAt_eq_evalG] at h1
    omega
  · simp at h

-- 2x - 1 ≥ 0 and -2x + 1 ≥ 0 (x = 1/2): contradiction only after gcd tightening
example : checkDeriv [[2, -1], [-2, 1]] (.directContr (.gcdCheck (.asm [-2, 1])) (.gcdCheck (.asm [2, -1]))) = true := by
  decide
example : checkDeriv [[1, 1, -3], [-1, 1, 0], [0, -1, 1]]
    (.realCombine 1 (.realCombine 0 (.asm [1, 1, -3]) (.asm [-1, 1, 0])) (.asm [0, -1, 1])) = true := by decide

/-- The model of `solve_matrix` (omega.py after fix C16-1; every fuel, every matrix whose rows have
one common width) answers `Contr d` only with a derivation `d` that the checker accepts: assumptions
are input rows, every `RealCombine`/`GCDCheck`/`DirectContr` step is legal, the last row is `0 ≤ c`
with `c < 0`.  Contradictions found while exploring dark shadows are never returned. -/
theorem omega_contr_sound (fuel : Nat) (rows : List Row) (w : Nat) (hw : ∀ r ∈ rows, r.length = w)
    (d : Deriv) (h : solveMatrix fuel rows = .contr d) : checkDeriv rows d = true := by
  cases rows with
  | nil => simp [solveMatrix] at h
  | cons r0 rs =>
    simp only [solveMatrix] at h
    exact solve_sound (r0 :: rs) w fuel .exact _ _ d (Or.inr rfl)
      (initDb_good (r0 :: rs) w (r0 :: rs) [] (fun r hr => ⟨hr, hw r hr⟩) (by intro df hdf; simp [flat] at hdf)) h

/-- … hence `Contr` is answered only for systems without integer solution. -/
theorem omega_contr_no_solution (fuel : Nat) (rows : List Row) (w : Nat) (hw : ∀ r ∈ rows, r.length = w)
    (d : Deriv) (h : solveMatrix fuel rows = .contr d) : ¬ ∃ v : Nat → Int, Sat rows v :=
  checkDeriv_sound rows d (omega_contr_sound fuel rows w hw d h)

-- non-vacuity: the model does answer `Contr` (parity: 2x = 1; and a two-variable elimination)
example : (solveMatrix 5 [[2, -1], [-2, 1]]).isContr = true := by decide
example : (solveMatrix 5 [[1, 1, -3], [-1, 1, 0], [0, -1, 1]]).isContr = true := by decide

/-- Dark-shadow lemma for the `combine_dark_factoid` that omega.py contains now (translated on
every run): whenever the dark factoid of a lower bound `f1` and an upper bound `f2` on `xᵢ` holds
under `v`, an integer value for `xᵢ` exists that satisfies `f1` and `f2` with the other variables
unchanged (`upd v i x`).  (Soundness of SAT answers does not need it — `extend_vmap` asserts
`lower ≤ upper` — but it is the reason why that assertion cannot fail after a dark elimination with a
single lower and a single upper bound.) -/
theorem dark_shadow_sound (i : Nat) (f1 f2 r : Row) (v : Nat → Int)
    (h : Gen.combine_dark_factoid (i : Int) f1 f2 = some r) (hl : f1.length = f2.length)
    (hr : 0 ≤ evalRow r v) :
    ∃ x : Int, 0 ≤ evalRow f1 (upd v i x) ∧ 0 ≤ evalRow f2 (upd v i x) :=
  dark_shadow_lemma i f1 f2 r v h hl hr

-- omega_test.py's example: dark shadow of 2x+3y+4 ≥ 0 and -3x-4y+7 ≥ 0 on x is y+24 ≥ 0
example : Gen.combine_dark_factoid 0 [2, 3, 4] [-3, -4, 7] = some [0, 1, 24] ∧
    0 ≤ evalRow [0, 1, 24] (fun _ => 0) := by decide

/-- The model of `solve_matrix` (omega.py after fix C16-1; every fuel, every matrix whose rows have
one common width) answers `Satisfiable s` only with an assignment that satisfies every input row
(variables absent from the dict count as 0, as in `eval_factoid_rhs`): back-substitution through
redundant-variable elimination, exact and dark elimination, one-variable analysis and the gcd
normalisation of the input are all covered. -/
theorem omega_sat_sound (fuel : Nat) (rows : List Row) (w : Nat) (hw : ∀ r ∈ rows, r.length = w)
    (s : Store) (h : solveMatrix fuel rows = .sat s) : Sat rows s.get :=
  solveMatrix_sat fuel rows w hw s h

-- non-vacuity: omega_test.py systems (the second one needs a dark shadow: no unit coefficient)
example : (solveMatrix 6 [[2, 3, 6], [-1, -4, 7]]).isSat = true := by decide
example : (solveMatrix 6 [[2, 3, 4], [-3, -4, 7], [4, -5, -10]]).isSat = true := by decide

end Holpy.C16
