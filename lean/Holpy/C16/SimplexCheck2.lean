import Holpy.C16.SimplexCheck
/-
C16 — `check()` of the simplex model: a stuck row is a Farkas-style refutation; a pivot step keeps
the invariant; `check` is sound for SAT and UNSAT (fuel-bounded: nothing is claimed when fuel runs out).
-/
namespace Holpy.C16.Simplex

theorem InB_congr (s s' : SState) (hlo : s'.lo = s.lo) (hhi : s'.hi = s.hi) (v : Var → ℚ) (x : Var) :
    InB s' v x ↔ InB s v x := by
  simp only [InB, hlo, hhi]

theorem mem_reducePairs_coeff (jars : Jars) (hd : DistinctVars jars) (j : Var × ℚ) (hj : j ∈ reducePairs jars) :
    coeffOf j.1 jars = j.2 := by
  rw [← coeffOf_reducePairs j.1 jars hd]
  exact coeffOf_mem j.1 j.2 _ (sorted_reducePairs jars).distinct hj

/-- the basic variable `xi` is below its lower bound and no non-basic variable of its row can move
in the helpful direction: the row and the bounds of its variables are contradictory -/
theorem stuck_lower_unsat (s : SState) (xi : Var) (jars : Jars) (hinv : Inv s) (hm : (xi, jars) ∈ s.rows)
    (hlt : ltLo s xi = true)
    (hnone : (reducePairs jars).find? (fun j => (decide (j.2 > 0) && belowHi s j.1) || (decide (j.2 < 0) && aboveLo s j.1)) = none) :
    ¬ ∃ v : Var → ℚ, RowsHold s.rows v ∧ ∀ x, InB s v x := by
  rintro ⟨v, hrows, hb⟩
  have hall := List.find?_eq_none.mp hnone
  have hle : evalJ (reducePairs jars) v ≤ evalJ (reducePairs jars) s.mapping := by
    apply evalJ_le
    intro j hj
    have hj' := hall j hj
    simp only [Bool.or_eq_true, Bool.and_eq_true, decide_eq_true_eq, not_or, not_and] at hj'
    rcases lt_trichotomy j.2 0 with hneg | hz | hpos
    · have := hj'.2 hneg
      simp only [aboveLo] at this
      cases hl : s.lo j.1 with
      | none => simp [hl] at this
      | some l =>
        simp only [hl, decide_eq_true_eq, not_lt] at this
        have := (hb j.1).1 l hl
        nlinarith
    · rw [hz]; simp
    · have := hj'.1 hpos
      simp only [belowHi] at this
      cases hu : s.hi j.1 with
      | none => simp [hu] at this
      | some u =>
        simp only [hu, decide_eq_true_eq, not_lt] at this
        have := (hb j.1).2 u hu
        nlinarith
  rw [evalJ_reducePairs, evalJ_reducePairs] at hle
  have h1 := hrows _ hm
  have h2 := hinv.rows _ hm
  simp only at h1 h2
  simp only [ltLo] at hlt
  cases hl : s.lo xi with
  | none => simp [hl] at hlt
  | some l =>
    simp only [hl, decide_eq_true_eq] at hlt
    have := (hb xi).1 l hl
    linarith

theorem stuck_upper_unsat (s : SState) (xi : Var) (jars : Jars) (hinv : Inv s) (hm : (xi, jars) ∈ s.rows)
    (hgt : gtHi s xi = true)
    (hnone : (reducePairs jars).find? (fun j => (decide (j.2 < 0) && belowHi s j.1) || (decide (j.2 > 0) && aboveLo s j.1)) = none) :
    ¬ ∃ v : Var → ℚ, RowsHold s.rows v ∧ ∀ x, InB s v x := by
  rintro ⟨v, hrows, hb⟩
  have hall := List.find?_eq_none.mp hnone
  have hle : evalJ (reducePairs jars) s.mapping ≤ evalJ (reducePairs jars) v := by
    apply evalJ_le
    intro j hj
    have hj' := hall j hj
    simp only [Bool.or_eq_true, Bool.and_eq_true, decide_eq_true_eq, not_or, not_and] at hj'
    rcases lt_trichotomy j.2 0 with hneg | hz | hpos
    · have := hj'.1 hneg
      simp only [belowHi] at this
      cases hu : s.hi j.1 with
      | none => simp [hu] at this
      | some u =>
        simp only [hu, decide_eq_true_eq, not_lt] at this
        have := (hb j.1).2 u hu
        nlinarith
    · rw [hz]; simp
    · have := hj'.2 hpos
      simp only [aboveLo] at this
      cases hl : s.lo j.1 with
      | none => simp [hl] at this
      | some l =>
        simp only [hl, decide_eq_true_eq, not_lt] at this
        have := (hb j.1).1 l hl
        nlinarith
  rw [evalJ_reducePairs, evalJ_reducePairs] at hle
  have h1 := hrows _ hm
  have h2 := hinv.rows _ hm
  simp only at h1 h2
  simp only [gtHi] at hgt
  cases hu : s.hi xi with
  | none => simp [hu] at hgt
  | some u =>
    simp only [hu, decide_eq_true_eq] at hgt
    have := (hb xi).2 u hu
    linarith

/-- one repair step keeps the invariant, the bounds and the solution set of the rows -/
theorem pivotAndUpdate_inv (s : SState) (xi xj : Var) (jars : Jars) (v : ℚ) (hinv : Inv s)
    (hm : (xi, jars) ∈ s.rows) (ha : coeffOf xj jars ≠ 0)
    (hv : (∀ l, s.lo xi = some l → l ≤ v) ∧ (∀ u, s.hi xi = some u → v ≤ u)) :
    Inv (pivotAndUpdate s xi xj v) ∧ (pivotAndUpdate s xi xj v).lo = s.lo ∧ (pivotAndUpdate s xi xj v).hi = s.hi ∧
      ∀ w, RowsHold (pivotAndUpdate s xi xj v).rows w ↔ RowsHold s.rows w := by
  have hrh := pivotAndUpdate_rowsHold s xi xj jars v hinv.wf hm ha hinv.rows
  have hxj := mem_varsOf_of_coeff_ne xj jars ha
  have hxjnb : isBasic s xj = false := hinv.wf.nonbasic _ hm xj hxj
  have hxib : isBasic s xi = true := (isBasic_iff s xi).mpr (List.mem_map.mpr ⟨_, hm, rfl⟩)
  unfold pivotAndUpdate at hrh ⊢
  set m1 : Var → ℚ := fun y =>
    if y = xi then v else if y = xj then s.mapping xj + (v - s.mapping xi) / aij s xi xj
    else if isBasic s y then s.mapping y + aij s y xj * ((v - s.mapping xi) / aij s xi xj) else s.mapping y with hm1
  set s1 : SState := { s with mapping := m1 } with hs1
  have hwf1 : WF s1 := ⟨hinv.wf.heads, hinv.wf.distinct, hinv.wf.nonbasic⟩
  refine ⟨⟨pivot_WF s1 xi xj jars hwf1 hm hxj, hrh, ?_, hinv.bnd⟩, rfl, rfl, fun w => pivot_rows_iff s1 xi xj jars hwf1 hm ha w⟩
  intro x hx
  have hnot : ¬ ((isBasic s1 x = true ∧ x ≠ xi) ∨ x = xj) := fun h => by
    have := (isBasic_pivot s1 xi xj jars hwf1.heads hm x).mpr h
    rw [hx] at this; cases this
  have hxne : x ≠ xj := fun e => hnot (Or.inr e)
  show InB s m1 x
  by_cases hxi : x = xi
  · subst hxi
    simp only [InB, hm1, if_true]
    exact hv
  · have hnb : isBasic s x = false := by
      cases hb : isBasic s x with
      | false => rfl
      | true => exact absurd (Or.inl ⟨hb, hxi⟩) hnot
    have : m1 x = s.mapping x := by simp only [hm1, if_neg hxi, if_neg hxne, hnb]; simp
    simp only [InB, this]
    exact hinv.nb x hnb

end Holpy.C16.Simplex
