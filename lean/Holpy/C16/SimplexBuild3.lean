import Holpy.C16.SimplexBuild2
/-
C16 — structural form of `add_ineq`: the atom it produces is on a variable whose value, under every
solution of the row equations, is the value of the constraint's linear form.
-/
namespace Holpy.C16.Simplex

/-- the atom of `add_ineq` is `mkAtom kind v bound` with `v = Σ cⱼ·xⱼ` on every solution of the rows -/
def VarSpec (q : Ineq) (res : SState × Option Atom) : Prop :=
  ∀ a, res.2 = some a → ∃ v, a = mkAtom q.kind v q.bound ∧
    ∀ rows : List (Var × Jars), (∀ r ∈ res.1.rows, r ∈ rows) → ∀ w : Var → ℚ, RowsHold rows w → w v = evalJ q.jars w

theorem slack_case_var (N : Nat) (s : SState) (k : Kind) (js : Jars) (b : ℚ) (hb : Built N s)
    (post : SState → Var → SState) (hpost : ∀ t sl, (post t sl).rows = t.rows) :
    VarSpec ⟨k, js, b⟩
      (match s.matrix.find? (fun p => p.1 == js) with
       | some p => (post s p.2, some (mkAtom k p.2 b))
       | none =>
         (post { s with index := s.index + 1, matrix := s.matrix ++ [(js, s.index)], rows := s.rows ++ [(s.index, js)] } s.index,
           some (mkAtom k s.index b))) := by
  split
  · rename_i p hfind
    have hp := List.mem_of_find?_eq_some hfind
    have hpe : p.1 = js := by simpa using List.find?_some hfind
    have hrow : (p.2, js) ∈ s.rows := by
      rw [hb.rows_eq, ← hpe]; exact List.mem_map.mpr ⟨p, hp, rfl⟩
    intro a ha
    simp only [Option.some.injEq] at ha; subst ha
    refine ⟨p.2, rfl, ?_⟩
    intro rows hsub w hw
    exact hw _ (hsub _ (by rw [hpost s p.2]; exact hrow))
  · intro a ha
    simp only [Option.some.injEq] at ha; subst ha
    refine ⟨s.index, rfl, ?_⟩
    intro rows hsub w hw
    exact hw (s.index, js) (hsub _ (by rw [hpost _ s.index]; simp))

theorem addIneq_var (N : Nat) (s : SState) (q : Ineq) (hb : Built N s) : VarSpec q (addIneq s q) := by
  obtain ⟨k, jars, b⟩ := q
  unfold addIneq
  simp only
  split
  · rename_i x c
    split
    · rename_i hc
      have hc' : c = 1 := by simpa using hc
      subst hc'
      intro a ha
      simp only [Option.some.injEq] at ha; subst ha
      exact ⟨x, rfl, fun rows _ w _ => by simp [evalJ]⟩
    · split
      · intro a ha; simp at ha
      · exact slack_case_var N s k [(x, c)] b hb (fun t sl => addVar (addVar t x) sl) (by
          intro t sl; exact ((addVar_same (addVar t x) sl).1).trans (addVar_same t x).1)
  · obtain ⟨f1, f2, f3⟩ := foldl_addVar_same jars s
    exact slack_case_var N (jars.foldl (fun st j => addVar st j.1) s) k jars b (built_foldl_addVar N jars s hb)
      (fun t sl => addVar t sl) (fun t sl => (addVar_same t sl).1)

end Holpy.C16.Simplex
