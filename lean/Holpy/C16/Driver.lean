import Holpy.Common.Sexp
import Holpy.C16.Model
import Holpy.C16.SimplexModel
import Holpy.C16.SimplexBB
import Holpy.C16.SimplexStep
import Holpy.C16.StrictModel
import Holpy.C16.StrictSimplexModel
/-
Line protocol for the C16 model (one s-expression in, one out):
  (omega FUEL ROWS)          -> (sat ((var val) ...) W) | (contr DERIV C) | noconcl | (error KIND)
                                W = checkWitness ROWS store, C = checkDeriv ROWS DERIV
  (witness ROWS V)           -> T | F          checkWitness
  (witnessq ROWS P Q)        -> T | F          checkWitnessQ (x_i = P_i / Q)
  (farkas ROWS COEFFS)       -> T | F          checkFarkas
  (deriv ROWS DERIV)         -> (T|F ROW) | (F none)    checkDeriv and the row the derivation proves
  (combine real|dark I F1 F2)-> ROW | none     the translated combine_*_factoid
  (simplex FUEL INEQS)       -> (OUTCOME ATOMS STATE ...)   model of Simplex(): add_ineqs + handle_assertion;
                                INEQS = ((ge|le ((var coeff) ...) bound) ...) with integer entries,
                                OUTCOME = sat | (unsat xi) | (conflict k) | fuel, ATOMS = ((ge|le var bound) ...),
                                STATE = ((basic ...) ((var value) ...)) after every check(), value = p/q
  (norepeat FUEL INEQS)      -> (T|F MAXSTEPS)   monitor of the hypothesis BlandNoRepeat: along every check() of the run
                                (add_ineqs + handle_assertion) no configuration occurs twice; MAXSTEPS = longest check()
  (bb FUEL BUDGET PICKS INEQS) -> ((found ((var value) ...)) | none | gaveup | fuel | badpick) NODES   model of branch_and_bound;
                                PICKS = the variables find_not_int_var chose in the real run, in order
  (ssimplex FUEL INEQS)      -> like `simplex` for simplex_strict.Simplex: INEQS = ((ge|le ((var coeff) ...) BX BY) ...),
                                values are pairs: STATE = ((basic ...) ((var x y) ...)), ATOMS = ((ge|le var x y) ...)
  (delta ((X1 Y1 X2 Y2) ...))  -> (MULTI B ...)   multi_delta of the pairs (Pair(X1,Y1), Pair(X2,Y2)) and binary_delta of each
                                (none where p1 <= p2 fails); rationals as p/q
ROWS = (ROW ...), ROW = (c1 ... cn c0), DERIV = (asm ROW) | (rc I D D) | (gcd D) | (dc D D)
-/
open Holpy Holpy.C16

namespace Holpy.C16.Driver

def intsOf (s : Sexp) : Option (List Int) := do (← s.toList?).mapM Sexp.toInt?
def rowsOf (s : Sexp) : Option (List Row) := do (← s.toList?).mapM intsOf

partial def derivOf : Sexp → Option Deriv
  | .list [.atom "asm", r] => do some (.asm (← intsOf r))
  | .list [.atom "rc", i, a, b] => do some (.realCombine (← i.toNat?) (← derivOf a) (← derivOf b))
  | .list [.atom "gcd", a] => do some (.gcdCheck (← derivOf a))
  | .list [.atom "dc", a, b] => do some (.directContr (← derivOf a) (← derivOf b))
  | _ => none

def rowTo (r : Row) : Sexp := .list (r.map Sexp.ofInt)

def derivTo : Deriv → Sexp
  | .asm r => .list [.atom "asm", rowTo r]
  | .realCombine i a b => .list [.atom "rc", Sexp.ofNat i, derivTo a, derivTo b]
  | .gcdCheck a => .list [.atom "gcd", derivTo a]
  | .directContr a b => .list [.atom "dc", derivTo a, derivTo b]

def errTo : Err → String
  | .assertion => "assertion"
  | .value => "value"
  | .type => "type"
  | .fuel => "fuel"

def storeList (s : Store) (n : Nat) : List Int := (List.range n).map s.get

/-! ### simplex -/
open Holpy.C16.Simplex in
def ineqOf : Sexp → Option Ineq
  | .list [.atom k, js, b] => do
    let kind ← if k == "ge" then some Kind.ge else if k == "le" then some Kind.le else none
    let jars ← (← js.toList?).mapM fun
      | .list [x, c] => do some ((← x.toNat?), ((← c.toInt?) : Rat))
      | _ => none
    some ⟨kind, jars, ((← b.toInt?) : Rat)⟩
  | _ => none

def ratTo (q : Rat) : Sexp := .atom (toString q.num ++ "/" ++ toString q.den)

open Holpy.C16.Simplex in
def stateTo (s : SState) : Sexp :=
  .list [.list (s.rows.map fun r => Sexp.ofNat r.1), .list (s.vars.map fun x => .list [Sexp.ofNat x, ratTo (s.mapping x)])]

open Holpy.C16.Simplex in
def atomTo : Atom → Sexp
  | .geq x c => .list [.atom "ge", Sexp.ofNat x, ratTo c]
  | .leq x c => .list [.atom "le", Sexp.ofNat x, ratTo c]

open Holpy.C16.Simplex in
def handleSimplex (fuel : Nat) (qs : List Ineq) : String :=
  let (s0, atoms) := addIneqs emptyState qs
  let (o, tr) := handleAssertion fuel s0 atoms 0 []
  let oc : Sexp := match o with
    | .sat _ => .atom "sat"
    | .unsat xi _ => .list [.atom "unsat", Sexp.ofNat xi]
    | .conflict k _ => .list [.atom "conflict", Sexp.ofNat k]
    | .fuel _ => .atom "fuel"
  toString (Sexp.list ([oc, .list (atoms.map atomTo), stateTo s0] ++ tr.map stateTo))

def ratOf : Sexp → Option Rat
  | .atom a =>
    match a.splitOn "/" with
    | [p] => p.toInt?.map fun n => (n : Rat)
    | [p, q] => do
      let n ← p.toInt?
      let d ← q.toNat?
      if d == 0 then none else some ((n : Rat) / (d : Rat))
    | _ => none
  | _ => none

open Holpy.C16.Strict in
def handleDelta (ps : List (Pair × Pair)) : String :=
  toString (Sexp.list (ratTo (multiDelta ps) :: ps.map fun pq =>
    match binaryDelta pq.1 pq.2 with
    | some d => ratTo d
    | none => .atom "none"))

namespace NoRepeatMon
open Holpy.C16.Simplex

def confList (vs : List Var) (s : SState) : List Nat := vs.map fun x => (code s x).val

/-- iterate `step`, collecting the configuration of every state of this `check()` -/
def runConfs : Nat → SState → List Var → List (List Nat) → List (List Nat) × Option SState
  | 0, s, vs, acc => (acc ++ [confList vs s], none)
  | n + 1, s, vs, acc =>
    match step s with
    | .sat => (acc ++ [confList vs s], some s)
    | .unsat _ => (acc ++ [confList vs s], none)
    | .next s' => runConfs n s' vs (acc ++ [confList vs s])

def monitor (fuel : Nat) : SState → List Atom → Bool → Nat → Bool × Nat
  | _, [], ok, mx => (ok, mx)
  | s, a :: rest, ok, mx =>
    let r := match a with
      | .leq x c => assertUpper s x c
      | .geq x c => assertLower s x c
    match r with
    | .conflict => (ok, mx)
    | .ok s1 =>
      let (confs, s2) := runConfs fuel s1 (allVars s1) []
      let ok' := ok && (confs.eraseDups.length == confs.length)
      let mx' := max mx (confs.length - 1)
      match s2 with
      | some s2 => monitor fuel s2 rest ok' mx'
      | none => (ok', mx')

end NoRepeatMon

open Holpy.C16.Simplex in
def handleNoRepeat (fuel : Nat) (qs : List Ineq) : String :=
  let (s0, atoms) := addIneqs emptyState qs
  let (ok, mx) := NoRepeatMon.monitor fuel s0 atoms true 0
  toString (Sexp.list [Sexp.ofBool ok, Sexp.ofNat mx])

open Holpy.C16.Simplex in
def handleBB (fuel budget : Nat) (picks : List Nat) (qs : List Ineq) : String :=
  let (r, n) := branchAndBound fuel budget qs picks
  let rs : Sexp := match r with
    | .found s => .list [.atom "found", .list (s.vars.map fun x => .list [Sexp.ofNat x, ratTo (s.mapping x)])]
    | .none => .atom "none"
    | .gaveUp => .atom "gaveup"
    | .fuel => .atom "fuel"
    | .badPick => .atom "badpick"
  toString (Sexp.list [rs, Sexp.ofNat n])

open Holpy.C16.Simplex Holpy.C16.StrictSimplex in
def handleSSimplex (fuel : Nat) (qs : List PIneq) : String :=
  let (s0, atoms) := addIneqsP emptyP qs
  let (o, tr) := handleAssertionP fuel s0 atoms 0 []
  let oc : Sexp := match o with
    | .sat _ => .atom "sat"
    | .unsat xi _ => .list [.atom "unsat", Sexp.ofNat xi]
    | .conflict k _ => .list [.atom "conflict", Sexp.ofNat k]
    | .fuel _ => .atom "fuel"
  let st (s : PState) : Sexp :=
    .list [.list (s.sx.rows.map fun r => Sexp.ofNat r.1), .list (s.sx.vars.map fun x => .list [Sexp.ofNat x, ratTo (s.sx.mapping x), ratTo (s.my x)])]
  let atomS (a : PAtom) : Sexp := match a with
    | .geq x c => .list [.atom "ge", Sexp.ofNat x, ratTo c.x, ratTo c.y]
    | .leq x c => .list [.atom "le", Sexp.ofNat x, ratTo c.x, ratTo c.y]
  toString (Sexp.list ([oc, .list (atoms.map atomS), st s0] ++ tr.map st))

open Holpy.C16.Simplex Holpy.C16.StrictSimplex in
def pineqOf : Sexp → Option PIneq
  | .list [.atom k, js, bx, by_] => do
    let kind ← if k == "ge" then some Kind.ge else if k == "le" then some Kind.le else none
    let jars ← (← js.toList?).mapM fun
      | .list [x, c] => do some ((← x.toNat?), ((← c.toInt?) : Rat))
      | _ => none
    some ⟨kind, jars, ⟨← ratOf bx, ← ratOf by_⟩⟩
  | _ => none

def handle (line : String) : String :=
  match Sexp.parse line with
  | some (.list [.atom "omega", fuel, rows]) =>
    match fuel.toNat?, rowsOf rows with
    | some f, some rs =>
      match solveMatrix f rs with
      | .sat s =>
        let n := (rs.headD []).length - 1
        toString (Sexp.list [.atom "sat", .list (s.map fun p => .list [Sexp.ofNat p.1, Sexp.ofInt p.2]),
          Sexp.ofBool (checkWitness rs (storeList s n))])
      | .contr d => toString (Sexp.list [.atom "contr", derivTo d, Sexp.ofBool (checkDeriv rs d)])
      | .noConcl => "noconcl"
      | .error e => toString (Sexp.list [.atom "error", .atom (errTo e)])
    | _, _ => "bad-op"
  | some (.list [.atom "witness", rows, v]) =>
    match rowsOf rows, intsOf v with
    | some rs, some v => toString (Sexp.ofBool (checkWitness rs v))
    | _, _ => "bad-op"
  | some (.list [.atom "witnessq", rows, p, q]) =>
    match rowsOf rows, intsOf p, q.toInt? with
    | some rs, some p, some q => toString (Sexp.ofBool (checkWitnessQ rs p q))
    | _, _, _ => "bad-op"
  | some (.list [.atom "farkas", rows, cs]) =>
    match rowsOf rows, intsOf cs with
    | some rs, some cs => toString (Sexp.ofBool (checkFarkas rs cs))
    | _, _ => "bad-op"
  | some (.list [.atom "deriv", rows, d]) =>
    match rowsOf rows, derivOf d with
    | some rs, some d =>
      match evalDeriv rs d with
      | some r => toString (Sexp.list [Sexp.ofBool (checkDeriv rs d), rowTo r])
      | none => "(F none)"
    | _, _ => "bad-op"
  | some (.list [.atom "combine", .atom kind, i, f1, f2]) =>
    match i.toInt?, intsOf f1, intsOf f2 with
    | some i, some a, some b =>
      let r := if kind == "real" then Gen.combine_real_factoid i a b
               else if kind == "dark" then Gen.combine_dark_factoid i a b else none
      if kind != "real" && kind != "dark" then "bad-op" else
      match r with
      | some r => toString (rowTo r)
      | none => "none"
    | _, _, _ => "bad-op"
  | some (.list [.atom "ssimplex", fuel, qs]) =>
    match fuel.toNat?, (qs.toList?.bind fun l => l.mapM pineqOf) with
    | some f, some qs => handleSSimplex f qs
    | _, _ => "bad-op"
  | some (.list [.atom "delta", ps]) =>
    match (ps.toList?.bind fun l => l.mapM fun
        | .list [a, b, c, d] => do some ((⟨← ratOf a, ← ratOf b⟩ : Holpy.C16.Strict.Pair), (⟨← ratOf c, ← ratOf d⟩ : Holpy.C16.Strict.Pair))
        | _ => none) with
    | some ps => handleDelta ps
    | none => "bad-op"
  | some (.list [.atom "norepeat", fuel, qs]) =>
    match fuel.toNat?, (qs.toList?.bind fun l => l.mapM ineqOf) with
    | some f, some qs => handleNoRepeat f qs
    | _, _ => "bad-op"
  | some (.list [.atom "bb", fuel, budget, picks, qs]) =>
    match fuel.toNat?, budget.toNat?, (picks.toList?.bind fun l => l.mapM Sexp.toNat?), (qs.toList?.bind fun l => l.mapM ineqOf) with
    | some f, some b, some ps, some qs => handleBB f b ps qs
    | _, _, _, _ => "bad-op"
  | some (.list [.atom "simplex", fuel, qs]) =>
    match fuel.toNat?, (qs.toList?.bind fun l => l.mapM ineqOf) with
    | some f, some qs => handleSimplex f qs
    | _, _ => "bad-op"
  | _ => "bad-op"

end Holpy.C16.Driver

def main : IO Unit := Holpy.lineLoop Holpy.C16.Driver.handle
