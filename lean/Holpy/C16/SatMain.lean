import Holpy.C16.SatSolve
/-
C16 — `solve` / `solve_matrix` of the model answer `sat s` only with an assignment that satisfies
every factoid of the database / every input row.
-/
namespace Holpy.C16

theorem extendSat_sat (dfs : List DF) (v : Nat) (r : Result) (s : Store) (h : extendSat dfs v r = .sat s) :
    ∃ vmap, r = .sat vmap ∧ extendVmap dfs v vmap = .ok s := by
  unfold extendSat at h
  split at h
  · rename_i vmap
    split at h
    · rename_i s' he
      cases h
      exact ⟨vmap, rfl, he⟩
    · cases h
  · rename_i hne
    exact absurd h (by intro he; exact hne s he)

theorem dropContr_sat (r : Result) (s : Store) (h : dropContr r = .sat s) : r = .sat s := by
  unfold dropContr at h
  split at h
  · cases h
  · exact h

theorem modeResult_sat (em : Mode) (r : Result) (s : Store) (h : modeResult em r = .sat s) : r = .sat s := by
  cases em <;> cases r <;> simp_all [modeResult]

theorem elimDispatch_sat (rec : Mode → XP → Result) (em : Mode) (isExact : Bool) (dfs : List DF) (v : Nat)
    (dbE dbD : XP) (s : Store) (hem : em ≠ .real) (h : elimDispatch rec em isExact dfs v dbE dbD = .sat s) :
    ∃ em' xp vmap, em' ≠ .real ∧ (xp = dbE ∨ xp = dbD) ∧ rec em' xp = .sat vmap ∧ extendVmap dfs v vmap = .ok s := by
  unfold elimDispatch at h
  split at h
  · split at h
    · obtain ⟨vmap, h1, h2⟩ := extendSat_sat _ _ _ _ h
      exact ⟨.exact, dbE, vmap, by simp, Or.inl rfl, h1, h2⟩
    · split at h
      · cases h
      · cases h
      · obtain ⟨vmap, h1, h2⟩ := extendSat_sat _ _ _ _ (dropContr_sat _ _ h)
        exact ⟨.edark, dbD, vmap, by simp, Or.inr rfl, h1, h2⟩
  · exact absurd rfl hem
  · split at h
    · obtain ⟨vmap, h1, h2⟩ := extendSat_sat _ _ _ _ (dropContr_sat _ _ h)
      exact ⟨.edark, dbE, vmap, by simp, Or.inl rfl, h1, h2⟩
    · obtain ⟨vmap, h1, h2⟩ := extendSat_sat _ _ _ _ (dropContr_sat _ _ h)
      exact ⟨.dark, dbD, vmap, by simp, Or.inr rfl, h1, h2⟩
  · split at h
    · obtain ⟨vmap, h1, h2⟩ := extendSat_sat _ _ _ _ (dropContr_sat _ _ h)
      exact ⟨.dark, dbE, vmap, by simp, Or.inl rfl, h1, h2⟩
    · obtain ⟨vmap, h1, h2⟩ := extendSat_sat _ _ _ _ (dropContr_sat _ _ h)
      exact ⟨.dark, dbD, vmap, by simp, Or.inr rfl, h1, h2⟩

theorem solve_contr_ne_sat (fuel : Nat) (em : Mode) (d : Deriv) (w : Nat) (s : Store) :
    solve fuel em (.contr d) w ≠ .sat s := by
  cases fuel <;> simp [solve]

theorem solve_error_ne_sat (fuel : Nat) (em : Mode) (e : Err) (w : Nat) (s : Store) :
    solve fuel em (.error e) w ≠ .sat s := by
  cases fuel <;> simp [solve]

/-- outside REAL mode, `sat s` means: `s` satisfies every factoid of the (normalised) database -/
theorem solve_sat (W : Nat) : ∀ (fuel : Nat) (em : Mode) (db : DB) (w : Nat) (s : Store), em ≠ .real →
    (∀ df ∈ flat db, NormDF W df) → solve fuel em (.db db) w = .sat s → SatAll (flat db) s.get := by
  intro fuel
  induction fuel with
  | zero => intro em db w s _ _ h; simp [solve] at h
  | succ fuel ih =>
    intro em db w s hem hn h
    simp only [solve] at h
    split at h
    · rename_i hempty
      have : db = [] := by simpa using hempty
      subst this
      intro df hdf; simp [flat] at hdf
    · split at h
      · rename_i h1
        exact oneVar_sat W (flat db) em s hn h1 (modeResult_sat _ _ _ h)
      · split at h
        · rename_i j hasUp hred
          obtain ⟨vmap, x, hrec, rfl, hup, hlow⟩ := redundantPost_sat _ _ _ _ _ h
          have hsub : ∀ df ∈ flat (List.foldl insertDb [] (List.filter (fun df => coeffAt df.factoid j == 0) (flat db))),
              df ∈ flat db ∧ coeffAt df.factoid j = 0 := by
            intro df hdf
            rcases (mem_foldl_insertDb _ _ _).mp hdf with hx | hx
            · simp [flat] at hx
            · have := List.mem_filter.mp hx
              exact ⟨this.1, by simpa using this.2⟩
          have hvm := ih em _ w vmap hem (fun df hdf => hn df (hsub df hdf).1) hrec
          obtain ⟨sp1, sp2⟩ := findRedundantVar_spec _ _ _ _ hred
          intro df hdf
          apply sat_after_set
          · intro hc
            cases hasUp with
            | true => have := sp1 rfl df hdf; omega
            | false => exact hlow rfl df (List.mem_filter.mpr ⟨hdf, by simp; omega⟩)
          · intro hc
            cases hasUp with
            | true => exact hup rfl df (List.mem_filter.mpr ⟨hdf, by simp; omega⟩)
            | false => have := sp2 rfl df hdf; omega
          · intro hc
            apply hvm
            exact (mem_foldl_insertDb _ _ _).mpr (Or.inr (List.mem_filter.mpr ⟨hdf, by simpa using hc⟩))
        · split at h
          · cases h
          · rename_i v _
            obtain ⟨em', xp, vmap, hem', hxp, hrec, hext⟩ := elimDispatch_sat _ _ _ _ _ _ _ _ hem h
            obtain ⟨x, rfl, hpos, hneg⟩ := extendVmap_spec _ _ _ _ hext
            -- the database solved one level down contains the factoids without `v`, and `vmap` satisfies it
            have hzero : ∀ df ∈ flat db, coeffAt df.factoid v = 0 → 0 ≤ evalRow df.factoid vmap.get := by
              intro df hdf hc
              have hnew : df ∈ flat (List.foldl insertDb [] (List.filter (fun df => decide (coeffAt df.factoid v = 0)) (flat db))) :=
                (mem_foldl_insertDb _ _ _).mpr (Or.inr (List.mem_filter.mpr ⟨hdf, by simpa using hc⟩))
              have hnn : ∀ df ∈ flat (List.foldl insertDb [] (List.filter (fun df => decide (coeffAt df.factoid v = 0)) (flat db))),
                  NormDF W df := by
                intro df' hdf'
                rcases (mem_foldl_insertDb _ _ _).mp hdf' with hx | hx
                · simp [flat] at hx
                · exact hn df' (List.mem_of_mem_filter hx)
              have hups : ∀ u ∈ List.filter (fun df => decide (coeffAt df.factoid v < 0)) (flat db), NormDF W u :=
                fun u hu => hn u (List.mem_of_mem_filter hu)
              have hlows : ∀ l ∈ List.filter (fun df => decide (coeffAt df.factoid v > 0)) (flat db), NormDF W l :=
                fun l hl => hn l (List.mem_of_mem_filter hl)
              rcases hxp with rfl | rfl
              all_goals
                generalize hX : extendCrossProduct _ _ v _ _ = X at hrec
                cases X with
                | contr d => exact absurd hrec (solve_contr_ne_sat _ _ _ _ _)
                | error e => exact absurd hrec (solve_error_ne_sat _ _ _ _ _)
                | db db' =>
                  have hn' := extendCrossProduct_norm W _ v _ hups _ _ db' hnn hlows hX
                  have := ih em' db' w vmap hem' hn' hrec
                  exact this df (extendCrossProduct_mono _ v _ _ _ db' hX df hnew)
            intro df hdf
            exact sat_after_set _ _ _ _ (hpos df hdf) (hneg df hdf) (hzero df hdf)

/-! ### `solve_matrix` -/

theorem divRow_nonneg_conv (g : Int) (hg : 0 < g) (f : Row) (i : Nat) (v : Nat → Int) (hf : f ≠ [])
    (hd : ∀ k ∈ rowKey f, g ∣ k) (h : 0 ≤ evalAt (divRow f g) i v) : 0 ≤ evalAt f i v := by
  obtain ⟨S, h1, h2⟩ := divRow_split g f i v hf hd
  rw [h1]
  rw [h2] at h
  have : g * (rowConst f / g) ≤ rowConst f := Int.mul_ediv_self_le (by omega)
  nlinarith

theorem normalizeDF_sat (df : DF) (v : Nat → Int) (h : 0 ≤ evalRow (normalizeDF df).factoid v) :
    0 ≤ evalRow df.factoid v := by
  rw [normalizeDF_eq] at h
  split at h
  · rename_i hg
    have hne : df.factoid ≠ [] := by
      intro he; rw [he] at hg; simp [rowKey, gcdList] at hg
    exact divRow_nonneg_conv _ (by omega) df.factoid 0 v hne (fun k hk => gcdList_dvd _ k hk) h
  · exact h

theorem isTrueRow_sat (f : Row) (v : Nat → Int) (h : isTrueRow f = true) : 0 ≤ evalRow f v := by
  simp only [isTrueRow, Bool.and_eq_true, decide_eq_true_eq] at h
  rw [evalRow, evalAt_eq_evalG, evalG_zeroVar f 0 v h.1]
  simpa using h.2

theorem initDb_sat (v : Nat → Int) : ∀ (rs : List Row) (db db' : DB), initDb rs db = .db db' →
    SatAll (flat db') v → (∀ r ∈ rs, 0 ≤ evalRow r v) ∧ SatAll (flat db) v := by
  intro rs
  induction rs with
  | nil => intro db db' h hs; simp only [initDb] at h; cases h; exact ⟨by simp, hs⟩
  | cons r rest ih =>
    intro db db' h hs
    simp only [initDb] at h
    split at h
    · cases h
    · split at h
      · rename_i _ htrue
        obtain ⟨h1, h2⟩ := ih db db' h hs
        refine ⟨?_, h2⟩
        intro r' hr'
        rcases List.mem_cons.mp hr' with rfl | hr'
        · exact normalizeDF_sat ⟨r', .asm r'⟩ v (isTrueRow_sat _ v htrue)
        · exact h1 r' hr'
      · obtain ⟨h1, h2⟩ := ih _ db' h hs
        refine ⟨?_, fun df hdf => h2 df ((mem_flat_insertDb _ _ _).mpr (Or.inl hdf))⟩
        intro r' hr'
        rcases List.mem_cons.mp hr' with rfl | hr'
        · exact normalizeDF_sat ⟨r', .asm r'⟩ v (h2 _ ((mem_flat_insertDb _ _ _).mpr (Or.inr rfl)))
        · exact h1 r' hr'

theorem solveMatrix_sat (fuel : Nat) (rows : List Row) (w : Nat) (hw : ∀ r ∈ rows, r.length = w)
    (s : Store) (h : solveMatrix fuel rows = .sat s) : Sat rows s.get := by
  cases rows with
  | nil => simp [solveMatrix] at h
  | cons r0 rs =>
    simp only [solveMatrix] at h
    have hgood := initDb_good (r0 :: rs) w (r0 :: rs) [] (fun r hr => ⟨hr, hw r hr⟩) (by intro df hdf; simp [flat] at hdf)
    generalize hX : initDb (r0 :: rs) [] = X at h hgood
    cases X with
    | contr d => exact absurd h (solve_contr_ne_sat _ _ _ _ _)
    | error e => exact absurd h (solve_error_ne_sat _ _ _ _ _)
    | db db' =>
      have hn : ∀ df ∈ flat db', NormDF w df := fun df hdf => ⟨(hgood df hdf).2.1, (hgood df hdf).2.2⟩
      have hs := solve_sat w fuel .exact db' _ s (by simp) hn h
      exact (initDb_sat s.get (r0 :: rs) [] db' hX hs).1

end Holpy.C16
