import Holpy.C16.SimplexTrajectory
/-
C16 — the two minimality facts of Bland's rule as modelled by `step`: the leaving variable is the
SMALLEST violated basic variable, the entering variable is the SMALLEST suitable variable of the
leaving variable's (sorted) row.  (Ingredients of the no-repeat argument; `BlandNoRepeat` itself is not proved.)
-/
namespace Holpy.C16.Simplex

theorem pickViolated_fold_min (s : SState) : ∀ (rows : List (Var × Jars)) (best : Option Var) (xi : Var),
    rows.foldl (fun best r =>
      if ltLo s r.1 || gtHi s r.1 then
        match best with
        | none => some r.1
        | some b => if r.1 < b then some r.1 else some b
      else best) best = some xi →
    (∀ b, best = some b → xi ≤ b) ∧ ∀ r ∈ rows, (ltLo s r.1 || gtHi s r.1) = true → xi ≤ r.1 := by
  intro rows
  induction rows with
  | nil => intro best xi h; simp only [List.foldl_nil] at h; exact ⟨fun b hb => by rw [h] at hb; cases hb; exact Nat.le_refl _, by simp⟩
  | cons r rows ih =>
    intro best xi h
    simp only [List.foldl_cons] at h
    obtain ⟨h1, h2⟩ := ih _ xi h
    by_cases hv : (ltLo s r.1 || gtHi s r.1) = true
    · simp only [hv, if_true] at h1
      cases best with
      | none =>
        have := h1 r.1 rfl
        refine ⟨fun b hb => (by cases hb), ?_⟩
        intro r' hr' hv'
        rcases List.mem_cons.mp hr' with rfl | hr'
        · exact this
        · exact h2 r' hr' hv'
      | some b0 =>
        have hmin : xi ≤ r.1 ∧ xi ≤ b0 := by
          by_cases hlt : r.1 < b0
          · have := h1 r.1 (by simp [hlt]); exact ⟨this, Nat.le_trans this (Nat.le_of_lt hlt)⟩
          · have := h1 b0 (by simp [hlt]); exact ⟨Nat.le_trans this (Nat.le_of_not_lt hlt), this⟩
        refine ⟨fun b hb => by cases hb; exact hmin.2, ?_⟩
        intro r' hr' hv'
        rcases List.mem_cons.mp hr' with rfl | hr'
        · exact hmin.1
        · exact h2 r' hr' hv'
    · have hv' : (ltLo s r.1 || gtHi s r.1) = false := by simpa using hv
      simp only [hv', Bool.false_eq_true, if_false] at h1
      refine ⟨h1, ?_⟩
      intro r' hr' hv''
      rcases List.mem_cons.mp hr' with rfl | hr'
      · rw [hv'] at hv''; cases hv''
      · exact h2 r' hr' hv''

/-- Bland, leaving side: every basic variable smaller than the chosen one is within its bounds -/
theorem pickViolated_min (s : SState) (xi : Var) (h : pickViolated s = some xi) :
    ∀ x, isBasic s x = true → x < xi → ltLo s x = false ∧ gtHi s x = false := by
  intro x hx hlt
  obtain ⟨r, hr, rfl⟩ := List.mem_map.mp ((isBasic_iff s x).mp hx)
  have := (pickViolated_fold_min s s.rows none xi h).2 r hr
  cases hv : (ltLo s r.1 || gtHi s r.1) with
  | false => simpa using hv
  | true => exact absurd (this hv) (Nat.not_le_of_lt hlt)

/-- `find?` on a list sorted by variable returns the element with the smallest variable among those satisfying the test -/
theorem find_sorted_min (p : Var × ℚ → Bool) : ∀ (js : Jars) (j : Var × ℚ), SortedJ js → js.find? p = some j →
    ∀ j' ∈ js, j'.1 < j.1 → p j' = false := by
  intro js
  induction js with
  | nil => intro j _ h; cases h
  | cons a js ih =>
    intro j hs h j' hj' hlt
    simp only [SortedJ, varsOf, List.map_cons, List.pairwise_cons] at hs
    simp only [List.find?_cons] at h
    cases hp : p a with
    | true =>
      rw [hp] at h
      simp only [Option.some.injEq] at h
      subst h
      rcases List.mem_cons.mp hj' with rfl | hj'
      · exact absurd hlt (Nat.lt_irrefl _)
      · have := hs.1 j'.1 (List.mem_map.mpr ⟨j', hj', rfl⟩); exact absurd (Nat.lt_trans this hlt) (Nat.lt_irrefl _)
    | false =>
      rw [hp] at h
      rcases List.mem_cons.mp hj' with rfl | hj'
      · exact hp
      · exact ih j hs.2 h j' hj' hlt

/-- the basis after a repair step: the leaving variable goes out, the entering one comes in, nothing else changes -/
theorem step_basis (s s' : SState) (hinv : Inv s) (h : step s = .next s') :
    ∃ xi xj, isBasic s xi = true ∧ isBasic s xj = false ∧ pickViolated s = some xi ∧
      ∀ x, isBasic s' x = true ↔ ((isBasic s x = true ∧ x ≠ xi) ∨ x = xj) := by
  obtain ⟨xi, xj, jars, v, hm, hc, rfl, hp, _⟩ := step_next_spec s s' hinv h
  have hxj := mem_varsOf_of_coeff_ne xj jars hc
  refine ⟨xi, xj, (isBasic_iff s xi).mpr (List.mem_map.mpr ⟨_, hm, rfl⟩), hinv.wf.nonbasic _ hm xj hxj, hp, ?_⟩
  intro x
  have hrows : (pivotAndUpdate s xi xj v).rows = (pivot s xi xj).rows := by
    unfold pivotAndUpdate; simp [pivot, rowOf]
  have : isBasic (pivotAndUpdate s xi xj v) x = isBasic (pivot s xi xj) x := by simp [isBasic, hrows]
  rw [this]
  exact isBasic_pivot s xi xj jars hinv.wf.heads hm x

end Holpy.C16.Simplex
