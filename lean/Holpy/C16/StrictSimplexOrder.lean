import Holpy.C16.StrictSimplexModel
import Holpy.C16.StrictProofs
import Holpy.C16.SimplexCheck3
/-
C16 — the lexicographic order on δ-rationals as propositions, its order and ordered-module facts,
and the component view of the strict simplex state.
-/
namespace Holpy.C16.StrictSimplex
open Holpy.C16.Simplex Holpy.C16.Strict

def PLe (p q : Pair) : Prop := p.x < q.x ∨ (p.x = q.x ∧ p.y ≤ q.y)
def PLt (p q : Pair) : Prop := p.x < q.x ∨ (p.x = q.x ∧ p.y < q.y)

theorem ple_iff (p q : Pair) : p.le q = true ↔ PLe p q := le_iff p q
theorem plt_iff (p q : Pair) : p.lt q = true ↔ PLt p q := lt_iff p q

theorem PLe.refl (p : Pair) : PLe p p := Or.inr ⟨rfl, le_refl _⟩
theorem PLt.le {p q : Pair} (h : PLt p q) : PLe p q := by
  rcases h with h | ⟨h1, h2⟩
  · exact Or.inl h
  · exact Or.inr ⟨h1, le_of_lt h2⟩
theorem PLe.trans {p q r : Pair} (h1 : PLe p q) (h2 : PLe q r) : PLe p r := by
  rcases h1 with h1 | ⟨a1, b1⟩ <;> rcases h2 with h2 | ⟨a2, b2⟩
  · exact Or.inl (lt_trans h1 h2)
  · exact Or.inl (by rw [← a2]; exact h1)
  · exact Or.inl (by rw [a1]; exact h2)
  · exact Or.inr ⟨a1.trans a2, le_trans b1 b2⟩
theorem PLt.trans_le {p q r : Pair} (h1 : PLt p q) (h2 : PLe q r) : PLt p r := by
  rcases h1 with h1 | ⟨a1, b1⟩ <;> rcases h2 with h2 | ⟨a2, b2⟩
  · exact Or.inl (lt_trans h1 h2)
  · exact Or.inl (by rw [← a2]; exact h1)
  · exact Or.inl (by rw [a1]; exact h2)
  · exact Or.inr ⟨a1.trans a2, lt_of_lt_of_le b1 b2⟩
theorem PLe.trans_lt {p q r : Pair} (h1 : PLe p q) (h2 : PLt q r) : PLt p r := by
  rcases h1 with h1 | ⟨a1, b1⟩ <;> rcases h2 with h2 | ⟨a2, b2⟩
  · exact Or.inl (lt_trans h1 h2)
  · exact Or.inl (by rw [← a2]; exact h1)
  · exact Or.inl (by rw [a1]; exact h2)
  · exact Or.inr ⟨a1.trans a2, lt_of_le_of_lt b1 b2⟩
theorem PLt.irrefl (p : Pair) : ¬ PLt p p := by
  rintro (h | ⟨_, h⟩) <;> exact lt_irrefl _ h
theorem not_plt {p q : Pair} (h : ¬ PLt p q) : PLe q p := by
  rcases lt_trichotomy p.x q.x with h1 | h1 | h1
  · exact absurd (Or.inl h1) h
  · rcases lt_or_ge p.y q.y with h2 | h2
    · exact absurd (Or.inr ⟨h1, h2⟩) h
    · exact Or.inr ⟨h1.symm, h2⟩
  · exact Or.inl h1

/-- `c • p ≤ c • q` for `c ≥ 0` -/
theorem smul_le (c : ℚ) (hc : 0 ≤ c) {p q : Pair} (h : PLe p q) : PLe ⟨c * p.x, c * p.y⟩ ⟨c * q.x, c * q.y⟩ := by
  rcases eq_or_lt_of_le hc with h0 | hpos
  · rw [← h0]; simp [PLe]
  · rcases h with h | ⟨a, b⟩
    · exact Or.inl (by simpa using mul_lt_mul_of_pos_left h hpos)
    · exact Or.inr ⟨by rw [a], by simpa using mul_le_mul_of_nonneg_left b hc⟩
/-- `c • q ≤ c • p` for `c ≤ 0` -/
theorem smul_le_neg (c : ℚ) (hc : c ≤ 0) {p q : Pair} (h : PLe p q) : PLe ⟨c * q.x, c * q.y⟩ ⟨c * p.x, c * p.y⟩ := by
  rcases eq_or_lt_of_le hc with h0 | hneg
  · rw [h0]; simp [PLe]
  · rcases h with h | ⟨a, b⟩
    · exact Or.inl (by nlinarith)
    · exact Or.inr ⟨by rw [a], by nlinarith⟩
theorem add_le_add {p q r t : Pair} (h1 : PLe p q) (h2 : PLe r t) : PLe ⟨p.x + r.x, p.y + r.y⟩ ⟨q.x + t.x, q.y + t.y⟩ := by
  rcases h1 with h1 | ⟨a1, b1⟩ <;> rcases h2 with h2 | ⟨a2, b2⟩
  · exact Or.inl (by linarith)
  · exact Or.inl (by linarith)
  · exact Or.inl (by linarith)
  · exact Or.inr ⟨by rw [a1, a2], by linarith⟩

/-- value of a linear form under a δ-assignment (componentwise) -/
def EP (js : Jars) (V : Var → Pair) : Pair := ⟨evalJ js (fun x => (V x).x), evalJ js (fun x => (V x).y)⟩

theorem EP_le (js : Jars) (V M : Var → Pair)
    (h : ∀ j ∈ js, PLe ⟨j.2 * (V j.1).x, j.2 * (V j.1).y⟩ ⟨j.2 * (M j.1).x, j.2 * (M j.1).y⟩) : PLe (EP js V) (EP js M) := by
  induction js with
  | nil => exact PLe.refl _
  | cons p js ih =>
    obtain ⟨y, c⟩ := p
    have h1 := h (y, c) (List.mem_cons_self ..)
    have h2 := ih (fun j hj => h j (List.mem_cons_of_mem _ hj))
    exact add_le_add h1 h2

/-- a δ-assignment satisfies the row equations (componentwise) -/
def RowsHoldP (rows : List (Var × Jars)) (V : Var → Pair) : Prop :=
  RowsHold rows (fun x => (V x).x) ∧ RowsHold rows (fun x => (V x).y)

theorem rowsHoldP_row (rows : List (Var × Jars)) (V : Var → Pair) (h : RowsHoldP rows V) (b : Var) (js : Jars)
    (hm : (b, js) ∈ rows) : V b = EP js V := by
  have h1 := h.1 _ hm
  have h2 := h.2 _ hm
  simp only at h1 h2
  cases hv : V b
  simp only [EP, hv] at h1 h2 ⊢
  rw [h1, h2]

theorem EP_reducePairs (js : Jars) (V : Var → Pair) : EP (reducePairs js) V = EP js V := by
  simp [EP, evalJ_reducePairs]

end Holpy.C16.StrictSimplex
