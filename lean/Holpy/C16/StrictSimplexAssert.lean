import Holpy.C16.StrictSimplexCheck2
/-
C16 — `assert_upper` / `assert_lower` of the strict simplex model.
-/
namespace Holpy.C16.StrictSimplex
open Holpy.C16.Simplex Holpy.C16.Strict

theorem update_mapping_self (s : SState) (x : Var) (c : ℚ) : (update s x c).mapping x = c := by
  simp [update, setQ]
theorem update_mapping_other (s : SState) (x y : Var) (c : ℚ) (h1 : y ≠ x) (h2 : isBasic s y = false) :
    (update s x c).mapping y = s.mapping y := by
  simp [update, setQ, h1, h2]

/-- after moving the non-basic `x` to `c` (both components) the rows still hold and only `x` changed among the non-basic variables -/
theorem updateP_facts (s : PState) (x : Var) (c : Pair) (hwf : WF s.sx) (hx : isBasic s.sx x = false)
    (hrx : RowsHold s.sx.rows s.sx.mapping) (hry : RowsHold s.sx.rows s.my) :
    (updateP s x c).sx.rows = s.sx.rows ∧ RowsHold s.sx.rows (updateP s x c).sx.mapping ∧ RowsHold s.sx.rows (updateP s x c).my ∧
    pval (updateP s x c) x = c ∧ ∀ y, y ≠ x → isBasic s.sx y = false → pval (updateP s x c) y = pval s y := by
  obtain ⟨a1, a2⟩ := update_rowsHold s.sx x c.x hwf hx hrx
  obtain ⟨b1, b2⟩ := update_rowsHold (compY s) x c.y (wf_compY s hwf) hx hry
  refine ⟨a1, by rw [a1] at a2; exact a2, by rw [b1] at b2; exact b2, ?_, ?_⟩
  · simp only [pval, updateP, update_mapping_self]
  · intro y hy hb
    simp only [pval, updateP]
    rw [update_mapping_other s.sx x y c.x hy hb, update_mapping_other (compY s) x y c.y hy hb]; rfl

def upLoP (s : PState) (x : Var) (c : Pair) : Bool := match s.lo x with | some l => c.lt l | none => false
def upHiP (s : PState) (x : Var) (c : Pair) : Bool := match s.hi x with | some u => c.lt u | none => true
def loHiP (s : PState) (x : Var) (c : Pair) : Bool := match s.hi x with | some u => u.lt c | none => false
def loLoP (s : PState) (x : Var) (c : Pair) : Bool := match s.lo x with | some l => l.lt c | none => true

theorem assertUpperP_eq (s : PState) (x : Var) (c : Pair) : assertUpperP s x c =
    if upLoP s x c then .conflict
    else if upHiP s x c then
      (if !isBasic s.sx x && c.lt (pval s x) then .ok (updateP { s with hi := setQ s.hi x (some c) } x c)
       else .ok { s with hi := setQ s.hi x (some c) })
    else .ok s := rfl

theorem assertLowerP_eq (s : PState) (x : Var) (c : Pair) : assertLowerP s x c =
    if loHiP s x c then .conflict
    else if loLoP s x c then
      (if !isBasic s.sx x && (pval s x).lt c then .ok (updateP { s with lo := setQ s.lo x (some c) } x c)
       else .ok { s with lo := setQ s.lo x (some c) })
    else .ok s := rfl

def AtomHoldsP (a : PAtom) (V : Var → Pair) : Prop :=
  match a with
  | .geq x c => PLe c (V x)
  | .leq x c => PLe (V x) c

theorem assertUpperP_ok (s s' : PState) (x : Var) (c : Pair) (hinv : PInv s) (h : assertUpperP s x c = .ok s') :
    PInv s' ∧ s'.sx.rows = s.sx.rows ∧ ∀ V : Var → Pair, (∀ y, PInB s' V y) ↔ ((∀ y, PInB s V y) ∧ PLe (V x) c) := by
  rw [assertUpperP_eq] at h
  by_cases hcl : upLoP s x c = true
  · rw [if_pos hcl] at h; cases h
  · rw [if_neg hcl] at h
    have hlc : ∀ l, s.lo x = some l → PLe l c := by
      intro l hl; simp only [upLoP, hl] at hcl
      exact not_plt (fun hlt => hcl ((plt_iff _ _).mpr hlt))
    by_cases hcu : upHiP s x c = true
    · rw [if_pos hcu] at h
      have hbounds : ∀ V : Var → Pair, (∀ y, PInB { s with hi := setQ s.hi x (some c) } V y) ↔ ((∀ y, PInB s V y) ∧ PLe (V x) c) := by
        intro V
        constructor
        · intro hw
          have hxc : PLe (V x) c := (hw x).2 c (by simp [setQ])
          refine ⟨fun y => ?_, hxc⟩
          by_cases hy : y = x
          · subst hy
            refine ⟨(hw y).1, ?_⟩
            intro u hu
            simp only [upHiP, hu] at hcu
            exact (hxc.trans_lt ((plt_iff _ _).mp hcu)).le
          · have := hw y
            simpa [PInB, setQ, hy] using this
        · rintro ⟨hw, hxc⟩ y
          by_cases hy : y = x
          · subst hy
            refine ⟨(hw y).1, ?_⟩
            intro u hu
            simp [setQ] at hu; rw [← hu]; exact hxc
          · have := hw y
            simpa [PInB, setQ, hy] using this
      have hbnd : ∀ y l u, s.lo y = some l → setQ s.hi x (some c) y = some u → PLe l u := by
        intro y l u hl hu
        by_cases hy : y = x
        · subst hy; simp [setQ] at hu; rw [← hu]; exact hlc l hl
        · simp [setQ, hy] at hu; exact hinv.bnd y l u hl hu
      split at h
      · rename_i hmove
        cases h
        simp only [Bool.and_eq_true, Bool.not_eq_true'] at hmove
        have hxnb : isBasic s.sx x = false := hmove.1
        obtain ⟨f1, f2, f3, f4, f5⟩ := updateP_facts { s with hi := setQ s.hi x (some c) } x c hinv.wf hxnb hinv.rx hinv.ry
        refine ⟨⟨⟨by rw [f1]; exact hinv.wf.heads, by rw [f1]; exact hinv.wf.distinct, by
            intro r hr y hy; rw [f1] at hr
            have := hinv.wf.nonbasic r hr y hy
            simpa [isBasic, f1] using this⟩, by rw [f1]; exact f2, by rw [f1]; exact f3, ?_, hbnd⟩, f1, hbounds⟩
        intro y hy
        have hy' : isBasic s.sx y = false := by simpa [isBasic, f1] using hy
        by_cases hyx : y = x
        · subst hyx
          refine ⟨fun l hl => ?_, fun u hu => ?_⟩
          · rw [f4]; exact hlc l hl
          · rw [f4]; have : u = c := by simpa [updateP, setQ] using hu.symm
            rw [this]; exact PLe.refl _
        · have hm := f5 y hyx hy'
          have := hinv.nb y hy'
          refine ⟨fun l hl => ?_, fun u hu => ?_⟩
          · rw [hm]; exact this.1 l hl
          · rw [hm]; have hu' : s.hi y = some u := by simpa [updateP, setQ, hyx] using hu
            exact this.2 u hu'
      · rename_i hstay
        cases h
        refine ⟨⟨hinv.wf, hinv.rx, hinv.ry, ?_, hbnd⟩, rfl, hbounds⟩
        intro y hy
        have hy' : isBasic s.sx y = false := hy
        have := hinv.nb y hy'
        by_cases hyx : y = x
        · subst hyx
          refine ⟨this.1, fun u hu => ?_⟩
          have hu' : u = c := by simpa [setQ] using hu.symm
          rw [hu']
          apply not_plt
          intro hlt
          apply hstay
          simp only [Bool.and_eq_true, Bool.not_eq_true']
          exact ⟨hy', (plt_iff _ _).mpr hlt⟩
        · refine ⟨this.1, fun u hu => ?_⟩
          have hu' : s.hi y = some u := by simpa [setQ, hyx] using hu
          exact this.2 u hu'
    · rw [if_neg hcu] at h
      cases h
      refine ⟨hinv, rfl, fun V => ⟨fun hw => ⟨hw, ?_⟩, fun hw => hw.1⟩⟩
      cases hu : s.hi x with
      | none => simp [upHiP, hu] at hcu
      | some u =>
        simp only [upHiP, hu] at hcu
        exact ((hw x).2 u hu).trans (not_plt (fun hlt => hcu ((plt_iff _ _).mpr hlt)))

theorem assertUpperP_conflict (s : PState) (x : Var) (c : Pair) (h : assertUpperP s x c = .conflict) :
    ¬ ∃ V : Var → Pair, (∀ y, PInB s V y) ∧ PLe (V x) c := by
  rw [assertUpperP_eq] at h
  by_cases hcl : upLoP s x c = true
  · rintro ⟨V, hw, hxc⟩
    cases hl : s.lo x with
    | none => simp [upLoP, hl] at hcl
    | some l =>
      simp only [upLoP, hl] at hcl
      exact PLt.irrefl _ (((hw x).1 l hl).trans_lt ((hxc.trans_lt ((plt_iff _ _).mp hcl))))
  · rw [if_neg hcl] at h
    split at h
    · split at h <;> cases h
    · cases h

theorem assertLowerP_ok (s s' : PState) (x : Var) (c : Pair) (hinv : PInv s) (h : assertLowerP s x c = .ok s') :
    PInv s' ∧ s'.sx.rows = s.sx.rows ∧ ∀ V : Var → Pair, (∀ y, PInB s' V y) ↔ ((∀ y, PInB s V y) ∧ PLe c (V x)) := by
  rw [assertLowerP_eq] at h
  by_cases hcl : loHiP s x c = true
  · rw [if_pos hcl] at h; cases h
  · rw [if_neg hcl] at h
    have hlc : ∀ u, s.hi x = some u → PLe c u := by
      intro u hu; simp only [loHiP, hu] at hcl
      exact not_plt (fun hlt => hcl ((plt_iff _ _).mpr hlt))
    by_cases hcu : loLoP s x c = true
    · rw [if_pos hcu] at h
      have hbounds : ∀ V : Var → Pair, (∀ y, PInB { s with lo := setQ s.lo x (some c) } V y) ↔ ((∀ y, PInB s V y) ∧ PLe c (V x)) := by
        intro V
        constructor
        · intro hw
          have hxc : PLe c (V x) := (hw x).1 c (by simp [setQ])
          refine ⟨fun y => ?_, hxc⟩
          by_cases hy : y = x
          · subst hy
            refine ⟨?_, (hw y).2⟩
            intro l hl
            simp only [loLoP, hl] at hcu
            exact (((plt_iff _ _).mp hcu).trans_le hxc).le
          · have := hw y
            simpa [PInB, setQ, hy] using this
        · rintro ⟨hw, hxc⟩ y
          by_cases hy : y = x
          · subst hy
            refine ⟨?_, (hw y).2⟩
            intro l hl
            simp [setQ] at hl; rw [← hl]; exact hxc
          · have := hw y
            simpa [PInB, setQ, hy] using this
      have hbnd : ∀ y l u, setQ s.lo x (some c) y = some l → s.hi y = some u → PLe l u := by
        intro y l u hl hu
        by_cases hy : y = x
        · subst hy; simp [setQ] at hl; rw [← hl]; exact hlc u hu
        · simp [setQ, hy] at hl; exact hinv.bnd y l u hl hu
      split at h
      · rename_i hmove
        cases h
        simp only [Bool.and_eq_true, Bool.not_eq_true'] at hmove
        have hxnb : isBasic s.sx x = false := hmove.1
        obtain ⟨f1, f2, f3, f4, f5⟩ := updateP_facts { s with lo := setQ s.lo x (some c) } x c hinv.wf hxnb hinv.rx hinv.ry
        refine ⟨⟨⟨by rw [f1]; exact hinv.wf.heads, by rw [f1]; exact hinv.wf.distinct, by
            intro r hr y hy; rw [f1] at hr
            have := hinv.wf.nonbasic r hr y hy
            simpa [isBasic, f1] using this⟩, by rw [f1]; exact f2, by rw [f1]; exact f3, ?_, hbnd⟩, f1, hbounds⟩
        intro y hy
        have hy' : isBasic s.sx y = false := by simpa [isBasic, f1] using hy
        by_cases hyx : y = x
        · subst hyx
          refine ⟨fun l hl => ?_, fun u hu => ?_⟩
          · rw [f4]; have : l = c := by simpa [updateP, setQ] using hl.symm
            rw [this]; exact PLe.refl _
          · rw [f4]; exact hlc u hu
        · have hm := f5 y hyx hy'
          have := hinv.nb y hy'
          refine ⟨fun l hl => ?_, fun u hu => ?_⟩
          · rw [hm]; have hl' : s.lo y = some l := by simpa [updateP, setQ, hyx] using hl
            exact this.1 l hl'
          · rw [hm]; exact this.2 u hu
      · rename_i hstay
        cases h
        refine ⟨⟨hinv.wf, hinv.rx, hinv.ry, ?_, hbnd⟩, rfl, hbounds⟩
        intro y hy
        have hy' : isBasic s.sx y = false := hy
        have := hinv.nb y hy'
        by_cases hyx : y = x
        · subst hyx
          refine ⟨fun l hl => ?_, this.2⟩
          have hl' : l = c := by simpa [setQ] using hl.symm
          rw [hl']
          apply not_plt
          intro hlt
          apply hstay
          simp only [Bool.and_eq_true, Bool.not_eq_true']
          exact ⟨hy', (plt_iff _ _).mpr hlt⟩
        · refine ⟨fun l hl => ?_, this.2⟩
          have hl' : s.lo y = some l := by simpa [setQ, hyx] using hl
          exact this.1 l hl'
    · rw [if_neg hcu] at h
      cases h
      refine ⟨hinv, rfl, fun V => ⟨fun hw => ⟨hw, ?_⟩, fun hw => hw.1⟩⟩
      cases hl : s.lo x with
      | none => simp [loLoP, hl] at hcu
      | some l =>
        simp only [loLoP, hl] at hcu
        exact (not_plt (fun hlt => hcu ((plt_iff _ _).mpr hlt))).trans ((hw x).1 l hl)

theorem assertLowerP_conflict (s : PState) (x : Var) (c : Pair) (h : assertLowerP s x c = .conflict) :
    ¬ ∃ V : Var → Pair, (∀ y, PInB s V y) ∧ PLe c (V x) := by
  rw [assertLowerP_eq] at h
  by_cases hcl : loHiP s x c = true
  · rintro ⟨V, hw, hxc⟩
    cases hu : s.hi x with
    | none => simp [loHiP, hu] at hcl
    | some u =>
      simp only [loHiP, hu] at hcl
      exact PLt.irrefl _ ((((plt_iff _ _).mp hcl).trans_le hxc).trans_le ((hw x).2 u hu))
  · rw [if_neg hcl] at h
    split at h
    · split at h <;> cases h
    · cases h

end Holpy.C16.StrictSimplex
