import Holpy.C16.SimplexModel
/-
C16 — `check()` of the simplex model as the iteration of one explicit repair step, the states along
a run (`traj`), and the configuration of a state: which variables are basic and at which bound each
non-basic variable sits.  Core Lean only.
-/
namespace Holpy.C16.Simplex

inductive StepR where
  | sat                       -- no basic variable violates a bound: `check` returns SAT
  | unsat (xi : Var)          -- the violated variable `xi` cannot be repaired: `check` returns UNSAT
  | next (s : SState)         -- one `pivotAndUpdate`

/-- one pass through the `while True` loop of `check()` -/
def step (s : SState) : StepR :=
  match pickViolated s with
  | none => .sat
  | some xi =>
    let jars := reducePairs ((rowOf s xi).getD [])
    if ltLo s xi then
      match jars.find? (fun j => (decide (j.2 > 0) && belowHi s j.1) || (decide (j.2 < 0) && aboveLo s j.1)) with
      | some j => .next (pivotAndUpdate s xi j.1 ((s.lo xi).getD 0))
      | none => .unsat xi
    else
      match jars.find? (fun j => (decide (j.2 < 0) && belowHi s j.1) || (decide (j.2 > 0) && aboveLo s j.1)) with
      | some j => .next (pivotAndUpdate s xi j.1 ((s.hi xi).getD 0))
      | none => .unsat xi

/-- the state after `k` repair steps (none if `check` has returned before) -/
def traj : SState → Nat → Option SState
  | s, 0 => some s
  | s, k + 1 => match step s with
    | .next s' => traj s' k
    | _ => none

/-- 0: basic; 1: non-basic on its lower bound; 2: non-basic on its upper bound; 3: non-basic elsewhere -/
def code (s : SState) (x : Var) : Fin 4 :=
  if isBasic s x then 0
  else if s.lo x == some (s.mapping x) then 1
  else if s.hi x == some (s.mapping x) then 2
  else 3

/-- the variables of the tableau: heads and row variables (with repetitions) -/
def allVars (s : SState) : List Var := s.rows.flatMap fun r => r.1 :: r.2.map (·.1)

/-- the configuration of `s` over the variable list `vs` -/
def conf (vs : List Var) (s : SState) : Fin vs.length → Fin 4 := fun i => code s (vs.get i)

/-- an explicit bound on the number of configurations over the variables of the tableau -/
def confBound (s : SState) : Nat := 4 ^ (allVars s).length

end Holpy.C16.Simplex
