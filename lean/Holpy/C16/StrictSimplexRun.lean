import Holpy.C16.StrictSimplexHandle
import Holpy.C16.SimplexBuild3
import Holpy.C16.SimplexRun
/-
C16 — whole runs of the strict simplex model against the given constraints.
-/
namespace Holpy.C16.StrictSimplex
open Holpy.C16.Simplex Holpy.C16.Strict

/-- a given constraint under a δ-assignment, in the δ-order -/
def PIneqHolds (q : PIneq) (V : Var → Pair) : Prop :=
  match q.kind with
  | .ge => PLe q.bound (EP q.jars V)
  | .le => PLe (EP q.jars V) q.bound

theorem rowsHoldP_mono {rows rows' : List (Var × Jars)} (h : ∀ r ∈ rows, r ∈ rows') (V : Var → Pair) (hV : RowsHoldP rows' V) :
    RowsHoldP rows V := ⟨fun r hr => hV.1 r (h r hr), fun r hr => hV.2 r (h r hr)⟩

/-- one `add_ineq` of the strict solver: the atom says what the constraint says on every δ-solution of the rows -/
theorem addIneqP_atom (N : Nat) (s : PState) (q : PIneq) (hb : Built N s.sx) (a : PAtom) (ha : (addIneqP s q).2 = some a)
    (rows : List (Var × Jars)) (hsub : ∀ r ∈ (addIneqP s q).1.sx.rows, r ∈ rows) (V : Var → Pair) (hV : RowsHoldP rows V) :
    AtomHoldsP a V ↔ PIneqHolds q V := by
  simp only [addIneqP, Option.map_eq_some_iff] at ha
  obtain ⟨a0, ha0, rfl⟩ := ha
  obtain ⟨v, hav, hval⟩ := addIneq_var N s.sx (projIneq q) hb a0 ha0
  have h1 := hval rows hsub _ hV.1
  have h2 := hval rows hsub _ hV.2
  have hv : V v = EP q.jars V := by
    cases hvv : V v
    simp only [EP, projIneq, hvv] at h1 h2 ⊢
    rw [h1, h2]
  subst hav
  simp only [projIneq, PIneqHolds]
  cases hk : q.kind <;> simp [mkAtom, liftAtom, AtomHoldsP, hv]

theorem addIneqsP_spec (N : Nat) : ∀ (qs : List PIneq) (s : PState), Built N s.sx →
    (∀ q ∈ qs, DistinctVars q.jars ∧ ∀ x ∈ varsOf q.jars, N ≤ x) →
    Built N (addIneqsP s qs).1.sx ∧ (addIneqsP s qs).1.sx.index ≤ s.sx.index + slackCount (qs.map projIneq) ∧
    (∀ r ∈ s.sx.rows, r ∈ (addIneqsP s qs).1.sx.rows) ∧
    (addIneqsP s qs).1.my = s.my ∧ (addIneqsP s qs).1.lo = s.lo ∧ (addIneqsP s qs).1.hi = s.hi ∧
    (∀ V : Var → Pair, RowsHoldP (addIneqsP s qs).1.sx.rows V →
      ((∀ a ∈ (addIneqsP s qs).2, AtomHoldsP a V) ↔ ∀ q ∈ qs, (∀ x, q.jars ≠ [(x, 0)]) → PIneqHolds q V) ∧
      ((∀ q ∈ qs, PIneqHolds q V) → ∀ a ∈ (addIneqsP s qs).2, AtomHoldsP a V)) := by
  intro qs
  induction qs with
  | nil => intro s hb _; simp [addIneqsP]; exact hb
  | cons q rest ih =>
    intro s hb hq
    obtain ⟨hq1, hq2⟩ := hq q (List.mem_cons_self ..)
    obtain ⟨b1, i1, r1, _, n1⟩ := addIneq_spec N s.sx (projIneq q) hb hq1 hq2
    have hb1 : Built N (addIneqP s q).1.sx := b1
    obtain ⟨b2, i2, r2, m2, l2, u2, a2⟩ := ih (addIneqP s q).1 hb1 (fun q' hq' => hq q' (List.mem_cons_of_mem _ hq'))
    simp only [addIneqsP]
    have hsc : slackCount ((q :: rest).map projIneq) = (if isUnit (projIneq q) then 0 else 1) + slackCount (rest.map projIneq) := by
      simp only [List.map_cons]
      unfold slackCount
      cases hu : isUnit (projIneq q) <;> simp [List.filter_cons, hu] <;> omega
    have i1' : (addIneqP s q).1.sx.index ≤ s.sx.index + (if isUnit (projIneq q) then 0 else 1) := i1
    refine ⟨b2, by rw [hsc]; omega, fun r hr => r2 r (r1 r hr), m2, l2, u2, ?_⟩
    intro V hV
    obtain ⟨a2a, a2b⟩ := a2 V hV
    cases hat : (addIneqP s q).2 with
    | none =>
      have hnone : (addIneq s.sx (projIneq q)).2 = none := by
        simpa [addIneqP] using hat
      obtain ⟨x0, hx0⟩ := n1 hnone
      have hx0' : q.jars = [(x0, 0)] := hx0
      refine ⟨?_, ?_⟩
      · rw [a2a]
        constructor
        · intro h q' hq' hnz
          rcases List.mem_cons.mp hq' with rfl | hq'
          · exact absurd hx0' (hnz x0)
          · exact h q' hq' hnz
        · intro h q' hq' hnz; exact h q' (List.mem_cons_of_mem _ hq') hnz
      · intro h; exact a2b (fun q' hq' => h q' (List.mem_cons_of_mem _ hq'))
    | some a =>
      have hiff := addIneqP_atom N s q hb a hat _ r2 V hV
      dsimp only
      refine ⟨?_, ?_⟩
      · simp only [List.forall_mem_cons, hiff, a2a]
        constructor
        · rintro ⟨h0, h⟩
          exact ⟨fun _ => h0, h⟩
        · rintro ⟨hq0, h⟩
          refine ⟨?_, h⟩
          apply hq0
          intro x hx
          have : (addIneq s.sx (projIneq q)).2 = none := by
            simp [addIneq, projIneq, hx]
          have : (addIneqP s q).2 = none := by simp [addIneqP, this]
          rw [this] at hat; cases hat
      · intro h
        simp only [List.forall_mem_cons]
        exact ⟨hiff.mpr (h q (List.mem_cons_self ..)), a2b (fun q' hq' => h q' (List.mem_cons_of_mem _ hq'))⟩

/-! ### whole runs -/

theorem built_pinv (N : Nat) (s : PState) (hb : Built N s.sx) (hN : s.sx.index ≤ N) (hmy : s.my = fun _ => 0)
    (hlo : s.lo = fun _ => none) (hhi : s.hi = fun _ => none) : PInv s ∧ ∀ x, PInB s (pval s) x := by
  obtain ⟨hinv, _⟩ := built_inv N s.sx hb hN
  refine ⟨⟨hinv.wf, hinv.rows, ?_, ?_, ?_⟩, ?_⟩
  · intro r _; rw [hmy, evalJ_zero]
  · intro x _; simp [PInB, hlo, hhi]
  · intro x l u hl _; simp [hlo] at hl
  · intro x; simp [PInB, hlo, hhi]

theorem runP_sat (N fuel : Nat) (qs : List PIneq) (hin : InputOK N (qs.map projIneq)) (s' : PState) (tr : List PState)
    (h : runP fuel qs = (.sat s', tr)) :
    ∀ q ∈ qs, (∀ x, q.jars ≠ [(x, 0)]) → PIneqHolds q (pval s') := by
  unfold runP at h
  have hq : ∀ q ∈ qs, DistinctVars q.jars ∧ ∀ x ∈ varsOf q.jars, N ≤ x :=
    fun q hq => hin.2 (projIneq q) (List.mem_map.mpr ⟨q, hq, rfl⟩)
  obtain ⟨b, idx, _, hmy, hlo, hhi, hat⟩ := addIneqsP_spec N qs emptyP (built_empty N) hq
  generalize hs0 : addIneqsP emptyP qs = res at h b idx hmy hlo hhi hat
  obtain ⟨s0, atoms⟩ := res
  simp only at h b idx hmy hlo hhi hat
  have hidx : s0.sx.index ≤ N := by simp [emptyP, emptyState] at idx; have := hin.1; omega
  obtain ⟨hinv, hall⟩ := built_pinv N s0 b hidx hmy hlo hhi
  obtain ⟨i, r, hb', hiff⟩ := handle_spec fuel atoms s0 0 [] _ tr hinv hall h
  have hatoms := ((hiff (pval s')).mp hb').2
  have hrows : RowsHoldP s0.sx.rows (pval s') := ⟨(r _).mp i.rx, (r _).mp i.ry⟩
  exact ((hat (pval s') hrows).1).mp hatoms

theorem runP_unsat (N fuel : Nat) (qs : List PIneq) (hin : InputOK N (qs.map projIneq)) (o : POutcome) (tr : List PState)
    (h : runP fuel qs = (o, tr)) (ho : (∃ xi s', o = .unsat xi s') ∨ (∃ j s', o = .conflict j s')) :
    ¬ ∃ V0 : Var → Pair, ∀ q ∈ qs, PIneqHolds q V0 := by
  unfold runP at h
  have hq : ∀ q ∈ qs, DistinctVars q.jars ∧ ∀ x ∈ varsOf q.jars, N ≤ x :=
    fun q hq => hin.2 (projIneq q) (List.mem_map.mpr ⟨q, hq, rfl⟩)
  obtain ⟨b, idx, _, hmy, hlo, hhi, hat⟩ := addIneqsP_spec N qs emptyP (built_empty N) hq
  generalize hs0 : addIneqsP emptyP qs = res at h b idx hmy hlo hhi hat
  obtain ⟨s0, atoms⟩ := res
  simp only at h b idx hmy hlo hhi hat
  have hidx : s0.sx.index ≤ N := by simp [emptyP, emptyState] at idx; have := hin.1; omega
  obtain ⟨hinv, hall⟩ := built_pinv N s0 b hidx hmy hlo hhi
  have hspec := handle_spec fuel atoms s0 0 [] o tr hinv hall h
  have hno : ¬ ∃ V : Var → Pair, RowsHoldP s0.sx.rows V ∧ (∀ y, PInB s0 V y) ∧ ∀ a ∈ atoms, AtomHoldsP a V := by
    rcases ho with ⟨xi, s', rfl⟩ | ⟨j, s', rfl⟩ <;> exact hspec
  rintro ⟨V0, hV0⟩
  let V : Var → Pair := fun x => match rowOf s0.sx x with | some js => EP js V0 | none => V0 x
  have hheads := built_heads N s0.sx b
  have hfree : ∀ x, N ≤ x → V x = V0 x := by
    intro x hx
    have : x ∉ s0.sx.rows.map (·.1) := by rw [hheads, List.mem_range]; omega
    simp only [V, rowOf_none s0.sx x this]
  have hEP : ∀ js : Jars, (∀ x ∈ varsOf js, N ≤ x) → EP js V = EP js V0 := by
    intro js hjs
    simp only [EP]
    rw [evalJ_congr js (fun x => (V x).x) (fun x => (V0 x).x) (fun x hx => by simp only [hfree x (hjs x hx)]),
      evalJ_congr js (fun x => (V x).y) (fun x => (V0 x).y) (fun x hx => by simp only [hfree x (hjs x hx)])]
  have hrows : RowsHoldP s0.sx.rows V := by
    have key : ∀ r ∈ s0.sx.rows, V r.1 = EP r.2 V := by
      intro r hr
      obtain ⟨bv, js⟩ := r
      have hro := rowOf_of_mem s0.sx hinv.wf.heads bv js hr
      rw [hEP js (b.rowvars _ hr).2]
      simp only [V, hro]
    exact ⟨fun r hr => by have := key r hr; show (V r.1).x = _; rw [this]; rfl, fun r hr => by have := key r hr; show (V r.1).y = _; rw [this]; rfl⟩
  have hqs : ∀ q ∈ qs, PIneqHolds q V := by
    intro q hq'
    have := hV0 q hq'
    unfold PIneqHolds at this ⊢
    rw [hEP q.jars (hq q hq').2]; exact this
  exact hno ⟨V, hrows, fun y => by simp [PInB, hlo, hhi, emptyP], (hat V hrows).2 hqs⟩

end Holpy.C16.StrictSimplex
