import Holpy.C16.SimplexAssertLower
/-
C16 — `handle_assertion` of the simplex model: SAT ⇒ `mapping` satisfies rows, bounds and every
asserted atom; UNSAT / refused assertion ⇒ rows + bounds + atoms have no rational solution.
-/
namespace Holpy.C16.Simplex

/-- the statement about one outcome of `handle_assertion` started in `s` with `atoms` -/
def HandleSpec (s : SState) (atoms : List Atom) : Outcome → Prop
  | .sat s' => Inv s' ∧ (∀ w, RowsHold s'.rows w ↔ RowsHold s.rows w) ∧ (∀ x, InB s' s'.mapping x) ∧
      (∀ w : Var → ℚ, (∀ y, InB s' w y) ↔ ((∀ y, InB s w y) ∧ ∀ a ∈ atoms, AtomHolds a w))
  | .unsat _ _ => ¬ ∃ w : Var → ℚ, RowsHold s.rows w ∧ (∀ y, InB s w y) ∧ ∀ a ∈ atoms, AtomHolds a w
  | .conflict _ _ => ¬ ∃ w : Var → ℚ, RowsHold s.rows w ∧ (∀ y, InB s w y) ∧ ∀ a ∈ atoms, AtomHolds a w
  | .fuel _ => True

theorem assert_atom (s : SState) (a : Atom) (hinv : Inv s) :
    (∀ s1, (match a with | .leq x c => assertUpper s x c | .geq x c => assertLower s x c) = .ok s1 →
      Inv s1 ∧ s1.rows = s.rows ∧ ∀ w : Var → ℚ, (∀ y, InB s1 w y) ↔ ((∀ y, InB s w y) ∧ AtomHolds a w)) ∧
    ((match a with | .leq x c => assertUpper s x c | .geq x c => assertLower s x c) = .conflict →
      ¬ ∃ w : Var → ℚ, (∀ y, InB s w y) ∧ AtomHolds a w) := by
  cases a with
  | geq x c => exact ⟨fun s1 h => assertLower_ok s s1 x c hinv h, fun h => assertLower_conflict s x c h⟩
  | leq x c => exact ⟨fun s1 h => assertUpper_ok s s1 x c hinv h, fun h => assertUpper_conflict s x c h⟩

theorem handle_spec (fuel : Nat) : ∀ (atoms : List Atom) (s : SState) (k : Nat) (tr : List SState) (o : Outcome)
    (tr' : List SState), Inv s → (∀ x, InB s s.mapping x) → handleAssertion fuel s atoms k tr = (o, tr') →
    HandleSpec s atoms o := by
  intro atoms
  induction atoms with
  | nil =>
    intro s k tr o tr' hinv hall h
    simp only [handleAssertion] at h
    cases h
    exact ⟨hinv, fun _ => Iff.rfl, hall, fun w => by simp⟩
  | cons a rest ih =>
    intro s k tr o tr' hinv hall h
    simp only [handleAssertion] at h
    obtain ⟨hok, hconf⟩ := assert_atom s a hinv
    split at h
    · rename_i hr
      cases h
      intro ⟨w, _, hb, hat⟩
      exact hconf hr ⟨w, hb, hat a (List.mem_cons_self ..)⟩
    · rename_i s1 hr
      obtain ⟨inv1, rows1, bnd1⟩ := hok s1 hr
      -- transfer a refutation for the state after the assertion / after check to `s`
      have back : ∀ (s2 : SState) (more : List Atom), s2.lo = s1.lo → s2.hi = s1.hi → (∀ w, RowsHold s2.rows w ↔ RowsHold s1.rows w) →
          (∀ b ∈ more, b ∈ rest) →
          (¬ ∃ w : Var → ℚ, RowsHold s2.rows w ∧ (∀ y, InB s2 w y) ∧ ∀ b ∈ more, AtomHolds b w) →
          ¬ ∃ w : Var → ℚ, RowsHold s.rows w ∧ (∀ y, InB s w y) ∧ ∀ b ∈ a :: rest, AtomHolds b w := by
        intro s2 more hl hu hrw hsub hno
        rintro ⟨w, hw, hb, hat⟩
        apply hno
        refine ⟨w, (hrw w).mpr (by rw [rows1]; exact hw), fun y => (InB_congr s1 s2 hl hu w y).mpr ?_, fun b hb' => hat b (List.mem_cons_of_mem _ (hsub b hb'))⟩
        exact ((bnd1 w).mpr ⟨hb, hat a (List.mem_cons_self ..)⟩) y
      split at h
      · rename_i s2 hc
        obtain ⟨inv2, l2, u2, r2, sat2, _⟩ := check_spec fuel s1 s2 .sat inv1 hc
        have hrec := ih s2 (k + 1) _ o tr' inv2 (sat2 rfl) h
        cases o with
        | sat s' =>
          obtain ⟨i3, r3, a3, b3⟩ := hrec
          refine ⟨i3, fun w => ((r3 w).trans (r2 w)).trans (by rw [rows1]), a3, fun w => ?_⟩
          rw [b3 w]
          constructor
          · rintro ⟨hb2, hrest⟩
            have hb1 : ∀ y, InB s1 w y := fun y => (InB_congr s1 s2 l2 u2 w y).mp (hb2 y)
            have := (bnd1 w).mp hb1
            refine ⟨this.1, ?_⟩
            intro b hb
            rcases List.mem_cons.mp hb with rfl | hb
            · exact this.2
            · exact hrest b hb
          · rintro ⟨hb, hat⟩
            refine ⟨fun y => (InB_congr s1 s2 l2 u2 w y).mpr (((bnd1 w).mpr ⟨hb, hat a (List.mem_cons_self ..)⟩) y),
              fun b hb' => hat b (List.mem_cons_of_mem _ hb')⟩
        | unsat xi s' => exact back s2 rest l2 u2 r2 (fun b hb => hb) hrec
        | conflict k' s' => exact back s2 rest l2 u2 r2 (fun b hb => hb) hrec
        | fuel s' => trivial
      · rename_i xi s2 hc
        cases h
        obtain ⟨_, l2, u2, r2, _, un2⟩ := check_spec fuel s1 s2 (.unsat xi) inv1 hc
        refine back s2 [] l2 u2 r2 (by simp) ?_
        rintro ⟨w, hw, hb, _⟩
        exact un2 xi rfl ⟨w, hw, hb⟩
      · cases h; trivial

end Holpy.C16.Simplex
