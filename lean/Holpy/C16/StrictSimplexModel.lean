import Holpy.C16.SimplexModel
import Holpy.C16.StrictModel
/-
C16 — executable model of the `Simplex` class of `prover/simplex_strict.py`: the same tableau solver
as `prover/simplex.py`, but values and bounds are δ-rationals `Pair(x, y)` (`x + y·δ`) compared
lexicographically; coefficients stay rational.  Core Lean only.

`Pair` arithmetic in the Python is componentwise (`Pair + Pair`, `Fraction * Pair`, `Pair / Fraction`),
so every operation on the assignment is the rational operation of SimplexModel on the two components
separately: the state keeps the rational state `sx` (rows, x-components, names) and the y-components
`my`; `compY` is the rational state of the y-components over the same rows.  Only the comparisons
(which variable is violated, which can move, `assert_upper/lower`) look at both components.
-/
namespace Holpy.C16.StrictSimplex
open Holpy.C16.Simplex Holpy.C16.Strict

structure PState where
  sx : SState                      -- rows, x-components of `mapping`, vars, index, matrix (its lo/hi are unused)
  my : Var → Rat                   -- y-components of `mapping`
  lo : Var → Option Pair
  hi : Var → Option Pair

def compY (s : PState) : SState := { s.sx with mapping := s.my }
def pval (s : PState) (x : Var) : Pair := ⟨s.sx.mapping x, s.my x⟩

/-- `update(x, v)` -/
def updateP (s : PState) (x : Var) (c : Pair) : PState :=
  { s with sx := update s.sx x c.x, my := (update (compY s) x c.y).mapping }

/-- `pivotAndUpdate(xi, xj, v)` -/
def pivotAndUpdateP (s : PState) (xi xj : Var) (v : Pair) : PState :=
  { s with sx := pivotAndUpdate s.sx xi xj v.x, my := (pivotAndUpdate (compY s) xi xj v.y).mapping }

def ltLoP (s : PState) (x : Var) : Bool := match s.lo x with | some l => (pval s x).lt l | none => false
def gtHiP (s : PState) (x : Var) : Bool := match s.hi x with | some u => u.lt (pval s x) | none => false
def belowHiP (s : PState) (x : Var) : Bool := match s.hi x with | some u => (pval s x).lt u | none => true
def aboveLoP (s : PState) (x : Var) : Bool := match s.lo x with | some l => l.lt (pval s x) | none => true

/-- the first (smallest) basic variable outside its bounds -/
def pickViolatedP (s : PState) : Option Var :=
  s.sx.rows.foldl (fun best r =>
    if ltLoP s r.1 || gtHiP s r.1 then
      match best with
      | none => some r.1
      | some b => if r.1 < b then some r.1 else some b
    else best) none

/-- `check()` -/
def checkP : Nat → PState → Verdict × PState
  | 0, s => (.fuel, s)
  | fuel + 1, s =>
    match pickViolatedP s with
    | none => (.sat, s)
    | some xi =>
      let jars := reducePairs ((rowOf s.sx xi).getD [])
      if ltLoP s xi then
        match jars.find? (fun j => (decide (j.2 > 0) && belowHiP s j.1) || (decide (j.2 < 0) && aboveLoP s j.1)) with
        | some j => checkP fuel (pivotAndUpdateP s xi j.1 ((s.lo xi).getD ⟨0, 0⟩))
        | none => (.unsat xi, s)
      else
        match jars.find? (fun j => (decide (j.2 < 0) && belowHiP s j.1) || (decide (j.2 > 0) && aboveLoP s j.1)) with
        | some j => checkP fuel (pivotAndUpdateP s xi j.1 ((s.hi xi).getD ⟨0, 0⟩))
        | none => (.unsat xi, s)

inductive PAssertResult where
  | ok (s : PState)
  | conflict

/-- `assert_upper(x, c)` -/
def assertUpperP (s : PState) (x : Var) (c : Pair) : PAssertResult :=
  if (match s.lo x with | some l => c.lt l | none => false) then .conflict
  else if (match s.hi x with | some u => c.lt u | none => true) then
    if !isBasic s.sx x && c.lt (pval s x) then .ok (updateP { s with hi := setQ s.hi x (some c) } x c)
    else .ok { s with hi := setQ s.hi x (some c) }
  else .ok s

/-- `assert_lower(x, c)` -/
def assertLowerP (s : PState) (x : Var) (c : Pair) : PAssertResult :=
  if (match s.hi x with | some u => u.lt c | none => false) then .conflict
  else if (match s.lo x with | some l => l.lt c | none => true) then
    if !isBasic s.sx x && (pval s x).lt c then .ok (updateP { s with lo := setQ s.lo x (some c) } x c)
    else .ok { s with lo := setQ s.lo x (some c) }
  else .ok s

inductive PAtom where
  | geq (x : Var) (c : Pair)
  | leq (x : Var) (c : Pair)

/-- a constraint `Σ cⱼ·xⱼ ≥ b` / `≤ b` with a δ-rational bound (`b + δ` for `>`, `b - δ` for `<`) -/
structure PIneq where
  kind : Kind
  jars : Jars
  bound : Pair

def emptyP : PState := ⟨emptyState, fun _ => 0, fun _ => none, fun _ => none⟩

/-- the constraint as the rational solver sees it (standard part of the bound) -/
def projIneq (q : PIneq) : Ineq := ⟨q.kind, q.jars, q.bound.x⟩
/-- the atom of the rational solver with the δ-rational bound put back -/
def liftAtom (q : PIneq) : Atom → PAtom
  | .geq x _ => .geq x q.bound
  | .leq x _ => .leq x q.bound

/-- `add_ineq` (the tableau part is that of the rational solver) -/
def addIneqP (s : PState) (q : PIneq) : PState × Option PAtom :=
  ({ s with sx := (addIneq s.sx (projIneq q)).1 }, (addIneq s.sx (projIneq q)).2.map (liftAtom q))

def addIneqsP : PState → List PIneq → PState × List PAtom
  | s, [] => (s, [])
  | s, q :: rest =>
    let (s1, a) := addIneqP s q
    let (s2, as) := addIneqsP s1 rest
    (s2, match a with | some a => a :: as | none => as)

inductive POutcome where
  | sat (s : PState)
  | unsat (xi : Var) (s : PState)
  | conflict (k : Nat) (s : PState)
  | fuel (s : PState)

/-- `handle_assertion()` -/
def handleAssertionP (fuel : Nat) : PState → List PAtom → Nat → List PState → POutcome × List PState
  | s, [], _, tr => (.sat s, tr)
  | s, a :: rest, k, tr =>
    let r := match a with
      | .leq x c => assertUpperP s x c
      | .geq x c => assertLowerP s x c
    match r with
    | .conflict => (.conflict k s, tr)
    | .ok s1 =>
      match checkP fuel s1 with
      | (.sat, s2) => handleAssertionP fuel s2 rest (k + 1) (tr ++ [s2])
      | (.unsat xi, s2) => (.unsat xi s2, tr ++ [s2])
      | (.fuel, s2) => (.fuel s2, tr ++ [s2])

def runP (fuel : Nat) (qs : List PIneq) : POutcome × List PState :=
  let (s, atoms) := addIneqsP emptyP qs
  handleAssertionP fuel s atoms 0 []

end Holpy.C16.StrictSimplex
