import Holpy.C16.SimplexRun
import Holpy.C16.SimplexBB
/-
C16 — `branch_and_bound` of the model: the branching covers all integers; a returned mapping is an
integer solution of the original constraints; if the loop ends with "no integer solution" (no node
ran out of fuel, budget not exhausted) there is no integer solution.
-/
namespace Holpy.C16.Simplex

theorem ceilQ_le_floorQ_succ (v : ℚ) : ceilQ v ≤ floorQ v + 1 := by
  unfold ceilQ floorQ
  rw [Rat.neg_num, Rat.neg_den]
  have hd : (0 : Int) < (v.den : Int) := by exact_mod_cast v.den_pos
  generalize (v.den : Int) = d at hd
  generalize v.num = n
  have h1 := Int.mul_ediv_add_emod n d
  have h2 := Int.emod_lt_of_pos n hd
  have : -(n / d) - 1 ≤ (-n) / d := Int.le_ediv_of_mul_le hd (by nlinarith)
  omega

/-- the two children `x ≤ ⌊v⌋` and `x ≥ ⌈v⌉` of a node cover every integer value of `x` -/
theorem branch_covers (z : Int) (v : ℚ) : z ≤ floorQ v ∨ ceilQ v ≤ z := by
  have := ceilQ_le_floorQ_succ v
  omega

/-- every variable has an integer value -/
def IntVal (w : Var → ℚ) : Prop := ∀ x, ∃ z : Int, w x = (z : ℚ)
/-- the constraints of a node have an integer solution -/
def IntSol (node : List Ineq) : Prop := ∃ w : Var → ℚ, IntVal w ∧ ∀ q ∈ node, IneqHolds q w

theorem unit_le_holds (x : Var) (b : ℚ) (w : Var → ℚ) : IneqHolds ⟨.le, [(x, 1)], b⟩ w ↔ w x ≤ b := by
  simp [IneqHolds, evalJ]
theorem unit_ge_holds (x : Var) (b : ℚ) (w : Var → ℚ) : IneqHolds ⟨.ge, [(x, 1)], b⟩ w ↔ b ≤ w x := by
  simp [IneqHolds, evalJ]

theorem mem_inputVars (node : List Ineq) (x : Var) : x ∈ inputVars node ↔ ∃ q ∈ node, x ∈ varsOf q.jars := by
  simp [inputVars, varsOf]

theorem inputOK_child (N : Nat) (node : List Ineq) (k : Kind) (x : Var) (b : ℚ) (h : InputOK N node)
    (hx : x ∈ inputVars node) : InputOK N (⟨k, [(x, 1)], b⟩ :: node) := by
  obtain ⟨q, hq, hxq⟩ := (mem_inputVars node x).mp hx
  have hN : N ≤ x := (h.2 q hq).2 x hxq
  refine ⟨?_, ?_⟩
  · have : slackCount (⟨k, [(x, 1)], b⟩ :: node) = slackCount node := by
      simp [slackCount, List.filter_cons, isUnit]
    rw [this]; exact h.1
  · intro q' hq'
    rcases List.mem_cons.mp hq' with rfl | hq'
    · refine ⟨by simp [DistinctVars, varsOf], ?_⟩
      intro y hy; simp [varsOf] at hy; rw [hy]; exact hN
    · exact h.2 q' hq'

theorem run_pair (fuel : Nat) (node : List Ineq) : run fuel node = ((run fuel node).1, (run fuel node).2) := rfl

/-- a mapping the loop returns is an integer solution of the root constraints -/
theorem bbLoop_found (N fuel : Nat) (qs : List Ineq) : ∀ (budget : Nat) (queue : List (List Ineq)) (picks : List Var)
    (n n' : Nat) (s : SState), (∀ node ∈ queue, InputOK N node ∧ ∀ q ∈ qs, q ∈ node) →
    bbLoop fuel budget queue picks n = (.found s, n') →
    (∀ q ∈ qs, (∀ x, q.jars ≠ [(x, 0)]) → IneqHolds q s.mapping) ∧ ∀ x ∈ inputVars qs, (s.mapping x).den = 1 := by
  intro budget
  induction budget with
  | zero =>
    intro queue picks n n' s _ h
    cases queue <;> simp [bbLoop] at h
  | succ budget ih =>
    intro queue picks n n' s hq h
    cases queue with
    | nil => simp [bbLoop] at h
    | cons node rest =>
      have hrest : ∀ nd ∈ rest, InputOK N nd ∧ ∀ q ∈ qs, q ∈ nd := fun nd hnd => hq nd (List.mem_cons_of_mem _ hnd)
      obtain ⟨hok, hsub⟩ := hq node (List.mem_cons_self ..)
      simp only [bbLoop] at h
      split at h
      · exact ih rest picks _ n' s hrest h
      · exact ih rest picks _ n' s hrest h
      · cases h
      · rename_i s1 hrun
        split at h
        · rename_i hint
          cases h
          have hr : run fuel node = (.sat s, (run fuel node).2) := by rw [run_pair fuel node, hrun]
          refine ⟨fun q hq' hnz => run_sat N fuel node hok s _ hr q (hsub q hq') hnz, ?_⟩
          intro x hx
          obtain ⟨q, hq', hxq⟩ := (mem_inputVars qs x).mp hx
          have hx' : x ∈ inputVars node := (mem_inputVars node x).mpr ⟨q, hsub q hq', hxq⟩
          have := List.all_eq_true.mp hint x hx'
          simpa using this
        · split at h
          · cases h
          · rename_i x picks'
            split at h
            · cases h
            · rename_i hxin
              have hxin' : x ∈ inputVars node := by simpa using hxin
              refine ih _ picks' _ n' s ?_ h
              intro nd hnd
              rcases List.mem_cons.mp hnd with rfl | hnd
              · exact ⟨inputOK_child N node _ x _ hok hxin', fun q hq' => List.mem_cons_of_mem _ (hsub q hq')⟩
              rcases List.mem_cons.mp hnd with rfl | hnd
              · exact ⟨inputOK_child N node _ x _ hok hxin', fun q hq' => List.mem_cons_of_mem _ (hsub q hq')⟩
              · exact hrest nd hnd

/-- if the loop ends with an empty queue, no node of the queue it started from has an integer solution -/
theorem bbLoop_none (N fuel : Nat) : ∀ (budget : Nat) (queue : List (List Ineq)) (picks : List Var) (n n' : Nat),
    (∀ node ∈ queue, InputOK N node) → bbLoop fuel budget queue picks n = (.none, n') →
    ∀ node ∈ queue, ¬ IntSol node := by
  intro budget
  induction budget with
  | zero =>
    intro queue picks n n' _ h
    cases queue with
    | nil => intro node hnode; cases hnode
    | cons a b => simp [bbLoop] at h
  | succ budget ih =>
    intro queue picks n n' hq h
    cases queue with
    | nil => intro node hnode; cases hnode
    | cons node rest =>
      have hrest : ∀ nd ∈ rest, InputOK N nd := fun nd hnd => hq nd (List.mem_cons_of_mem _ hnd)
      have hok := hq node (List.mem_cons_self ..)
      simp only [bbLoop] at h
      have closed : ∀ o, (run fuel node).1 = o → ((∃ xi s', o = .unsat xi s') ∨ (∃ j s', o = .conflict j s')) →
          ¬ IntSol node := by
        intro o ho hkind ⟨w, _, hw⟩
        have hr : run fuel node = (o, (run fuel node).2) := by rw [run_pair fuel node, ho]
        exact run_unsat N fuel node hok o _ hr hkind ⟨w, hw⟩
      split at h
      · rename_i xi s1 hrun
        have := ih rest picks _ n' hrest h
        intro nd hnd
        rcases List.mem_cons.mp hnd with rfl | hnd
        · exact closed _ hrun (Or.inl ⟨xi, s1, rfl⟩)
        · exact this nd hnd
      · rename_i j s1 hrun
        have := ih rest picks _ n' hrest h
        intro nd hnd
        rcases List.mem_cons.mp hnd with rfl | hnd
        · exact closed _ hrun (Or.inr ⟨j, s1, rfl⟩)
        · exact this nd hnd
      · cases h
      · rename_i s1 hrun
        split at h
        · cases h
        · split at h
          · cases h
          · rename_i x picks'
            split at h
            · cases h
            · rename_i hxin
              have hxin' : x ∈ inputVars node := by simpa using hxin
              have hchildren := ih _ picks' _ n' (by
                intro nd hnd
                rcases List.mem_cons.mp hnd with rfl | hnd
                · exact inputOK_child N node _ x _ hok hxin'
                rcases List.mem_cons.mp hnd with rfl | hnd
                · exact inputOK_child N node _ x _ hok hxin'
                · exact hrest nd hnd) h
              intro nd hnd
              rcases List.mem_cons.mp hnd with rfl | hnd
              · rintro ⟨w, hint, hw⟩
                obtain ⟨z, hz⟩ := hint x
                rcases branch_covers z (s1.mapping x) with hle | hge
                · apply hchildren _ (List.mem_cons_of_mem _ (List.mem_cons_self ..))
                  refine ⟨w, hint, ?_⟩
                  intro q hq'
                  rcases List.mem_cons.mp hq' with rfl | hq'
                  · rw [unit_le_holds, hz]; exact_mod_cast hle
                  · exact hw q hq'
                · apply hchildren _ (List.mem_cons_self ..)
                  refine ⟨w, hint, ?_⟩
                  intro q hq'
                  rcases List.mem_cons.mp hq' with rfl | hq'
                  · rw [unit_ge_holds, hz]; exact_mod_cast hge
                  · exact hw q hq'
              · exact hchildren nd (List.mem_cons_of_mem _ (List.mem_cons_of_mem _ hnd))

end Holpy.C16.Simplex
