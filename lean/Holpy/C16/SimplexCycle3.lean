import Holpy.C16.SimplexCycle2
import Holpy.C16.SimplexAllVars
/-
C16 — `NoRepeat` for every run of `check` from a state satisfying the invariant: equal configurations
at two points of the run give a segment with the same basis at both ends and the same values of the
bounded non-basic variables, which `seg_no_repeat` excludes.
-/
namespace Holpy.C16.Simplex

theorem traj_succ_right : ∀ (k : Nat) (s : SState),
    traj s (k + 1) = (traj s k).bind (fun a => match step a with | .next a' => some a' | _ => none) := by
  intro k
  induction k with
  | zero =>
    intro s
    simp only [traj, Option.bind_some]
    cases step s <;> rfl
  | succ k ih =>
    intro s
    rw [traj]
    cases hs : step s with
    | sat => simp [traj, hs]
    | unsat xi => simp [traj, hs]
    | next s' =>
      simp only
      rw [ih s']
      conv_rhs => rw [traj]
      simp only [hs]

theorem traj_step (s : SState) (k : Nat) (a a' : SState) (h1 : traj s k = some a) (h2 : traj s (k + 1) = some a') :
    step a = .next a' := by
  rw [traj_succ_right, h1] at h2
  simp only [Option.bind_some] at h2
  cases hs : step a with
  | sat => rw [hs] at h2; cases h2
  | unsat xi => rw [hs] at h2; cases h2
  | next s' => rw [hs] at h2; simp only [Option.some.injEq] at h2; rw [h2]

theorem traj_some_of_le (s : SState) (k n : Nat) (hk : k ≤ n) (a : SState) (h : traj s n = some a) : ∃ b, traj s k = some b := by
  cases hb : traj s k with
  | some b => exact ⟨b, rfl⟩
  | none => rw [traj_none_of_le s k n hk hb] at h; cases h

theorem code_zero_iff (s : SState) (x : Var) : code s x = 0 ↔ isBasic s x = true := by
  unfold code
  cases isBasic s x with
  | true => simp
  | false =>
    simp only [Bool.false_eq_true, if_false, iff_false]
    split
    · decide
    · split <;> decide

theorem code_value (a b : SState) (x : Var) (hlo : b.lo = a.lo) (hhi : b.hi = a.hi) (ha : isBasic a x = false)
    (hb : isBasic b x = false) (hc : code a x = code b x)
    (hbd : b.lo x = some (b.mapping x) ∨ b.hi x = some (b.mapping x)) : a.mapping x = b.mapping x := by
  have hlo' : b.lo x = a.lo x := congrFun hlo x
  have hhi' : b.hi x = a.hi x := congrFun hhi x
  simp only [code, ha, hb, Bool.false_eq_true, if_false, beq_iff_eq] at hc
  by_cases h1 : b.lo x = some (b.mapping x)
  · rw [if_pos h1] at hc
    by_cases h2 : a.lo x = some (a.mapping x)
    · rw [hlo', h2] at h1; exact Option.some.inj h1
    · rw [if_neg h2] at hc
      split at hc <;> exact absurd hc (by decide)
  · rw [if_neg h1] at hc
    have h3 : b.hi x = some (b.mapping x) := by
      rcases hbd with h | h
      · exact absurd h h1
      · exact h
    rw [if_pos h3] at hc
    by_cases h2 : a.lo x = some (a.mapping x)
    · rw [if_pos h2] at hc; exact absurd hc (by decide)
    · rw [if_neg h2] at hc
      by_cases h4 : a.hi x = some (a.mapping x)
      · rw [hhi', h4] at h3; exact Option.some.inj h3
      · rw [if_neg h4] at hc; exact absurd hc (by decide)

/-- **Bland's rule (fix C16-5) does not cycle**: no configuration occurs twice along a run of `check` -/
theorem bland_no_repeat (s0 : SState) (hinv : Inv s0) : NoRepeat s0 := by
  intro i j a b hij ha hb heq
  let S : Nat → SState := fun k => (traj s0 k).getD s0
  have hS : ∀ k, k ≤ j → traj s0 k = some (S k) := by
    intro k hk
    obtain ⟨c, hc⟩ := traj_some_of_le s0 k j hk b hb
    simp only [S, hc, Option.getD_some]
  have hSi : S i = a := by simp only [S, ha, Option.getD_some]
  have hSj : S j = b := by simp only [S, hb, Option.getD_some]
  have hpres : ∀ k, k ≤ j → Inv (S k) ∧ (S k).lo = s0.lo ∧ (S k).hi = s0.hi ∧ ∀ w, RowsHold (S k).rows w ↔ RowsHold s0.rows w :=
    fun k hk => traj_preserves k s0 (S k) hinv (hS k hk)
  have hseg : Seg S i j :=
    { step := fun k h1 h2 => traj_step s0 k (S k) (S (k + 1)) (hS k (by omega)) (hS (k + 1) (by omega))
      inv := fun k _ h2 => (hpres k h2).1
      lo := fun k _ h2 => by rw [(hpres k h2).2.1, (hpres i (by omega)).2.1]
      hi := fun k _ h2 => by rw [(hpres k h2).2.2.1, (hpres i (by omega)).2.2.1]
      rows := fun k _ h2 w => ((hpres k h2).2.2.2 w).trans ((hpres i (by omega)).2.2.2 w).symm }
  have hcode : ∀ x ∈ allVars s0, code (S i) x = code (S j) x := by
    intro x hx
    obtain ⟨n, hn⟩ := List.mem_iff_get.mp hx
    have := congrFun heq n
    simp only [conf, hn] at this
    rw [hSi, hSj]; exact this
  have hnotin : ∀ x, x ∉ allVars s0 → ∀ k, k ≤ j → isBasic (S k) x = false := by
    intro x hx k hk
    cases hb' : isBasic (S k) x with
    | false => rfl
    | true => exact absurd (traj_allVars k s0 (S k) hinv (hS k hk) x (isBasic_mem_allVars _ x hb')) hx
  have hbasic : ∀ x, isBasic (S i) x = isBasic (S j) x := by
    intro x
    by_cases hx : x ∈ allVars s0
    · have hc := hcode x hx
      have e1 := code_zero_iff (S i) x
      have e2 := code_zero_iff (S j) x
      rw [hc] at e1
      cases h1 : isBasic (S i) x with
      | true => exact (e2.mp (e1.mpr h1)).symm
      | false =>
        cases h2 : isBasic (S j) x with
        | false => rfl
        | true => rw [e1.mp (e2.mpr h2)] at h1; cases h1
    · rw [hnotin x hx i (by omega), hnotin x hx j (le_refl _)]
  have hvalue : ∀ x, isBasic (S j) x = false →
      ((S j).lo x = some ((S j).mapping x) ∨ (S j).hi x = some ((S j).mapping x)) → (S i).mapping x = (S j).mapping x := by
    intro x hnb hbd
    by_cases hx : x ∈ allVars s0
    · exact code_value (S i) (S j) x (hseg.lo j (by omega) (le_refl _)) (hseg.hi j (by omega) (le_refl _))
        (by rw [hbasic]; exact hnb) hnb (hcode x hx) hbd
    · exact (value_const S i j hseg x i j (le_refl _) (by omega) (le_refl _) (fun k _ b => hnotin x hx k b)).symm
  exact seg_no_repeat S i j hij hseg hbasic hvalue

end Holpy.C16.Simplex
