import Holpy.C16.SimplexHandle
/-
C16 — `add_ineq` of the simplex model: the tableau it builds satisfies the invariant, and its atoms
say exactly what the given constraints say (on every solution of the row equations).
-/
namespace Holpy.C16.Simplex

/-- a given constraint `Σ cⱼ·xⱼ ≥ b` / `≤ b` under an assignment -/
def IneqHolds (q : Ineq) (w : Var → ℚ) : Prop :=
  match q.kind with
  | .ge => q.bound ≤ evalJ q.jars w
  | .le => evalJ q.jars w ≤ q.bound

/-- the state during `add_ineqs` (problem variables are numbered from `N` upwards, slack variables
are `0 … index-1`) -/
structure Built (N : Nat) (s : SState) : Prop where
  rows_eq : s.rows = s.matrix.map (fun p => (p.2, p.1))
  ids : s.matrix.map (·.2) = List.range s.index
  zero : s.mapping = fun _ => 0
  nolo : s.lo = fun _ => none
  nohi : s.hi = fun _ => none
  rowvars : ∀ r ∈ s.rows, DistinctVars r.2 ∧ ∀ x ∈ varsOf r.2, N ≤ x

theorem evalJ_zero (js : Jars) : evalJ js (fun _ => (0 : ℚ)) = 0 := by
  induction js with
  | nil => rfl
  | cons p js ih => obtain ⟨y, c⟩ := p; simp [evalJ, ih]

theorem built_heads (N : Nat) (s : SState) (hb : Built N s) : s.rows.map (·.1) = List.range s.index := by
  rw [hb.rows_eq, List.map_map, ← hb.ids]; rfl

theorem built_inv (N : Nat) (s : SState) (hb : Built N s) (hN : s.index ≤ N) : Inv s ∧ ∀ x, InB s s.mapping x := by
  have hh := built_heads N s hb
  refine ⟨⟨⟨?_, fun r hr => (hb.rowvars r hr).1, ?_⟩, ?_, ?_, ?_⟩, ?_⟩
  · rw [hh]; exact List.nodup_range
  · intro r hr x hx
    have hx' := (hb.rowvars r hr).2 x hx
    cases hbx : isBasic s x with
    | false => rfl
    | true =>
      have := (isBasic_iff s x).mp hbx
      rw [hh, List.mem_range] at this
      omega
  · intro r _; rw [hb.zero, evalJ_zero]
  · intro x _; simp [InB, hb.nolo, hb.nohi]
  · intro x l u hl _; simp [hb.nolo] at hl
  · intro x; simp [InB, hb.nolo, hb.nohi]

theorem addVar_same (s : SState) (x : Var) :
    (addVar s x).rows = s.rows ∧ (addVar s x).matrix = s.matrix ∧ (addVar s x).index = s.index ∧
    (addVar s x).mapping = s.mapping ∧ (addVar s x).lo = s.lo ∧ (addVar s x).hi = s.hi := by
  unfold addVar; split <;> simp

theorem built_addVar (N : Nat) (s : SState) (x : Var) (hb : Built N s) : Built N (addVar s x) := by
  obtain ⟨h1, h2, h3, h4, h5, h6⟩ := addVar_same s x
  exact ⟨by rw [h1, h2]; exact hb.rows_eq, by rw [h2, h3]; exact hb.ids, by rw [h4]; exact hb.zero,
    by rw [h5]; exact hb.nolo, by rw [h6]; exact hb.nohi, by rw [h1]; exact hb.rowvars⟩

theorem foldl_addVar_same (js : Jars) (s : SState) :
    (js.foldl (fun st j => addVar st j.1) s).rows = s.rows ∧ (js.foldl (fun st j => addVar st j.1) s).matrix = s.matrix ∧
    (js.foldl (fun st j => addVar st j.1) s).index = s.index := by
  induction js generalizing s with
  | nil => simp
  | cons j js ih =>
    obtain ⟨h1, h2, h3, _⟩ := addVar_same s j.1
    obtain ⟨i1, i2, i3⟩ := ih (addVar s j.1)
    simp only [List.foldl_cons]
    exact ⟨i1.trans h1, i2.trans h2, i3.trans h3⟩

theorem built_foldl_addVar (N : Nat) (js : Jars) (s : SState) (hb : Built N s) :
    Built N (js.foldl (fun st j => addVar st j.1) s) := by
  induction js generalizing s with
  | nil => exact hb
  | cons j js ih => exact ih _ (built_addVar N s j.1 hb)

/-- adding a new slack variable with row `js` -/
theorem built_newSlack (N : Nat) (s : SState) (js : Jars) (hb : Built N s) (hd : DistinctVars js)
    (hv : ∀ x ∈ varsOf js, N ≤ x) :
    Built N { s with index := s.index + 1, matrix := s.matrix ++ [(js, s.index)], rows := s.rows ++ [(s.index, js)] } := by
  refine ⟨?_, ?_, hb.zero, hb.nolo, hb.nohi, ?_⟩
  · simp [hb.rows_eq]
  · simp [hb.ids, List.range_succ]
  · intro r hr
    rcases List.mem_append.mp hr with hr | hr
    · exact hb.rowvars r hr
    · simp only [List.mem_singleton] at hr; subst hr; exact ⟨hd, hv⟩

theorem atom_slack_iff (k : Kind) (sl : Var) (js : Jars) (b : ℚ) (rows : List (Var × Jars)) (hm : (sl, js) ∈ rows)
    (w : Var → ℚ) (hw : RowsHold rows w) : AtomHolds (mkAtom k sl b) w ↔ IneqHolds ⟨k, js, b⟩ w := by
  have := hw _ hm
  simp only at this
  cases k <;> simp [mkAtom, AtomHolds, IneqHolds, this]

end Holpy.C16.Simplex
