import Holpy.C16.SimplexCheck2
/-
C16 — `check()` of the simplex model is sound (by induction on the fuel).
-/
namespace Holpy.C16.Simplex

/-- what `check` guarantees, for every fuel: invariant, bounds and row solutions unchanged;
`sat`: every variable within its bounds; `unsat`: rows + bounds have no rational solution. -/
theorem check_spec : ∀ (fuel : Nat) (s s' : SState) (vd : Verdict), Inv s → check fuel s = (vd, s') →
    Inv s' ∧ s'.lo = s.lo ∧ s'.hi = s.hi ∧ (∀ w, RowsHold s'.rows w ↔ RowsHold s.rows w) ∧
    (vd = .sat → ∀ x, InB s' s'.mapping x) ∧
    (∀ xi, vd = .unsat xi → ¬ ∃ w : Var → ℚ, RowsHold s'.rows w ∧ ∀ x, InB s' w x) := by
  intro fuel
  induction fuel with
  | zero =>
    intro s s' vd hinv h
    simp only [check] at h
    cases h
    exact ⟨hinv, rfl, rfl, fun _ => Iff.rfl, by simp, by simp⟩
  | succ fuel ih =>
    intro s s' vd hinv h
    simp only [check] at h
    split at h
    · rename_i hpick
      cases h
      refine ⟨hinv, rfl, rfl, fun _ => Iff.rfl, ?_, by simp⟩
      intro _ x
      cases hb : isBasic s x with
      | false => exact hinv.nb x hb
      | true =>
        have := pickViolated_none s hpick x hb
        exact inB_of_not_violated s x this.1 this.2
    · rename_i xi hpick
      obtain ⟨⟨jars, hm⟩, hviol⟩ := pickViolated_some s xi hpick
      have hrow : (rowOf s xi).getD [] = jars := by rw [rowOf_of_mem s hinv.wf.heads xi jars hm]; rfl
      rw [hrow] at h
      have hd := hinv.wf.distinct _ hm
      -- after a repair step, continue with the induction hypothesis
      have step : ∀ (xj : Var) (v : ℚ) (vd : Verdict) (s' : SState), coeffOf xj jars ≠ 0 →
          ((∀ l, s.lo xi = some l → l ≤ v) ∧ (∀ u, s.hi xi = some u → v ≤ u)) →
          check fuel (pivotAndUpdate s xi xj v) = (vd, s') →
          Inv s' ∧ s'.lo = s.lo ∧ s'.hi = s.hi ∧ (∀ w, RowsHold s'.rows w ↔ RowsHold s.rows w) ∧
          (vd = .sat → ∀ x, InB s' s'.mapping x) ∧
          (∀ xi, vd = .unsat xi → ¬ ∃ w : Var → ℚ, RowsHold s'.rows w ∧ ∀ x, InB s' w x) := by
        intro xj v vd s' ha hv hc
        obtain ⟨i1, l1, u1, r1⟩ := pivotAndUpdate_inv s xi xj jars v hinv hm ha hv
        obtain ⟨i2, l2, u2, r2, sat2, un2⟩ := ih _ s' vd i1 hc
        exact ⟨i2, l2.trans l1, u2.trans u1, fun w => (r2 w).trans (r1 w), sat2, un2⟩
      split at h
      · rename_i hlt
        split at h
        · rename_i j hfind
          have hj := List.mem_of_find?_eq_some hfind
          have hp := List.find?_some hfind
          have hc : coeffOf j.1 jars ≠ 0 := by
            rw [mem_reducePairs_coeff jars hd j hj]
            simp only [Bool.or_eq_true, Bool.and_eq_true, decide_eq_true_eq] at hp
            rcases hp with ⟨h1, _⟩ | ⟨h1, _⟩
            · exact ne_of_gt h1
            · exact ne_of_lt h1
          simp only [ltLo] at hlt
          cases hl : s.lo xi with
          | none => simp [hl] at hlt
          | some l =>
            rw [hl] at h
            refine step j.1 l vd s' hc ⟨?_, ?_⟩ h
            · intro l' hl'; rw [hl] at hl'; cases hl'; exact le_refl _
            · intro u hu; exact hinv.bnd xi l u hl hu
        · rename_i hnone
          cases h
          refine ⟨hinv, rfl, rfl, fun _ => Iff.rfl, by simp, ?_⟩
          intro _ _
          exact stuck_lower_unsat s xi jars hinv hm hlt hnone
      · rename_i hnlt
        have hgt : gtHi s xi = true := by
          cases hb : ltLo s xi with
          | true => exact absurd hb hnlt
          | false => rw [hb] at hviol; simpa using hviol
        split at h
        · rename_i j hfind
          have hj := List.mem_of_find?_eq_some hfind
          have hp := List.find?_some hfind
          have hc : coeffOf j.1 jars ≠ 0 := by
            rw [mem_reducePairs_coeff jars hd j hj]
            simp only [Bool.or_eq_true, Bool.and_eq_true, decide_eq_true_eq] at hp
            rcases hp with ⟨h1, _⟩ | ⟨h1, _⟩
            · exact ne_of_lt h1
            · exact ne_of_gt h1
          have hgt' := hgt
          simp only [gtHi] at hgt'
          cases hu : s.hi xi with
          | none => simp [hu] at hgt'
          | some u =>
            rw [hu] at h
            refine step j.1 u vd s' hc ⟨?_, ?_⟩ h
            · intro l hl; exact hinv.bnd xi l u hl hu
            · intro u' hu'; rw [hu] at hu'; cases hu'; exact le_refl _
        · rename_i hnone
          cases h
          refine ⟨hinv, rfl, rfl, fun _ => Iff.rfl, by simp, ?_⟩
          intro _ _
          exact stuck_upper_unsat s xi jars hinv hm hgt hnone

end Holpy.C16.Simplex
