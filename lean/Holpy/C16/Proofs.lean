import Holpy.C16.Model
import Mathlib.Tactic.Ring
import Mathlib.Tactic.Linarith
import Mathlib.Tactic.Push
import Mathlib.Tactic.FieldSimp
import Mathlib.Tactic.Positivity
import Mathlib.Algebra.Order.Field.Rat
/-
C16 — helper lemmas for the certificate checkers (linear evaluation over any commutative ring,
gcd division) .  The property theorems themselves are in Props.lean.
-/
namespace Holpy.C16

/-! ### evaluation over a commutative ring -/

section Generic
variable {R : Type} [CommRing R]

/-- `evalAt` with the coefficients cast into `R` (used with `R = ℚ`, and `R = ℤ` where it is `evalAt`). -/
def evalG : Row → Nat → (Nat → R) → R
  | [], _, _ => 0
  | [c], _, _ => (c : R)
  | a :: b :: rest, i, v => (a : R) * v i + evalG (b :: rest) (i + 1) v

theorem evalG_lin (c d : Int) : ∀ (f1 f2 : Row) (i : Nat) (v : Nat → R), f1.length = f2.length →
    evalG (List.zipWith (fun m n => c * n + d * m) f1 f2) i v = (c : R) * evalG f2 i v + (d : R) * evalG f1 i v
  | [], [], i, v, _ => by simp [evalG]
  | [a], [b], i, v, _ => by simp [evalG]
  | a :: a' :: r1, b :: b' :: r2, i, v, h => by
    have ih := evalG_lin c d (a' :: r1) (b' :: r2) (i + 1) v (by simpa using h)
    simp only [List.zipWith_cons_cons, evalG] at ih ⊢
    rw [ih]; push_cast; ring
  | [], _ :: _, _, _, h => by simp at h
  | _ :: _, [], _, _, h => by simp at h
  | [_], _ :: _ :: _, _, _, h => by simp at h
  | _ :: _ :: _, [_], _, _, h => by simp at h

theorem evalG_add : ∀ (f1 f2 : Row) (i : Nat) (v : Nat → R), f1.length = f2.length →
    evalG (addRow f1 f2) i v = evalG f1 i v + evalG f2 i v
  | [], [], i, v, _ => by simp [evalG, addRow]
  | [a], [b], i, v, _ => by simp [evalG, addRow]
  | a :: a' :: r1, b :: b' :: r2, i, v, h => by
    have ih := evalG_add (a' :: r1) (b' :: r2) (i + 1) v (by simpa using h)
    simp only [addRow, List.zipWith_cons_cons, evalG] at ih ⊢
    rw [ih]; push_cast; ring
  | [], _ :: _, _, _, h => by simp at h
  | _ :: _, [], _, _, h => by simp at h
  | [_], _ :: _ :: _, _, _, h => by simp at h
  | _ :: _ :: _, [_], _, _, h => by simp at h

theorem evalG_scale (k : Int) : ∀ (f : Row) (i : Nat) (v : Nat → R),
    evalG (scaleRow k f) i v = (k : R) * evalG f i v
  | [], i, v => by simp [evalG, scaleRow]
  | [a], i, v => by simp [evalG, scaleRow]
  | a :: a' :: r, i, v => by
    have ih := evalG_scale k (a' :: r) (i + 1) v
    simp only [scaleRow, List.map_cons, evalG] at ih ⊢
    rw [ih]; push_cast; ring

theorem evalG_replicate_zero : ∀ (w i : Nat) (v : Nat → R), evalG (List.replicate w 0) i v = 0
  | 0, i, v => by simp [evalG]
  | 1, i, v => by simp [evalG]
  | w + 2, i, v => by
    have ih := evalG_replicate_zero (w + 1) (i + 1) v
    simp only [List.replicate_succ, evalG] at ih ⊢
    rw [ih]; simp

/-- A row whose variable coefficients are all 0 evaluates to its constant. -/
theorem evalG_zeroVar : ∀ (f : Row) (i : Nat) (v : Nat → R), isZeroVar f = true → evalG f i v = (rowConst f : R)
  | [], i, v, _ => by simp [evalG, rowConst]
  | [a], i, v, _ => by simp [evalG, rowConst]
  | a :: a' :: r, i, v, h => by
    have h' : a = 0 ∧ isZeroVar (a' :: r) = true := by
      simpa [isZeroVar, rowKey, List.dropLast] using h
    have ih := evalG_zeroVar (a' :: r) (i + 1) v h'.2
    simp only [evalG]
    rw [ih, h'.1]; simp [rowConst]

end Generic

theorem evalAt_eq_evalG : ∀ (r : Row) (i : Nat) (v : Nat → Int), evalAt r i v = evalG r i v
  | [], i, v => by simp [evalAt, evalG]
  | [a], i, v => by simp [evalAt, evalG]
  | a :: a' :: r, i, v => by
    have ih := evalAt_eq_evalG (a' :: r) (i + 1) v
    simp only [evalAt, evalG]; rw [ih]; simp

/-- value of a row under a rational assignment -/
def evalRowQ (r : Row) (v : Nat → ℚ) : ℚ := evalG r 0 v

/-! ### the run-time witness checkers compute `evalAt` / `evalG` -/

theorem dotFrom_spec : ∀ (r : Row) (xs : List Int) (acc : Int) (i : Nat) (w : Nat → Int),
    (∀ k, w (i + k) = xs.getD k 0) → dotFrom r xs acc = acc + evalAt r i w
  | [], xs, acc, i, w, _ => by simp [dotFrom, evalAt]
  | [c], xs, acc, i, w, _ => by simp [dotFrom, evalAt]
  | a :: b :: rest, [], acc, i, w, h => by
    have h0 : w i = 0 := by simpa using h 0
    have ih := dotFrom_spec (b :: rest) [] acc (i + 1) w (fun k => by
      have := h (k + 1); simp at this ⊢; rw [← this]; congr 1; omega)
    simp only [dotFrom, evalAt]; rw [ih, h0]; ring
  | a :: b :: rest, x :: xs, acc, i, w, h => by
    have h0 : w i = x := by simpa using h 0
    have ih := dotFrom_spec (b :: rest) xs (acc + a * x) (i + 1) w (fun k => by
      have := h (k + 1); simp at this ⊢; rw [← this]; congr 1; omega)
    simp only [dotFrom, evalAt]; rw [ih, h0]; ring

theorem dotFrom_eq (r : Row) (v : List Int) : dotFrom r v 0 = evalRow r (assignOf v) := by
  have := dotFrom_spec r v 0 0 (assignOf v) (fun k => by simp [assignOf])
  simpa [evalRow] using this

theorem dotFromQ_spec : ∀ (r : Row) (xs : List Int) (q acc : Int) (i : Nat) (w : Nat → ℚ), (q : ℚ) ≠ 0 →
    (∀ k, w (i + k) = (xs.getD k 0 : ℚ) / q) → (dotFromQ r xs q acc : ℚ) = acc + q * evalG r i w
  | [], xs, q, acc, i, w, _, _ => by simp [dotFromQ, evalG]
  | [c], xs, q, acc, i, w, _, _ => by simp [dotFromQ, evalG]; ring
  | a :: b :: rest, [], q, acc, i, w, hq, h => by
    have h0 : w i = 0 := by simpa using h 0
    have ih := dotFromQ_spec (b :: rest) [] q acc (i + 1) w hq (fun k => by
      have := h (k + 1); simp at this ⊢; rw [← this]; congr 1; omega)
    simp only [dotFromQ, evalG]; rw [ih, h0]; ring
  | a :: b :: rest, x :: xs, q, acc, i, w, hq, h => by
    have h0 : w i = (x : ℚ) / q := by simpa using h 0
    have ih := dotFromQ_spec (b :: rest) xs q (acc + a * x) (i + 1) w hq (fun k => by
      have := h (k + 1); simp at this ⊢; rw [← this]; congr 1; omega)
    simp only [dotFromQ, evalG]; rw [ih, h0]; push_cast; field_simp; ring

/-! ### Farkas combinations -/

theorem combRows_length : ∀ (ks : List Int) (rs : List Row) (w : Nat), (∀ r ∈ rs, r.length = w) →
    (combRows ks rs w).length = w
  | [], _, w, _ => by simp [combRows]
  | _ :: _, [], w, _ => by simp [combRows]
  | k :: ks, r :: rs, w, h => by
    have ih := combRows_length ks rs w (fun r' hr' => h r' (List.mem_cons_of_mem _ hr'))
    simp [combRows, addRow, scaleRow, ih, h r (List.mem_cons_self ..)]

theorem combRows_nonneg (v : Nat → ℚ) : ∀ (ks : List Int) (rs : List Row) (w : Nat), (∀ r ∈ rs, r.length = w) →
    (∀ k ∈ ks, 0 ≤ k) → (∀ r ∈ rs, 0 ≤ evalG r 0 v) → 0 ≤ evalG (combRows ks rs w) 0 v
  | [], _, w, _, _, _ => by simp [combRows, evalG_replicate_zero]
  | _ :: _, [], w, _, _, _ => by simp [combRows, evalG_replicate_zero]
  | k :: ks, r :: rs, w, hl, hk, hr => by
    have ih := combRows_nonneg v ks rs w (fun r' hr' => hl r' (List.mem_cons_of_mem _ hr'))
      (fun k' hk' => hk k' (List.mem_cons_of_mem _ hk')) (fun r' hr' => hr r' (List.mem_cons_of_mem _ hr'))
    have hlen : (scaleRow k r).length = (combRows ks rs w).length := by
      rw [combRows_length ks rs w (fun r' hr' => hl r' (List.mem_cons_of_mem _ hr'))]
      simp [scaleRow, hl r (List.mem_cons_self ..)]
    simp only [combRows]
    rw [evalG_add _ _ _ _ hlen, evalG_scale]
    have h1 : (0 : ℚ) ≤ (k : ℚ) := by exact_mod_cast hk k (List.mem_cons_self ..)
    have h2 := hr r (List.mem_cons_self ..)
    positivity

theorem isFalseRow_evalG_neg {R : Type} [CommRing R] [LinearOrder R] [IsStrictOrderedRing R]
    (f : Row) (i : Nat) (v : Nat → R) (h : isFalseRow f = true) : evalG f i v < 0 := by
  simp only [isFalseRow, Bool.and_eq_true, decide_eq_true_eq] at h
  rw [evalG_zeroVar f i v h.1]
  exact_mod_cast h.2

end Holpy.C16
