import Holpy.C16.Model
import Mathlib.Tactic.Ring
import Mathlib.Tactic.Linarith
import Mathlib.Tactic.Push
import Mathlib.Tactic.FieldSimp
import Mathlib.Tactic.Positivity
import Mathlib.Algebra.Order.Field.Rat
/-
C16 — helper lemmas for the certificate checkers (linear evaluation over any commutative ring,
gcd division) .  The property theorems themselves are in Props.lean.
-/
namespace Holpy.C16

/-! ### evaluation over a commutative ring -/

section Generic
variable {R : Type} [CommRing R]

/-- `evalAt` with the coefficients cast into `R` (used with `R = ℚ`, and `R = ℤ` where it is `evalAt`). -/
def evalG : Row → Nat → (Nat → R) → R
  | [], _, _ => 0
  | [c], _, _ => (c : R)
  | a :: b :: rest, i, v => (a : R) * v i + evalG (b :: rest) (i + 1) v

theorem evalG_lin (c d : Int) : ∀ (f1 f2 : Row) (i : Nat) (v : Nat → R), f1.length = f2.length →
    evalG (List.zipWith (fun m n => c * n + d * m) f1 f2) i v = (c : R) * evalG f2 i v + (d : R) * evalG f1 i v
  | [], [], i, v, _ => by simp [evalG]
  | [a], [b], i, v, _ => by simp [evalG]
  | a :: a' :: r1, b :: b' :: r2, i, v, h => by
    have ih := evalG_lin c d (a' :: r1) (b' :: r2) (i + 1) v (by simpa using h)
    simp only [List.zipWith_cons_cons, evalG] at ih ⊢
    rw [ih]; push_cast; ring
  | [], _ :: _, _, _, h => by simp at h
  | _ :: _, [], _, _, h => by simp at h
  | [_], _ :: _ :: _, _, _, h => by simp at h
  | _ :: _ :: _, [_], _, _, h => by simp at h

theorem evalG_add : ∀ (f1 f2 : Row) (i : Nat) (v : Nat → R), f1.length = f2.length →
    evalG (addRow f1 f2) i v = evalG f1 i v + evalG f2 i v
  | [], [], i, v, _ => by simp [evalG, addRow]
  | [a], [b], i, v, _ => by simp [evalG, addRow]
  | a :: a' :: r1, b :: b' :: r2, i, v, h => by
    have ih := evalG_add (a' :: r1) (b' :: r2) (i + 1) v (by simpa using h)
    simp only [addRow, List.zipWith_cons_cons, evalG] at ih ⊢
    rw [ih]; push_cast; ring
  | [], _ :: _, _, _, h => by simp at h
  | _ :: _, [], _, _, h => by simp at h
  | [_], _ :: _ :: _, _, _, h => by simp at h
  | _ :: _ :: _, [_], _, _, h => by simp at h

theorem evalG_scale (k : Int) : ∀ (f : Row) (i : Nat) (v : Nat → R),
    evalG (scaleRow k f) i v = (k : R) * evalG f i v
  | [], i, v => by simp [evalG, scaleRow]
  | [a], i, v => by simp [evalG, scaleRow]
  | a :: a' :: r, i, v => by
    have ih := evalG_scale k (a' :: r) (i + 1) v
    simp only [scaleRow, List.map_cons, evalG] at ih ⊢
    rw [ih]; push_cast; ring

theorem evalG_replicate_zero : ∀ (w i : Nat) (v : Nat → R), evalG (List.replicate w 0) i v = 0
  | 0, i, v => by simp [evalG]
  | 1, i, v => by simp [evalG]
  | w + 2, i, v => by
    have ih := evalG_replicate_zero (w + 1) (i + 1) v
    simp only [List.replicate_succ, evalG] at ih ⊢
    rw [ih]; simp

/-- A row whose variable coefficients are all 0 evaluates to its constant. -/
theorem evalG_zeroVar : ∀ (f : Row) (i : Nat) (v : Nat → R), isZeroVar f = true → evalG f i v = (rowConst f : R)
  | [], i, v, _ => by simp [evalG, rowConst]
  | [a], i, v, _ => by simp [evalG, rowConst]
  | a :: a' :: r, i, v, h => by
    have h' : a = 0 ∧ isZeroVar (a' :: r) = true := by
      simpa [isZeroVar, rowKey, List.dropLast] using h
    have ih := evalG_zeroVar (a' :: r) (i + 1) v h'.2
    simp only [evalG]
    rw [ih, h'.1]; simp [rowConst]

end Generic

theorem evalAt_eq_evalG : ∀ (r : Row) (i : Nat) (v : Nat → Int), evalAt r i v = evalG r i v
  | [], i, v => by simp [evalAt, evalG]
  | [a], i, v => by simp [evalAt, evalG]
  | a :: a' :: r, i, v => by
    have ih := evalAt_eq_evalG (a' :: r) (i + 1) v
    simp only [evalAt, evalG]; rw [ih]; simp

/-- value of a row under a rational assignment -/
def evalRowQ (r : Row) (v : Nat → ℚ) : ℚ := evalG r 0 v

/-! ### the run-time witness checkers compute `evalAt` / `evalG` -/

theorem dotFrom_spec : ∀ (r : Row) (xs : List Int) (acc : Int) (i : Nat) (w : Nat → Int),
    (∀ k, w (i + k) = xs.getD k 0) → dotFrom r xs acc = acc + evalAt r i w
  | [], xs, acc, i, w, _ => by simp [dotFrom, evalAt]
  | [c], xs, acc, i, w, _ => by simp [dotFrom, evalAt]
  | a :: b :: rest, [], acc, i, w, h => by
    have h0 : w i = 0 := by simpa using h 0
    have ih := dotFrom_spec (b :: rest) [] acc (i + 1) w (fun k => by
      have := h (k + 1); simp at this ⊢; rw [← this]; congr 1; omega)
    simp only [dotFrom, evalAt]; rw [ih, h0]; ring
  | a :: b :: rest, x :: xs, acc, i, w, h => by
    have h0 : w i = x := by simpa using h 0
    have ih := dotFrom_spec (b :: rest) xs (acc + a * x) (i + 1) w (fun k => by
      have := h (k + 1); simp at this ⊢; rw [← this]; congr 1; omega)
    simp only [dotFrom, evalAt]; rw [ih, h0]; ring

theorem dotFrom_eq (r : Row) (v : List Int) : dotFrom r v 0 = evalRow r (assignOf v) := by
  have := dotFrom_spec r v 0 0 (assignOf v) (fun k => by simp [assignOf])
  simpa [evalRow] using this

theorem dotFromQ_spec : ∀ (r : Row) (xs : List Int) (q acc : Int) (i : Nat) (w : Nat → ℚ), (q : ℚ) ≠ 0 →
    (∀ k, w (i + k) = (xs.getD k 0 : ℚ) / q) → (dotFromQ r xs q acc : ℚ) = acc + q * evalG r i w
  | [], xs, q, acc, i, w, _, _ => by simp [dotFromQ, evalG]
  | [c], xs, q, acc, i, w, _, _ => by simp [dotFromQ, evalG]; ring
  | a :: b :: rest, [], q, acc, i, w, hq, h => by
    have h0 : w i = 0 := by simpa using h 0
    have ih := dotFromQ_spec (b :: rest) [] q acc (i + 1) w hq (fun k => by
      have := h (k + 1); simp at this ⊢; rw [← this]; congr 1; omega)
    simp only [dotFromQ, evalG]; rw [ih, h0]; ring
  | a :: b :: rest, x :: xs, q, acc, i, w, hq, h => by
    have h0 : w i = (x : ℚ) / q := by simpa using h 0
    have ih := dotFromQ_spec (b :: rest) xs q (acc + a * x) (i + 1) w hq (fun k => by
      have := h (k + 1); simp at this ⊢; rw [← this]; congr 1; omega)
    simp only [dotFromQ, evalG]; rw [ih, h0]; push_cast; field_simp; ring

/-! ### Farkas combinations -/

theorem combRows_length : ∀ (ks : List Int) (rs : List Row) (w : Nat), (∀ r ∈ rs, r.length = w) →
    (combRows ks rs w).length = w
  | [], _, w, _ => by simp [combRows]
  | _ :: _, [], w, _ => by simp [combRows]
  | k :: ks, r :: rs, w, h => by
    have ih := combRows_length ks rs w (fun r' hr' => h r' (List.mem_cons_of_mem _ hr'))
    simp [combRows, addRow, scaleRow, ih, h r (List.mem_cons_self ..)]

theorem combRows_nonneg (v : Nat → ℚ) : ∀ (ks : List Int) (rs : List Row) (w : Nat), (∀ r ∈ rs, r.length = w) →
    (∀ k ∈ ks, 0 ≤ k) → (∀ r ∈ rs, 0 ≤ evalG r 0 v) → 0 ≤ evalG (combRows ks rs w) 0 v
  | [], _, w, _, _, _ => by simp [combRows, evalG_replicate_zero]
  | _ :: _, [], w, _, _, _ => by simp [combRows, evalG_replicate_zero]
  | k :: ks, r :: rs, w, hl, hk, hr => by
    have ih := combRows_nonneg v ks rs w (fun r' hr' => hl r' (List.mem_cons_of_mem _ hr'))
      (fun k' hk' => hk k' (List.mem_cons_of_mem _ hk')) (fun r' hr' => hr r' (List.mem_cons_of_mem _ hr'))
    have hlen : (scaleRow k r).length = (combRows ks rs w).length := by
      rw [combRows_length ks rs w (fun r' hr' => hl r' (List.mem_cons_of_mem _ hr'))]
      simp [scaleRow, hl r (List.mem_cons_self ..)]
    simp only [combRows]
    rw [evalG_add _ _ _ _ hlen, evalG_scale]
    have h1 : (0 : ℚ) ≤ (k : ℚ) := by exact_mod_cast hk k (List.mem_cons_self ..)
    have h2 := hr r (List.mem_cons_self ..)
    positivity

theorem isFalseRow_evalG_neg {R : Type} [CommRing R] [LinearOrder R] [IsStrictOrderedRing R]
    (f : Row) (i : Nat) (v : Nat → R) (h : isFalseRow f = true) : evalG f i v < 0 := by
  simp only [isFalseRow, Bool.and_eq_true, decide_eq_true_eq] at h
  rw [evalG_zeroVar f i v h.1]
  exact_mod_cast h.2

/-! ### derivation steps -/

theorem py_idx_nat (f : Row) (i : Nat) : Py.idx f (i : Int) = f.getD i 0 := by
  simp [Py.idx]

/-- what the translated `combine_real_factoid` returns: a combination with multipliers `≥ 0`,
under the guard `f1[i] > 0 > f2[i]`. -/
theorem combine_real_spec (i : Int) (f1 f2 r : Row) (h : Gen.combine_real_factoid i f1 f2 = some r) :
    ∃ c d : Int, 0 ≤ c ∧ 0 ≤ d ∧ 0 < Py.idx f1 i ∧ Py.idx f2 i < 0 ∧
      c = Py.intDiv (Py.idx f1 i) (Py.gcd (Py.idx f1 i) (-(Py.idx f2 i))) ∧
      d = Py.intDiv (-(Py.idx f2 i)) (Py.gcd (Py.idx f1 i) (-(Py.idx f2 i))) ∧
      r = List.zipWith (fun m n => c * n + d * m) f1 f2 := by
  unfold Gen.combine_real_factoid at h
  split at h
  · simp at h
  split at h
  · simp at h
  rename_i hc
  · skip
    simp only [Bool.not_eq_false, Bool.and_eq_true, decide_eq_true_eq, Bool.not_eq_eq_eq_not, Bool.not_true] at hc
    simp only [Py.factoid] at h
    split at h
    · simp at h
    · have hc1 : 0 < Py.idx f1 i := by
        have := hc; simp at this; omega
      have hc2 : Py.idx f2 i < 0 := by
        have := hc; simp at this; omega
      refine ⟨_, _, ?_, ?_, hc1, hc2, rfl, rfl, (Option.some.inj h).symm⟩
      · exact Int.tdiv_nonneg (by omega) (by simp [Py.gcd])
      · exact Int.tdiv_nonneg (by omega) (by simp [Py.gcd])

theorem gcdFold_dvd : ∀ (l : List Int) (g0 : Nat),
    (l.foldl (fun g c => Nat.gcd g c.natAbs) g0 ∣ g0) ∧
    ∀ k ∈ l, l.foldl (fun g c => Nat.gcd g c.natAbs) g0 ∣ k.natAbs
  | [], g0 => by simp
  | a :: l, g0 => by
    obtain ⟨h1, h2⟩ := gcdFold_dvd l (Nat.gcd g0 a.natAbs)
    refine ⟨?_, ?_⟩
    · simpa using Nat.dvd_trans h1 (Nat.gcd_dvd_left _ _)
    · intro k hk
      rcases List.mem_cons.mp hk with rfl | hk
      · simpa using Nat.dvd_trans h1 (Nat.gcd_dvd_right _ _)
      · simpa using h2 k hk

theorem gcdList_dvd (l : List Int) (k : Int) (hk : k ∈ l) : (gcdList l : Int) ∣ k :=
  Int.natCast_dvd.mpr ((gcdFold_dvd l 0).2 k hk)

/-- every common divisor of the entries divides `gcdList` -/
theorem dvd_gcdFold (d : Nat) : ∀ (l : List Int) (g0 : Nat), d ∣ g0 → (∀ k ∈ l, d ∣ k.natAbs) →
    d ∣ l.foldl (fun g c => Nat.gcd g c.natAbs) g0
  | [], g0, h0, _ => by simpa using h0
  | a :: l, g0, h0, h => by
    simp only [List.foldl_cons]
    exact dvd_gcdFold d l _ (Nat.dvd_gcd h0 (h a (List.mem_cons_self ..))) (fun k hk => h k (List.mem_cons_of_mem _ hk))

/-- dividing a row by a positive common divisor `g` of its variable coefficients:
`eval f = g·S + c` and `eval (f / g) = S + ⌊c / g⌋` for the same `S`. -/
theorem divRow_split (g : Int) : ∀ (f : Row) (i : Nat) (v : Nat → Int), f ≠ [] → (∀ k ∈ rowKey f, g ∣ k) →
    ∃ S : Int, evalAt f i v = g * S + rowConst f ∧ evalAt (divRow f g) i v = S + rowConst f / g
  | [], _, _, h, _ => absurd rfl h
  | [c], i, v, _, _ => ⟨0, by simp [evalAt, rowConst], by simp [evalAt, divRow, rowConst]⟩
  | a :: b :: rest, i, v, _, hd => by
    have hk : rowKey (a :: b :: rest) = a :: rowKey (b :: rest) := by simp [rowKey, List.dropLast]
    have hcst : rowConst (a :: b :: rest) = rowConst (b :: rest) := by simp [rowConst]
    obtain ⟨S, h1, h2⟩ := divRow_split g (b :: rest) (i + 1) v (by simp)
      (fun k hk' => hd k (by rw [hk]; exact List.mem_cons_of_mem _ hk'))
    obtain ⟨q, hq⟩ : g ∣ a := hd a (by rw [hk]; exact List.mem_cons_self ..)
    by_cases hg : g = 0
    · subst hg
      refine ⟨S, ?_, ?_⟩
      · simp only [evalAt, h1, hcst]; rw [hq]; ring
      · simp only [divRow, List.map_cons, evalAt] at h2 ⊢
        rw [h2, hcst]; simp
    · refine ⟨q * v i + S, ?_, ?_⟩
      · simp only [evalAt, h1, hcst]; rw [hq]; ring
      · simp only [divRow, List.map_cons, evalAt] at h2 ⊢
        rw [h2, hcst, hq, Int.mul_ediv_cancel_left _ hg]; ring

theorem divRow_nonneg (g : Int) (hg : 0 < g) (f : Row) (i : Nat) (v : Nat → Int) (hf : f ≠ [])
    (hd : ∀ k ∈ rowKey f, g ∣ k) (h : 0 ≤ evalAt f i v) : 0 ≤ evalAt (divRow f g) i v := by
  obtain ⟨S, h1, h2⟩ := divRow_split g f i v hf hd
  rw [h2]
  have : -S ≤ rowConst f / g := Int.le_ediv_of_mul_le hg (by rw [h1] at h; linarith)
  linarith

/-- every row a legal derivation proves is a consequence of the given rows over the integers -/
theorem evalDeriv_sound (rows : List Row) (v : Nat → Int) (hv : Sat rows v) :
    ∀ (d : Deriv) (f : Row), evalDeriv rows d = some f → 0 ≤ evalRow f v := by
  intro d
  induction d with
  | asm r =>
    intro f h
    simp only [evalDeriv] at h
    split at h
    · rename_i hc
      cases h
      exact hv _ (by simpa using hc)
    · simp at h
  | realCombine i d1 d2 ih1 ih2 =>
    intro f h
    simp only [evalDeriv] at h
    split at h
    · rename_i f1 f2 h1 h2
      split at h
      · rename_i hl
        obtain ⟨c, d, hc, hd, _, _, _, _, rfl⟩ := combine_real_spec _ _ _ _ h
        have e1 := ih1 f1 h1
        have e2 := ih2 f2 h2
        simp only [evalRow, evalAt_eq_evalG] at e1 e2 ⊢
        rw [evalG_lin c d f1 f2 0 v hl]
        simp only [Int.cast_id]
        positivity
      · simp at h
    · simp at h
  | gcdCheck d ih =>
    intro f h
    simp only [evalDeriv] at h
    split at h
    · rename_i f0 h0
      split at h
      · rename_i hg
        cases h
        exact divRow_nonneg _ (by omega) f0 0 v hg.2 (fun k hk => gcdList_dvd _ k hk) (ih f0 h0)
      · simp at h
    · simp at h
  | directContr d1 d2 ih1 ih2 =>
    intro f h
    simp only [evalDeriv] at h
    split at h
    · rename_i f1 f2 h1 h2
      split at h
      · rename_i hl
        cases h
        have e1 := ih1 f1 h1
        have e2 := ih2 f2 h2
        simp only [evalRow, evalAt_eq_evalG] at e1 e2 ⊢
        rw [evalG_add f1 f2 0 v hl]
        linarith
      · simp at h
    · simp at h

end Holpy.C16
