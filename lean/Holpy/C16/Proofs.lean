import Holpy.C16.Model
namespace Holpy.C16
end Holpy.C16
