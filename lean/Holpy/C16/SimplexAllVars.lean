import Holpy.C16.SimplexBland
/-
C16 — the variables of the tableau along a run of `check`: a repair step (a pivot) introduces no new
variable, so every state of the run has its variables among those of the first one.
-/
namespace Holpy.C16.Simplex

/-- membership in allVars: a head or a row variable -/
theorem mem_allVars_iff (s : SState) (x : Var) : x ∈ allVars s ↔ ∃ r ∈ s.rows, x = r.1 ∨ x ∈ varsOf r.2 := by
  simp only [allVars, List.mem_flatMap, List.mem_cons, varsOf]

/-- a pivot introduces no new variable into the tableau -/
theorem step_allVars (s s' : SState) (hinv : Inv s) (h : step s = .next s') : ∀ x, x ∈ allVars s' → x ∈ allVars s := by
  obtain ⟨xi, xj, jars, v, hm, hc, rfl, _, _⟩ := step_next_spec s s' hinv h
  have hxj := mem_varsOf_of_coeff_ne xj jars hc
  have hrows : (pivotAndUpdate s xi xj v).rows = (pivot s xi xj).rows := by
    unfold pivotAndUpdate; simp [pivot, rowOf]
  -- the variables of the new row of xj are old ones
  have hrepr : ∀ x, x ∈ varsOf (pivotRepr xi xj (coeffOf xj jars) jars) → x ∈ allVars s := by
    intro x hx
    rcases mem_varsOf_pivotRepr xi xj x _ jars hx with rfl | ⟨h1, _⟩
    · exact (mem_allVars_iff s x).mpr ⟨_, hm, Or.inl rfl⟩
    · exact (mem_allVars_iff s x).mpr ⟨_, hm, Or.inr h1⟩
  intro x hx
  obtain ⟨r, hr, hxr⟩ := (mem_allVars_iff _ x).mp hx
  rw [hrows, pivot_rows s xi xj jars hinv.wf.heads hm] at hr
  rcases List.mem_append.mp hr with hr | hr
  · obtain ⟨r0, hr0, rfl⟩ := List.mem_map.mp hr
    have hr0' := (List.mem_filter.mp hr0).1
    rcases hxr with hxr | hxr
    · rw [pivotOther_fst] at hxr
      exact (mem_allVars_iff s x).mpr ⟨r0, hr0', Or.inl hxr⟩
    · unfold pivotOther at hxr
      split at hxr
      · rcases mem_varsOf_substRow xj x _ r0.2 (hinv.wf.distinct r0 hr0') hxr with ⟨h1, _⟩ | h1
        · exact (mem_allVars_iff s x).mpr ⟨r0, hr0', Or.inr h1⟩
        · exact hrepr x h1
      · exact (mem_allVars_iff s x).mpr ⟨r0, hr0', Or.inr hxr⟩
  · simp only [List.mem_singleton] at hr
    subst hr
    rcases hxr with hxr | hxr
    · simp only at hxr
      subst hxr
      exact (mem_allVars_iff s x).mpr ⟨_, hm, Or.inr hxj⟩
    · exact hrepr x hxr

theorem traj_allVars : ∀ (k : Nat) (s a : SState), Inv s → traj s k = some a → ∀ x, x ∈ allVars a → x ∈ allVars s := by
  intro k
  induction k with
  | zero => intro s a _ h; simp only [traj, Option.some.injEq] at h; subst h; exact fun _ hx => hx
  | succ k ih =>
    intro s a hinv h
    simp only [traj] at h
    cases hs : step s with
    | sat => rw [hs] at h; cases h
    | unsat xi => rw [hs] at h; cases h
    | next s' =>
      rw [hs] at h
      have i1 := (step_preserves s s' hinv hs).1
      exact fun x hx => step_allVars s s' hinv hs x (ih s' a i1 h x hx)

/-- a basic variable is a variable of the tableau -/
theorem isBasic_mem_allVars (s : SState) (x : Var) (h : isBasic s x = true) : x ∈ allVars s := by
  obtain ⟨r, hr, rfl⟩ := List.mem_map.mp ((isBasic_iff s x).mp h)
  exact (mem_allVars_iff s r.1).mpr ⟨r, hr, Or.inl rfl⟩

end Holpy.C16.Simplex
