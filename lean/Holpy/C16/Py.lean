/-
Prelude for the definitions that harness/props/c16.py translates from prover/omega.py
(`combine_real_factoid`, `combine_dark_factoid`).  Python ints are `Int`, tuples/lists of ints are
`List Int`; a failing `assert`/constructor check is `none`.  Import-free.
-/
namespace Holpy.C16.Py

/-- `l[i]` with Python's negative-index wrap; an out-of-range index reads 0 (every use in the
translated functions is guarded by an `assert` that fails in that case). -/
def idx (l : List Int) (i : Int) : Int :=
  if 0 ≤ i then l.getD i.toNat 0 else l.getD (l.length - (-i).toNat) 0

/-- `l[i] = v` (same index convention; out of range leaves the list unchanged). -/
def setIdx (l : List Int) (i : Int) (v : Int) : List Int :=
  if 0 ≤ i then l.set i.toNat v else l.set (l.length - (-i).toNat) v

def len (l : List Int) : Int := (l.length : Int)

/-- `math.gcd` -/
def gcd (a b : Int) : Int := (Int.gcd a b : Int)

/-- `int(a / b)`: Python computes a float quotient and truncates; modelled exactly (truncation of
the rational quotient toward zero).  Agrees with CPython while |a|, |b| < 2^53. -/
def intDiv (a b : Int) : Int := Int.tdiv a b

/-- `Factoid(coeff)`: the constructor asserts a non-empty coefficient list. -/
def factoid (l : List Int) : Option (List Int) := if l.isEmpty then none else some l

end Holpy.C16.Py
