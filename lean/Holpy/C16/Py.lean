/-
Prelude for the definitions that harness/props/c16.py translates from prover/omega.py
(`combine_real_factoid`, `combine_dark_factoid`).  Python ints are `Int`, tuples/lists of ints are
`List Int`; a failing `assert`/constructor check is `none`.  Import-free.
-/
namespace Holpy.C16.Py

/-- `l[i]` is defined for `-len ≤ i < len`; outside Python raises IndexError.  The translator puts
this guard in front of every statement that contains a subscript. -/
def inRange (l : List Int) (i : Int) : Bool := decide (-(l.length : Int) ≤ i) && decide (i < (l.length : Int))

/-- `l[i]` with Python's negative-index wrap (only used under `inRange`; reads 0 outside). -/
def idx (l : List Int) (i : Int) : Int :=
  if 0 ≤ i then l.getD i.toNat 0
  else if (-i).toNat ≤ l.length then l.getD (l.length - (-i).toNat) 0 else 0

/-- `l[i] = v` (only used under `inRange`; leaves the list unchanged outside). -/
def setIdx (l : List Int) (i : Int) (v : Int) : List Int :=
  if 0 ≤ i then l.set i.toNat v
  else if (-i).toNat ≤ l.length then l.set (l.length - (-i).toNat) v else l

def len (l : List Int) : Int := (l.length : Int)

/-- `math.gcd` -/
def gcd (a b : Int) : Int := (Int.gcd a b : Int)

/-- `int(a / b)`: Python computes a float quotient and truncates; modelled exactly (truncation of
the rational quotient toward zero).  Agrees with CPython while |a|, |b| < 2^53. -/
def intDiv (a b : Int) : Int := Int.tdiv a b

/-- `Factoid(coeff)`: the constructor asserts a non-empty coefficient list. -/
def factoid (l : List Int) : Option (List Int) := if l.isEmpty then none else some l

end Holpy.C16.Py
