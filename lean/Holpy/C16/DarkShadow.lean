import Holpy.C16.Proofs
/-
C16 — the dark-shadow lemma for the translated `combine_dark_factoid`: if the dark shadow of a lower
bound `f1` and an upper bound `f2` on `x_i` holds under an assignment of the other variables, some
integer value of `x_i` satisfies both.  (This is the arithmetic heart of the SAT side of the Omega
test; the back-substitution of the model picks exactly the value used here, `⌈-r1 / a⌉`.)
-/
namespace Holpy.C16

/-- `v` with variable `i` set to `x` -/
def upd (v : Nat → Int) (i : Nat) (x : Int) : Nat → Int := fun j => if j = i then x else v j

theorem dark_scalar (a b r1 r2 : Int) (ha : 0 < a) (hb : 0 < b)
    (h : 0 ≤ a * r2 + b * r1 - (a - 1) * (b - 1)) :
    0 ≤ a * (-(r1 / a)) + r1 ∧ 0 ≤ -b * (-(r1 / a)) + r2 := by
  have hm0 : 0 ≤ r1 % a := Int.emod_nonneg _ (by omega)
  have hm1 : r1 % a < a := Int.emod_lt_of_pos _ ha
  have hd : a * (r1 / a) + r1 % a = r1 := Int.mul_ediv_add_emod r1 a
  refine ⟨by nlinarith, ?_⟩
  by_contra hneg
  have h1 : b * (r1 / a) + r2 ≤ -1 := by
    have : -b * (-(r1 / a)) + r2 = b * (r1 / a) + r2 := by ring
    omega
  have h2 : a * (b * (r1 / a) + r2) ≤ -a := by nlinarith
  have h3 : b * (r1 % a) ≤ b * (a - 1) := by nlinarith
  nlinarith

theorem evalAt_congr : ∀ (f : Row) (k : Nat) (v v' : Nat → Int), (∀ j, k ≤ j → v j = v' j) →
    evalAt f k v = evalAt f k v'
  | [], _, _, _, _ => rfl
  | [_], _, _, _, _ => rfl
  | a :: b :: rest, k, v, v', h => by
    simp only [evalAt]
    rw [h k (Nat.le_refl _), evalAt_congr (b :: rest) (k + 1) v v' (fun j hj => h j (by omega))]

/-- the row is affine in the value of variable `i` -/
theorem evalAt_upd : ∀ (f : Row) (k : Nat) (v : Nat → Int) (i : Nat) (x : Int), k ≤ i → i - k < f.length - 1 →
    evalAt f k (upd v i x) = f.getD (i - k) 0 * x + evalAt f k (upd v i 0)
  | [], _, _, _, _, _, h => by simp at h
  | [_], _, _, _, _, _, h => by simp at h
  | a :: b :: rest, k, v, i, x, hk, hl => by
    simp only [evalAt]
    rcases Nat.eq_or_lt_of_le hk with rfl | hlt
    · have e : evalAt (b :: rest) (k + 1) (upd v k x) = evalAt (b :: rest) (k + 1) (upd v k 0) :=
        evalAt_congr _ _ _ _ (fun j hj => by simp [upd]; omega)
      simp [upd, e]
    · have ih := evalAt_upd (b :: rest) (k + 1) v i x (by omega) (by simp at hl ⊢; omega)
      have hne : k ≠ i := by omega
      have : i - k = (i - (k + 1)) + 1 := by omega
      rw [ih, this]
      simp [upd, hne]
      ring

theorem evalAt_setLast : ∀ (l : Row) (k : Nat) (v : Nat → Int) (c : Int), l ≠ [] →
    evalAt (l.set (l.length - 1) c) k v = evalAt l k v - l.getD (l.length - 1) 0 + c
  | [], _, _, _, h => absurd rfl h
  | [a], k, v, c, _ => by simp [evalAt]
  | a :: b :: rest, k, v, c, _ => by
    have ih := evalAt_setLast (b :: rest) (k + 1) v c (by simp)
    simp only [List.length_cons, Nat.add_sub_cancel, List.set_cons_succ, List.getD_cons_succ] at ih ⊢
    obtain ⟨hd, tl, e⟩ : ∃ hd tl, (b :: rest).set rest.length c = hd :: tl := by
      cases h : (b :: rest).set rest.length c with
      | nil => have := congrArg List.length h; simp at this
      | cons hd tl => exact ⟨hd, tl, rfl⟩
    rw [e] at ih ⊢
    simp only [evalAt]
    rw [ih]; ring

/-- what the translated `combine_dark_factoid` returns -/
theorem combine_dark_spec (i : Int) (f1 f2 r : Row) (h : Gen.combine_dark_factoid i f1 f2 = some r) :
    0 < Py.idx f1 i ∧ Py.idx f2 i < 0 ∧ i < Py.len f1 - 1 ∧
    r = Py.setIdx (List.zipWith (fun m n => Py.idx f1 i * n + (-(Py.idx f2 i)) * m) f1 f2) (-1)
          (Py.idx (List.zipWith (fun m n => Py.idx f1 i * n + (-(Py.idx f2 i)) * m) f1 f2) (-1)
            - (Py.idx f1 i - 1) * (-(Py.idx f2 i) - 1)) := by
  unfold Gen.combine_dark_factoid at h
  split at h
  · simp at h
  split at h
  · simp at h
  rename_i hc
  dsimp only at h
  split at h
  · simp at h
  · skip
    simp only [Bool.not_eq_false, Bool.and_eq_true, decide_eq_true_eq, Bool.not_eq_eq_eq_not, Bool.not_true] at hc
    simp only [Py.factoid] at h
    split at h
    · simp at h
    · have hc' := hc
      simp at hc'
      refine ⟨by omega, by omega, by omega, ?_⟩
      exact (Option.some.inj h).symm

theorem upd_self (v : Nat → Int) (i : Nat) : upd v i (v i) = v := by
  funext j; simp only [upd]; split <;> simp_all

/-- value of the dark factoid under any assignment: `a·f2 + b·f1 − (a−1)(b−1)` -/
theorem combine_dark_eval (i : Nat) (f1 f2 r : Row) (u : Nat → Int)
    (h : Gen.combine_dark_factoid (i : Int) f1 f2 = some r) (hl : f1.length = f2.length) :
    evalRow r u = f1.getD i 0 * evalRow f2 u + (-(f2.getD i 0)) * evalRow f1 u
      - (f1.getD i 0 - 1) * (-(f2.getD i 0) - 1) := by
  obtain ⟨ha, hb, hi, rfl⟩ := combine_dark_spec _ _ _ _ h
  simp only [py_idx_nat] at ha hb ⊢
  have hlen : 2 ≤ f1.length := by simp only [Py.len] at hi; omega
  generalize hZ : List.zipWith (fun m n => f1.getD i 0 * n + -f2.getD i 0 * m) f1 f2 = Z
  have hZl : Z.length = f1.length := by rw [← hZ]; simp [hl]
  have hZne : Z ≠ [] := by intro e; rw [e] at hZl; simp at hZl; omega
  have e1 : ∀ c, Py.setIdx Z (-1) c = Z.set (Z.length - 1) c := by
    intro c; simp [Py.setIdx]; intro he; exact absurd he hZne
  have e2 : Py.idx Z (-1) = Z.getD (Z.length - 1) 0 := by
    simp [Py.idx]; intro he; exact absurd he hZne
  rw [e1, e2]
  simp only [evalRow]
  rw [evalAt_setLast Z 0 u _ hZne, ← hZ]
  rw [evalAt_eq_evalG, evalG_lin _ _ f1 f2 0 u hl, ← evalAt_eq_evalG, ← evalAt_eq_evalG]
  simp only [Int.cast_id]
  ring

/-- **Dark-shadow lemma** for the translated `combine_dark_factoid`: if the dark factoid of the lower
bound `f1` (`f1[i] > 0`) and the upper bound `f2` (`f2[i] < 0`) is satisfied by `v`, then some integer
value of `x_i` (namely `⌈-r1 / f1[i]⌉`, the value `extend_vmap` chooses when `f1` is the binding lower
bound) satisfies both `f1` and `f2`, the other variables keeping their values. -/
theorem dark_shadow_lemma (i : Nat) (f1 f2 r : Row) (v : Nat → Int)
    (h : Gen.combine_dark_factoid (i : Int) f1 f2 = some r) (hl : f1.length = f2.length)
    (hr : 0 ≤ evalRow r v) :
    ∃ x : Int, 0 ≤ evalRow f1 (upd v i x) ∧ 0 ≤ evalRow f2 (upd v i x) := by
  obtain ⟨ha, hb, hi, _⟩ := combine_dark_spec _ _ _ _ h
  simp only [py_idx_nat, Py.len] at ha hb hi
  have hi1 : i - 0 < f1.length - 1 := by omega
  have hi2 : i - 0 < f2.length - 1 := by omega
  have k1 : ∀ x, evalRow f1 (upd v i x) = f1.getD i 0 * x + evalRow f1 (upd v i 0) := fun x => by
    simpa [evalRow] using evalAt_upd f1 0 v i x (Nat.zero_le _) hi1
  have k2 : ∀ x, evalRow f2 (upd v i x) = f2.getD i 0 * x + evalRow f2 (upd v i 0) := fun x => by
    simpa [evalRow] using evalAt_upd f2 0 v i x (Nat.zero_le _) hi2
  have hv := combine_dark_eval i f1 f2 r (upd v i (v i)) h hl
  rw [k1, k2] at hv
  rw [upd_self] at hv
  have hd : 0 ≤ f1.getD i 0 * evalRow f2 (upd v i 0) + (-(f2.getD i 0)) * evalRow f1 (upd v i 0)
      - (f1.getD i 0 - 1) * (-(f2.getD i 0) - 1) := by
    have : evalRow r v = f1.getD i 0 * evalRow f2 (upd v i 0) + (-(f2.getD i 0)) * evalRow f1 (upd v i 0)
        - (f1.getD i 0 - 1) * (-(f2.getD i 0) - 1) := by rw [hv]; ring
    omega
  obtain ⟨h1, h2⟩ := dark_scalar (f1.getD i 0) (-(f2.getD i 0)) (evalRow f1 (upd v i 0)) (evalRow f2 (upd v i 0)) ha (by omega) hd
  refine ⟨-(evalRow f1 (upd v i 0) / f1.getD i 0), ?_, ?_⟩
  · rw [k1]; exact h1
  · rw [k2]; have : - -f2.getD i 0 = f2.getD i 0 := by ring
    rw [this] at h2; exact h2

end Holpy.C16
