/-
C16 — executable model of `prover/simplex.py` `Simplex` (the Dutertre–de Moura tableau solver as
coded there): `add_ineq`, `update`, `pivot`, `pivotAndUpdate`, `assert_upper/lower`, `check`,
`handle_assertion`.  Core Lean only (`Rat` is in core).

Conventions.  Variables are natural numbers; the harness numbers them so that the numeric order is
Python's string order of the names (`$a$ < $b$ < … < x0 < x1 < …`: slack `k` is `k`, `x_i` is
`100 + i`).  A row of the tableau `equality[b] = jars` is `(b, [(var, coeff), …])`.  `mapping`,
`bound` are total functions (every variable the solver knows has an entry; unknown ones read 0 /
no bound — the Python would raise KeyError, which never happens for variables of the problem).
`basic` is the set of row heads, `non_basic` its complement among the known variables.

Faithful details: `reduce_pairs` (group by variable, add, sort by name; zero sums are kept);
`aij` = first jar of that variable; `check` picks the FIRST violated basic variable in sorted order
(Bland's rule, after fix C16-5; before it the loop kept the LAST one and could cycle) and the FIRST
suitable non-basic variable of its reduced row; the two
repair blocks of `check` are `if … if …` in Python — after a repair of a lower-bound violation the
variable sits on its lower bound, which is `≤` its upper bound, so the second block cannot fire for
it and the model uses `else if`.  Termination of `check` is not proved in Lean (with Bland's rule it
holds by Dutertre–de Moura's argument): the model takes fuel.
-/
namespace Holpy.C16.Simplex

abbrev Var := Nat
abbrev Jars := List (Var × Rat)

structure SState where
  rows : List (Var × Jars)          -- `equality`
  mapping : Var → Rat
  lo : Var → Option Rat             -- `bound[x][0]`, none = -inf
  hi : Var → Option Rat             -- `bound[x][1]`, none = +inf
  vars : List Var                   -- every variable in `mapping`, in insertion order
  index : Nat                       -- number of slack variables introduced
  matrix : List (Jars × Var)        -- `matrix`: jars of an input constraint ↦ its slack variable

inductive Atom where
  | geq (x : Var) (c : Rat)
  | leq (x : Var) (c : Rat)
  deriving Repr, Inhabited

def setQ {α : Type} (m : Var → α) (x : Var) (v : α) : Var → α := fun y => if y = x then v else m y

/-- value of a linear form -/
def evalJ : Jars → (Var → Rat) → Rat
  | [], _ => 0
  | (x, c) :: rest, v => c * v x + evalJ rest v

/-- insert a monomial into a list sorted by variable, adding coefficients of the same variable -/
def insertJar (x : Var) (c : Rat) : Jars → Jars
  | [] => [(x, c)]
  | (y, d) :: rest =>
    if x < y then (x, c) :: (y, d) :: rest
    else if x = y then (y, d + c) :: rest
    else (y, d) :: insertJar x c rest

/-- `reduce_pairs` -/
def reducePairs (js : Jars) : Jars := js.foldl (fun acc j => insertJar j.1 j.2 acc) []

/-- `find_coeff` / `aij`: coefficient of the first jar of `x` (0 if none) -/
def coeffOf (x : Var) : Jars → Rat
  | [] => 0
  | (y, c) :: rest => if y = x then c else coeffOf x rest

def rowOf (s : SState) (b : Var) : Option Jars := (s.rows.find? (·.1 == b)).map (·.2)
def isBasic (s : SState) (x : Var) : Bool := s.rows.any (·.1 == x)
def aij (s : SState) (xi xj : Var) : Rat := coeffOf xj ((rowOf s xi).getD [])

/-- `update(x, v)` for a non-basic `x` -/
def update (s : SState) (x : Var) (v : Rat) : SState :=
  let d := v - s.mapping x
  let m1 : Var → Rat := fun y => if isBasic s y then s.mapping y + aij s y x * d else s.mapping y
  { s with mapping := setQ m1 x v }

/-- the new right-hand side for `xj` in `pivot` -/
def pivotRepr (xi xj : Var) (a : Rat) (jars : Jars) : Jars :=
  reducePairs ((xi, 1 / a) :: (jars.filter (fun j => j.1 != xj)).map (fun j => (j.1, -(1 / a) * j.2)))

/-- substitute `xj := repr` in another row (`j != xj_jar` compares variable and coefficient) -/
def substRow (xj : Var) (repr rhs : Jars) : Jars :=
  let c := coeffOf xj rhs
  reducePairs (rhs.filter (fun j => !(j.1 == xj && j.2 == c)) ++ repr.map (fun j => (j.1, c * j.2)))

/-- `pivot(xi, xj)`: the rows mentioning `xj` are rewritten, the row of `xi` is replaced by one for
`xj` (appended at the end, as `delete_key` + insertion do) -/
def pivot (s : SState) (xi xj : Var) : SState :=
  let jars := (rowOf s xi).getD []
  let a := coeffOf xj jars
  let repr := pivotRepr xi xj a jars
  let others := (s.rows.filter (fun r => r.1 != xi)).map fun r =>
    if r.2.any (fun j => j.1 == xj) then (r.1, substRow xj repr r.2) else r
  { s with rows := others ++ [(xj, repr)] }

/-- `pivotAndUpdate(xi, xj, v)` -/
def pivotAndUpdate (s : SState) (xi xj : Var) (v : Rat) : SState :=
  let a := aij s xi xj
  let theta := (v - s.mapping xi) / a
  let m1 : Var → Rat := fun y =>
    if y = xi then v
    else if y = xj then s.mapping xj + theta
    else if isBasic s y then s.mapping y + aij s y xj * theta
    else s.mapping y
  pivot { s with mapping := m1 } xi xj

def ltLo (s : SState) (x : Var) : Bool := match s.lo x with | some l => decide (s.mapping x < l) | none => false
def gtHi (s : SState) (x : Var) : Bool := match s.hi x with | some u => decide (u < s.mapping x) | none => false
/-- `mapping[x] < bound[x][1]` -/
def belowHi (s : SState) (x : Var) : Bool := match s.hi x with | some u => decide (s.mapping x < u) | none => true
/-- `mapping[x] > bound[x][0]` -/
def aboveLo (s : SState) (x : Var) : Bool := match s.lo x with | some l => decide (l < s.mapping x) | none => true

/-- the first (smallest) basic variable outside its bounds (fix C16-5: the loop `break`s at the first one) -/
def pickViolated (s : SState) : Option Var :=
  s.rows.foldl (fun best r =>
    if ltLo s r.1 || gtHi s r.1 then
      match best with
      | none => some r.1
      | some b => if r.1 < b then some r.1 else some b
    else best) none

inductive Verdict where
  | sat
  | unsat (xi : Var)
  | fuel
  deriving Repr, Inhabited, BEq

/-- `check()` -/
def check : Nat → SState → Verdict × SState
  | 0, s => (.fuel, s)
  | fuel + 1, s =>
    match pickViolated s with
    | none => (.sat, s)
    | some xi =>
      let jars := reducePairs ((rowOf s xi).getD [])
      if ltLo s xi then
        match jars.find? (fun j => (decide (j.2 > 0) && belowHi s j.1) || (decide (j.2 < 0) && aboveLo s j.1)) with
        | some j => check fuel (pivotAndUpdate s xi j.1 ((s.lo xi).getD 0))
        | none => (.unsat xi, s)
      else
        match jars.find? (fun j => (decide (j.2 < 0) && belowHi s j.1) || (decide (j.2 > 0) && aboveLo s j.1)) with
        | some j => check fuel (pivotAndUpdate s xi j.1 ((s.hi xi).getD 0))
        | none => (.unsat xi, s)

inductive AssertResult where
  | ok (s : SState)
  | conflict            -- AssertUpperException / AssertLowerException

/-- `assert_upper(x, c)` -/
def assertUpper (s : SState) (x : Var) (c : Rat) : AssertResult :=
  if (match s.lo x with | some l => decide (c < l) | none => false) then .conflict
  else if (match s.hi x with | some u => decide (c < u) | none => true) then
    let s1 := { s with hi := setQ s.hi x (some c) }
    if !isBasic s1 x && decide (c < s1.mapping x) then .ok (update s1 x c) else .ok s1
  else .ok s

/-- `assert_lower(x, c)` -/
def assertLower (s : SState) (x : Var) (c : Rat) : AssertResult :=
  if (match s.hi x with | some u => decide (u < c) | none => false) then .conflict
  else if (match s.lo x with | some l => decide (l < c) | none => true) then
    let s1 := { s with lo := setQ s.lo x (some c) }
    if !isBasic s1 x && decide (s1.mapping x < c) then .ok (update s1 x c) else .ok s1
  else .ok s

/-! ### `add_ineq` -/

inductive Kind where | ge | le
  deriving Repr, BEq, Inhabited

structure Ineq where
  kind : Kind
  jars : Jars            -- as given (not reduced)
  bound : Rat
  deriving Inhabited

/-- `x ≥ b` / `x ≤ b` with coefficient 1: asserted on the variable itself, no slack variable -/
def isUnit (q : Ineq) : Bool := match q.jars with | [(_, c)] => c == 1 | _ => false
/-- an upper bound on the number of slack variables `add_ineqs` introduces -/
def slackCount (qs : List Ineq) : Nat := (qs.filter (fun q => !isUnit q)).length

def emptyState : SState := ⟨[], fun _ => 0, fun _ => none, fun _ => none, [], 0, []⟩

def addVar (s : SState) (x : Var) : SState := if s.vars.contains x then s else { s with vars := s.vars ++ [x] }

def mkAtom (k : Kind) (x : Var) (c : Rat) : Atom := match k with | .ge => .geq x c | .le => .leq x c

/-- `add_ineq`: returns the new state and the atom appended to `self.atom` (none when a single jar
has coefficient 0: the Python ignores such a constraint).  Slack variable `k` is the variable `k`. -/
def addIneq (s : SState) (q : Ineq) : SState × Option Atom :=
  match q.jars with
  | [(x, c)] =>
    if c == 1 then (addVar s x, some (mkAtom q.kind x q.bound))
    else if c == 0 then (s, none)
    else
      match s.matrix.find? (fun p => p.1 == q.jars) with
      | some p => (addVar (addVar s x) p.2, some (mkAtom q.kind p.2 q.bound))
      | none =>
        let sl := s.index
        let s1 := { s with index := s.index + 1, matrix := s.matrix ++ [(q.jars, sl)], rows := s.rows ++ [(sl, q.jars)] }
        (addVar (addVar s1 x) sl, some (mkAtom q.kind sl q.bound))
  | js =>
    let s0 := js.foldl (fun st j => addVar st j.1) s
    match s0.matrix.find? (fun p => p.1 == js) with
    | some p => (addVar s0 p.2, some (mkAtom q.kind p.2 q.bound))
    | none =>
      let sl := s0.index
      let s1 := { s0 with index := s0.index + 1, matrix := s0.matrix ++ [(js, sl)], rows := s0.rows ++ [(sl, js)] }
      (addVar s1 sl, some (mkAtom q.kind sl q.bound))

def addIneqs : SState → List Ineq → SState × List Atom
  | s, [] => (s, [])
  | s, q :: rest =>
    let (s1, a) := addIneq s q
    let (s2, as) := addIneqs s1 rest
    (s2, match a with | some a => a :: as | none => as)

inductive Outcome where
  | sat (s : SState)
  | unsat (xi : Var) (s : SState)        -- UNSATException, `wrong_var = xi`
  | conflict (k : Nat) (s : SState)      -- AssertUpper/LowerException at atom number k
  | fuel (s : SState)

/-- `handle_assertion()`: assert the atoms in order, `check()` after each one; `trace` collects the
state after every check (for the correspondence). -/
def handleAssertion (fuel : Nat) : SState → List Atom → Nat → List SState → Outcome × List SState
  | s, [], _, tr => (.sat s, tr)
  | s, a :: rest, k, tr =>
    let r := match a with
      | .leq x c => assertUpper s x c
      | .geq x c => assertLower s x c
    match r with
    | .conflict => (.conflict k s, tr)
    | .ok s1 =>
      match check fuel s1 with
      | (.sat, s2) => handleAssertion fuel s2 rest (k + 1) (tr ++ [s2])
      | (.unsat xi, s2) => (.unsat xi s2, tr ++ [s2])
      | (.fuel, s2) => (.fuel s2, tr ++ [s2])

/-- a whole run: `s = Simplex(); s.add_ineqs(*qs); s.handle_assertion()` -/
def run (fuel : Nat) (qs : List Ineq) : Outcome × List SState :=
  let (s, atoms) := addIneqs emptyState qs
  handleAssertion fuel s atoms 0 []

end Holpy.C16.Simplex
