import Holpy.C16.SimplexPivot
/-
C16 — `pivot` keeps the tableau well-formed; `update` and `pivotAndUpdate` keep `mapping` a solution
of the row equations.
-/
namespace Holpy.C16.Simplex

theorem map_fst_filter (rows : List (Var × Jars)) (p : Var → Bool) :
    (rows.filter (fun r => p r.1)).map (·.1) = (rows.map (·.1)).filter p := by
  induction rows with
  | nil => rfl
  | cons r rows ih =>
    simp only [List.filter_cons, List.map_cons]
    split <;> simp [ih]

theorem pivot_heads (s : SState) (xi xj : Var) (jars : Jars) (hw : (s.rows.map (·.1)).Nodup) (hm : (xi, jars) ∈ s.rows) :
    (pivot s xi xj).rows.map (·.1) = (s.rows.map (·.1)).filter (fun b => b != xi) ++ [xj] := by
  rw [pivot_rows s xi xj jars hw hm]
  simp only [List.map_append, List.map_map, List.map_cons, List.map_nil]
  congr 1
  rw [← map_fst_filter s.rows (fun b => b != xi)]
  apply List.map_congr_left
  intro r _
  exact pivotOther_fst _ _ r

theorem isBasic_pivot (s : SState) (xi xj : Var) (jars : Jars) (hw : (s.rows.map (·.1)).Nodup) (hm : (xi, jars) ∈ s.rows)
    (x : Var) : isBasic (pivot s xi xj) x = true ↔ (isBasic s x = true ∧ x ≠ xi) ∨ x = xj := by
  rw [isBasic_iff, isBasic_iff, pivot_heads s xi xj jars hw hm]
  simp only [List.mem_append, List.mem_filter, List.mem_singleton, bne_iff_ne, ne_eq]

theorem varsOf_scale (k : ℚ) (js : Jars) : varsOf (js.map (fun j => (j.1, k * j.2))) = varsOf js := by
  simp [varsOf, List.map_map, Function.comp_def]

theorem mem_varsOf_filter (x xj : Var) (js : Jars) (h : x ∈ varsOf (js.filter (fun j => j.1 != xj))) :
    x ∈ varsOf js ∧ x ≠ xj := by
  simp only [varsOf, List.mem_map, List.mem_filter, bne_iff_ne, ne_eq] at h ⊢
  obtain ⟨j, ⟨hj, hne⟩, rfl⟩ := h
  exact ⟨⟨j, hj, rfl⟩, hne⟩

theorem mem_varsOf_pivotRepr (xi xj x : Var) (a : ℚ) (jars : Jars) (h : x ∈ varsOf (pivotRepr xi xj a jars)) :
    x = xi ∨ (x ∈ varsOf jars ∧ x ≠ xj) := by
  unfold pivotRepr at h
  rw [mem_varsOf_reducePairs, varsOf_cons, List.mem_cons, varsOf_scale] at h
  rcases h with h | h
  · exact Or.inl h
  · exact Or.inr (mem_varsOf_filter x xj jars h)

theorem mem_varsOf_substRow (xj x : Var) (repr rhs : Jars) (hd : DistinctVars rhs) (h : x ∈ varsOf (substRow xj repr rhs)) :
    (x ∈ varsOf rhs ∧ x ≠ xj) ∨ x ∈ varsOf repr := by
  unfold substRow at h
  rw [mem_varsOf_reducePairs, filter_jar_eq xj rhs hd] at h
  simp only [varsOf, List.map_append, List.mem_append] at h
  rcases h with h | h
  · exact Or.inl (mem_varsOf_filter x xj rhs h)
  · right
    have := varsOf_scale (coeffOf xj rhs) repr
    simp only [varsOf] at this
    rw [this] at h; exact h

/-- `pivot` keeps the tableau well-formed -/
theorem pivot_WF (s : SState) (xi xj : Var) (jars : Jars) (hwf : WF s) (hm : (xi, jars) ∈ s.rows)
    (hxj : xj ∈ varsOf jars) : WF (pivot s xi xj) := by
  have hxjnb : isBasic s xj = false := hwf.nonbasic _ hm xj hxj
  have hxjnh : xj ∉ s.rows.map (·.1) := fun h => by
    have := (isBasic_iff s xj).mpr h; rw [hxjnb] at this; cases this
  have hxib : isBasic s xi = true := (isBasic_iff s xi).mpr (List.mem_map.mpr ⟨_, hm, rfl⟩)
  have hne : xi ≠ xj := fun e => by rw [e, hxjnb] at hxib; cases hxib
  -- a variable that is non-basic before and is not xj is non-basic afterwards; so is xi
  have nb_old : ∀ x, isBasic s x = false → x ≠ xj → isBasic (pivot s xi xj) x = false := by
    intro x hx hxne
    cases hb : isBasic (pivot s xi xj) x with
    | false => rfl
    | true =>
      rcases (isBasic_pivot s xi xj jars hwf.heads hm x).mp hb with ⟨h1, _⟩ | h1
      · rw [hx] at h1; cases h1
      · exact absurd h1 hxne
  have nb_xi : isBasic (pivot s xi xj) xi = false := by
    cases hb : isBasic (pivot s xi xj) xi with
    | false => rfl
    | true =>
      rcases (isBasic_pivot s xi xj jars hwf.heads hm xi).mp hb with ⟨_, h2⟩ | h1
      · exact absurd rfl h2
      · exact absurd h1 hne
  have nb_repr : ∀ x ∈ varsOf (pivotRepr xi xj (coeffOf xj jars) jars), isBasic (pivot s xi xj) x = false := by
    intro x hx
    rcases mem_varsOf_pivotRepr xi xj x _ jars hx with rfl | ⟨h1, h2⟩
    · exact nb_xi
    · exact nb_old x (hwf.nonbasic _ hm x h1) h2
  refine ⟨?_, ?_, ?_⟩
  · rw [pivot_heads s xi xj jars hwf.heads hm]
    rw [List.nodup_append]
    refine ⟨hwf.heads.filter _, by simp, ?_⟩
    intro a ha b hb
    simp only [List.mem_singleton] at hb
    subst hb
    intro e; subst e
    exact hxjnh (List.mem_filter.mp ha).1
  · intro r hr
    rw [pivot_rows s xi xj jars hwf.heads hm] at hr
    rcases List.mem_append.mp hr with hr | hr
    · obtain ⟨r0, hr0, rfl⟩ := List.mem_map.mp hr
      unfold pivotOther
      split
      · exact (sorted_reducePairs _).distinct
      · exact hwf.distinct r0 (List.mem_filter.mp hr0).1
    · simp only [List.mem_singleton] at hr; subst hr
      exact (sorted_reducePairs _).distinct
  · intro r hr x hx
    rw [pivot_rows s xi xj jars hwf.heads hm] at hr
    rcases List.mem_append.mp hr with hr | hr
    · obtain ⟨r0, hr0, rfl⟩ := List.mem_map.mp hr
      have hr0' := (List.mem_filter.mp hr0).1
      unfold pivotOther at hx
      split at hx
      · rcases mem_varsOf_substRow xj x _ r0.2 (hwf.distinct r0 hr0') hx with ⟨h1, h2⟩ | h1
        · exact nb_old x (hwf.nonbasic r0 hr0' x h1) h2
        · exact nb_repr x h1
      · rename_i hnot
        have hxne : x ≠ xj := fun e => hnot ((any_var_iff r0.2 xj).mpr (e ▸ hx))
        exact nb_old x (hwf.nonbasic r0 hr0' x hx) hxne
    · simp only [List.mem_singleton] at hr; subst hr
      exact nb_repr x hx

/-! ### `mapping` stays a solution of the rows -/

theorem mem_varsOf_of_coeff_ne (x : Var) (js : Jars) (h : coeffOf x js ≠ 0) : x ∈ varsOf js := by
  by_contra hn; exact h (coeffOf_not_mem x js hn)

/-- **`update` keeps `mapping` a solution of the (unchanged) row equations.** -/
theorem update_rowsHold (s : SState) (x : Var) (c : ℚ) (hwf : WF s) (hx : isBasic s x = false)
    (h : RowsHold s.rows s.mapping) :
    (update s x c).rows = s.rows ∧ RowsHold (update s x c).rows (update s x c).mapping := by
  refine ⟨rfl, ?_⟩
  intro r hr
  obtain ⟨b, js⟩ := r
  have hb : isBasic s b = true := (isBasic_iff s b).mpr (List.mem_map.mpr ⟨_, hr, rfl⟩)
  have hbx : b ≠ x := fun e => by rw [e, hx] at hb; cases hb
  have hcong : evalJ js (update s x c).mapping = evalJ js (setQ s.mapping x c) := by
    apply evalJ_congr
    intro y hy
    have hy' := hwf.nonbasic _ hr y hy
    simp only [update, setQ, hy']
    simp
  show (update s x c).mapping b = evalJ js (update s x c).mapping
  rw [hcong, evalJ_setQ js s.mapping x c (hwf.distinct _ hr)]
  simp only [update, setQ, if_neg hbx, hb, if_true, aij_of_mem s hwf.heads b x js hr]
  have := h _ hr
  simp only at this
  rw [this]

/-- **`pivotAndUpdate` keeps `mapping` a solution of the new row equations.** -/
theorem pivotAndUpdate_rowsHold (s : SState) (xi xj : Var) (jars : Jars) (v : ℚ) (hwf : WF s)
    (hm : (xi, jars) ∈ s.rows) (ha : coeffOf xj jars ≠ 0) (h : RowsHold s.rows s.mapping) :
    RowsHold (pivotAndUpdate s xi xj v).rows (pivotAndUpdate s xi xj v).mapping := by
  have hxj := mem_varsOf_of_coeff_ne xj jars ha
  have hxjnb : isBasic s xj = false := hwf.nonbasic _ hm xj hxj
  have hxib : isBasic s xi = true := (isBasic_iff s xi).mpr (List.mem_map.mpr ⟨_, hm, rfl⟩)
  have hne : xi ≠ xj := fun e => by rw [e, hxjnb] at hxib; cases hxib
  unfold pivotAndUpdate
  set theta := (v - s.mapping xi) / aij s xi xj with htheta
  set m1 : Var → ℚ := fun y =>
    if y = xi then v else if y = xj then s.mapping xj + theta
    else if isBasic s y then s.mapping y + aij s y xj * theta else s.mapping y with hm1
  set s1 : SState := { s with mapping := m1 } with hs1
  have hwf1 : WF s1 := ⟨hwf.heads, hwf.distinct, hwf.nonbasic⟩
  have hmap : (pivot s1 xi xj).mapping = m1 := rfl
  rw [hmap, pivot_rows_iff s1 xi xj jars hwf1 hm ha m1]
  -- m1 satisfies the old rows
  have haij : aij s xi xj = coeffOf xj jars := aij_of_mem s hwf.heads xi xj jars hm
  intro r hr
  obtain ⟨b, js⟩ := r
  have hb : isBasic s b = true := (isBasic_iff s b).mpr (List.mem_map.mpr ⟨_, hr, rfl⟩)
  have hbj : b ≠ xj := fun e => by rw [e, hxjnb] at hb; cases hb
  have hcong : evalJ js m1 = evalJ js (setQ s.mapping xj (s.mapping xj + theta)) := by
    apply evalJ_congr
    intro y hy
    have hy' : isBasic s y = false := hwf.nonbasic _ hr y hy
    have hyi : y ≠ xi := fun e => by rw [e, hxib] at hy'; cases hy'
    simp only [hm1, setQ, if_neg hyi, hy']
    simp
  show m1 b = evalJ js m1
  rw [hcong, evalJ_setQ js s.mapping xj _ (hwf.distinct _ hr)]
  have hold := h _ hr
  simp only at hold
  by_cases hbi : b = xi
  · subst hbi
    have : js = jars := row_unique hwf.heads hr hm
    subst this
    simp only [hm1, if_true]
    rw [← hold, htheta, haij]
    field_simp
    ring
  · simp only [hm1, if_neg hbi, if_neg hbj, hb, if_true, aij_of_mem s hwf.heads b xj js hr]
    rw [hold]; ring

end Holpy.C16.Simplex
