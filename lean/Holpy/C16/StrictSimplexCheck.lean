import Holpy.C16.StrictSimplexOrder
/-
C16 — `check()` of the strict simplex model: invariant, a stuck row refutes, a pivot step keeps the invariant.
-/
namespace Holpy.C16.StrictSimplex
open Holpy.C16.Simplex Holpy.C16.Strict

/-- `V x` lies within the δ-rational bounds of `x` -/
def PInB (s : PState) (V : Var → Pair) (x : Var) : Prop :=
  (∀ l, s.lo x = some l → PLe l (V x)) ∧ (∀ u, s.hi x = some u → PLe (V x) u)

structure PInv (s : PState) : Prop where
  wf : WF s.sx
  rx : RowsHold s.sx.rows s.sx.mapping
  ry : RowsHold s.sx.rows s.my
  nb : ∀ x, isBasic s.sx x = false → PInB s (pval s) x
  bnd : ∀ x l u, s.lo x = some l → s.hi x = some u → PLe l u

theorem wf_compY (s : PState) (h : WF s.sx) : WF (compY s) := ⟨h.heads, h.distinct, h.nonbasic⟩

theorem pivot_rows_of_rows_eq (s t : SState) (h : s.rows = t.rows) (xi xj : Var) : (pivot s xi xj).rows = (pivot t xi xj).rows := by
  simp [pivot, rowOf, h]

theorem pau_rows (s : SState) (xi xj : Var) (v : ℚ) : (pivotAndUpdate s xi xj v).rows = (pivot s xi xj).rows := by
  unfold pivotAndUpdate
  exact pivot_rows_of_rows_eq _ s rfl xi xj

theorem pau_mapping_xi (s : SState) (xi xj : Var) (v : ℚ) : (pivotAndUpdate s xi xj v).mapping xi = v := by
  simp [pivotAndUpdate, pivot]

theorem pau_mapping_other (s : SState) (xi xj : Var) (v : ℚ) (y : Var) (h1 : y ≠ xi) (h2 : y ≠ xj) (h3 : isBasic s y = false) :
    (pivotAndUpdate s xi xj v).mapping y = s.mapping y := by
  simp [pivotAndUpdate, pivot, h1, h2, h3]

theorem ltLoP_iff (s : PState) (x : Var) : ltLoP s x = true ↔ ∃ l, s.lo x = some l ∧ PLt (pval s x) l := by
  unfold ltLoP; cases s.lo x <;> simp [plt_iff]
theorem gtHiP_iff (s : PState) (x : Var) : gtHiP s x = true ↔ ∃ u, s.hi x = some u ∧ PLt u (pval s x) := by
  unfold gtHiP; cases s.hi x <;> simp [plt_iff]
theorem belowHiP_false (s : PState) (x : Var) (h : belowHiP s x = false) : ∃ u, s.hi x = some u ∧ PLe u (pval s x) := by
  unfold belowHiP at h
  cases hu : s.hi x with
  | none => simp [hu] at h
  | some u =>
    simp only [hu] at h
    exact ⟨u, rfl, not_plt (fun hl => by rw [(plt_iff _ _).mpr hl] at h; cases h)⟩
theorem aboveLoP_false (s : PState) (x : Var) (h : aboveLoP s x = false) : ∃ l, s.lo x = some l ∧ PLe (pval s x) l := by
  unfold aboveLoP at h
  cases hl : s.lo x with
  | none => simp [hl] at h
  | some l =>
    simp only [hl] at h
    exact ⟨l, rfl, not_plt (fun hlt => by rw [(plt_iff _ _).mpr hlt] at h; cases h)⟩

theorem pval_row (s : PState) (hinv : PInv s) (b : Var) (js : Jars) (hm : (b, js) ∈ s.sx.rows) : pval s b = EP js (pval s) := by
  have h1 := hinv.rx _ hm
  have h2 := hinv.ry _ hm
  simp only at h1 h2
  simp only [pval, EP]
  rw [h1, h2]

/-- stuck below the lower bound: rows + bounds have no δ-rational solution -/
theorem stuck_lower_unsatP (s : PState) (xi : Var) (jars : Jars) (hinv : PInv s) (hm : (xi, jars) ∈ s.sx.rows)
    (hlt : ltLoP s xi = true)
    (hnone : (reducePairs jars).find? (fun j => (decide (j.2 > 0) && belowHiP s j.1) || (decide (j.2 < 0) && aboveLoP s j.1)) = none) :
    ¬ ∃ V : Var → Pair, RowsHoldP s.sx.rows V ∧ ∀ x, PInB s V x := by
  rintro ⟨V, hrows, hb⟩
  have hall := List.find?_eq_none.mp hnone
  have hle : PLe (EP (reducePairs jars) V) (EP (reducePairs jars) (pval s)) := by
    apply EP_le
    intro j hj
    have hj' := hall j hj
    simp only [Bool.or_eq_true, Bool.and_eq_true, decide_eq_true_eq, not_or, not_and] at hj'
    rcases lt_trichotomy j.2 0 with hneg | hz | hpos
    · have hf : aboveLoP s j.1 = false := by
        cases h : aboveLoP s j.1 with
        | false => rfl
        | true => exact absurd h (hj'.2 hneg)
      obtain ⟨l, hl, hle⟩ := aboveLoP_false s j.1 hf
      exact smul_le_neg j.2 (le_of_lt hneg) (hle.trans ((hb j.1).1 l hl))
    · rw [hz]; simp [PLe]
    · have hf : belowHiP s j.1 = false := by
        cases h : belowHiP s j.1 with
        | false => rfl
        | true => exact absurd h (hj'.1 hpos)
      obtain ⟨u, hu, hle⟩ := belowHiP_false s j.1 hf
      exact smul_le j.2 (le_of_lt hpos) (((hb j.1).2 u hu).trans hle)
  rw [EP_reducePairs, EP_reducePairs, ← rowsHoldP_row _ V hrows xi jars hm, ← pval_row s hinv xi jars hm] at hle
  obtain ⟨l, hl, hltl⟩ := (ltLoP_iff s xi).mp hlt
  exact PLt.irrefl _ ((hle.trans_lt hltl).trans_le ((hb xi).1 l hl))

theorem stuck_upper_unsatP (s : PState) (xi : Var) (jars : Jars) (hinv : PInv s) (hm : (xi, jars) ∈ s.sx.rows)
    (hgt : gtHiP s xi = true)
    (hnone : (reducePairs jars).find? (fun j => (decide (j.2 < 0) && belowHiP s j.1) || (decide (j.2 > 0) && aboveLoP s j.1)) = none) :
    ¬ ∃ V : Var → Pair, RowsHoldP s.sx.rows V ∧ ∀ x, PInB s V x := by
  rintro ⟨V, hrows, hb⟩
  have hall := List.find?_eq_none.mp hnone
  have hle : PLe (EP (reducePairs jars) (pval s)) (EP (reducePairs jars) V) := by
    apply EP_le
    intro j hj
    have hj' := hall j hj
    simp only [Bool.or_eq_true, Bool.and_eq_true, decide_eq_true_eq, not_or, not_and] at hj'
    rcases lt_trichotomy j.2 0 with hneg | hz | hpos
    · have hf : belowHiP s j.1 = false := by
        cases h : belowHiP s j.1 with
        | false => rfl
        | true => exact absurd h (hj'.1 hneg)
      obtain ⟨u, hu, hle⟩ := belowHiP_false s j.1 hf
      exact smul_le_neg j.2 (le_of_lt hneg) (((hb j.1).2 u hu).trans hle)
    · rw [hz]; simp [PLe]
    · have hf : aboveLoP s j.1 = false := by
        cases h : aboveLoP s j.1 with
        | false => rfl
        | true => exact absurd h (hj'.2 hpos)
      obtain ⟨l, hl, hle⟩ := aboveLoP_false s j.1 hf
      exact smul_le j.2 (le_of_lt hpos) (hle.trans ((hb j.1).1 l hl))
  rw [EP_reducePairs, EP_reducePairs, ← rowsHoldP_row _ V hrows xi jars hm, ← pval_row s hinv xi jars hm] at hle
  obtain ⟨u, hu, hltu⟩ := (gtHiP_iff s xi).mp hgt
  exact PLt.irrefl _ ((((hb xi).2 u hu).trans_lt hltu).trans_le hle)

/-- one repair step keeps the invariant, the bounds and the solution set of the rows -/
theorem pivotAndUpdateP_inv (s : PState) (xi xj : Var) (jars : Jars) (v : Pair) (hinv : PInv s)
    (hm : (xi, jars) ∈ s.sx.rows) (ha : coeffOf xj jars ≠ 0)
    (hv : (∀ l, s.lo xi = some l → PLe l v) ∧ (∀ u, s.hi xi = some u → PLe v u)) :
    PInv (pivotAndUpdateP s xi xj v) ∧ (pivotAndUpdateP s xi xj v).lo = s.lo ∧ (pivotAndUpdateP s xi xj v).hi = s.hi ∧
      ∀ w, RowsHold (pivotAndUpdateP s xi xj v).sx.rows w ↔ RowsHold s.sx.rows w := by
  have hxj := mem_varsOf_of_coeff_ne xj jars ha
  have hxjnb : isBasic s.sx xj = false := hinv.wf.nonbasic _ hm xj hxj
  have hwfy := wf_compY s hinv.wf
  have hrowsY : (pivotAndUpdate (compY s) xi xj v.y).rows = (pivotAndUpdate s.sx xi xj v.x).rows := by
    rw [pau_rows, pau_rows]; exact pivot_rows_of_rows_eq _ _ rfl xi xj
  have hrx := pivotAndUpdate_rowsHold s.sx xi xj jars v.x hinv.wf hm ha hinv.rx
  have hry := pivotAndUpdate_rowsHold (compY s) xi xj jars v.y hwfy hm ha hinv.ry
  rw [hrowsY] at hry
  have hrows : (pivotAndUpdate s.sx xi xj v.x).rows = (pivot s.sx xi xj).rows := pau_rows _ _ _ _
  have hwf' : WF (pivotAndUpdate s.sx xi xj v.x) := by
    have := pivot_WF s.sx xi xj jars hinv.wf hm hxj
    exact ⟨by rw [hrows]; exact this.heads, by rw [hrows]; exact this.distinct, by
      intro r hr x hx
      rw [hrows] at hr
      have := this.nonbasic r hr x hx
      simpa [isBasic, hrows] using this⟩
  refine ⟨⟨hwf', hrx, hry, ?_, hinv.bnd⟩, rfl, rfl, fun w => by
    show RowsHold (pivotAndUpdate s.sx xi xj v.x).rows w ↔ _
    rw [hrows]; exact pivot_rows_iff s.sx xi xj jars hinv.wf hm ha w⟩
  intro x hx
  have hx' : isBasic (pivot s.sx xi xj) x = false := by
    have : isBasic (pivotAndUpdate s.sx xi xj v.x) x = false := hx
    simpa [isBasic, hrows] using this
  have hnot : ¬ ((isBasic s.sx x = true ∧ x ≠ xi) ∨ x = xj) := fun h => by
    have := (isBasic_pivot s.sx xi xj jars hinv.wf.heads hm x).mpr h
    rw [hx'] at this; cases this
  have hxne : x ≠ xj := fun e => hnot (Or.inr e)
  by_cases hxi : x = xi
  · subst hxi
    have : pval (pivotAndUpdateP s x xj v) x = v := by
      simp only [pval, pivotAndUpdateP, pau_mapping_xi]
    simp only [PInB, this]
    exact hv
  · have hnb : isBasic s.sx x = false := by
      cases hb : isBasic s.sx x with
      | false => rfl
      | true => exact absurd (Or.inl ⟨hb, hxi⟩) hnot
    have : pval (pivotAndUpdateP s xi xj v) x = pval s x := by
      simp only [pval, pivotAndUpdateP]
      rw [pau_mapping_other s.sx xi xj v.x x hxi hxne hnb, pau_mapping_other (compY s) xi xj v.y x hxi hxne hnb]
      rfl
    simp only [PInB, this]
    exact hinv.nb x hnb

end Holpy.C16.StrictSimplex
