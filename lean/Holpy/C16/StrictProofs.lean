import Holpy.C16.StrictModel
import Mathlib.Tactic.Linarith
import Mathlib.Tactic.FieldSimp
import Mathlib.Tactic.Positivity
import Mathlib.Algebra.Order.Field.Rat
/-
C16 — `binary_delta` / `multi_delta` are sound: every comparison `p1 ≤ p2` of δ-rationals holds for
the concrete `δ` they return (and for every smaller positive one).
-/
namespace Holpy.C16.Strict

theorem le_iff (p q : Pair) : p.le q = true ↔ p.x < q.x ∨ (p.x = q.x ∧ p.y ≤ q.y) := by
  simp [Pair.le]

theorem lt_iff (p q : Pair) : p.lt q = true ↔ p.x < q.x ∨ (p.x = q.x ∧ p.y < q.y) := by
  simp [Pair.lt]

theorem binaryDelta_sound (p1 p2 : Pair) (d : ℚ) (h : binaryDelta p1 p2 = some d) :
    0 < d ∧ ∀ e : ℚ, 0 < e → e ≤ d → p1.at e ≤ p2.at e := by
  unfold binaryDelta at h
  split at h
  · cases h
  · rename_i hle
    have hle' : p1.x < p2.x ∨ (p1.x = p2.x ∧ p1.y ≤ p2.y) := (le_iff p1 p2).mp (by simpa using hle)
    split at h
    · rename_i hc
      simp only [Bool.and_eq_true, decide_eq_true_eq] at hc
      cases h
      have hy : 0 < p1.y - p2.y := by linarith [hc.2]
      have hx : 0 < p2.x - p1.x := by linarith [hc.1]
      refine ⟨div_pos hx hy, ?_⟩
      intro e he hed
      have : e * (p1.y - p2.y) ≤ p2.x - p1.x := by
        rw [le_div_iff₀ hy] at hed; exact hed
      simp only [Pair.at]; nlinarith
    · rename_i hc
      cases h
      refine ⟨by norm_num, ?_⟩
      intro e he hed
      simp only [Pair.at]
      simp only [Bool.and_eq_true, decide_eq_true_eq, not_and, not_lt] at hc
      rcases hle' with hlt | ⟨hxe, hye⟩
      · have := hc hlt
        nlinarith
      · rw [hxe]; nlinarith

theorem foldl_minQ : ∀ (rest : List ℚ) (a : ℚ), (0 < a) → (∀ x ∈ rest, 0 < x) →
    0 < rest.foldl (fun a b => if b < a then b else a) a ∧ rest.foldl (fun a b => if b < a then b else a) a ≤ a ∧
    ∀ x ∈ rest, rest.foldl (fun a b => if b < a then b else a) a ≤ x
  | [], a, ha, _ => by simp [ha]
  | b :: rest, a, ha, hr => by
    have hb : 0 < b := hr b (List.mem_cons_self ..)
    have hpos : 0 < (if b < a then b else a) := by split <;> assumption
    obtain ⟨h0, h1, h2⟩ := foldl_minQ rest (if b < a then b else a) hpos (fun x hx => hr x (List.mem_cons_of_mem _ hx))
    simp only [List.foldl_cons]
    have hmin : (if b < a then b else a) ≤ a ∧ (if b < a then b else a) ≤ b := by
      split
      · rename_i h; exact ⟨le_of_lt h, le_refl _⟩
      · rename_i h; exact ⟨le_refl _, not_lt.mp h⟩
    refine ⟨h0, le_trans h1 hmin.1, ?_⟩
    intro x hx
    rcases List.mem_cons.mp hx with rfl | hx
    · exact le_trans h1 hmin.2
    · exact h2 x hx

/-- `multi_delta` returns a positive `δ` under which every comparison `p1 ≤ p2` of the list that holds
for δ-rationals also holds for the rationals `x + y·δ`. -/
theorem multiDelta_sound (ps : List (Pair × Pair)) :
    0 < multiDelta ps ∧ ∀ pq ∈ ps, pq.1.le pq.2 = true → pq.1.at (multiDelta ps) ≤ pq.2.at (multiDelta ps) := by
  have hpos : ∀ d ∈ ps.filterMap (fun pq => binaryDelta pq.1 pq.2), 0 < d := by
    intro d hd
    obtain ⟨pq, _, hpq⟩ := List.mem_filterMap.mp hd
    exact (binaryDelta_sound pq.1 pq.2 d hpq).1
  have hmem : ∀ pq ∈ ps, pq.1.le pq.2 = true → ∃ d, binaryDelta pq.1 pq.2 = some d ∧ d ∈ ps.filterMap (fun pq => binaryDelta pq.1 pq.2) := by
    intro pq hpq hle
    have : ∃ d, binaryDelta pq.1 pq.2 = some d := by
      unfold binaryDelta; simp only [hle, Bool.not_true, Bool.false_eq_true, if_false]; split <;> exact ⟨_, rfl⟩
    obtain ⟨d, hd⟩ := this
    exact ⟨d, hd, List.mem_filterMap.mpr ⟨pq, hpq, hd⟩⟩
  unfold multiDelta
  cases hds : ps.filterMap (fun pq => binaryDelta pq.1 pq.2) with
  | nil =>
    simp only
    refine ⟨by norm_num, ?_⟩
    intro pq hpq hle
    obtain ⟨d, _, hd⟩ := hmem pq hpq hle
    rw [hds] at hd; cases hd
  | cons d0 rest =>
    simp only
    rw [hds] at hpos
    obtain ⟨h0, h1, h2⟩ := foldl_minQ rest d0 (hpos d0 (List.mem_cons_self ..)) (fun x hx => hpos x (List.mem_cons_of_mem _ hx))
    refine ⟨h0, ?_⟩
    intro pq hpq hle
    obtain ⟨d, hbd, hd⟩ := hmem pq hpq hle
    rw [hds] at hd
    refine (binaryDelta_sound pq.1 pq.2 d hbd).2 _ h0 ?_
    rcases List.mem_cons.mp hd with rfl | hd
    · exact h1
    · exact h2 d hd

end Holpy.C16.Strict
