import Holpy.Kernel.SemBound
import Holpy.C03.MemoProofs
/-
C03 — the `_id`-keyed cache of `subst_bound`.  Under `IdInv`, `sbHeap true` (cache keyed by
`(_id, binder depth)`, `_id`-based "unchanged" tests) returns an object representing exactly what
the pure function `Term.substBoundAt` computes on the represented term.
-/
namespace Holpy.C03
open Holpy

/-- every cache entry belongs to a live object and holds a representation of the pure result -/
def CacheOK (tu : Term) (h : Heap) (c : Cache) : Prop :=
  ∀ id n r, c.lookup (id, n) = some r →
    ∃ s ts, (∃ o, h s = some o ∧ o.id = id) ∧ Repr h s ts ∧ Repr h r (Term.substBoundAt tu n ts)

theorem CacheOK.ext {tu : Term} {h h' : Heap} {c : Cache} (hc : CacheOK tu h c) (hx : Ext h h') :
    CacheOK tu h' c := by
  intro id n r hl
  obtain ⟨s, ts, ⟨o, ho, hid⟩, rs, rr⟩ := hc id n r hl
  exact ⟨s, ts, ⟨o, hx _ _ ho, hid⟩, rs.ext hx, rr.ext hx⟩

theorem CacheOK.cons {tu : Term} {h : Heap} {c : Cache} (hc : CacheOK tu h c) {s : Addr} {o : Obj}
    {ts : Term} {n : Nat} {r : Addr} (ho : h s = some o) (rs : Repr h s ts)
    (rr : Repr h r (Term.substBoundAt tu n ts)) : CacheOK tu h (((o.id, n), r) :: c) := by
  intro id m r' hl
  simp only [List.lookup_cons] at hl
  split at hl
  · rename_i hk
    cases hl
    have hk' : (id, m) = (o.id, n) := by simpa using hk
    cases hk'
    exact ⟨s, ts, ⟨o, ho, rfl⟩, rs, rr⟩
  · exact hc id m r' hl

theorem CacheOK.hit {tu : Term} {h : Heap} {c : Cache} (hi : IdInv h) (hc : CacheOK tu h c) {s : Addr}
    {o : Obj} {ts : Term} {n : Nat} {r : Addr} (ho : h s = some o) (rs : Repr h s ts)
    (hl : c.lookup (o.id, n) = some r) : Repr h r (Term.substBoundAt tu n ts) := by
  obtain ⟨s0, ts0, ⟨o0, ho0, hid⟩, rs0, rr⟩ := hc _ _ _ hl
  have : s0 = s := id_inj hi ho0 ho hid
  subst this
  rw [rs.functional rs0]
  exact rr

theorem alloc_spec {h h' : Heap} {a : Addr} {n : Node} (e : alloc h a n = some h') :
    h a = none ∧ h' = h.set a ⟨n, a⟩ := by
  unfold alloc at e
  split at e
  · rename_i hc
    cases e
    simp only [Bool.and_eq_true, Option.isNone_iff_eq_none] at hc
    exact ⟨hc.1, rfl⟩
  · cases e

theorem allocNext_spec {h : Heap} {c : Cache} {as : List Addr} {n : Node}
    {r : Heap × Cache × List Addr × Addr} (e : allocNext h c as n = some r) :
    ∃ rest, as = r.2.2.2 :: rest ∧ r.2.1 = c ∧ alloc h r.2.2.2 n = some r.1 := by
  unfold allocNext at e
  split at e
  · cases e
  · rename_i a rest
    cases ea : alloc h a n with
    | none => rw [ea] at e; cases e
    | some h' => rw [ea] at e; cases e; exact ⟨rest, rfl, rfl, ea⟩

theorem sameId_eq {h : Heap} (hi : IdInv h) {a b : Addr} (e : sameId h a b = true) : a = b := by
  unfold sameId at e
  split at e
  · rename_i oa ob ha hb
    exact id_inj hi ha hb (by simpa using e)
  · cases e

theorem set_self {h : Heap} {a : Addr} {o : Obj} : (h.set a o) a = some o := by
  simp [Heap.set]

theorem CacheOK.nil (tu : Term) (h : Heap) : CacheOK tu h [] := by
  intro id n r hl
  simp at hl

end Holpy.C03
