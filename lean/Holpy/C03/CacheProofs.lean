import Holpy.Kernel.SemBound
import Holpy.C03.MemoProofs
/-
C03 — the `_id`-keyed cache of `subst_bound`.  Under `IdInv`, `sbHeap true` (cache keyed by
`(_id, binder depth)`, `_id`-based "unchanged" tests) returns an object representing exactly what
the pure function `Term.substBoundAt` computes on the represented term.
-/
namespace Holpy.C03
open Holpy

/-- every cache entry belongs to a live object and holds a representation of the pure result -/
def CacheOK (tu : Term) (h : Heap) (c : Cache) : Prop :=
  ∀ id n r, c.lookup (id, n) = some r →
    ∃ s ts, (∃ o, h s = some o ∧ o.id = id) ∧ Repr h s ts ∧ Repr h r (Term.substBoundAt tu n ts)

theorem CacheOK.ext {tu : Term} {h h' : Heap} {c : Cache} (hc : CacheOK tu h c) (hx : Ext h h') :
    CacheOK tu h' c := by
  intro id n r hl
  obtain ⟨s, ts, ⟨o, ho, hid⟩, rs, rr⟩ := hc id n r hl
  exact ⟨s, ts, ⟨o, hx _ _ ho, hid⟩, rs.ext hx, rr.ext hx⟩

theorem CacheOK.cons {tu : Term} {h : Heap} {c : Cache} (hc : CacheOK tu h c) {s : Addr} {o : Obj}
    {ts : Term} {n : Nat} {r : Addr} (ho : h s = some o) (rs : Repr h s ts)
    (rr : Repr h r (Term.substBoundAt tu n ts)) : CacheOK tu h (((o.id, n), r) :: c) := by
  intro id m r' hl
  simp only [List.lookup_cons] at hl
  split at hl
  · rename_i hk
    cases hl
    have hk' : (id, m) = (o.id, n) := by simpa using hk
    cases hk'
    exact ⟨s, ts, ⟨o, ho, rfl⟩, rs, rr⟩
  · exact hc id m r' hl

theorem CacheOK.hit {tu : Term} {h : Heap} {c : Cache} (hi : IdInv h) (hc : CacheOK tu h c) {s : Addr}
    {o : Obj} {ts : Term} {n : Nat} {r : Addr} (ho : h s = some o) (rs : Repr h s ts)
    (hl : c.lookup (o.id, n) = some r) : Repr h r (Term.substBoundAt tu n ts) := by
  obtain ⟨s0, ts0, ⟨o0, ho0, hid⟩, rs0, rr⟩ := hc _ _ _ hl
  have : s0 = s := id_inj hi ho0 ho hid
  subst this
  rw [rs.functional rs0]
  exact rr

theorem alloc_spec {h h' : Heap} {a : Addr} {n : Node} (e : alloc h a n = some h') :
    h a = none ∧ h' = h.set a ⟨n, a⟩ := by
  unfold alloc at e
  split at e
  · rename_i hc
    cases e
    simp only [Bool.and_eq_true, Option.isNone_iff_eq_none] at hc
    exact ⟨hc.1, rfl⟩
  · cases e

theorem allocNext_spec {h : Heap} {c : Cache} {as : List Addr} {n : Node}
    {r : Heap × Cache × List Addr × Addr} (e : allocNext h c as n = some r) :
    ∃ rest, as = r.2.2.2 :: rest ∧ r.2.1 = c ∧ alloc h r.2.2.2 n = some r.1 := by
  unfold allocNext at e
  split at e
  · cases e
  · rename_i a rest
    cases ea : alloc h a n with
    | none => rw [ea] at e; cases e
    | some h' => rw [ea] at e; cases e; exact ⟨rest, rfl, rfl, ea⟩

theorem sameId_eq {h : Heap} (hi : IdInv h) {a b : Addr} (e : sameId h a b = true) : a = b := by
  unfold sameId at e
  split at e
  · rename_i oa ob ha hb
    exact id_inj hi ha hb (by simpa using e)
  · cases e

theorem set_self {h : Heap} {a : Addr} {o : Obj} : (h.set a o) a = some o := by
  simp [Heap.set]

/-- the `subst_bound` of the code, with its cache and `_id` short cuts, computes `substBoundAt` -/
theorem sbHeap_sound (ua : Addr) (tu : Term) (hcl : Term.isOpenAt 0 tu = false) :
    ∀ (fuel : Nat) (h : Heap) (c : Cache) (as : List Addr) (s : Addr) (n : Nat) (ts : Term)
      (res : Heap × Cache × List Addr × Addr),
      IdInv h → Repr h ua tu → CacheOK tu h c → Repr h s ts →
      sbHeap true ua fuel h c as s n = some res →
      IdInv res.1 ∧ Ext h res.1 ∧ CacheOK tu res.1 res.2.1 ∧
        Repr res.1 res.2.2.2 (Term.substBoundAt tu n ts)
  | 0, _, _, _, _, _, _, _, _, _, _, _, e => by simp [sbHeap] at e
  | fuel + 1, h, c, as, s, n, ts, res, hi, ru, hc, rs, e => by
    unfold sbHeap at e
    obtain ⟨o, ho⟩ := rs.live
    simp only [ho] at e
    cases rs with
    | svar e1 =>
      rw [ho] at e1; cases e1
      simp only [Option.some.injEq] at e; subst e
      exact ⟨hi, Ext.refl h, hc, .svar ho⟩
    | var e1 =>
      rw [ho] at e1; cases e1
      simp only [Option.some.injEq] at e; subst e
      exact ⟨hi, Ext.refl h, hc, .var ho⟩
    | const e1 =>
      rw [ho] at e1; cases e1
      simp only [Option.some.injEq] at e; subst e
      exact ⟨hi, Ext.refl h, hc, .const ho⟩
    | @bound _ _ i e1 =>
      rw [ho] at e1; cases e1
      simp only at e
      split at e
      · rename_i hin
        simp only [Option.some.injEq] at e; subst e
        subst hin
        refine ⟨hi, Ext.refl h, hc, ?_⟩
        simp only [Term.substBoundAt, beq_self_eq_true, if_true, Term.incrBoundvars]
        rw [Term.incrAt_closed i 0 tu hcl]
        exact ru
      · rename_i hne
        split at e
        · rename_i hgt
          obtain ⟨rest, _, hc', ea⟩ := allocNext_spec e
          obtain ⟨hf, hset⟩ := alloc_spec ea
          have hx := alloc_ext ea
          refine ⟨alloc_inv hi ea, hx, by rw [hc']; exact hc.ext hx, ?_⟩
          have h1 : (i == n) = false := by simpa using hne
          simp only [Term.substBoundAt, h1, hgt, if_true]
          refine .bound (i := res.2.2.2) ?_
          rw [hset]; exact set_self
        · rename_i hng
          simp only [Option.some.injEq] at e; subst e
          refine ⟨hi, Ext.refl h, hc, ?_⟩
          have h1 : (i == n) = false := by simpa using hne
          simp only [Term.substBoundAt, h1, hng]
          exact .bound ho
    | @comb _ _ f x tf tx e1 rf rx =>
      rw [ho] at e1; cases e1
      simp only [if_true] at e
      split at e
      · rename_i r hl
        simp only [Option.some.injEq] at e; subst e
        exact ⟨hi, Ext.refl h, hc, hc.hit hi ho (.comb ho rf rx) hl⟩
      · split at e
        · cases e
        · rename_i h1 c1 as1 f' e1
          obtain ⟨i1, x1, k1, r1⟩ := sbHeap_sound ua tu hcl fuel h c as f n tf _ hi ru hc rf e1
          simp only at i1 x1 k1 r1
          split at e
          · cases e
          · rename_i h2 c2 as2 x' e2
            obtain ⟨i2, x2, k2, r2⟩ := sbHeap_sound ua tu hcl fuel h1 c1 as1 x n tx _ i1
              (ru.ext x1) k1 (rx.ext x1) e2
            simp only at i2 x2 k2 r2
            have x12 := x1.trans x2
            have rs2 : Repr h2 s (.comb tf tx) := (Repr.comb ho rf rx).ext x12
            split at e
            · rename_i hsame
              simp only [Bool.and_eq_true] at hsame
              simp only [Option.some.injEq] at e; subst e
              have ef : f' = f := sameId_eq i2 hsame.1
              have ex : x' = x := sameId_eq i2 hsame.2
              subst ef ex
              have tf' : Term.substBoundAt tu n tf = tf := (r1.ext x2).functional (rf.ext x12)
              have tx' : Term.substBoundAt tu n tx = tx := r2.functional (rx.ext x12)
              have rr : Repr h2 s (Term.substBoundAt tu n (.comb tf tx)) := by
                simp only [Term.substBoundAt, tf', tx']; exact rs2
              exact ⟨i2, x12, k2.cons (x12 _ _ ho) rs2 rr, rr⟩
            · split at e
              · cases e
              · rename_i h3 c3 as3 a ea0
                simp only [Option.some.injEq] at e; subst e
                obtain ⟨rest, _, hc', ea⟩ := allocNext_spec ea0
                simp only at hc' ea
                obtain ⟨hf, hset⟩ := alloc_spec ea
                have x3 := alloc_ext ea
                have i3 := alloc_inv i2 ea
                have rr : Repr h3 a (Term.substBoundAt tu n (.comb tf tx)) := by
                  simp only [Term.substBoundAt]
                  refine .comb (i := a) ?_ ((r1.ext x2).ext x3) (r2.ext x3)
                  rw [hset]; exact set_self
                refine ⟨i3, x12.trans x3, ?_, rr⟩
                rw [hc']
                exact (k2.ext x3).cons ((x12.trans x3) _ _ ho) (rs2.ext x3) rr
    | @abs _ _ nm T b tb e1 rb =>
      rw [ho] at e1; cases e1
      simp only [if_true] at e
      split at e
      · rename_i r hl
        simp only [Option.some.injEq] at e; subst e
        exact ⟨hi, Ext.refl h, hc, hc.hit hi ho (.abs ho rb) hl⟩
      · split at e
        · cases e
        · rename_i h1 c1 as1 b' e1
          obtain ⟨i1, x1, k1, r1⟩ := sbHeap_sound ua tu hcl fuel h c as b (n + 1) tb _ hi ru hc rb e1
          simp only at i1 x1 k1 r1
          have rs1 : Repr h1 s (.abs nm T tb) := (Repr.abs ho rb).ext x1
          split at e
          · rename_i hsame
            simp only [Option.some.injEq] at e; subst e
            have eb : b' = b := sameId_eq i1 hsame
            subst eb
            have tb' : Term.substBoundAt tu (n + 1) tb = tb := r1.functional (rb.ext x1)
            have rr : Repr h1 s (Term.substBoundAt tu n (.abs nm T tb)) := by
              simp only [Term.substBoundAt, tb']; exact rs1
            exact ⟨i1, x1, k1.cons (x1 _ _ ho) rs1 rr, rr⟩
          · split at e
            · cases e
            · rename_i h2 c2 as2 a ea0
              simp only [Option.some.injEq] at e; subst e
              obtain ⟨rest, _, hc', ea⟩ := allocNext_spec ea0
              simp only at hc' ea
              obtain ⟨hf, hset⟩ := alloc_spec ea
              have x2 := alloc_ext ea
              have i2 := alloc_inv i1 ea
              have rr : Repr h2 a (Term.substBoundAt tu n (.abs nm T tb)) := by
                simp only [Term.substBoundAt]
                refine .abs (i := a) ?_ (r1.ext x2)
                rw [hset]; exact set_self
              refine ⟨i2, x1.trans x2, ?_, rr⟩
              rw [hc']
              exact (k1.ext x2).cons ((x1.trans x2) _ _ ho) (rs1.ext x2) rr

theorem CacheOK.nil (tu : Term) (h : Heap) : CacheOK tu h [] := by
  intro id n r hl
  simp at hl

end Holpy.C03
