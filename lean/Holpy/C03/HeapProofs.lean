import Holpy.Kernel.SemBasic
import Holpy.C03.Model
/-
C03 — the `_id` fast path.  `IdInv` (the `_id` of a live object is its address) holds in the empty
heap and is preserved by every event of a history, whatever addresses the allocator hands out and
whatever is freed; under `IdInv`, `eqFast` (`Term.__eq__` as written) answers `aeq` of the
represented terms.
-/
namespace Holpy.C03
open Holpy

theorem IdInv.empty : IdInv Heap.empty := by
  intro a o h
  simp [Heap.empty] at h

theorem IdInv.set {h : Heap} (hi : IdInv h) (a : Addr) (n : Node) : IdInv (h.set a ⟨n, a⟩) := by
  intro x o hx
  unfold Heap.set at hx
  split at hx
  · rename_i e; cases hx; exact e.symm
  · exact hi x o hx

theorem IdInv.del {h : Heap} (hi : IdInv h) (a : Addr) : IdInv (h.del a) := by
  intro x o hx
  unfold Heap.del at hx
  split at hx
  · cases hx
  · exact hi x o hx

theorem alloc_inv {h h' : Heap} {a : Addr} {n : Node} (hi : IdInv h) (e : alloc h a n = some h') :
    IdInv h' := by
  unfold alloc at e
  split at e
  · cases e; exact hi.set a n
  · cases e

theorem wrap_inv {h h' : Heap} {a src : Addr} (hi : IdInv h) (e : wrap true h a src = some h') :
    IdInv h' := by
  unfold wrap at e
  split at e
  · cases e; exact hi.set a _
  · cases e

theorem copyRec_inv : ∀ (fuel : Nat) (h : Heap) (src : Addr) (as : List Addr) (r : Heap × Addr × List Addr),
    IdInv h → copyRec h fuel src as = some r → IdInv r.1
  | 0, _, _, _, _, _, e => by simp [copyRec] at e
  | fuel + 1, h, src, as, r, hi, e => by
    unfold copyRec at e
    split at e
    · cases e
    · split at e
      · -- comb
        split at e
        · cases e
        · rename_i h1 f' as1 e1
          have i1 := copyRec_inv fuel h _ as _ hi e1
          split at e
          · cases e
          · rename_i h2 x' as2 e2
            have i2 := copyRec_inv fuel h1 _ as1 _ i1 e2
            split at e
            · cases e
            · rename_i a rest
              cases ea : alloc h2 a (.comb f' x') with
              | none => rw [ea] at e; cases e
              | some h3 => rw [ea] at e; cases e; exact alloc_inv i2 ea
      · -- abs
        split at e
        · cases e
        · rename_i h1 b' as1 e1
          have i1 := copyRec_inv fuel h _ as _ hi e1
          split at e
          · cases e
          · rename_i a rest
            cases ea : alloc h1 a (.abs _ _ b') with
            | none => rw [ea] at e; cases e
            | some h2 => rw [ea] at e; cases e; exact alloc_inv i1 ea
      · -- leaf
        split at e
        · cases e
        · rename_i a rest
          cases ea : alloc h a _ with
          | none => rw [ea] at e; cases e
          | some h1 => rw [ea] at e; cases e; exact alloc_inv hi ea

theorem step_inv {h h' : Heap} {op : Op} (hi : IdInv h) (e : step true h op = some h') : IdInv h' := by
  cases op with
  | alloc a n => exact alloc_inv hi e
  | wrap a src => exact wrap_inv hi e
  | copy as src =>
    simp only [step, Option.map_eq_some_iff] at e
    obtain ⟨r, hr, rfl⟩ := e
    exact copyRec_inv _ _ _ _ _ hi hr
  | free a => simp only [step, Option.some.injEq] at e; subst e; exact hi.del a

theorem run_inv : ∀ (ops : List Op) (h h' : Heap), IdInv h → run true h ops = some h' → IdInv h'
  | [], h, h', hi, e => by simp only [run, Option.some.injEq] at e; subst e; exact hi
  | op :: ops, h, h', hi, e => by
    simp only [run] at e
    cases hs : step true h op with
    | none => rw [hs] at e; cases e
    | some h1 => rw [hs] at e; exact run_inv ops h1 h' (step_inv hi hs) e

/-- under the invariant equal `_id`s mean the same object -/
theorem id_inj {h : Heap} (hi : IdInv h) {a b : Addr} {oa ob : Obj} (ha : h a = some oa)
    (hb : h b = some ob) (e : oa.id = ob.id) : a = b := by
  rw [← hi a oa ha, ← hi b ob hb, e]

theorem Repr.live {h : Heap} {a : Addr} {t : Term} (r : Repr h a t) : ∃ o, h a = some o := by
  cases r <;> exact ⟨_, ‹_›⟩

theorem Repr.functional {h : Heap} {a : Addr} {t1 t2 : Term} (r1 : Repr h a t1) (r2 : Repr h a t2) :
    t1 = t2 := by
  induction r1 generalizing t2 with
  | svar e => cases r2 <;> simp_all
  | var e => cases r2 <;> simp_all
  | const e => cases r2 <;> simp_all
  | bound e => cases r2 <;> simp_all
  | comb e _ _ ihf ihx =>
    cases r2 with
    | comb e2 rf rx =>
      rw [e] at e2
      simp only [Option.some.injEq, Obj.mk.injEq, Node.comb.injEq] at e2
      obtain ⟨⟨hf, hx⟩, _⟩ := e2
      subst hf hx
      rw [ihf rf, ihx rx]
    | _ => rename_i e2; rw [e] at e2; simp at e2
  | abs e _ ih =>
    cases r2 with
    | abs e2 rb =>
      rw [e] at e2
      simp only [Option.some.injEq, Obj.mk.injEq, Node.abs.injEq] at e2
      obtain ⟨⟨hn, hT, hb⟩, _⟩ := e2
      subst hn hT hb
      rw [ih rb]
    | _ => rename_i e2; rw [e] at e2; simp at e2

theorem size_pos (t : Term) : 0 < size t := by cases t <;> simp [size] <;> omega

/-- `Term.__eq__` as written (with the `_id` short cut) decides alpha-equivalence of the
represented terms, in every heap satisfying the invariant -/
theorem eqFast_sound {h : Heap} (hi : IdInv h) : ∀ (fuel : Nat) (a b : Addr) (ta tb : Term),
    Repr h a ta → Repr h b tb → size ta ≤ fuel → eqFast h fuel a b = some (Term.aeq ta tb)
  | 0, _, _, ta, _, _, _, hs => by have := size_pos ta; omega
  | fuel + 1, a, b, ta, tb, ra, rb, hs => by
    obtain ⟨oa, ha⟩ := ra.live
    obtain ⟨ob, hb⟩ := rb.live
    unfold eqFast
    simp only [ha, hb]
    by_cases hid : oa.id = ob.id
    · have : a = b := id_inj hi ha hb hid
      subst this
      have := ra.functional rb
      subst this
      simp [hid, Term.aeq_refl]
    · simp only [hid, if_false]
      cases ra with
      | svar e => rw [ha] at e; cases e; cases rb <;> (rename_i e2; rw [hb] at e2; cases e2; simp [Term.aeq])
      | var e => rw [ha] at e; cases e; cases rb <;> (rename_i e2; rw [hb] at e2; cases e2; simp [Term.aeq])
      | const e => rw [ha] at e; cases e; cases rb <;> (rename_i e2; rw [hb] at e2; cases e2; simp [Term.aeq])
      | bound e => rw [ha] at e; cases e; cases rb <;> (rename_i e2; rw [hb] at e2; cases e2; simp [Term.aeq])
      | comb e rf rx =>
        rw [ha] at e; cases e
        cases rb with
        | comb e2 rg ry =>
          rw [hb] at e2; cases e2
          simp only [size] at hs
          have h1 := eqFast_sound hi fuel _ _ _ _ rf rg (by omega)
          have h2 := eqFast_sound hi fuel _ _ _ _ rx ry (by omega)
          simp only [h1, h2, Term.aeq]
          cases Term.aeq _ _ <;> simp
        | _ => rename_i e2; rw [hb] at e2; cases e2; simp [Term.aeq]
      | abs e rc =>
        rw [ha] at e; cases e
        cases rb with
        | abs e2 rd =>
          rw [hb] at e2; cases e2
          simp only [size] at hs
          have h1 := eqFast_sound hi fuel _ _ _ _ rc rd (by omega)
          simp only [h1, Term.aeq]
          split <;> simp_all
        | _ => rename_i e2; rw [hb] at e2; cases e2; simp [Term.aeq]

theorem readTerm_repr {h : Heap} : ∀ (fuel : Nat) (a : Addr) (t : Term),
    readTerm h fuel a = some t → Repr h a t
  | 0, _, _, e => by simp [readTerm] at e
  | fuel + 1, a, t, e => by
    unfold readTerm at e
    split at e
    · cases e
    · rename_i o ho
      obtain ⟨n, i⟩ := o
      split at e
      · rename_i hn; simp only at hn; subst hn; cases e; exact .svar ho
      · rename_i hn; simp only at hn; subst hn; cases e; exact .var ho
      · rename_i hn; simp only at hn; subst hn; cases e; exact .const ho
      · rename_i hn; simp only at hn; subst hn
        split at e
        · rename_i tf tx hf hx
          cases e
          exact .comb ho (readTerm_repr fuel _ _ hf) (readTerm_repr fuel _ _ hx)
        · cases e
      · rename_i hn; simp only at hn; subst hn
        split at e
        · rename_i tb hb
          cases e
          exact .abs ho (readTerm_repr fuel _ _ hb)
        · cases e
      · rename_i hn; simp only at hn; subst hn; cases e; exact .bound ho

end Holpy.C03
