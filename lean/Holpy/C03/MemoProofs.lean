import Holpy.C03.HeapProofs
import Holpy.C03.HashProofs
/-
C03 — the memoised hash.  `MemoInv` (a stored `_hash_val` is the hash of the tuple nest of the term
the object represents NOW) is preserved by every legal event: constructor calls, `Term(t)`, `copy`,
freeing an unreferenced object, `hash`, and `subst_type_inplace` as long as no memoised object
outside the rewritten ones shares an object with them (`NoAlias`).
-/
namespace Holpy.C03
open Holpy

theorem Ext.refl (h : Heap) : Ext h h := fun _ _ e => e
theorem Ext.trans {h1 h2 h3 : Heap} (a : Ext h1 h2) (b : Ext h2 h3) : Ext h1 h3 :=
  fun x o e => b x o (a x o e)

theorem Ext.set {h : Heap} {a : Addr} (o : Obj) (hf : h a = none) : Ext h (h.set a o) := by
  intro x ox e
  unfold Heap.set
  split
  · rename_i hx; subst hx; rw [hf] at e; cases e
  · exact e

theorem Repr.ext {h h' : Heap} (hx : Ext h h') {a : Addr} {t : Term} (r : Repr h a t) : Repr h' a t := by
  induction r with
  | svar e => exact .svar (hx _ _ e)
  | var e => exact .var (hx _ _ e)
  | const e => exact .const (hx _ _ e)
  | bound e => exact .bound (hx _ _ e)
  | comb e _ _ ihf iha => exact .comb (hx _ _ e) ihf iha
  | abs e _ ih => exact .abs (hx _ _ e) ih

theorem alloc_ext {h h' : Heap} {a : Addr} {n : Node} (e : alloc h a n = some h') : Ext h h' := by
  unfold alloc at e
  split at e
  · rename_i hc
    cases e
    simp only [Bool.and_eq_true, Option.isNone_iff_eq_none] at hc
    exact Ext.set _ hc.1
  · cases e

theorem wrap_spec {h h' : Heap} {a src : Addr} (e : wrap true h a src = some h') :
    ∃ o, h src = some o ∧ h a = none ∧ h' = h.set a ⟨o.node, a⟩ := by
  unfold wrap at e
  split at e
  · rename_i o ha hs
    cases e
    exact ⟨o, hs, ha, rfl⟩
  · cases e

theorem copyRec_ext : ∀ (fuel : Nat) (h : Heap) (src : Addr) (as : List Addr)
    (r : Heap × Addr × List Addr), copyRec h fuel src as = some r → Ext h r.1
  | 0, _, _, _, _, e => by simp [copyRec] at e
  | fuel + 1, h, src, as, r, e => by
    unfold copyRec at e
    split at e
    · cases e
    · split at e
      · split at e
        · cases e
        · rename_i h1 f' as1 e1
          have x1 := copyRec_ext fuel h _ as _ e1
          split at e
          · cases e
          · rename_i h2 x' as2 e2
            have x2 := copyRec_ext fuel h1 _ as1 _ e2
            split at e
            · cases e
            · rename_i a rest
              cases ea : alloc h2 a (.comb f' x') with
              | none => rw [ea] at e; cases e
              | some h3 => rw [ea] at e; cases e; exact (x1.trans x2).trans (alloc_ext ea)
      · split at e
        · cases e
        · rename_i h1 b' as1 e1
          have x1 := copyRec_ext fuel h _ as _ e1
          split at e
          · cases e
          · rename_i a rest
            cases ea : alloc h1 a (.abs _ _ b') with
            | none => rw [ea] at e; cases e
            | some h2 => rw [ea] at e; cases e; exact x1.trans (alloc_ext ea)
      · split at e
        · cases e
        · rename_i a rest
          cases ea : alloc h a _ with
          | none => rw [ea] at e; cases e
          | some h1 => rw [ea] at e; cases e; exact alloc_ext ea

theorem MemoInv.ext {h h' : Heap} {m : Memo} (hi : MemoInv h m) (hx : Ext h h') : MemoInv h' m := by
  intro a v hm
  obtain ⟨t, r, e⟩ := hi a v hm
  exact ⟨t, r.ext hx, e⟩

/-- an object with the same fields (children shared) represents the same term -/
theorem Repr.same_node {h h' : Heap} (hx : Ext h h') {s a j : Addr} {o : Obj} {t : Term}
    (r : Repr h s t) (hs : h s = some o) (ha : h' a = some ⟨o.node, j⟩) : Repr h' a t := by
  cases r with
  | svar e => rw [hs] at e; cases e; exact .svar ha
  | var e => rw [hs] at e; cases e; exact .var ha
  | const e => rw [hs] at e; cases e; exact .const ha
  | bound e => rw [hs] at e; cases e; exact .bound ha
  | comb e rf rx => rw [hs] at e; cases e; exact .comb ha (rf.ext hx) (rx.ext hx)
  | abs e rb => rw [hs] at e; cases e; exact .abs ha (rb.ext hx)

theorem Repr.del {h : Heap} {a b : Addr} {t : Term} (hu : Unreferenced h a) (r : Repr h b t)
    (hne : b ≠ a) : Repr (h.del a) b t := by
  have keep : ∀ x o, x ≠ a → h x = some o → (h.del a) x = some o := by
    intro x o hx e
    unfold Heap.del
    rw [if_neg hx]; exact e
  induction r with
  | svar e => exact .svar (keep _ _ hne e)
  | var e => exact .var (keep _ _ hne e)
  | const e => exact .const (keep _ _ hne e)
  | bound e => exact .bound (keep _ _ hne e)
  | comb e _ _ ihf iha =>
    have hc := hu _ _ e
    simp only [Node.children, List.mem_cons, List.not_mem_nil, or_false, not_or] at hc
    exact .comb (keep _ _ hne e) (ihf (fun x => hc.1 x.symm)) (iha (fun x => hc.2 x.symm))
  | abs e _ ih =>
    have hc := hu _ _ e
    simp only [Node.children, List.mem_cons, List.not_mem_nil, or_false] at hc
    exact .abs (keep _ _ hne e) (ih (fun x => hc x.symm))

theorem mem_of_contains {R : List Addr} {x : Addr} : R.contains x = true ↔ x ∈ R := by
  simp

/-- the objects rewritten by `subst_type_inplace` represent the instantiated terms -/
theorem inplace_repr (σ : Ty.TyInst) {h : Heap} {R : List Addr} (hc : ChildClosed h R) {b : Addr}
    {t : Term} (r : Repr h b t) (hb : b ∈ R) :
    Repr (inplaceHeap σ R h) b (Term.substType σ t) := by
  have get : ∀ x o, x ∈ R → h x = some o →
      inplaceHeap σ R h x = some ⟨substNode σ o.node, o.id⟩ := by
    intro x o hx e
    unfold inplaceHeap
    rw [if_pos (mem_of_contains.2 hx), e]; rfl
  induction r with
  | svar e => exact .svar (get _ _ hb e)
  | var e => exact .var (get _ _ hb e)
  | const e => exact .const (get _ _ hb e)
  | bound e => exact .bound (get _ _ hb e)
  | comb e _ _ ihf iha =>
    have c := hc _ hb _ e
    exact .comb (get _ _ hb e) (ihf (c _ (by simp [Node.children]))) (iha (c _ (by simp [Node.children])))
  | abs e _ ih =>
    have c := hc _ hb _ e
    exact .abs (get _ _ hb e) (ih (c _ (by simp [Node.children])))

/-- an object that reaches none of the rewritten objects represents what it represented -/
theorem inplace_repr_outside (σ : Ty.TyInst) {h : Heap} {R : List Addr} {b : Addr} {t : Term}
    (r : Repr h b t) (hb : ∀ x, Reach h b x → x ∉ R) : Repr (inplaceHeap σ R h) b t := by
  have keep : ∀ x o, x ∉ R → h x = some o → inplaceHeap σ R h x = some o := by
    intro x o hx e
    unfold inplaceHeap
    have : R.contains x = false := by
      cases hcx : R.contains x with
      | false => rfl
      | true => exact absurd (mem_of_contains.1 hcx) hx
    rw [this]; exact e
  induction r with
  | svar e => exact .svar (keep _ _ (hb _ (.refl _)) e)
  | var e => exact .var (keep _ _ (hb _ (.refl _)) e)
  | const e => exact .const (keep _ _ (hb _ (.refl _)) e)
  | bound e => exact .bound (keep _ _ (hb _ (.refl _)) e)
  | comb e _ _ ihf iha =>
    exact .comb (keep _ _ (hb _ (.refl _)) e)
      (ihf (fun x rx => hb x (.step e (by simp [Node.children]) rx)))
      (iha (fun x rx => hb x (.step e (by simp [Node.children]) rx)))
  | abs e _ ih =>
    exact .abs (keep _ _ (hb _ (.refl _)) e)
      (ih (fun x rx => hb x (.step e (by simp [Node.children]) rx)))

theorem MStep_inv {s s' : Heap × Memo} (hi : MemoInv s.1 s.2) (st : MStep s s') : MemoInv s'.1 s'.2 := by
  cases st with
  | alloc e => exact hi.ext (alloc_ext e)
  | @wrap h h' m a src e =>
    obtain ⟨o, hs, ha, rfl⟩ := wrap_spec e
    have hx : Ext h (h.set a ⟨o.node, a⟩) := Ext.set _ ha
    intro x v hm
    simp only [Memo.set] at hm
    split at hm
    · rename_i hxa
      subst hxa
      obtain ⟨t, r, ev⟩ := hi src v hm
      refine ⟨t, r.same_node (j := x) hx hs ?_, ev⟩
      simp [Heap.set]
    · obtain ⟨t, r, ev⟩ := hi x v hm
      exact ⟨t, r.ext hx, ev⟩
  | copy e => exact hi.ext (copyRec_ext _ _ _ _ _ e)
  | @free h m a hu =>
    intro x v hm
    simp only [Memo.set] at hm
    split at hm
    · cases hm
    · rename_i hne
      obtain ⟨t, r, ev⟩ := hi x v hm
      exact ⟨t, r.del hu hne, ev⟩
  | @hash h m a t r =>
    intro x v hm
    unfold memoise at hm
    split at hm
    · exact hi x v hm
    · simp only [Memo.set] at hm
      split at hm
      · rename_i hxa
        subst hxa
        cases hm
        exact ⟨t, r, rfl⟩
      · exact hi x v hm
  | grow hx _ => exact hi.ext hx
  | @inplace h m σ R hc hn =>
    intro x v hm
    simp only [inplaceMemo, if_true] at hm
    split at hm
    · cases hm
    · rename_i hx
      have hxR : x ∉ R := fun hmem => hx (mem_of_contains.2 hmem)
      obtain ⟨t, r, ev⟩ := hi x v hm
      refine ⟨t, inplace_repr_outside σ r (hn x hxR (by rw [hm]; simp)), ev⟩

theorem MSteps_inv {s s' : Heap × Memo} (hi : MemoInv s.1 s.2) (st : MSteps s s') : MemoInv s'.1 s'.2 := by
  induction st with
  | nil => exact hi
  | cons a _ ih => exact ih (MStep_inv hi a)


theorem inplace_idinv (σ : Ty.TyInst) (R : List Addr) {h : Heap} (hi : IdInv h) :
    IdInv (inplaceHeap σ R h) := by
  intro a o e
  unfold inplaceHeap at e
  split at e
  · cases ha : h a with
    | none => rw [ha] at e; cases e
    | some o' => rw [ha] at e; cases e; exact hi a o' ha
  · exact hi a o e

theorem MStep_idinv {s s' : Heap × Memo} (hi : IdInv s.1) (st : MStep s s') : IdInv s'.1 := by
  cases st with
  | alloc e => exact alloc_inv hi e
  | wrap e => exact wrap_inv hi e
  | copy e => exact copyRec_inv _ _ _ _ _ hi e
  | free _ => exact hi.del _
  | hash _ => exact hi
  | inplace _ _ => exact inplace_idinv _ _ hi
  | grow _ hg => exact hg hi

theorem MSteps_idinv {s s' : Heap × Memo} (hi : IdInv s.1) (st : MSteps s s') : IdInv s'.1 := by
  induction st with
  | nil => exact hi
  | cons a _ ih => exact ih (MStep_idinv hi a)

theorem MemoInv.empty : MemoInv Heap.empty Memo.empty := by
  intro a v hm
  simp [Memo.empty] at hm

theorem readTerm_complete {h : Heap} : ∀ (fuel : Nat) (a : Addr) (t : Term),
    Repr h a t → size t ≤ fuel → readTerm h fuel a = some t
  | 0, _, t, _, hs => by have := size_pos t; omega
  | fuel + 1, a, t, r, hs => by
    unfold readTerm
    cases r with
    | svar e => simp [e]
    | var e => simp [e]
    | const e => simp [e]
    | bound e => simp [e]
    | comb e rf rx =>
      simp only [size] at hs
      simp [e, readTerm_complete fuel _ _ rf (by omega), readTerm_complete fuel _ _ rx (by omega)]
    | abs e rb =>
      simp only [size] at hs
      simp [e, readTerm_complete fuel _ _ rb (by omega)]

/-- what `hash(obj)` returns under the invariant -/
theorem hashObs_eq {h : Heap} {m : Memo} (hi : MemoInv h m) {a : Addr} {t : Term} (r : Repr h a t)
    {fuel : Nat} (hs : size t ≤ fuel) : hashObs h m fuel a = some (hashTree t) := by
  unfold hashObs
  split
  · rename_i v hm
    obtain ⟨t', r', ev⟩ := hi a v hm
    rw [ev, r'.functional r]
  · rw [readTerm_complete fuel a t r hs]; rfl


theorem childClosed_sound {h : Heap} {R : List Addr} (hc : childClosed h R = true) : ChildClosed h R := by
  intro x hx o ho c hcm
  simp only [childClosed, List.all_eq_true] at hc
  have := hc x hx
  rw [ho] at this
  simp only [List.all_eq_true] at this
  exact mem_of_contains.1 (this c hcm)

/-! ### the witness heap of the counterexamples -/

/-- `x :: ?'a` at address 0 and `x x` (the same object twice) at address 1, whose hash is memoised -/
def sharedHeap : Heap :=
  (Heap.empty.set 0 ⟨.svar "x" (.stvar "a"), 0⟩).set 1 ⟨.comb 0 0, 1⟩
def sharedMemo : Memo :=
  Memo.empty.set 1 (some (hashTree (.comb (.svar "x" (.stvar "a")) (.svar "x" (.stvar "a")))))

theorem sharedMemo_noalias : NoAlias sharedHeap sharedMemo [1, 0] := by
  intro b hb hm
  exfalso
  apply hm
  have : b ≠ 1 := fun e => hb (by simp [e])
  simp [sharedMemo, Memo.set, Memo.empty, this]

theorem sharedMemo_inv : MemoInv sharedHeap sharedMemo := by
  intro a v hm
  simp only [sharedMemo, Memo.set, Memo.empty] at hm
  split at hm
  · rename_i e
    subst e
    cases hm
    exact ⟨_, readTerm_repr 3 1 _ (by decide), rfl⟩
  · cases hm

end Holpy.C03
