import Holpy.Kernel.Wire
import Holpy.Kernel.Oracle
import Holpy.C03.Model
/-
Line protocol of the C03 model.  The term ops of the kernel driver (same code as
`Holpy/C01/Driver.lean`, which cannot be imported because it defines `main`):
  (aeq T1 T2) -> T|F            (gettype T) / (checktype T) -> (ok Ty) | (err KIND)
  (substtype ((n Ty)*) T) (incr K T) (substbound ABS T) (betaconv T) (betanorm FUEL T)
  (abstract T X) (occurs T X) (subst INST T)            -> (ok Term) | (err KIND) | T|F
plus

  (hashtree T) / (tyhashtree Ty)  -> HTREE := (s ATOM) | (n NAT) | (t HTREE*) | (h HTREE*)
  (hasheq T1 T2)                  -> T|F        equality of the hash trees
  (cmp T1 T2) / (cmpty Ty1 Ty2)   -> -1|0|1     fast_compare / fast_compare_typ (names are decoded first)
  (size T)                        -> NAT
  (lambda X BODY)                 -> (ok Term) | (err KIND)      Lambda(x, body)
  (semeq T1 T2 SPEC BUDGET SEED MAXCOST)             -> (same N T|F) | (diff VALUATION) | (skip WHY)
        closed terms: search a valuation in the model SPEC under which the denotations differ
  (semeqty TYINST T0 T1 SPEC BUDGET SEED MAXCOST)    -> idem: T1 in (M, ρ) against T0 in (M.pull σ, ρ.pull σ)
  (semsubst INST T0 T1 SPEC BUDGET SEED MAXCOST)     -> idem: T1 in (M, ρ) against substType σ T0 in (M, instVal ρ inst)
  (memo DROPALL (EV*))            -> (ok R*) | (stuck K)      memoised hashes and subst_type_inplace
        EV := (mk A NODE) | (hash A) | (inplace ((n Ty)*) A) | (obs A)
        (hash A) memoises every object reachable from A; R := (obs CONSISTENT Term|none) for every (obs A):
        CONSISTENT = the memo at A, if any, is the hash nest of the term A represents now
  (sbheap KEYDEPTH OPEN ((mk A NODE)*) UA S N) -> (ok Term) | (none)
        subst_bound run on the heap with its cache (Model.lean (e),(f)): argument object UA (OPEN = t.is_open()), body object S, depth N
  (incrheap ((mk A NODE)*) S INC)              -> (ok Term) | (none)     incr_boundvars(INC) on the heap
  (substheap ((mk A NODE)*) ((n A)*) ((n A)*) S) -> (ok Term) | (none)   rec of Term.subst on the heap with its _id cache;
        instances of schematic variables / of var_inst given as objects
  (history FIXED (EV*))           -> (ok R*) | (stuck K)
        EV := (mk A NODE) | (wrap A SRC) | (copy (A*) SRC) | (free A) | (eq A B) | (term A)
        NODE := (sv n Ty) | (v n Ty) | (c n Ty) | (ap A A) | (ab x Ty A) | (b i)
        R := (eq FAST STRUCT) with FAST, STRUCT in T|F|none   for every (eq A B)
           | (term Term) | (term none)                         for every (term A)
-/
open Holpy Holpy.Wire

namespace Holpy.C03.Driver
open Holpy.C03


def sizesOf (l : List Sexp) : Option (List (String × Nat)) :=
  l.mapM fun
    | .list [.atom n, s] => do some (n, ← s.toNat?)
    | _ => none

def specOf : Sexp → Option Oracle.Spec
  | .list [.list a, .list b, .list c, d] => do
    some ⟨← sizesOf a, ← sizesOf b, ← sizesOf c, ← d.toNat?⟩
  | _ => none

def okTerm : Except TErr Term → String
  | .ok t => toString (Sexp.list [.atom "ok", termTo t])
  | .error e => toString (Sexp.list [.atom "err", .atom (terrTo e)])

def okTy : Except TErr Ty → String
  | .ok t => toString (Sexp.list [.atom "ok", tyTo t])
  | .error e => toString (Sexp.list [.atom "err", .atom (terrTo e)])

/-- the term operations of the shared kernel model -/
def handleKernel (line : String) : String :=
  match Sexp.parse line with
  | some (.list [.atom "aeq", a, b]) =>
    match termOf a, termOf b with
    | some x, some y => toString (Sexp.ofBool (Term.aeq x y))
    | _, _ => "bad-op"
  | some (.list [.atom "gettype", a]) =>
    match termOf a with
    | some x => okTy (Term.getType [] x)
    | none => "bad-op"
  | some (.list [.atom "checktype", a]) =>
    match termOf a with
    | some x => okTy (Term.checkedGetType [] x)
    | none => "bad-op"
  | some (.list [.atom "substtype", .list σ, a]) =>
    match tyInstOf σ, termOf a with
    | some s, some x => okTerm (.ok (Term.substType s x))
    | _, _ => "bad-op"
  | some (.list [.atom "incr", k, a]) =>
    match k.toNat?, termOf a with
    | some n, some x => okTerm (.ok (Term.incrBoundvars n x))
    | _, _ => "bad-op"
  | some (.list [.atom "substbound", a, b]) =>
    match termOf a, termOf b with
    | some x, some y => okTerm (Term.substBound x y)
    | _, _ => "bad-op"
  | some (.list [.atom "betaconv", a]) =>
    match termOf a with
    | some x => okTerm (Term.betaConv x)
    | none => "bad-op"
  | some (.list [.atom "betanorm", k, a]) =>
    match k.toNat?, termOf a with
    | some n, some x => okTerm (Term.betaNorm n x)
    | _, _ => "bad-op"
  | some (.list [.atom "abstract", a, b]) =>
    match termOf a, termOf b with
    | some x, some y => okTerm (Term.abstractOver x y)
    | _, _ => "bad-op"
  | some (.list [.atom "occurs", a, b]) =>
    match termOf a, termOf b with
    | some x, some y => toString (Sexp.ofBool (Term.occursVar y x))
    | _, _ => "bad-op"
  | some (.list [.atom "subst", i, a]) =>
    match argOf i, termOf a with
    | some (.inst ins), some x =>
      match Term.subst ins x with
      | .ok (t, _) => okTerm (.ok t)
      | .error e => okTerm (.error e)
    | _, _ => "bad-op"
  | _ => "bad-op"

/-! names arrive percent-encoded (harness/common/sexp.py); the ordering needs the real strings -/
def hexVal (c : Char) : Option Nat :=
  if '0' ≤ c ∧ c ≤ '9' then some (c.toNat - '0'.toNat)
  else if 'a' ≤ c ∧ c ≤ 'f' then some (c.toNat - 'a'.toNat + 10)
  else none

def decodeChars : Nat → List Char → List Char
  | 0, cs => cs
  | _, [] => []
  | fuel + 1, '%' :: 'e' :: rest => decodeChars fuel rest
  | fuel + 1, '%' :: rest =>
    let digits := rest.takeWhile (· != '%')
    let rest' := (rest.dropWhile (· != '%')).drop 1
    let v := digits.foldl (fun acc d => acc * 16 + (hexVal d).getD 0) 0
    Char.ofNat v :: decodeChars fuel rest'
  | fuel + 1, c :: rest => c :: decodeChars fuel rest

def decodeName (s : String) : String := String.ofList (decodeChars (s.length + 1) s.toList)

mutual
def decTy : Ty → Ty
  | .stvar n => .stvar (decodeName n)
  | .tvar n => .tvar (decodeName n)
  | .con n args => .con (decodeName n) (decTyList args)
def decTyList : List Ty → List Ty
  | [] => []
  | a :: as => decTy a :: decTyList as
end

def decTerm : Term → Term
  | .svar n T => .svar (decodeName n) (decTy T)
  | .var n T => .var (decodeName n) (decTy T)
  | .const n T => .const (decodeName n) (decTy T)
  | .comb f a => .comb (decTerm f) (decTerm a)
  | .abs x T b => .abs (decodeName x) (decTy T) (decTerm b)
  | .bound i => .bound i

partial def htreeTo : HTree → Sexp
  | .str s => .list [.atom "s", .atom s]
  | .nat n => .list [.atom "n", Sexp.ofNat n]
  | .tup l => .list (.atom "t" :: l.map htreeTo)
  | .hashes l => .list (.atom "h" :: l.map htreeTo)

/-! ### semantic comparison of two closed terms -/

def typedAs (s : Term) (T : Ty) : Bool :=
  match Term.checkedGetType [] s with
  | .ok T' => T' == T
  | .error _ => false

/-- same definition as `Holpy.instVal` (Kernel/SemSubst.lean, a proof file) -/
def instVal (M : Model) (ρ : Valuation) (inst : Term.Inst) : Valuation :=
  fun k n T =>
    if k = 0 then
      match inst.svars.lookup n with
      | some s => if typedAs s T then sem M ρ [] [] s else ρ k n T
      | none => ρ k n T
    else if k = 1 then
      match inst.vars.lookup n with
      | some s => if typedAs s T then sem M ρ [] [] s else ρ k n T
      | none => ρ k n T
    else ρ k n T

/-- same definition as `Holpy.Valuation.pull` (Kernel/SemType.lean, a proof file) -/
def pullVal (M : Model) (ρ : Valuation) (σ : Ty.TyInst) : Valuation :=
  fun k n T => if k = 2 then constVal M ρ n (T.subst σ) else ρ k n (T.subst σ)

/-- size of a type, `none` as soon as a component exceeds `cap` (`Model.size` itself would build
astronomically large powers) -/
partial def capSize (M : Model) (cap : Nat) : Ty → Option Nat
  | .stvar n => some (M.stv n + 1)
  | .tvar n => some (M.tv n + 1)
  | .con n args => do
    let ss ← args.mapM (capSize M cap)
    match n, ss with
    | "bool", [] => some 2
    | "fun", [a, b] =>
      if b ≤ 1 then some b
      else if a > 40 then none
      else if b ^ a > cap then none else some (b ^ a)
    | _, _ => some (M.con n ss + 1)

/-- all types written in a term (atoms and binders) -/
def typesOf : Term → List Ty → List Ty
  | .svar _ T, acc | .var _ T, acc | .const _ T, acc => T :: acc
  | .comb f a, acc => typesOf a (typesOf f acc)
  | .abs _ T b, acc => typesOf b (T :: acc)
  | .bound _, acc => acc

/-- rough number of `sem` node visits for one valuation: binder domains multiply along a path;
`equals` at carrier n costs n², `all` at carrier n costs 2ⁿ -/
def evalCost (M : Model) : Term → Nat
  | .const n T =>
    match logicalKind n T with
    | some (0, a) => M.size a * M.size a
    | some (2, a) => 2 ^ (min (M.size a) 40)
    | _ => 1
  | .comb f a => evalCost M f + evalCost M a + 1
  | .abs _ T b => M.size T * (evalCost M b + 1)
  | _ => 1

def MAXEVAL : Nat := 60000

inductive SVerdict where
  | same (tried : Nat) (exhaustive : Bool)
  | diff (asg : List (Oracle.Atom × Nat))
  | skip (why : String)

/-- `differs ρ` decides whether the two denotations differ under `ρ`; `terms` are the terms whose
atoms are valued (all of them evaluated in `M`) -/
def searchDiff (M : Model) (terms : List Term) (differs : Valuation → Bool)
    (budget seed maxCost : Nat) : SVerdict :=
  let tys := terms.foldl (fun acc t => typesOf t acc) []
  if !(tys.all (fun T => (capSize M maxCost T).isSome)) then .skip "type_size" else
  let atoms := terms.foldl (fun acc t => Oracle.atomsAcc t acc) []
  let sized := atoms.map (fun a => (a, M.size a.2.2))
  let cost := terms.foldl (fun c t => Oracle.costAcc M t c) 0
  let ec := terms.foldl (fun c t => c + evalCost M t) 0
  if ec > MAXEVAL then .skip s!"eval_cost_{ec}" else
  let budget := max 1 (min budget (MAXEVAL / ec))
  if cost > maxCost then .skip s!"cost_{cost}"
  else if sized.any (fun p => p.2 > maxCost) then .skip "atom_size"
  else
    let total := sized.foldl (fun acc p => acc * p.2) 1
    if total ≤ budget then
      let rec go (i : Nat) (fuel : Nat) : SVerdict :=
        match fuel with
        | 0 => .same total true
        | fuel + 1 =>
          if i ≥ total then .same total true
          else
            let asg := Oracle.decode sized i
            if differs (Oracle.valuationOf asg) then .diff asg else go (i + 1) fuel
      go 0 (total + 1)
    else
      let rec gos (k : Nat) (st : Nat) : SVerdict :=
        match k with
        | 0 => .same budget false
        | k + 1 =>
          let (asg, st') := Oracle.sample sized st
          if differs (Oracle.valuationOf asg) then .diff asg else gos k st'
      gos budget (seed + 1)

def verdictTo : SVerdict → String
  | .same n ex => toString (Sexp.list [.atom "same", Sexp.ofNat n, Sexp.ofBool ex])
  | .diff asg => toString (Sexp.list [.atom "diff", .list (asg.map fun (a, v) =>
      .list [Sexp.ofNat a.1, .atom a.2.1, tyTo a.2.2, Sexp.ofNat v])])
  | .skip w => toString (Sexp.list [.atom "skip", .atom w])

/-! ### heap histories -/

def nodeOf : Sexp → Option Node
  | .list [.atom "sv", .atom n, T] => do some (.svar n (← tyOf T))
  | .list [.atom "v", .atom n, T] => do some (.var n (← tyOf T))
  | .list [.atom "c", .atom n, T] => do some (.const n (← tyOf T))
  | .list [.atom "ap", f, a] => do some (.comb (← f.toNat?) (← a.toNat?))
  | .list [.atom "ab", .atom x, T, b] => do some (.abs x (← tyOf T) (← b.toNat?))
  | .list [.atom "b", i] => do some (.bound (← i.toNat?))
  | _ => none

inductive Ev where
  | op (o : Op)
  | eq (a b : Addr)
  | term (a : Addr)

def evOf : Sexp → Option Ev
  | .list [.atom "mk", a, n] => do some (.op (.alloc (← a.toNat?) (← nodeOf n)))
  | .list [.atom "wrap", a, s] => do some (.op (.wrap (← a.toNat?) (← s.toNat?)))
  | .list [.atom "copy", .list as, s] => do some (.op (.copy (← as.mapM Sexp.toNat?) (← s.toNat?)))
  | .list [.atom "free", a] => do some (.op (.free (← a.toNat?)))
  | .list [.atom "eq", a, b] => do some (.eq (← a.toNat?) (← b.toNat?))
  | .list [.atom "term", a] => do some (.term (← a.toNat?))
  | _ => none

def optBool : Option Bool → Sexp
  | some b => Sexp.ofBool b
  | none => .atom "none"

def FUEL : Nat := 100000

def runEvents (fixed : Bool) : Heap → List Ev → Nat → List Sexp → Except Nat (List Sexp)
  | _, [], _, acc => .ok acc.reverse
  | h, .op o :: rest, k, acc =>
    match step fixed h o with
    | some h' => runEvents fixed h' rest (k + 1) acc
    | none => .error k
  | h, .eq a b :: rest, k, acc =>
    let fast := eqFast h FUEL a b
    let struct := match readTerm h FUEL a, readTerm h FUEL b with
      | some ta, some tb => some (Term.aeq ta tb)
      | _, _ => none
    runEvents fixed h rest (k + 1) (.list [.atom "eq", optBool fast, optBool struct] :: acc)
  | h, .term a :: rest, k, acc =>
    let r := match readTerm h FUEL a with
      | some t => termTo t
      | none => .atom "none"
    runEvents fixed h rest (k + 1) (.list [.atom "term", r] :: acc)

inductive MEv where
  | mk (a : Addr) (n : Node)
  | hash (a : Addr)
  | inplace (σ : Ty.TyInst) (a : Addr)
  | obs (a : Addr)

def mevOf : Sexp → Option MEv
  | .list [.atom "mk", a, n] => do some (.mk (← a.toNat?) (← nodeOf n))
  | .list [.atom "hash", a] => do some (.hash (← a.toNat?))
  | .list [.atom "inplace", .list σ, a] => do some (.inplace (← tyInstOf σ) (← a.toNat?))
  | .list [.atom "obs", a] => do some (.obs (← a.toNat?))
  | _ => none

def htreeStr (t : HTree) : String := toString (htreeTo t)

/-! The memo is kept as a table and turned into the model's `Memo` function for every single
model operation, then tabulated again: a chain of closures `memoise (memoise …)` would look up the
previous memo twice per level. -/
def memoOf (l : List (Addr × HTree)) : Memo := fun x => l.lookup x

def tabulate (addrs : List Addr) (m : Memo) : List (Addr × HTree) :=
  addrs.filterMap fun x => (m x).map (fun v => (x, v))

def runMemo (dropAll : Bool) : Heap → List (Addr × HTree) → List Addr → List MEv → Nat → List Sexp →
    Except Nat (List Sexp)
  | _, _, _, [], _, acc => .ok acc.reverse
  | h, l, addrs, .mk a n :: rest, k, acc =>
    match alloc h a n with
    | some h' => runMemo dropAll h' (l.filter (·.1 != a)) (a :: addrs) rest (k + 1) acc
    | none => .error k
  | h, l, addrs, .hash a :: rest, k, acc =>
    let R := reachList h FUEL a []
    let l' := R.foldl (fun l x => match readTerm h FUEL x with
      | some t => tabulate addrs (memoise (memoOf l) x t)
      | none => l) l
    runMemo dropAll h l' addrs rest (k + 1) acc
  | h, l, addrs, .inplace σ a :: rest, k, acc =>
    let R := reachList h FUEL a []
    if childClosed h R then
      runMemo dropAll (inplaceHeap σ R h) (tabulate addrs (inplaceMemo dropAll R h (memoOf l))) addrs rest (k + 1) acc
    else .error k
  | h, l, addrs, .obs a :: rest, k, acc =>
    let t := readTerm h FUEL a
    let consistent := match memoOf l a, t with
      | some v, some t => htreeStr v == htreeStr (hashTree t)
      | some _, none => false
      | none, _ => true
    let ts := match t with
      | some t => termTo t
      | none => .atom "none"
    runMemo dropAll h l addrs rest (k + 1) (.list [.atom "obs", Sexp.ofBool consistent, ts] :: acc)

/-- (returns an `Option`: a function-valued result would be eta-expanded by the compiler and the
whole construction re-run at every lookup) -/
def buildHeap : List MEv → Heap → Option Heap
  | [], h => some h
  | .mk a nd :: rest, h =>
    match alloc h a nd with
    | some h' => buildHeap rest h'
    | none => none
  | _ :: rest, h => buildHeap rest h

def freshAddrs (es : List MEv) : List Addr :=
  let top := es.foldl (fun t e => match e with
    | .mk a _ => max t (a + 1)
    | _ => t) 0
  (List.range 4000).map (· + top)

def readOut (h : Heap) (r : Addr) : String :=
  match readTerm h FUEL r with
  | some t => toString (Sexp.list [.atom "ok", termTo t])
  | none => "(none)"

def nameAddr : Sexp → Option (String × Addr)
  | .list [.atom n, a] => do some (n, ← a.toNat?)
  | _ => none

/-- instance objects with the terms they represent -/
def instH (h : Heap) (l : List (String × Addr)) : Option InstH :=
  l.mapM fun (n, a) => (readTerm h FUEL a).map (fun t => (n, a, t))

def handle (line : String) : String :=
  match Sexp.parse line with
  | some (.list [.atom "hashtree", a]) =>
    match termOf a with
    | some x => toString (htreeTo (hashTree x))
    | none => "bad-op"
  | some (.list [.atom "tyhashtree", a]) =>
    match tyOf a with
    | some x => toString (htreeTo (tyHash x))
    | none => "bad-op"
  | some (.list [.atom "hasheq", a, b]) =>
    match termOf a, termOf b with
    | some x, some y => toString (Sexp.ofBool (toString (htreeTo (hashTree x)) == toString (htreeTo (hashTree y))))
    | _, _ => "bad-op"
  | some (.list [.atom "cmp", a, b]) =>
    match termOf a, termOf b with
    | some x, some y => toString (ordToInt (fastCompare (decTerm x) (decTerm y)))
    | _, _ => "bad-op"
  | some (.list [.atom "cmpty", a, b]) =>
    match tyOf a, tyOf b with
    | some x, some y => toString (ordToInt (fastCompareTyp (decTy x) (decTy y)))
    | _, _ => "bad-op"
  | some (.list [.atom "size", a]) =>
    match termOf a with
    | some x => toString (size x)
    | none => "bad-op"
  | some (.list [.atom "lambda", x, b]) =>
    match termOf x, termOf b with
    | some vx, some body => okTerm (Term.mkLambda vx body)
    | _, _ => "bad-op"
  | some (.list [.atom "semeq", a, b, spec, budget, seed, maxCost]) =>
    match termOf a, termOf b, specOf spec, budget.toNat?, seed.toNat?, maxCost.toNat? with
    | some x, some y, some s, some bu, some sd, some mc =>
      let M := s.toModel
      verdictTo (searchDiff M [x, y] (fun ρ => sem M ρ [] [] x != sem M ρ [] [] y) bu sd mc)
    | _, _, _, _, _, _ => "bad-op"
  | some (.list [.atom "semeqty", .list σ, a, b, spec, budget, seed, maxCost]) =>
    match tyInstOf σ, termOf a, termOf b, specOf spec, budget.toNat?, seed.toNat?, maxCost.toNat? with
    | some ti, some x, some y, some s, some bu, some sd, some mc =>
      let M := s.toModel
      -- atoms of the instantiated terms; the original is evaluated in the pulled model
      verdictTo (searchDiff M [Term.substType ti x, y]
        (fun ρ => sem (M.pull ti) (pullVal M ρ ti) [] [] x != sem M ρ [] [] y) bu sd mc)
    | _, _, _, _, _, _, _ => "bad-op"
  | some (.list [.atom "semsubst", i, a, b, spec, budget, seed, maxCost]) =>
    match argOf i, termOf a, termOf b, specOf spec, budget.toNat?, seed.toNat?, maxCost.toNat? with
    | some (.inst ins), some x, some y, some s, some bu, some sd, some mc =>
      let M := s.toModel
      let x' := Term.substType ins.tyinst x
      let others := ins.svars.map (·.2) ++ ins.vars.map (·.2)
      verdictTo (searchDiff M (x' :: y :: others)
        (fun ρ => sem M (instVal M ρ ins) [] [] x' != sem M ρ [] [] y) bu sd mc)
    | _, _, _, _, _, _, _ => "bad-op"
  | some (.list [.atom "memo", da, .list evs]) =>
    match da.toBool?, evs.mapM mevOf with
    | some dropAll, some es =>
      match runMemo dropAll Heap.empty [] [] es 0 [] with
      | .ok rs => toString (Sexp.list (.atom "ok" :: rs))
      | .error k => toString (Sexp.list [.atom "stuck", Sexp.ofNat k])
    | _, _ => "bad-op"
  | some (.list [.atom "sbheap", kd, op, .list evs, ua, s0, n0]) =>
    match kd.toBool?, op.toBool?, evs.mapM mevOf, ua.toNat?, s0.toNat?, n0.toNat? with
    | some keyDepth, some opn, some es, some u, some sa, some n =>
      match buildHeap es Heap.empty with
      | none => "(none)"
      | some h =>
      match sbHeap keyDepth opn FUEL u FUEL h [] (freshAddrs es) sa n with
      | some (h', _, _, r) => readOut h' r
      | none => "(none)"
    | _, _, _, _, _, _ => "bad-op"
  | some (.list [.atom "incrheap", .list evs, s0, inc]) =>
    match evs.mapM mevOf, s0.toNat?, inc.toNat? with
    | some es, some sa, some k =>
      match buildHeap es Heap.empty with
      | none => "(none)"
      | some h =>
      match incrHeap k FUEL h (freshAddrs es) sa 0 with
      | some (h', _, r) => readOut h' r
      | none => "(none)"
    | _, _, _ => "bad-op"
  | some (.list [.atom "substheap", .list evs, .list svs, .list vvs, s0]) =>
    match evs.mapM mevOf, svs.mapM nameAddr, vvs.mapM nameAddr, s0.toNat? with
    | some es, some sv, some vv, some sa =>
      match buildHeap es Heap.empty with
      | none => "(none)"
      | some h =>
      match instH h sv, instH h vv with
      | some svh, some vvh =>
        match substHeap svh vvh FUEL h [] (freshAddrs es) sa with
        | some (h', _, _, r) => readOut h' r
        | none => "(none)"
      | _, _ => "(none)"
    | _, _, _, _ => "bad-op"
  | some (.list [.atom "history", fx, .list evs]) =>
    match fx.toBool?, evs.mapM evOf with
    | some fixed, some es =>
      match runEvents fixed Heap.empty es 0 [] with
      | .ok rs => toString (Sexp.list (.atom "ok" :: rs))
      | .error k => toString (Sexp.list [.atom "stuck", Sexp.ofNat k])
    | _, _ => "bad-op"
  | _ => handleKernel line

end Holpy.C03.Driver

def main : IO Unit := Holpy.lineLoop Holpy.C03.Driver.handle
