import Holpy.Common.Sexp
/- stub: replaced when the C03 model is built -/
def main : IO Unit := Holpy.lineLoop (fun _ => "bad-op")
