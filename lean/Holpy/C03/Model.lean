import Holpy.Kernel.Term
/-
C03 — model of `Term.__hash__` / `Type.__hash__` (the tuple structure that is hashed), of
`kernel/term_ord.py` (`fast_compare`, `fast_compare_typ`) and of the `_id` fast path of
`Term.__eq__` over a heap with an adversarial allocator.  Import-free (linked into `c03_model`).

`==` itself (structural branch), `subst_type`, `subst`, `subst_bound`, `incr_boundvars`,
`abstract_over`, `beta_conv`, `beta_norm`, `get_type`, `checked_get_type` are the shared kernel
model `Holpy/Kernel/{Type,Term}.lean`.
-/
namespace Holpy.C03
open Holpy

/-! ## (a) what `__hash__` hashes

Python hashes nested tuples of strings, integers and other hashable objects; the hash of a tuple
is a function of the hashes of its items, and the hash of a `Term`/`Type` item is its own
`__hash__`.  `HTree` is that nest: `tup` is a tuple whose items are hashed as objects, `hashes l`
is the tuple `tuple(hash(arg) for arg in args)` of `Type.__hash__` (a tuple of the *integers*
`hash(arg)`).  Equal trees give equal Python hashes (trusted: `hash` of equal tuples of equal
strings/ints is equal).  The memo field `_hash_val` stores the hash of the tree of the object at
the time of the first call; `subst_type_inplace` deletes it on every object it rewrites. -/
inductive HTree where
  | str (s : String)
  | nat (n : Nat)
  | tup (l : List HTree)
  | hashes (l : List HTree)
  deriving Repr, Inhabited

mutual
/-- `Type.__hash__` -/
def tyHash : Ty → HTree
  | .stvar n => .tup [.str "STVAR", .str n]
  | .tvar n => .tup [.str "TVAR", .str n]
  | .con n args => .tup [.str "TCONST", .str n, .hashes (tyHashList args)]
def tyHashList : List Ty → List HTree
  | [] => []
  | a :: as => tyHash a :: tyHashList as
end

/-- `Term.__hash__`.  An application `c a b` whose head is the constant named `conj` / `disj`
(any type) is hashed as `("CONJ", a, b)` / `("DISJ", a, b)`; `Let a (%x::T. body)` as
`("LET", a, T, body)`; every other application as `("COMB", fun, arg)`.  (The Python walks a
right-nested chain of conjunctions iteratively, hashing the last element first and then the
chain from the inside out, storing `_hash_val` on each node: the value stored on each node is the
hash of exactly this tree, see `hashChain`.) -/
def hashTree : Term → HTree
  | .svar n T => .tup [.str "SVAR", .str n, tyHash T]
  | .var n T => .tup [.str "VAR", .str n, tyHash T]
  | .const n T => .tup [.str "CONST", .str n, tyHash T]
  | .comb f a =>
    -- a thunk: the compiled code must not evaluate `hashTree a` twice per level
    let generic : Unit → HTree := fun _ => .tup [.str "COMB", hashTree f, hashTree a]
    match f with
    | .comb (.const c _) p =>
      if c == "conj" then .tup [.str "CONJ", hashTree p, hashTree a]
      else if c == "disj" then .tup [.str "DISJ", hashTree p, hashTree a]
      else if c == "Let" then
        match a with
        | .abs _ S body => .tup [.str "LET", hashTree p, tyHash S, hashTree body]
        | _ => generic ()
      else generic ()
    | _ => generic ()
  | .abs _ T b => .tup [.str "ABS", tyHash T, hashTree b]
  | .bound i => .tup [.str "BOUND", .nat i]

/-- `t.is_comb(c, 2)` -/
def isBinop (c : String) : Term → Bool
  | .comb (.comb (.const n _) _) _ => n == c
  | _ => false

/-- the loop `while t.is_conj(): t = t.arg`: the left arguments of the chain and its last element -/
def stripRight (c : String) : Term → List Term × Term
  | .comb (.comb (.const n T) p) q =>
    if n == c then (p :: (stripRight c q).1, (stripRight c q).2)
    else ([], .comb (.comb (.const n T) p) q)
  | t => ([], t)

/-- the loop `for t in reversed(tlist[:-1]): t._hash_val = hash((TAG, t.arg1, t.arg))` -/
def hashChain (tag : String) (args : List Term) (last : Term) : HTree :=
  args.foldr (fun a acc => .tup [.str tag, hashTree a, acc]) (hashTree last)

/-! ## (b) `kernel/term_ord.py`

`compare_atom` on integers / strings is `compare`; "if the first components differ return that
result, else compare the second components" (`compare_pair`, and the leading `size` / `ty` tests)
is `Ordering.then`; the result `-1 / 0 / 1` is `lt / eq / gt`. -/

mutual
/-- `Type.size()` -/
def tySize : Ty → Nat
  | .stvar _ => 1
  | .tvar _ => 1
  | .con _ args => 1 + tySizeList args
def tySizeList : List Ty → Nat
  | [] => 0
  | a :: as => tySize a + tySizeList as
end

/-- `Type.ty` -/
def tyTag : Ty → Nat
  | .stvar _ => 0
  | .tvar _ => 1
  | .con _ _ => 2

/-- first the sizes, then the constructor tags, then the components -/
def pre (s1 s2 t1 t2 : Nat) (r : Ordering) : Ordering :=
  (compare s1 s2).then ((compare t1 t2).then r)

mutual
/-- `fast_compare_typ` -/
def fastCompareTyp : Ty → Ty → Ordering
  | .stvar a, .stvar b => pre 1 1 0 0 (compare a b)
  | .tvar a, .tvar b => pre 1 1 1 1 (compare a b)
  | .con n as, .con m bs =>
    pre (tySize (.con n as)) (tySize (.con m bs)) 2 2 ((compare n m).then (fastCompareTypList as bs))
  | T1, T2 => pre (tySize T1) (tySize T2) (tyTag T1) (tyTag T2) .eq
/-- `compare_list(l1, l2, fast_compare_typ)`: first difference, else the lengths -/
def fastCompareTypList : List Ty → List Ty → Ordering
  | [], [] => .eq
  | [], _ :: _ => .lt
  | _ :: _, [] => .gt
  | a :: as, b :: bs => (fastCompareTyp a b).then (fastCompareTypList as bs)
end

/-- `Term.size()` -/
def size : Term → Nat
  | .comb f a => 1 + size f + size a
  | .abs _ _ b => 1 + size b
  | _ => 1

/-- `Term.ty` -/
def tag : Term → Nat
  | .svar _ _ => 0
  | .var _ _ => 1
  | .const _ _ => 2
  | .comb _ _ => 3
  | .abs _ _ _ => 4
  | .bound _ => 5

/-- `fast_compare` -/
def fastCompare : Term → Term → Ordering
  | .svar n T, .svar m S => pre 1 1 0 0 ((compare n m).then (fastCompareTyp T S))
  | .var n T, .var m S => pre 1 1 1 1 ((compare n m).then (fastCompareTyp T S))
  | .const n T, .const m S => pre 1 1 2 2 ((compare n m).then (fastCompareTyp T S))
  | .comb f a, .comb g b =>
    pre (size (.comb f a)) (size (.comb g b)) 3 3 ((fastCompare f g).then (fastCompare a b))
  | .abs x T b, .abs y S c =>
    pre (size (.abs x T b)) (size (.abs y S c)) 4 4 ((fastCompareTyp T S).then (fastCompare b c))
  | .bound i, .bound j => pre 1 1 5 5 (compare i j)
  | t1, t2 => pre (size t1) (size t2) (tag t1) (tag t2) .eq

def ordToInt : Ordering → Int
  | .lt => -1
  | .eq => 0
  | .gt => 1

/-! ## (c) the `_id` fast path: heap with an adversarial allocator

An object lives at an address, carries the fields of one `Term` node (children are addresses)
and an `_id` field.  The allocator may hand out ANY address that is currently free; objects may be
freed at any time.  `Term(t)` (`wrap`) copies the fields of `t` into a new object; after the fix it
then sets `_id` to the new address, on the pinned tree (`fixed = false`) `_id` stays `id(t)`. -/

abbrev Addr := Nat

inductive Node where
  | svar (n : String) (T : Ty)
  | var (n : String) (T : Ty)
  | const (n : String) (T : Ty)
  | comb (f a : Addr)
  | abs (x : String) (T : Ty) (b : Addr)
  | bound (i : Nat)
  deriving Repr, Inhabited, DecidableEq

structure Obj where
  node : Node
  id : Addr
  deriving Repr, Inhabited, DecidableEq

/-- live objects -/
abbrev Heap := Addr → Option Obj

def Heap.empty : Heap := fun _ => none

def Heap.set (h : Heap) (a : Addr) (o : Obj) : Heap := fun x => if x = a then some o else h x

def Heap.del (h : Heap) (a : Addr) : Heap := fun x => if x = a then none else h x

def Node.children : Node → List Addr
  | .comb f a => [f, a]
  | .abs _ _ b => [b]
  | _ => []

/-- a constructor call `SVar(..) / Var(..) / Const(..) / Comb(f, a) / Abs(x, T, b) / Bound(n)`:
the allocator returned `a`, the constructor stores the fields and `_id = id(self)` -/
def alloc (h : Heap) (a : Addr) (n : Node) : Option Heap :=
  if (h a).isNone && n.children.all (fun c => (h c).isSome) then some (h.set a ⟨n, a⟩) else none

/-- `Term(t)`: `self.__dict__.update(t.__dict__)` (and, after the fix, `self._id = id(self)`) -/
def wrap (fixed : Bool) (h : Heap) (a src : Addr) : Option Heap :=
  match h a, h src with
  | none, some o => some (h.set a ⟨o.node, if fixed then a else o.id⟩)
  | _, _ => none

/-- `copy.copy(t)` = `Term.__copy__`: rebuilds the tree with the constructors, children first;
`as` are the allocator's answers in the order of the constructor calls; the fuel bounds the
recursion through the heap. Returns the heap, the address of the copy and the unused answers. -/
def copyRec (h : Heap) : Nat → Addr → List Addr → Option (Heap × Addr × List Addr)
  | 0, _, _ => none
  | fuel + 1, src, as =>
    match h src with
    | none => none
    | some o =>
      match o.node with
      | .comb f x =>
        match copyRec h fuel f as with
        | none => none
        | some (h1, f', as1) =>
          match copyRec h1 fuel x as1 with
          | none => none
          | some (h2, x', as2) =>
            match as2 with
            | [] => none
            | a :: rest => (alloc h2 a (.comb f' x')).map (fun h3 => (h3, a, rest))
      | .abs n T b =>
        match copyRec h fuel b as with
        | none => none
        | some (h1, b', as1) =>
          match as1 with
          | [] => none
          | a :: rest => (alloc h1 a (.abs n T b')).map (fun h2 => (h2, a, rest))
      | leaf =>
        match as with
        | [] => none
        | a :: rest => (alloc h a leaf).map (fun h1 => (h1, a, rest))

inductive Op where
  | alloc (a : Addr) (n : Node)
  | wrap (a src : Addr)
  | copy (as : List Addr) (src : Addr)
  | free (a : Addr)
  deriving Repr, Inhabited

/-- one event of a history; `none` = the event is impossible (address not free, operand dead) -/
def step (fixed : Bool) (h : Heap) : Op → Option Heap
  | .alloc a n => alloc h a n
  | .wrap a src => wrap fixed h a src
  | .copy as src => (copyRec h (as.length + 1) src as).map (·.1)
  | .free a => some (h.del a)

def run (fixed : Bool) : Heap → List Op → Option Heap
  | h, [] => some h
  | h, op :: ops =>
    match step fixed h op with
    | some h' => run fixed h' ops
    | none => none

/-- `Term.__eq__` as written: `_id` short cut, then the structural comparison, recursing through
the heap (Python's `and` evaluates the second comparison only if the first is true). -/
def eqFast (h : Heap) : Nat → Addr → Addr → Option Bool
  | 0, _, _ => none
  | fuel + 1, a, b =>
    match h a, h b with
    | some oa, some ob =>
      if oa.id = ob.id then some true
      else
        match oa.node, ob.node with
        | .svar n T, .svar m S => some (n == m && T == S)
        | .var n T, .var m S => some (n == m && T == S)
        | .const n T, .const m S => some (n == m && T == S)
        | .comb f x, .comb g y =>
          match eqFast h fuel f g with
          | some true => eqFast h fuel x y
          | r => r
        | .abs _ T c, .abs _ S d => if T == S then eqFast h fuel c d else some false
        | .bound i, .bound j => some (i == j)
        | _, _ => some false
    | _, _ => none

/-- the term an object represents (fuel bounds the recursion through the heap) -/
def readTerm (h : Heap) : Nat → Addr → Option Term
  | 0, _ => none
  | fuel + 1, a =>
    match h a with
    | none => none
    | some o =>
      match o.node with
      | .svar n T => some (.svar n T)
      | .var n T => some (.var n T)
      | .const n T => some (.const n T)
      | .comb f x =>
        match readTerm h fuel f, readTerm h fuel x with
        | some tf, some tx => some (.comb tf tx)
        | _, _ => none
      | .abs n T b =>
        match readTerm h fuel b with
        | some tb => some (.abs n T tb)
        | none => none
      | .bound i => some (.bound i)

/-- the object at `a` represents the term `t` (all objects reachable from `a` are live) -/
inductive Repr (h : Heap) : Addr → Term → Prop where
  | svar {a i n T} : h a = some ⟨.svar n T, i⟩ → Repr h a (.svar n T)
  | var {a i n T} : h a = some ⟨.var n T, i⟩ → Repr h a (.var n T)
  | const {a i n T} : h a = some ⟨.const n T, i⟩ → Repr h a (.const n T)
  | comb {a i f x tf tx} : h a = some ⟨.comb f x, i⟩ → Repr h f tf → Repr h x tx →
      Repr h a (.comb tf tx)
  | abs {a i n T b tb} : h a = some ⟨.abs n T b, i⟩ → Repr h b tb → Repr h a (.abs n T tb)
  | bound {a i k} : h a = some ⟨.bound k, i⟩ → Repr h a (.bound k)

/-- the heap invariant: the `_id` of a live object is its own address -/
def IdInv (h : Heap) : Prop := ∀ a o, h a = some o → o.id = a


/-! ## (d) the memoised hash `_hash_val` and `subst_type_inplace`

`memo a` is the `_hash_val` field of the object at `a` (absent = `none`).  `hash(t)` stores on a
node the hash of the tuple nest of the term the node represents at that moment, unless a value is
already there (`memoise`; Python's `hash(t)` does this for a subset of the nodes reachable from `t`).
`subst_type_inplace` (after fix C03-3: every object once) rewrites the type fields of all objects
reachable from its target and deletes `_hash_val` on each of them (`inplace`; `R` = the objects
visited, closed under children).  `Term(t)` copies the field with the rest of `__dict__`. -/

abbrev Memo := Addr → Option HTree

def Memo.empty : Memo := fun _ => none
def Memo.set (m : Memo) (a : Addr) (v : Option HTree) : Memo := fun x => if x = a then v else m x

/-- the type fields of one node instantiated -/
def substNode (σ : Ty.TyInst) : Node → Node
  | .svar n T => .svar n (T.subst σ)
  | .var n T => .var n (T.subst σ)
  | .const n T => .const n (T.subst σ)
  | .abs x T b => .abs x (T.subst σ) b
  | n => n

/-- objects reachable from `a` through `fun` / `arg` / `body` -/
inductive Reach (h : Heap) : Addr → Addr → Prop where
  | refl (a : Addr) : Reach h a a
  | step {a c x : Addr} {o : Obj} : h a = some o → c ∈ o.node.children → Reach h c x → Reach h a x

/-- depth-first collection of the objects reachable from `a` (fuel bounds the recursion) -/
def reachList (h : Heap) : Nat → Addr → List Addr → List Addr
  | 0, _, acc => acc
  | fuel + 1, a, acc =>
    if acc.contains a then acc
    else match h a with
      | none => acc
      | some o => o.node.children.foldl (fun acc c => reachList h fuel c acc) (a :: acc)

/-- `R` contains, with every live object, its children -/
def ChildClosed (h : Heap) (R : List Addr) : Prop :=
  ∀ x ∈ R, ∀ o, h x = some o → ∀ c ∈ o.node.children, c ∈ R

/-- executable check of `ChildClosed` -/
def childClosed (h : Heap) (R : List Addr) : Bool :=
  R.all fun x => match h x with
    | none => true
    | some o => o.node.children.all (fun c => R.contains c)

/-- the heap after `subst_type_inplace`: every object of `R` rewritten once -/
def inplaceHeap (σ : Ty.TyInst) (R : List Addr) (h : Heap) : Heap :=
  fun x => if R.contains x then (h x).map (fun o => ⟨substNode σ o.node, o.id⟩) else h x

/-- `dropAll = true`: the code (`del self._hash_val` on every visited object).  `false`: the
variant that drops the memo only where a type annotation is rewritten (atoms and abstractions). -/
def inplaceMemo (dropAll : Bool) (R : List Addr) (h : Heap) (m : Memo) : Memo :=
  fun x =>
    if R.contains x then
      if dropAll then none
      else match h x with
        | some ⟨.comb _ _, _⟩ | some ⟨.bound _, _⟩ => m x
        | _ => none
    else m x

/-- `hash` on the object at `a` when it represents `t`: keeps a value that is there -/
def memoise (m : Memo) (a : Addr) (t : Term) : Memo :=
  match m a with
  | some _ => m
  | none => m.set a (some (hashTree t))

/-- what `hash(obj)` returns -/
def hashObs (h : Heap) (m : Memo) (fuel : Nat) (a : Addr) : Option HTree :=
  match m a with
  | some v => some v
  | none => (readTerm h fuel a).map hashTree

/-- no live object refers to `a` (CPython frees an object only then) -/
def Unreferenced (h : Heap) (a : Addr) : Prop := ∀ b o, h b = some o → a ∉ o.node.children

/-- the memo invariant: a stored hash is the hash of the nest of the represented term -/
def MemoInv (h : Heap) (m : Memo) : Prop := ∀ a v, m a = some v → ∃ t, Repr h a t ∧ v = hashTree t

/-- the hypothesis the known finding violates: no memoised object outside the objects rewritten
by `subst_type_inplace` reaches one of them -/
def NoAlias (h : Heap) (m : Memo) (R : List Addr) : Prop :=
  ∀ b, b ∉ R → m b ≠ none → ∀ x, Reach h b x → x ∉ R

/-- `h'` has every object of `h`, unchanged (operations that only allocate) -/
def Ext (h h' : Heap) : Prop := ∀ x o, h x = some o → h' x = some o

/-- legal events of a history with memoised hashes -/
inductive MStep : Heap × Memo → Heap × Memo → Prop where
  | alloc {h h' m a n} : alloc h a n = some h' → MStep (h, m) (h', m)
  | wrap {h h' m a src} : wrap true h a src = some h' → MStep (h, m) (h', m.set a (m src))
  | copy {h m fuel src as r} : copyRec h fuel src as = some r → MStep (h, m) (r.1, m)
  | free {h m a} : Unreferenced h a → MStep (h, m) (h.del a, m.set a none)
  | hash {h m a t} : Repr h a t → MStep (h, m) (h, memoise m a t)
  | inplace {h m σ R} : ChildClosed h R → NoAlias h m R →
      MStep (h, m) (inplaceHeap σ R h, inplaceMemo true R h m)
  /-- any operation that only allocates objects carrying their own address as `_id`
  (`subst_bound`, `subst`, `incr_boundvars`, … : `sbHeap`, `substHeap`, `incrHeap`) -/
  | grow {h h' m} : Ext h h' → (IdInv h → IdInv h') → MStep (h, m) (h', m)

inductive MSteps : Heap × Memo → Heap × Memo → Prop where
  | nil (s) : MSteps s s
  | cons {s1 s2 s3} : MStep s1 s2 → MSteps s2 s3 → MSteps s1 s3


/-! ## (e) the `_id`-keyed cache of `subst_bound`

`Abs(x, T, body).subst_bound(t)` for a CLOSED argument `t` (`t.is_open()` false: `t` itself is put
at the occurrences of the bound variable), run on the heap as written: `rec(s, n)` returns atoms
unchanged, replaces `Bound n` by the object `t`, allocates `Bound(i-1)` for `i > n`, and for `Comb` /
`Abs` nodes first consults `cache[(s._id, n)]`, then recurses, re-uses `s` when the children came
back identical (`fun_s._id == s.fun._id and …`), else allocates a new node, and stores the result
under `(s._id, n)`.  `keyDepth = false` is the variant whose key forgets the binder depth `n`.  (`sbHeap` itself is
defined in section (f), after `incr_boundvars`, which the open-argument case needs.) -/

abbrev Cache := List ((Addr × Nat) × Addr)

def sameId (h : Heap) (a b : Addr) : Bool :=
  match h a, h b with
  | some oa, some ob => oa.id == ob.id
  | _, _ => false

def allocNext (h : Heap) (c : Cache) (as : List Addr) (n : Node) : Option (Heap × Cache × List Addr × Addr) :=
  match as with
  | [] => none
  | a :: rest => (alloc h a n).map (fun h' => (h', c, rest, a))

/-! ## (f) `incr_boundvars` on the heap, the open-argument case of `subst_bound`, the cache of `subst`

`t.incr_boundvars(inc)` is `rec(t, lev)` with the `_id`-based re-use of unchanged nodes (no cache);
a loose `Bound(i)` becomes a NEW object `Bound(i + inc)`.  `subst_bound` calls it (`opn`: the
argument `t.is_open()`) at every occurrence of the bound variable, with `inc` = the binder depth.
`Term.subst`'s `rec` caches the result of every `Comb` / `Abs` node under `t._id` alone: the result
does not depend on the binder depth because instances are closed. -/

def allocN (h : Heap) (as : List Addr) (n : Node) : Option (Heap × List Addr × Addr) :=
  match as with
  | [] => none
  | a :: rest => (alloc h a n).map (fun h' => (h', rest, a))

def incrHeap (inc : Nat) : Nat → Heap → List Addr → Addr → Nat → Option (Heap × List Addr × Addr)
  | 0, _, _, _, _ => none
  | fuel + 1, h, as, s, lev =>
    match h s with
    | none => none
    | some o =>
      match o.node with
      | .svar _ _ => some (h, as, s)
      | .var _ _ => some (h, as, s)
      | .const _ _ => some (h, as, s)
      | .bound i => if i ≥ lev then allocN h as (.bound (i + inc)) else some (h, as, s)
      | .comb f x =>
        match incrHeap inc fuel h as f lev with
        | none => none
        | some (h1, as1, f') =>
          match incrHeap inc fuel h1 as1 x lev with
          | none => none
          | some (h2, as2, x') =>
            if sameId h2 f' f && sameId h2 x' x then some (h2, as2, s)
            else allocN h2 as2 (.comb f' x')
      | .abs nm T b =>
        match incrHeap inc fuel h as b (lev + 1) with
        | none => none
        | some (h1, as1, b') =>
          if sameId h1 b' b then some (h1, as1, s) else allocN h1 as1 (.abs nm T b')

/-- `subst_bound` in general: `opn` is `t.is_open()` (computed once by the code); when it is true
the occurrence of the bound variable at depth `n` gets `t.incr_boundvars(n)`, a fresh copy of the
spine of `t` with its loose bound variables shifted (`ifuel` bounds that recursion). -/
def sbHeap (keyDepth opn : Bool) (ifuel : Nat) (ua : Addr) :
    Nat → Heap → Cache → List Addr → Addr → Nat → Option (Heap × Cache × List Addr × Addr)
  | 0, _, _, _, _, _ => none
  | fuel + 1, h, c, as, s, n =>
    match h s with
    | none => none
    | some o =>
      match o.node with
      | .svar _ _ => some (h, c, as, s)
      | .var _ _ => some (h, c, as, s)
      | .const _ _ => some (h, c, as, s)
      | .bound i =>
        if i = n then
          if opn then (incrHeap n ifuel h as ua 0).map (fun r => (r.1, c, r.2.1, r.2.2))
          else some (h, c, as, ua)
        else if i > n then allocNext h c as (.bound (i - 1))
        else some (h, c, as, s)
      | .comb f x =>
        let key := (o.id, if keyDepth then n else 0)
        match c.lookup key with
        | some r => some (h, c, as, r)
        | none =>
          match sbHeap keyDepth opn ifuel ua fuel h c as f n with
          | none => none
          | some (h1, c1, as1, f') =>
            match sbHeap keyDepth opn ifuel ua fuel h1 c1 as1 x n with
            | none => none
            | some (h2, c2, as2, x') =>
              if sameId h2 f' f && sameId h2 x' x then some (h2, (key, s) :: c2, as2, s)
              else
                match allocNext h2 c2 as2 (.comb f' x') with
                | none => none
                | some (h3, c3, as3, a) => some (h3, (key, a) :: c3, as3, a)
      | .abs nm T b =>
        let key := (o.id, if keyDepth then n else 0)
        match c.lookup key with
        | some r => some (h, c, as, r)
        | none =>
          match sbHeap keyDepth opn ifuel ua fuel h c as b (n + 1) with
          | none => none
          | some (h1, c1, as1, b') =>
            if sameId h1 b' b then some (h1, (key, s) :: c1, as1, s)
            else
              match allocNext h1 c1 as1 (.abs nm T b') with
              | none => none
              | some (h2, c2, as2, a) => some (h2, (key, a) :: c2, as2, a)

/-- cache of `Term.subst`: `_id` of the node ↦ result -/
abbrev Cache1 := List (Addr × Addr)

/-- an instantiation on the heap: name ↦ (the instance object, the term it represents — the code
type-checks `var_inst` entries by walking the object) -/
abbrev InstH := List (String × Addr × Term)

def instTerms (l : InstH) : List (String × Term) := l.map (fun p => (p.1, p.2.2))

/-- `rec` of `Term.subst` on the heap (`none` also stands for the TermException of an ill-typed
`var_inst` entry) -/
def substHeap (sv vv : InstH) :
    Nat → Heap → Cache1 → List Addr → Addr → Option (Heap × Cache1 × List Addr × Addr)
  | 0, _, _, _, _ => none
  | fuel + 1, h, c, as, s =>
    match h s with
    | none => none
    | some o =>
      match o.node with
      | .svar n _ =>
        match sv.lookup n with
        | some (a, _) => some (h, c, as, a)
        | none => some (h, c, as, s)
      | .var n T =>
        match vv.lookup n with
        | some (a, t) =>
          match Term.checkedGetType [] t with
          | .ok T' => if T' != T then none else some (h, c, as, a)
          | .error _ => none
        | none => some (h, c, as, s)
      | .const _ _ => some (h, c, as, s)
      | .bound _ => some (h, c, as, s)
      | .comb f x =>
        match c.lookup o.id with
        | some r => some (h, c, as, r)
        | none =>
          match substHeap sv vv fuel h c as f with
          | none => none
          | some (h1, c1, as1, f') =>
            match substHeap sv vv fuel h1 c1 as1 x with
            | none => none
            | some (h2, c2, as2, x') =>
              if sameId h2 f' f && sameId h2 x' x then some (h2, (o.id, s) :: c2, as2, s)
              else
                match allocN h2 as2 (.comb f' x') with
                | none => none
                | some (h3, as3, a) => some (h3, (o.id, a) :: c2, as3, a)
      | .abs nm T b =>
        match c.lookup o.id with
        | some r => some (h, c, as, r)
        | none =>
          match substHeap sv vv fuel h c as b with
          | none => none
          | some (h1, c1, as1, b') =>
            if sameId h1 b' b then some (h1, (o.id, s) :: c1, as1, s)
            else
              match allocN h1 as1 (.abs nm T b') with
              | none => none
              | some (h2, as2, a) => some (h2, (o.id, a) :: c1, as2, a)

end Holpy.C03
