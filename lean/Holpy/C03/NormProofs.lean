import Holpy.Kernel.SemBound
import Holpy.C03.SubstProofs
import Holpy.C03.Model
/-
C03 — termination of `beta_norm` on well-typed terms.

The strategy of `Term.beta_norm` is: normalise `fun` and `arg`; if the normalised function is an
abstraction `%x::T. c`, substitute the normalised argument for the bound variable and normalise the
result again.  Both `c` and the argument are beta-normal at that point, so the recursive call is a
hereditary substitution: new redexes arise only where the bound variable is the head of an
application, and the type of the abstraction that appears there is a proper part of `T`.  The proof is
the classical one: induction on the size of the type of the substituted variable, inside it induction
on the normal body (`hsubst`); then induction on the term (`betaNorm_terminates_aux`).
-/
namespace Holpy.C03
open Holpy

def isAbs : Term → Bool
  | .abs _ _ _ => true
  | _ => false

theorem tySize_pos (A : Ty) : 1 ≤ tySize A := by
  cases A <;> simp only [tySize] <;> omega

/-- the lax accessors `domain_type` / `range_type` of a type that `is_fun` return proper parts -/
theorem tySize_dom_ran (tf d r : Ty) (hd : tf.domain? = some d) (hr : tf.range? = some r) :
    tySize d < tySize tf ∧ tySize r < tySize tf := by
  unfold Ty.range? at hr
  split at hr
  · rename_i a b rest
    simp only [Ty.domain?, Option.some.injEq] at hd hr
    subst hd hr
    simp only [tySize, tySizeList]
    omega
  · cases hr

/-- `beta_norm` preserves the checked type (no model needed) -/
theorem checked_betaNorm (fuel : Nat) (bd : List Ty) (t t' : Term) (S : Ty)
    (h : Term.checkedGetType bd t = .ok S) (hn : Term.betaNorm fuel t = .ok t') :
    Term.checkedGetType bd t' = .ok S := by
  induction fuel generalizing bd t t' S with
  | zero => simp [Term.betaNorm] at hn
  | succ fuel ih =>
    cases t with
    | svar n T => simp only [Term.betaNorm, Except.ok.injEq] at hn; subst hn; exact h
    | var n T => simp only [Term.betaNorm, Except.ok.injEq] at hn; subst hn; exact h
    | const n T => simp only [Term.betaNorm, Except.ok.injEq] at hn; subst hn; exact h
    | bound i => simp only [Term.betaNorm, Except.ok.injEq] at hn; subst hn; exact h
    | abs x T b =>
      simp only [Term.betaNorm, bind, Except.bind] at hn
      cases hb : Term.betaNorm fuel b with
      | error e => simp [hb] at hn
      | ok b' =>
        simp only [hb, Except.ok.injEq] at hn
        subst hn
        obtain ⟨tb, hcb, rfl⟩ := Term.checked_abs_inv bd x T b S h
        have hty : Term.checkedGetType (T :: bd) b' = .ok tb := ih _ b b' tb hcb hb
        simp only [Term.checkedGetType, hty, bind, Except.bind]
    | comb f a =>
      simp only [Term.betaNorm, bind, Except.bind] at hn
      obtain ⟨tf, ta, hcf, hca, _, _, _⟩ := Term.checked_comb_inv bd f a S h
      cases hf : Term.betaNorm fuel f with
      | error e => simp [hf] at hn
      | ok f' =>
        cases ha : Term.betaNorm fuel a with
        | error e => simp [hf, ha] at hn
        | ok a' =>
          simp only [hf, ha] at hn
          have hf1 := ih bd f f' tf hcf hf
          have ha1 := ih bd a a' ta hca ha
          have hc : Term.checkedGetType bd (.comb f' a') = .ok S := by
            rw [Term.checked_comb_congr bd f f' a a' (hf1.trans hcf.symm) (ha1.trans hca.symm), h]
          split at hn
          · rename_i x T b
            simp only [Term.betaConv, Term.substBound] at hn
            exact ih bd _ t' S (checked_beta bd x T S b a' hc) hn
          · simp only [Except.ok.injEq] at hn
            subst hn
            exact hc

theorem betaNormal_comb_inv (f a : Term) (h : betaNormal (.comb f a) = true) :
    betaNormal f = true ∧ betaNormal a = true ∧ isAbs f = false := by
  cases f <;> simp_all [betaNormal, isAbs]

theorem isAbs_incrAt (inc lev : Nat) (t : Term) : isAbs (Term.incrAt inc lev t) = isAbs t := by
  cases t with
  | bound i => by_cases h : i ≥ lev <;> simp [Term.incrAt, isAbs, h]
  | _ => simp only [Term.incrAt, isAbs]

theorem betaNormal_of_parts (f a : Term) (hf : betaNormal f = true) (ha : betaNormal a = true)
    (hna : isAbs f = false) : betaNormal (.comb f a) = true := by
  cases f <;> simp_all [betaNormal, isAbs]

/-- shifting loose bound variables keeps a term beta-normal -/
theorem betaNormal_incrAt (inc lev : Nat) (t : Term) (h : betaNormal t = true) :
    betaNormal (Term.incrAt inc lev t) = true := by
  induction t generalizing lev with
  | svar n T => rfl
  | var n T => rfl
  | const n T => rfl
  | bound i => simp only [Term.incrAt]; split <;> rfl
  | abs x T b ih =>
    simp only [Term.incrAt, betaNormal] at h ⊢
    exact ih _ h
  | comb f a ihf iha =>
    obtain ⟨hf, ha, hna⟩ := betaNormal_comb_inv f a h
    simp only [Term.incrAt]
    exact betaNormal_of_parts _ _ (ihf lev hf) (iha lev ha) (by rw [isAbs_incrAt]; exact hna)

/-- on a beta-normal term `beta_norm` returns (the term itself) -/
theorem betaNorm_of_normal (t : Term) (h : betaNormal t = true) :
    ∃ fuel, Term.betaNorm fuel t = .ok t := by
  induction t with
  | svar n T => exact ⟨1, rfl⟩
  | var n T => exact ⟨1, rfl⟩
  | const n T => exact ⟨1, rfl⟩
  | bound i => exact ⟨1, rfl⟩
  | abs x T b ih =>
    obtain ⟨fuel, hb⟩ := ih (by simpa only [betaNormal] using h)
    exact ⟨fuel + 1, by simp only [Term.betaNorm, bind, Except.bind, hb]⟩
  | comb f a ihf iha =>
    obtain ⟨hf, ha, hna⟩ := betaNormal_comb_inv f a h
    obtain ⟨fuel1, h1⟩ := ihf hf
    obtain ⟨fuel2, h2⟩ := iha ha
    refine ⟨max fuel1 fuel2 + 1, ?_⟩
    simp only [Term.betaNorm, bind, Except.bind,
      betaNorm_mono _ _ _ _ h1 (Nat.le_max_left fuel1 fuel2),
      betaNorm_mono _ _ _ _ h2 (Nat.le_max_right fuel1 fuel2)]
    cases f <;> simp_all [isAbs]

theorem betaNorm_comb_nonabs (fuel : Nat) (f a rf ra : Term)
    (hf : Term.betaNorm fuel f = .ok rf) (ha : Term.betaNorm fuel a = .ok ra)
    (h : isAbs rf = false) : Term.betaNorm (fuel + 1) (.comb f a) = .ok (.comb rf ra) := by
  simp only [Term.betaNorm, bind, Except.bind, hf, ha]
  cases rf <;> simp_all [isAbs]

theorem betaNorm_comb_abs (fuel : Nat) (f a ra r : Term) (y : String) (T : Ty) (c : Term)
    (hf : Term.betaNorm fuel f = .ok (.abs y T c)) (ha : Term.betaNorm fuel a = .ok ra)
    (hr : Term.betaNorm fuel (Term.substBoundAt ra 0 c) = .ok r) :
    Term.betaNorm (fuel + 1) (.comb f a) = .ok r := by
  simp only [Term.betaNorm, bind, Except.bind, hf, ha, Term.betaConv, Term.substBound, hr]

theorem isAbs_inv (t : Term) (h : isAbs t = true) : ∃ y T c, t = .abs y T c := by
  cases t <;> simp_all [isAbs]

/-- hereditary substitution terminates: a beta-normal body with a beta-normal argument put for the
bound variable at depth `lo.length` is normalised by `beta_norm`; and if the body is not an
abstraction but the result is, the type of the body is no larger than that of the variable -/
theorem hsubst (n : Nat) : ∀ (A : Ty), tySize A ≤ n → ∀ (b : Term), betaNormal b = true →
    ∀ (lo hi : List Ty) (a : Term) (S : Ty),
    Term.checkedGetType (lo ++ A :: hi) b = .ok S → Term.checkedGetType hi a = .ok A →
    betaNormal a = true →
    ∃ fuel r, Term.betaNorm fuel (Term.substBoundAt a lo.length b) = .ok r ∧
      (isAbs b = false → isAbs r = true → tySize S ≤ tySize A) := by
  induction n with
  | zero => intro A hA; have := tySize_pos A; omega
  | succ n ihn =>
    intro A hA b
    induction b with
    | svar m T => intro _ lo hi a S _ _ _; exact ⟨1, .svar m T, rfl, by simp [isAbs]⟩
    | var m T => intro _ lo hi a S _ _ _; exact ⟨1, .var m T, rfl, by simp [isAbs]⟩
    | const m T => intro _ lo hi a S _ _ _; exact ⟨1, .const m T, rfl, by simp [isAbs]⟩
    | bound i =>
      intro _ lo hi a S hb ha hna
      simp only [Term.substBoundAt]
      split
      · rename_i hi'
        have h' : i = lo.length := by simpa using hi'
        subst h'
        obtain ⟨fuel, hf⟩ := betaNorm_of_normal (Term.incrBoundvars lo.length a)
          (betaNormal_incrAt _ _ _ hna)
        refine ⟨fuel, _, hf, ?_⟩
        intro _ _
        simp only [Term.checkedGetType, getElem?_mid, Except.ok.injEq] at hb
        subst hb
        exact Nat.le_refl _
      · split
        · exact ⟨1, _, rfl, by simp [isAbs]⟩
        · exact ⟨1, _, rfl, by simp [isAbs]⟩
    | abs x T b0 ih =>
      intro hn lo hi a S hb ha hna
      have hn0 : betaNormal b0 = true := by simpa only [betaNormal] using hn
      obtain ⟨tb, hcb, rfl⟩ := Term.checked_abs_inv _ x T b0 S hb
      obtain ⟨fuel, r, hr, _⟩ := ih hn0 (T :: lo) hi a tb hcb ha hna
      refine ⟨fuel + 1, .abs x T r, ?_, by simp [isAbs]⟩
      simp only [List.length_cons] at hr
      simp only [Term.substBoundAt, Term.betaNorm, bind, Except.bind, hr]
    | comb f x ihf ihx =>
      intro hn lo hi a S hb ha hna
      obtain ⟨hnf, hnx, hfa⟩ := betaNormal_comb_inv f x hn
      obtain ⟨tf, tx, hcf, hcx, _, hdom, hran⟩ := Term.checked_comb_inv _ f x S hb
      obtain ⟨fuel1, rf, hrf, hsz⟩ := ihf hnf lo hi a tf hcf ha hna
      obtain ⟨fuel2, rx, hrx, _⟩ := ihx hnx lo hi a tx hcx ha hna
      have htf : Term.checkedGetType (lo ++ hi) rf = .ok tf :=
        checked_betaNorm _ _ _ _ _ (Term.checkedGetType_substBoundAt lo hi A tf a f ha hcf) hrf
      have htx : Term.checkedGetType (lo ++ hi) rx = .ok tx :=
        checked_betaNorm _ _ _ _ _ (Term.checkedGetType_substBoundAt lo hi A tx a x ha hcx) hrx
      have hnrf := betaNorm_normal _ _ _ hrf
      have hnrx := betaNorm_normal _ _ _ hrx
      cases hab : isAbs rf with
      | true =>
        obtain ⟨y, T, c, rfl⟩ := isAbs_inv rf hab
        have hle : tySize tf ≤ tySize A := hsz hfa rfl
        obtain ⟨tb, hcc, rfl⟩ := Term.checked_abs_inv _ y T c tf htf
        simp only [Ty.fn, Ty.domain?, Ty.range?, Option.some.injEq] at hdom hran
        subst hdom hran
        have hlt : tySize T < tySize (Ty.fn T tb) ∧ tySize tb < tySize (Ty.fn T tb) :=
          tySize_dom_ran (Ty.fn T tb) T tb rfl rfl
        have hnc : betaNormal c = true := by simpa only [betaNormal] using hnrf
        obtain ⟨fuel3, r, hr, _⟩ := ihn T (by omega) c hnc [] (lo ++ hi) rx tb hcc htx hnrx
        simp only [List.length_nil] at hr
        refine ⟨max (max fuel1 fuel2) fuel3 + 1, r, ?_, fun _ _ => by omega⟩
        simp only [Term.substBoundAt]
        exact betaNorm_comb_abs _ _ _ rx r y T c
          (betaNorm_mono _ (max (max fuel1 fuel2) fuel3) _ _ hrf (by omega))
          (betaNorm_mono _ (max (max fuel1 fuel2) fuel3) _ _ hrx (by omega))
          (betaNorm_mono _ (max (max fuel1 fuel2) fuel3) _ _ hr (by omega))
      | false =>
        refine ⟨max fuel1 fuel2 + 1, .comb rf rx, ?_, by simp [isAbs]⟩
        simp only [Term.substBoundAt]
        exact betaNorm_comb_nonabs _ _ _ rf rx
          (betaNorm_mono _ (max fuel1 fuel2) _ _ hrf (by omega))
          (betaNorm_mono _ (max fuel1 fuel2) _ _ hrx (by omega)) hab

/-- `beta_norm` returns on every well-typed term (under any binder context) -/
theorem betaNorm_terminates_aux (t : Term) : ∀ (bd : List Ty) (S : Ty),
    Term.checkedGetType bd t = .ok S → ∃ fuel r, Term.betaNorm fuel t = .ok r := by
  induction t with
  | svar n T => intro _ _ _; exact ⟨1, _, rfl⟩
  | var n T => intro _ _ _; exact ⟨1, _, rfl⟩
  | const n T => intro _ _ _; exact ⟨1, _, rfl⟩
  | bound i => intro _ _ _; exact ⟨1, _, rfl⟩
  | abs x T b ih =>
    intro bd S h
    obtain ⟨tb, hcb, rfl⟩ := Term.checked_abs_inv bd x T b S h
    obtain ⟨fuel, r, hr⟩ := ih _ _ hcb
    exact ⟨fuel + 1, .abs x T r, by simp only [Term.betaNorm, bind, Except.bind, hr]⟩
  | comb f a ihf iha =>
    intro bd S h
    obtain ⟨tf, ta, hcf, hca, _, hdom, hran⟩ := Term.checked_comb_inv bd f a S h
    obtain ⟨fuel1, rf, hrf⟩ := ihf _ _ hcf
    obtain ⟨fuel2, ra, hra⟩ := iha _ _ hca
    have htf := checked_betaNorm _ _ _ _ _ hcf hrf
    have hta := checked_betaNorm _ _ _ _ _ hca hra
    have hnrf := betaNorm_normal _ _ _ hrf
    have hnra := betaNorm_normal _ _ _ hra
    cases hab : isAbs rf with
    | true =>
      obtain ⟨y, T, c, rfl⟩ := isAbs_inv rf hab
      obtain ⟨tb, hcc, rfl⟩ := Term.checked_abs_inv _ y T c tf htf
      simp only [Ty.fn, Ty.domain?, Ty.range?, Option.some.injEq] at hdom hran
      subst hdom hran
      have hnc : betaNormal c = true := by simpa only [betaNormal] using hnrf
      obtain ⟨fuel3, r, hr, _⟩ :=
        hsubst (tySize T) T (Nat.le_refl _) c hnc [] bd ra tb hcc hta hnra
      simp only [List.length_nil] at hr
      exact ⟨max (max fuel1 fuel2) fuel3 + 1, r, betaNorm_comb_abs _ _ _ ra r y T c
        (betaNorm_mono _ (max (max fuel1 fuel2) fuel3) _ _ hrf (by omega))
        (betaNorm_mono _ (max (max fuel1 fuel2) fuel3) _ _ hra (by omega))
        (betaNorm_mono _ (max (max fuel1 fuel2) fuel3) _ _ hr (by omega))⟩
    | false =>
      exact ⟨max fuel1 fuel2 + 1, .comb rf ra, betaNorm_comb_nonabs _ _ _ rf ra
        (betaNorm_mono _ (max fuel1 fuel2) _ _ hrf (by omega))
        (betaNorm_mono _ (max fuel1 fuel2) _ _ hra (by omega)) hab⟩

end Holpy.C03
