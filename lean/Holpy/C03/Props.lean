import Holpy.Kernel.SemSubst
import Holpy.C03.Model
/-
C03 — term equality is alpha-equivalence; substitution is capture-free.  (first instalment)
-/
namespace Holpy.C03
open Holpy

/-- The structural branch of `Term.__eq__` answers True exactly when the two terms are identical
after erasing the suggested names of bound variables — all type annotations (of variables,
constants and binders) included. -/
theorem eq_iff_alpha (a b : Term) : Term.aeq a b = true ↔ Term.erase a = Term.erase b :=
  Term.aeq_iff_erase a b

example : Term.aeq (.abs "x" Ty.bool (.bound 0)) (.abs "y" Ty.bool (.bound 0)) = true ∧
    Term.aeq (.abs "x" Ty.bool (.bound 0)) (.abs "x" (.tvar "a") (.bound 0)) = false := by decide

end Holpy.C03
