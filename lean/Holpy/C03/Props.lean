import Holpy.Kernel.SemSubst
import Holpy.Kernel.SemBound
import Holpy.Kernel.SemVar
import Holpy.C03.OrdProofs
import Holpy.C03.HashProofs
import Holpy.C03.HeapProofs
import Holpy.C03.SubstProofs
import Holpy.C03.MemoProofs
import Holpy.C03.CacheProofs
import Holpy.C03.FProofs
import Holpy.C03.NormProofs
/-
C03 — term equality is alpha-equivalence; substitution is capture-free.

`Term`, `Ty`, `aeq`, `substType`, `subst`, `substBound`, `abstractOver`/`mkLambda`, `betaConv`,
`betaNorm`, `checkedGetType`, `sem` are the shared kernel model (Holpy/Kernel); `hashTree`,
`fastCompare`, the heap with `_id` fields are Holpy/C03/Model.lean.  "Standard model" = finite
standard model `M` with an admissible valuation `ρ` (every size assignment ≥ 1 to type variables and
type constructors; every interpretation of variables, schematic variables and non-logical constants).
-/
namespace Holpy.C03
open Holpy

/-! ### equality -/

/-- The structural branch of `Term.__eq__` answers True exactly when the two terms are identical
after erasing the suggested names of bound variables — all type annotations (of variables,
constants and binders) included. -/
theorem eq_iff_alpha (a b : Term) : Term.aeq a b = true ↔ Term.erase a = Term.erase b :=
  Term.aeq_iff_erase a b

example : Term.aeq (.abs "x" Ty.bool (.bound 0)) (.abs "y" Ty.bool (.bound 0)) = true ∧
    Term.aeq (.abs "x" Ty.bool (.bound 0)) (.abs "x" (.tvar "a") (.bound 0)) = false := by decide

/-- `==` on terms is an equivalence relation. -/
theorem eq_equiv : (∀ a, Term.aeq a a = true) ∧ (∀ a b, Term.aeq a b = true → Term.aeq b a = true) ∧
    (∀ a b c, Term.aeq a b = true → Term.aeq b c = true → Term.aeq a c = true) :=
  ⟨Term.aeq_refl, Term.aeq_symm, Term.aeq_trans⟩

example : Term.aeq (.comb (.abs "x" Ty.bool (.bound 0)) (.var "x" Ty.bool))
    (.comb (.abs "z" Ty.bool (.bound 0)) (.var "x" Ty.bool)) = true := by decide

/-! ### hashes -/

/-- Equal terms are hashed through equal tuple nests (hence have equal Python hashes): the nest
`__hash__` builds — with its CONJ / DISJ / LET special forms — does not contain bound names. -/
theorem hash_congr (a b : Term) (h : Term.aeq a b = true) : hashTree a = hashTree b :=
  hashTree_congr a b h

example : hashTree (.comb (.comb (.const "conj" (Ty.fn Ty.bool (Ty.fn Ty.bool Ty.bool)))
      (.comb (.const "all" (Ty.fn (Ty.fn Ty.bool Ty.bool) Ty.bool)) (.abs "x" Ty.bool (.bound 0))))
      (.var "B" Ty.bool))
    = hashTree (.comb (.comb (.const "conj" (Ty.fn Ty.bool (Ty.fn Ty.bool Ty.bool)))
      (.comb (.const "all" (Ty.fn (Ty.fn Ty.bool Ty.bool) Ty.bool)) (.abs "y" Ty.bool (.bound 0))))
      (.var "B" Ty.bool)) :=
  hash_congr _ _ (by decide)

/-- Equal types are hashed through equal tuple nests (hence have equal Python hashes) — the
direction `→`, which is what the property asks.  The converse `←` is injectivity of the MODEL's
nest (different types give different nests); it says nothing about Python's `hash`, which may
collide, and nothing in the check relies on it. -/
theorem ty_hash_congr (a b : Ty) : a = b ↔ tyHash a = tyHash b :=
  ⟨fun h => h ▸ rfl, tyHash_inj a b⟩

example : tyHash (Ty.fn (.tvar "a") Ty.bool) ≠ tyHash (Ty.fn (.stvar "a") Ty.bool) := by
  intro h
  exact absurd ((ty_hash_congr _ _).2 h) (by decide)

/-- The iterative computation over a right-nested chain of conjunctions (disjunctions) — last
element first, then `("CONJ", arg1, rest)` from the inside out — stores on every node of the chain
the hash of the same nest as the recursive definition. -/
theorem hash_chain (t : Term) :
    hashTree t = hashChain "CONJ" (stripRight "conj" t).1 (stripRight "conj" t).2 ∧
    hashTree t = hashChain "DISJ" (stripRight "disj" t).1 (stripRight "disj" t).2 :=
  ⟨hashTree_chain "CONJ" "conj" (Or.inl ⟨rfl, rfl⟩) t, hashTree_chain "DISJ" "disj" (Or.inr ⟨rfl, rfl⟩) t⟩

example : (stripRight "conj" (.comb (.comb (.const "conj" Ty.bool) (.var "A" Ty.bool))
    (.comb (.comb (.const "conj" Ty.bool) (.var "B" Ty.bool)) (.var "C" Ty.bool)))).1.length = 2 := by
  decide

/-! ### the ordering -/

/-- `fast_compare` is a total order on terms modulo `==`: it answers 0 exactly on equal terms, is
antisymmetric (`cmp b a` is the mirror image of `cmp a b`, so any two terms are comparable) and
transitive (for `<` and for `≤`). -/
theorem cmp_total (a b c : Term) :
    (fastCompare a b = .eq ↔ Term.aeq a b = true) ∧
    fastCompare b a = (fastCompare a b).swap ∧
    (fastCompare a b = .lt → fastCompare b c = .lt → fastCompare a c = .lt) ∧
    (fastCompare a b ≠ .gt → fastCompare b c ≠ .gt → fastCompare a c ≠ .gt) := by
  refine ⟨cmp_eq a b, (cmp_swap a b).symm, (cmp_tt a b c).1, ?_⟩
  obtain ⟨h1, h2, h3, h4⟩ := cmp_tt a b c
  intro hab hbc
  cases e1 : fastCompare a b <;> cases e2 : fastCompare b c <;> simp_all

example : fastCompare (.abs "x" Ty.bool (.bound 0)) (.abs "y" Ty.bool (.bound 0)) = .eq ∧
    fastCompare (.var "b" Ty.bool) (.var "a" (Ty.fn Ty.bool Ty.bool)) = .gt ∧
    fastCompare (.var "b" Ty.bool) (.comb (.var "a" Ty.bool) (.var "a" Ty.bool)) = .lt := by decide

/-- Transitivity of `fast_compare` in all four combinations of `<` and `=` (with `cmp_antisymm`: a
strict total order on terms up to `==`; what `sorted` / `cmp_to_key` need for a canonical result). -/
theorem cmp_trans (a b c : Term) :
    (fastCompare a b = .lt → fastCompare b c = .lt → fastCompare a c = .lt) ∧
    (fastCompare a b = .lt → fastCompare b c = .eq → fastCompare a c = .lt) ∧
    (fastCompare a b = .eq → fastCompare b c = .lt → fastCompare a c = .lt) ∧
    (fastCompare a b = .eq → fastCompare b c = .eq → fastCompare a c = .eq) :=
  cmp_tt a b c

example : fastCompare (.var "a" Ty.bool) (.var "b" Ty.bool) = .lt ∧
    fastCompare (.var "b" Ty.bool) (.abs "x" Ty.bool (.bound 0)) = .lt ∧
    fastCompare (.var "a" Ty.bool) (.abs "x" Ty.bool (.bound 0)) = .lt := by decide

/-- Antisymmetry and consistency with `==`: `a < b` iff `b > a`; two terms neither of which is
greater than the other are `==`; and `fast_compare` gives the same answer on `==` terms (so the
order is an order on alpha-classes and sorting cannot separate or reorder equal terms inconsistently). -/
theorem cmp_antisymm (a b : Term) :
    (fastCompare a b = .lt ↔ fastCompare b a = .gt) ∧
    (fastCompare a b = .gt ↔ fastCompare b a = .lt) ∧
    (fastCompare a b ≠ .gt → fastCompare b a ≠ .gt → Term.aeq a b = true) ∧
    (∀ a', Term.aeq a a' = true →
      fastCompare a b = fastCompare a' b ∧ fastCompare b a = fastCompare b a') := by
  have hs := cmp_swap a b
  refine ⟨?_, ?_, ?_, fun a' h => ⟨cmp_congr_left a a' b h, cmp_congr_right b a a' h⟩⟩
  · rw [← hs]; cases fastCompare a b <;> simp [Ordering.swap]
  · rw [← hs]; cases fastCompare a b <;> simp [Ordering.swap]
  · intro h1 h2
    rw [← hs] at h2
    apply (cmp_eq a b).1
    cases e : fastCompare a b <;> simp_all [Ordering.swap]

example : fastCompare (.abs "x" Ty.bool (.var "b" Ty.bool)) (.abs "y" Ty.bool (.var "a" Ty.bool)) = .gt ∧
    fastCompare (.abs "y" Ty.bool (.var "a" Ty.bool)) (.abs "x" Ty.bool (.var "b" Ty.bool)) = .lt := by decide

/-- Canonical form of sorting: what `sorted_terms` returns — a list strictly increasing w.r.t.
`fast_compare` — is determined, up to `==` position by position, by the set of its elements up to
`==`; it cannot depend on the order or the identity of the input objects.  (A consequence of
`cmp_trans` / `cmp_antisymm`; with an inconsistent comparator it fails.) -/
theorem sorted_canonical (l1 l2 : List Term) (s1 : StrictSorted l1) (s2 : StrictSorted l2)
    (h12 : ∀ a ∈ l1, ∃ b ∈ l2, Term.aeq a b = true) (h21 : ∀ b ∈ l2, ∃ a ∈ l1, Term.aeq a b = true) :
    Forall2 (fun a b => Term.aeq a b = true) l1 l2 :=
  strictSorted_unique l1 l2 s1 s2 h12 h21

example : StrictSorted [.var "a" Ty.bool, .var "b" Ty.bool, .abs "x" Ty.bool (.bound 0)] := by
  simp only [StrictSorted, List.pairwise_cons, List.mem_cons, List.not_mem_nil, or_false,
    forall_eq_or_imp, forall_eq, List.Pairwise.nil, and_true, false_implies, implies_true]
  decide

/-- `fast_compare_typ` is a total order on types whose equivalence is `==`. -/
theorem cmp_ty_total (a b c : Ty) :
    (fastCompareTyp a b = .eq ↔ a = b) ∧
    fastCompareTyp b a = (fastCompareTyp a b).swap ∧
    (fastCompareTyp a b = .lt → fastCompareTyp b c = .lt → fastCompareTyp a c = .lt) ∧
    (fastCompareTyp a b ≠ .gt → fastCompareTyp b c ≠ .gt → fastCompareTyp a c ≠ .gt) := by
  refine ⟨cmpTy_eq a b, (cmpTy_swap a b).symm, (cmpTy_tt a b c).1, ?_⟩
  obtain ⟨h1, h2, h3, h4⟩ := cmpTy_tt a b c
  intro hab hbc
  cases e1 : fastCompareTyp a b <;> cases e2 : fastCompareTyp b c <;> simp_all

example : fastCompareTyp (.con "list" [.tvar "a"]) (.con "list" [.tvar "a", .tvar "a"]) = .lt ∧
    fastCompareTyp (.tvar "b") (.stvar "c") = .gt := by decide

/-! ### the `_id` fast path -/

/-- For EVERY history of object creation and destruction — constructor calls, `Term(t)`, `copy`,
frees, with the allocator returning any free address it likes — the heap satisfies `IdInv`
(`_id` of a live object = its address); in such a heap equal `_id`s mean the same object, and
`Term.__eq__` as written (`_id` short cut first) answers exactly the structural comparison of
the terms the two objects represent. -/
theorem id_shortcut_sound (ops : List Op) (h : Heap) (hr : run true Heap.empty ops = some h) :
    IdInv h ∧
    (∀ a b oa ob, h a = some oa → h b = some ob → oa.id = ob.id → a = b) ∧
    (∀ a b ta tb fuel, Repr h a ta → Repr h b tb → size ta ≤ fuel →
      eqFast h fuel a b = some (Term.aeq ta tb)) := by
  have hi := run_inv ops Heap.empty h IdInv.empty hr
  exact ⟨hi, fun a b oa ob ha hb e => id_inj hi ha hb e,
    fun a b ta tb fuel ra rb hs => eqFast_sound hi fuel a b ta tb ra rb hs⟩

/-- a history with address reuse: `Var a` at 0, `Term(·)` of it at 1, free 0, `Var b` at 0 -/
def reuseHistory : List Op :=
  [.alloc 0 (.var "a" Ty.bool), .wrap 1 0, .free 0, .alloc 0 (.var "b" Ty.bool)]

example : ∃ h, run true Heap.empty reuseHistory = some h ∧
    eqFast h 2 1 0 = some false ∧ readTerm h 2 1 = some (.var "a" Ty.bool) :=
  ⟨_, rfl, by decide, by decide⟩

/-- the heap the pinned tree reaches after `reuseHistory`: the wrapper at 1 still carries `_id = 0` -/
def staleHeap : Heap :=
  (((Heap.empty.set 0 ⟨.var "a" Ty.bool, 0⟩).set 1 ⟨.var "a" Ty.bool, 0⟩).del 0).set 0 ⟨.var "b" Ty.bool, 0⟩

/-- On the pinned tree (`Term(t)` keeps `t._id`) the same four-step history — every address handed
out is free at that moment — breaks the invariant, and `==` answers True on the object representing
`Var a` against the one representing `Var b`. -/
theorem id_shortcut_counterexample :
    run false Heap.empty reuseHistory = some staleHeap ∧ ¬ IdInv staleHeap ∧
    eqFast staleHeap 2 1 0 = some true ∧
    Repr staleHeap 1 (.var "a" Ty.bool) ∧ Repr staleHeap 0 (.var "b" Ty.bool) ∧
    Term.aeq (.var "a" Ty.bool) (.var "b" Ty.bool) = false :=
  ⟨rfl, fun hi => absurd (hi 1 _ rfl) (by decide), by decide,
    readTerm_repr 2 1 _ (by decide), readTerm_repr 2 0 _ (by decide), by decide⟩

example : (staleHeap 1).map (·.id) = some 0 := by decide



/-! ### the `_id`-keyed cache of `subst_bound` -/

/-- `subst_bound` as written — results cached under `(s._id, binder depth)`, a node re-used when its
children came back with the same `_id`, and, when the argument is open (`opn` = `t.is_open()`),
`t.incr_boundvars(n)` (heap-level, with its own `_id` re-use) at every occurrence of the bound
variable — run in any heap satisfying `IdInv`, with any allocator answers and starting from any
cache whose entries are right (`CacheOK`, e.g. the empty one): the object returned represents
exactly `substBoundAt` (the pure recursion of the kernel model, about which `substBound_wt/sem`
speak) of the term the body represents; the invariant and the cache stay right, nothing existing is
touched.  `opn = false` is only sound for a closed argument (that is what `is_open` returns). -/
theorem substBound_cache_sound (opn : Bool) (ifuel : Nat) (ua : Addr) (tu : Term)
    (hcl : opn = false → Term.isOpenAt 0 tu = false)
    (fuel : Nat) (h : Heap) (c : Cache) (as : List Addr) (s : Addr) (n : Nat) (ts : Term)
    (res : Heap × Cache × List Addr × Addr)
    (hi : IdInv h) (ru : Repr h ua tu) (hc : CacheOK tu h c) (rs : Repr h s ts)
    (e : sbHeap true opn ifuel ua fuel h c as s n = some res) :
    IdInv res.1 ∧ (∀ x o, h x = some o → res.1 x = some o) ∧ CacheOK tu res.1 res.2.1 ∧
    Repr res.1 res.2.2.2 (Term.substBoundAt tu n ts) :=
  sbHeap_sound opn ifuel ua tu hcl fuel h c as s n ts res hi ru hc rs e

/-- `incr_boundvars(inc)` as written (`rec(t, lev)`, unchanged nodes re-used by `_id`, a loose
`Bound(i)` replaced by a new `Bound(i + inc)`) returns a representation of `incrAt inc lev` of the
represented term, in any heap satisfying `IdInv`, for any allocator answers. -/
theorem incr_heap_sound (inc fuel : Nat) (h : Heap) (as : List Addr) (s : Addr) (lev : Nat) (ts : Term)
    (res : Heap × List Addr × Addr) (hi : IdInv h) (rs : Repr h s ts)
    (e : incrHeap inc fuel h as s lev = some res) :
    IdInv res.1 ∧ (∀ x o, h x = some o → res.1 x = some o) ∧
    Repr res.1 res.2.2 (Term.incrAt inc lev ts) :=
  incrHeap_sound inc fuel h as s lev ts res hi rs e

/-- `S = F (Bound 0)` at 2 (ONE object), the body `S (%y. S)` at 4, the closed argument `u` at 5 -/
def cacheHeap : Heap :=
  (((((Heap.empty.set 0 ⟨.var "F" (Ty.fn Ty.bool Ty.bool), 0⟩).set 1 ⟨.bound 0, 1⟩).set 2 ⟨.comb 0 1, 2⟩).set 3
    ⟨.abs "y" Ty.bool 2, 3⟩).set 4 ⟨.comb 2 3, 4⟩).set 5 ⟨.var "u" Ty.bool, 5⟩

def cacheBody : Term :=
  .comb (.comb (.var "F" (Ty.fn Ty.bool Ty.bool)) (.bound 0))
    (.abs "y" Ty.bool (.comb (.var "F" (Ty.fn Ty.bool Ty.bool)) (.bound 0)))

example : (sbHeap true false 0 5 10 cacheHeap [] [10, 11, 12] 4 0).bind (fun r => readTerm r.1 10 r.2.2.2)
    = some (Term.substBoundAt (.var "u" Ty.bool) 0 cacheBody) ∧
    readTerm cacheHeap 10 4 = some cacheBody := by decide

/-- With the cache keyed by `_id` alone the same object `S`, met again under the binder `%y` where
its `Bound 0` is `y`, gets the result computed at depth 0: `(F u) (%y. F u)` instead of
`(F u) (%y. F y)` — the bound variable of the inner binder is replaced by the argument. -/
theorem substBound_cache_counterexample :
    (sbHeap false false 0 5 10 cacheHeap [] [10, 11, 12] 4 0).bind (fun r => readTerm r.1 10 r.2.2.2)
      = some (.comb (.comb (.var "F" (Ty.fn Ty.bool Ty.bool)) (.var "u" Ty.bool))
          (.abs "y" Ty.bool (.comb (.var "F" (Ty.fn Ty.bool Ty.bool)) (.var "u" Ty.bool)))) ∧
    Term.substBoundAt (.var "u" Ty.bool) 0 cacheBody
      = .comb (.comb (.var "F" (Ty.fn Ty.bool Ty.bool)) (.var "u" Ty.bool))
          (.abs "y" Ty.bool (.comb (.var "F" (Ty.fn Ty.bool Ty.bool)) (.bound 0))) := by decide

/-- an OPEN argument `g (Bound 0)` at 7 (6 = `g`, 1 = `Bound 0`): under `%y` it must become
`g (Bound 1)` -/
def openHeap : Heap := (cacheHeap.set 6 ⟨.var "g" (Ty.fn Ty.bool Ty.bool), 6⟩).set 7 ⟨.comb 6 1, 7⟩

example : (sbHeap true true 10 7 10 openHeap [] [10, 11, 12, 13, 14, 15, 16, 17] 4 0).bind
      (fun r => readTerm r.1 10 r.2.2.2)
    = some (Term.substBoundAt (.comb (.var "g" (Ty.fn Ty.bool Ty.bool)) (.bound 0)) 0 cacheBody) ∧
    Term.substBoundAt (.comb (.var "g" (Ty.fn Ty.bool Ty.bool)) (.bound 0)) 0 cacheBody
      = .comb (.comb (.var "F" (Ty.fn Ty.bool Ty.bool)) (.comb (.var "g" (Ty.fn Ty.bool Ty.bool)) (.bound 0)))
          (.abs "y" Ty.bool (.comb (.var "F" (Ty.fn Ty.bool Ty.bool)) (.bound 0))) := by decide

example : (incrHeap 2 10 openHeap [10, 11] 7 0).bind (fun r => readTerm r.1 10 r.2.2)
    = some (.comb (.var "g" (Ty.fn Ty.bool Ty.bool)) (.bound 2)) := by decide

/-! ### the `_id`-keyed cache of `Term.subst` -/

/-- `rec` of `Term.subst` as written — the result of every `Comb` / `Abs` node cached under `t._id`
alone, a node re-used when its children came back with the same `_id`, instances inserted as the
objects they are — run in any heap satisfying `IdInv`, with any allocator answers and any right
cache: if it returns, the pure `substRec` (the replacement step of the kernel model's `Term.subst`,
about which `subst_wt/sem` speak) succeeds on the represented term and the returned object
represents its result; invariant and cache stay right, nothing existing is touched.  (The type
instantiation `subst_type` that precedes `rec` builds a new tree and uses no cache.) -/
theorem subst_cache_sound (σ : Ty.TyInst) (sv vv : InstH) (fuel : Nat) (h : Heap) (c : Cache1)
    (as : List Addr) (s : Addr) (ts : Term) (res : Heap × Cache1 × List Addr × Addr)
    (hi : IdInv h) (hsv : InstOK h sv) (hvv : InstOK h vv) (hc : Cache1OK (instOf σ sv vv) h c)
    (rs : Repr h s ts) (e : substHeap sv vv fuel h c as s = some res) :
    IdInv res.1 ∧ (∀ x o, h x = some o → res.1 x = some o) ∧
    Cache1OK (instOf σ sv vv) res.1 res.2.1 ∧
    ∃ tr, Term.substRec (instOf σ sv vv) ts = .ok tr ∧ Repr res.1 res.2.2.2 tr :=
  substHeap_sound σ sv vv fuel h c as s ts res hi hsv hvv hc rs e

/-- `?p ?p` at 2, `q q` at 3, the pair of them at 4; the instance `c` for `?p` at 5 -/
def substHeapEx (id3 : Addr) : Heap :=
  (((((Heap.empty.set 0 ⟨.svar "p" Ty.bool, 0⟩).set 1 ⟨.var "q" Ty.bool, 1⟩).set 2 ⟨.comb 0 0, 2⟩).set 3
    ⟨.comb 1 1, id3⟩).set 4 ⟨.comb 2 3, 4⟩).set 5 ⟨.const "c" Ty.bool, 5⟩

example : (substHeap [("p", 5, .const "c" Ty.bool)] [] 10 (substHeapEx 3) [] [10, 11, 12] 4).bind
      (fun r => readTerm r.1 10 r.2.2.2)
    = some (.comb (.comb (.const "c" Ty.bool) (.const "c" Ty.bool)) (.comb (.var "q" Ty.bool) (.var "q" Ty.bool))) := by
  decide

/-- Why the cache needs `IdInv`: if the object `q q` at 3 carries the stale `_id` 2 of another live
object (what `Term(t)` produced on the pinned tree), it receives the cached result of `?p ?p`:
`(c c) (c c)` instead of `(c c) (q q)`. -/
theorem subst_cache_counterexample :
    ¬ IdInv (substHeapEx 2) ∧
    (substHeap [("p", 5, .const "c" Ty.bool)] [] 10 (substHeapEx 2) [] [10, 11, 12] 4).bind
      (fun r => readTerm r.1 10 r.2.2.2)
    = some (.comb (.comb (.const "c" Ty.bool) (.const "c" Ty.bool)) (.comb (.const "c" Ty.bool) (.const "c" Ty.bool))) ∧
    Term.substRec ⟨[], [("p", .const "c" Ty.bool)], []⟩
      (.comb (.comb (.svar "p" Ty.bool) (.svar "p" Ty.bool)) (.comb (.var "q" Ty.bool) (.var "q" Ty.bool)))
    = .ok (.comb (.comb (.const "c" Ty.bool) (.const "c" Ty.bool)) (.comb (.var "q" Ty.bool) (.var "q" Ty.bool))) :=
  ⟨fun hi => absurd (hi 3 _ rfl) (by decide), by decide, by rfl⟩

/-! ### the memoised hash `_hash_val` -/

/-- For every history of constructor calls, `Term(t)` (which copies `_hash_val`), `copy`, frees of
unreferenced objects, `hash` calls (which store `_hash_val` unless present) and `subst_type_inplace`
calls (which rewrite the objects reachable from the target once each and delete `_hash_val` on
every one of them) — the last under the hypothesis `NoAlias`: no memoised object outside the
rewritten ones shares an object with them — a stored `_hash_val` is always the hash of the tuple
nest of the term the object represents NOW; so `hash(obj)` is the hash of that nest whether memoised
or not, and objects representing `==` terms have equal hashes.  Also: the objects of the target of
`subst_type_inplace` represent the instantiated terms afterwards. -/
theorem hash_memo_sound (h : Heap) (m : Memo) (hst : MSteps (Heap.empty, Memo.empty) (h, m)) :
    MemoInv h m ∧
    (∀ a t fuel, Repr h a t → size t ≤ fuel → hashObs h m fuel a = some (hashTree t)) ∧
    (∀ a b ta tb fuel, Repr h a ta → Repr h b tb → size ta ≤ fuel → size tb ≤ fuel →
      Term.aeq ta tb = true → hashObs h m fuel a = hashObs h m fuel b) ∧
    (∀ σ R b t, ChildClosed h R → Repr h b t → b ∈ R →
      Repr (inplaceHeap σ R h) b (Term.substType σ t)) := by
  have hi : MemoInv h m := MSteps_inv (s := (Heap.empty, Memo.empty)) MemoInv.empty hst
  refine ⟨hi, fun a t fuel r hs => hashObs_eq hi r hs, ?_, fun σ R b t hc r hb => inplace_repr σ hc r hb⟩
  intro a b ta tb fuel ra rb hsa hsb hab
  rw [hashObs_eq hi ra hsa, hashObs_eq hi rb hsb, hashTree_congr ta tb hab]

example : MSteps (Heap.empty, Memo.empty) (inplaceHeap [("a", Ty.bool)] [1, 0] sharedHeap,
    inplaceMemo true [1, 0] sharedHeap sharedMemo) :=
  .cons (s2 := (Heap.empty.set 0 ⟨.svar "x" (.stvar "a"), 0⟩, Memo.empty))
    (.alloc (a := 0) (n := .svar "x" (.stvar "a")) rfl) <|
  .cons (s2 := (sharedHeap, Memo.empty)) (.alloc (a := 1) (n := .comb 0 0) rfl) <|
  .cons (s2 := (sharedHeap, sharedMemo))
    (.hash (a := 1) (t := .comb (.svar "x" (.stvar "a")) (.svar "x" (.stvar "a")))
      (readTerm_repr 3 1 _ (by decide))) <|
  .cons (.inplace (σ := [("a", Ty.bool)]) (R := [1, 0]) (childClosed_sound (by decide))
    sharedMemo_noalias) (.nil _)

/-- The known finding (`NoAlias` violated): `subst_type_inplace` on the object `x` alone, while the
live term `x x` that contains it has its hash memoised, leaves `x x` with the hash of its OLD
structure — it is `==` to a freshly built `x x` at the new type, with a different hash. -/
theorem hash_memo_alias_counterexample :
    MemoInv sharedHeap sharedMemo ∧ ChildClosed sharedHeap [0] ∧ ¬ NoAlias sharedHeap sharedMemo [0] ∧
    ¬ MemoInv (inplaceHeap [("a", Ty.bool)] [0] sharedHeap) (inplaceMemo true [0] sharedHeap sharedMemo) := by
  refine ⟨sharedMemo_inv, childClosed_sound (by decide), ?_, ?_⟩
  · intro hn
    exact hn 1 (by decide) (by simp [sharedMemo, Memo.set]) 0
      (.step (a := 1) (c := 0) (o := ⟨.comb 0 0, 1⟩) rfl (by simp [Node.children]) (.refl 0)) (by simp)
  · intro hi
    obtain ⟨t, r, e⟩ := hi 1 _ rfl
    have ht := r.functional (readTerm_repr 3 1 (.comb (.svar "x" Ty.bool) (.svar "x" Ty.bool)) (by
      simp [readTerm, inplaceHeap, sharedHeap, Heap.set, substNode, Ty.subst, List.lookup, Ty.bool]))
    subst ht
    simp [hashTree, tyHash, tyHashList, Ty.bool] at e

/-- Why the memo must be dropped on EVERY visited object: if it is dropped only where a type
annotation is rewritten (atoms and abstractions), the application node `x x` keeps the hash of its
old structure although it is the target itself (`NoAlias` holds). -/
theorem hash_memo_partial_drop_counterexample :
    MemoInv sharedHeap sharedMemo ∧ ChildClosed sharedHeap [1, 0] ∧ NoAlias sharedHeap sharedMemo [1, 0] ∧
    ¬ MemoInv (inplaceHeap [("a", Ty.bool)] [1, 0] sharedHeap) (inplaceMemo false [1, 0] sharedHeap sharedMemo) := by
  refine ⟨sharedMemo_inv, childClosed_sound (by decide), ?_, ?_⟩
  · exact sharedMemo_noalias
  · intro hi
    obtain ⟨t, r, e⟩ := hi 1 _ rfl
    have ht := r.functional (readTerm_repr 3 1 (.comb (.svar "x" Ty.bool) (.svar "x" Ty.bool)) (by
      simp [readTerm, inplaceHeap, sharedHeap, Heap.set, substNode, Ty.subst, List.lookup, Ty.bool]))
    subst ht
    simp [hashTree, tyHash, tyHashList, Ty.bool] at e

/-! ### `==` and `hash` on heap terms (DAGs), for every history -/

/-- `eq_iff_alpha` is about trees; the objects the code compares are DAGs in a heap with a history.
For EVERY history of constructor calls, `Term(t)`, `copy`, frees of unreferenced objects, `hash`
calls, `subst_type_inplace` (under `NoAlias`) and operations that only allocate (`subst_bound`,
`subst`, `incr_boundvars`: `MStep.grow`), with any allocator: the heap satisfies `IdInv`, and
`Term.__eq__` as written (the `_id` short cut first, then the recursion through shared
sub-objects) on two live objects answers exactly alpha-equivalence of the trees they unfold to —
True iff the name-erased unfoldings are identical; and then their hashes (memoised or not) agree. -/
theorem heap_eq_iff_alpha (h : Heap) (m : Memo) (hst : MSteps (Heap.empty, Memo.empty) (h, m))
    (a b : Addr) (ta tb : Term) (fuel : Nat) (ra : Repr h a ta) (rb : Repr h b tb)
    (hs : size ta ≤ fuel) :
    IdInv h ∧ eqFast h fuel a b = some (Term.aeq ta tb) ∧
    (eqFast h fuel a b = some true ↔ Term.erase ta = Term.erase tb) ∧
    (Term.aeq ta tb = true → size tb ≤ fuel → hashObs h m fuel a = hashObs h m fuel b) := by
  have hi : IdInv h := MSteps_idinv (s := (Heap.empty, Memo.empty)) IdInv.empty hst
  have hm : MemoInv h m := MSteps_inv (s := (Heap.empty, Memo.empty)) MemoInv.empty hst
  have he := eqFast_sound hi fuel a b ta tb ra rb hs
  refine ⟨hi, he, ?_, fun hab hsb => ?_⟩
  · rw [he, ← Term.aeq_iff_erase]
    simp
  · rw [hashObs_eq hm ra hs, hashObs_eq hm rb hsb, hashTree_congr ta tb hab]

example : ∃ h m, MSteps (Heap.empty, Memo.empty) (h, m) ∧
    Repr h 1 (.comb (.svar "x" Ty.bool) (.svar "x" Ty.bool)) ∧ eqFast h 3 1 1 = some true :=
  ⟨_, _, .cons (s2 := (Heap.empty.set 0 ⟨.svar "x" (.stvar "a"), 0⟩, Memo.empty))
      (.alloc (a := 0) (n := .svar "x" (.stvar "a")) rfl) <|
    .cons (s2 := (sharedHeap, Memo.empty)) (.alloc (a := 1) (n := .comb 0 0) rfl) <|
    .cons (.inplace (σ := [("a", Ty.bool)]) (R := [1, 0]) (childClosed_sound (by decide))
      (fun b _ hm => absurd rfl hm)) (.nil _),
    readTerm_repr 3 1 _ (by
      simp [readTerm, inplaceHeap, sharedHeap, Heap.set, substNode, Ty.subst, List.lookup, Ty.bool]),
    by decide⟩

/-! ### type instantiation -/

/-- `subst_type` preserves well-typedness; the type is the instantiated type. -/
theorem substType_wt (σ : Ty.TyInst) (bd : List Ty) (t : Term) (T : Ty)
    (h : Term.checkedGetType bd t = .ok T) :
    Term.checkedGetType (bd.map (Ty.subst σ)) (Term.substType σ t) = .ok (T.subst σ) :=
  Term.checkedGetType_substType σ bd t T h

/-- The instantiated term denotes, in every standard model and environment, what the original
denotes in the standard model that gives each schematic type variable the size of its instance. -/
theorem substType_sem (M : Model) (ρ : Valuation) (hρ : Admissible M ρ) (σ : Ty.TyInst)
    (bd : List Ty) (env : List Nat) (t : Term) (T : Ty) (h : Term.checkedGetType bd t = .ok T) :
    Admissible (M.pull σ) (ρ.pull M σ) ∧
    sem M ρ (bd.map (Ty.subst σ)) env (Term.substType σ t) = sem (M.pull σ) (ρ.pull M σ) bd env t :=
  ⟨hρ.pull σ, sem_substType M ρ σ bd env t T h⟩

example : Term.checkedGetType [] (Term.substType [("a", Ty.bool)]
    (.abs "x" (.stvar "a") (.comb (.var "f" (Ty.fn (.stvar "a") (.stvar "a"))) (.bound 0))))
    = .ok (Ty.fn Ty.bool Ty.bool) := by
  simp [Term.substType, Ty.subst, Ty.fn, Term.checkedGetType, List.lookup, bind, Except.bind,
    Ty.isFun, Ty.domain?, Ty.range?, Ty.bool]

/-! ### term instantiation -/

/-- `Term.subst` preserves well-typedness; the type is instantiated by the (completed) type
instantiation it returns. -/
theorem subst_wt (inst : Term.Inst) (t r : Term) (σ' : Ty.TyInst) (bd : List Ty) (T : Ty)
    (h : Term.subst inst t = .ok (r, σ')) (ht : Term.checkedGetType bd t = .ok T) :
    Term.checkedGetType (bd.map (Ty.subst σ')) r = .ok (T.subst σ') := by
  obtain ⟨_, hr, hty, _⟩ := Term.subst_spec inst t r σ' h
  rw [checked_substRec _ _ _ hr ?_ _]
  · exact Term.checkedGetType_substType σ' bd t T ht
  · intro n S hm s hs
    obtain ⟨S0, hm0, rfl⟩ := Term.mem_getSvars_substType σ' t n S hm
    exact hty σ' (TyInstLe.refl σ') n S0 hm0 s hs

/-- The result of `Term.subst` denotes, in every standard model, valuation and environment, what the
original term denotes when every instantiated (schematic) variable is given the value of its
instance: instances are never captured by the binders they are put under. -/
theorem subst_sem (M : Model) (ρ : Valuation) (hρ : Admissible M ρ) (inst : Term.Inst) (t r : Term)
    (σ' : Ty.TyInst) (bd : List Ty) (env : List Nat) (T : Ty)
    (h : Term.subst inst t = .ok (r, σ')) (ht : Term.checkedGetType bd t = .ok T) :
    Admissible (M.pull σ') ((instVal M ρ inst).pull M σ') ∧
    sem M ρ (bd.map (Ty.subst σ')) env r
      = sem (M.pull σ') ((instVal M ρ inst).pull M σ') bd env t := by
  obtain ⟨_, hr, hty, _⟩ := Term.subst_spec inst t r σ' h
  refine ⟨(hρ.instVal inst).pull σ', ?_⟩
  have h1 := (sem_substRec M ρ { inst with tyinst := σ' } (Term.substType σ' t) r hr (by
    intro n S hm s hs
    obtain ⟨S0, hm0, rfl⟩ := Term.mem_getSvars_substType σ' t n S hm
    exact hty σ' (TyInstLe.refl σ') n S0 hm0 s hs) (bd.map (Ty.subst σ')) env).2
  rw [h1]
  exact sem_substType M (instVal M ρ inst) σ' bd env t T ht

example : (Term.subst ⟨[], [("x", .var "y" Ty.bool)], []⟩
    (.abs "y" Ty.bool (.comb (.comb (.const "implies" (Ty.fn Ty.bool (Ty.fn Ty.bool Ty.bool)))
      (.svar "x" Ty.bool)) (.bound 0)))).map (·.1)
    = .ok (.abs "y" Ty.bool (.comb (.comb (.const "implies" (Ty.fn Ty.bool (Ty.fn Ty.bool Ty.bool)))
      (.var "y" Ty.bool)) (.bound 0))) := by
  simp [Term.subst, Term.getSvars, Term.svarsAcc, Term.matchSvars, List.lookup, Term.checkedGetType,
    Ty.matchIncr, Ty.matchIncrList, Ty.bool, Ty.fn, bind, Except.bind, Term.substType, Ty.subst,
    Term.substRec, Except.map]

/-! ### substitution for a bound variable, beta-conversion -/

/-- `(%x::T. b).subst_bound(a)` / `beta_conv` of a well-typed redex is well-typed at the type of
the redex (under any enclosing binders `bd`; `a` may contain loose bound variables). -/
theorem substBound_wt (bd : List Ty) (x : String) (T S : Ty) (b a r : Term)
    (h : Term.checkedGetType bd (.comb (.abs x T b) a) = .ok S)
    (hr : Term.substBound (.abs x T b) a = .ok r) : Term.checkedGetType bd r = .ok S := by
  simp only [Term.substBound, Except.ok.injEq] at hr
  subst hr
  exact checked_beta bd x T S b a h

/-- … and denotes what the redex denotes, in every standard model, valuation and environment. -/
theorem substBound_sem (M : Model) (ρ : Valuation) (hρ : Admissible M ρ) (bd : List Ty) (env : List Nat)
    (henv : EnvOK M bd env) (x : String) (T S : Ty) (b a r : Term)
    (h : Term.checkedGetType bd (.comb (.abs x T b) a) = .ok S)
    (hr : Term.substBound (.abs x T b) a = .ok r) :
    sem M ρ bd env r = sem M ρ bd env (.comb (.abs x T b) a) := by
  simp only [Term.substBound, Except.ok.injEq] at hr
  subst hr
  exact sem_beta M ρ hρ bd env henv x T S b a h

/-- Capture-freeness, syntactically: at the occurrence of the bound variable under `n` further
binders the argument is inserted with its loose bound variables shifted by `n`; the other loose
bound variables of the body lose the removed binder. -/
theorem substBound_shifts (u : Term) (n i : Nat) :
    Term.substBoundAt u n (.bound n) = Term.incrAt n 0 u ∧
    (i > n → Term.substBoundAt u n (.bound i) = .bound (i - 1)) ∧
    (i < n → Term.substBoundAt u n (.bound i) = .bound i) := by
  refine ⟨by simp [Term.substBoundAt, Term.incrBoundvars], fun h => ?_, fun h => ?_⟩
  · have h1 : (i == n) = false := by simp; omega
    simp [Term.substBoundAt, h1, h]
  · have h1 : (i == n) = false := by simp; omega
    have h2 : ¬ i > n := by omega
    simp [Term.substBoundAt, h1, h2]

example : Term.substBound (.abs "x" Ty.bool (.abs "y" Ty.bool (.comb (.comb (.var "f" (Ty.fn Ty.bool (Ty.fn Ty.bool Ty.bool))) (.bound 1)) (.bound 0))))
    (.bound 0) = .ok (.abs "y" Ty.bool (.comb (.comb (.var "f" (Ty.fn Ty.bool (Ty.fn Ty.bool Ty.bool))) (.bound 1)) (.bound 0))) := by
  rfl

/-! ### abstraction over a variable -/

/-- `Lambda(x, t)` (= `Abs(x.name, x.T, t.abstract_over(x))`) of a CLOSED well-typed `t :: S` (no
loose bound variables: `checkedGetType [] t`) over a variable or schematic variable `x :: T` is
well-typed of type `T ⇒ S`.  Only closed `t` is covered: `abstract_over` does not shift loose bound
variables of `t`, so on an open `t` the new binder would capture `Bound 0` — the code's callers
(`Lambda`, `Forall`, `abstraction`, `forall_intr`) apply it to closed terms. -/
theorem abstractOver_wt (x : Term) (k : Nat) (n : String) (T : Ty) (hx : varKey x = some (k, n, T))
    (t l : Term) (S : Ty) (ht : Term.checkedGetType [] t = .ok S) (h : Term.mkLambda x t = .ok l) :
    Term.checkedGetType [] l = .ok (Ty.fn T S) :=
  checked_mkLambda x k n T hx t l S ht h

/-- … and (again for CLOSED `t` only) is the function `v ↦ ⟦t⟧` with `x` valued `v`, in every
standard model and valuation:
the occurrences of `x` (and nothing else) are bound; bound names clashing with `x` are irrelevant. -/
theorem abstractOver_sem (M : Model) (ρ : Valuation) (hρ : Admissible M ρ) (x : Term) (k : Nat)
    (n : String) (T : Ty) (hx : varKey x = some (k, n, T)) (t l : Term) (S : Ty)
    (ht : Term.checkedGetType [] t = .ok S) (h : Term.mkLambda x t = .ok l) (v : Nat)
    (hv : v < M.size T) :
    appCode (sem M ρ [] [] l) v (M.size S) = sem M (ρ.update k n T v) [] [] t :=
  appCode_sem_mkLambda M ρ hρ x k n T hx t l S ht h v hv

example : Term.mkLambda (.var "x" Ty.bool)
    (.comb (.abs "x" Ty.bool (.comb (.var "g" (Ty.fn Ty.bool Ty.bool)) (.bound 0))) (.var "x" Ty.bool))
    = .ok (.abs "x" Ty.bool
      (.comb (.abs "x" Ty.bool (.comb (.var "g" (Ty.fn Ty.bool Ty.bool)) (.bound 0))) (.bound 0))) := by
  rfl

/-! ### beta-normalisation -/

/-- `beta_norm` TERMINATES on every well-typed term: whenever `checked_get_type` succeeds on `t`
(under any binder context `bd`), some recursion depth suffices for `t.beta_norm()` to return.  The
strategy of the code (normalise `fun` and `arg`, contract at the root, normalise the contractum) is a
hereditary substitution of a normal argument into a normal body; the proof is by induction on the
size of the type of the bound variable, then on the body (`hsubst`). -/
theorem betaNorm_terminates (bd : List Ty) (t : Term) (S : Ty)
    (h : Term.checkedGetType bd t = .ok S) : ∃ fuel t', Term.betaNorm fuel t = .ok t' :=
  betaNorm_terminates_aux t bd S h

/-- non-vacuity: a well-typed term with a higher-order redex that creates a new redex when contracted -/
example : Term.checkedGetType []
    (.comb (.abs "f" (Ty.fn Ty.bool Ty.bool) (.comb (.bound 0) (.comb (.bound 0) (.var "a" Ty.bool))))
      (.abs "x" Ty.bool (.bound 0))) = .ok Ty.bool ∧
    Term.betaNorm 10
    (.comb (.abs "f" (Ty.fn Ty.bool Ty.bool) (.comb (.bound 0) (.comb (.bound 0) (.var "a" Ty.bool))))
      (.abs "x" Ty.bool (.bound 0))) = .ok (.var "a" Ty.bool) := by constructor <;> rfl

/-- The recursion depth is not observable: once `beta_norm` returns at some depth it returns the same
term at every larger depth (for every term, well-typed or not). -/
theorem betaNorm_depth_irrelevant (fuel fuel' : Nat) (t t' : Term)
    (h : Term.betaNorm fuel t = .ok t') (hle : fuel ≤ fuel') : Term.betaNorm fuel' t = .ok t' :=
  betaNorm_mono fuel fuel' t t' h hle

example : Term.betaNorm 6
    (.comb (.abs "f" (Ty.fn Ty.bool Ty.bool) (.comb (.bound 0) (.comb (.bound 0) (.var "a" Ty.bool))))
      (.abs "x" Ty.bool (.bound 0))) = .ok (.var "a" Ty.bool) ∧
    Term.betaNorm 60
    (.comb (.abs "f" (Ty.fn Ty.bool Ty.bool) (.comb (.bound 0) (.comb (.bound 0) (.var "a" Ty.bool))))
      (.abs "x" Ty.bool (.bound 0))) = .ok (.var "a" Ty.bool) := by constructor <;> rfl

/-- `beta_norm` never raises TermException, on any term (well-typed or not): the only way not to
return is to exhaust the recursion depth — the `beta_conv` it performs is always applied to a redex. -/
theorem betaNorm_no_exception (fuel : Nat) (t : Term) (e : TErr)
    (h : Term.betaNorm fuel t = .error e) : e = .fuel :=
  betaNorm_error fuel t e h

example : Term.betaNorm 40 (.comb (.abs "x" Ty.bool (.comb (.bound 0) (.bound 0)))
    (.abs "x" Ty.bool (.comb (.bound 0) (.bound 0)))) = .error .fuel := by rfl

/-- `beta_conv` on a well-typed redex (under any enclosing binders): the result is well-typed at the
same type and denotes the same in every standard model, valuation and environment. -/
theorem betaConv_sem (M : Model) (ρ : Valuation) (hρ : Admissible M ρ) (bd : List Ty) (env : List Nat)
    (henv : EnvOK M bd env) (t r : Term) (S : Ty) (h : Term.checkedGetType bd t = .ok S)
    (hr : Term.betaConv t = .ok r) :
    Term.checkedGetType bd r = .ok S ∧ sem M ρ bd env r = sem M ρ bd env t := by
  unfold Term.betaConv at hr
  split at hr
  · rename_i x T b a
    simp only [Term.substBound, Except.ok.injEq] at hr
    subst hr
    exact ⟨checked_beta bd x T S b a h, sem_beta M ρ hρ bd env henv x T S b a h⟩
  · cases hr

example : Term.betaConv (.comb (.abs "x" Ty.bool (.comb (.var "g" (Ty.fn Ty.bool Ty.bool)) (.bound 0)))
    (.var "x" Ty.bool)) = .ok (.comb (.var "g" (Ty.fn Ty.bool Ty.bool)) (.var "x" Ty.bool)) := by rfl

/-- `beta_norm`, full statement.  For every well-typed term `t :: S` (under any binder context) there
is a term `t'` such that `t.beta_norm()` RETURNS `t'` at some recursion depth and at every larger
one, and at every depth whatsoever the answer is either `t'` or "depth exhausted" (Python:
RecursionError) — never a TermException, never another term; `t'` contains no redex, is well-typed
at the same type `S`, and denotes the same as `t` in every standard model, valuation and
environment.  (For ill-typed terms no depth need suffice, e.g. `(%x. x x) (%x. x x)`.) -/
theorem betaNorm_sem (M : Model) (ρ : Valuation) (hρ : Admissible M ρ)
    (bd : List Ty) (env : List Nat) (henv : EnvOK M bd env) (t : Term) (S : Ty)
    (h : Term.checkedGetType bd t = .ok S) :
    ∃ fuel t', Term.betaNorm fuel t = .ok t' ∧
      (∀ fuel', fuel ≤ fuel' → Term.betaNorm fuel' t = .ok t') ∧
      (∀ fuel', Term.betaNorm fuel' t = .ok t' ∨ Term.betaNorm fuel' t = .error .fuel) ∧
      betaNormal t' = true ∧ Term.checkedGetType bd t' = .ok S ∧
      sem M ρ bd env t' = sem M ρ bd env t := by
  obtain ⟨fuel, t', hn⟩ := betaNorm_terminates bd t S h
  refine ⟨fuel, t', hn, fun fuel' hle => betaNorm_mono fuel fuel' t t' hn hle, ?_,
    betaNorm_normal fuel t t' hn, (sem_betaNorm M ρ hρ fuel bd env henv t t' S h hn).1,
    (sem_betaNorm M ρ hρ fuel bd env henv t t' S h hn).2⟩
  intro fuel'
  cases hr : Term.betaNorm fuel' t with
  | error e => right; rw [betaNorm_error fuel' t e hr]
  | ok t'' =>
    left
    have h1 := betaNorm_mono fuel (max fuel fuel') t t' hn (Nat.le_max_left _ _)
    have h2 := betaNorm_mono fuel' (max fuel fuel') t t'' hr (Nat.le_max_right _ _)
    rw [h1] at h2
    exact h2.symm ▸ rfl

example : Term.betaNorm 3
    (.comb (.abs "f" (Ty.fn Ty.bool Ty.bool) (.comb (.bound 0) (.comb (.bound 0) (.var "a" Ty.bool))))
      (.abs "x" Ty.bool (.bound 0))) = .error .fuel ∧
    Term.betaNorm 6
    (.comb (.abs "f" (Ty.fn Ty.bool Ty.bool) (.comb (.bound 0) (.comb (.bound 0) (.var "a" Ty.bool))))
      (.abs "x" Ty.bool (.bound 0))) = .ok (.var "a" Ty.bool) := by
  constructor <;> rfl

/-- the self-application `(%x. x x) (%x. x x)` (ill-typed) exhausts every small depth: termination is
a property of well-typed terms only -/
example : Term.betaNorm 40 (.comb (.abs "x" Ty.bool (.comb (.bound 0) (.bound 0)))
    (.abs "x" Ty.bool (.comb (.bound 0) (.bound 0)))) = .error .fuel := by rfl

end Holpy.C03
