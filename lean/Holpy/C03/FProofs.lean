import Holpy.Kernel.SemSubst
import Holpy.C03.CacheProofs
/-
C03 — heap-level `incr_boundvars`, `subst_bound` with an open argument, and the `_id`-keyed cache
of `Term.subst`: under `IdInv` each returns an object representing what the pure function of the
kernel model computes on the represented term.
-/
namespace Holpy.C03
open Holpy

theorem allocN_spec {h : Heap} {as : List Addr} {n : Node} {r : Heap × List Addr × Addr}
    (e : allocN h as n = some r) : ∃ rest, as = r.2.2 :: rest ∧ alloc h r.2.2 n = some r.1 := by
  unfold allocN at e
  split at e
  · cases e
  · rename_i a rest
    cases ea : alloc h a n with
    | none => rw [ea] at e; cases e
    | some h' => rw [ea] at e; cases e; exact ⟨rest, rfl, ea⟩

/-- a node allocated by a constructor represents the term built from its children -/
theorem allocN_repr_comb {h : Heap} {as : List Addr} {f x : Addr} {tf tx : Term}
    {r : Heap × List Addr × Addr} (hi : IdInv h) (e : allocN h as (.comb f x) = some r)
    (rf : Repr h f tf) (rx : Repr h x tx) :
    IdInv r.1 ∧ Ext h r.1 ∧ Repr r.1 r.2.2 (.comb tf tx) := by
  obtain ⟨rest, _, ea⟩ := allocN_spec e
  obtain ⟨_, hset⟩ := alloc_spec ea
  have hx := alloc_ext ea
  refine ⟨alloc_inv hi ea, hx, .comb (i := r.2.2) ?_ (rf.ext hx) (rx.ext hx)⟩
  rw [hset]; exact set_self

theorem allocN_repr_abs {h : Heap} {as : List Addr} {nm : String} {T : Ty} {b : Addr} {tb : Term}
    {r : Heap × List Addr × Addr} (hi : IdInv h) (e : allocN h as (.abs nm T b) = some r)
    (rb : Repr h b tb) : IdInv r.1 ∧ Ext h r.1 ∧ Repr r.1 r.2.2 (.abs nm T tb) := by
  obtain ⟨rest, _, ea⟩ := allocN_spec e
  obtain ⟨_, hset⟩ := alloc_spec ea
  have hx := alloc_ext ea
  refine ⟨alloc_inv hi ea, hx, .abs (i := r.2.2) ?_ (rb.ext hx)⟩
  rw [hset]; exact set_self

theorem allocN_repr_bound {h : Heap} {as : List Addr} {k : Nat}
    {r : Heap × List Addr × Addr} (hi : IdInv h) (e : allocN h as (.bound k) = some r) :
    IdInv r.1 ∧ Ext h r.1 ∧ Repr r.1 r.2.2 (.bound k) := by
  obtain ⟨rest, _, ea⟩ := allocN_spec e
  obtain ⟨_, hset⟩ := alloc_spec ea
  refine ⟨alloc_inv hi ea, alloc_ext ea, .bound (i := r.2.2) ?_⟩
  rw [hset]; exact set_self

/-- `incr_boundvars` with its `_id`-based re-use computes `incrAt` -/
theorem incrHeap_sound (inc : Nat) : ∀ (fuel : Nat) (h : Heap) (as : List Addr) (s : Addr) (lev : Nat)
    (ts : Term) (res : Heap × List Addr × Addr),
    IdInv h → Repr h s ts → incrHeap inc fuel h as s lev = some res →
    IdInv res.1 ∧ Ext h res.1 ∧ Repr res.1 res.2.2 (Term.incrAt inc lev ts)
  | 0, _, _, _, _, _, _, _, _, e => by simp [incrHeap] at e
  | fuel + 1, h, as, s, lev, ts, res, hi, rs, e => by
    unfold incrHeap at e
    obtain ⟨o, ho⟩ := rs.live
    simp only [ho] at e
    cases rs with
    | svar e1 =>
      rw [ho] at e1; cases e1
      simp only [Option.some.injEq] at e; subst e
      exact ⟨hi, Ext.refl h, .svar ho⟩
    | var e1 =>
      rw [ho] at e1; cases e1
      simp only [Option.some.injEq] at e; subst e
      exact ⟨hi, Ext.refl h, .var ho⟩
    | const e1 =>
      rw [ho] at e1; cases e1
      simp only [Option.some.injEq] at e; subst e
      exact ⟨hi, Ext.refl h, .const ho⟩
    | @bound _ _ i e1 =>
      rw [ho] at e1; cases e1
      simp only at e
      split at e
      · rename_i hge
        have := allocN_repr_bound hi e
        simpa only [Term.incrAt, hge, if_true] using this
      · rename_i hlt
        simp only [Option.some.injEq] at e; subst e
        refine ⟨hi, Ext.refl h, ?_⟩
        simp only [Term.incrAt, hlt, if_false]
        exact .bound ho
    | @comb _ _ f x tf tx e1 rf rx =>
      rw [ho] at e1; cases e1
      simp only at e
      split at e
      · cases e
      · rename_i h1 as1 f' e1
        obtain ⟨i1, x1, r1⟩ := incrHeap_sound inc fuel h as f lev tf _ hi rf e1
        simp only at i1 x1 r1
        split at e
        · cases e
        · rename_i h2 as2 x' e2
          obtain ⟨i2, x2, r2⟩ := incrHeap_sound inc fuel h1 as1 x lev tx _ i1 (rx.ext x1) e2
          simp only at i2 x2 r2
          have x12 := x1.trans x2
          split at e
          · rename_i hsame
            simp only [Bool.and_eq_true] at hsame
            simp only [Option.some.injEq] at e; subst e
            have ef : f' = f := sameId_eq i2 hsame.1
            have ex : x' = x := sameId_eq i2 hsame.2
            subst ef ex
            have tf' : Term.incrAt inc lev tf = tf := (r1.ext x2).functional (rf.ext x12)
            have tx' : Term.incrAt inc lev tx = tx := r2.functional (rx.ext x12)
            refine ⟨i2, x12, ?_⟩
            simp only [Term.incrAt, tf', tx']
            exact (Repr.comb ho rf rx).ext x12
          · obtain ⟨i3, x3, r3⟩ := allocN_repr_comb i2 e (r1.ext x2) r2
            exact ⟨i3, x12.trans x3, by simpa only [Term.incrAt] using r3⟩
    | @abs _ _ nm T b tb e1 rb =>
      rw [ho] at e1; cases e1
      simp only at e
      split at e
      · cases e
      · rename_i h1 as1 b' e1
        obtain ⟨i1, x1, r1⟩ := incrHeap_sound inc fuel h as b (lev + 1) tb _ hi rb e1
        simp only at i1 x1 r1
        split at e
        · rename_i hsame
          simp only [Option.some.injEq] at e; subst e
          have eb : b' = b := sameId_eq i1 hsame
          subst eb
          have tb' : Term.incrAt inc (lev + 1) tb = tb := r1.functional (rb.ext x1)
          refine ⟨i1, x1, ?_⟩
          simp only [Term.incrAt, tb']
          exact (Repr.abs ho rb).ext x1
        · obtain ⟨i2, x2, r2⟩ := allocN_repr_abs i1 e r1
          exact ⟨i2, x1.trans x2, by simpa only [Term.incrAt] using r2⟩

/-- `subst_bound` as written, closed or open argument, computes `substBoundAt` -/
theorem sbHeap_sound (opn : Bool) (ifuel : Nat) (ua : Addr) (tu : Term)
    (hcl : opn = false → Term.isOpenAt 0 tu = false) :
    ∀ (fuel : Nat) (h : Heap) (c : Cache) (as : List Addr) (s : Addr) (n : Nat) (ts : Term)
      (res : Heap × Cache × List Addr × Addr),
      IdInv h → Repr h ua tu → CacheOK tu h c → Repr h s ts →
      sbHeap true opn ifuel ua fuel h c as s n = some res →
      IdInv res.1 ∧ Ext h res.1 ∧ CacheOK tu res.1 res.2.1 ∧
        Repr res.1 res.2.2.2 (Term.substBoundAt tu n ts)
  | 0, _, _, _, _, _, _, _, _, _, _, _, e => by simp [sbHeap] at e
  | fuel + 1, h, c, as, s, n, ts, res, hi, ru, hc, rs, e => by
    unfold sbHeap at e
    obtain ⟨o, ho⟩ := rs.live
    simp only [ho] at e
    cases rs with
    | svar e1 =>
      rw [ho] at e1; cases e1
      simp only [Option.some.injEq] at e; subst e
      exact ⟨hi, Ext.refl h, hc, .svar ho⟩
    | var e1 =>
      rw [ho] at e1; cases e1
      simp only [Option.some.injEq] at e; subst e
      exact ⟨hi, Ext.refl h, hc, .var ho⟩
    | const e1 =>
      rw [ho] at e1; cases e1
      simp only [Option.some.injEq] at e; subst e
      exact ⟨hi, Ext.refl h, hc, .const ho⟩
    | @bound _ _ i e1 =>
      rw [ho] at e1; cases e1
      simp only at e
      split at e
      · rename_i hin
        subst hin
        cases opn with
        | true =>
          simp only [if_true, Option.map_eq_some_iff] at e
          obtain ⟨r, hr, rfl⟩ := e
          obtain ⟨i1, x1, r1⟩ := incrHeap_sound i ifuel h as ua 0 tu r hi ru hr
          refine ⟨i1, x1, hc.ext x1, ?_⟩
          simpa only [Term.substBoundAt, beq_self_eq_true, if_true, Term.incrBoundvars] using r1
        | false =>
          simp only [Bool.false_eq_true, if_false, Option.some.injEq] at e; subst e
          refine ⟨hi, Ext.refl h, hc, ?_⟩
          simp only [Term.substBoundAt, beq_self_eq_true, if_true, Term.incrBoundvars]
          rw [Term.incrAt_closed i 0 tu (hcl rfl)]
          exact ru
      · rename_i hne
        split at e
        · rename_i hgt
          obtain ⟨rest, _, hc', ea⟩ := allocNext_spec e
          obtain ⟨hf, hset⟩ := alloc_spec ea
          have hx := alloc_ext ea
          refine ⟨alloc_inv hi ea, hx, by rw [hc']; exact hc.ext hx, ?_⟩
          have h1 : (i == n) = false := by simpa using hne
          simp only [Term.substBoundAt, h1, hgt, if_true]
          refine .bound (i := res.2.2.2) ?_
          rw [hset]; exact set_self
        · rename_i hng
          simp only [Option.some.injEq] at e; subst e
          refine ⟨hi, Ext.refl h, hc, ?_⟩
          have h1 : (i == n) = false := by simpa using hne
          simp only [Term.substBoundAt, h1, hng]
          exact .bound ho
    | @comb _ _ f x tf tx e1 rf rx =>
      rw [ho] at e1; cases e1
      simp only [if_true] at e
      split at e
      · rename_i r hl
        simp only [Option.some.injEq] at e; subst e
        exact ⟨hi, Ext.refl h, hc, hc.hit hi ho (.comb ho rf rx) hl⟩
      · split at e
        · cases e
        · rename_i h1 c1 as1 f' e1
          obtain ⟨i1, x1, k1, r1⟩ := sbHeap_sound opn ifuel ua tu hcl fuel h c as f n tf _ hi ru hc rf e1
          simp only at i1 x1 k1 r1
          split at e
          · cases e
          · rename_i h2 c2 as2 x' e2
            obtain ⟨i2, x2, k2, r2⟩ := sbHeap_sound opn ifuel ua tu hcl fuel h1 c1 as1 x n tx _ i1
              (ru.ext x1) k1 (rx.ext x1) e2
            simp only at i2 x2 k2 r2
            have x12 := x1.trans x2
            have rs2 : Repr h2 s (.comb tf tx) := (Repr.comb ho rf rx).ext x12
            split at e
            · rename_i hsame
              simp only [Bool.and_eq_true] at hsame
              simp only [Option.some.injEq] at e; subst e
              have ef : f' = f := sameId_eq i2 hsame.1
              have ex : x' = x := sameId_eq i2 hsame.2
              subst ef ex
              have tf' : Term.substBoundAt tu n tf = tf := (r1.ext x2).functional (rf.ext x12)
              have tx' : Term.substBoundAt tu n tx = tx := r2.functional (rx.ext x12)
              have rr : Repr h2 s (Term.substBoundAt tu n (.comb tf tx)) := by
                simp only [Term.substBoundAt, tf', tx']; exact rs2
              exact ⟨i2, x12, k2.cons (x12 _ _ ho) rs2 rr, rr⟩
            · split at e
              · cases e
              · rename_i h3 c3 as3 a ea0
                simp only [Option.some.injEq] at e; subst e
                obtain ⟨rest, _, hc', ea⟩ := allocNext_spec ea0
                simp only at hc' ea
                obtain ⟨hf, hset⟩ := alloc_spec ea
                have x3 := alloc_ext ea
                have i3 := alloc_inv i2 ea
                have rr : Repr h3 a (Term.substBoundAt tu n (.comb tf tx)) := by
                  simp only [Term.substBoundAt]
                  refine .comb (i := a) ?_ ((r1.ext x2).ext x3) (r2.ext x3)
                  rw [hset]; exact set_self
                refine ⟨i3, x12.trans x3, ?_, rr⟩
                rw [hc']
                exact (k2.ext x3).cons ((x12.trans x3) _ _ ho) (rs2.ext x3) rr
    | @abs _ _ nm T b tb e1 rb =>
      rw [ho] at e1; cases e1
      simp only [if_true] at e
      split at e
      · rename_i r hl
        simp only [Option.some.injEq] at e; subst e
        exact ⟨hi, Ext.refl h, hc, hc.hit hi ho (.abs ho rb) hl⟩
      · split at e
        · cases e
        · rename_i h1 c1 as1 b' e1
          obtain ⟨i1, x1, k1, r1⟩ := sbHeap_sound opn ifuel ua tu hcl fuel h c as b (n + 1) tb _ hi ru hc rb e1
          simp only at i1 x1 k1 r1
          have rs1 : Repr h1 s (.abs nm T tb) := (Repr.abs ho rb).ext x1
          split at e
          · rename_i hsame
            simp only [Option.some.injEq] at e; subst e
            have eb : b' = b := sameId_eq i1 hsame
            subst eb
            have tb' : Term.substBoundAt tu (n + 1) tb = tb := r1.functional (rb.ext x1)
            have rr : Repr h1 s (Term.substBoundAt tu n (.abs nm T tb)) := by
              simp only [Term.substBoundAt, tb']; exact rs1
            exact ⟨i1, x1, k1.cons (x1 _ _ ho) rs1 rr, rr⟩
          · split at e
            · cases e
            · rename_i h2 c2 as2 a ea0
              simp only [Option.some.injEq] at e; subst e
              obtain ⟨rest, _, hc', ea⟩ := allocNext_spec ea0
              simp only at hc' ea
              obtain ⟨hf, hset⟩ := alloc_spec ea
              have x2 := alloc_ext ea
              have i2 := alloc_inv i1 ea
              have rr : Repr h2 a (Term.substBoundAt tu n (.abs nm T tb)) := by
                simp only [Term.substBoundAt]
                refine .abs (i := a) ?_ (r1.ext x2)
                rw [hset]; exact set_self
              refine ⟨i2, x1.trans x2, ?_, rr⟩
              rw [hc']
              exact (k1.ext x2).cons ((x1.trans x2) _ _ ho) (rs1.ext x2) rr

/-! ### the cache of `Term.subst` -/

/-- the instance objects represent the instance terms -/
def InstOK (h : Heap) (l : InstH) : Prop := ∀ n a t, l.lookup n = some (a, t) → Repr h a t

theorem InstOK.ext {h h' : Heap} {l : InstH} (hl : InstOK h l) (hx : Ext h h') : InstOK h' l :=
  fun n a t e => (hl n a t e).ext hx

theorem lookup_instTerms (l : InstH) (n : String) :
    (instTerms l).lookup n = (l.lookup n).map (fun p => p.2) := by
  induction l with
  | nil => rfl
  | cons p l ih =>
    obtain ⟨m, a, t⟩ := p
    simp only [instTerms, List.map_cons, List.lookup_cons] at ih ⊢
    split
    · rfl
    · exact ih

/-- the pure instantiation a heap instantiation stands for (`tyinst` plays no role in `rec`) -/
def instOf (σ : Ty.TyInst) (sv vv : InstH) : Term.Inst := ⟨σ, instTerms sv, instTerms vv⟩

def Cache1OK (inst : Term.Inst) (h : Heap) (c : Cache1) : Prop :=
  ∀ id r, c.lookup id = some r →
    ∃ s ts tr, (∃ o, h s = some o ∧ o.id = id) ∧ Repr h s ts ∧ Term.substRec inst ts = .ok tr ∧ Repr h r tr

theorem Cache1OK.nil (inst : Term.Inst) (h : Heap) : Cache1OK inst h [] := by
  intro id r hl
  simp at hl

theorem Cache1OK.ext {inst : Term.Inst} {h h' : Heap} {c : Cache1} (hc : Cache1OK inst h c)
    (hx : Ext h h') : Cache1OK inst h' c := by
  intro id r hl
  obtain ⟨s, ts, tr, ⟨o, ho, hid⟩, rs, e, rr⟩ := hc id r hl
  exact ⟨s, ts, tr, ⟨o, hx _ _ ho, hid⟩, rs.ext hx, e, rr.ext hx⟩

theorem Cache1OK.cons {inst : Term.Inst} {h : Heap} {c : Cache1} (hc : Cache1OK inst h c) {s : Addr}
    {o : Obj} {ts tr : Term} {r : Addr} (ho : h s = some o) (rs : Repr h s ts)
    (e : Term.substRec inst ts = .ok tr) (rr : Repr h r tr) : Cache1OK inst h ((o.id, r) :: c) := by
  intro id r' hl
  simp only [List.lookup_cons] at hl
  split at hl
  · rename_i hk
    cases hl
    have hk' : id = o.id := by simpa using hk
    subst hk'
    exact ⟨s, ts, tr, ⟨o, ho, rfl⟩, rs, e, rr⟩
  · exact hc id r' hl

theorem Cache1OK.hit {inst : Term.Inst} {h : Heap} {c : Cache1} (hi : IdInv h) (hc : Cache1OK inst h c)
    {s : Addr} {o : Obj} {ts : Term} {r : Addr} (ho : h s = some o) (rs : Repr h s ts)
    (hl : c.lookup o.id = some r) : ∃ tr, Term.substRec inst ts = .ok tr ∧ Repr h r tr := by
  obtain ⟨s0, ts0, tr, ⟨o0, ho0, hid⟩, rs0, e, rr⟩ := hc _ _ hl
  have : s0 = s := id_inj hi ho0 ho hid
  subst this
  rw [rs.functional rs0]
  exact ⟨tr, e, rr⟩

/-- `rec` of `Term.subst` as written — results cached under `t._id`, nodes re-used when their
children come back with the same `_id` — computes `substRec` -/
theorem substHeap_sound (σ : Ty.TyInst) (sv vv : InstH) :
    ∀ (fuel : Nat) (h : Heap) (c : Cache1) (as : List Addr) (s : Addr) (ts : Term)
      (res : Heap × Cache1 × List Addr × Addr),
      IdInv h → InstOK h sv → InstOK h vv → Cache1OK (instOf σ sv vv) h c → Repr h s ts →
      substHeap sv vv fuel h c as s = some res →
      IdInv res.1 ∧ Ext h res.1 ∧ Cache1OK (instOf σ sv vv) res.1 res.2.1 ∧
        ∃ tr, Term.substRec (instOf σ sv vv) ts = .ok tr ∧ Repr res.1 res.2.2.2 tr
  | 0, _, _, _, _, _, _, _, _, _, _, _, e => by simp [substHeap] at e
  | fuel + 1, h, c, as, s, ts, res, hi, hsv, hvv, hc, rs, e => by
    unfold substHeap at e
    obtain ⟨o, ho⟩ := rs.live
    simp only [ho] at e
    cases rs with
    | @svar _ _ n T e1 =>
      rw [ho] at e1; cases e1
      simp only at e
      split at e
      · rename_i a t hl
        simp only [Option.some.injEq] at e; subst e
        refine ⟨hi, Ext.refl h, hc, t, ?_, hsv n a t hl⟩
        simp only [Term.substRec, instOf, lookup_instTerms, hl, Option.map_some]
      · rename_i hl
        simp only [Option.some.injEq] at e; subst e
        refine ⟨hi, Ext.refl h, hc, _, ?_, .svar ho⟩
        simp only [Term.substRec, instOf, lookup_instTerms, hl, Option.map_none]
    | @var _ _ n T e1 =>
      rw [ho] at e1; cases e1
      simp only at e
      split at e
      · rename_i a t hl
        split at e
        · rename_i T' hT
          split at e
          · cases e
          · rename_i hne
            simp only [Option.some.injEq] at e; subst e
            refine ⟨hi, Ext.refl h, hc, t, ?_, hvv n a t hl⟩
            simp only [Term.substRec, instOf, lookup_instTerms, hl, Option.map_some, hT, bind,
              Except.bind, hne]
            rfl
        · cases e
      · rename_i hl
        simp only [Option.some.injEq] at e; subst e
        refine ⟨hi, Ext.refl h, hc, _, ?_, .var ho⟩
        simp only [Term.substRec, instOf, lookup_instTerms, hl, Option.map_none]
    | const e1 =>
      rw [ho] at e1; cases e1
      simp only [Option.some.injEq] at e; subst e
      exact ⟨hi, Ext.refl h, hc, _, by simp only [Term.substRec], .const ho⟩
    | bound e1 =>
      rw [ho] at e1; cases e1
      simp only [Option.some.injEq] at e; subst e
      exact ⟨hi, Ext.refl h, hc, _, by simp only [Term.substRec], .bound ho⟩
    | @comb _ _ f x tf tx e1 rf rx =>
      rw [ho] at e1; cases e1
      simp only at e
      split at e
      · rename_i r hl
        simp only [Option.some.injEq] at e; subst e
        exact ⟨hi, Ext.refl h, hc, hc.hit hi ho (.comb ho rf rx) hl⟩
      · split at e
        · cases e
        · rename_i h1 c1 as1 f' e1
          obtain ⟨i1, x1, k1, trf, ef, r1⟩ := substHeap_sound σ sv vv fuel h c as f tf _ hi hsv hvv hc rf e1
          simp only at i1 x1 k1 r1
          split at e
          · cases e
          · rename_i h2 c2 as2 x' e2
            obtain ⟨i2, x2, k2, trx, ex, r2⟩ := substHeap_sound σ sv vv fuel h1 c1 as1 x tx _ i1
              (hsv.ext x1) (hvv.ext x1) k1 (rx.ext x1) e2
            simp only at i2 x2 k2 r2
            have x12 := x1.trans x2
            have rs2 : Repr h2 s (.comb tf tx) := (Repr.comb ho rf rx).ext x12
            have epure : Term.substRec (instOf σ sv vv) (.comb tf tx) = .ok (.comb trf trx) := by
              simp only [Term.substRec, ef, ex, bind, Except.bind]
            split at e
            · rename_i hsame
              simp only [Bool.and_eq_true] at hsame
              simp only [Option.some.injEq] at e; subst e
              have e1' : f' = f := sameId_eq i2 hsame.1
              have e2' : x' = x := sameId_eq i2 hsame.2
              subst e1' e2'
              have tf' : trf = tf := (r1.ext x2).functional (rf.ext x12)
              have tx' : trx = tx := r2.functional (rx.ext x12)
              subst tf' tx'
              exact ⟨i2, x12, k2.cons (x12 _ _ ho) rs2 epure rs2, _, epure, rs2⟩
            · split at e
              · cases e
              · rename_i h3 as3 a ea0
                simp only [Option.some.injEq] at e; subst e
                obtain ⟨i3, x3, r3⟩ := allocN_repr_comb i2 ea0 (r1.ext x2) r2
                simp only at i3 x3 r3
                exact ⟨i3, x12.trans x3, (k2.ext x3).cons ((x12.trans x3) _ _ ho) (rs2.ext x3) epure r3,
                  _, epure, r3⟩
    | @abs _ _ nm T b tb e1 rb =>
      rw [ho] at e1; cases e1
      simp only at e
      split at e
      · rename_i r hl
        simp only [Option.some.injEq] at e; subst e
        exact ⟨hi, Ext.refl h, hc, hc.hit hi ho (.abs ho rb) hl⟩
      · split at e
        · cases e
        · rename_i h1 c1 as1 b' e1
          obtain ⟨i1, x1, k1, trb, eb, r1⟩ := substHeap_sound σ sv vv fuel h c as b tb _ hi hsv hvv hc rb e1
          simp only at i1 x1 k1 r1
          have rs1 : Repr h1 s (.abs nm T tb) := (Repr.abs ho rb).ext x1
          have epure : Term.substRec (instOf σ sv vv) (.abs nm T tb) = .ok (.abs nm T trb) := by
            simp only [Term.substRec, eb, bind, Except.bind]
          split at e
          · rename_i hsame
            simp only [Option.some.injEq] at e; subst e
            have e1' : b' = b := sameId_eq i1 hsame
            subst e1'
            have tb' : trb = tb := r1.functional (rb.ext x1)
            subst tb'
            exact ⟨i1, x1, k1.cons (x1 _ _ ho) rs1 epure rs1, _, epure, rs1⟩
          · split at e
            · cases e
            · rename_i h2 as2 a ea0
              simp only [Option.some.injEq] at e; subst e
              obtain ⟨i2, x2, r2⟩ := allocN_repr_abs i1 ea0 r1
              simp only at i2 x2 r2
              exact ⟨i2, x1.trans x2, (k1.ext x2).cons ((x1.trans x2) _ _ ho) (rs1.ext x2) epure r2,
                _, epure, r2⟩

end Holpy.C03
