import Holpy.Kernel.SemBasic
import Holpy.C03.Model
/-
C03 — `fast_compare_typ` / `fast_compare` are total orders whose equivalence is `==`.
Three facts each, by induction: (E) `cmp a b = eq ↔ a == b`, (S) `cmp b a = swap (cmp a b)`,
(T) the transitivity table `TT (cmp a b) (cmp b c) (cmp a c)`.
-/
set_option linter.unusedSimpArgs false

namespace Holpy.C03
open Holpy

/-- the transitivity table of a total preorder, for one triple -/
def TT (o1 o2 o3 : Ordering) : Prop :=
  (o1 = .lt → o2 = .lt → o3 = .lt) ∧ (o1 = .lt → o2 = .eq → o3 = .lt) ∧
  (o1 = .eq → o2 = .lt → o3 = .lt) ∧ (o1 = .eq → o2 = .eq → o3 = .eq)

theorem TT.of_cmp {α : Type} (cmp : α → α → Ordering) [Std.TransCmp cmp] (a b c : α) :
    TT (cmp a b) (cmp b c) (cmp a c) :=
  ⟨Std.TransCmp.lt_trans, Std.TransCmp.lt_of_lt_of_eq, Std.TransCmp.lt_of_eq_of_lt,
    Std.TransCmp.eq_trans⟩

/-- lexicographic composition; the second components matter only when the first are equal -/
theorem TT.then {o1 o2 o3 r1 r2 r3 : Ordering} (h : TT o1 o2 o3)
    (hr : o1 = .eq → o2 = .eq → TT r1 r2 r3) : TT (o1.then r1) (o2.then r2) (o3.then r3) := by
  obtain ⟨h1, h2, h3, h4⟩ := h
  cases o1 <;> cases o2 <;> simp only [Ordering.then, TT, reduceCtorEq, false_implies,
    implies_true, and_self, and_true, true_and, forall_const] at * <;>
    first
      | (rw [h1]; simp)
      | (rw [h2]; simp)
      | (rw [h3]; simp)
      | (rw [h4]; exact hr)
      | simp_all

theorem TT.pre {s1 s2 s3 t1 t2 t3 : Nat} {r1 r2 r3 : Ordering}
    (hr : s1 = s2 → s2 = s3 → t1 = t2 → t2 = t3 → TT r1 r2 r3) :
    TT (pre s1 s2 t1 t2 r1) (pre s2 s3 t2 t3 r2) (pre s1 s3 t1 t3 r3) := by
  unfold C03.pre
  refine TT.then (TT.of_cmp compare s1 s2 s3) (fun e1 e2 => ?_)
  refine TT.then (TT.of_cmp compare t1 t2 t3) (fun e3 e4 => ?_)
  exact hr (Nat.compare_eq_eq.1 e1) (Nat.compare_eq_eq.1 e2) (Nat.compare_eq_eq.1 e3)
    (Nat.compare_eq_eq.1 e4)

theorem pre_swap (s1 s2 t1 t2 : Nat) (r : Ordering) :
    (pre s1 s2 t1 t2 r).swap = pre s2 s1 t2 t1 r.swap := by
  simp only [C03.pre, Ordering.swap_then, Nat.compare_swap]

theorem pre_eq_eq {s1 s2 t1 t2 : Nat} {r : Ordering} :
    pre s1 s2 t1 t2 r = .eq ↔ s1 = s2 ∧ t1 = t2 ∧ r = .eq := by
  simp only [C03.pre, Ordering.then_eq_eq, Nat.compare_eq_eq]

theorem str_cmp_eq (a b : String) : compare a b = .eq ↔ a = b :=
  Std.LawfulEqCmp.compare_eq_iff_eq

theorem str_cmp_swap (a b : String) : (compare a b).swap = compare b a :=
  (Std.OrientedCmp.eq_swap (cmp := compare) (a := b) (b := a)).symm

/-! ### types -/

mutual
theorem cmpTy_eq : ∀ a b : Ty, fastCompareTyp a b = .eq ↔ a = b
  | .stvar a, .stvar b => by simp [fastCompareTyp, pre_eq_eq, str_cmp_eq]
  | .tvar a, .tvar b => by simp [fastCompareTyp, pre_eq_eq, str_cmp_eq]
  | .con n as, .con m bs => by
    simp only [fastCompareTyp, pre_eq_eq, Ordering.then_eq_eq, str_cmp_eq, cmpTyList_eq as bs,
      Ty.con.injEq, true_and]
    constructor
    · rintro ⟨_, h1, h2⟩; exact ⟨h1, h2⟩
    · rintro ⟨h1, h2⟩; subst h1 h2; exact ⟨rfl, rfl, rfl⟩
  | .stvar _, .tvar _ | .stvar _, .con _ _ | .tvar _, .stvar _ | .tvar _, .con _ _
  | .con _ _, .stvar _ | .con _ _, .tvar _ => by simp [fastCompareTyp, pre_eq_eq, tyTag]
theorem cmpTyList_eq : ∀ a b : List Ty, fastCompareTypList a b = .eq ↔ a = b
  | [], [] => by simp [fastCompareTypList]
  | [], _ :: _ | _ :: _, [] => by simp [fastCompareTypList]
  | a :: as, b :: bs => by
    simp [fastCompareTypList, Ordering.then_eq_eq, cmpTy_eq a b, cmpTyList_eq as bs]
end

mutual
theorem cmpTy_swap : ∀ a b : Ty, (fastCompareTyp a b).swap = fastCompareTyp b a
  | .stvar a, .stvar b => by simp [fastCompareTyp, pre_swap, str_cmp_swap]
  | .tvar a, .tvar b => by simp [fastCompareTyp, pre_swap, str_cmp_swap]
  | .con n as, .con m bs => by
    simp only [fastCompareTyp, pre_swap, Ordering.swap_then, str_cmp_swap, cmpTyList_swap as bs]
  | .stvar _, .tvar _ | .stvar _, .con _ _ | .tvar _, .stvar _ | .tvar _, .con _ _
  | .con _ _, .stvar _ | .con _ _, .tvar _ => by simp [fastCompareTyp, pre_swap]
theorem cmpTyList_swap : ∀ a b : List Ty, (fastCompareTypList a b).swap = fastCompareTypList b a
  | [], [] => by simp [fastCompareTypList]
  | [], _ :: _ | _ :: _, [] => by simp [fastCompareTypList]
  | a :: as, b :: bs => by
    simp [fastCompareTypList, Ordering.swap_then, cmpTy_swap a b, cmpTyList_swap as bs]
end

/-- `fast_compare_typ` in the uniform shape: sizes, tags, then the components -/
def innerTy : Ty → Ty → Ordering
  | .stvar a, .stvar b => compare a b
  | .tvar a, .tvar b => compare a b
  | .con n as, .con m bs => (compare n m).then (fastCompareTypList as bs)
  | _, _ => .eq

theorem cmpTy_unfold (a b : Ty) :
    fastCompareTyp a b = pre (tySize a) (tySize b) (tyTag a) (tyTag b) (innerTy a b) := by
  cases a <;> cases b <;> simp [fastCompareTyp, innerTy, tySize, tyTag]

mutual
theorem cmpTy_tt : ∀ a b c : Ty, TT (fastCompareTyp a b) (fastCompareTyp b c) (fastCompareTyp a c)
  | .stvar a, b, c => by
    rw [cmpTy_unfold, cmpTy_unfold b, cmpTy_unfold (.stvar a) c]
    refine TT.pre (fun _ _ h1 h2 => ?_)
    cases b <;> cases c <;> simp [tyTag] at h1 h2
    exact TT.of_cmp compare _ _ _
  | .tvar a, b, c => by
    rw [cmpTy_unfold, cmpTy_unfold b, cmpTy_unfold (.tvar a) c]
    refine TT.pre (fun _ _ h1 h2 => ?_)
    cases b <;> cases c <;> simp [tyTag] at h1 h2
    exact TT.of_cmp compare _ _ _
  | .con n as, b, c => by
    rw [cmpTy_unfold, cmpTy_unfold b, cmpTy_unfold (.con n as) c]
    refine TT.pre (fun _ _ h1 h2 => ?_)
    cases b <;> cases c <;> simp [tyTag] at h1 h2
    exact TT.then (TT.of_cmp compare _ _ _) (fun _ _ => cmpTyList_tt as _ _)
theorem cmpTyList_tt : ∀ a b c : List Ty,
    TT (fastCompareTypList a b) (fastCompareTypList b c) (fastCompareTypList a c)
  | [], b, c => by cases b <;> cases c <;> simp [fastCompareTypList, TT]
  | a :: as, [], c => by cases c <;> simp [fastCompareTypList, TT]
  | a :: as, b :: bs, [] => by simp [fastCompareTypList, TT]
  | a :: as, b :: bs, c :: cs => by
    simp only [fastCompareTypList]
    exact TT.then (cmpTy_tt a b c) (fun _ _ => cmpTyList_tt as bs cs)
end

/-! ### terms -/

theorem size_aeq (a b : Term) (h : Term.aeq a b = true) : size a = size b := by
  induction a generalizing b with
  | comb f x ihf ihx =>
    cases b <;> simp [Term.aeq] at h
    simp [size, ihf _ h.1, ihx _ h.2]
  | abs x T c ih =>
    cases b <;> simp [Term.aeq] at h
    simp [size, ih _ h.2]
  | _ => cases b <;> simp_all [Term.aeq, size]

theorem cmp_eq (a b : Term) : fastCompare a b = .eq ↔ Term.aeq a b = true := by
  induction a generalizing b with
  | svar n T => cases b <;> simp [fastCompare, pre_eq_eq, Term.aeq, Ordering.then_eq_eq, str_cmp_eq, cmpTy_eq, tag]
  | var n T => cases b <;> simp [fastCompare, pre_eq_eq, Term.aeq, Ordering.then_eq_eq, str_cmp_eq, cmpTy_eq, tag]
  | const n T => cases b <;> simp [fastCompare, pre_eq_eq, Term.aeq, Ordering.then_eq_eq, str_cmp_eq, cmpTy_eq, tag]
  | bound i => cases b <;> simp [fastCompare, pre_eq_eq, Term.aeq, Nat.compare_eq_eq, tag]
  | comb f x ihf ihx =>
    cases b <;> simp [fastCompare, pre_eq_eq, Term.aeq, tag]
    rename_i g y
    simp only [Ordering.then_eq_eq, ihf, ihx]
    constructor
    · rintro ⟨_, h⟩; exact h
    · intro h
      exact ⟨by simp [size, size_aeq _ _ h.1, size_aeq _ _ h.2], h⟩
  | abs x T c ih =>
    cases b <;> simp [fastCompare, pre_eq_eq, Term.aeq, tag]
    rename_i y S d
    simp only [Ordering.then_eq_eq, ih, cmpTy_eq]
    constructor
    · rintro ⟨_, h⟩; exact h
    · intro h
      exact ⟨by simp [size, size_aeq _ _ h.2], h⟩

theorem cmp_swap (a b : Term) : (fastCompare a b).swap = fastCompare b a := by
  induction a generalizing b with
  | svar n T => cases b <;> simp [fastCompare, pre_swap, Ordering.swap_then, str_cmp_swap, cmpTy_swap]
  | var n T => cases b <;> simp [fastCompare, pre_swap, Ordering.swap_then, str_cmp_swap, cmpTy_swap]
  | const n T => cases b <;> simp [fastCompare, pre_swap, Ordering.swap_then, str_cmp_swap, cmpTy_swap]
  | bound i => cases b <;> simp [fastCompare, pre_swap, Nat.compare_swap]
  | comb f x ihf ihx => cases b <;> simp [fastCompare, pre_swap, Ordering.swap_then, ihf, ihx]
  | abs x T c ih => cases b <;> simp [fastCompare, pre_swap, Ordering.swap_then, ih, cmpTy_swap]

def inner : Term → Term → Ordering
  | .svar n T, .svar m S => (compare n m).then (fastCompareTyp T S)
  | .var n T, .var m S => (compare n m).then (fastCompareTyp T S)
  | .const n T, .const m S => (compare n m).then (fastCompareTyp T S)
  | .comb f a, .comb g b => (fastCompare f g).then (fastCompare a b)
  | .abs _ T b, .abs _ S c => (fastCompareTyp T S).then (fastCompare b c)
  | .bound i, .bound j => compare i j
  | _, _ => .eq

theorem cmp_unfold (a b : Term) :
    fastCompare a b = pre (size a) (size b) (tag a) (tag b) (inner a b) := by
  cases a <;> cases b <;> simp [fastCompare, inner, size, tag]

theorem cmp_tt (a b c : Term) : TT (fastCompare a b) (fastCompare b c) (fastCompare a c) := by
  induction a generalizing b c with
  | svar n T =>
    rw [cmp_unfold, cmp_unfold b, cmp_unfold (.svar n T) c]
    refine TT.pre (fun _ _ h1 h2 => ?_)
    cases b <;> cases c <;> simp [tag] at h1 h2
    exact TT.then (TT.of_cmp compare _ _ _) (fun _ _ => cmpTy_tt _ _ _)
  | var n T =>
    rw [cmp_unfold, cmp_unfold b, cmp_unfold (.var n T) c]
    refine TT.pre (fun _ _ h1 h2 => ?_)
    cases b <;> cases c <;> simp [tag] at h1 h2
    exact TT.then (TT.of_cmp compare _ _ _) (fun _ _ => cmpTy_tt _ _ _)
  | const n T =>
    rw [cmp_unfold, cmp_unfold b, cmp_unfold (.const n T) c]
    refine TT.pre (fun _ _ h1 h2 => ?_)
    cases b <;> cases c <;> simp [tag] at h1 h2
    exact TT.then (TT.of_cmp compare _ _ _) (fun _ _ => cmpTy_tt _ _ _)
  | bound i =>
    rw [cmp_unfold, cmp_unfold b, cmp_unfold (.bound i) c]
    refine TT.pre (fun _ _ h1 h2 => ?_)
    cases b <;> cases c <;> simp [tag] at h1 h2
    exact TT.of_cmp compare _ _ _
  | comb f x ihf ihx =>
    rw [cmp_unfold, cmp_unfold b, cmp_unfold (.comb f x) c]
    refine TT.pre (fun _ _ h1 h2 => ?_)
    cases b <;> cases c <;> simp [tag] at h1 h2
    exact TT.then (ihf _ _) (fun _ _ => ihx _ _)
  | abs y T d ih =>
    rw [cmp_unfold, cmp_unfold b, cmp_unfold (.abs y T d) c]
    refine TT.pre (fun _ _ h1 h2 => ?_)
    cases b <;> cases c <;> simp [tag] at h1 h2
    exact TT.then (cmpTy_tt _ _ _) (fun _ _ => ih _ _)


/-- `fast_compare` does not distinguish `==` terms -/
theorem cmp_congr_left (a a' b : Term) (h : Term.aeq a a' = true) :
    fastCompare a b = fastCompare a' b := by
  have e : fastCompare a a' = .eq := (cmp_eq a a').2 h
  have e' : fastCompare a' a = .eq := by rw [← cmp_swap a a', e]; rfl
  obtain ⟨_, _, t3, t4⟩ := cmp_tt a a' b
  obtain ⟨_, _, u3, u4⟩ := cmp_tt a' a b
  cases hb : fastCompare a' b with
  | lt => exact t3 e hb
  | eq => exact t4 e hb
  | gt =>
    cases ha : fastCompare a b with
    | lt => have := u3 e' ha; rw [hb] at this; cases this
    | eq => have := u4 e' ha; rw [hb] at this; cases this
    | gt => rfl

theorem cmp_congr_right (a b b' : Term) (h : Term.aeq b b' = true) :
    fastCompare a b = fastCompare a b' := by
  rw [← cmp_swap b a, ← cmp_swap b' a, cmp_congr_left b b' a h]


/-- strictly increasing w.r.t. `fast_compare` -/
def StrictSorted (l : List Term) : Prop := l.Pairwise (fun a b => fastCompare a b = .lt)

theorem lt_irrefl_of_aeq {a b : Term} (h : Term.aeq a b = true) (hl : fastCompare a b = .lt) : False := by
  rw [(cmp_eq a b).2 h] at hl; cases hl

/-- two strictly increasing lists with the same elements up to `==` are equal up to `==`, position
by position -/
theorem strictSorted_unique : ∀ (l1 l2 : List Term), StrictSorted l1 → StrictSorted l2 →
    (∀ a ∈ l1, ∃ b ∈ l2, Term.aeq a b = true) → (∀ b ∈ l2, ∃ a ∈ l1, Term.aeq a b = true) →
    Forall2 (fun a b => Term.aeq a b = true) l1 l2
  | [], [], _, _, _, _ => .nil
  | [], b :: _, _, _, _, h21 => by
    exfalso
    obtain ⟨a, ha, _⟩ := h21 b (by simp)
    cases ha
  | a :: _, [], _, _, h12, _ => by
    exfalso
    obtain ⟨b, hb, _⟩ := h12 a (by simp)
    cases hb
  | a :: t1, b :: t2, s1, s2, h12, h21 => by
    have s1' := List.pairwise_cons.1 s1
    have s2' := List.pairwise_cons.1 s2
    have hab : Term.aeq a b = true := by
      obtain ⟨b', hb', e1⟩ := h12 a (by simp)
      obtain ⟨a', ha', e2⟩ := h21 b (by simp)
      rcases List.mem_cons.1 hb' with rfl | hb't
      · exact e1
      rcases List.mem_cons.1 ha' with rfl | ha't
      · exact e2
      exfalso
      -- b < b' == a  and  a < a' == b
      have h1 : fastCompare b a = .lt := by
        rw [cmp_congr_right b a b' e1]; exact s2'.1 b' hb't
      have h2 : fastCompare a b = .lt := by
        rw [← cmp_congr_right a a' b e2]; exact s1'.1 a' ha't
      rw [← cmp_swap b a, h1] at h2
      cases h2
    refine .cons hab (strictSorted_unique t1 t2 s1'.2 s2'.2 ?_ ?_)
    · intro x hx
      obtain ⟨y, hy, e⟩ := h12 x (List.mem_cons_of_mem _ hx)
      rcases List.mem_cons.1 hy with rfl | hyt
      · exfalso
        have : Term.aeq a x = true := Term.aeq_trans a y x hab (Term.aeq_symm x y e)
        exact lt_irrefl_of_aeq this (s1'.1 x hx)
      · exact ⟨y, hyt, e⟩
    · intro y hy
      obtain ⟨x, hx, e⟩ := h21 y (List.mem_cons_of_mem _ hy)
      rcases List.mem_cons.1 hx with rfl | hxt
      · exfalso
        have : Term.aeq b y = true := Term.aeq_trans b x y (Term.aeq_symm x b hab) e
        exact lt_irrefl_of_aeq this (s2'.1 y hy)
      · exact ⟨x, hxt, e⟩

end Holpy.C03
