import Holpy.Kernel.SemSubst
/-
C03 — `Term.subst` preserves well-typedness: the replacement step keeps the checked type of every
sub-term (the kernel lemma `sem_substRec` gives the lax type and the denotation).
-/
namespace Holpy.C03
open Holpy

theorem checked_substRec (inst : Term.Inst) (t r : Term) (h : Term.substRec inst t = .ok r)
    (hty : ∀ n T, (n, T) ∈ Term.getSvars t → ∀ s, inst.svars.lookup n = some s →
      Term.checkedGetType [] s = .ok T)
    (bd : List Ty) : Term.checkedGetType bd r = Term.checkedGetType bd t := by
  simp only [Term.mem_getSvars] at hty
  induction t generalizing r bd with
  | svar n T =>
    cases hl : inst.svars.lookup n with
    | none => simp only [Term.substRec, hl] at h; cases h; rfl
    | some s =>
      simp only [Term.substRec, hl] at h
      cases h
      rw [Term.checkedGetType_closed r T (hty n T ⟨rfl, rfl⟩ r hl) bd]
      rfl
  | var n T =>
    cases hl : inst.vars.lookup n with
    | none => simp only [Term.substRec, hl] at h; cases h; rfl
    | some s =>
      simp only [Term.substRec, hl, bind, Except.bind] at h
      split at h
      · cases h
      · rename_i sT hsT
        split at h
        · cases h
        · rename_i hne
          cases h
          have : sT = T := by simpa using hne
          subst this
          rw [Term.checkedGetType_closed r sT hsT bd]
          rfl
  | const n T => simp only [Term.substRec] at h; cases h; rfl
  | bound i => simp only [Term.substRec] at h; cases h; rfl
  | comb f a ihf iha =>
    simp only [Term.substRec, bind, Except.bind] at h
    split at h
    · cases h
    · rename_i f' hf
      split at h
      · cases h
      · rename_i a' ha
        cases h
        simp only [Term.checkedGetType, ihf f' hf bd (fun n T ho => hty n T (Or.inl ho)),
          iha a' ha bd (fun n T ho => hty n T (Or.inr ho))]
  | abs x T b ih =>
    simp only [Term.substRec, bind, Except.bind] at h
    split at h
    · cases h
    · rename_i b' hb
      cases h
      simp only [Term.checkedGetType, ih b' hb (T :: bd) (fun n T ho => hty n T ho)]

/-- β-normal: no sub-term `(%x. b) a` -/
def betaNormal : Term → Bool
  | .comb (.abs _ _ _) _ => false
  | .comb f a => betaNormal f && betaNormal a
  | .abs _ _ b => betaNormal b
  | _ => true

theorem betaNormal_comb (f a : Term) (hf : betaNormal f = true) (ha : betaNormal a = true)
    (hna : ∀ x T b, f ≠ .abs x T b) : betaNormal (.comb f a) = true := by
  cases f <;> simp_all [betaNormal]

/-- whatever `beta_norm` returns contains no redex -/
theorem betaNorm_normal : ∀ (fuel : Nat) (t t' : Term), Term.betaNorm fuel t = .ok t' →
    betaNormal t' = true
  | 0, _, _, h => by simp [Term.betaNorm] at h
  | fuel + 1, t, t', h => by
    cases t with
    | svar n T => simp only [Term.betaNorm, Except.ok.injEq] at h; subst h; rfl
    | var n T => simp only [Term.betaNorm, Except.ok.injEq] at h; subst h; rfl
    | const n T => simp only [Term.betaNorm, Except.ok.injEq] at h; subst h; rfl
    | bound i => simp only [Term.betaNorm, Except.ok.injEq] at h; subst h; rfl
    | abs x T b =>
      simp only [Term.betaNorm, bind, Except.bind] at h
      cases hb : Term.betaNorm fuel b with
      | error e => simp [hb] at h
      | ok b' =>
        simp only [hb, Except.ok.injEq] at h
        subst h
        simpa [betaNormal] using betaNorm_normal fuel b b' hb
    | comb f a =>
      simp only [Term.betaNorm, bind, Except.bind] at h
      cases hf : Term.betaNorm fuel f with
      | error e => simp [hf] at h
      | ok f' =>
        cases ha : Term.betaNorm fuel a with
        | error e => simp [hf, ha] at h
        | ok a' =>
          simp only [hf, ha] at h
          split at h
          · exact betaNorm_normal fuel _ t' h
          · rename_i hna
            simp only [Except.ok.injEq] at h
            subst h
            exact betaNormal_comb f' a' (betaNorm_normal fuel f f' hf) (betaNorm_normal fuel a a' ha)
              (fun x T b e => hna x T b e)


/-- more recursion depth does not change the answer of `beta_norm` -/
theorem betaNorm_succ : ∀ (fuel : Nat) (t t' : Term), Term.betaNorm fuel t = .ok t' →
    Term.betaNorm (fuel + 1) t = .ok t'
  | 0, _, _, h => by simp [Term.betaNorm] at h
  | fuel + 1, t, t', h => by
    cases t with
    | svar n T => simpa [Term.betaNorm] using h
    | var n T => simpa [Term.betaNorm] using h
    | const n T => simpa [Term.betaNorm] using h
    | bound i => simpa [Term.betaNorm] using h
    | abs x T b =>
      simp only [Term.betaNorm, bind, Except.bind] at h
      cases hb : Term.betaNorm fuel b with
      | error e => simp [hb] at h
      | ok b' =>
        rw [hb] at h
        have := betaNorm_succ fuel b b' hb
        rw [Term.betaNorm]
        simp only [bind, Except.bind, this]
        exact h
    | comb f a =>
      simp only [Term.betaNorm, bind, Except.bind] at h
      cases hf : Term.betaNorm fuel f with
      | error e => simp [hf] at h
      | ok f' =>
        cases ha : Term.betaNorm fuel a with
        | error e => simp [hf, ha] at h
        | ok a' =>
          simp only [hf, ha] at h
          have h1 := betaNorm_succ fuel f f' hf
          have h2 := betaNorm_succ fuel a a' ha
          rw [Term.betaNorm]
          simp only [bind, Except.bind, h1, h2]
          split at h
          · rename_i x T b
            simp only [Term.betaConv, Term.substBound] at h ⊢
            exact betaNorm_succ fuel _ t' h
          · rename_i hna
            cases f' with
            | abs x T b => exact absurd rfl (hna x T b)
            | _ => exact h

theorem betaNorm_mono (fuel fuel' : Nat) (t t' : Term) (h : Term.betaNorm fuel t = .ok t')
    (hle : fuel ≤ fuel') : Term.betaNorm fuel' t = .ok t' := by
  induction hle with
  | refl => exact h
  | step _ ih => exact betaNorm_succ _ t t' ih

/-- the only failure of `beta_norm` is exhaustion of the recursion depth (no TermException: the
`beta_conv` it performs is always applied to a redex) -/
theorem betaNorm_error : ∀ (fuel : Nat) (t : Term) (e : TErr), Term.betaNorm fuel t = .error e → e = .fuel
  | 0, _, e, h => by simp only [Term.betaNorm] at h; cases h; rfl
  | fuel + 1, t, e, h => by
    cases t with
    | svar n T => simp [Term.betaNorm] at h
    | var n T => simp [Term.betaNorm] at h
    | const n T => simp [Term.betaNorm] at h
    | bound i => simp [Term.betaNorm] at h
    | abs x T b =>
      simp only [Term.betaNorm, bind, Except.bind] at h
      cases hb : Term.betaNorm fuel b with
      | error e' => rw [hb] at h; cases h; exact betaNorm_error fuel b e hb
      | ok b' => rw [hb] at h; cases h
    | comb f a =>
      simp only [Term.betaNorm, bind, Except.bind] at h
      cases hf : Term.betaNorm fuel f with
      | error e' => rw [hf] at h; cases h; exact betaNorm_error fuel f e hf
      | ok f' =>
        cases ha : Term.betaNorm fuel a with
        | error e' => simp only [hf, ha] at h; cases h; exact betaNorm_error fuel a e ha
        | ok a' =>
          simp only [hf, ha] at h
          split at h
          · simp only [Term.betaConv, Term.substBound] at h
            exact betaNorm_error fuel _ e h
          · cases h

end Holpy.C03
