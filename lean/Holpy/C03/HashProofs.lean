import Holpy.Kernel.SemBasic
import Holpy.C03.Model
/-
C03 — equal terms have equal hash trees: the tuple nest hashed by `Term.__hash__` does not depend
on the suggested names of bound variables.
-/
namespace Holpy.C03
open Holpy

theorem hashTree_erase : ∀ a : Term, hashTree (Term.erase a) = hashTree a
  | .svar _ _ => rfl
  | .var _ _ => rfl
  | .const _ _ => rfl
  | .bound _ => rfl
  | .abs x T b => by simp only [Term.erase, hashTree, hashTree_erase b]
  | .comb (.comb (.const c T) p) (.abs x S body) => by
    have hp := hashTree_erase p
    have hb := hashTree_erase body
    simp only [Term.erase, hashTree, hp, hb]
  | .comb (.comb (.const c T) p) (.svar n S) => by
    have hp := hashTree_erase p
    simp only [Term.erase, hashTree, hp]
  | .comb (.comb (.const c T) p) (.var n S) => by
    have hp := hashTree_erase p
    simp only [Term.erase, hashTree, hp]
  | .comb (.comb (.const c T) p) (.const n S) => by
    have hp := hashTree_erase p
    simp only [Term.erase, hashTree, hp]
  | .comb (.comb (.const c T) p) (.bound n) => by
    have hp := hashTree_erase p
    simp only [Term.erase, hashTree, hp]
  | .comb (.comb (.const c T) p) (.comb u v) => by
    have hp := hashTree_erase p
    have ha := hashTree_erase (.comb u v)
    simp only [Term.erase] at ha
    simp only [Term.erase, hashTree, hp] at ha ⊢
    simp only [ha]
  | .comb (.svar n S) a => by
    have ha := hashTree_erase a
    simp only [Term.erase, hashTree, ha]
  | .comb (.var n S) a => by
    have ha := hashTree_erase a
    simp only [Term.erase, hashTree, ha]
  | .comb (.const n S) a => by
    have ha := hashTree_erase a
    simp only [Term.erase, hashTree, ha]
  | .comb (.bound n) a => by
    have ha := hashTree_erase a
    simp only [Term.erase, hashTree, ha]
  | .comb (.abs x S b) a => by
    have ha := hashTree_erase a
    have hb := hashTree_erase b
    simp only [Term.erase, hashTree, ha, hb]
  | .comb (.comb (.svar n S) p) a => by
    have ha := hashTree_erase a
    have hp := hashTree_erase p
    simp only [Term.erase, hashTree, ha, hp]
  | .comb (.comb (.var n S) p) a => by
    have ha := hashTree_erase a
    have hp := hashTree_erase p
    simp only [Term.erase, hashTree, ha, hp]
  | .comb (.comb (.bound n) p) a => by
    have ha := hashTree_erase a
    have hp := hashTree_erase p
    simp only [Term.erase, hashTree, ha, hp]
  | .comb (.comb (.abs x S b) p) a => by
    have ha := hashTree_erase a
    have hp := hashTree_erase p
    have hb := hashTree_erase b
    simp only [Term.erase, hashTree, ha, hp, hb]
  | .comb (.comb (.comb u v) p) a => by
    have ha := hashTree_erase a
    have hf := hashTree_erase (.comb (.comb u v) p)
    simp only [Term.erase] at hf
    simp only [Term.erase, hashTree, ha] at hf ⊢
    simp only [hf]

theorem hashTree_congr (a b : Term) (h : Term.aeq a b = true) : hashTree a = hashTree b := by
  rw [← hashTree_erase a, ← hashTree_erase b, (Term.aeq_iff_erase a b).1 h]

/-- the loop over a right-nested chain computes the hash tree of the whole chain: for a chain of
`conj` (likewise `disj`) the recursive `hashTree` is the fold the Python performs from the last
element outwards -/
theorem hashTree_chain (tag c : String) (hc : (c == "conj" ∧ tag = "CONJ") ∨ (c == "disj" ∧ tag = "DISJ")) :
    ∀ t : Term, hashTree t = hashChain tag (stripRight c t).1 (stripRight c t).2
  | .comb (.comb (.const n T) p) q => by
    have ih := hashTree_chain tag c hc q
    by_cases hn : (n == c) = true
    · have hn' : n = c := by simpa using hn
      subst hn'
      simp only [stripRight, hn, if_true, hashChain, List.foldr_cons]
      rw [← hashChain, ← ih]
      rcases hc with ⟨h1, h2⟩ | ⟨h1, h2⟩
      · have : n = "conj" := by simpa using h1
        subst this; subst h2
        clear ih; cases q <;> simp [hashTree]
      · have : n = "disj" := by simpa using h1
        subst this; subst h2
        clear ih; cases q <;> simp [hashTree]
    · simp [stripRight, hn, hashChain]
  | .svar _ _ | .var _ _ | .const _ _ | .bound _ | .abs _ _ _ => by simp [stripRight, hashChain]
  | .comb (.svar _ _) _ | .comb (.var _ _) _ | .comb (.const _ _) _ | .comb (.bound _) _
  | .comb (.abs _ _ _) _ => by simp [stripRight, hashChain]
  | .comb (.comb (.svar _ _) _) _ | .comb (.comb (.var _ _) _) _ | .comb (.comb (.bound _) _) _
  | .comb (.comb (.abs _ _ _) _) _ | .comb (.comb (.comb _ _) _) _ => by simp [stripRight, hashChain]

mutual
theorem tyHash_inj : ∀ a b : Ty, tyHash a = tyHash b → a = b
  | .stvar a, .stvar b => by simp [tyHash]
  | .tvar a, .tvar b => by simp [tyHash]
  | .con n as, .con m bs => by
    simp only [tyHash, HTree.tup.injEq, List.cons.injEq, HTree.str.injEq, HTree.hashes.injEq,
      and_true, true_and, Ty.con.injEq]
    rintro ⟨h1, h2⟩
    exact ⟨h1, tyHashList_inj as bs h2⟩
  | .stvar _, .tvar _ | .stvar _, .con _ _ | .tvar _, .stvar _ | .tvar _, .con _ _
  | .con _ _, .stvar _ | .con _ _, .tvar _ => by simp [tyHash]
theorem tyHashList_inj : ∀ a b : List Ty, tyHashList a = tyHashList b → a = b
  | [], [] => by simp
  | [], _ :: _ | _ :: _, [] => by simp [tyHashList]
  | a :: as, b :: bs => by
    simp only [tyHashList, List.cons.injEq]
    rintro ⟨h1, h2⟩
    exact ⟨tyHash_inj a b h1, tyHashList_inj as bs h2⟩
end

end Holpy.C03
