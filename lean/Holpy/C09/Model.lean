import Holpy.Kernel.Term
import Holpy.C09.Gen
/-
C09 — executable model of `logic/matcher.py` (`first_order_match`, `first_order_match_list`,
`is_pattern`, `is_pattern_list`, `find_term`) on the shared kernel terms.  Import-free.

The model follows the code statement by statement (with the fixes fixes/C09-1..4.patch):

* the instantiation is threaded functionally (`MInst`: tyinst, the dict itself, var_inst,
  abs_name_inst); Python copies the caller's `Inst` on entry, so the model never sees aliasing;
* `bd_vars` is the list of free variables standing for the enclosing bound variables;
* recursion is bounded by a fuel argument (the "head variable already instantiated" case
  re-matches a beta-normalised pattern, which is not structurally smaller), `beta_norm` by its own
  fuel `bf`;
* exceptions: `nomatch` (MatchException), `typeCheck` (TypeCheckException out of `get_type`),
  `term` (TermException out of `Lambda`/`abstract_over`), `crash` (IndexError/AssertionError/…).
-/
namespace Holpy.C09
open Holpy

inductive MErr where
  | nomatch     -- MatchException
  | typeCheck   -- TypeCheckException
  | term        -- TermException
  | crash       -- IndexError / AssertionError / AttributeError / TypeError
  | fuel
  deriving Repr, DecidableEq, Inhabited

/-- `Inst`: `tyinst`, the dict (schematic variable ↦ term), `var_inst`, `abs_name_inst`. -/
structure MInst where
  tyinst : Ty.TyInst
  svars : List (String × Term)
  varInst : List (String × Term)
  absNames : List (String × String)
  deriving Repr, Inhabited

def MInst.empty : MInst := ⟨[], [], [], []⟩

def liftT {α : Type} : Except TErr α → Except MErr α
  | .ok a => .ok a
  | .error .typeCheck => .error .typeCheck
  | .error .term => .error .term
  | .error .attr => .error .crash
  | .error .fuel => .error .fuel

/-! ### term helpers -/

/-- `t.head` -/
def headOf : Term → Term
  | .comb f _ => headOf f
  | t => t

/-- `t.args` -/
def argsOf : Term → List Term
  | .comb f a => argsOf f ++ [a]
  | _ => []

/-- `f(*args)` -/
def mkApp (f : Term) (args : List Term) : Term := args.foldl Term.comb f

def isSvar : Term → Bool
  | .svar _ _ => true
  | _ => false

def isVar : Term → Bool
  | .var _ _ => true
  | _ => false

/-- `v in l` for a list of terms (`==` is alpha-equivalence). -/
def memT (v : Term) (l : List Term) : Bool := l.any (fun b => Term.aeq v b)

/-- `len(set(l)) == len(l)`: no two elements equal up to alpha. -/
def distinctT : List Term → Bool
  | [] => true
  | a :: l => !memT a l && distinctT l

/-- `t.get_vars()` (order and repetitions do not matter to the matcher). -/
def varsOf : Term → List Term
  | .var n T => [.var n T]
  | .comb f a => varsOf f ++ varsOf a
  | .abs _ _ b => varsOf b
  | _ => []

def varNamesOf (t : Term) : List String := (varsOf t).map Term.nameOf

/-- names of `t.get_svars()` -/
def svarNamesOf : Term → List String
  | .svar n _ => [n]
  | .comb f a => svarNamesOf f ++ svarNamesOf a
  | .abs _ _ b => svarNamesOf b
  | _ => []

/-- `t.has_vars(vs)` -/
def hasVars (vs : List Term) : Term → Bool
  | .var n T => memT (.var n T) vs
  | .comb f a => hasVars vs f || hasVars vs a
  | .abs _ _ b => hasVars vs b
  | _ => false

/-- `find_term(t, sub_t)` -/
def findTerm (sub : Term) : Term → Bool
  | .comb f a => Term.aeq (.comb f a) sub || findTerm sub f || findTerm sub a
  | .abs x T b => Term.aeq (.abs x T b) sub || findTerm sub b
  | t => Term.aeq t sub

/-- `TFun(*Ts, R)` -/
def tfun (Ts : List Ty) (R : Ty) : Ty := Ts.foldr Ty.fn R

/-- `name.get_variant_name(nm, prevs)`: the loop tries `nm1, nm2, …`; at most `prevs.length`
candidates can be taken, so the fuel is exact. -/
def variantLoop (nm : String) (prevs : List String) : Nat → Nat → String
  | 0, i => nm ++ toString i
  | fuel + 1, i =>
    if prevs.contains (nm ++ toString i) then variantLoop nm prevs fuel (i + 1) else nm ++ toString i

def variantName (nm : String) (prevs : List String) : String :=
  if prevs.contains nm then variantLoop nm prevs prevs.length 1 else nm

/-- `operator.get_info_for_fun(t)` reduced to what the matcher reads: `none` = no entry,
`some b` = entry with `arity == BINARY` iff `b`.  For `equals` the code inspects the first
argument type (`Targs[0]`), which raises IndexError when the type is not a function type. -/
def opInfo : Term → Except MErr (Option Bool)
  | .const n T =>
    if n == "equals" then
      match T with
      | .con "fun" (_ :: _ :: _) => .ok (some true)
      | _ => .error .crash
    else if Gen.binaryOps.contains n then .ok (some true)
    else if Gen.otherOps.contains n then .ok (some false)
    else .ok none
  | _ => .ok none

/-- `t.is_comb(name, nargs)` -/
def isCombConst (name : String) (nargs : Nat) (t : Term) : Bool :=
  match t with
  | .comb _ _ =>
    (match headOf t with
     | .const n _ => n == name
     | _ => false) && (argsOf t).length == nargs
  | _ => false

/-! ### `is_pattern` / `is_pattern_list` (fuel: nesting depth, `2 * size` suffices) -/

def termSize : Term → Nat
  | .comb f a => termSize f + termSize a + 1
  | .abs _ _ b => termSize b + 1
  | _ => 1

mutual
def isPattern : Nat → Term → List String → List String → Bool
  | 0, _, _, _ => false
  | fuel + 1, t, matched, bd =>
    match t with
    | .abs _ _ b => isPattern fuel b matched bd
    | _ =>
      match headOf t with
      | .svar hn _ =>
        if !matched.contains hn then
          (argsOf t).all (fun arg =>
            match arg with
            | .bound _ => true
            | .svar n _ => matched.contains n
            | .var n _ => bd.contains n
            | _ => false) && distinctT (argsOf t)
        else isPatternList fuel (argsOf t) matched bd
      | _ => isPatternList fuel (argsOf t) matched bd
def isPatternList : Nat → List Term → List String → List String → Bool
  | 0, _, _, _ => false
  | _ + 1, [], _, _ => true
  | fuel + 1, [t], matched, bd => isPattern fuel t matched bd
  | fuel + 1, t :: ts, matched, bd =>
    if isPattern fuel t matched [] then
      isPatternList fuel ts (matched ++ svarNamesOf t) bd
    else
      if !isPatternList fuel ts matched bd then false
      else isPattern fuel t (matched ++ ts.flatMap svarNamesOf) bd
end

def isPat (t : Term) (matched bd : List String) : Bool :=
  isPattern (2 * termSize t + 2) t matched bd

/-! ### instantiation updates -/

/-- `T.match_incr(U, inst.tyinst)` with TypeMatchException turned into MatchException. -/
def bindTy (T U : Ty) (i : MInst) : Except MErr MInst :=
  match Ty.matchIncr T U i.tyinst with
  | some σ => .ok { i with tyinst := σ }
  | none => .error .nomatch

/-- `inst[n] = t` for a name that is not yet a key. -/
def MInst.addSvar (i : MInst) (n : String) (t : Term) : MInst := { i with svars := i.svars ++ [(n, t)] }

/-- `if x not in inst.abs_name_inst: inst.abs_name_inst[x] = y` -/
def MInst.addAbsName (i : MInst) (x y : String) : MInst :=
  match i.absNames.lookup x with
  | some _ => i
  | none => { i with absNames := i.absNames ++ [(x, y)] }

def lam (v body : Term) : Except MErr Term := liftT (Term.mkLambda v body)

/-! ### the non-recursive cases -/

/-- `pat.is_svar()` -/
def matchSvar (bd : List Term) (inst : MInst) (n : String) (T : Ty) (t : Term) : Except MErr MInst :=
  match inst.svars.lookup n with
  | none =>
    if hasVars bd t then .error .nomatch
    else do
      let tT ← liftT (Term.getType [] t)
      let i1 ← bindTy T tT inst
      .ok (i1.addSvar n t)
  | some s => if Term.aeq s t then .ok inst else .error .nomatch

/-- `pat.is_var() or pat.is_const()` -/
def matchAtom (inst : MInst) (pat t : Term) : Except MErr MInst :=
  match pat, t with
  | .var n T, .var m U => if n == m then bindTy T U inst else .error .nomatch
  | .const n T, .const m U => if n == m then bindTy T U inst else .error .nomatch
  | _, _ => .error .nomatch

/-- the three tests that send `?f a1 … an` (head not instantiated) to the heuristic branch -/
def needsHeuristic (bd : List Term) (inst : MInst) (args : List Term) (t : Term) : Bool :=
  args.any (fun v => !(memT v bd ||
      (match v with
       | .svar n _ => (inst.svars.lookup n).isSome
       | _ => false)))
  || !distinctT args
  || bd.any (fun v => memT v (varsOf t) && !memT v args)

/-- types of the arguments of a Miller pattern -/
def argTypes (bd : List Term) (inst : MInst) : List Term → Except MErr (List Ty)
  | [] => .ok []
  | v :: rest => do
    let T ←
      if memT v bd then (.ok (Term.typeOfAtom v) : Except MErr Ty)
      else match v with
        | .svar n _ =>
          match inst.svars.lookup n with
          | some s => liftT (Term.getType [] s)
          | none => .error .crash
        | _ => .error .crash
    let Ts ← argTypes bd inst rest
    .ok (T :: Ts)

/-- one round of the abstraction loop (`for v in reversed(pat.args)`) -/
def abstractStep (bd : List Term) (inst : MInst) (v instT : Term) : Except MErr Term :=
  if memT v bd then
    match instT with
    | .comb tf ta =>
      if Term.aeq ta v && !memT v (varsOf tf) then do
        let op ← opInfo (headOf instT)
        if isCombConst "IF" 3 instT then lam v instT
        else match op with
          | none => .ok tf
          | some true => if (argsOf instT).length == 2 then lam v instT else .ok tf
          | some false => .ok tf
      else lam v instT
    | _ => lam v instT
  else
    match v with
    | .svar n _ =>
      match inst.svars.lookup n with
      | some iv =>
        match instT with
        | .comb tf ta =>
          if Term.aeq ta iv && !findTerm iv tf then .ok tf
          else if isVar iv then lam iv instT else .error .nomatch
        | _ => if isVar iv then lam iv instT else .error .nomatch
      | none => .error .crash
    | _ => .error .crash

def abstractArgs (bd : List Term) (inst : MInst) : List Term → Term → Except MErr Term
  | [], instT => .ok instT
  | v :: rest, instT => do
    let r ← abstractStep bd inst v instT
    abstractArgs bd inst rest r

/-- the Miller-pattern case: `?f x1 … xn` against `t` -/
def matchMiller (bd : List Term) (inst : MInst) (hn : String) (hT : Ty) (args : List Term) (t : Term) :
    Except MErr MInst := do
  let Ts ← argTypes bd inst args
  let tT ← liftT (Term.getType [] t)
  let i1 ← bindTy hT (tfun Ts tT) inst
  let r ← abstractArgs bd i1 args.reverse t
  .ok (i1.addSvar hn r)

/-! ### the recursive cases, with the recursive call `match` as parameter `k` -/

abbrev Rec := List Term → MInst → Term → Term → Except MErr MInst

/-- heuristic branch: `?f a` (head not instantiated, not a Miller pattern) against `tf ta` -/
def heurCase (k : Rec) (bd : List Term) (inst : MInst) (hn : String) (hT : Ty) (f a t : Term) :
    Except MErr MInst :=
  match t with
  | .comb tf ta =>
    if isSvar f && !hasVars bd tf then do
      let tfT ← liftT (Term.getType [] tf)
      let i1 ← bindTy hT tfT inst
      k bd (i1.addSvar hn tf) a ta
    else .error .nomatch
  | _ => .error .nomatch

/-- head variable already instantiated to `s`: apply, beta-normalise both sides, match again -/
def instHeadCase (k : Rec) (bf : Nat) (bd : List Term) (inst : MInst) (s : Term) (args : List Term) (t : Term) :
    Except MErr MInst := do
  let pat2 ← liftT (Term.betaNorm bf (mkApp s args))
  let t2 ← liftT (Term.betaNorm bf t)
  k bd inst pat2 t2

/-- application whose head is not a schematic variable -/
def combCase (k : Rec) (bd : List Term) (inst : MInst) (f a t : Term) : Except MErr MInst :=
  match t with
  | .comb tf ta =>
    if isPat f (inst.svars.map Prod.fst) (bd.map Term.nameOf) then do
      let i1 ← k bd inst f tf
      k bd i1 a ta
    else do
      let i1 ← k bd inst a ta
      k bd i1 f tf
  | _ => .error .nomatch

/-- abstraction (against an abstraction, or against a term of function type after eta-expansion) -/
def absCase (k : Rec) (bd : List Term) (inst : MInst) (x : String) (T : Ty) (body t : Term) :
    Except MErr MInst :=
  match t with
  | .abs y U tb => do
    let i1 ← bindTy T U inst
    let T' := T.subst i1.tyinst
    let i2 := i1.addAbsName x y
    let names := varNamesOf body ++ varNamesOf tb ++ i2.svars.flatMap (fun p => varNamesOf p.2)
    let v := Term.var (variantName x names) T'
    k (v :: bd) i2 (Term.substBoundAt v 0 (Term.substType i2.tyinst body)) (Term.substBoundAt v 0 tb)
  | _ => do
    let tT ← liftT (Term.getType [] t)
    if !tT.isFun then .error .nomatch
    else match tT.domain? with
      | none => .error .crash
      | some d => do
        let i1 ← bindTy T d inst
        k bd i1 (.abs x T body) (.abs x (T.subst i1.tyinst) (.comb t (.bound 0)))

/-! ### `match(pat, t)` -/

def matchAux (bf : Nat) : Nat → Rec
  | 0, _, _, _, _ => .error .fuel
  | fuel + 1, bd, inst, pat, t =>
    match pat with
    | .svar n T => matchSvar bd inst n T t
    | .var n T => matchAtom inst (.var n T) t
    | .const n T => matchAtom inst (.const n T) t
    | .bound _ => .error .nomatch
    | .comb f a =>
      match headOf f with
      | .svar hn hT =>
        match inst.svars.lookup hn with
        | none =>
          if needsHeuristic bd inst (argsOf (.comb f a)) t then
            heurCase (matchAux bf fuel) bd inst hn hT f a t
          else matchMiller bd inst hn hT (argsOf (.comb f a)) t
        | some s => instHeadCase (matchAux bf fuel) bf bd inst s (argsOf (.comb f a)) t
      | _ => combCase (matchAux bf fuel) bd inst f a t
    | .abs x T body => absCase (matchAux bf fuel) bd inst x T body t

/-- `first_order_match(pat, t, inst)` (the copy of `inst` made on entry is the functional threading). -/
def firstOrderMatch (bf fuel : Nat) (pat t : Term) (inst : MInst) : Except MErr MInst :=
  matchAux bf fuel [] inst pat t

/-- `first_order_match_list(pats, ts, inst)` -/
def firstOrderMatchList (bf fuel : Nat) : List Term → List Term → MInst → Except MErr MInst
  | [], _, inst => .ok inst
  | [p], ts, inst =>
    match ts with
    | t :: _ => firstOrderMatch bf fuel p t inst
    | [] => .error .crash
  | p :: ps, ts, inst =>
    match ts with
    | t :: ts' =>
      if isPat p (inst.svars.map Prod.fst) [] then do
        let i1 ← firstOrderMatch bf fuel p t inst
        firstOrderMatchList bf fuel ps ts' i1
      else do
        let i1 ← firstOrderMatchList bf fuel ps ts' inst
        firstOrderMatch bf fuel p t i1
    | [] => .error .crash

end Holpy.C09
