import Holpy.C09.ProofsAbsSound
import Holpy.Kernel.SemVar
import Holpy.Kernel.SemSubst
/-
C09 — SEMANTIC soundness of the matcher, all branches (helper lemmas, part 1: vocabulary,
invariants, leaves, applications, abstractions, heuristic branch).

"Semantic": in every finite standard model `M` (Kernel/Sem.lean) and every admissible valuation
`ρ` that gives each instantiated schematic variable the value of its instance (`Sat`), the
type-instantiated pattern and the target have the same denotation.  `sem` is invariant under beta
(`sem_beta`, `sem_betaNorm`) and eta (`lamCode_appCode`), so this is soundness modulo beta-eta.
-/
set_option linter.unnecessarySimpa false
set_option linter.unusedSimpArgs false
set_option linter.unusedVariables false
namespace Holpy.C09
open Holpy

/-! ### well-formed function types (a `fun` has exactly two arguments) -/

mutual
def tyWF : Ty → Bool
  | .con n args => (n != "fun" || args.length == 2) && tyWFList args
  | _ => true
def tyWFList : List Ty → Bool
  | [] => true
  | a :: as => tyWF a && tyWFList as
end

theorem tyWFList_mem : ∀ (l : List Ty), tyWFList l = true → ∀ a ∈ l, tyWF a = true
  | [], _, a, ha => by simp at ha
  | b :: l, h, a, ha => by
    simp only [tyWFList, Bool.and_eq_true] at h
    rcases List.mem_cons.1 ha with rfl | ha
    · exact h.1
    · exact tyWFList_mem l h.2 a ha

/-- stable (no schematic type variable) and well-formed -/
def TyOK (T : Ty) : Prop := TyStable T ∧ tyWF T = true

theorem TyOK.fn {a b : Ty} (ha : TyOK a) (hb : TyOK b) : TyOK (Ty.fn a b) :=
  ⟨TyStable.fn ha.1 hb.1, by simp [Ty.fn, tyWF, tyWFList, ha.2, hb.2]⟩

/-- a well-formed function type is `a ⇒ b` -/
theorem TyOK.fun_inv {T : Ty} (h : TyOK T) (hf : T.isFun = true) :
    ∃ a b, T = Ty.fn a b ∧ TyOK a ∧ TyOK b := by
  unfold Ty.isFun at hf
  split at hf
  · next args =>
    have hw := h.2
    simp only [tyWF, bne_self_eq_false, Bool.false_or, Bool.and_eq_true, beq_iff_eq] at hw
    match args, hw with
    | [a, b], hw =>
      simp only [tyWFList, Bool.and_eq_true, Bool.and_true] at hw
      exact ⟨a, b, rfl, ⟨h.1.args a (by simp), hw.2.1⟩, ⟨h.1.args b (by simp), hw.2.2⟩⟩
  · simp at hf

/-- every type annotation is OK -/
def tOK : Term → Prop
  | .svar _ T | .var _ T | .const _ T => TyOK T
  | .comb f a => tOK f ∧ tOK a
  | .abs _ T b => TyOK T ∧ tOK b
  | .bound _ => True

theorem tOK.stable : ∀ t : Term, tOK t → tStable t := by
  intro t
  induction t with
  | comb f a ihf iha => intro h; exact ⟨ihf h.1, iha h.2⟩
  | abs x T b ih => intro h; exact ⟨h.1.1, ih h.2⟩
  | svar n T => intro h; exact h.1
  | var n T => intro h; exact h.1
  | const n T => intro h; exact h.1
  | bound i => intro _; trivial

theorem getType_ok : ∀ (t : Term) (bd : List Ty) (U : Ty), tOK t → (∀ B ∈ bd, TyOK B) →
    Term.getType bd t = .ok U → TyOK U := by
  intro t
  induction t with
  | svar n T => intro bd U h _ hg; simp only [Term.getType, Except.ok.injEq] at hg; subst hg; exact h
  | var n T => intro bd U h _ hg; simp only [Term.getType, Except.ok.injEq] at hg; subst hg; exact h
  | const n T => intro bd U h _ hg; simp only [Term.getType, Except.ok.injEq] at hg; subst hg; exact h
  | comb f a ihf _ =>
    intro bd U h hbd hg
    simp only [Term.getType] at hg
    obtain ⟨tf, hf, hg⟩ := bind_ok hg
    split at hg
    · next hfun =>
      obtain ⟨a', b', rfl, _, hb'⟩ := (ihf bd tf h.1 hbd hf).fun_inv hfun
      simp only [Ty.fn, Ty.range?, Except.ok.injEq] at hg; subst hg; exact hb'
    · simp at hg
  | abs x T b ih =>
    intro bd U h hbd hg
    simp only [Term.getType] at hg
    obtain ⟨tb, hb, hg⟩ := bind_ok hg
    simp only [Except.ok.injEq] at hg; subst hg
    exact TyOK.fn h.1 (ih (T :: bd) tb h.2 (by
      intro B hB; rcases List.mem_cons.1 hB with rfl | hB
      · exact h.1
      · exact hbd B hB) hb)
  | bound i =>
    intro bd U _ hbd hg
    simp only [Term.getType] at hg
    split at hg
    · next S hS => simp only [Except.ok.injEq] at hg; subst hg; exact hbd _ (List.mem_of_getElem? hS)
    · simp at hg

theorem tOK_open (nm : String) (U : Ty) (hU : TyOK U) : ∀ (t : Term) (n : Nat), tOK t →
    tOK (Term.substBoundAt (.var nm U) n t) := by
  intro t
  induction t with
  | comb f a ihf iha => intro n h; exact ⟨ihf n h.1, iha n h.2⟩
  | abs x T b ih => intro n h; exact ⟨h.1, ih (n + 1) h.2⟩
  | bound j =>
    intro n _
    simp only [Term.substBoundAt]
    split
    · exact hU
    · split <;> trivial
  | svar m T => intro n h; exact h
  | var m T => intro n h; exact h
  | const m T => intro n h; exact h

/-! ### valuations -/

/-- the valuation gives every instantiated schematic variable the value of its instance -/
def Sat (M : Model) (ρ : Valuation) (i : MInst) : Prop :=
  ∀ n s U, i.svars.lookup n = some s → Term.checkedGetType [] s = .ok U → ρ 0 n U = sem M ρ [] [] s

theorem Sat.mono {M : Model} {ρ : Valuation} {i i' : MInst} (h : Sat M ρ i') (he : Ext i i') : Sat M ρ i :=
  fun n s U hl hU => h n s U (he.sv n s hl) hU

theorem update_self (ρ : Valuation) (k : Nat) (n : String) (T : Ty) : ρ.update k n T (ρ k n T) = ρ := by
  funext k' n' T'
  unfold Valuation.update
  split
  · next h => rw [h.1, h.2.1, h.2.2]
  · rfl

theorem update_at (ρ : Valuation) (k : Nat) (n : String) (T : Ty) (v : Nat) : (ρ.update k n T v) k n T = v := by
  simp [Valuation.update]

theorem occursVar_eq_hasVars (nm : String) (U : Ty) : ∀ t : Term,
    Term.occursVar (.var nm U) t = hasVars [.var nm U] t := by
  intro t
  induction t with
  | comb f a ihf iha => simp only [Term.occursVar, hasVars, ihf, iha]
  | abs x T b ih => simp only [Term.occursVar, hasVars, ih]
  | var n T => simp [Term.occursVar, hasVars, memT]
  | svar n T => simp [Term.occursVar, hasVars, Term.aeq]
  | const n T => rfl
  | bound i => rfl

/-- changing the value of a stand-in variable that no instance mentions keeps `Sat` -/
theorem Sat.update {M : Model} {ρ : Valuation} {i : MInst} (h : Sat M ρ i) (nm : String) (U : Ty) (v : Nat)
    (hav : ∀ n s, i.svars.lookup n = some s → hasVars [.var nm U] s = false) : Sat M (ρ.update 1 nm U v) i := by
  intro n s V hl hV
  have h1 : (ρ.update 1 nm U v) 0 n V = ρ 0 n V := by simp [Valuation.update]
  rw [h1, h n s V hl hV]
  exact (sem_update_of_not_occurs M ρ (.var nm U) 1 nm U rfl s
    (by rw [occursVar_eq_hasVars]; exact hav n s hl) v [] []).symm

/-! ### the invariant of the instantiation and the shape of the result -/

/-- every stand-in is a variable of an OK type -/
def BdOK (bd : List Term) : Prop := ∀ w ∈ bd, ∃ nm U, w = Term.var nm U ∧ TyOK U

structure HInv (D : List (String × Ty)) (bd : List Term) (i : MInst) : Prop where
  st : TyInstStable i.tyinst
  av : AvoidBd bd i
  vt : ∀ n s, i.svars.lookup n = some s → ∃ U, Term.checkedGetType [] s = .ok U
  vo : ∀ n s, i.svars.lookup n = some s → tOK s
  nv : ∀ n s, i.svars.lookup n = some s → svarNamesOf s = []
  td : TypedBy D i

/-- the schematic variables of the pattern are used at (instances of) their declared types -/
def PatInS (D : List (String × Ty)) (σ : Ty.TyInst) : Term → Prop
  | .svar n T => ∃ T0, D.lookup n = some T0 ∧ ∀ τ, ExtL σ τ → T.subst τ = T0.subst τ
  | .comb f a => PatInS D σ f ∧ PatInS D σ a
  | .abs _ _ b => PatInS D σ b
  | _ => True

theorem PatInS.mono (D : List (String × Ty)) {σ σ' : Ty.TyInst} (he : ExtL σ σ') : ∀ p : Term,
    PatInS D σ p → PatInS D σ' p := by
  intro p
  induction p with
  | svar n T => intro ⟨T0, h1, h2⟩; exact ⟨T0, h1, fun τ hτ => h2 τ (he.trans hτ)⟩
  | comb f a ihf iha => intro h; exact ⟨ihf h.1, iha h.2⟩
  | abs x T b ih => intro h; exact ih h
  | var n T => intro _; trivial
  | const n T => intro _; trivial
  | bound i => intro _; trivial

theorem extL_below {σ τ : Ty.TyInst} (h : ExtL σ τ) : TyBelow σ τ :=
  fun n V hn => by simp [Ty.subst, h n V hn]

theorem PatInS.substType (D : List (String × Ty)) {σ : Ty.TyInst} (hs : TyInstStable σ) : ∀ p : Term,
    PatInS D σ p → PatInS D σ (Term.substType σ p) := by
  intro p
  induction p with
  | svar n T =>
    intro ⟨T0, h1, h2⟩
    exact ⟨T0, h1, fun τ hτ => by rw [subst_below σ τ (extL_below hτ) hs]; exact h2 τ hτ⟩
  | comb f a ihf iha => intro h; exact ⟨ihf h.1, iha h.2⟩
  | abs x T b ih => intro h; exact ih h
  | var n T => intro _; trivial
  | const n T => intro _; trivial
  | bound i => intro _; trivial

theorem PatInS.open (D : List (String × Ty)) (σ : Ty.TyInst) (nm : String) (U : Ty) : ∀ (p : Term) (n : Nat),
    PatInS D σ p → PatInS D σ (Term.substBoundAt (.var nm U) n p) := by
  intro p
  induction p with
  | comb f a ihf iha => intro n h; exact ⟨ihf n h.1, iha n h.2⟩
  | abs x T b ih => intro n h; exact ih (n + 1) h
  | bound j =>
    intro n _
    simp only [Term.substBoundAt]
    split
    · trivial
    · split <;> trivial
  | svar m T => intro n h; exact h
  | var m T => intro n _; trivial
  | const m T => intro n _; trivial

/-- what a successful sub-match establishes -/
def ConclSem (i' : MInst) (p t : Term) : Prop :=
  ∀ τ, ExtL i'.tyinst τ → (∃ S, Term.checkedGetType [] (Term.substType τ p) = .ok S) →
    Term.getType [] (Term.substType τ p) = Term.getType [] t ∧
    ∀ M ρ, Admissible M ρ → Sat M ρ i' → sem M ρ [] [] (Term.substType τ p) = sem M ρ [] [] t

theorem ConclSem.mono {i' i'' : MInst} {p t : Term} (h : ConclSem i' p t) (he : Ext i' i'') : ConclSem i'' p t :=
  fun τ hτ hty => ⟨(h τ (he.ty.trans hτ) hty).1, fun M ρ hρ hs => (h τ (he.ty.trans hτ) hty).2 M ρ hρ (hs.mono he)⟩

/-- the target side: closed, well-typed, OK annotations, no schematic variables -/
structure TgtOK (t : Term) : Prop where
  wt : ∃ S, Term.checkedGetType [] t = .ok S
  ok : tOK t
  ns : svarNamesOf t = []

def RecSem (D : List (String × Ty)) (k : Rec) : Prop :=
  ∀ bd i p t i', PatInS D i.tyinst p → TgtOK t → HInv D bd i → BdOK bd → k bd i p t = .ok i' →
    HInv D bd i' ∧ ConclSem i' p t

/-! ### maintaining the invariant -/

theorem lookup_add_cases {α : Type} (l : List (String × α)) (n : String) (a : α) (m : String) (x : α)
    (h : (l ++ [(n, a)]).lookup m = some x) : l.lookup m = some x ∨ (m = n ∧ x = a) := by
  cases hm0 : l.lookup m with
  | some x0 =>
    rw [lookup_append_some _ _ m x0 hm0] at h
    simp only [Option.some.injEq] at h; subst h; exact Or.inl rfl
  | none =>
    rw [lookup_append_none _ _ m hm0] at h
    simp only [List.lookup_cons, List.lookup_nil] at h
    cases hmn : m == n with
    | true =>
      rw [hmn] at h; simp only [Option.some.injEq] at h
      exact Or.inr ⟨by simpa using hmn, h.symm⟩
    | false => rw [hmn] at h; simp at h

theorem HInv.bindTy {D : List (String × Ty)} {bd : List Term} {i i1 : MInst} {T U : Ty} (h : HInv D bd i)
    (h1 : bindTy T U i = .ok i1) (hU : TyStable U) : HInv D bd i1 := by
  obtain ⟨he, hsv, _, _⟩ := bindTy_spec h1
  exact ⟨bindTy_stable h1 hU h.st, by intro n s hl; rw [hsv] at hl; exact h.av n s hl,
    by intro n s hl; rw [hsv] at hl; exact h.vt n s hl, by intro n s hl; rw [hsv] at hl; exact h.vo n s hl,
    by intro n s hl; rw [hsv] at hl; exact h.nv n s hl, h.td.mono_ty he.ty hsv⟩

theorem HInv.addSvar {D : List (String × Ty)} {bd : List Term} {i1 : MInst} {n : String} {s : Term} {U : Ty}
    (h : HInv D bd i1) (hav : hasVars bd s = false) (hU : Term.checkedGetType [] s = .ok U) (ho : tOK s)
    (hn : svarNamesOf s = [])
    (hD : ∀ T0, D.lookup n = some T0 → ∀ τ, ExtL i1.tyinst τ → T0.subst τ = U) : HInv D bd (i1.addSvar n s) := by
  refine ⟨h.st, ?_, ?_, ?_, ?_, ?_⟩
  · intro m x hm
    rcases lookup_add_cases _ _ _ _ _ hm with hm | ⟨_, rfl⟩
    · exact h.av m x hm
    · exact hav
  · intro m x hm
    rcases lookup_add_cases _ _ _ _ _ hm with hm | ⟨_, rfl⟩
    · exact h.vt m x hm
    · exact ⟨U, hU⟩
  · intro m x hm
    rcases lookup_add_cases _ _ _ _ _ hm with hm | ⟨_, rfl⟩
    · exact h.vo m x hm
    · exact ho
  · intro m x hm
    rcases lookup_add_cases _ _ _ _ _ hm with hm | ⟨_, rfl⟩
    · exact h.nv m x hm
    · exact hn
  · intro m T0 x hDm hm
    rcases lookup_add_cases _ _ _ _ _ hm with hm | ⟨rfl, rfl⟩
    · exact h.td m T0 x hDm hm
    · exact ⟨U, Term.getType_of_checked [] _ U hU, fun τ hτ => hD T0 hDm τ hτ⟩

theorem HInv.tail {D : List (String × Ty)} {v : Term} {bd : List Term} {i : MInst} (h : HInv D (v :: bd) i) :
    HInv D bd i := ⟨h.st, h.av.tail, h.vt, h.vo, h.nv, h.td⟩

/-- the lax and the checked type of a well-typed closed term -/
theorem TgtOK.types {t : Term} (h : TgtOK t) : ∃ S, Term.checkedGetType [] t = .ok S ∧ Term.getType [] t = .ok S ∧ TyOK S := by
  obtain ⟨S, hS⟩ := h.wt
  have hl := Term.getType_of_checked [] t S hS
  exact ⟨S, hS, hl, getType_ok t [] S h.ok (by simp) hl⟩

theorem TgtOK.comb {f a : Term} (h : TgtOK (.comb f a)) : TgtOK f ∧ TgtOK a := by
  obtain ⟨S, hS⟩ := h.wt
  obtain ⟨tf, ta, hf, ha, _⟩ := Term.checkedGetType_comb_inv [] f a S hS
  have hns := h.ns
  simp only [svarNamesOf, List.append_eq_nil_iff] at hns
  exact ⟨⟨⟨tf, hf⟩, h.ok.1, hns.1⟩, ⟨⟨ta, ha⟩, h.ok.2, hns.2⟩⟩

/-! ### leaves -/

theorem matchSvar_sem {D : List (String × Ty)} {bd : List Term} {i i' : MInst} {n : String} {T : Ty} {t : Term}
    (hp : PatInS D i.tyinst (.svar n T)) (ht : TgtOK t) (hinv : HInv D bd i)
    (h : matchSvar bd i n T t = .ok i') : HInv D bd i' ∧ ConclSem i' (.svar n T) t := by
  obtain ⟨S, hS, hSl, hSok⟩ := ht.types
  obtain ⟨T0, hD, hT0⟩ := hp
  simp only [matchSvar] at h
  split at h
  · next hl =>
    split at h
    · simp at h
    · next hv =>
      obtain ⟨tT, htT, h⟩ := bind_ok h
      obtain ⟨i1, h1, h⟩ := bind_ok h
      simp only [Except.ok.injEq] at h; subst h
      have htT' := liftT_ok htT
      rw [hSl] at htT'; simp only [Except.ok.injEq] at htT'; subst htT'
      obtain ⟨he, hsv, _, hsub⟩ := bindTy_spec h1
      have hinv1 := hinv.bindTy h1 hSok.1
      have hl1 : i1.svars.lookup n = none := by rw [hsv]; exact hl
      refine ⟨hinv1.addSvar (by simpa using hv) hS ht.ok ht.ns ?_, ?_⟩
      · intro T0' hD' τ hτ
        rw [hD] at hD'; simp only [Option.some.injEq] at hD'; subst hD'
        rw [← hT0 τ (he.ty.trans hτ)]; exact hsub τ hτ
      · intro τ hτ _
        have hτ1 : ExtL i1.tyinst τ := hτ
        refine ⟨by simp only [Term.substType, Term.getType, hsub τ hτ1, hSl], ?_⟩
        intro M ρ _ hsat
        simp only [Term.substType, sem, hsub τ hτ1]
        exact hsat n t S (by simp only [MInst.addSvar, hsv]; exact lookup_append_new _ n t hl) hS
  · next s hl =>
    split at h
    · next haeq =>
      simp only [Except.ok.injEq] at h; subst h
      refine ⟨hinv, ?_⟩
      intro τ hτ _
      obtain ⟨U, hU, hUτ⟩ := hinv.td n T0 s hD hl
      obtain ⟨U', hU'⟩ := hinv.vt n s hl
      have hUU : U' = U := by
        have := Term.getType_of_checked [] s U' hU'
        rw [hU] at this; simp only [Except.ok.injEq] at this; exact this.symm
      subst hUU
      have hTτ : T.subst τ = U' := by rw [hT0 τ hτ]; exact hUτ τ hτ
      refine ⟨by simp only [Term.substType, Term.getType, hTτ, ← getType_aeq haeq, hU], ?_⟩
      intro M ρ _ hsat
      simp only [Term.substType, sem, hTτ]
      rw [hsat n s U' hl hU']
      exact sem_aeq M ρ s t haeq [] []
    · simp at h

theorem matchAtom_sem {D : List (String × Ty)} {bd : List Term} {i i' : MInst} {pat t : Term}
    (ht : TgtOK t) (hinv : HInv D bd i) (h : matchAtom i pat t = .ok i') :
    HInv D bd i' ∧ ConclSem i' pat t := by
  unfold matchAtom at h
  split at h
  · next n T m U =>
    split at h
    · next hnm =>
      have hnm' : n = m := by simpa using hnm
      subst hnm'
      obtain ⟨_, _, _, hsub⟩ := bindTy_spec h
      refine ⟨hinv.bindTy h ht.ok.1, fun τ hτ _ => ⟨by simp only [Term.substType, Term.getType, hsub τ hτ], ?_⟩⟩
      intro M ρ _ _
      simp only [Term.substType, sem, hsub τ hτ]
    · simp at h
  · next n T m U =>
    split at h
    · next hnm =>
      have hnm' : n = m := by simpa using hnm
      subst hnm'
      obtain ⟨_, _, _, hsub⟩ := bindTy_spec h
      refine ⟨hinv.bindTy h ht.ok.1, fun τ hτ _ => ⟨by simp only [Term.substType, Term.getType, hsub τ hτ], ?_⟩⟩
      intro M ρ _ _
      simp only [Term.substType, sem, hsub τ hτ]
    · simp at h
  · simp at h

/-! ### applications whose head is not a schematic variable -/

theorem combCase_sem {D : List (String × Ty)} {k : Rec} (hk : RecSem D k) (hke : RecExt k) {bd : List Term}
    {i i' : MInst} {f a t : Term} (hp : PatInS D i.tyinst (.comb f a)) (ht : TgtOK t) (hinv : HInv D bd i)
    (hbd : BdOK bd) (h : combCase k bd i f a t = .ok i') : HInv D bd i' ∧ ConclSem i' (.comb f a) t := by
  unfold combCase at h
  split at h
  · next tf ta =>
    obtain ⟨htf, hta⟩ := ht.comb
    have key : ∀ i1, Ext i1 i' → ConclSem i' f tf → ConclSem i' a ta → ConclSem i' (.comb f a) (.comb tf ta) := by
      intro i1 _ cf ca τ hτ hty
      obtain ⟨S, hS⟩ := hty
      simp only [Term.substType] at hS
      obtain ⟨tf', ta', hf', ha', _⟩ := Term.checkedGetType_comb_inv [] _ _ S hS
      obtain ⟨tyf, semf⟩ := cf τ hτ ⟨tf', hf'⟩
      obtain ⟨_, sema⟩ := ca τ hτ ⟨ta', ha'⟩
      refine ⟨by simp only [Term.substType, Term.getType, tyf], ?_⟩
      intro M ρ hρ hsat
      simp only [Term.substType]
      exact sem_comb_congr M ρ [] [] tf _ ta _ tyf (semf M ρ hρ hsat) (sema M ρ hρ hsat)
    split at h
    · obtain ⟨i1, h1, h⟩ := bind_ok h
      obtain ⟨inv1, c1⟩ := hk _ _ _ _ _ hp.1 htf hinv hbd h1
      have he1 := hke _ _ _ _ _ h1
      obtain ⟨inv2, c2⟩ := hk _ _ _ _ _ (PatInS.mono D he1.ty a hp.2) hta inv1 hbd h
      exact ⟨inv2, key i1 (hke _ _ _ _ _ h) (c1.mono (hke _ _ _ _ _ h)) c2⟩
    · obtain ⟨i1, h1, h⟩ := bind_ok h
      obtain ⟨inv1, c1⟩ := hk _ _ _ _ _ hp.2 hta hinv hbd h1
      have he1 := hke _ _ _ _ _ h1
      obtain ⟨inv2, c2⟩ := hk _ _ _ _ _ (PatInS.mono D he1.ty f hp.1) htf inv1 hbd h
      exact ⟨inv2, key i1 (hke _ _ _ _ _ h) c2 (c1.mono (hke _ _ _ _ _ h))⟩
  · simp at h

/-! ### heuristic branch: `?f a` against `tf ta` -/

theorem heurCase_sem {D : List (String × Ty)} {k : Rec} (hk : RecSem D k) (hke : RecExt k) {bd : List Term}
    {i i' : MInst} {hn : String} {hT : Ty} {f a t : Term} (hhead : headOf f = .svar hn hT)
    (hl : i.svars.lookup hn = none) (hp : PatInS D i.tyinst (.comb f a)) (ht : TgtOK t) (hinv : HInv D bd i)
    (hbd : BdOK bd) (h : heurCase k bd i hn hT f a t = .ok i') : HInv D bd i' ∧ ConclSem i' (.comb f a) t := by
  unfold heurCase at h
  split at h
  · next tf ta =>
    split at h
    · next hc =>
      simp only [Bool.and_eq_true, Bool.not_eq_true'] at hc
      have hf : f = .svar hn hT := by
        cases f <;> simp [isSvar] at hc
        simpa [headOf] using hhead
      subst hf
      obtain ⟨htf, hta⟩ := ht.comb
      obtain ⟨U, hU, hUl, hUok⟩ := htf.types
      obtain ⟨tfT, htfT, h⟩ := bind_ok h
      have := liftT_ok htfT
      rw [hUl] at this; simp only [Except.ok.injEq] at this; subst this
      obtain ⟨i1, h1, h3⟩ := bind_ok h
      clear h
      have h := h3
      obtain ⟨he1, hsv1, _, hsub⟩ := bindTy_spec h1
      obtain ⟨T0, hD, hT0⟩ := hp.1
      have hinv2 : HInv D bd (i1.addSvar hn tf) :=
        (hinv.bindTy h1 hUok.1).addSvar hc.2 hU htf.ok htf.ns (by
          intro T0' hD' τ hτ
          rw [hD] at hD'; simp only [Option.some.injEq] at hD'; subst hD'
          rw [← hT0 τ (he1.ty.trans hτ)]; exact hsub τ hτ)
      have he2 : Ext i (i1.addSvar hn tf) := he1.trans (addSvar_ext _ _ _)
      obtain ⟨inv', ca⟩ := hk _ _ _ _ _ (PatInS.mono D he2.ty a hp.2) hta hinv2 hbd h
      have he' := hke _ _ _ _ _ h
      have hl' : i'.svars.lookup hn = some tf :=
        he'.sv hn tf (by simp only [MInst.addSvar, hsv1]; exact lookup_append_new _ hn tf hl)
      refine ⟨inv', ?_⟩
      intro τ hτ hty
      obtain ⟨S, hS⟩ := hty
      simp only [Term.substType] at hS
      obtain ⟨_, ta', _, ha', _⟩ := Term.checkedGetType_comb_inv [] _ _ S hS
      have hTτ : hT.subst τ = U := hsub τ (he'.ty.trans hτ)
      obtain ⟨_, sema⟩ := ca τ hτ ⟨ta', ha'⟩
      have tyf : Term.getType [] (Term.substType τ (.svar hn hT)) = Term.getType [] tf := by
        simp only [Term.substType, Term.getType, hTτ, hUl]
      refine ⟨by simp only [Term.substType, Term.getType] at tyf ⊢; simp only [tyf], ?_⟩
      intro M ρ hρ hsat
      simp only [Term.substType] at tyf ⊢
      refine sem_comb_congr M ρ [] [] tf _ ta _ tyf ?_ (sema M ρ hρ hsat)
      simp only [sem, hTτ]
      exact hsat hn tf U hl' hU
    · simp at h
  · simp at h

/-! ### abstractions -/

theorem addAbsName_inv {D : List (String × Ty)} {bd : List Term} {i : MInst} (h : HInv D bd i) (x y : String) :
    HInv D bd (i.addAbsName x y) := by
  have h1 := addAbsName_tyinst i x y
  have h2 := addAbsName_svars i x y
  exact ⟨by rw [h1]; exact h.st, by intro n s hl; rw [h2] at hl; exact h.av n s hl,
    by intro n s hl; rw [h2] at hl; exact h.vt n s hl, by intro n s hl; rw [h2] at hl; exact h.vo n s hl,
    by intro n s hl; rw [h2] at hl; exact h.nv n s hl,
    by intro n T s hD hl; rw [h2] at hl; obtain ⟨U, hU, hτ⟩ := h.td n T s hD hl; exact ⟨U, hU, by rw [h1]; exact hτ⟩⟩

theorem absCase_sem {D : List (String × Ty)} {k : Rec} (hk : RecSem D k) (hke : RecExt k) {bd : List Term}
    {i i' : MInst} {x : String} {T : Ty} {body t : Term} (hp : PatInS D i.tyinst (.abs x T body)) (ht : TgtOK t)
    (hinv : HInv D bd i) (hbd : BdOK bd) (h : absCase k bd i x T body t = .ok i') :
    HInv D bd i' ∧ ConclSem i' (.abs x T body) t := by
  obtain ⟨S, hS, hSl, hSok⟩ := ht.types
  unfold absCase at h
  split at h
  · -- abstraction against abstraction
    next y U tb =>
    obtain ⟨tbT, htb, _⟩ := Term.checkedGetType_abs_inv [] y U tb S hS
    obtain ⟨hU, hotb⟩ := ht.ok
    obtain ⟨i1, h1, h⟩ := bind_ok h
    obtain ⟨he1, hsv1, _, hsub⟩ := bindTy_spec h1
    have hinv1 := hinv.bindTy h1 hU.1
    have hTU : T.subst i1.tyinst = U := hsub _ (ExtL.refl _)
    let i2 := i1.addAbsName x y
    let names := varNamesOf body ++ varNamesOf tb ++ i2.svars.flatMap (fun p => varNamesOf p.2)
    let nm := variantName x names
    have hfresh : nm ∉ names := variantName_fresh x names
    have hty2 : i2.tyinst = i1.tyinst := addAbsName_tyinst i1 x y
    have hinv2' : HInv D bd i2 := addAbsName_inv hinv1 x y
    have h2 : k (Term.var nm (T.subst i1.tyinst) :: bd) i2
        (Term.substBoundAt (Term.var nm (T.subst i1.tyinst)) 0 (Term.substType i2.tyinst body))
        (Term.substBoundAt (Term.var nm (T.subst i1.tyinst)) 0 tb) = .ok i' := h
    rw [hTU] at h2
    have hinv2 : HInv D (Term.var nm U :: bd) i2 := by
      refine ⟨hinv2'.st, ?_, hinv2'.vt, hinv2'.vo, hinv2'.nv, hinv2'.td⟩
      intro n s hl
      rw [hasVars_cons]
      have hmem : (n, s) ∈ i2.svars := mem_of_lookup _ _ _ hl
      have h1' : hasVars [Term.var nm U] s = false := by
        apply hasVars_single
        intro hx
        apply hfresh
        simp only [names, List.mem_append, List.mem_flatMap]
        exact Or.inr ⟨(n, s), hmem, hx⟩
      simp [h1', hinv2'.av n s hl]
    have hv : Term.checkedGetType [] (Term.var nm U) = .ok U := rfl
    have htgt' : TgtOK (Term.substBoundAt (Term.var nm U) 0 tb) :=
      ⟨⟨tbT, Term.checkedGetType_substBoundAt [] [] U tbT _ tb hv htb⟩, tOK_open nm U hU tb 0 hotb,
        by rw [svarNames_open]; simpa [svarNamesOf] using ht.ns⟩
    have hp' : PatInS D i2.tyinst (Term.substBoundAt (Term.var nm U) 0 (Term.substType i2.tyinst body)) :=
      PatInS.open D _ nm U _ 0 (PatInS.substType D hinv2'.st body
        (PatInS.mono D (by rw [hty2]; exact he1.ty) body hp))
    have hbd' : BdOK (Term.var nm U :: bd) := by
      intro w hw
      rcases List.mem_cons.1 hw with rfl | hw
      · exact ⟨nm, U, rfl, hU⟩
      · exact hbd w hw
    obtain ⟨inv', c'⟩ := hk _ _ _ _ _ hp' htgt' hinv2 hbd' h2
    have he2 : Ext i2 i' := hke _ _ _ _ _ h2
    have hnb : nm ∉ varNamesOf body := fun hx => hfresh (by simp only [names, List.mem_append]; exact Or.inl (Or.inl hx))
    have hntb : nm ∉ varNamesOf tb := fun hx => hfresh (by simp only [names, List.mem_append]; exact Or.inl (Or.inr hx))
    refine ⟨inv'.tail, ?_⟩
    intro τ hτ hty
    obtain ⟨S', hS'⟩ := hty
    have hle : ExtL i2.tyinst τ := he2.ty.trans hτ
    have hTτ : T.subst τ = U := hsub τ (by rw [← hty2]; exact hle)
    simp only [Term.substType, hTτ] at hS'
    obtain ⟨S'', hbτ, _⟩ := Term.checkedGetType_abs_inv [] x U _ S' hS'
    have hpτ : Term.substType τ (Term.substBoundAt (Term.var nm U) 0 (Term.substType i2.tyinst body))
        = Term.substBoundAt (Term.var nm U) 0 (Term.substType τ body) := by
      rw [substType_open, substType_below i2.tyinst τ (extL_below hle) hinv2'.st, hU.1 τ]
    obtain ⟨tyb, semb⟩ := c' τ hτ ⟨S'', by rw [hpτ]; exact Term.checkedGetType_substBoundAt [] [] U S'' _ _ hv hbτ⟩
    rw [hpτ] at tyb semb
    have hvl : Term.getType [] (Term.var nm U) = .ok U := rfl
    have g1 := Term.getType_substBoundAt [] [] U (Term.var nm U) (Term.substType τ body) hvl
    have g2 := Term.getType_substBoundAt [] [] U (Term.var nm U) tb hvl
    simp only [List.nil_append, List.length_nil] at g1 g2
    have hgt : Term.getType [U] (Term.substType τ body) = Term.getType [U] tb := by rw [← g1, ← g2]; exact tyb
    refine ⟨by simp only [Term.substType, hTτ, Term.getType, hgt], ?_⟩
    intro M ρ hρ hsat
    simp only [Term.substType, hTτ, sem, hgt]
    cases hg : Term.getType [U] tb with
    | error e => rfl
    | ok tbT' =>
      simp only
      apply lamCode_congr
      intro val hval
      have hρ' : Admissible M (ρ.update 1 nm U val) := hρ.update 1 nm U val hval
      have hsat' : Sat M (ρ.update 1 nm U val) i' := hsat.update nm U val (by
        intro n s hl
        have := inv'.av n s hl
        rw [hasVars_cons] at this
        simp only [Bool.or_eq_false_iff] at this
        exact this.1)
      have key : ∀ b : Term, nm ∉ varNamesOf b →
          sem M (ρ.update 1 nm U val) [] [] (Term.substBoundAt (Term.var nm U) 0 b) = sem M ρ [U] [val] b := by
        intro b hb
        have e1 := sem_substBoundAt M (ρ.update 1 nm U val) [] [] [] [] rfl U (Term.var nm U) b hvl
        simp only [List.nil_append, List.length_nil] at e1
        rw [e1]
        have e2 : sem M (ρ.update 1 nm U val) [] [] (Term.var nm U) = val := by simp [sem, update_at]
        rw [e2]
        exact sem_update_of_not_occurs M ρ (.var nm U) 1 nm U rfl b
          (by rw [occursVar_eq_hasVars]; exact hasVars_single nm U b hb) val [U] [val]
      rw [← key (Term.substType τ body) (by rw [varsOf_substType_names]; exact hnb), ← key tb hntb]
      exact semb M _ hρ' hsat'
  · -- the target is not an abstraction: eta-expansion
    next hnabs =>
    obtain ⟨tT, htT, h⟩ := bind_ok h
    have := liftT_ok htT
    rw [hSl] at this; simp only [Except.ok.injEq] at this; subst this
    split at h
    · simp at h
    · next hfun =>
      simp only [Bool.not_eq_true, Bool.not_eq_false] at hfun
      obtain ⟨d, r, rfl, hd, hr⟩ := hSok.fun_inv (by simpa using hfun)
      simp only [Ty.fn, Ty.domain?] at h
      obtain ⟨i1, h1, h⟩ := bind_ok h
      obtain ⟨he1, hsv1, _, hsub⟩ := bindTy_spec h1
      have hinv1 := hinv.bindTy h1 hd.1
      have hTd : T.subst i1.tyinst = d := hsub _ (ExtL.refl _)
      rw [hTd] at h
      have hS' : Term.checkedGetType [] t = .ok (Ty.fn d r) := hS
      have hcd : Term.checkedGetType [d] t = .ok (Ty.fn d r) := Term.checkedGetType_closed t _ hS' [d]
      have hld : Term.getType [d] t = .ok (Ty.fn d r) := Term.getType_of_checked _ _ _ hcd
      have hteta : TgtOK (.abs x d (.comb t (.bound 0))) := by
        refine ⟨⟨Ty.fn d r, ?_⟩, ⟨hd, ht.ok, trivial⟩, by simp [svarNamesOf, ht.ns]⟩
        simp [Term.checkedGetType, hcd, bind, Except.bind, Ty.fn, Ty.isFun, Ty.domain?, Ty.range?]
      obtain ⟨inv', c'⟩ := hk _ _ _ _ _ (PatInS.mono D he1.ty _ hp) hteta hinv1 hbd h
      refine ⟨inv', ?_⟩
      intro τ hτ hty
      obtain ⟨ty', sem'⟩ := c' τ hτ hty
      have hge : Term.getType [] (Term.abs x d (.comb t (.bound 0))) = Term.getType [] t := by
        rw [hSl]
        simp [Term.getType, hld, bind, Except.bind, Ty.fn, Ty.isFun, Ty.range?]
      refine ⟨ty'.trans hge, ?_⟩
      intro M ρ hρ hsat
      rw [sem' M ρ hρ hsat]
      have hlt := sem_lt M ρ hρ [] [] Forall2.nil t _ hS'
      rw [Model.size_fn] at hlt
      have hgc : Term.getType [d] (Term.comb t (.bound 0)) = .ok r := by
        simp [Term.getType, hld, bind, Except.bind, Ty.fn, Ty.isFun, Ty.range?]
      simp only [sem, hgc, hld, Ty.fn, Ty.range?]
      have : (fun v => appCode (sem M ρ [d] [v] t) (([v] : List Nat)[0]?.getD 0) (M.size r))
          = fun v => appCode (sem M ρ [] [] t) v (M.size r) := by
        funext v
        rw [sem_closed M ρ t _ hS' [d] [v]]; simp
      rw [this]
      exact lamCode_appCode _ _ _ hlt

end Holpy.C09
