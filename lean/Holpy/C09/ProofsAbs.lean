import Holpy.C09.Proofs
import Holpy.Kernel.SemType
import Holpy.Kernel.SemBound
import Std.Data.String.ToNat
/-
C09 — completeness of first-order matching THROUGH BINDERS (helper lemmas).
Patterns: no schematic variable in head position; abstractions allowed (`isFOB`), closed.
-/
namespace Holpy.C09
open Holpy

/-! ### `get_variant_name` returns a name that is not taken -/

theorem cand_inj (nm : String) {i j : Nat} (h : nm ++ toString i = nm ++ toString j) : i = j := by
  have := (String.append_right_inj nm).1 h
  exact Nat.repr_injective this

theorem filter_len_le {α : Type} (p q : α → Bool) (hqp : ∀ x, q x = true → p x = true) :
    ∀ l : List α, (l.filter q).length ≤ (l.filter p).length := by
  intro l
  induction l with
  | nil => simp
  | cons a l ih =>
    simp only [List.filter_cons]
    cases hq : q a with
    | true => simp [hqp a hq]; exact ih
    | false =>
      cases hp : p a with
      | true => simp; omega
      | false => simpa using ih

theorem filter_len_lt {α : Type} (p q : α → Bool) (hqp : ∀ x, q x = true → p x = true) :
    ∀ (l : List α) (x : α), x ∈ l → p x = true → q x = false → (l.filter q).length < (l.filter p).length := by
  intro l
  induction l with
  | nil => intro x hx; simp at hx
  | cons a l ih =>
    intro x hx hpx hqx
    simp only [List.filter_cons]
    rcases List.mem_cons.1 hx with rfl | hx
    · simp [hpx, hqx]
      have := filter_len_le p q hqp l
      omega
    · have := ih x hx hpx hqx
      cases hq : q a with
      | true => simp [hqp a hq]; exact this
      | false =>
        cases hp : p a with
        | true => simp; omega
        | false => simpa using this

section Fresh
open Classical
/-- number of entries of `prevs` that are candidates `nm ++ j` with `j ≥ i` -/
noncomputable def taken (nm : String) (prevs : List String) (i : Nat) : Nat :=
  (prevs.filter (fun s => decide (∃ j, i ≤ j ∧ s = nm ++ toString j))).length

theorem variantLoop_fresh (nm : String) (prevs : List String) :
    ∀ fuel i, taken nm prevs i ≤ fuel → variantLoop nm prevs fuel i ∉ prevs := by
  intro fuel
  induction fuel with
  | zero =>
    intro i h hmem
    simp only [variantLoop] at hmem
    have : nm ++ toString i ∈ prevs.filter (fun s => decide (∃ j, i ≤ j ∧ s = nm ++ toString j)) := by
      simp only [List.mem_filter, decide_eq_true_eq]
      exact ⟨hmem, i, Nat.le_refl _, rfl⟩
    simp only [taken, Nat.le_zero, List.length_eq_zero_iff] at h
    rw [h] at this; simp at this
  | succ fuel ih =>
    intro i h
    simp only [variantLoop]
    split
    · next hc =>
      have hmem : nm ++ toString i ∈ prevs := by simpa using hc
      apply ih (i + 1)
      have hlt : taken nm prevs (i + 1) < taken nm prevs i := by
        unfold taken
        apply filter_len_lt _ _ _ prevs (nm ++ toString i) hmem
        · simp only [decide_eq_true_eq]; exact ⟨i, Nat.le_refl _, rfl⟩
        · simp only [decide_eq_false_iff_not]
          rintro ⟨j, hj, he⟩
          have := cand_inj nm he
          omega
        · intro x hx
          simp only [decide_eq_true_eq] at hx ⊢
          obtain ⟨j, hj, he⟩ := hx
          exact ⟨j, by omega, he⟩
      omega
    · next hc => simpa using hc

theorem variantName_fresh (nm : String) (prevs : List String) : variantName nm prevs ∉ prevs := by
  unfold variantName
  split
  · apply variantLoop_fresh
    unfold taken
    exact List.length_filter_le _ _
  · next hc => simpa using hc

end Fresh

/-! ### the fragment: first-order patterns with binders -/

/-- no schematic variable in head position of an application; abstractions and bound variables allowed -/
def isFOB : Term → Bool
  | .comb f a => !isSvar f && isFOB f && isFOB a
  | .abs _ _ b => isFOB b
  | _ => true

theorem isFOB_head : ∀ f : Term, isFOB f = true → isSvar f = false → ∀ n T, headOf f ≠ .svar n T := by
  intro f
  induction f with
  | svar n T => intro _ hs; simp [isSvar] at hs
  | var n T => intro _ _ m S; simp [headOf]
  | const n T => intro _ _ m S; simp [headOf]
  | comb g b ihg _ =>
    intro h _ m S
    simp only [isFOB, Bool.and_eq_true, Bool.not_eq_true'] at h
    simp only [headOf]
    exact ihg h.1.2 h.1.1 m S
  | abs x T b _ => intro _ _ m S; simp [headOf]
  | bound i => intro _ _ m S; simp [headOf]

/-! ### types without schematic variables ("stable": no instantiation changes them) -/

def TyStable (T : Ty) : Prop := ∀ τ : Ty.TyInst, T.subst τ = T

theorem map_eq_self {α : Type} (f : α → α) : ∀ l : List α, l.map f = l → ∀ a ∈ l, f a = a
  | [], _, a, ha => by simp at ha
  | b :: l, h, a, ha => by
    simp only [List.map_cons, List.cons.injEq] at h
    rcases List.mem_cons.1 ha with rfl | ha
    · exact h.1
    · exact map_eq_self f l h.2 a ha

theorem TyStable.args {n : String} {args : List Ty} (h : TyStable (.con n args)) : ∀ a ∈ args, TyStable a := by
  intro a ha τ
  have := h τ
  rw [Ty.subst_con] at this
  simp only [Ty.con.injEq, true_and] at this
  exact map_eq_self _ _ this a ha

theorem TyStable.fn {a b : Ty} (ha : TyStable a) (hb : TyStable b) : TyStable (Ty.fn a b) := by
  intro τ; rw [Ty.subst_fn, ha τ, hb τ]

theorem TyStable.range {T r : Ty} (h : TyStable T) (hr : T.range? = some r) : TyStable r := by
  unfold Ty.range? at hr
  split at hr
  · next a b rest => simp only [Option.some.injEq] at hr; subst hr; exact h.args _ (by simp)
  · simp at hr

def TyInstStable (σ : Ty.TyInst) : Prop := ∀ n U, σ.lookup n = some U → TyStable U

theorem TyInstStable.append {σ : Ty.TyInst} (h : TyInstStable σ) {n : String} {U : Ty} (hU : TyStable U) :
    TyInstStable (σ ++ [(n, U)]) := by
  intro m V hm
  cases hm0 : σ.lookup m with
  | some x =>
    rw [lookup_append_some σ _ m x hm0] at hm
    simp only [Option.some.injEq] at hm; subst hm; exact h m x hm0
  | none =>
    rw [lookup_append_none σ _ m hm0] at hm
    simp only [List.lookup_cons, List.lookup_nil] at hm
    cases hmn : m == n with
    | true => rw [hmn] at hm; simp only [Option.some.injEq] at hm; subst hm; exact hU
    | false => rw [hmn] at hm; simp at hm

mutual
theorem matchIncr_stable : ∀ (T U : Ty) (σ σ' : Ty.TyInst), Ty.matchIncr T U σ = some σ' →
    TyStable U → TyInstStable σ → TyInstStable σ'
  | .stvar n, U, σ, σ', h, hU, hσ => by
    simp only [Ty.matchIncr] at h
    split at h
    · split at h
      · simp only [Option.some.injEq] at h; subst h; exact hσ
      · simp at h
    · simp only [Option.some.injEq] at h; subst h; exact hσ.append hU
  | .tvar n, U, σ, σ', h, _, hσ => by
    simp only [Ty.matchIncr] at h
    split at h
    · simp only [Option.some.injEq] at h; subst h; exact hσ
    · simp at h
  | .con n args, .con m args', σ, σ', h, hU, hσ => by
    simp only [Ty.matchIncr] at h
    split at h
    · exact matchIncrList_stable args args' σ σ' h hU.args hσ
    · simp at h
  | .con _ _, .stvar _, _, _, h, _, _ => by simp [Ty.matchIncr] at h
  | .con _ _, .tvar _, _, _, h, _, _ => by simp [Ty.matchIncr] at h
theorem matchIncrList_stable : ∀ (Ts Us : List Ty) (σ σ' : Ty.TyInst), Ty.matchIncrList Ts Us σ = some σ' →
    (∀ u ∈ Us, TyStable u) → TyInstStable σ → TyInstStable σ'
  | [], [], σ, σ', h, _, hσ => by
    simp only [Ty.matchIncrList, Option.some.injEq] at h; subst h; exact hσ
  | a :: as, b :: bs, σ, σ', h, hU, hσ => by
    simp only [Ty.matchIncrList] at h
    split at h
    · next σ1 h1 =>
      exact matchIncrList_stable as bs σ1 σ' h (fun u hu => hU u (List.mem_cons_of_mem _ hu))
        (matchIncr_stable a b σ σ1 h1 (hU b (by simp)) hσ)
    · simp at h
  | [], _ :: _, _, _, h, _, _ => by simp [Ty.matchIncrList] at h
  | _ :: _, [], _, _, h, _, _ => by simp [Ty.matchIncrList] at h
end

/-- composition: instantiating with `i` first changes nothing for a later `σ` that agrees with `i`
on `i`'s (stable) bindings -/
theorem subst_below (i σ : Ty.TyInst) (hb : TyBelow i σ) (hs : TyInstStable i) (T : Ty) :
    (T.subst i).subst σ = T.subst σ := by
  induction T using Ty.ind with
  | hs n =>
    cases hl : i.lookup n with
    | some V =>
      have h1 : (Ty.stvar n).subst i = V := by simp [Ty.subst, hl]
      rw [h1, hs n V hl σ, hb n V hl]
    | none =>
      have h1 : (Ty.stvar n).subst i = .stvar n := by simp [Ty.subst, hl]
      rw [h1]
  | ht n => simp only [Ty.subst_tvar]
  | hc n args ih =>
    simp only [Ty.subst_con, List.map_map, Ty.con.injEq, true_and]
    apply List.map_congr_left
    intro a ha
    exact ih a ha

/-- every type annotation of the term is stable -/
def tStable : Term → Prop
  | .svar _ T | .var _ T | .const _ T => TyStable T
  | .comb f a => tStable f ∧ tStable a
  | .abs _ T b => TyStable T ∧ tStable b
  | .bound _ => True

theorem getType_stable : ∀ (t : Term) (bd : List Ty) (U : Ty), tStable t → (∀ B ∈ bd, TyStable B) →
    Term.getType bd t = .ok U → TyStable U := by
  intro t
  induction t with
  | svar n T => intro bd U h _ hg; simp only [Term.getType, Except.ok.injEq] at hg; subst hg; exact h
  | var n T => intro bd U h _ hg; simp only [Term.getType, Except.ok.injEq] at hg; subst hg; exact h
  | const n T => intro bd U h _ hg; simp only [Term.getType, Except.ok.injEq] at hg; subst hg; exact h
  | comb f a ihf _ =>
    intro bd U h hbd hg
    simp only [Term.getType] at hg
    obtain ⟨tf, hf, hg⟩ := bind_ok hg
    split at hg
    · split at hg
      · next r hr => simp only [Except.ok.injEq] at hg; subst hg; exact (ihf bd tf h.1 hbd hf).range hr
      · simp at hg
    · simp at hg
  | abs x T b ih =>
    intro bd U h hbd hg
    simp only [Term.getType] at hg
    obtain ⟨tb, hb, hg⟩ := bind_ok hg
    simp only [Except.ok.injEq] at hg; subst hg
    exact TyStable.fn h.1 (ih (T :: bd) tb h.2 (by
      intro B hB; rcases List.mem_cons.1 hB with rfl | hB
      · exact h.1
      · exact hbd B hB) hb)
  | bound i =>
    intro bd U _ hbd hg
    simp only [Term.getType] at hg
    split at hg
    · next S hS => simp only [Except.ok.injEq] at hg; subst hg; exact hbd _ (List.mem_of_getElem? hS)
    · simp at hg

/-! ### opening a binder with a variable: structural facts -/

theorem isOpenAt_mono : ∀ (t : Term) (n m : Nat), n ≤ m → Term.isOpenAt n t = false → Term.isOpenAt m t = false := by
  intro t
  induction t with
  | comb f a ihf iha =>
    intro n m hnm h
    simp only [Term.isOpenAt, Bool.or_eq_false_iff] at h ⊢
    exact ⟨ihf n m hnm h.1, iha n m hnm h.2⟩
  | abs x T b ih => intro n m hnm h; simp only [Term.isOpenAt] at h ⊢; exact ih (n + 1) (m + 1) (by omega) h
  | bound i => intro n m hnm h; simp only [Term.isOpenAt, decide_eq_false_iff_not] at h ⊢; omega
  | svar n T => intro _ _ _ _; rfl
  | var n T => intro _ _ _ _; rfl
  | const n T => intro _ _ _ _; rfl

theorem substBoundAt_closed (u : Term) : ∀ (s : Term) (n : Nat), Term.isOpenAt n s = false →
    Term.substBoundAt u n s = s := by
  intro s
  induction s with
  | comb f a ihf iha =>
    intro n h
    simp only [Term.isOpenAt, Bool.or_eq_false_iff] at h
    simp only [Term.substBoundAt, ihf n h.1, iha n h.2]
  | abs x T b ih => intro n h; simp only [Term.isOpenAt] at h; simp only [Term.substBoundAt, ih _ h]
  | bound i =>
    intro n h
    simp only [Term.isOpenAt, decide_eq_false_iff_not] at h
    have h1 : (i == n) = false := by simp; omega
    have h2 : ¬ i > n := by omega
    simp only [Term.substBoundAt, h1, if_neg h2]; simp
  | svar n T => intro _ _; rfl
  | var n T => intro _ _; rfl
  | const n T => intro _ _; rfl

theorem incr_var (k : Nat) (nm : String) (U : Ty) : Term.incrBoundvars k (.var nm U) = .var nm U := rfl

theorem isOpenAt_open (nm : String) (U : Ty) : ∀ (b : Term) (n : Nat), Term.isOpenAt (n + 1) b = false →
    Term.isOpenAt n (Term.substBoundAt (.var nm U) n b) = false := by
  intro b
  induction b with
  | comb f a ihf iha =>
    intro n h
    simp only [Term.isOpenAt, Bool.or_eq_false_iff] at h
    simp only [Term.substBoundAt, Term.isOpenAt, ihf n h.1, iha n h.2, Bool.or_self]
  | abs x T b ih => intro n h; simp only [Term.isOpenAt] at h; simp only [Term.substBoundAt, Term.isOpenAt, ih _ h]
  | bound i =>
    intro n h
    simp only [Term.isOpenAt, decide_eq_false_iff_not] at h
    simp only [Term.substBoundAt]
    cases hin : i == n with
    | true => simp [incr_var, Term.isOpenAt]
    | false =>
      have : i ≠ n := by simpa using hin
      have h2 : ¬ i > n := by omega
      simp only [Bool.false_eq_true, ↓reduceIte, if_neg h2, Term.isOpenAt, decide_eq_false_iff_not]; omega
  | svar n T => intro _ _; rfl
  | var n T => intro _ _; rfl
  | const n T => intro _ _; rfl

theorem isOpenAt_substType (σ : Ty.TyInst) : ∀ (t : Term) (n : Nat),
    Term.isOpenAt n (Term.substType σ t) = Term.isOpenAt n t := by
  intro t
  induction t with
  | comb f a ihf iha => intro n; simp only [Term.substType, Term.isOpenAt, ihf, iha]
  | abs x T b ih => intro n; simp only [Term.substType, Term.isOpenAt, ih]
  | _ => intro n; rfl

theorem isSvar_substType (σ : Ty.TyInst) (t : Term) : isSvar (Term.substType σ t) = isSvar t := by
  cases t <;> rfl

theorem isSvar_open (nm : String) (U : Ty) (n : Nat) (t : Term) :
    isSvar (Term.substBoundAt (.var nm U) n t) = isSvar t := by
  cases t with
  | bound i =>
    simp only [Term.substBoundAt]
    split
    · rfl
    · split <;> rfl
  | _ => rfl

theorem isFOB_substType (σ : Ty.TyInst) : ∀ t : Term, isFOB (Term.substType σ t) = isFOB t := by
  intro t
  induction t with
  | comb f a ihf iha => simp only [Term.substType, isFOB, isSvar_substType, ihf, iha]
  | abs x T b ih => simp only [Term.substType, isFOB, ih]
  | _ => rfl

theorem isFOB_open (nm : String) (U : Ty) : ∀ (t : Term) (n : Nat),
    isFOB (Term.substBoundAt (.var nm U) n t) = isFOB t := by
  intro t
  induction t with
  | comb f a ihf iha => intro n; simp only [Term.substBoundAt, isFOB, isSvar_open, ihf, iha]
  | abs x T b ih => intro n; simp only [Term.substBoundAt, isFOB, ih]
  | bound i =>
    intro n
    simp only [Term.substBoundAt]
    split
    · rfl
    · split <;> rfl
  | _ => intro n; rfl

theorem termSize_substType (σ : Ty.TyInst) : ∀ t : Term, termSize (Term.substType σ t) = termSize t := by
  intro t
  induction t with
  | comb f a ihf iha => simp only [Term.substType, termSize, ihf, iha]
  | abs x T b ih => simp only [Term.substType, termSize, ih]
  | _ => rfl

theorem termSize_open (nm : String) (U : Ty) : ∀ (t : Term) (n : Nat),
    termSize (Term.substBoundAt (.var nm U) n t) = termSize t := by
  intro t
  induction t with
  | comb f a ihf iha => intro n; simp only [Term.substBoundAt, termSize, ihf, iha]
  | abs x T b ih => intro n; simp only [Term.substBoundAt, termSize, ih]
  | bound i =>
    intro n
    simp only [Term.substBoundAt]
    split
    · rfl
    · split <;> rfl
  | _ => intro n; rfl

theorem svarNames_substType (σ : Ty.TyInst) : ∀ t : Term, svarNamesOf (Term.substType σ t) = svarNamesOf t := by
  intro t
  induction t with
  | comb f a ihf iha => simp only [Term.substType, svarNamesOf, ihf, iha]
  | abs x T b ih => simp only [Term.substType, svarNamesOf, ih]
  | _ => rfl

theorem svarNames_open (nm : String) (U : Ty) : ∀ (t : Term) (n : Nat),
    svarNamesOf (Term.substBoundAt (.var nm U) n t) = svarNamesOf t := by
  intro t
  induction t with
  | comb f a ihf iha => intro n; simp only [Term.substBoundAt, svarNamesOf, ihf, iha]
  | abs x T b ih => intro n; simp only [Term.substBoundAt, svarNamesOf, ih]
  | bound i =>
    intro n
    simp only [Term.substBoundAt]
    split
    · rfl
    · split <;> rfl
  | _ => intro n; rfl

theorem substType_open (τ : Ty.TyInst) (nm : String) (U : Ty) : ∀ (b : Term) (n : Nat),
    Term.substType τ (Term.substBoundAt (.var nm U) n b) =
      Term.substBoundAt (.var nm (U.subst τ)) n (Term.substType τ b) := by
  intro b
  induction b with
  | comb f a ihf iha => intro n; simp only [Term.substBoundAt, Term.substType, ihf, iha]
  | abs x T b ih => intro n; simp only [Term.substBoundAt, Term.substType, ih]
  | bound i =>
    intro n
    simp only [Term.substBoundAt, Term.substType]
    split
    · simp only [incr_var, Term.substType]
    · split <;> rfl
  | _ => intro n; rfl

theorem substType_below (i σ : Ty.TyInst) (hb : TyBelow i σ) (hs : TyInstStable i) : ∀ t : Term,
    Term.substType σ (Term.substType i t) = Term.substType σ t := by
  intro t
  induction t with
  | comb f a ihf iha => simp only [Term.substType, ihf, iha]
  | abs x T b ih => simp only [Term.substType, ih, subst_below i σ hb hs]
  | svar n T => simp only [Term.substType, subst_below i σ hb hs]
  | var n T => simp only [Term.substType, subst_below i σ hb hs]
  | const n T => simp only [Term.substType, subst_below i σ hb hs]
  | bound j => rfl

theorem aeq_open (u : Term) : ∀ (a b : Term) (n : Nat), Term.aeq a b = true →
    Term.aeq (Term.substBoundAt u n a) (Term.substBoundAt u n b) = true := by
  intro a
  induction a with
  | comb f x ihf ihx =>
    intro b n h
    cases b <;> simp only [Term.aeq, Bool.and_eq_true, Bool.false_eq_true] at h
    simp only [Term.substBoundAt, Term.aeq, ihf _ n h.1, ihx _ n h.2, Bool.and_self]
  | abs x T c ih =>
    intro b n h
    cases b <;> simp only [Term.aeq, Bool.and_eq_true, Bool.false_eq_true] at h
    simp only [Term.substBoundAt, Term.aeq, h.1, ih _ (n + 1) h.2, Bool.and_self]
  | bound i =>
    intro b n h
    cases b <;> simp only [Term.aeq, beq_iff_eq, Bool.false_eq_true] at h
    subst h; exact aeq_refl _
  | svar m T => intro b n h; cases b <;> simp only [Term.aeq, Bool.false_eq_true] at h; simpa [Term.substBoundAt, Term.aeq] using h
  | var m T => intro b n h; cases b <;> simp only [Term.aeq, Bool.false_eq_true] at h; simpa [Term.substBoundAt, Term.aeq] using h
  | const m T => intro b n h; cases b <;> simp only [Term.aeq, Bool.false_eq_true] at h; simpa [Term.substBoundAt, Term.aeq] using h

/-- every value of the instantiation is a closed term -/
def SvClosed (σ : MInst) : Prop := ∀ n s, σ.svars.lookup n = some s → Term.isOpenAt 0 s = false

theorem substRec_open (σ : MInst) (hc : SvClosed σ) (nm : String) (U : Ty) : ∀ (Y r : Term) (n : Nat),
    Term.substRec ⟨σ.tyinst, σ.svars, []⟩ Y = .ok r →
    Term.substRec ⟨σ.tyinst, σ.svars, []⟩ (Term.substBoundAt (.var nm U) n Y) = .ok (Term.substBoundAt (.var nm U) n r) := by
  intro Y
  induction Y with
  | svar m T =>
    intro r n h
    simp only [Term.substRec] at h
    simp only [Term.substBoundAt, Term.substRec]
    cases hl : σ.svars.lookup m with
    | some s =>
      simp only [hl, Except.ok.injEq] at h ⊢; subst h
      exact (substBoundAt_closed _ _ n (isOpenAt_mono _ 0 n (Nat.zero_le _) (hc m _ hl))).symm
    | none =>
      simp only [hl, Except.ok.injEq] at h ⊢; subst h; rfl
  | var m T =>
    intro r n h
    simp only [Term.substRec, List.lookup_nil, Except.ok.injEq] at h; subst h
    simp only [Term.substBoundAt, Term.substRec, List.lookup_nil]
  | const m T =>
    intro r n h
    simp only [Term.substRec, Except.ok.injEq] at h; subst h
    simp only [Term.substBoundAt, Term.substRec]
  | bound i =>
    intro r n h
    simp only [Term.substRec, Except.ok.injEq] at h; subst h
    simp only [Term.substBoundAt]
    split
    · simp only [incr_var, Term.substRec, List.lookup_nil]
    · split <;> simp only [Term.substRec]
  | comb f a ihf iha =>
    intro r n h
    simp only [Term.substRec] at h
    obtain ⟨rf, hf, h⟩ := bind_ok h
    obtain ⟨ra, ha, h⟩ := bind_ok h
    simp only [Except.ok.injEq] at h; subst h
    simp only [Term.substBoundAt, Term.substRec, ihf rf n hf, iha ra n ha]; rfl
  | abs x T b ih =>
    intro r n h
    simp only [Term.substRec] at h
    obtain ⟨rb, hb, h⟩ := bind_ok h
    simp only [Except.ok.injEq] at h; subst h
    simp only [Term.substBoundAt, Term.substRec, ih rb (n + 1) hb]; rfl

/-! ### variables standing for bound variables -/

theorem hasVars_cons (v : Term) (bd : List Term) : ∀ s : Term, hasVars (v :: bd) s = (hasVars [v] s || hasVars bd s) := by
  intro s
  induction s with
  | comb f a ihf iha =>
    simp only [hasVars, ihf, iha]
    cases hasVars [v] f <;> cases hasVars bd f <;> cases hasVars [v] a <;> cases hasVars bd a <;> rfl
  | abs x T b ih => simp only [hasVars, ih]
  | var n T => simp only [hasVars, memT, List.any_cons, List.any_nil, Bool.or_false]
  | svar n T => rfl
  | const n T => rfl
  | bound i => rfl

theorem hasVars_single (nm : String) (U : Ty) : ∀ s : Term, nm ∉ varNamesOf s → hasVars [.var nm U] s = false := by
  intro s
  induction s with
  | comb f a ihf iha =>
    intro h
    simp only [varNamesOf, varsOf, List.map_append, List.mem_append, not_or] at h
    simp only [hasVars, ihf (by simpa [varNamesOf] using h.1), iha (by simpa [varNamesOf] using h.2), Bool.or_self]
  | abs x T b ih => intro h; simp only [hasVars]; exact ih (by simpa [varNamesOf, varsOf] using h)
  | var n T =>
    intro h
    simp only [varNamesOf, varsOf, List.map_cons, List.map_nil, Term.nameOf, List.mem_singleton] at h
    have : (n == nm) = false := by simp; exact fun e => h e.symm
    simp [hasVars, memT, Term.aeq, this]
  | svar n T => intro _; rfl
  | const n T => intro _; rfl
  | bound i => intro _; rfl

theorem varsOf_aeq : ∀ a b : Term, Term.aeq a b = true → varsOf a = varsOf b := by
  intro a
  induction a with
  | comb f x ihf ihx =>
    intro b h
    cases b <;> simp only [Term.aeq, Bool.and_eq_true, Bool.false_eq_true] at h
    simp only [varsOf, ihf _ h.1, ihx _ h.2]
  | abs x T c ih =>
    intro b h
    cases b <;> simp only [Term.aeq, Bool.and_eq_true, Bool.false_eq_true] at h
    simp only [varsOf, ih _ h.2]
  | var n T =>
    intro b h
    cases b <;> simp only [Term.aeq, Bool.and_eq_true, beq_iff_eq, Bool.false_eq_true] at h
    simp only [varsOf, h.1, h.2]
  | svar n T => intro b h; cases b <;> simp only [Term.aeq, Bool.false_eq_true] at h; rfl
  | const n T => intro b h; cases b <;> simp only [Term.aeq, Bool.false_eq_true] at h; rfl
  | bound i => intro b h; cases b <;> simp only [Term.aeq, Bool.false_eq_true] at h; rfl

theorem hasVars_aeq (vs : List Term) : ∀ a b : Term, Term.aeq a b = true → hasVars vs a = hasVars vs b := by
  intro a
  induction a with
  | comb f x ihf ihx =>
    intro b h
    cases b <;> simp only [Term.aeq, Bool.and_eq_true, Bool.false_eq_true] at h
    simp only [hasVars, ihf _ h.1, ihx _ h.2]
  | abs x T c ih =>
    intro b h
    cases b <;> simp only [Term.aeq, Bool.and_eq_true, Bool.false_eq_true] at h
    simp only [hasVars, ih _ h.2]
  | var n T =>
    intro b h
    cases b <;> simp only [Term.aeq, Bool.and_eq_true, beq_iff_eq, Bool.false_eq_true] at h
    simp only [hasVars, h.1, h.2]
  | svar n T => intro b h; cases b <;> simp only [Term.aeq, Bool.false_eq_true] at h; rfl
  | const n T => intro b h; cases b <;> simp only [Term.aeq, Bool.false_eq_true] at h; rfl
  | bound i => intro b h; cases b <;> simp only [Term.aeq, Bool.false_eq_true] at h; rfl

/-- inversion of `Instantiates` at an abstraction -/
theorem Instantiates.abs_inv {σ : MInst} {x : String} {T : Ty} {b t : Term} (h : Instantiates σ (.abs x T b) t) :
    ∃ y tb, t = .abs y (T.subst σ.tyinst) tb ∧ Instantiates σ b tb := by
  obtain ⟨r, h1, h2⟩ := h
  simp only [applyInst, Term.substType, Term.substRec] at h1
  obtain ⟨rb, hb, h1⟩ := bind_ok h1
  simp only [Except.ok.injEq] at h1; subst h1
  cases t with
  | abs y U tb =>
    simp only [Term.aeq, Bool.and_eq_true, beq_iff_eq] at h2
    exact ⟨y, tb, by rw [h2.1], ⟨rb, hb, h2.2⟩⟩
  | _ => simp [Term.aeq] at h2

/-- the variables of the instance of a schematic variable of the pattern occur in the target -/
theorem inst_vars_in_target (σ : MInst) : ∀ (p t : Term), Instantiates σ p t →
    ∀ n ∈ svarNamesOf p, ∀ s, σ.svars.lookup n = some s → ∀ x ∈ varNamesOf s, x ∈ varNamesOf t := by
  intro p
  induction p with
  | svar m T =>
    intro t h n hn s hl x hx
    simp only [svarNamesOf, List.mem_singleton] at hn; subst hn
    obtain ⟨r, hr, hrt⟩ := h
    simp only [applyInst, Term.substType, Term.substRec, hl, Except.ok.injEq] at hr; subst hr
    simpa only [varNamesOf, varsOf_aeq _ _ hrt] using hx
  | comb f a ihf iha =>
    intro t h n hn s hl x hx
    obtain ⟨tf, ta, rfl, hf, ha⟩ := h.comb_inv
    simp only [svarNamesOf, List.mem_append] at hn
    simp only [varNamesOf, varsOf, List.map_append, List.mem_append]
    rcases hn with hn | hn
    · exact Or.inl (ihf tf hf n hn s hl x hx)
    · exact Or.inr (iha ta ha n hn s hl x hx)
  | abs y T b ih =>
    intro t h n hn s hl x hx
    obtain ⟨z, tb, rfl, hb⟩ := h.abs_inv
    simp only [svarNamesOf] at hn
    simpa only [varNamesOf, varsOf] using ih tb hb n hn s hl x hx
  | var m T => intro t _ n hn; simp [svarNamesOf] at hn
  | const m T => intro t _ n hn; simp [svarNamesOf] at hn
  | bound i => intro t _ n hn; simp [svarNamesOf] at hn

/-- the instances of the pattern's schematic variables do not mention the stand-in variables -/
def NoBd (bd : List Term) (σ : MInst) (p : Term) : Prop :=
  ∀ n ∈ svarNamesOf p, ∀ s, σ.svars.lookup n = some s → hasVars bd s = false

theorem SigmaOK_substType (σ : MInst) (i : Ty.TyInst) (hb : TyBelow i σ.tyinst) (hs : TyInstStable i) :
    ∀ p : Term, SigmaOK σ p → SigmaOK σ (Term.substType i p) := by
  intro p
  induction p with
  | svar n T =>
    intro h
    obtain ⟨s, hl, hT⟩ := h
    exact ⟨s, hl, by rw [subst_below i σ.tyinst hb hs]; exact hT⟩
  | comb f a ihf iha => intro h; exact ⟨ihf h.1, iha h.2⟩
  | abs x T b ih => intro h; exact ih h
  | var n T => intro _; trivial
  | const n T => intro _; trivial
  | bound j => intro _; trivial

theorem SigmaOK_open (σ : MInst) (nm : String) (U : Ty) : ∀ (p : Term) (n : Nat), SigmaOK σ p →
    SigmaOK σ (Term.substBoundAt (.var nm U) n p) := by
  intro p
  induction p with
  | comb f a ihf iha => intro n h; exact ⟨ihf n h.1, iha n h.2⟩
  | abs x T b ih => intro n h; exact ih (n + 1) h
  | bound j =>
    intro n _
    simp only [Term.substBoundAt]
    split
    · trivial
    · split <;> trivial
  | svar m T => intro n h; exact h
  | var m T => intro n _; trivial
  | const m T => intro n _; trivial

theorem tStable_open (nm : String) (U : Ty) (hU : TyStable U) : ∀ (t : Term) (n : Nat), tStable t →
    tStable (Term.substBoundAt (.var nm U) n t) := by
  intro t
  induction t with
  | comb f a ihf iha => intro n h; exact ⟨ihf n h.1, iha n h.2⟩
  | abs x T b ih => intro n h; exact ⟨h.1, ih (n + 1) h.2⟩
  | bound j =>
    intro n _
    simp only [Term.substBoundAt]
    split
    · exact hU
    · split <;> trivial
  | svar m T => intro n h; exact h
  | var m T => intro n h; exact h
  | const m T => intro n h; exact h

theorem bindTy_complete_st {T U : Ty} {i σ : MInst} (hb : Below i σ) (hst : TyInstStable i.tyinst)
    (hU : TyStable U) (hs : T.subst σ.tyinst = U) :
    ∃ i1, bindTy T U i = .ok i1 ∧ Below i1 σ ∧ i1.svars = i.svars ∧ i1.absNames = i.absNames ∧
      TyInstStable i1.tyinst ∧ T.subst i1.tyinst = U := by
  obtain ⟨σ1, h1, hb1⟩ := matchIncr_complete T U i.tyinst σ.tyinst hb.ty hs
  refine ⟨{ i with tyinst := σ1 }, by simp [bindTy, h1], ⟨hb1, hb.sv⟩, rfl, rfl,
    matchIncr_stable T U _ _ h1 hU hst, ?_⟩
  exact (matchIncr_spec T U _ _ h1).2 σ1 (ExtL.refl _)

/-! ### completeness through binders -/

/-- completeness of the recursive call on closed first-order patterns with binders, size at most `N` -/
def RecFOBComplete (k : Rec) (N : Nat) : Prop :=
  ∀ bd i p t σ, isFOB p = true → Term.isOpenAt 0 p = false → termSize p ≤ N → Below i σ →
    TyInstStable i.tyinst → SvClosed σ → SigmaOK σ p → NoBd bd σ p → tStable t → Instantiates σ p t →
    ∃ i', k bd i p t = .ok i' ∧ Below i' σ ∧ TyInstStable i'.tyinst

theorem addAbsName_tyinst (i : MInst) (x y : String) : (i.addAbsName x y).tyinst = i.tyinst := by
  unfold MInst.addAbsName; split <;> rfl

theorem addAbsName_svars (i : MInst) (x y : String) : (i.addAbsName x y).svars = i.svars := by
  unfold MInst.addAbsName; split <;> rfl

theorem matchSvar_completeB {bd : List Term} {i σ : MInst} {n : String} {T : Ty} {t : Term} (hb : Below i σ)
    (hst : TyInstStable i.tyinst) (hok : SigmaOK σ (.svar n T)) (hnb : NoBd bd σ (.svar n T)) (hts : tStable t)
    (hi : Instantiates σ (.svar n T) t) :
    ∃ i', matchSvar bd i n T t = .ok i' ∧ Below i' σ ∧ TyInstStable i'.tyinst := by
  obtain ⟨s, hs, hsT⟩ := hok
  obtain ⟨r, hr, hrt⟩ := hi
  simp only [applyInst, Term.substType, Term.substRec, hs, Except.ok.injEq] at hr
  subst hr
  simp only [matchSvar]
  cases hl : i.svars.lookup n with
  | some s0 =>
    obtain ⟨s', hs', h0⟩ := hb.sv n s0 hl
    rw [hs] at hs'; simp only [Option.some.injEq] at hs'; subst hs'
    simp [aeq_trans h0 hrt]; exact ⟨hb, hst⟩
  | none =>
    have hT : Term.getType [] t = .ok (T.subst σ.tyinst) := by rw [← getType_aeq hrt]; exact hsT
    have hU : TyStable (T.subst σ.tyinst) := getType_stable t [] _ hts (by simp) hT
    have hv : hasVars bd t = false := by
      rw [← hasVars_aeq bd _ _ hrt]; exact hnb n (by simp [svarNamesOf]) _ hs
    obtain ⟨i1, h1, hb1, hsv, _, hst1, _⟩ := bindTy_complete_st (T := T) hb hst hU rfl
    refine ⟨i1.addSvar n t, by simp [hv, hT, liftT, h1, bind, Except.bind], ⟨hb1.ty, ?_⟩, hst1⟩
    intro m x hm
    simp only [MInst.addSvar, hsv] at hm
    cases hm0 : i.svars.lookup m with
    | some x0 =>
      rw [lookup_append_some _ _ m x0 hm0] at hm
      simp only [Option.some.injEq] at hm; subst hm
      exact hb.sv m x0 hm0
    | none =>
      rw [lookup_append_none _ _ m hm0] at hm
      simp only [List.lookup_cons, List.lookup_nil] at hm
      cases hmn : m == n with
      | true =>
        rw [hmn] at hm
        simp only [Option.some.injEq] at hm; subst hm
        have : m = n := by simpa using hmn
        subst this
        exact ⟨_, hs, aeq_symm hrt⟩
      | false => rw [hmn] at hm; simp at hm

theorem matchAtom_completeB_var {i σ : MInst} {n : String} {T : Ty} {t : Term} (hb : Below i σ)
    (hst : TyInstStable i.tyinst) (hts : tStable t) (hi : Instantiates σ (.var n T) t) :
    ∃ i', matchAtom i (.var n T) t = .ok i' ∧ Below i' σ ∧ TyInstStable i'.tyinst := by
  obtain ⟨r, hr, hrt⟩ := hi
  simp only [applyInst, Term.substType, Term.substRec, List.lookup_nil, Except.ok.injEq] at hr
  subst hr
  cases t with
  | var m U =>
    simp only [Term.aeq, Bool.and_eq_true, beq_iff_eq] at hrt
    obtain ⟨i1, h1, hb1, _, _, hst1, _⟩ := bindTy_complete_st (T := T) hb hst hts hrt.2
    exact ⟨i1, by simp [matchAtom, hrt.1, h1], hb1, hst1⟩
  | _ => simp [Term.aeq] at hrt

theorem matchAtom_completeB_const {i σ : MInst} {n : String} {T : Ty} {t : Term} (hb : Below i σ)
    (hst : TyInstStable i.tyinst) (hts : tStable t) (hi : Instantiates σ (.const n T) t) :
    ∃ i', matchAtom i (.const n T) t = .ok i' ∧ Below i' σ ∧ TyInstStable i'.tyinst := by
  obtain ⟨r, hr, hrt⟩ := hi
  simp only [applyInst, Term.substType, Term.substRec, Except.ok.injEq] at hr
  subst hr
  cases t with
  | const m U =>
    simp only [Term.aeq, Bool.and_eq_true, beq_iff_eq] at hrt
    obtain ⟨i1, h1, hb1, _, _, hst1, _⟩ := bindTy_complete_st (T := T) hb hst hts hrt.2
    exact ⟨i1, by simp [matchAtom, hrt.1, h1], hb1, hst1⟩
  | _ => simp [Term.aeq] at hrt

theorem NoBd.comb {bd : List Term} {σ : MInst} {f a : Term} (h : NoBd bd σ (.comb f a)) : NoBd bd σ f ∧ NoBd bd σ a :=
  ⟨fun n hn => h n (by simp [svarNamesOf, hn]), fun n hn => h n (by simp [svarNamesOf, hn])⟩

theorem combCase_completeB {k : Rec} {N : Nat} (hk : RecFOBComplete k N) {bd : List Term} {i σ : MInst} {f a t : Term}
    (hf : isFOB f = true) (ha : isFOB a = true) (hcf : Term.isOpenAt 0 f = false) (hca : Term.isOpenAt 0 a = false)
    (hsz : termSize f + termSize a ≤ N) (hb : Below i σ) (hst : TyInstStable i.tyinst) (hc : SvClosed σ)
    (hok : SigmaOK σ (.comb f a)) (hnb : NoBd bd σ (.comb f a)) (hts : tStable t)
    (hi : Instantiates σ (.comb f a) t) :
    ∃ i', combCase k bd i f a t = .ok i' ∧ Below i' σ ∧ TyInstStable i'.tyinst := by
  obtain ⟨tf, ta, rfl, hif, hia⟩ := hi.comb_inv
  simp only [combCase]
  split
  · obtain ⟨i1, h1, hb1, hs1⟩ := hk bd i f tf σ hf hcf (by omega) hb hst hc hok.1 hnb.comb.1 hts.1 hif
    obtain ⟨i2, h2, hb2, hs2⟩ := hk bd i1 a ta σ ha hca (by omega) hb1 hs1 hc hok.2 hnb.comb.2 hts.2 hia
    exact ⟨i2, by simp [h1, h2, bind, Except.bind], hb2, hs2⟩
  · obtain ⟨i1, h1, hb1, hs1⟩ := hk bd i a ta σ ha hca (by omega) hb hst hc hok.2 hnb.comb.2 hts.2 hia
    obtain ⟨i2, h2, hb2, hs2⟩ := hk bd i1 f tf σ hf hcf (by omega) hb1 hs1 hc hok.1 hnb.comb.1 hts.1 hif
    exact ⟨i2, by simp [h1, h2, bind, Except.bind], hb2, hs2⟩

theorem absCase_completeB {k : Rec} {N : Nat} (hk : RecFOBComplete k N) {bd : List Term} {i σ : MInst} {x : String}
    {T : Ty} {body t : Term} (hf : isFOB body = true) (hcl : Term.isOpenAt 1 body = false) (hsz : termSize body ≤ N)
    (hb : Below i σ) (hst : TyInstStable i.tyinst) (hc : SvClosed σ) (hok : SigmaOK σ body)
    (hnb : NoBd bd σ (.abs x T body)) (hts : tStable t) (hi : Instantiates σ (.abs x T body) t) :
    ∃ i', absCase k bd i x T body t = .ok i' ∧ Below i' σ ∧ TyInstStable i'.tyinst := by
  obtain ⟨y, tb, rfl, hib⟩ := hi.abs_inv
  obtain ⟨hU, htb⟩ := hts
  obtain ⟨i1, h1, hb1, hsv1, _, hst1, hTU⟩ := bindTy_complete_st (T := T) hb hst hU rfl
  -- the stand-in variable
  let i2 := i1.addAbsName x y
  let names := varNamesOf body ++ varNamesOf tb ++ i2.svars.flatMap (fun p => varNamesOf p.2)
  let nm := variantName x names
  have hfresh : nm ∉ names := variantName_fresh x names
  have hty2 : i2.tyinst = i1.tyinst := addAbsName_tyinst i1 x y
  have hb2 : Below i2 σ := ⟨by rw [hty2]; exact hb1.ty, by rw [addAbsName_svars]; exact hb1.sv⟩
  have hst2 : TyInstStable i2.tyinst := by rw [hty2]; exact hst1
  have hrec := hk (Term.var nm (T.subst i1.tyinst) :: bd) i2
    (Term.substBoundAt (Term.var nm (T.subst i1.tyinst)) 0 (Term.substType i2.tyinst body))
    (Term.substBoundAt (Term.var nm (T.subst i1.tyinst)) 0 tb) σ
    (by rw [isFOB_open, isFOB_substType]; exact hf)
    (by apply isOpenAt_open; rw [isOpenAt_substType]; exact hcl)
    (by rw [termSize_open, termSize_substType]; exact hsz)
    hb2 hst2 hc
    (SigmaOK_open σ nm _ _ 0 (SigmaOK_substType σ i2.tyinst hb2.ty hst2 body hok))
    (by
      intro n hn s hl
      rw [svarNames_open, svarNames_substType] at hn
      rw [hasVars_cons]
      have h2 : hasVars bd s = false := hnb n (by simpa [svarNamesOf] using hn) s hl
      have h1' : hasVars [Term.var nm (T.subst i1.tyinst)] s = false := by
        apply hasVars_single
        intro hmem
        exact hfresh (by
          simp only [names, List.mem_append]
          exact Or.inl (Or.inr (inst_vars_in_target σ body tb hib n hn s hl nm hmem)))
      simp [h1', h2])
    (by rw [hTU]; exact tStable_open nm _ hU tb 0 htb)
    (by
      obtain ⟨rb, hrb, haeq⟩ := hib
      refine ⟨Term.substBoundAt (Term.var nm (T.subst i1.tyinst)) 0 rb, ?_, aeq_open _ _ _ 0 haeq⟩
      simp only [applyInst] at hrb ⊢
      rw [substType_open, substType_below i2.tyinst σ.tyinst hb2.ty hst2, hTU, hU σ.tyinst]
      exact substRec_open σ hc nm _ _ rb 0 hrb)
  obtain ⟨i', hi', hb', hst'⟩ := hrec
  exact ⟨i', by simp only [absCase, h1, bind, Except.bind]; exact hi', hb', hst'⟩

theorem matchAux_fob_complete (bf : Nat) : ∀ fuel, RecFOBComplete (matchAux bf fuel) fuel := by
  intro fuel
  induction fuel with
  | zero =>
    intro bd i p t σ _ _ hsz
    cases p <;> simp [termSize] at hsz
  | succ fuel ih =>
    intro bd i p t σ hp hcl hsz hb hst hc hok hnb hts hi
    cases p with
    | svar n T => simpa only [matchAux] using matchSvar_completeB hb hst hok hnb hts hi
    | var n T => simpa only [matchAux] using matchAtom_completeB_var hb hst hts hi
    | const n T => simpa only [matchAux] using matchAtom_completeB_const hb hst hts hi
    | bound j => simp [Term.isOpenAt] at hcl
    | abs x T body =>
      simp only [isFOB] at hp
      simp only [Term.isOpenAt] at hcl
      simp only [termSize] at hsz
      simpa only [matchAux] using absCase_completeB ih hp hcl (by omega) hb hst hc hok hnb hts hi
    | comb f a =>
      simp only [isFOB, Bool.and_eq_true, Bool.not_eq_true'] at hp
      simp only [Term.isOpenAt, Bool.or_eq_false_iff] at hcl
      simp only [termSize] at hsz
      simp only [matchAux]
      split
      · next hn hT hh => exact absurd hh (isFOB_head f hp.1.2 hp.1.1 hn hT)
      · exact combCase_completeB ih hp.1.2 hp.2 hcl.1 hcl.2 (by omega) hb hst hc hok hnb hts hi

end Holpy.C09
