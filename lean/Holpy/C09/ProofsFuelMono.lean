import Holpy.C09.ProofsTerm
/-
C09 — the answer of the model does not depend on the fuel once it is not `fuel`.
-/
set_option linter.unusedSimpArgs false
set_option linter.unusedVariables false
namespace Holpy.C09
open Holpy

/-- `r'` is `r` unless `r` ran out of fuel -/
def Refines {α : Type} (r r' : Except MErr α) : Prop := r ≠ .error .fuel → r' = r

theorem Refines.refl {α : Type} (r : Except MErr α) : Refines r r := fun _ => rfl

theorem Refines.bind {α β : Type} {x x' : Except MErr α} {f f' : α → Except MErr β} (hx : Refines x x')
    (hf : ∀ a, Refines (f a) (f' a)) : Refines (x >>= f) (x' >>= f') := by
  intro h
  cases x with
  | error e =>
    have he : e ≠ .fuel := by
      intro he; subst he; exact h rfl
    rw [hx (by simpa using he)]
    rfl
  | ok a =>
    rw [hx (by simp)]
    exact hf a h

def RecRefines (k k' : Rec) : Prop := ∀ bd i p t, Refines (k bd i p t) (k' bd i p t)

theorem heurCase_refines {k k' : Rec} (hk : RecRefines k k') (bd : List Term) (i : MInst) (hn : String) (hT : Ty)
    (f a t : Term) : Refines (heurCase k bd i hn hT f a t) (heurCase k' bd i hn hT f a t) := by
  unfold heurCase
  split
  · split
    · exact (Refines.refl _).bind fun _ => (Refines.refl _).bind fun _ => hk _ _ _ _
    · exact Refines.refl _
  · exact Refines.refl _

theorem instHeadCase_refines {k k' : Rec} (hk : RecRefines k k') (bf : Nat) (bd : List Term) (i : MInst) (s : Term)
    (args : List Term) (t : Term) : Refines (instHeadCase k bf bd i s args t) (instHeadCase k' bf bd i s args t) := by
  unfold instHeadCase
  exact (Refines.refl _).bind fun _ => (Refines.refl _).bind fun _ => hk _ _ _ _

theorem combCase_refines {k k' : Rec} (hk : RecRefines k k') (bd : List Term) (i : MInst) (f a t : Term) :
    Refines (combCase k bd i f a t) (combCase k' bd i f a t) := by
  unfold combCase
  split
  · split
    · exact (hk _ _ _ _).bind fun _ => hk _ _ _ _
    · exact (hk _ _ _ _).bind fun _ => hk _ _ _ _
  · exact Refines.refl _

theorem absCase_refines {k k' : Rec} (hk : RecRefines k k') (bd : List Term) (i : MInst) (x : String) (T : Ty)
    (body t : Term) : Refines (absCase k bd i x T body t) (absCase k' bd i x T body t) := by
  unfold absCase
  split
  · exact (Refines.refl _).bind fun _ => hk _ _ _ _
  · refine (Refines.refl _).bind fun _ => ?_
    split
    · exact Refines.refl _
    · split
      · exact Refines.refl _
      · exact (Refines.refl _).bind fun _ => hk _ _ _ _

/-- more fuel never changes an answer other than `fuel` -/
theorem matchAux_fuel_mono (bf : Nat) : ∀ n, RecRefines (matchAux bf n) (matchAux bf (n + 1)) := by
  intro n
  induction n with
  | zero => intro bd i p t h; simp [matchAux] at h
  | succ m ih =>
    intro bd i p t
    cases p with
    | svar n T => simp only [matchAux]; exact Refines.refl _
    | var n T => simp only [matchAux]; exact Refines.refl _
    | const n T => simp only [matchAux]; exact Refines.refl _
    | bound j => simp only [matchAux]; exact Refines.refl _
    | abs x T body => simp only [matchAux]; exact absCase_refines ih _ _ _ _ _ _
    | comb f a =>
      simp only [matchAux]
      split
      · split
        · split
          · exact heurCase_refines ih _ _ _ _ _ _ _
          · exact Refines.refl _
        · exact instHeadCase_refines ih _ _ _ _ _ _
      · exact combCase_refines ih _ _ _ _ _

theorem matchAux_fuel_le (bf : Nat) : ∀ (d n : Nat), RecRefines (matchAux bf n) (matchAux bf (n + d)) := by
  intro d
  induction d with
  | zero => intro n bd i p t; exact Refines.refl _
  | succ d ih =>
    intro n bd i p t h
    have h1 := ih n bd i p t h
    have h2 := matchAux_fuel_mono bf (n + d) bd i p t (by rw [h1]; exact h)
    exact h2.trans h1

end Holpy.C09
