import Holpy.C09.ProofsAbs
/-
C09 — termination of the model's recursion: with enough fuel the matcher never answers `fuel`.
The recursion of `first_order_match` is structural on the pattern except in two places: the
eta-expansion of the target (same pattern once more, then the body) and the branch where the head
variable is already instantiated (the beta-normal form of `inst[f] a1 … an` is matched, whose size
is not bounded by the pattern).
-/
set_option linter.unusedSimpArgs false
set_option linter.unusedVariables false
namespace Holpy.C09
open Holpy

def NoFuel {α : Type} (r : Except MErr α) : Prop := r ≠ .error .fuel

theorem NoFuel.bind {α β : Type} {x : Except MErr α} {f : α → Except MErr β} (hx : NoFuel x)
    (hf : ∀ a, x = .ok a → NoFuel (f a)) : NoFuel (x >>= f) := by
  cases x with
  | error e => intro h; have e1 : (Except.error e >>= f) = Except.error e := rfl; rw [e1] at h; simp only [Except.error.injEq] at h; subst h; exact hx rfl
  | ok a => exact hf a rfl

theorem getType_ne_fuel : ∀ (t : Term) (bd : List Ty), Term.getType bd t ≠ .error .fuel := by
  intro t
  induction t with
  | svar n T => intro bd; simp [Term.getType]
  | var n T => intro bd; simp [Term.getType]
  | const n T => intro bd; simp [Term.getType]
  | bound i => intro bd; simp only [Term.getType]; split <;> simp
  | comb f a ihf _ =>
    intro bd
    simp only [Term.getType, bind, Except.bind]
    cases hf : Term.getType bd f with
    | error e => simp only; intro h; apply ihf bd; rw [hf]; simpa using h
    | ok tf => simp only; split <;> (try split) <;> simp
  | abs x T b ih =>
    intro bd
    simp only [Term.getType, bind, Except.bind]
    cases hb : Term.getType (T :: bd) b with
    | error e => simp only; intro h; apply ih (T :: bd); rw [hb]; simpa using h
    | ok tb => simp

theorem liftT_getType_nofuel (t : Term) (bd : List Ty) : NoFuel (liftT (Term.getType bd t)) := by
  intro h
  cases hg : Term.getType bd t with
  | ok T => rw [hg] at h; simp [liftT] at h
  | error e =>
    rw [hg] at h
    cases e <;> simp [liftT] at h
    exact getType_ne_fuel t bd hg

theorem bindTy_nofuel (T U : Ty) (i : MInst) : NoFuel (bindTy T U i) := by
  unfold bindTy; split <;> simp [NoFuel]

theorem matchSvar_nofuel (bd : List Term) (i : MInst) (n : String) (T : Ty) (t : Term) : NoFuel (matchSvar bd i n T t) := by
  unfold matchSvar
  split
  · split
    · simp [NoFuel]
    · exact (liftT_getType_nofuel t []).bind fun _ _ => (bindTy_nofuel _ _ _).bind fun _ _ => by simp [NoFuel]
  · split <;> simp [NoFuel]

theorem matchAtom_nofuel (i : MInst) (p t : Term) : NoFuel (matchAtom i p t) := by
  unfold matchAtom
  split
  · split
    · exact bindTy_nofuel _ _ _
    · simp [NoFuel]
  · split
    · exact bindTy_nofuel _ _ _
    · simp [NoFuel]
  · simp [NoFuel]

def isAbs : Term → Bool
  | .abs _ _ _ => true
  | _ => false

/-- first-order patterns with binders: `2 * size` calls deep at most (one extra call per
abstraction for the eta-expansion of the target) -/
theorem matchAux_fob_nofuel (bf : Nat) : ∀ (n : Nat) (bd : List Term) (i : MInst) (p t : Term), isFOB p = true →
    (2 * termSize p ≤ n ∨ (2 * termSize p ≤ n + 1 ∧ isAbs t = true)) → NoFuel (matchAux bf n bd i p t) := by
  intro n
  induction n with
  | zero =>
    intro bd i p t _ h
    cases p <;> simp [termSize] at h <;> omega
  | succ m ih =>
    intro bd i p t hp h
    cases p with
    | svar n T => simp only [matchAux]; exact matchSvar_nofuel _ _ _ _ _
    | var n T => simp only [matchAux]; exact matchAtom_nofuel _ _ _
    | const n T => simp only [matchAux]; exact matchAtom_nofuel _ _ _
    | bound j => simp [matchAux, NoFuel]
    | comb f a =>
      simp only [isFOB, Bool.and_eq_true, Bool.not_eq_true'] at hp
      simp only [termSize] at h
      simp only [matchAux]
      split
      · next hn hT hh => exact absurd hh (isFOB_head f hp.1.2 hp.1.1 hn hT)
      · unfold combCase
        split
        · split
          · exact (ih _ _ _ _ hp.1.2 (Or.inl (by omega))).bind fun _ _ => ih _ _ _ _ hp.2 (Or.inl (by omega))
          · exact (ih _ _ _ _ hp.2 (Or.inl (by omega))).bind fun _ _ => ih _ _ _ _ hp.1.2 (Or.inl (by omega))
        · simp [NoFuel]
    | abs x T body =>
      simp only [isFOB] at hp
      simp only [termSize] at h
      simp only [matchAux]
      unfold absCase
      split
      · refine (bindTy_nofuel _ _ _).bind fun i1 _ => ?_
        exact ih _ _ _ _ (by rw [isFOB_open, isFOB_substType]; exact hp)
          (Or.inl (by rw [termSize_open, termSize_substType]; omega))
      · next hna =>
        refine (liftT_getType_nofuel t []).bind fun tT _ => ?_
        split
        · simp [NoFuel]
        · split
          · simp [NoFuel]
          · refine (bindTy_nofuel _ _ _).bind fun i1 _ => ?_
            have h' : 2 * (termSize body + 1) ≤ m + 1 := by
              rcases h with h | ⟨_, ht⟩
              · omega
              · cases t <;> simp [isAbs] at ht
                exact absurd rfl (hna _ _ _)
            exact ih _ _ _ _ (by simpa [isFOB] using hp) (Or.inr ⟨by simpa [termSize] using h', rfl⟩)

/-! ### higher-order patterns whose applied schematic variables are met uninstantiated -/

theorem abstractOverAt_ne_fuel (x : Term) : ∀ (t : Term) (d : Nat), Term.abstractOverAt x d t ≠ .error .fuel := by
  intro t
  induction t with
  | svar m S => intro d; cases x <;> simp only [Term.abstractOverAt] <;> (try split) <;> (try split) <;> simp
  | var m S => intro d; cases x <;> simp only [Term.abstractOverAt] <;> (try split) <;> (try split) <;> simp
  | const m S => intro d; simp [Term.abstractOverAt]
  | bound i => intro d; simp [Term.abstractOverAt]
  | comb f a ihf iha =>
    intro d
    simp only [Term.abstractOverAt, bind, Except.bind]
    cases hf : Term.abstractOverAt x d f with
    | error e => simp only; intro h; apply ihf d; rw [hf]; simpa using h
    | ok f' =>
      simp only
      cases ha : Term.abstractOverAt x d a with
      | error e => simp only; intro h; apply iha d; rw [ha]; simpa using h
      | ok a' => simp
  | abs y T b ih =>
    intro d
    simp only [Term.abstractOverAt, bind, Except.bind]
    cases hb : Term.abstractOverAt x (d + 1) b with
    | error e => simp only; intro h; apply ih (d + 1); rw [hb]; simpa using h
    | ok b' => simp

theorem lam_nofuel (v body : Term) : NoFuel (lam v body) := by
  intro h
  unfold lam Term.mkLambda Term.abstractOver at h
  split at h
  · cases hb : Term.abstractOverAt v 0 body with
    | ok b => simp [hb, liftT, bind, Except.bind] at h
    | error e =>
      simp only [hb, bind, Except.bind] at h
      cases e <;> simp [liftT] at h
      exact abstractOverAt_ne_fuel v body 0 hb
  · simp [liftT] at h

theorem opInfo_nofuel (t : Term) : NoFuel (opInfo t) := by
  unfold opInfo
  split
  · split
    · split <;> simp [NoFuel]
    · split
      · simp [NoFuel]
      · split <;> simp [NoFuel]
  · simp [NoFuel]

theorem abstractStep_nofuel (bd : List Term) (i : MInst) (v x : Term) : NoFuel (abstractStep bd i v x) := by
  unfold abstractStep
  split
  · split
    · split
      · refine (opInfo_nofuel _).bind fun op _ => ?_
        split
        · exact lam_nofuel _ _
        · split
          · simp [NoFuel]
          · split
            · exact lam_nofuel _ _
            · simp [NoFuel]
          · simp [NoFuel]
      · exact lam_nofuel _ _
    · exact lam_nofuel _ _
  · split
    · split
      · split
        · split
          · simp [NoFuel]
          · split
            · exact lam_nofuel _ _
            · simp [NoFuel]
        · split
          · exact lam_nofuel _ _
          · simp [NoFuel]
      · simp [NoFuel]
    · simp [NoFuel]

theorem abstractArgs_nofuel (bd : List Term) (i : MInst) : ∀ (L : List Term) (x : Term), NoFuel (abstractArgs bd i L x) := by
  intro L
  induction L with
  | nil => intro x; simp [abstractArgs, NoFuel]
  | cons v rest ih => intro x; simp only [abstractArgs]; exact (abstractStep_nofuel _ _ _ _).bind fun r _ => ih r

theorem argTypes_nofuel (bd : List Term) (i : MInst) : ∀ L : List Term, NoFuel (argTypes bd i L) := by
  intro L
  induction L with
  | nil => simp [argTypes, NoFuel]
  | cons v rest ih =>
    simp only [argTypes]
    split
    · exact NoFuel.bind (by simp [NoFuel]) fun T _ => ih.bind fun Ts _ => by simp [NoFuel]
    · split
      · split
        · exact (liftT_getType_nofuel _ _).bind fun T _ => ih.bind fun Ts _ => by simp [NoFuel]
        · simp [NoFuel, bind, Except.bind]
      · simp [NoFuel, bind, Except.bind]

theorem matchMiller_nofuel (bd : List Term) (i : MInst) (hn : String) (hT : Ty) (args : List Term) (t : Term) :
    NoFuel (matchMiller bd i hn hT args t) := by
  unfold matchMiller
  exact (argTypes_nofuel _ _ _).bind fun _ _ => (liftT_getType_nofuel _ _).bind fun _ _ =>
    (bindTy_nofuel _ _ _).bind fun _ _ => (abstractArgs_nofuel _ _ _ _).bind fun _ _ => by simp [NoFuel]

/-- names bound so far -/
def Dom (i : MInst) (B : List String) : Prop := ∀ m, i.svars.lookup m ≠ none → m ∈ B

/-- the new bindings of a successful match are schematic variables of the pattern -/
def DomSub (i i' : MInst) (p : Term) : Prop := ∀ m, i'.svars.lookup m ≠ none → i.svars.lookup m ≠ none ∨ m ∈ svarNamesOf p

/-- every schematic variable in head position of an application is met while it is not instantiated:
it is not among the names `B` that may be bound already, and not among the schematic variables of
the sibling sub-pattern (whichever of the two is matched first) -/
def Safe (B : List String) : Term → Prop
  | .comb f a => (∀ hn hT, headOf f = .svar hn hT → hn ∉ B) ∧ Safe (B ++ svarNamesOf a) f ∧ Safe (B ++ svarNamesOf f) a
  | .abs _ _ b => Safe B b
  | _ => True

theorem Safe.anti : ∀ (p : Term) (B B' : List String), (∀ m ∈ B, m ∈ B') → Safe B' p → Safe B p := by
  intro p
  induction p with
  | comb f a ihf iha =>
    intro B B' hs h
    refine ⟨fun hn hT hh hm => h.1 hn hT hh (hs _ hm), ihf _ _ ?_ h.2.1, iha _ _ ?_ h.2.2⟩
    · intro m hm; simp only [List.mem_append] at hm ⊢; exact hm.imp (hs m) id
    · intro m hm; simp only [List.mem_append] at hm ⊢; exact hm.imp (hs m) id
  | abs x T b ih => intro B B' hs h; exact ih _ _ hs h
  | _ => intro _ _ _ _; trivial

theorem headOf_substType (σ : Ty.TyInst) : ∀ t : Term, headOf (Term.substType σ t) = Term.substType σ (headOf t) := by
  intro t
  induction t with
  | comb f a ihf _ => simp only [Term.substType, headOf, ihf]
  | _ => rfl

theorem headOf_open_svar (nm : String) (U : Ty) : ∀ (t : Term) (n : Nat) (hn : String) (hT : Ty),
    headOf (Term.substBoundAt (.var nm U) n t) = .svar hn hT → headOf t = .svar hn hT := by
  intro t
  induction t with
  | comb f a ihf _ => intro n hn hT h; simp only [Term.substBoundAt, headOf] at h ⊢; exact ihf n hn hT h
  | bound i =>
    intro n hn hT h
    simp only [Term.substBoundAt] at h
    split at h
    · simp [Term.incrBoundvars, Term.incrAt, headOf] at h
    · split at h <;> simp [headOf] at h
  | svar m S => intro n hn hT h; simpa [Term.substBoundAt] using h
  | var m S => intro n hn hT h; simp [Term.substBoundAt, headOf] at h
  | const m S => intro n hn hT h; simp [Term.substBoundAt, headOf] at h
  | abs y S b _ => intro n hn hT h; simp [Term.substBoundAt, headOf] at h

theorem Safe_substType (σ : Ty.TyInst) : ∀ (p : Term) (B : List String), Safe B p → Safe B (Term.substType σ p) := by
  intro p
  induction p with
  | comb f a ihf iha =>
    intro B h
    simp only [Term.substType, Safe, svarNames_substType]
    refine ⟨?_, ihf _ h.2.1, iha _ h.2.2⟩
    intro hn hT hh
    rw [headOf_substType] at hh
    cases hf : headOf f <;> rw [hf] at hh <;> simp [Term.substType] at hh
    exact h.1 _ _ (by rw [hf, hh.1])
  | abs x T b ih => intro B h; exact ih B h
  | _ => intro _ _; trivial

theorem Safe_open (nm : String) (U : Ty) : ∀ (p : Term) (n : Nat) (B : List String), Safe B p →
    Safe B (Term.substBoundAt (.var nm U) n p) := by
  intro p
  induction p with
  | comb f a ihf iha =>
    intro n B h
    simp only [Term.substBoundAt, Safe, svarNames_open]
    exact ⟨fun hn hT hh => h.1 hn hT (headOf_open_svar nm U f n hn hT hh), ihf n _ h.2.1, iha n _ h.2.2⟩
  | abs x T b ih => intro n B h; exact ih (n + 1) B h
  | bound i =>
    intro n B _
    simp only [Term.substBoundAt]
    split
    · trivial
    · split <;> trivial
  | svar m S => intro _ _ _; trivial
  | var m S => intro _ _ _; trivial
  | const m S => intro _ _ _; trivial

theorem head_name_mem : ∀ (p : Term) (hn : String) (hT : Ty), headOf p = .svar hn hT → hn ∈ svarNamesOf p := by
  intro p
  induction p with
  | comb f a ihf _ => intro hn hT h; simp only [headOf] at h; simp only [svarNamesOf, List.mem_append]; exact Or.inl (ihf hn hT h)
  | svar m S => intro hn hT h; simp only [headOf, Term.svar.injEq] at h; simp [svarNamesOf, h.1]
  | var m S => intro hn hT h; simp [headOf] at h
  | const m S => intro hn hT h; simp [headOf] at h
  | abs y S b _ => intro hn hT h; simp [headOf] at h
  | bound i => intro hn hT h; simp [headOf] at h

theorem lookup_add_ne {α : Type} (l : List (String × α)) (n : String) (a : α) (m : String)
    (h : (l ++ [(n, a)]).lookup m ≠ none) : l.lookup m ≠ none ∨ m = n := by
  cases hm0 : l.lookup m with
  | some x => exact Or.inl (by simp)
  | none =>
    rw [lookup_append_none _ _ m hm0] at h
    simp only [List.lookup_cons, List.lookup_nil] at h
    cases hmn : m == n with
    | true => exact Or.inr (by simpa using hmn)
    | false => rw [hmn] at h; simp at h

theorem Dom.of_sub {i i' : MInst} {p : Term} {B : List String} (hd : Dom i B) (hs : DomSub i i' p) :
    Dom i' (B ++ svarNamesOf p) := by
  intro m hm
  rcases hs m hm with h | h
  · exact List.mem_append_left _ (hd m h)
  · exact List.mem_append_right _ h

theorem DomSub.refl_svars {i i' : MInst} (h : i'.svars = i.svars) (p : Term) : DomSub i i' p :=
  fun m hm => Or.inl (by rw [← h]; exact hm)

/-- With fuel `2 * size(pattern)` the matcher does not answer `fuel` on patterns whose applied
schematic variables are met uninstantiated (`Safe`) -- the branch that re-matches a beta-normal
form is then never entered; the new bindings are schematic variables of the pattern. -/
theorem matchAux_safe (bf : Nat) : ∀ (n : Nat) (bd : List Term) (i : MInst) (p t : Term) (B : List String),
    Safe B p → Dom i B → (2 * termSize p ≤ n ∨ (2 * termSize p ≤ n + 1 ∧ isAbs t = true)) →
    NoFuel (matchAux bf n bd i p t) ∧ ∀ i', matchAux bf n bd i p t = .ok i' → DomSub i i' p := by
  intro n
  induction n with
  | zero =>
    intro bd i p t B _ _ h
    cases p <;> simp [termSize] at h <;> omega
  | succ m ih =>
    intro bd i p t B hs hd h
    cases p with
    | svar n T =>
      simp only [matchAux]
      refine ⟨matchSvar_nofuel _ _ _ _ _, fun i' h' => ?_⟩
      simp only [matchSvar] at h'
      split at h'
      · split at h'
        · simp at h'
        · obtain ⟨tT, _, h'⟩ := bind_ok h'
          obtain ⟨i1, h1, h'⟩ := bind_ok h'
          simp only [Except.ok.injEq] at h'; subst h'
          obtain ⟨_, hsv, _, _⟩ := bindTy_spec h1
          intro x hx
          simp only [MInst.addSvar, hsv] at hx
          rcases lookup_add_ne _ _ _ _ hx with hx | rfl
          · exact Or.inl hx
          · exact Or.inr (by simp [svarNamesOf])
      · split at h'
        · simp only [Except.ok.injEq] at h'; subst h'; exact fun x hx => Or.inl hx
        · simp at h'
    | var n T =>
      simp only [matchAux]
      refine ⟨matchAtom_nofuel _ _ _, fun i' h' => ?_⟩
      cases t <;> simp only [matchAtom] at h' <;> try (simp at h')
      split at h'
      · exact DomSub.refl_svars (bindTy_spec h').2.1 _
      · simp at h'
    | const n T =>
      simp only [matchAux]
      refine ⟨matchAtom_nofuel _ _ _, fun i' h' => ?_⟩
      cases t <;> simp only [matchAtom] at h' <;> try (simp at h')
      split at h'
      · exact DomSub.refl_svars (bindTy_spec h').2.1 _
      · simp at h'
    | bound j => simp [matchAux, NoFuel]
    | abs x T body =>
      simp only [termSize] at h
      simp only [matchAux]
      unfold absCase
      split
      · next y U tb =>
        have key : ∀ (i1 : MInst) (nm : String) (Uv : Ty), bindTy T U i = .ok i1 →
            NoFuel (matchAux bf m (Term.var nm Uv :: bd) (i1.addAbsName x y)
              (Term.substBoundAt (Term.var nm Uv) 0 (Term.substType (i1.addAbsName x y).tyinst body))
              (Term.substBoundAt (Term.var nm Uv) 0 tb)) ∧
            ∀ i', matchAux bf m (Term.var nm Uv :: bd) (i1.addAbsName x y)
              (Term.substBoundAt (Term.var nm Uv) 0 (Term.substType (i1.addAbsName x y).tyinst body))
              (Term.substBoundAt (Term.var nm Uv) 0 tb) = .ok i' → DomSub i i' (.abs x T body) := by
          intro i1 nm Uv h1
          have hsv : (i1.addAbsName x y).svars = i.svars := by rw [addAbsName_svars, (bindTy_spec h1).2.1]
          obtain ⟨nf, ds⟩ := ih (Term.var nm Uv :: bd) (i1.addAbsName x y)
            (Term.substBoundAt (Term.var nm Uv) 0 (Term.substType (i1.addAbsName x y).tyinst body))
            (Term.substBoundAt (Term.var nm Uv) 0 tb) B
            (Safe_open nm Uv _ 0 B (Safe_substType _ body B hs))
            (by intro z hz; rw [hsv] at hz; exact hd z hz)
            (Or.inl (by rw [termSize_open, termSize_substType]; omega))
          refine ⟨nf, fun i' h' => ?_⟩
          intro z hz
          rcases ds i' h' z hz with hz | hz
          · exact Or.inl (by rw [hsv] at hz; exact hz)
          · exact Or.inr (by rw [svarNames_open, svarNames_substType] at hz; simpa [svarNamesOf] using hz)
        refine ⟨(bindTy_nofuel _ _ _).bind fun i1 h1 => (key i1 _ _ h1).1, fun i' h' => ?_⟩
        obtain ⟨i1, h1, h'⟩ := bind_ok h'
        exact (key i1 _ _ h1).2 i' h'
      · next hna =>
        have h2 : 2 * (termSize body + 1) ≤ m + 1 := by
          rcases h with h | ⟨_, ht⟩
          · omega
          · cases t <;> simp [isAbs] at ht
            exact absurd rfl (hna _ _ _)
        refine ⟨?_, fun i' h' => ?_⟩
        · refine (liftT_getType_nofuel t []).bind fun tT _ => ?_
          split
          · simp [NoFuel]
          · split
            · simp [NoFuel]
            · refine (bindTy_nofuel _ _ _).bind fun i1 h1 => ?_
              exact (ih _ i1 _ _ B hs (by intro z hz; rw [(bindTy_spec h1).2.1] at hz; exact hd z hz)
                (Or.inr ⟨by simpa [termSize] using h2, rfl⟩)).1
        · obtain ⟨tT, _, h'⟩ := bind_ok h'
          split at h'
          · simp at h'
          · split at h'
            · simp at h'
            · obtain ⟨i1, h1, h'⟩ := bind_ok h'
              have hsv := (bindTy_spec h1).2.1
              have := (ih _ i1 _ _ B hs (by intro z hz; rw [hsv] at hz; exact hd z hz)
                (Or.inr ⟨by simpa [termSize] using h2, rfl⟩)).2 i' h'
              intro z hz
              rcases this z hz with hz | hz
              · exact Or.inl (by rw [hsv] at hz; exact hz)
              · exact Or.inr hz
    | comb f a =>
      simp only [termSize] at h
      obtain ⟨hsh, hsf, hsa⟩ := hs
      simp only [matchAux]
      split
      · next hn hT hh =>
        have hl : i.svars.lookup hn = none := by
          cases hl : i.svars.lookup hn with
          | none => rfl
          | some s => exact absurd (hd hn (by simp [hl])) (hsh hn hT hh)
        simp only [hl]
        split
        · -- heuristic branch
          unfold heurCase
          split
          · next tf ta =>
            split
            · next hc =>
              simp only [Bool.and_eq_true] at hc
              have hf : f = .svar hn hT := by
                cases f <;> simp [isSvar] at hc
                simpa [headOf] using hh
              subst hf
              have key : ∀ (i1 : MInst) (U' : Ty) (s : Term), bindTy hT U' i = .ok i1 →
                  Dom (i1.addSvar hn s) (B ++ svarNamesOf (Term.svar hn hT)) := by
                intro i1 U' s h1 z hz
                simp only [MInst.addSvar, (bindTy_spec h1).2.1] at hz
                rcases lookup_add_ne _ _ _ _ hz with hz | rfl
                · exact List.mem_append_left _ (hd z hz)
                · simp [svarNamesOf]
              refine ⟨?_, fun i' h' => ?_⟩
              · refine (liftT_getType_nofuel _ _).bind fun tfT _ => (bindTy_nofuel _ _ _).bind fun i1 h1 => ?_
                exact (ih _ _ _ _ _ hsa (key i1 _ _ h1) (Or.inl (by omega))).1
              · obtain ⟨tfT, _, h'⟩ := bind_ok h'
                obtain ⟨i1, h1, h'⟩ := bind_ok h'
                have := (ih _ _ _ _ _ hsa (key i1 _ _ h1) (Or.inl (by omega))).2 i' h'
                intro z hz
                rcases this z hz with hz | hz
                · simp only [MInst.addSvar, (bindTy_spec h1).2.1] at hz
                  rcases lookup_add_ne _ _ _ _ hz with hz | rfl
                  · exact Or.inl hz
                  · exact Or.inr (by simp [svarNamesOf])
                · exact Or.inr (by simp [svarNamesOf, hz])
            · simp [NoFuel]
          · simp [NoFuel]
        · -- Miller branch
          refine ⟨matchMiller_nofuel _ _ _ _ _ _, fun i' h' => ?_⟩
          simp only [matchMiller] at h'
          obtain ⟨Ts, _, h'⟩ := bind_ok h'
          obtain ⟨tT, _, h'⟩ := bind_ok h'
          obtain ⟨i1, h1, h'⟩ := bind_ok h'
          obtain ⟨r, _, h'⟩ := bind_ok h'
          simp only [Except.ok.injEq] at h'; subst h'
          intro z hz
          simp only [MInst.addSvar, (bindTy_spec h1).2.1] at hz
          rcases lookup_add_ne _ _ _ _ hz with hz | rfl
          · exact Or.inl hz
          · exact Or.inr (head_name_mem (.comb f a) _ hT (by simpa [headOf] using hh))
      · -- the head is not a schematic variable
        unfold combCase
        split
        · next tf ta =>
          have sf : Safe B f := Safe.anti f B _ (fun z hz => List.mem_append_left _ hz) hsf
          have sa : Safe B a := Safe.anti a B _ (fun z hz => List.mem_append_left _ hz) hsa
          split
          · obtain ⟨nf1, ds1⟩ := ih bd i f tf B sf hd (Or.inl (by omega))
            refine ⟨nf1.bind fun i1 h1 => (ih bd i1 a ta _ hsa (hd.of_sub (ds1 i1 h1)) (Or.inl (by omega))).1, fun i' h' => ?_⟩
            obtain ⟨i1, h1, h'⟩ := bind_ok h'
            have d2 := (ih bd i1 a ta _ hsa (hd.of_sub (ds1 i1 h1)) (Or.inl (by omega))).2 i' h'
            intro z hz
            rcases d2 z hz with hz | hz
            · rcases ds1 i1 h1 z hz with hz | hz
              · exact Or.inl hz
              · exact Or.inr (by simp [svarNamesOf, hz])
            · exact Or.inr (by simp [svarNamesOf, hz])
          · obtain ⟨nf1, ds1⟩ := ih bd i a ta B sa hd (Or.inl (by omega))
            refine ⟨nf1.bind fun i1 h1 => (ih bd i1 f tf _ hsf (hd.of_sub (ds1 i1 h1)) (Or.inl (by omega))).1, fun i' h' => ?_⟩
            obtain ⟨i1, h1, h'⟩ := bind_ok h'
            have d2 := (ih bd i1 f tf _ hsf (hd.of_sub (ds1 i1 h1)) (Or.inl (by omega))).2 i' h'
            intro z hz
            rcases d2 z hz with hz | hz
            · rcases ds1 i1 h1 z hz with hz | hz
              · exact Or.inl hz
              · exact Or.inr (by simp [svarNamesOf, hz])
            · exact Or.inr (by simp [svarNamesOf, hz])
        · simp [NoFuel]

end Holpy.C09
