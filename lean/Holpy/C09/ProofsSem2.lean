import Holpy.C09.ProofsSem1
/-
C09 — semantic soundness, part 2: the Miller-pattern branch (`?f x1 … xn` with distinct arguments
that are bound variables or already instantiated schematic variables; `?f := %x1 … xn. t` computed
by the abstraction loop with its eta-contracting shortcuts).
-/
set_option linter.unnecessarySimpa false
set_option linter.unusedSimpArgs false
set_option linter.unusedVariables false
namespace Holpy.C09
open Holpy

/-! ### `abstract_over` a variable: what it keeps -/

section AbstractOver
variable (nm : String) (U : Ty)

theorem tOK_abstractOverAt : ∀ (t t' : Term) (d : Nat), Term.abstractOverAt (.var nm U) d t = .ok t' → tOK t → tOK t' := by
  intro t
  induction t with
  | svar m S => intro t' d h ho; rcases Term.abstractOverAt_svar h with ⟨_, rfl⟩ | ⟨_, rfl⟩ <;> first | trivial | exact ho
  | var m S => intro t' d h ho; rcases Term.abstractOverAt_var h with ⟨_, rfl⟩ | ⟨_, rfl⟩ <;> first | trivial | exact ho
  | const m S => intro t' d h ho; simp only [Term.abstractOverAt, Except.ok.injEq] at h; subst h; exact ho
  | bound i => intro t' d h ho; simp only [Term.abstractOverAt, Except.ok.injEq] at h; subst h; exact ho
  | comb f a ihf iha =>
    intro t' d h ho
    obtain ⟨f', a', hf, ha, rfl⟩ := Term.abstractOverAt_comb h
    exact ⟨ihf f' d hf ho.1, iha a' d ha ho.2⟩
  | abs y V b ih =>
    intro t' d h ho
    obtain ⟨b', hb, rfl⟩ := Term.abstractOverAt_abs h
    exact ⟨ho.1, ih b' (d + 1) hb ho.2⟩

theorem svarNames_abstractOverAt : ∀ (t t' : Term) (d : Nat), Term.abstractOverAt (.var nm U) d t = .ok t' →
    svarNamesOf t' = svarNamesOf t := by
  intro t
  induction t with
  | svar m S =>
    intro t' d h
    rcases Term.abstractOverAt_svar h with ⟨hx, _⟩ | ⟨_, rfl⟩
    · cases hx
    · rfl
  | var m S => intro t' d h; rcases Term.abstractOverAt_var h with ⟨_, rfl⟩ | ⟨_, rfl⟩ <;> rfl
  | const m S => intro t' d h; simp only [Term.abstractOverAt, Except.ok.injEq] at h; subst h; rfl
  | bound i => intro t' d h; simp only [Term.abstractOverAt, Except.ok.injEq] at h; subst h; rfl
  | comb f a ihf iha =>
    intro t' d h
    obtain ⟨f', a', hf, ha, rfl⟩ := Term.abstractOverAt_comb h
    simp only [svarNamesOf, ihf f' d hf, iha a' d ha]
  | abs y V b ih =>
    intro t' d h
    obtain ⟨b', hb, rfl⟩ := Term.abstractOverAt_abs h
    simp only [svarNamesOf, ih b' (d + 1) hb]

theorem hasVars_abstractOverAt (ws : List Term) : ∀ (t t' : Term) (d : Nat),
    Term.abstractOverAt (.var nm U) d t = .ok t' → hasVars ws t = false → hasVars ws t' = false := by
  intro t
  induction t with
  | svar m S => intro t' d h hw; rcases Term.abstractOverAt_svar h with ⟨_, rfl⟩ | ⟨_, rfl⟩ <;> first | rfl | exact hw
  | var m S => intro t' d h hw; rcases Term.abstractOverAt_var h with ⟨_, rfl⟩ | ⟨_, rfl⟩ <;> first | rfl | exact hw
  | const m S => intro t' d h hw; simp only [Term.abstractOverAt, Except.ok.injEq] at h; subst h; exact hw
  | bound i => intro t' d h hw; simp only [Term.abstractOverAt, Except.ok.injEq] at h; subst h; exact hw
  | comb f a ihf iha =>
    intro t' d h hw
    obtain ⟨f', a', hf, ha, rfl⟩ := Term.abstractOverAt_comb h
    simp only [hasVars, Bool.or_eq_false_iff] at hw ⊢
    exact ⟨ihf f' d hf hw.1, iha a' d ha hw.2⟩
  | abs y V b ih =>
    intro t' d h hw
    obtain ⟨b', hb, rfl⟩ := Term.abstractOverAt_abs h
    simp only [hasVars] at hw ⊢
    exact ih b' (d + 1) hb hw

theorem hasVars_self_abstractOverAt : ∀ (t t' : Term) (d : Nat),
    Term.abstractOverAt (.var nm U) d t = .ok t' → hasVars [.var nm U] t' = false := by
  intro t
  induction t with
  | svar m S => intro t' d h; rcases Term.abstractOverAt_svar h with ⟨_, rfl⟩ | ⟨_, rfl⟩ <;> rfl
  | var m S =>
    intro t' d h
    rcases Term.abstractOverAt_var h with ⟨_, rfl⟩ | ⟨hne, rfl⟩
    · rfl
    · simp only [hasVars, memT, List.any_cons, List.any_nil, Bool.or_false, Term.aeq, Bool.and_eq_false_iff]
      by_cases hm : m = nm
      · subst hm
        right
        simp only [beq_eq_false_iff_ne, ne_eq]
        intro hS; subst hS; exact hne rfl
      · left; simpa using hm
  | const m S => intro t' d h; simp only [Term.abstractOverAt, Except.ok.injEq] at h; subst h; rfl
  | bound i => intro t' d h; simp only [Term.abstractOverAt, Except.ok.injEq] at h; subst h; rfl
  | comb f a ihf iha =>
    intro t' d h
    obtain ⟨f', a', hf, ha, rfl⟩ := Term.abstractOverAt_comb h
    simp only [hasVars, ihf f' d hf, iha a' d ha, Bool.or_self]
  | abs y V b ih =>
    intro t' d h
    obtain ⟨b', hb, rfl⟩ := Term.abstractOverAt_abs h
    simp only [hasVars]
    exact ih b' (d + 1) hb

end AbstractOver

/-! ### one round of the abstraction loop -/

/-- the two shapes a round can take, in terms of the closed term `e` that the argument stands for -/
inductive StepShape (e instT r : Term) : Prop
  | eta (tf ta : Term) (h1 : instT = .comb tf ta) (h2 : Term.aeq ta e = true) (h3 : r = tf) : StepShape e instT r
  | lam (nm : String) (U : Ty) (h1 : e = .var nm U) (h2 : Term.mkLambda e instT = .ok r) : StepShape e instT r

theorem lam_ok {v body r : Term} (h : lam v body = .ok r) : Term.mkLambda v body = .ok r := liftT_ok h

theorem isVar_inv {e : Term} (h : isVar e = true) : ∃ nm U, e = .var nm U := by
  cases e <;> simp [isVar] at h
  exact ⟨_, _, rfl⟩

/-- the instance an argument of a Miller pattern stands for -/
def argInst (bd : List Term) (i : MInst) (v : Term) : Option Term :=
  if memT v bd then some v
  else match v with
    | .svar n _ => i.svars.lookup n
    | _ => none

theorem memT_var {v : Term} {bd : List Term} (hbd : BdOK bd) (h : memT v bd = true) : ∃ nm U, v = .var nm U ∧ TyOK U ∧ v ∈ bd := by
  simp only [memT, List.any_eq_true] at h
  obtain ⟨w, hw, haeq⟩ := h
  obtain ⟨nm, U, rfl, hU⟩ := hbd w hw
  cases v <;> simp [Term.aeq] at haeq
  obtain ⟨rfl, rfl⟩ := haeq
  exact ⟨_, _, rfl, hU, hw⟩

theorem abstractStep_shape {bd : List Term} {i : MInst} {v instT r : Term} (hbd : BdOK bd)
    (h : abstractStep bd i v instT = .ok r) : ∃ e, argInst bd i v = some e ∧ StepShape e instT r := by
  unfold abstractStep at h
  split at h
  · next hm =>
    obtain ⟨nm, U, rfl, _, _⟩ := memT_var hbd hm
    refine ⟨.var nm U, by simp [argInst, hm], ?_⟩
    split at h
    · next tf ta =>
      split at h
      · next hc =>
        simp only [Bool.and_eq_true] at hc
        obtain ⟨op, _, h⟩ := bind_ok h
        split at h
        · exact .lam nm U rfl (lam_ok h)
        · split at h
          · simp only [Except.ok.injEq] at h; exact .eta tf ta rfl hc.1 h.symm
          · split at h
            · exact .lam nm U rfl (lam_ok h)
            · simp only [Except.ok.injEq] at h; exact .eta tf ta rfl hc.1 h.symm
          · simp only [Except.ok.injEq] at h; exact .eta tf ta rfl hc.1 h.symm
      · exact .lam nm U rfl (lam_ok h)
    · exact .lam nm U rfl (lam_ok h)
  · next hm =>
    split at h
    · next n Tn =>
      split at h
      · next iv hl =>
        refine ⟨iv, by simp [argInst, hm, hl], ?_⟩
        split at h
        · next tf ta =>
          split at h
          · next hc =>
            simp only [Bool.and_eq_true] at hc
            simp only [Except.ok.injEq] at h; exact .eta tf ta rfl hc.1 h.symm
          · split at h
            · next hv => obtain ⟨nm, U, rfl⟩ := isVar_inv hv; exact .lam nm U rfl (lam_ok h)
            · simp at h
        · split at h
          · next hv => obtain ⟨nm, U, rfl⟩ := isVar_inv hv; exact .lam nm U rfl (lam_ok h)
          · simp at h
      · simp at h
    · simp at h

/-- typing, annotations, variables and denotation of one round -/
theorem step_spec {e instT r : Term} {S A : Ty} (hs : StepShape e instT r)
    (hT : Term.checkedGetType [] instT = .ok S) (ho : tOK instT) (hn : svarNamesOf instT = [])
    (he : Term.checkedGetType [] e = .ok A) (heo : tOK e) :
    Term.checkedGetType [] r = .ok (Ty.fn A S) ∧ tOK r ∧ svarNamesOf r = [] ∧
    (∀ ws, hasVars ws instT = false → hasVars ws r = false) ∧
    ∀ M ρ, Admissible M ρ → appCode (sem M ρ [] [] r) (sem M ρ [] [] e) (M.size S) = sem M ρ [] [] instT := by
  cases hs with
  | eta tf ta h1 h2 h3 =>
    subst h1; subst h3
    obtain ⟨tfT, taT, hf, ha, hfun, hdom, hran⟩ := Term.checkedGetType_comb_inv [] _ _ S hT
    have hta : taT = A := by
      have := Term.checkedGetType_aeq ta e h2 []
      rw [ha, he] at this; simpa using this
    subst hta
    have hlf := Term.getType_of_checked [] _ tfT hf
    obtain ⟨a', b', rfl, _, _⟩ := (getType_ok _ [] tfT ho.1 (by simp) hlf).fun_inv hfun
    simp only [Ty.fn, Ty.domain?, Ty.range?, Option.some.injEq] at hdom hran
    subst hdom; subst hran
    simp only [svarNamesOf, List.append_eq_nil_iff] at hn
    refine ⟨hf, ho.1, hn.1, ?_, ?_⟩
    · intro ws hw
      simp only [hasVars, Bool.or_eq_false_iff] at hw; exact hw.1
    · intro M ρ _
      simp only [sem, hlf, Ty.fn, Ty.range?]
      rw [sem_aeq M ρ ta e h2]
  | lam nm U h1 h2 =>
    subst h1
    simp only [Term.checkedGetType, Except.ok.injEq] at he; subst he
    have hx : varKey (Term.var nm U) = some (1, nm, U) := rfl
    obtain ⟨b, hb, rfl⟩ := Term.mkLambda_inv hx h2
    refine ⟨checked_mkLambda _ 1 nm U hx instT _ S hT h2, ⟨heo, tOK_abstractOverAt nm U _ _ 0 hb ho⟩,
      by simp only [svarNamesOf, svarNames_abstractOverAt nm U _ _ 0 hb, hn], ?_, ?_⟩
    · intro ws hw
      simp only [hasVars]
      exact hasVars_abstractOverAt nm U ws _ _ 0 hb hw
    · intro M ρ hρ
      have := appCode_sem_mkLambda M ρ hρ _ 1 nm U hx instT _ S hT h2 (ρ 1 nm U) (hρ 1 nm U)
      rw [update_self] at this
      simpa only [sem] using this

/-! ### the abstraction loop -/

theorem StepShape.mono {e instT r : Term} (hs : StepShape e instT r) (ws : List Term)
    (hw : hasVars ws instT = false) : hasVars ws r = false := by
  cases hs with
  | eta tf ta h1 h2 h3 =>
    subst h1; subst h3
    simp only [hasVars, Bool.or_eq_false_iff] at hw; exact hw.1
  | lam nm U h1 h2 =>
    subst h1
    obtain ⟨b, hb, rfl⟩ := Term.mkLambda_inv (k := 1) (n := nm) (T := U) rfl h2
    simp only [hasVars]
    exact hasVars_abstractOverAt nm U ws _ _ 0 hb hw

theorem hasVars_single_memT (v : Term) : ∀ t : Term, hasVars [v] t = memT v (varsOf t) := by
  intro t
  induction t with
  | comb f a ihf iha => simp only [hasVars, varsOf, ihf, iha, memT, List.any_append]
  | abs x T b ih => simp only [hasVars, varsOf, ih]
  | var n T =>
    simp only [hasVars, varsOf, memT, List.any_cons, List.any_nil, Bool.or_false]
    cases v with
    | var m S =>
      simp only [Term.aeq]
      rw [Bool.eq_iff_iff]
      simp only [Bool.and_eq_true, beq_iff_eq]
      constructor <;> (intro ⟨a, b⟩; exact ⟨a.symm, b.symm⟩)
    | _ => simp [Term.aeq]
  | svar n T => rfl
  | const n T => rfl
  | bound i => rfl

theorem abstractStep_removes {bd : List Term} {i : MInst} {v instT r : Term} (hbd : BdOK bd) (hm : memT v bd = true)
    (h : abstractStep bd i v instT = .ok r) : hasVars [v] r = false := by
  obtain ⟨nm, U, rfl, _, _⟩ := memT_var hbd hm
  have hlam : ∀ x, lam (Term.var nm U) x = .ok r → hasVars [Term.var nm U] r = false := by
    intro x hx
    obtain ⟨b, hb, rfl⟩ := Term.mkLambda_inv (k := 1) (n := nm) (T := U) rfl (lam_ok hx)
    simp only [hasVars]
    exact hasVars_self_abstractOverAt nm U _ _ 0 hb
  unfold abstractStep at h
  rw [if_pos hm] at h
  split at h
  · next tf ta =>
    split at h
    · next hc =>
      simp only [Bool.and_eq_true, Bool.not_eq_true'] at hc
      have hrem : hasVars [Term.var nm U] tf = false := by rw [hasVars_single_memT]; exact hc.2
      obtain ⟨op, _, h⟩ := bind_ok h
      split at h
      · exact hlam _ h
      · split at h
        · simp only [Except.ok.injEq] at h; subst h; exact hrem
        · split at h
          · exact hlam _ h
          · simp only [Except.ok.injEq] at h; subst h; exact hrem
        · simp only [Except.ok.injEq] at h; subst h; exact hrem
    · exact hlam _ h
  · exact hlam _ h

theorem abstractArgs_mono {bd : List Term} {i : MInst} (hbd : BdOK bd) (ws : List Term) : ∀ (L : List Term) (x r : Term),
    abstractArgs bd i L x = .ok r → hasVars ws x = false → hasVars ws r = false := by
  intro L
  induction L with
  | nil => intro x r h hw; simp only [abstractArgs, Except.ok.injEq] at h; subst h; exact hw
  | cons v rest ih =>
    intro x r h hw
    simp only [abstractArgs] at h
    obtain ⟨r1, h1, h⟩ := bind_ok h
    obtain ⟨e, _, hs⟩ := abstractStep_shape hbd h1
    exact ih r1 r h (hs.mono ws hw)

theorem abstractArgs_removes {bd : List Term} {i : MInst} (hbd : BdOK bd) (w : Term) (hw : memT w bd = true) :
    ∀ (L : List Term) (x r : Term), abstractArgs bd i L x = .ok r → w ∈ L → hasVars [w] r = false := by
  intro L
  induction L with
  | nil => intro x r _ hm; simp at hm
  | cons v rest ih =>
    intro x r h hm
    simp only [abstractArgs] at h
    obtain ⟨r1, h1, h⟩ := bind_ok h
    rcases List.mem_cons.1 hm with hvw | hm
    · rw [hvw] at hw ⊢
      exact abstractArgs_mono hbd _ rest r1 r h (abstractStep_removes hbd hw h1)
    · exact ih r1 r h hm

/-- `tfunRev [A1, …, Ak] S = Ak ⇒ … ⇒ A1 ⇒ S` -/
def tfunRev : List Ty → Ty → Ty
  | [], S => S
  | A :: rest, S => tfunRev rest (Ty.fn A S)

theorem tfunRev_eq : ∀ (l : List Ty) (S : Ty), tfunRev l S = tfun l.reverse S := by
  intro l
  induction l with
  | nil => intro S; rfl
  | cons A rest ih => intro S; simp only [tfunRev, ih, tfun, List.reverse_cons, List.foldr_append, List.foldr_cons, List.foldr_nil]

/-- arguments with the closed terms they stand for and their types -/
def Specs (bd : List Term) (i : MInst) : List Term → List (Term × Ty) → Prop
  | [], [] => True
  | v :: L, (e, A) :: EL => argInst bd i v = some e ∧ Term.checkedGetType [] e = .ok A ∧ tOK e ∧ Specs bd i L EL
  | _, _ => False

theorem mkApp_snoc (f : Term) (l : List Term) (a : Term) : mkApp f (l ++ [a]) = .comb (mkApp f l) a := by
  simp [mkApp, List.foldl_append]

theorem abstractArgs_spec {bd : List Term} {i : MInst} (hbd : BdOK bd)
    (harg : ∀ v e, argInst bd i v = some e → ∃ A, Term.checkedGetType [] e = .ok A ∧ tOK e) :
    ∀ (L : List Term) (x r : Term) (S : Ty), abstractArgs bd i L x = .ok r →
      Term.checkedGetType [] x = .ok S → tOK x → svarNamesOf x = [] →
      ∃ EL, Specs bd i L EL ∧ Term.checkedGetType [] r = .ok (tfunRev (EL.map Prod.snd) S) ∧ tOK r ∧
        svarNamesOf r = [] ∧ Term.checkedGetType [] (mkApp r (EL.map Prod.fst).reverse) = .ok S ∧
        ∀ M ρ, Admissible M ρ → sem M ρ [] [] (mkApp r (EL.map Prod.fst).reverse) = sem M ρ [] [] x := by
  intro L
  induction L with
  | nil =>
    intro x r S h hS ho hn
    simp only [abstractArgs, Except.ok.injEq] at h; subst h
    exact ⟨[], trivial, hS, ho, hn, hS, fun _ _ _ => rfl⟩
  | cons v rest ih =>
    intro x r S h hS ho hn
    simp only [abstractArgs] at h
    obtain ⟨r1, h1, h⟩ := bind_ok h
    obtain ⟨e, he, hs⟩ := abstractStep_shape hbd h1
    obtain ⟨A, hA, heo⟩ := harg v e he
    obtain ⟨t1, o1, n1, _, s1⟩ := step_spec hs hS ho hn hA heo
    obtain ⟨EL, hsp, tr, or_, nr, tapp, sapp⟩ := ih r1 r (Ty.fn A S) h t1 o1 n1
    refine ⟨(e, A) :: EL, ⟨he, hA, heo, hsp⟩, by simpa only [List.map_cons, tfunRev] using tr, or_, nr, ?_, ?_⟩
    · simp only [List.map_cons, List.reverse_cons, mkApp_snoc]
      simp [Term.checkedGetType, tapp, hA, bind, Except.bind, Ty.fn, Ty.isFun, Ty.domain?, Ty.range?]
    · intro M ρ hρ
      simp only [List.map_cons, List.reverse_cons, mkApp_snoc]
      simp only [sem, Term.getType_of_checked [] _ _ tapp, Ty.fn, Ty.range?]
      rw [sapp M ρ hρ]
      exact s1 M ρ hρ

/-! ### the Miller-pattern case -/

theorem mkApp_head_args : ∀ t : Term, mkApp (headOf t) (argsOf t) = t := by
  intro t
  induction t with
  | comb f a ihf _ => simp only [headOf, argsOf, mkApp_snoc, ihf]
  | _ => rfl

theorem substType_mkApp (τ : Ty.TyInst) : ∀ (l : List Term) (h : Term),
    Term.substType τ (mkApp h l) = mkApp (Term.substType τ h) (l.map (Term.substType τ)) := by
  intro l
  induction l with
  | nil => intro h; rfl
  | cons a rest ih => intro h; simp only [mkApp, List.foldl_cons, List.map_cons] at ih ⊢; rw [ih]; rfl

theorem PatInS_args (D : List (String × Ty)) (σ : Ty.TyInst) : ∀ t : Term, PatInS D σ t →
    PatInS D σ (headOf t) ∧ ∀ a ∈ argsOf t, PatInS D σ a := by
  intro t
  induction t with
  | comb f a ihf _ =>
    intro h
    obtain ⟨h1, h2⟩ := ihf h.1
    refine ⟨h1, ?_⟩
    intro x hx
    simp only [argsOf, List.mem_append, List.mem_singleton] at hx
    rcases hx with hx | rfl
    · exact h2 x hx
    · exact h.2
  | svar n T => intro h; exact ⟨h, by simp [argsOf]⟩
  | var n T => intro h; exact ⟨h, by simp [argsOf]⟩
  | const n T => intro h; exact ⟨h, by simp [argsOf]⟩
  | abs x T b _ => intro h; exact ⟨h, by simp [argsOf]⟩
  | bound i => intro h; exact ⟨h, by simp [argsOf]⟩

theorem Specs_append {bd : List Term} {i : MInst} : ∀ (L L' : List Term) (EL EL' : List (Term × Ty)),
    Specs bd i L EL → Specs bd i L' EL' → Specs bd i (L ++ L') (EL ++ EL') := by
  intro L
  induction L with
  | nil => intro L' EL EL' h h'; cases EL with
    | nil => simpa using h'
    | cons _ _ => simp [Specs] at h
  | cons v rest ih =>
    intro L' EL EL' h h'
    cases EL with
    | nil => simp [Specs] at h
    | cons p EL =>
      obtain ⟨e, A⟩ := p
      simp only [Specs] at h
      exact ⟨h.1, h.2.1, h.2.2.1, ih L' EL EL' h.2.2.2 h'⟩

theorem Specs_reverse {bd : List Term} {i : MInst} : ∀ (L : List Term) (EL : List (Term × Ty)),
    Specs bd i L EL → Specs bd i L.reverse EL.reverse := by
  intro L
  induction L with
  | nil => intro EL h; cases EL with
    | nil => trivial
    | cons _ _ => simp [Specs] at h
  | cons v rest ih =>
    intro EL h
    cases EL with
    | nil => simp [Specs] at h
    | cons p EL =>
      obtain ⟨e, A⟩ := p
      simp only [Specs] at h
      simp only [List.reverse_cons]
      exact Specs_append _ _ _ _ (ih EL h.2.2.2) ⟨h.1, h.2.1, h.2.2.1, trivial⟩

theorem argTypes_specs {bd : List Term} {i : MInst} (hbd : BdOK bd) : ∀ (L : List Term) (EL : List (Term × Ty)) (Ts : List Ty),
    Specs bd i L EL → argTypes bd i L = .ok Ts → Ts = EL.map Prod.snd := by
  intro L
  induction L with
  | nil =>
    intro EL Ts h ha
    cases EL with
    | nil => simpa [argTypes] using ha.symm
    | cons _ _ => simp [Specs] at h
  | cons v rest ih =>
    intro EL Ts h ha
    cases EL with
    | nil => simp [Specs] at h
    | cons p EL =>
      obtain ⟨e, A⟩ := p
      simp only [Specs] at h
      obtain ⟨he, hA, _, hrest⟩ := h
      unfold argInst at he
      by_cases hm : memT v bd = true
      · simp only [argTypes, hm, if_true] at ha
        obtain ⟨T1, h1, ha⟩ := bind_ok ha
        obtain ⟨Ts', h2, ha⟩ := bind_ok ha
        simp only [Except.ok.injEq] at ha h1; subst ha
        rw [if_pos hm] at he
        simp only [Option.some.injEq] at he; subst he
        obtain ⟨nm, U, rfl, _, _⟩ := memT_var hbd hm
        simp only [Term.typeOfAtom] at h1
        simp only [Term.checkedGetType, Except.ok.injEq] at hA
        simp only [List.map_cons, ← h1, hA, ih EL Ts' hrest h2]
      · rw [if_neg hm] at he
        cases v with
        | svar n Tn =>
          simp only at he
          simp only [argTypes, hm, he] at ha
          obtain ⟨T1, h1, ha⟩ := bind_ok ha
          obtain ⟨Ts', h2, ha⟩ := bind_ok ha
          simp only [Except.ok.injEq] at ha; subst ha
          have := liftT_ok h1
          rw [Term.getType_of_checked [] e A hA] at this
          simp only [Except.ok.injEq] at this
          simp only [List.map_cons, ← this, ih EL Ts' hrest h2]
        | _ => simp at he

theorem hasVars_forall (r : Term) : ∀ bd : List Term, (∀ w ∈ bd, hasVars [w] r = false) → hasVars bd r = false := by
  intro bd
  induction bd with
  | nil => intro _; exact hasVars_nil r
  | cons v rest ih =>
    intro h
    rw [hasVars_cons, h v (by simp), ih (fun w hw => h w (List.mem_cons_of_mem _ hw))]; rfl

/-- types: the instantiated pattern `?f a1 … an` and `r e1 … en` have the same lax type -/
theorem mkApp_type_congr : ∀ (l l' : List Term) (f g : Term), l.length = l'.length →
    Term.getType [] f = Term.getType [] g → Term.getType [] (mkApp f l) = Term.getType [] (mkApp g l') := by
  intro l
  induction l with
  | nil => intro l' f g hl h; cases l' with
    | nil => exact h
    | cons _ _ => simp at hl
  | cons a rest ih =>
    intro l' f g hl h
    cases l' with
    | nil => simp at hl
    | cons b rest' =>
      simp only [mkApp, List.foldl_cons]
      exact ih rest' (.comb f a) (.comb g b) (by simpa using hl) (by simp only [Term.getType, h])

theorem Specs_length {bd : List Term} {i : MInst} : ∀ (L : List Term) (EL : List (Term × Ty)), Specs bd i L EL → L.length = EL.length := by
  intro L
  induction L with
  | nil => intro EL h; cases EL with
    | nil => rfl
    | cons _ _ => simp [Specs] at h
  | cons v rest ih =>
    intro EL h
    cases EL with
    | nil => simp [Specs] at h
    | cons p EL => obtain ⟨e, A⟩ := p; simp only [Specs] at h; simp [ih EL h.2.2.2]

/-- denotations: argument by argument -/
theorem mkApp_sem_congr (M : Model) (ρ : Valuation) (τ : Ty.TyInst) {bd : List Term} {i : MInst} {L0 : List Term}
    (harg : ∀ v e A, argInst bd i v = some e → Term.checkedGetType [] e = .ok A → v ∈ L0 →
      sem M ρ [] [] (Term.substType τ v) = sem M ρ [] [] e) :
    ∀ (L : List Term) (EL : List (Term × Ty)) (f g : Term), (∀ v ∈ L, v ∈ L0) → Specs bd i L EL →
      Term.getType [] f = Term.getType [] g → sem M ρ [] [] f = sem M ρ [] [] g →
      sem M ρ [] [] (mkApp f (L.map (Term.substType τ))) = sem M ρ [] [] (mkApp g (EL.map Prod.fst)) := by
  intro L
  induction L with
  | nil => intro EL f g _ h _ hs; cases EL with
    | nil => exact hs
    | cons _ _ => simp [Specs] at h
  | cons v rest ih =>
    intro EL f g hL h ht hs
    cases EL with
    | nil => simp [Specs] at h
    | cons p EL =>
      obtain ⟨e, A⟩ := p
      simp only [Specs] at h
      simp only [List.map_cons, mkApp, List.foldl_cons]
      exact ih EL _ _ (fun x hx => hL x (List.mem_cons_of_mem _ hx)) h.2.2.2 (by simp only [Term.getType, ht])
        (sem_comb_congr M ρ [] [] g f e _ ht hs (harg v e A h.1 h.2.1 (hL v (by simp))))

theorem argInst_svars {bd : List Term} {i i1 : MInst} (h : i1.svars = i.svars) (v : Term) :
    argInst bd i1 v = argInst bd i v := by
  unfold argInst; rw [h]

theorem Specs_svars {bd : List Term} {i i1 : MInst} (h : i1.svars = i.svars) : ∀ (L : List Term) (EL : List (Term × Ty)),
    Specs bd i1 L EL → Specs bd i L EL := by
  intro L
  induction L with
  | nil => intro EL h'; cases EL <;> exact h'
  | cons v rest ih =>
    intro EL h'
    cases EL with
    | nil => exact h'
    | cons p EL =>
      obtain ⟨e, A⟩ := p
      simp only [Specs] at h' ⊢
      exact ⟨by rw [← argInst_svars h]; exact h'.1, h'.2.1, h'.2.2.1, ih EL h'.2.2.2⟩

theorem argInst_cases {bd : List Term} {i : MInst} {v e : Term} (hbd : BdOK bd) (h : argInst bd i v = some e) :
    (∃ nm U, v = .var nm U ∧ e = v ∧ TyOK U) ∨ (∃ n Tn, v = .svar n Tn ∧ i.svars.lookup n = some e) := by
  unfold argInst at h
  by_cases hm : memT v bd = true
  · rw [if_pos hm] at h
    simp only [Option.some.injEq] at h
    obtain ⟨nm, U, rfl, hU, _⟩ := memT_var hbd hm
    exact Or.inl ⟨nm, U, rfl, h.symm, hU⟩
  · rw [if_neg hm] at h
    cases v with
    | svar n Tn => exact Or.inr ⟨n, Tn, rfl, h⟩
    | _ => simp at h

theorem argTypes_stable {D : List (String × Ty)} {bd : List Term} {i : MInst} (hinv : HInv D bd i) (hbd : BdOK bd) :
    ∀ (L : List Term) (Ts : List Ty), argTypes bd i L = .ok Ts → ∀ T ∈ Ts, TyStable T := by
  intro L
  induction L with
  | nil => intro Ts h T hT; simp only [argTypes, Except.ok.injEq] at h; subst h; simp at hT
  | cons v rest ih =>
    intro Ts h T hT
    by_cases hm : memT v bd = true
    · simp only [argTypes, hm, if_true] at h
      obtain ⟨T1, h1, h⟩ := bind_ok h
      obtain ⟨Ts', h2, h⟩ := bind_ok h
      simp only [Except.ok.injEq] at h h1; subst h
      rcases List.mem_cons.1 hT with rfl | hT
      · obtain ⟨nm, U, rfl, hU, _⟩ := memT_var hbd hm
        simp only [Term.typeOfAtom] at h1; rw [← h1]; exact hU.1
      · exact ih Ts' h2 T hT
    · cases v with
      | svar n Tn =>
        cases hlk : i.svars.lookup n with
        | none => simp [argTypes, hm, hlk, bind, Except.bind] at h
        | some iv =>
          simp only [argTypes, hm, hlk] at h
          obtain ⟨T1, h1, h⟩ := bind_ok h
          obtain ⟨Ts', h2, h⟩ := bind_ok h
          simp only [Except.ok.injEq] at h; subst h
          rcases List.mem_cons.1 hT with rfl | hT
          · exact (getType_ok iv [] _ (hinv.vo n iv hlk) (by simp) (liftT_ok h1)).1
          · exact ih Ts' h2 T hT
      | _ => simp [argTypes, hm, bind, Except.bind] at h

theorem tfun_stable : ∀ (Ts : List Ty) (S : Ty), (∀ T ∈ Ts, TyStable T) → TyStable S → TyStable (tfun Ts S) := by
  intro Ts
  induction Ts with
  | nil => intro S _ hS; exact hS
  | cons A rest ih =>
    intro S h hS
    exact TyStable.fn (h A (by simp)) (ih S (fun T hT => h T (List.mem_cons_of_mem _ hT)) hS)

theorem matchMiller_sem {D : List (String × Ty)} {bd : List Term} {i i' : MInst} {hn : String} {hT : Ty} {p t : Term}
    (hhead : headOf p = .svar hn hT) (hl : i.svars.lookup hn = none)
    (hnh : needsHeuristic bd i (argsOf p) t = false) (hp : PatInS D i.tyinst p) (ht : TgtOK t)
    (hinv : HInv D bd i) (hbd : BdOK bd) (h : matchMiller bd i hn hT (argsOf p) t = .ok i') :
    HInv D bd i' ∧ ConclSem i' p t := by
  obtain ⟨S, hS, hSl, hSok⟩ := ht.types
  simp only [matchMiller] at h
  obtain ⟨Ts, hTs, h⟩ := bind_ok h
  obtain ⟨tT, htT, h⟩ := bind_ok h
  have := liftT_ok htT
  rw [hSl] at this; simp only [Except.ok.injEq] at this; subst this
  obtain ⟨i1, h1, h3⟩ := bind_ok h
  clear h
  obtain ⟨r, hr, h⟩ := bind_ok h3
  simp only [Except.ok.injEq] at h; subst h
  obtain ⟨he1, hsv1, _, hsub⟩ := bindTy_spec h1
  obtain ⟨hph, hpa⟩ := PatInS_args D i.tyinst p hp
  rw [hhead] at hph
  obtain ⟨T0, hD, hT0⟩ := hph
  -- the three conditions that kept us out of the heuristic branch
  simp only [needsHeuristic, Bool.or_eq_false_iff, List.any_eq_false, Bool.not_eq_false', Bool.not_eq_true,
    Bool.and_eq_true, not_and, Bool.not_eq_true'] at hnh
  obtain ⟨⟨_, _⟩, hc3⟩ := hnh
  have hinv1 : HInv D bd i1 := hinv.bindTy h1 (tfun_stable Ts S (argTypes_stable hinv hbd _ Ts hTs) hSok.1)
  have harg : ∀ v e, argInst bd i1 v = some e → ∃ A, Term.checkedGetType [] e = .ok A ∧ tOK e := by
    intro v e he
    rcases argInst_cases hbd he with ⟨nm, U, rfl, rfl, hU⟩ | ⟨n, Tn, rfl, hlk⟩
    · exact ⟨U, rfl, hU⟩
    · obtain ⟨A, hA⟩ := hinv1.vt n e hlk
      exact ⟨A, hA, hinv1.vo n e hlk⟩
  obtain ⟨EL, hsp, tr, or_, nr, tapp, sapp⟩ := abstractArgs_spec hbd harg _ t r S hr hS ht.ok ht.ns
  have hsp' : Specs bd i1 (argsOf p) EL.reverse := by
    have := Specs_reverse _ _ hsp
    simpa only [List.reverse_reverse] using this
  have hTsEq : Ts = (EL.map Prod.snd).reverse := by
    rw [argTypes_specs hbd _ _ Ts (Specs_svars hsv1 _ _ hsp') hTs, List.map_reverse]
  have hrT : Term.checkedGetType [] r = .ok (tfun Ts S) := by rw [hTsEq, ← tfunRev_eq]; exact tr
  have hes : (EL.reverse.map Prod.fst) = (EL.map Prod.fst).reverse := List.map_reverse
  -- no stand-in variable survives in r
  have havr : hasVars bd r = false := by
    apply hasVars_forall
    intro w hw
    have hwm : memT w bd = true := by
      simp only [memT, List.any_eq_true]; exact ⟨w, hw, aeq_refl w⟩
    obtain ⟨nm, U, rfl, _⟩ := hbd w hw
    by_cases hin : memT (Term.var nm U) (argsOf p) = true
    · have hmem : Term.var nm U ∈ argsOf p := by
        simp only [memT, List.any_eq_true] at hin
        obtain ⟨a, ha, haeq⟩ := hin
        cases a <;> simp [Term.aeq] at haeq
        obtain ⟨rfl, rfl⟩ := haeq; exact ha
      exact abstractArgs_removes hbd _ hwm _ t r hr (by simpa using hmem)
    · have : memT (Term.var nm U) (varsOf t) = false := by
        have := hc3 _ hw
        cases hx : memT (Term.var nm U) (varsOf t) with
        | false => rfl
        | true => exact absurd (this hx) (by simpa using hin)
      exact abstractArgs_mono hbd _ _ t r hr (by rw [hasVars_single_memT]; exact this)
  have hl1 : i1.svars.lookup hn = none := by rw [hsv1]; exact hl
  refine ⟨hinv1.addSvar havr hrT or_ nr ?_, ?_⟩
  · intro T0' hD' τ hτ
    rw [hD] at hD'; simp only [Option.some.injEq] at hD'; subst hD'
    rw [← hT0 τ (he1.ty.trans hτ)]; exact hsub τ hτ
  · intro τ hτ _
    have hτ1 : ExtL i1.tyinst τ := hτ
    have hTτ : hT.subst τ = tfun Ts S := hsub τ hτ1
    have hpeq : Term.substType τ p = mkApp (.svar hn (hT.subst τ)) ((argsOf p).map (Term.substType τ)) := by
      conv => lhs; rw [← mkApp_head_args p, substType_mkApp, hhead]
      rfl
    have hty0 : Term.getType [] (Term.svar hn (hT.subst τ)) = Term.getType [] r := by
      simp only [Term.getType, hTτ, Term.getType_of_checked [] r _ hrT]
    have hlen : ((argsOf p).map (Term.substType τ)).length = (EL.reverse.map Prod.fst).length := by
      simp [Specs_length _ _ hsp']
    have htyp := mkApp_type_congr _ _ _ _ hlen hty0
    rw [hes, Term.getType_of_checked [] _ _ tapp, ← hSl] at htyp
    refine ⟨by rw [hpeq]; exact htyp, ?_⟩
    intro M ρ hρ hsat
    rw [hpeq, ← sapp M ρ hρ, ← hes]
    apply mkApp_sem_congr M ρ τ (L0 := argsOf p) (bd := bd) (i := i1) ?_ (argsOf p) EL.reverse _ _ (fun _ hv => hv) hsp' hty0
    · simp only [sem, hTτ]
      exact hsat hn r _ (by simp only [MInst.addSvar]; exact lookup_append_new _ hn r hl1) hrT
    · intro v e A he hA hv
      rcases argInst_cases hbd he with ⟨nm, U, rfl, rfl, hU⟩ | ⟨n, Tn, rfl, hlk⟩
      · simp only [Term.substType, hU.1 τ]
      · obtain ⟨T0n, hDn, hT0n⟩ := hpa _ hv
        obtain ⟨Ul, hUl, hUτ⟩ := hinv1.td n T0n e hDn hlk
        have hAU : A = Ul := by
          have := Term.getType_of_checked [] e A hA
          rw [hUl] at this; simpa using this.symm
        subst hAU
        have hTn : Tn.subst τ = A := by rw [hT0n τ (he1.ty.trans hτ1)]; exact hUτ τ hτ1
        simp only [Term.substType, sem, hTn]
        exact hsat n e A (by simp only [MInst.addSvar]; exact lookup_append_some _ _ n e hlk) hA

end Holpy.C09
