import Holpy.C09.ProofsAbs
/-
C09 — soundness of first-order matching THROUGH BINDERS (helper lemmas), for targets that have an
abstraction wherever the pattern has one (otherwise the matcher eta-expands the target and the
instantiated pattern is only eta-equal to it).
-/
set_option linter.unnecessarySimpa false
namespace Holpy.C09
open Holpy

/-- the target has an abstraction wherever the pattern has one -/
def absAligned : Term → Term → Bool
  | .abs _ _ b, t =>
    match t with
    | .abs _ _ c => absAligned b c
    | _ => false
  | .comb f a, t =>
    match t with
    | .comb g b => absAligned f g && absAligned a b
    | _ => true
  | _, _ => true

theorem absAligned_substType (σ : Ty.TyInst) : ∀ p t : Term, absAligned (Term.substType σ p) t = absAligned p t := by
  intro p
  induction p with
  | comb f a ihf iha => intro t; cases t <;> simp only [Term.substType, absAligned, ihf, iha]
  | abs x T b ih => intro t; cases t <;> simp only [Term.substType, absAligned, ih]
  | _ => intro t; rfl

theorem absAligned_leaf_open (nm : String) (U : Ty) (n i : Nat) (t : Term) :
    absAligned (Term.substBoundAt (.var nm U) n (.bound i)) t = true := by
  simp only [Term.substBoundAt]
  split
  · rfl
  · split <;> rfl

theorem absAligned_open (nm : String) (U : Ty) : ∀ (p t : Term) (n : Nat), absAligned p t = true →
    absAligned (Term.substBoundAt (.var nm U) n p) (Term.substBoundAt (.var nm U) n t) = true := by
  intro p
  induction p with
  | comb f a ihf iha =>
    intro t n h
    cases t with
    | comb g b =>
      simp only [absAligned, Bool.and_eq_true] at h
      simp only [Term.substBoundAt, absAligned, ihf g n h.1, iha b n h.2, Bool.and_self]
    | bound j =>
      simp only [Term.substBoundAt]
      split
      · rfl
      · split <;> rfl
    | _ => rfl
  | abs x T b ih =>
    intro t n h
    cases t with
    | abs y S c => simp only [absAligned] at h; simp only [Term.substBoundAt, absAligned, ih c (n + 1) h]
    | _ => simp [absAligned] at h
  | bound i => intro t n _; exact absAligned_leaf_open nm U n i _
  | svar m T => intro t n _; rfl
  | var m T => intro t n _; rfl
  | const m T => intro t n _; rfl

/-! ### closing a binder again: `a[v/n] =α b[v/n]` with `v` not in `a`, `b` gives `a =α b` -/

theorem aeq_unopen (nm : String) (U : Ty) : ∀ (a b : Term) (n : Nat),
    hasVars [.var nm U] a = false → hasVars [.var nm U] b = false →
    Term.aeq (Term.substBoundAt (.var nm U) n a) (Term.substBoundAt (.var nm U) n b) = true →
    Term.aeq a b = true := by
  intro a
  induction a with
  | comb f x ihf ihx =>
    intro b n ha hb h
    simp only [hasVars, Bool.or_eq_false_iff] at ha
    cases b with
    | comb g y =>
      simp only [hasVars, Bool.or_eq_false_iff] at hb
      simp only [Term.substBoundAt, Term.aeq, Bool.and_eq_true] at h ⊢
      exact ⟨ihf g n ha.1 hb.1 h.1, ihx y n ha.2 hb.2 h.2⟩
    | bound j =>
      simp only [Term.substBoundAt] at h
      split at h
      · simp [incr_var, Term.aeq] at h
      · split at h <;> simp [Term.aeq] at h
    | _ => simp [Term.substBoundAt, Term.aeq] at h
  | abs x T c ih =>
    intro b n ha hb h
    simp only [hasVars] at ha
    cases b with
    | abs y S d =>
      simp only [hasVars] at hb
      simp only [Term.substBoundAt, Term.aeq, Bool.and_eq_true] at h ⊢
      exact ⟨h.1, ih d (n + 1) ha hb h.2⟩
    | bound j =>
      simp only [Term.substBoundAt] at h
      split at h
      · simp [incr_var, Term.aeq] at h
      · split at h <;> simp [Term.aeq] at h
    | _ => simp [Term.substBoundAt, Term.aeq] at h
  | bound i =>
    intro b n _ hb h
    cases b with
    | bound j =>
      simp only [Term.substBoundAt, incr_var] at h
      simp only [Term.aeq, beq_iff_eq]
      by_cases hi : i = n
      · by_cases hj : j = n
        · omega
        · have h1 : (i == n) = true := by simpa using hi
          have h2 : (j == n) = false := by simpa using hj
          simp only [h1, h2, ↓reduceIte, Bool.false_eq_true] at h
          split at h <;> simp [Term.aeq] at h
      · have h1 : (i == n) = false := by simpa using hi
        by_cases hj : j = n
        · have h2 : (j == n) = true := by simpa using hj
          simp only [h1, h2, ↓reduceIte, Bool.false_eq_true] at h
          split at h <;> simp [Term.aeq] at h
        · have h2 : (j == n) = false := by simpa using hj
          simp only [h1, h2, Bool.false_eq_true, ↓reduceIte] at h
          split at h <;> split at h <;> simp only [Term.aeq, beq_iff_eq] at h <;> omega
    | var m S =>
      simp only [Term.substBoundAt, incr_var] at h
      split at h
      · simp only [hasVars, memT, List.any_cons, List.any_nil, Bool.or_false] at hb
        have := aeq_symm h
        rw [this] at hb; simp at hb
      · split at h <;> simp [Term.aeq] at h
    | svar m S => simp only [Term.substBoundAt, incr_var] at h; split at h; · simp [Term.aeq] at h
                  · split at h <;> simp [Term.aeq] at h
    | const m S => simp only [Term.substBoundAt, incr_var] at h; split at h; · simp [Term.aeq] at h
                   · split at h <;> simp [Term.aeq] at h
    | comb g y => simp only [Term.substBoundAt, incr_var] at h; split at h; · simp [Term.aeq] at h
                  · split at h <;> simp [Term.aeq] at h
    | abs y S d => simp only [Term.substBoundAt, incr_var] at h; split at h; · simp [Term.aeq] at h
                   · split at h <;> simp [Term.aeq] at h
  | var m S =>
    intro b n ha _ h
    cases b with
    | bound j =>
      simp only [Term.substBoundAt, incr_var] at h
      split at h
      · simp only [hasVars, memT, List.any_cons, List.any_nil, Bool.or_false] at ha
        rw [h] at ha; simp at ha
      · split at h <;> simp [Term.aeq] at h
    | _ => simpa [Term.substBoundAt, Term.aeq] using h
  | svar m S =>
    intro b n _ _ h
    cases b with
    | bound j =>
      simp only [Term.substBoundAt, incr_var] at h
      split at h
      · simp [Term.aeq] at h
      · split at h <;> simp [Term.aeq] at h
    | _ => simpa [Term.substBoundAt, Term.aeq] using h
  | const m S =>
    intro b n _ _ h
    cases b with
    | bound j =>
      simp only [Term.substBoundAt, incr_var] at h
      split at h
      · simp [Term.aeq] at h
      · split at h <;> simp [Term.aeq] at h
    | _ => simpa [Term.substBoundAt, Term.aeq] using h

/-! ### invariants of the instantiation while matching under binders -/

/-- no value of the instantiation mentions a stand-in variable -/
def AvoidBd (bd : List Term) (i : MInst) : Prop := ∀ n s, i.svars.lookup n = some s → hasVars bd s = false

/-- every schematic variable of the pattern is bound -/
def AllBound (i : MInst) (p : Term) : Prop := ∀ n ∈ svarNamesOf p, ∃ s, i.svars.lookup n = some s

structure SInv (bd : List Term) (i : MInst) : Prop where
  st : TyInstStable i.tyinst
  cl : SvClosed i
  av : AvoidBd bd i

def RecFOBSound (k : Rec) : Prop :=
  ∀ bd i p t i', isFOB p = true → Term.isOpenAt 0 p = false → Term.isOpenAt 0 t = false →
    absAligned p t = true → tStable t → SInv bd i → k bd i p t = .ok i' →
    SInv bd i' ∧ AllBound i' p ∧ ∀ j, Ext i' j → Instantiates j p t

theorem substRec_total (K : Term.Inst) (hK : K.vars = []) : ∀ Y : Term, ∃ r, Term.substRec K Y = .ok r := by
  intro Y
  induction Y with
  | svar m T => simp only [Term.substRec]; split <;> exact ⟨_, rfl⟩
  | var m T => simp only [Term.substRec, hK, List.lookup_nil]; exact ⟨_, rfl⟩
  | const m T => exact ⟨_, rfl⟩
  | bound i => exact ⟨_, rfl⟩
  | comb f a ihf iha =>
    obtain ⟨rf, hf⟩ := ihf
    obtain ⟨ra, ha⟩ := iha
    exact ⟨.comb rf ra, by simp only [Term.substRec, hf, ha]; rfl⟩
  | abs x T b ih =>
    obtain ⟨rb, hb⟩ := ih
    exact ⟨.abs x T rb, by simp only [Term.substRec, hb]; rfl⟩

theorem substRec_open_local (ty : Ty.TyInst) (sv : List (String × Term)) (nm : String) (U : Ty) :
    ∀ (Y r : Term) (n : Nat), (∀ m ∈ svarNamesOf Y, ∀ s, sv.lookup m = some s → Term.isOpenAt 0 s = false) →
    Term.substRec ⟨ty, sv, []⟩ Y = .ok r →
    Term.substRec ⟨ty, sv, []⟩ (Term.substBoundAt (.var nm U) n Y) = .ok (Term.substBoundAt (.var nm U) n r) := by
  intro Y
  induction Y with
  | svar m T =>
    intro r n hc h
    simp only [Term.substRec] at h
    simp only [Term.substBoundAt, Term.substRec]
    cases hl : sv.lookup m with
    | some s =>
      simp only [hl, Except.ok.injEq] at h ⊢; subst h
      exact (substBoundAt_closed _ _ n (isOpenAt_mono _ 0 n (Nat.zero_le _) (hc m (by simp [svarNamesOf]) _ hl))).symm
    | none =>
      simp only [hl, Except.ok.injEq] at h ⊢; subst h; rfl
  | var m T =>
    intro r n _ h
    simp only [Term.substRec, List.lookup_nil, Except.ok.injEq] at h; subst h
    simp only [Term.substBoundAt, Term.substRec, List.lookup_nil]
  | const m T =>
    intro r n _ h
    simp only [Term.substRec, Except.ok.injEq] at h; subst h
    simp only [Term.substBoundAt, Term.substRec]
  | bound i =>
    intro r n _ h
    simp only [Term.substRec, Except.ok.injEq] at h; subst h
    simp only [Term.substBoundAt]
    split
    · simp only [incr_var, Term.substRec, List.lookup_nil]
    · split <;> simp only [Term.substRec]
  | comb f a ihf iha =>
    intro r n hc h
    simp only [Term.substRec] at h
    obtain ⟨rf, hf, h⟩ := bind_ok h
    obtain ⟨ra, ha, h⟩ := bind_ok h
    simp only [Except.ok.injEq] at h; subst h
    simp only [Term.substBoundAt, Term.substRec,
      ihf rf n (fun m hm => hc m (by simp [svarNamesOf, hm])) hf,
      iha ra n (fun m hm => hc m (by simp [svarNamesOf, hm])) ha]; rfl
  | abs x T b ih =>
    intro r n hc h
    simp only [Term.substRec] at h
    obtain ⟨rb, hb, h⟩ := bind_ok h
    simp only [Except.ok.injEq] at h; subst h
    simp only [Term.substBoundAt, Term.substRec, ih rb (n + 1) (fun m hm => hc m (by simpa [svarNamesOf] using hm)) hb]; rfl

theorem hasVars_substRec (vs : List Term) (ty : Ty.TyInst) (sv : List (String × Term)) : ∀ (Y r : Term),
    hasVars vs Y = false → (∀ m ∈ svarNamesOf Y, ∀ s, sv.lookup m = some s → hasVars vs s = false) →
    Term.substRec ⟨ty, sv, []⟩ Y = .ok r → hasVars vs r = false := by
  intro Y
  induction Y with
  | svar m T =>
    intro r _ hc h
    simp only [Term.substRec] at h
    cases hl : sv.lookup m with
    | some s => simp only [hl, Except.ok.injEq] at h; subst h; exact hc m (by simp [svarNamesOf]) _ hl
    | none => simp only [hl, Except.ok.injEq] at h; subst h; rfl
  | var m T => intro r hY _ h; simp only [Term.substRec, List.lookup_nil, Except.ok.injEq] at h; subst h; exact hY
  | const m T => intro r _ _ h; simp only [Term.substRec, Except.ok.injEq] at h; subst h; rfl
  | bound i => intro r _ _ h; simp only [Term.substRec, Except.ok.injEq] at h; subst h; rfl
  | comb f a ihf iha =>
    intro r hY hc h
    simp only [hasVars, Bool.or_eq_false_iff] at hY
    simp only [Term.substRec] at h
    obtain ⟨rf, hf, h⟩ := bind_ok h
    obtain ⟨ra, ha, h⟩ := bind_ok h
    simp only [Except.ok.injEq] at h; subst h
    simp only [hasVars, ihf rf hY.1 (fun m hm => hc m (by simp [svarNamesOf, hm])) hf,
      iha ra hY.2 (fun m hm => hc m (by simp [svarNamesOf, hm])) ha, Bool.or_self]
  | abs x T b ih =>
    intro r hY hc h
    simp only [hasVars] at hY
    simp only [Term.substRec] at h
    obtain ⟨rb, hb, h⟩ := bind_ok h
    simp only [Except.ok.injEq] at h; subst h
    simp only [hasVars]
    exact ih rb hY (fun m hm => hc m (by simpa [svarNamesOf] using hm)) hb

theorem varsOf_substType_names (σ : Ty.TyInst) : ∀ t : Term, varNamesOf (Term.substType σ t) = varNamesOf t := by
  intro t
  induction t with
  | comb f a ihf iha =>
    simp only [varNamesOf, varsOf, Term.substType, List.map_append] at ihf iha ⊢
    rw [ihf, iha]
  | abs x T b ih => simpa only [varNamesOf, varsOf, Term.substType] using ih
  | var n T => rfl
  | svar n T => rfl
  | const n T => rfl
  | bound i => rfl

theorem mem_of_lookup {α : Type} : ∀ (l : List (String × α)) (n : String) (a : α), l.lookup n = some a → (n, a) ∈ l
  | [], n, a, h => by simp at h
  | (k, v) :: l, n, a, h => by
    simp only [List.lookup_cons] at h
    cases hnk : n == k with
    | true =>
      rw [hnk] at h; simp only [Option.some.injEq] at h; subst h
      have : n = k := by simpa using hnk
      subst this; simp
    | false => rw [hnk] at h; exact List.mem_cons_of_mem _ (mem_of_lookup l n a h)

theorem bindTy_stable {T U : Ty} {i i1 : MInst} (h : bindTy T U i = .ok i1) (hU : TyStable U)
    (hs : TyInstStable i.tyinst) : TyInstStable i1.tyinst := by
  simp only [bindTy] at h
  split at h
  · next σ hσ => simp only [Except.ok.injEq] at h; subst h; exact matchIncr_stable T U _ _ hσ hU hs
  · simp at h

theorem AvoidBd.tail {v : Term} {bd : List Term} {i : MInst} (h : AvoidBd (v :: bd) i) : AvoidBd bd i := by
  intro n s hl
  have := h n s hl
  rw [hasVars_cons] at this
  simp only [Bool.or_eq_false_iff] at this
  exact this.2

theorem matchSvar_soundB {bd : List Term} {inst inst' : MInst} {n : String} {T : Ty} {t : Term}
    (hcl : Term.isOpenAt 0 t = false) (hts : tStable t) (hinv : SInv bd inst)
    (h : matchSvar bd inst n T t = .ok inst') : SInv bd inst' ∧ AllBound inst' (.svar n T) := by
  simp only [matchSvar] at h
  split at h
  · next hl =>
    split at h
    · simp at h
    · next hv =>
      obtain ⟨tT, htT, h⟩ := bind_ok h
      obtain ⟨i1, h1, h⟩ := bind_ok h
      simp only [Except.ok.injEq] at h; subst h
      obtain ⟨_, hsv, _, _⟩ := bindTy_spec h1
      have hl' : (i1.addSvar n t).svars.lookup n = some t := by
        simp only [MInst.addSvar, hsv]; exact lookup_append_new _ n t hl
      have hnew : ∀ (P : Term → Prop), P t → (∀ m s, inst.svars.lookup m = some s → P s) →
          ∀ m s, (i1.addSvar n t).svars.lookup m = some s → P s := by
        intro P hPt hP m s hm
        simp only [MInst.addSvar, hsv] at hm
        cases hm0 : inst.svars.lookup m with
        | some x0 =>
          rw [lookup_append_some _ _ m x0 hm0] at hm
          simp only [Option.some.injEq] at hm; subst hm; exact hP m x0 hm0
        | none =>
          rw [lookup_append_none _ _ m hm0] at hm
          simp only [List.lookup_cons, List.lookup_nil] at hm
          cases hmn : m == n with
          | true => rw [hmn] at hm; simp only [Option.some.injEq] at hm; subst hm; exact hPt
          | false => rw [hmn] at hm; simp at hm
      refine ⟨⟨?_, hnew _ hcl hinv.cl, hnew _ (by simpa using hv) hinv.av⟩, ?_⟩
      · show TyInstStable i1.tyinst
        exact bindTy_stable h1 (getType_stable t [] tT hts (by simp) (liftT_ok htT)) hinv.st
      · intro m hm
        simp only [svarNamesOf, List.mem_singleton] at hm; subst hm
        exact ⟨t, hl'⟩
  · next s hl =>
    split at h
    · simp only [Except.ok.injEq] at h; subst h
      refine ⟨hinv, ?_⟩
      intro m hm
      simp only [svarNamesOf, List.mem_singleton] at hm; subst hm
      exact ⟨s, hl⟩
    · simp at h

theorem matchAtom_soundB {bd : List Term} {inst inst' : MInst} {pat t : Term} (hts : tStable t) (hinv : SInv bd inst)
    (h : matchAtom inst pat t = .ok inst') : SInv bd inst' := by
  unfold matchAtom at h
  split at h
  · split at h
    · obtain ⟨_, hsv, _, _⟩ := bindTy_spec h
      exact ⟨bindTy_stable h hts hinv.st, by intro n s hl; rw [hsv] at hl; exact hinv.cl n s hl,
        by intro n s hl; rw [hsv] at hl; exact hinv.av n s hl⟩
    · simp at h
  · split at h
    · obtain ⟨_, hsv, _, _⟩ := bindTy_spec h
      exact ⟨bindTy_stable h hts hinv.st, by intro n s hl; rw [hsv] at hl; exact hinv.cl n s hl,
        by intro n s hl; rw [hsv] at hl; exact hinv.av n s hl⟩
    · simp at h
  · simp at h

theorem AllBound.mono {i j : MInst} {p : Term} (h : AllBound i p) (he : Ext i j) : AllBound j p := by
  intro n hn
  obtain ⟨s, hs⟩ := h n hn
  exact ⟨s, he.sv n s hs⟩

theorem combCase_soundB {k : Rec} (hk : RecFOBSound k) (hke : RecExt k) {bd : List Term} {inst inst' : MInst}
    {f a t : Term} (hf : isFOB f = true) (ha : isFOB a = true) (hcf : Term.isOpenAt 0 f = false)
    (hca : Term.isOpenAt 0 a = false) (hct : Term.isOpenAt 0 t = false) (hal : absAligned (.comb f a) t = true)
    (hts : tStable t) (hinv : SInv bd inst) (h : combCase k bd inst f a t = .ok inst') :
    SInv bd inst' ∧ AllBound inst' (.comb f a) ∧ ∀ j, Ext inst' j → Instantiates j (.comb f a) t := by
  unfold combCase at h
  split at h
  · next tf ta =>
    simp only [Term.isOpenAt, Bool.or_eq_false_iff] at hct
    simp only [absAligned, Bool.and_eq_true] at hal
    split at h
    · obtain ⟨i1, h1, h⟩ := bind_ok h
      obtain ⟨inv1, ab1, s1⟩ := hk _ _ _ _ _ hf hcf hct.1 hal.1 hts.1 hinv h1
      obtain ⟨inv2, ab2, s2⟩ := hk _ _ _ _ _ ha hca hct.2 hal.2 hts.2 inv1 h
      have he := hke _ _ _ _ _ h
      refine ⟨inv2, ?_, fun j hj => Instantiates.comb (s1 j (he.trans hj)) (s2 j hj)⟩
      intro n hn
      simp only [svarNamesOf, List.mem_append] at hn
      rcases hn with hn | hn
      · exact (ab1.mono he) n hn
      · exact ab2 n hn
    · obtain ⟨i1, h1, h⟩ := bind_ok h
      obtain ⟨inv1, ab1, s1⟩ := hk _ _ _ _ _ ha hca hct.2 hal.2 hts.2 hinv h1
      obtain ⟨inv2, ab2, s2⟩ := hk _ _ _ _ _ hf hcf hct.1 hal.1 hts.1 inv1 h
      have he := hke _ _ _ _ _ h
      refine ⟨inv2, ?_, fun j hj => Instantiates.comb (s2 j hj) (s1 j (he.trans hj))⟩
      intro n hn
      simp only [svarNamesOf, List.mem_append] at hn
      rcases hn with hn | hn
      · exact ab2 n hn
      · exact (ab1.mono he) n hn
  · simp at h

theorem absCase_soundB {k : Rec} (hk : RecFOBSound k) (hke : RecExt k) {bd : List Term} {inst inst' : MInst} {x : String}
    {T : Ty} {body t : Term} (hf : isFOB body = true) (hcl : Term.isOpenAt 1 body = false)
    (hct : Term.isOpenAt 0 t = false) (hal : absAligned (.abs x T body) t = true) (hts : tStable t)
    (hinv : SInv bd inst) (h : absCase k bd inst x T body t = .ok inst') :
    SInv bd inst' ∧ AllBound inst' (.abs x T body) ∧ ∀ j, Ext inst' j → Instantiates j (.abs x T body) t := by
  cases t with
  | abs y U tb =>
    simp only [absAligned] at hal
    simp only [Term.isOpenAt] at hct
    obtain ⟨hU, htb⟩ := hts
    unfold absCase at h
    obtain ⟨i1, h1, h⟩ := bind_ok h
    obtain ⟨he1, hsv1, _, hsub⟩ := bindTy_spec h1
    have hst1 : TyInstStable i1.tyinst := bindTy_stable h1 hU hinv.st
    have hTU : T.subst i1.tyinst = U := hsub _ (ExtL.refl _)
    let i2 := i1.addAbsName x y
    let names := varNamesOf body ++ varNamesOf tb ++ i2.svars.flatMap (fun p => varNamesOf p.2)
    let nm := variantName x names
    have hfresh : nm ∉ names := variantName_fresh x names
    have hty2 : i2.tyinst = i1.tyinst := addAbsName_tyinst i1 x y
    have hsv2 : i2.svars = inst.svars := by rw [addAbsName_svars, hsv1]
    have h2 : k (Term.var nm (T.subst i1.tyinst) :: bd) i2
        (Term.substBoundAt (Term.var nm (T.subst i1.tyinst)) 0 (Term.substType i2.tyinst body))
        (Term.substBoundAt (Term.var nm (T.subst i1.tyinst)) 0 tb) = .ok inst' := h
    have hst2 : TyInstStable i2.tyinst := by rw [hty2]; exact hst1
    have hinv2 : SInv (Term.var nm (T.subst i1.tyinst) :: bd) i2 := by
      refine ⟨hst2, by intro n s hl; rw [hsv2] at hl; exact hinv.cl n s hl, ?_⟩
      intro n s hl
      rw [hasVars_cons]
      have hmem : (n, s) ∈ i2.svars := mem_of_lookup _ _ _ hl
      have h1' : hasVars [Term.var nm (T.subst i1.tyinst)] s = false := by
        apply hasVars_single
        intro hx
        apply hfresh
        simp only [names, List.mem_append, List.mem_flatMap]
        exact Or.inr ⟨(n, s), hmem, hx⟩
      rw [hsv2] at hl
      simp [h1', hinv.av n s hl]
    obtain ⟨inv', ab', snd'⟩ := hk _ _ _ _ _
      (by rw [isFOB_open, isFOB_substType]; exact hf)
      (by apply isOpenAt_open; rw [isOpenAt_substType]; exact hcl)
      (isOpenAt_open nm _ tb 0 hct)
      (by apply absAligned_open; rw [absAligned_substType]; exact hal)
      (by rw [hTU]; exact tStable_open nm _ hU tb 0 htb)
      hinv2 h2
    have hab : AllBound inst' (.abs x T body) := by
      intro n hn
      exact ab' n (by rw [svarNames_open, svarNames_substType]; simpa [svarNamesOf] using hn)
    refine ⟨⟨inv'.st, inv'.cl, inv'.av.tail⟩, hab, ?_⟩
    intro j hj
    -- what the recursive call established, at j
    obtain ⟨r', hr', haeq'⟩ := snd' j hj
    have he2 : Ext i2 inst' := hke _ _ _ _ _ h2
    have hle : ExtL i2.tyinst j.tyinst := fun m V hm => hj.ty m V (he2.ty m V hm)
    have hbelow : TyBelow i2.tyinst j.tyinst := fun m V hm => by simp [Ty.subst, hle m V hm]
    have hTj : T.subst j.tyinst = U := hsub j.tyinst (by rw [← hty2]; exact hle)
    -- the values of j at the schematic variables of the body are those of inst'
    have hval : ∀ m ∈ svarNamesOf body, ∀ s, j.svars.lookup m = some s → inst'.svars.lookup m = some s := by
      intro m hm s hs
      obtain ⟨s0, hs0⟩ := hab m (by simpa [svarNamesOf] using hm)
      have := hj.sv m s0 hs0
      rw [hs] at this; simp only [Option.some.injEq] at this; subst this; exact hs0
    simp only [applyInst] at hr'
    rw [substType_open, substType_below i2.tyinst j.tyinst hbelow hst2, hTU, hU j.tyinst] at hr'
    rw [hTU] at haeq'
    obtain ⟨rb, hrb⟩ := substRec_total ⟨j.tyinst, j.svars, []⟩ rfl (Term.substType j.tyinst body)
    have hopen := substRec_open_local j.tyinst j.svars nm U _ rb 0
      (by
        intro m hm s hs
        rw [svarNames_substType] at hm
        exact inv'.cl m s (hval m hm s hs)) hrb
    rw [hopen] at hr'
    simp only [Except.ok.injEq] at hr'; subst hr'
    have hnb : nm ∉ varNamesOf body := fun hx => hfresh (by simp only [names, List.mem_append]; exact Or.inl (Or.inl hx))
    have hntb : nm ∉ varNamesOf tb := fun hx => hfresh (by simp only [names, List.mem_append]; exact Or.inl (Or.inr hx))
    have hv_rb : hasVars [Term.var nm U] rb = false :=
      hasVars_substRec _ j.tyinst j.svars _ rb
        (hasVars_single nm U _ (by rw [varsOf_substType_names]; exact hnb))
        (by
          intro m hm s hs
          rw [svarNames_substType] at hm
          have := inv'.av m s (hval m hm s hs)
          rw [hasVars_cons, hTU] at this
          simp only [Bool.or_eq_false_iff] at this
          exact this.1) hrb
    have haeq : Term.aeq rb tb = true := aeq_unopen nm U rb tb 0 hv_rb (hasVars_single nm U tb hntb) haeq'
    refine ⟨.abs x (T.subst j.tyinst) rb, ?_, ?_⟩
    · simp only [applyInst, Term.substType, Term.substRec, hrb]; rfl
    · simp only [Term.aeq, hTj, haeq, Bool.and_self, beq_self_eq_true]
  | _ => simp [absAligned] at hal

theorem matchAux_fob_sound (bf : Nat) : ∀ fuel, RecFOBSound (matchAux bf fuel) := by
  intro fuel
  induction fuel with
  | zero => intro bd i p t i' _ _ _ _ _ _ h; simp [matchAux] at h
  | succ fuel ih =>
    intro bd i p t i' hp hcl hct hal hts hinv h
    cases p with
    | svar n T =>
      have h' : matchSvar bd i n T t = .ok i' := by simpa only [matchAux] using h
      obtain ⟨inv', ab'⟩ := matchSvar_soundB hct hts hinv h'
      exact ⟨inv', ab', matchSvar_sound h'⟩
    | var n T =>
      have h' : matchAtom i (.var n T) t = .ok i' := by simpa only [matchAux] using h
      refine ⟨?_, fun m hm => by simp [svarNamesOf] at hm, matchAtom_sound h'⟩
      cases t with
      | var m U => exact matchAtom_soundB hts hinv h'
      | _ => simp [matchAtom] at h'
    | const n T =>
      have h' : matchAtom i (.const n T) t = .ok i' := by simpa only [matchAux] using h
      refine ⟨?_, fun m hm => by simp [svarNamesOf] at hm, matchAtom_sound h'⟩
      cases t with
      | const m U => exact matchAtom_soundB hts hinv h'
      | _ => simp [matchAtom] at h'
    | bound j => simp [Term.isOpenAt] at hcl
    | abs x T body =>
      simp only [isFOB] at hp
      simp only [Term.isOpenAt] at hcl
      exact absCase_soundB ih (matchAux_ext bf fuel) hp hcl hct hal hts hinv (by simpa only [matchAux] using h)
    | comb f a =>
      simp only [isFOB, Bool.and_eq_true, Bool.not_eq_true'] at hp
      simp only [Term.isOpenAt, Bool.or_eq_false_iff] at hcl
      simp only [matchAux] at h
      split at h
      · next hn hT hh => exact absurd hh (isFOB_head f hp.1.2 hp.1.1 hn hT)
      · exact combCase_soundB ih (matchAux_ext bf fuel) hp.1.2 hp.2 hcl.1 hcl.2 hct hal hts hinv h

end Holpy.C09
