import Holpy.Kernel.Wire
import Holpy.C09.Model
/-
Line protocol of the matcher model:
  (match FUEL BFUEL PAT T SEED)            -> (ok MINST) | (err KIND)
  (matchlist FUEL BFUEL (PAT*) (T*) SEED)  -> (ok MINST) | (err KIND)
  (ispattern T (name*) (name*))            -> T | F
  SEED  := (noinst) | MINST
  MINST := (minst ((name Ty)*) ((name Term)*) ((name Term)*) ((name name)*))
  KIND  := match | typecheck | term | crash | fuel
-/
open Holpy Holpy.Wire

namespace Holpy.C09.Driver

def namesOf (l : List Sexp) : Option (List (String × String)) :=
  l.mapM fun
    | .list [.atom a, .atom b] => some (a, b)
    | _ => none

def atomsOf (l : List Sexp) : Option (List String) :=
  l.mapM fun
    | .atom a => some a
    | _ => none

def instOf : Sexp → Option MInst
  | .list [.atom "noinst"] => some MInst.empty
  | .list [.atom "minst", .list ty, .list sv, .list vs, .list ns] => do
    some ⟨← tyInstOf ty, ← termMapOf sv, ← termMapOf vs, ← namesOf ns⟩
  | _ => none

def instTo (i : MInst) : Sexp :=
  .list [.atom "minst",
    .list (i.tyinst.map fun (n, T) => .list [.atom n, tyTo T]),
    .list (i.svars.map fun (n, t) => .list [.atom n, termTo t]),
    .list (i.varInst.map fun (n, t) => .list [.atom n, termTo t]),
    .list (i.absNames.map fun (n, m) => .list [.atom n, .atom m])]

def errTo : MErr → String
  | .nomatch => "match"
  | .typeCheck => "typecheck"
  | .term => "term"
  | .crash => "crash"
  | .fuel => "fuel"

def answer : Except MErr MInst → String
  | .ok i => toString (Sexp.list [.atom "ok", instTo i])
  | .error e => toString (Sexp.list [.atom "err", .atom (errTo e)])

def handle (line : String) : String :=
  match Sexp.parse line with
  | some (.list [.atom "match", fuel, bf, p, t, seed]) =>
    match fuel.toNat?, bf.toNat?, termOf p, termOf t, instOf seed with
    | some fu, some b, some pat, some tm, some i => answer (firstOrderMatch b fu pat tm i)
    | _, _, _, _, _ => "bad-op"
  | some (.list [.atom "matchlist", fuel, bf, .list ps, .list ts, seed]) =>
    match fuel.toNat?, bf.toNat?, ps.mapM termOf, ts.mapM termOf, instOf seed with
    | some fu, some b, some pats, some tms, some i => answer (firstOrderMatchList b fu pats tms i)
    | _, _, _, _, _ => "bad-op"
  | some (.list [.atom "ispattern", t, .list ms, .list bs]) =>
    match termOf t, atomsOf ms, atomsOf bs with
    | some tm, some m, some b => toString (Sexp.ofBool (isPat tm m b))
    | _, _, _ => "bad-op"
  | _ => "bad-op"

end Holpy.C09.Driver

def main : IO Unit := Holpy.lineLoop Holpy.C09.Driver.handle
