import Holpy.C09.ProofsSem2
/-
C09 — semantic soundness, part 3: the branch where the head variable is already instantiated
(`inst[f] a1 … an` is beta-normalised and matched again), and the theorem for the whole matcher.
-/
set_option linter.unnecessarySimpa false
set_option linter.unusedSimpArgs false
set_option linter.unusedVariables false
namespace Holpy.C09
open Holpy

/-! ### predicates on terms that beta-normalisation preserves -/

/-- a predicate on terms determined by the leaves and the binder annotations -/
structure Compositional (Q : Term → Prop) (QA : Ty → Prop) : Prop where
  comb : ∀ f a, Q (.comb f a) ↔ Q f ∧ Q a
  abs : ∀ x T b, Q (.abs x T b) ↔ QA T ∧ Q b
  bound : ∀ i, Q (.bound i)

variable {Q : Term → Prop} {QA : Ty → Prop}

theorem Compositional.incrAt (hQ : Compositional Q QA) (inc : Nat) : ∀ (t : Term) (lev : Nat), Q t → Q (Term.incrAt inc lev t) := by
  intro t
  induction t with
  | comb f a ihf iha =>
    intro lev h
    simp only [Term.incrAt]
    exact (hQ.comb _ _).2 ⟨ihf lev ((hQ.comb _ _).1 h).1, iha lev ((hQ.comb _ _).1 h).2⟩
  | abs x T b ih =>
    intro lev h
    simp only [Term.incrAt]
    exact (hQ.abs _ _ _).2 ⟨((hQ.abs _ _ _).1 h).1, ih (lev + 1) ((hQ.abs _ _ _).1 h).2⟩
  | bound i => intro lev _; simp only [Term.incrAt]; split <;> exact hQ.bound _
  | svar n T => intro lev h; exact h
  | var n T => intro lev h; exact h
  | const n T => intro lev h; exact h

theorem Compositional.substBoundAt (hQ : Compositional Q QA) (u : Term) (hu : Q u) : ∀ (s : Term) (n : Nat), Q s →
    Q (Term.substBoundAt u n s) := by
  intro s
  induction s with
  | comb f a ihf iha =>
    intro n h
    simp only [Term.substBoundAt]
    exact (hQ.comb _ _).2 ⟨ihf n ((hQ.comb _ _).1 h).1, iha n ((hQ.comb _ _).1 h).2⟩
  | abs x T b ih =>
    intro n h
    simp only [Term.substBoundAt]
    exact (hQ.abs _ _ _).2 ⟨((hQ.abs _ _ _).1 h).1, ih (n + 1) ((hQ.abs _ _ _).1 h).2⟩
  | bound i =>
    intro n _
    simp only [Term.substBoundAt]
    split
    · exact hQ.incrAt n u 0 hu
    · split <;> exact hQ.bound _
  | svar m T => intro n h; exact h
  | var m T => intro n h; exact h
  | const m T => intro n h; exact h

theorem Compositional.betaNorm (hQ : Compositional Q QA) : ∀ (fuel : Nat) (t t' : Term), Term.betaNorm fuel t = .ok t' → Q t → Q t' := by
  intro fuel
  induction fuel with
  | zero => intro t t' h; simp [Term.betaNorm] at h
  | succ fuel ih =>
    intro t t' h hq
    cases t with
    | comb f a =>
      simp only [Term.betaNorm] at h
      obtain ⟨f', hf, h⟩ := bind_ok h
      obtain ⟨a', ha, h⟩ := bind_ok h
      have qf := ih f f' hf ((hQ.comb _ _).1 hq).1
      have qa := ih a a' ha ((hQ.comb _ _).1 hq).2
      cases f' with
      | abs x T b =>
        simp only at h
        obtain ⟨r, hr, h⟩ := bind_ok h
        simp only [Term.betaConv, Term.substBound, Except.ok.injEq] at hr; subst hr
        exact ih _ t' h (hQ.substBoundAt a' qa b 0 ((hQ.abs _ _ _).1 qf).2)
      | _ => simp only [Except.ok.injEq] at h; subst h; exact (hQ.comb _ _).2 ⟨qf, qa⟩
    | abs x T b =>
      simp only [Term.betaNorm] at h
      obtain ⟨b', hb, h⟩ := bind_ok h
      simp only [Except.ok.injEq] at h; subst h
      exact (hQ.abs _ _ _).2 ⟨((hQ.abs _ _ _).1 hq).1, ih b b' hb ((hQ.abs _ _ _).1 hq).2⟩
    | svar n T => simp only [Term.betaNorm, Except.ok.injEq] at h; subst h; exact hq
    | var n T => simp only [Term.betaNorm, Except.ok.injEq] at h; subst h; exact hq
    | const n T => simp only [Term.betaNorm, Except.ok.injEq] at h; subst h; exact hq
    | bound i => simp only [Term.betaNorm, Except.ok.injEq] at h; subst h; exact hq

theorem comp_tOK : Compositional tOK TyOK := ⟨fun _ _ => Iff.rfl, fun _ _ _ => Iff.rfl, fun _ => trivial⟩

theorem comp_nosv : Compositional (fun t => svarNamesOf t = []) (fun _ => True) :=
  ⟨fun f a => by simp [svarNamesOf], fun x T b => by simp [svarNamesOf], fun _ => rfl⟩

theorem comp_PatInS (D : List (String × Ty)) (σ : Ty.TyInst) : Compositional (PatInS D σ) (fun _ => True) :=
  ⟨fun _ _ => Iff.rfl, fun _ _ _ => by simp [PatInS], fun _ => trivial⟩

theorem PatInS_of_nosv (D : List (String × Ty)) (σ : Ty.TyInst) : ∀ t : Term, svarNamesOf t = [] → PatInS D σ t := by
  intro t
  induction t with
  | comb f a ihf iha => intro h; simp only [svarNamesOf, List.append_eq_nil_iff] at h; exact ⟨ihf h.1, iha h.2⟩
  | abs x T b ih => intro h; exact ih h
  | svar n T => intro h; simp [svarNamesOf] at h
  | var n T => intro _; trivial
  | const n T => intro _; trivial
  | bound i => intro _; trivial

theorem PatInS_mkApp (D : List (String × Ty)) (σ : Ty.TyInst) : ∀ (l : List Term) (h : Term), PatInS D σ h →
    (∀ a ∈ l, PatInS D σ a) → PatInS D σ (mkApp h l) := by
  intro l
  induction l with
  | nil => intro h hh _; exact hh
  | cons a rest ih =>
    intro h hh hl
    simp only [mkApp, List.foldl_cons]
    exact ih (.comb h a) ⟨hh, hl a (by simp)⟩ (fun x hx => hl x (List.mem_cons_of_mem _ hx))

/-! ### type instantiation commutes with beta-normalisation -/

theorem substType_incrAt (τ : Ty.TyInst) (inc : Nat) : ∀ (t : Term) (lev : Nat),
    Term.substType τ (Term.incrAt inc lev t) = Term.incrAt inc lev (Term.substType τ t) := by
  intro t
  induction t with
  | comb f a ihf iha => intro lev; simp only [Term.incrAt, Term.substType, ihf, iha]
  | abs x T b ih => intro lev; simp only [Term.incrAt, Term.substType, ih]
  | bound i => intro lev; simp only [Term.incrAt, Term.substType]; split <;> rfl
  | _ => intro lev; rfl

theorem substType_substBoundAt (τ : Ty.TyInst) (u : Term) : ∀ (s : Term) (n : Nat),
    Term.substType τ (Term.substBoundAt u n s) = Term.substBoundAt (Term.substType τ u) n (Term.substType τ s) := by
  intro s
  induction s with
  | comb f a ihf iha => intro n; simp only [Term.substBoundAt, Term.substType, ihf, iha]
  | abs x T b ih => intro n; simp only [Term.substBoundAt, Term.substType, ih]
  | bound i =>
    intro n
    simp only [Term.substBoundAt, Term.substType]
    split
    · simp only [Term.incrBoundvars, substType_incrAt]
    · split <;> rfl
  | _ => intro n; rfl

theorem substType_betaNorm (τ : Ty.TyInst) : ∀ (fuel : Nat) (t t' : Term), Term.betaNorm fuel t = .ok t' →
    Term.betaNorm fuel (Term.substType τ t) = .ok (Term.substType τ t') := by
  intro fuel
  induction fuel with
  | zero => intro t t' h; simp [Term.betaNorm] at h
  | succ fuel ih =>
    intro t t' h
    cases t with
    | comb f a =>
      simp only [Term.betaNorm] at h
      obtain ⟨f', hf, h⟩ := bind_ok h
      obtain ⟨a', ha, h⟩ := bind_ok h
      simp only [Term.substType, Term.betaNorm, ih f f' hf, ih a a' ha, bind, Except.bind]
      cases f' with
      | abs x T b =>
        simp only at h
        obtain ⟨r, hr, h⟩ := bind_ok h
        simp only [Term.betaConv, Term.substBound, Except.ok.injEq] at hr; subst hr
        have := ih _ t' h
        rw [substType_substBoundAt] at this
        simp only [Term.substType, Term.betaConv, Term.substBound, this]
      | _ => simp only [Except.ok.injEq] at h; subst h; rfl
    | abs x T b =>
      simp only [Term.betaNorm] at h
      obtain ⟨b', hb, h⟩ := bind_ok h
      simp only [Except.ok.injEq] at h; subst h
      simp only [Term.substType, Term.betaNorm, ih b b' hb, bind, Except.bind]
    | svar n T => simp only [Term.betaNorm, Except.ok.injEq] at h; subst h; rfl
    | var n T => simp only [Term.betaNorm, Except.ok.injEq] at h; subst h; rfl
    | const n T => simp only [Term.betaNorm, Except.ok.injEq] at h; subst h; rfl
    | bound i => simp only [Term.betaNorm, Except.ok.injEq] at h; subst h; rfl

theorem substType_stable (τ : Ty.TyInst) : ∀ t : Term, tStable t → Term.substType τ t = t := by
  intro t
  induction t with
  | comb f a ihf iha => intro h; simp only [Term.substType, ihf h.1, iha h.2]
  | abs x T b ih => intro h; simp only [Term.substType, h.1 τ, ih h.2]
  | svar n T => intro h; simp only [Term.substType, h τ]
  | var n T => intro h; simp only [Term.substType, h τ]
  | const n T => intro h; simp only [Term.substType, h τ]
  | bound i => intro _; rfl

theorem mkApp_checked_congr : ∀ (l : List Term) (f g : Term), Term.checkedGetType [] f = Term.checkedGetType [] g →
    Term.checkedGetType [] (mkApp f l) = Term.checkedGetType [] (mkApp g l) := by
  intro l
  induction l with
  | nil => intro f g h; exact h
  | cons a rest ih =>
    intro f g h
    simp only [mkApp, List.foldl_cons]
    exact ih _ _ (Term.checked_comb_congr [] g f a a h rfl)

theorem mkApp_head_congr (M : Model) (ρ : Valuation) : ∀ (l : List Term) (f g : Term),
    Term.getType [] f = Term.getType [] g → sem M ρ [] [] f = sem M ρ [] [] g →
    sem M ρ [] [] (mkApp f l) = sem M ρ [] [] (mkApp g l) := by
  intro l
  induction l with
  | nil => intro f g _ h; exact h
  | cons a rest ih =>
    intro f g ht hs
    simp only [mkApp, List.foldl_cons]
    exact ih _ _ (by simp only [Term.getType, ht]) (sem_comb_congr M ρ [] [] g f a a ht hs rfl)

/-! ### the head variable is already instantiated -/

theorem instHeadCase_sem {D : List (String × Ty)} {k : Rec} (hk : RecSem D k) {bf : Nat} {bd : List Term}
    {i i' : MInst} {hn : String} {hT : Ty} {s p t : Term} (hhead : headOf p = .svar hn hT)
    (hl : i.svars.lookup hn = some s) (hke : RecExt k) (hp : PatInS D i.tyinst p) (ht : TgtOK t) (hinv : HInv D bd i)
    (hbd : BdOK bd) (h : instHeadCase k bf bd i s (argsOf p) t = .ok i') : HInv D bd i' ∧ ConclSem i' p t := by
  obtain ⟨S, hS, hSl, hSok⟩ := ht.types
  unfold instHeadCase at h
  obtain ⟨pat2, hp2, h⟩ := bind_ok h
  obtain ⟨t2, ht2, h⟩ := bind_ok h
  have hp2 := liftT_ok hp2
  have ht2 := liftT_ok ht2
  obtain ⟨hph, hpa⟩ := PatInS_args D i.tyinst p hp
  rw [hhead] at hph
  obtain ⟨T0, hD, hT0⟩ := hph
  have hso := hinv.vo hn s hl
  have hsn := hinv.nv hn s hl
  obtain ⟨Us, hUs⟩ := hinv.vt hn s hl
  -- the beta-normalised target
  have htgt2 : TgtOK t2 := by
    refine ⟨⟨S, ?_⟩, comp_tOK.betaNorm bf t t2 ht2 ht.ok, comp_nosv.betaNorm bf t t2 ht2 ht.ns⟩
    -- typing is model-independent; use the trivial model
    exact (sem_betaNorm ⟨fun _ => 0, fun _ => 0, fun _ _ => 0⟩ (fun _ _ _ => 0)
      (fun _ _ T => Model.size_pos _ T) bf [] [] Forall2.nil t t2 S hS ht2).1
  have hpat2 : PatInS D i.tyinst pat2 :=
    (comp_PatInS D i.tyinst).betaNorm bf _ pat2 hp2
      (PatInS_mkApp D i.tyinst _ s (PatInS_of_nosv D i.tyinst s hsn) hpa)
  obtain ⟨inv', c'⟩ := hk _ _ _ _ _ hpat2 htgt2 hinv hbd h
  have he' := hke _ _ _ _ _ h
  refine ⟨inv', ?_⟩
  intro τ hτ hty
  obtain ⟨Sp, hSp⟩ := hty
  obtain ⟨Ul, hUl, hUτ⟩ := hinv.td hn T0 s hD hl
  have hUU : Us = Ul := by
    have := Term.getType_of_checked [] s Us hUs
    rw [hUl] at this; simpa using this.symm
  subst hUU
  have hTτ : hT.subst τ = Us := by rw [hT0 τ (he'.ty.trans hτ)]; exact hUτ τ (he'.ty.trans hτ)
  have hpeq : Term.substType τ p = mkApp (.svar hn Us) ((argsOf p).map (Term.substType τ)) := by
    conv => lhs; rw [← mkApp_head_args p, substType_mkApp, hhead]
    simp only [Term.substType, hTτ]
  have hX : Term.substType τ (mkApp s (argsOf p)) = mkApp s ((argsOf p).map (Term.substType τ)) := by
    rw [substType_mkApp, substType_stable τ s hso.stable]
  have hcX : Term.checkedGetType [] (mkApp s ((argsOf p).map (Term.substType τ))) = .ok Sp := by
    rw [← hSp, hpeq]
    exact mkApp_checked_congr _ _ _ (by simp only [Term.checkedGetType, hUs])
  have hbn := substType_betaNorm τ bf _ pat2 hp2
  rw [hX] at hbn
  have htriv : Admissible ⟨fun _ => 0, fun _ => 0, fun _ _ => 0⟩ (fun _ _ _ => 0) := fun _ _ T => Model.size_pos _ T
  have hc2 : Term.checkedGetType [] (Term.substType τ pat2) = .ok Sp :=
    (sem_betaNorm _ _ htriv bf [] [] Forall2.nil _ _ Sp hcX hbn).1
  obtain ⟨ty2, sem2⟩ := c' τ hτ ⟨Sp, hc2⟩
  have hct2 : Term.checkedGetType [] t2 = .ok S := (sem_betaNorm _ _ htriv bf [] [] Forall2.nil t t2 S hS ht2).1
  refine ⟨?_, ?_⟩
  · rw [Term.getType_of_checked [] _ Sp hSp, hSl, ← Term.getType_of_checked [] t2 S hct2, ← ty2,
      Term.getType_of_checked [] _ Sp hc2]
  · intro M ρ hρ hsat
    rw [hpeq, mkApp_head_congr M ρ _ (.svar hn Us) s (by simp only [Term.getType, Term.getType_of_checked [] s Us hUs])
      (by simp only [sem]; exact hsat hn s Us (he'.sv hn s hl) hUs)]
    rw [← (sem_betaNorm M ρ hρ bf [] [] Forall2.nil _ _ Sp hcX hbn).2, sem2 M ρ hρ hsat]
    exact (sem_betaNorm M ρ hρ bf [] [] Forall2.nil t t2 S hS ht2).2

/-! ### the whole matcher -/

theorem matchAux_sem (D : List (String × Ty)) (bf : Nat) : ∀ fuel, RecSem D (matchAux bf fuel) := by
  intro fuel
  induction fuel with
  | zero => intro bd i p t i' _ _ _ _ h; simp [matchAux] at h
  | succ fuel ih =>
    intro bd i p t i' hp ht hinv hbd h
    have hke := matchAux_ext bf fuel
    cases p with
    | svar n T => exact matchSvar_sem hp ht hinv (by simpa only [matchAux] using h)
    | var n T => exact matchAtom_sem ht hinv (by simpa only [matchAux] using h)
    | const n T => exact matchAtom_sem ht hinv (by simpa only [matchAux] using h)
    | bound j => simp [matchAux] at h
    | abs x T body => exact absCase_sem ih hke hp ht hinv hbd (by simpa only [matchAux] using h)
    | comb f a =>
      simp only [matchAux] at h
      split at h
      · next hn hT hh =>
        have hhead : headOf (.comb f a) = .svar hn hT := by simpa [headOf] using hh
        split at h
        · next hl =>
          split at h
          · exact heurCase_sem ih hke hh hl hp ht hinv hbd h
          · next hnh => exact matchMiller_sem hhead hl (by simpa using hnh) hp ht hinv hbd h
        · next s hl => exact instHeadCase_sem ih hhead hl hke hp ht hinv hbd h
      · exact combCase_sem ih hke hp ht hinv hbd h

/-- the empty seed satisfies the invariant -/
theorem HInv.empty (D : List (String × Ty)) : HInv D [] MInst.empty :=
  ⟨fun _ _ h => by simp [MInst.empty] at h, fun _ _ h => by simp [MInst.empty] at h,
   fun _ _ h => by simp [MInst.empty] at h, fun _ _ h => by simp [MInst.empty] at h,
   fun _ _ h => by simp [MInst.empty] at h, fun _ _ _ _ h => by simp [MInst.empty] at h⟩

/-- the valuation that `Term.subst` induces satisfies the instantiation (instances without schematic variables) -/
theorem sat_instVal (M : Model) (ρ : Valuation) (i : MInst) (hnv : ∀ n s, i.svars.lookup n = some s → svarNamesOf s = []) :
    Sat M (instVal M ρ ⟨i.tyinst, i.svars, []⟩) i := by
  intro n s U hl hU
  rw [instVal_svar_some M ρ ⟨i.tyinst, i.svars, []⟩ n U s hl hU]
  -- a term without schematic variables does not see the schematic part of the valuation
  have key : ∀ (t : Term) (bd : List Ty) (env : List Nat), svarNamesOf t = [] →
      sem M (instVal M ρ ⟨i.tyinst, i.svars, []⟩) bd env t = sem M ρ bd env t := by
    intro t
    induction t with
    | svar m T => intro bd env h; simp [svarNamesOf] at h
    | var m T => intro bd env _; simp [sem, instVal]
    | const m T => intro bd env _; simp only [sem, constVal_instVal]
    | bound j => intro bd env _; rfl
    | comb f a ihf iha =>
      intro bd env h
      simp only [svarNamesOf, List.append_eq_nil_iff] at h
      simp only [sem, ihf bd env h.1, iha bd env h.2]
    | abs x T b ih =>
      intro bd env h
      simp only [svarNamesOf] at h
      simp only [sem]
      split
      · congr 1; funext v; exact ih _ _ h
      · rfl
  exact (key s [] [] (hnv n s hl)).symm

theorem PatInS_occ (D : List (String × Ty)) (σ : Ty.TyInst) (n : String) (T : Ty) : ∀ p : Term, PatInS D σ p →
    Term.occSvar n T p → ∃ T0, D.lookup n = some T0 ∧ ∀ τ, ExtL σ τ → T.subst τ = T0.subst τ := by
  intro p
  induction p with
  | svar m S => intro h ⟨h1, h2⟩; subst h1; subst h2; exact h
  | comb f a ihf iha =>
    intro h ho
    rcases ho with ho | ho
    · exact ihf h.1 ho
    · exact iha h.2 ho
  | abs x S b ih => intro h ho; exact ih h ho
  | var m S => intro _ ho; cases ho
  | const m S => intro _ ho; cases ho
  | bound i => intro _ ho; cases ho

/-- soundness of the whole matcher, semantic form, for an arbitrary admissible seed -/
theorem match_sound_sem_aux (D : List (String × Ty)) (bf fuel : Nat) (pat t : Term) (inst inst' : MInst)
    (hD : PatInS D inst.tyinst pat) (ht : TgtOK t) (hseed : HInv D [] inst)
    (h : firstOrderMatch bf fuel pat t inst = .ok inst')
    (hwt : ∃ S, Term.checkedGetType [] (Term.substType inst'.tyinst pat) = .ok S)
    (r : Term) (hr : Term.substRec ⟨inst'.tyinst, inst'.svars, []⟩ (Term.substType inst'.tyinst pat) = .ok r)
    (M : Model) (ρ : Valuation) (hρ : Admissible M ρ) :
    Term.getType [] r = Term.getType [] t ∧ sem M ρ [] [] r = sem M ρ [] [] t := by
  obtain ⟨inv', c'⟩ := matchAux_sem D bf fuel [] inst pat t inst' hD ht hseed (fun _ hw => by simp at hw) h
  have he := matchAux_ext bf fuel [] inst pat t inst' h
  obtain ⟨ty', sem'⟩ := c' inst'.tyinst (ExtL.refl _) hwt
  have hty : ∀ n T, (n, T) ∈ Term.getSvars (Term.substType inst'.tyinst pat) → ∀ s,
      (⟨inst'.tyinst, inst'.svars, []⟩ : Term.Inst).svars.lookup n = some s → Term.checkedGetType [] s = .ok T := by
    intro n T hm s hl
    obtain ⟨T1, hm1, rfl⟩ := Term.mem_getSvars_substType _ _ _ _ hm
    obtain ⟨T0, hD0, hT0⟩ := PatInS_occ D inst.tyinst n T1 pat hD ((Term.mem_getSvars _ _ _).1 hm1)
    obtain ⟨U, hU, hUτ⟩ := inv'.td n T0 s hD0 hl
    obtain ⟨U', hU'⟩ := inv'.vt n s hl
    have : U' = U := by
      have := Term.getType_of_checked [] s U' hU'
      rw [hU] at this; simpa using this.symm
    subst this
    rw [hT0 _ he.ty, hUτ _ (ExtL.refl _)]; exact hU'
  obtain ⟨g1, s1⟩ := sem_substRec M ρ ⟨inst'.tyinst, inst'.svars, []⟩ _ r hr hty [] []
  refine ⟨g1.trans ty', ?_⟩
  rw [s1, sem' M _ (hρ.instVal _) (sat_instVal M ρ inst' inv'.nv)]
  -- the target has no schematic variables: its value does not depend on the instantiation
  have key : ∀ (u : Term) (bd : List Ty) (env : List Nat), svarNamesOf u = [] →
      sem M (instVal M ρ ⟨inst'.tyinst, inst'.svars, []⟩) bd env u = sem M ρ bd env u := by
    intro u
    induction u with
    | svar m T => intro bd env h; simp [svarNamesOf] at h
    | var m T => intro bd env _; simp [sem, instVal]
    | const m T => intro bd env _; simp only [sem, constVal_instVal]
    | bound j => intro bd env _; rfl
    | comb f a ihf iha =>
      intro bd env h
      simp only [svarNamesOf, List.append_eq_nil_iff] at h
      simp only [sem, ihf bd env h.1, iha bd env h.2]
    | abs x T b ih =>
      intro bd env h
      simp only [svarNamesOf] at h
      simp only [sem]
      split
      · congr 1; funext v; exact ih _ _ h
      · rfl
  exact key t [] [] ht.ns

end Holpy.C09
