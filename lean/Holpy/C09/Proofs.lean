import Holpy.C09.Model
/-
C09 — specification vocabulary and helper lemmas for Props.lean.
(Core Lean only; own copies of the few kernel lemmas needed: `aeq_refl`, `matchIncr_spec`.)
-/
namespace Holpy.C09
open Holpy

/-! ### specification vocabulary -/

/-- every binding of `l` is a binding of `l'` (dict extension) -/
def ExtL {α : Type} (l l' : List (String × α)) : Prop :=
  ∀ n a, l.lookup n = some a → l'.lookup n = some a

/-- `i'` extends `i`: all four components of the Python `Inst` (var_inst is never touched). -/
structure Ext (i i' : MInst) : Prop where
  ty : ExtL i.tyinst i'.tyinst
  sv : ExtL i.svars i'.svars
  vi : i'.varInst = i.varInst
  an : ExtL i.absNames i'.absNames

/-- First-order fragment: no schematic variable in head position, no binders, no loose bounds. -/
def isFO : Term → Bool
  | .svar _ _ | .var _ _ | .const _ _ => true
  | .comb f a => !isSvar f && isFO f && isFO a
  | .abs _ _ _ | .bound _ => false

/-- Apply an instantiation the way `Term.subst` does once the types are settled:
`subst_type(tyinst)` followed by the recursive replacement (kernel `substType`/`substRec`;
`var_inst` plays no role for matching and is left empty). -/
def applyInst (i : MInst) (p : Term) : Except TErr Term :=
  Term.substRec ⟨i.tyinst, i.svars, []⟩ (Term.substType i.tyinst p)

/-- the instantiated pattern is the target (up to alpha) -/
def Instantiates (i : MInst) (p t : Term) : Prop :=
  ∃ r, applyInst i p = .ok r ∧ Term.aeq r t = true

/-! ### association lists -/

theorem ExtL.refl {α : Type} (l : List (String × α)) : ExtL l l := fun _ _ h => h

theorem ExtL.trans {α : Type} {a b c : List (String × α)} (h1 : ExtL a b) (h2 : ExtL b c) : ExtL a c :=
  fun n x h => h2 n x (h1 n x h)

theorem lookup_append_some {α : Type} (l : List (String × α)) (m : List (String × α)) (n : String) (a : α)
    (h : l.lookup n = some a) : (l ++ m).lookup n = some a := by
  induction l with
  | nil => simp [List.lookup] at h
  | cons p l ih =>
    obtain ⟨k, v⟩ := p
    simp only [List.cons_append, List.lookup_cons] at h ⊢
    cases hnk : n == k with
    | true => rw [hnk] at h; exact h
    | false => rw [hnk] at h; exact ih h

theorem lookup_append_none {α : Type} (l : List (String × α)) (m : List (String × α)) (n : String)
    (h : l.lookup n = none) : (l ++ m).lookup n = m.lookup n := by
  induction l with
  | nil => rfl
  | cons p l ih =>
    obtain ⟨k, v⟩ := p
    simp only [List.cons_append, List.lookup_cons] at h ⊢
    cases hnk : n == k with
    | true => simp [hnk] at h
    | false => rw [hnk] at h; exact ih h

theorem lookup_single {α : Type} (n : String) (a : α) : [(n, a)].lookup n = some a := by
  simp [List.lookup]

theorem ExtL.append_new {α : Type} (l : List (String × α)) (n : String) (a : α) : ExtL l (l ++ [(n, a)]) :=
  fun k x h => lookup_append_some l _ k x h

theorem lookup_append_new {α : Type} (l : List (String × α)) (n : String) (a : α)
    (h : l.lookup n = none) : (l ++ [(n, a)]).lookup n = some a := by
  rw [lookup_append_none l _ n h]; exact lookup_single n a

theorem Ext.refl (i : MInst) : Ext i i := ⟨ExtL.refl _, ExtL.refl _, rfl, ExtL.refl _⟩

theorem Ext.trans {a b c : MInst} (h1 : Ext a b) (h2 : Ext b c) : Ext a c :=
  ⟨h1.ty.trans h2.ty, h1.sv.trans h2.sv, h2.vi.trans h1.vi, h1.an.trans h2.an⟩

/-! ### `Except` plumbing -/

theorem bind_ok {ε α β : Type} {x : Except ε α} {f : α → Except ε β} {b : β}
    (h : (x >>= f) = .ok b) : ∃ a, x = .ok a ∧ f a = .ok b := by
  cases x with
  | error e => simp [bind, Except.bind] at h
  | ok a => exact ⟨a, rfl, h⟩

/-! ### type matching -/

mutual
theorem matchIncr_spec : ∀ (T U : Ty) (σ σ' : Ty.TyInst), Ty.matchIncr T U σ = some σ' →
    ExtL σ σ' ∧ ∀ τ, ExtL σ' τ → T.subst τ = U
  | .stvar n, U, σ, σ', h => by
    simp only [Ty.matchIncr] at h
    split at h
    · next T' hl =>
      split at h
      · next hU =>
        simp only [Option.some.injEq] at h; subst h
        refine ⟨ExtL.refl _, fun τ hτ => ?_⟩
        simp only [Ty.subst, hτ n T' hl, hU]
      · simp at h
    · next hl =>
      simp only [Option.some.injEq] at h; subst h
      refine ⟨ExtL.append_new _ _ _, fun τ hτ => ?_⟩
      simp only [Ty.subst, hτ n U (lookup_append_new σ n U hl)]
  | .tvar n, U, σ, σ', h => by
    simp only [Ty.matchIncr] at h
    split at h
    · next hU =>
      simp only [Option.some.injEq] at h; subst h
      exact ⟨ExtL.refl _, fun τ _ => by simp [Ty.subst, hU]⟩
    · simp at h
  | .con n args, .con m args', σ, σ', h => by
    simp only [Ty.matchIncr] at h
    split at h
    · next hnm =>
      obtain ⟨h1, h2⟩ := matchIncrList_spec args args' σ σ' h
      exact ⟨h1, fun τ hτ => by simp [Ty.subst, hnm, h2 τ hτ]⟩
    · simp at h
  | .con _ _, .stvar _, _, _, h => by simp [Ty.matchIncr] at h
  | .con _ _, .tvar _, _, _, h => by simp [Ty.matchIncr] at h
theorem matchIncrList_spec : ∀ (Ts Us : List Ty) (σ σ' : Ty.TyInst), Ty.matchIncrList Ts Us σ = some σ' →
    ExtL σ σ' ∧ ∀ τ, ExtL σ' τ → Ts.map (Ty.subst τ) = Us
  | [], [], σ, σ', h => by
    simp only [Ty.matchIncrList, Option.some.injEq] at h; subst h
    exact ⟨ExtL.refl _, fun _ _ => rfl⟩
  | a :: as, b :: bs, σ, σ', h => by
    simp only [Ty.matchIncrList] at h
    split at h
    · next σ1 h1 =>
      obtain ⟨e1, s1⟩ := matchIncr_spec a b σ σ1 h1
      obtain ⟨e2, s2⟩ := matchIncrList_spec as bs σ1 σ' h
      refine ⟨e1.trans e2, fun τ hτ => ?_⟩
      simp only [List.map_cons, s1 τ (e2.trans hτ), s2 τ hτ]
    · simp at h
  | [], _ :: _, _, _, h => by simp [Ty.matchIncrList] at h
  | _ :: _, [], _, _, h => by simp [Ty.matchIncrList] at h
end

/-! ### the instantiation only grows -/

theorem bindTy_spec {T U : Ty} {i i' : MInst} (h : bindTy T U i = .ok i') :
    Ext i i' ∧ i'.svars = i.svars ∧ i'.absNames = i.absNames ∧ ∀ τ, ExtL i'.tyinst τ → T.subst τ = U := by
  simp only [bindTy] at h
  split at h
  · next σ hσ =>
    simp only [Except.ok.injEq] at h; subst h
    obtain ⟨e, s⟩ := matchIncr_spec T U _ _ hσ
    exact ⟨⟨e, ExtL.refl _, rfl, ExtL.refl _⟩, rfl, rfl, s⟩
  · simp at h

theorem addSvar_ext (i : MInst) (n : String) (t : Term) : Ext i (i.addSvar n t) :=
  ⟨ExtL.refl _, ExtL.append_new _ _ _, rfl, ExtL.refl _⟩

theorem addAbsName_ext (i : MInst) (x y : String) : Ext i (i.addAbsName x y) := by
  unfold MInst.addAbsName
  split
  · exact Ext.refl i
  · exact ⟨ExtL.refl _, ExtL.refl _, rfl, ExtL.append_new _ _ _⟩

theorem matchSvar_ext {bd : List Term} {inst inst' : MInst} {n : String} {T : Ty} {t : Term}
    (h : matchSvar bd inst n T t = .ok inst') : Ext inst inst' := by
  simp only [matchSvar] at h
  split at h
  · split at h
    · simp at h
    · obtain ⟨tT, _, h⟩ := bind_ok h
      obtain ⟨i1, h1, h⟩ := bind_ok h
      simp only [Except.ok.injEq] at h; subst h
      exact (bindTy_spec h1).1.trans (addSvar_ext _ _ _)
  · split at h
    · simp only [Except.ok.injEq] at h; subst h; exact Ext.refl _
    · simp at h

theorem matchAtom_ext {inst inst' : MInst} {pat t : Term}
    (h : matchAtom inst pat t = .ok inst') : Ext inst inst' := by
  unfold matchAtom at h
  split at h
  · split at h
    · exact (bindTy_spec h).1
    · simp at h
  · split at h
    · exact (bindTy_spec h).1
    · simp at h
  · simp at h

theorem matchMiller_ext {bd : List Term} {inst inst' : MInst} {hn : String} {hT : Ty} {args : List Term} {t : Term}
    (h : matchMiller bd inst hn hT args t = .ok inst') : Ext inst inst' := by
  simp only [matchMiller] at h
  obtain ⟨Ts, _, h⟩ := bind_ok h
  obtain ⟨tT, _, h⟩ := bind_ok h
  obtain ⟨i1, h1, h⟩ := bind_ok h
  obtain ⟨r, _, h⟩ := bind_ok h
  simp only [Except.ok.injEq] at h; subst h
  exact (bindTy_spec h1).1.trans (addSvar_ext _ _ _)

/-- what the case lemmas need of the recursive call -/
def RecExt (k : Rec) : Prop := ∀ bd i p t i', k bd i p t = .ok i' → Ext i i'

theorem heurCase_ext {k : Rec} (hk : RecExt k) {bd : List Term} {inst inst' : MInst} {hn : String} {hT : Ty}
    {f a t : Term} (h : heurCase k bd inst hn hT f a t = .ok inst') : Ext inst inst' := by
  unfold heurCase at h
  split at h
  · split at h
    · obtain ⟨tfT, _, h⟩ := bind_ok h
      obtain ⟨i1, h1, h⟩ := bind_ok h
      exact ((bindTy_spec h1).1.trans (addSvar_ext _ _ _)).trans (hk _ _ _ _ _ h)
    · simp at h
  · simp at h

theorem instHeadCase_ext {k : Rec} (hk : RecExt k) {bf : Nat} {bd : List Term} {inst inst' : MInst} {s : Term}
    {args : List Term} {t : Term} (h : instHeadCase k bf bd inst s args t = .ok inst') : Ext inst inst' := by
  unfold instHeadCase at h
  obtain ⟨p2, _, h⟩ := bind_ok h
  obtain ⟨t2, _, h⟩ := bind_ok h
  exact hk _ _ _ _ _ h

theorem combCase_ext {k : Rec} (hk : RecExt k) {bd : List Term} {inst inst' : MInst} {f a t : Term}
    (h : combCase k bd inst f a t = .ok inst') : Ext inst inst' := by
  unfold combCase at h
  split at h
  · split at h
    · obtain ⟨i1, h1, h⟩ := bind_ok h
      exact (hk _ _ _ _ _ h1).trans (hk _ _ _ _ _ h)
    · obtain ⟨i1, h1, h⟩ := bind_ok h
      exact (hk _ _ _ _ _ h1).trans (hk _ _ _ _ _ h)
  · simp at h

theorem absCase_ext {k : Rec} (hk : RecExt k) {bd : List Term} {inst inst' : MInst} {x : String} {T : Ty}
    {body t : Term} (h : absCase k bd inst x T body t = .ok inst') : Ext inst inst' := by
  unfold absCase at h
  split at h
  · obtain ⟨i1, h1, h⟩ := bind_ok h
    exact ((bindTy_spec h1).1.trans (addAbsName_ext _ _ _)).trans (hk _ _ _ _ _ h)
  · obtain ⟨tT, _, h⟩ := bind_ok h
    split at h
    · simp at h
    · split at h
      · simp at h
      · obtain ⟨i1, h1, h⟩ := bind_ok h
        exact (bindTy_spec h1).1.trans (hk _ _ _ _ _ h)

theorem matchAux_ext (bf : Nat) : ∀ fuel, RecExt (matchAux bf fuel) := by
  intro fuel
  induction fuel with
  | zero => intro bd i p t i' h; simp [matchAux] at h
  | succ fuel ih =>
    intro bd i p t i' h
    cases p with
    | svar n T => exact matchSvar_ext (by simpa only [matchAux] using h)
    | var n T => exact matchAtom_ext (by simpa only [matchAux] using h)
    | const n T => exact matchAtom_ext (by simpa only [matchAux] using h)
    | bound j => simp [matchAux] at h
    | abs x T body => exact absCase_ext ih (by simpa only [matchAux] using h)
    | comb f a =>
      simp only [matchAux] at h
      split at h
      · split at h
        · split at h
          · exact heurCase_ext ih h
          · exact matchMiller_ext h
        · exact instHeadCase_ext ih h
      · exact combCase_ext ih h

end Holpy.C09
