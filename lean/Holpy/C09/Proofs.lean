import Holpy.C09.Model
/-
C09 — specification vocabulary and helper lemmas for Props.lean.
(Core Lean only; own copies of the few kernel lemmas needed: `aeq_refl`, `matchIncr_spec`.)
-/
namespace Holpy.C09
open Holpy

/-! ### specification vocabulary -/

/-- every binding of `l` is a binding of `l'` (dict extension) -/
def ExtL {α : Type} (l l' : List (String × α)) : Prop :=
  ∀ n a, l.lookup n = some a → l'.lookup n = some a

/-- `i'` extends `i`: all four components of the Python `Inst` (var_inst is never touched). -/
structure Ext (i i' : MInst) : Prop where
  ty : ExtL i.tyinst i'.tyinst
  sv : ExtL i.svars i'.svars
  vi : i'.varInst = i.varInst
  an : ExtL i.absNames i'.absNames

/-- First-order fragment: no schematic variable in head position, no binders, no loose bounds. -/
def isFO : Term → Bool
  | .svar _ _ | .var _ _ | .const _ _ => true
  | .comb f a => !isSvar f && isFO f && isFO a
  | .abs _ _ _ | .bound _ => false

/-- Apply an instantiation the way `Term.subst` does once the types are settled:
`subst_type(tyinst)` followed by the recursive replacement (kernel `substType`/`substRec`;
`var_inst` plays no role for matching and is left empty). -/
def applyInst (i : MInst) (p : Term) : Except TErr Term :=
  Term.substRec ⟨i.tyinst, i.svars, []⟩ (Term.substType i.tyinst p)

/-- the instantiated pattern is the target (up to alpha) -/
def Instantiates (i : MInst) (p t : Term) : Prop :=
  ∃ r, applyInst i p = .ok r ∧ Term.aeq r t = true

/-! ### association lists -/

theorem ExtL.refl {α : Type} (l : List (String × α)) : ExtL l l := fun _ _ h => h

theorem ExtL.trans {α : Type} {a b c : List (String × α)} (h1 : ExtL a b) (h2 : ExtL b c) : ExtL a c :=
  fun n x h => h2 n x (h1 n x h)

theorem lookup_append_some {α : Type} (l : List (String × α)) (m : List (String × α)) (n : String) (a : α)
    (h : l.lookup n = some a) : (l ++ m).lookup n = some a := by
  induction l with
  | nil => simp [List.lookup] at h
  | cons p l ih =>
    obtain ⟨k, v⟩ := p
    simp only [List.cons_append, List.lookup_cons] at h ⊢
    cases hnk : n == k with
    | true => rw [hnk] at h; exact h
    | false => rw [hnk] at h; exact ih h

theorem lookup_append_none {α : Type} (l : List (String × α)) (m : List (String × α)) (n : String)
    (h : l.lookup n = none) : (l ++ m).lookup n = m.lookup n := by
  induction l with
  | nil => rfl
  | cons p l ih =>
    obtain ⟨k, v⟩ := p
    simp only [List.cons_append, List.lookup_cons] at h ⊢
    cases hnk : n == k with
    | true => simp [hnk] at h
    | false => rw [hnk] at h; exact ih h

theorem lookup_single {α : Type} (n : String) (a : α) : [(n, a)].lookup n = some a := by
  simp [List.lookup]

theorem ExtL.append_new {α : Type} (l : List (String × α)) (n : String) (a : α) : ExtL l (l ++ [(n, a)]) :=
  fun k x h => lookup_append_some l _ k x h

theorem lookup_append_new {α : Type} (l : List (String × α)) (n : String) (a : α)
    (h : l.lookup n = none) : (l ++ [(n, a)]).lookup n = some a := by
  rw [lookup_append_none l _ n h]; exact lookup_single n a

theorem Ext.refl (i : MInst) : Ext i i := ⟨ExtL.refl _, ExtL.refl _, rfl, ExtL.refl _⟩

theorem Ext.trans {a b c : MInst} (h1 : Ext a b) (h2 : Ext b c) : Ext a c :=
  ⟨h1.ty.trans h2.ty, h1.sv.trans h2.sv, h2.vi.trans h1.vi, h1.an.trans h2.an⟩

/-! ### `Except` plumbing -/

theorem bind_ok {ε α β : Type} {x : Except ε α} {f : α → Except ε β} {b : β}
    (h : (x >>= f) = .ok b) : ∃ a, x = .ok a ∧ f a = .ok b := by
  cases x with
  | error e => simp [bind, Except.bind] at h
  | ok a => exact ⟨a, rfl, h⟩

/-! ### type matching -/

mutual
theorem matchIncr_spec : ∀ (T U : Ty) (σ σ' : Ty.TyInst), Ty.matchIncr T U σ = some σ' →
    ExtL σ σ' ∧ ∀ τ, ExtL σ' τ → T.subst τ = U
  | .stvar n, U, σ, σ', h => by
    simp only [Ty.matchIncr] at h
    split at h
    · next T' hl =>
      split at h
      · next hU =>
        simp only [Option.some.injEq] at h; subst h
        refine ⟨ExtL.refl _, fun τ hτ => ?_⟩
        simp only [Ty.subst, hτ n T' hl, hU]
      · simp at h
    · next hl =>
      simp only [Option.some.injEq] at h; subst h
      refine ⟨ExtL.append_new _ _ _, fun τ hτ => ?_⟩
      simp only [Ty.subst, hτ n U (lookup_append_new σ n U hl)]
  | .tvar n, U, σ, σ', h => by
    simp only [Ty.matchIncr] at h
    split at h
    · next hU =>
      simp only [Option.some.injEq] at h; subst h
      exact ⟨ExtL.refl _, fun τ _ => by simp [Ty.subst, hU]⟩
    · simp at h
  | .con n args, .con m args', σ, σ', h => by
    simp only [Ty.matchIncr] at h
    split at h
    · next hnm =>
      obtain ⟨h1, h2⟩ := matchIncrList_spec args args' σ σ' h
      exact ⟨h1, fun τ hτ => by simp [Ty.subst, hnm, h2 τ hτ]⟩
    · simp at h
  | .con _ _, .stvar _, _, _, h => by simp [Ty.matchIncr] at h
  | .con _ _, .tvar _, _, _, h => by simp [Ty.matchIncr] at h
theorem matchIncrList_spec : ∀ (Ts Us : List Ty) (σ σ' : Ty.TyInst), Ty.matchIncrList Ts Us σ = some σ' →
    ExtL σ σ' ∧ ∀ τ, ExtL σ' τ → Ts.map (Ty.subst τ) = Us
  | [], [], σ, σ', h => by
    simp only [Ty.matchIncrList, Option.some.injEq] at h; subst h
    exact ⟨ExtL.refl _, fun _ _ => rfl⟩
  | a :: as, b :: bs, σ, σ', h => by
    simp only [Ty.matchIncrList] at h
    split at h
    · next σ1 h1 =>
      obtain ⟨e1, s1⟩ := matchIncr_spec a b σ σ1 h1
      obtain ⟨e2, s2⟩ := matchIncrList_spec as bs σ1 σ' h
      refine ⟨e1.trans e2, fun τ hτ => ?_⟩
      simp only [List.map_cons, s1 τ (e2.trans hτ), s2 τ hτ]
    · simp at h
  | [], _ :: _, _, _, h => by simp [Ty.matchIncrList] at h
  | _ :: _, [], _, _, h => by simp [Ty.matchIncrList] at h
end

/-! ### the instantiation only grows -/

theorem bindTy_spec {T U : Ty} {i i' : MInst} (h : bindTy T U i = .ok i') :
    Ext i i' ∧ i'.svars = i.svars ∧ i'.absNames = i.absNames ∧ ∀ τ, ExtL i'.tyinst τ → T.subst τ = U := by
  simp only [bindTy] at h
  split at h
  · next σ hσ =>
    simp only [Except.ok.injEq] at h; subst h
    obtain ⟨e, s⟩ := matchIncr_spec T U _ _ hσ
    exact ⟨⟨e, ExtL.refl _, rfl, ExtL.refl _⟩, rfl, rfl, s⟩
  · simp at h

theorem addSvar_ext (i : MInst) (n : String) (t : Term) : Ext i (i.addSvar n t) :=
  ⟨ExtL.refl _, ExtL.append_new _ _ _, rfl, ExtL.refl _⟩

theorem addAbsName_ext (i : MInst) (x y : String) : Ext i (i.addAbsName x y) := by
  unfold MInst.addAbsName
  split
  · exact Ext.refl i
  · exact ⟨ExtL.refl _, ExtL.refl _, rfl, ExtL.append_new _ _ _⟩

theorem matchSvar_ext {bd : List Term} {inst inst' : MInst} {n : String} {T : Ty} {t : Term}
    (h : matchSvar bd inst n T t = .ok inst') : Ext inst inst' := by
  simp only [matchSvar] at h
  split at h
  · split at h
    · simp at h
    · obtain ⟨tT, _, h⟩ := bind_ok h
      obtain ⟨i1, h1, h⟩ := bind_ok h
      simp only [Except.ok.injEq] at h; subst h
      exact (bindTy_spec h1).1.trans (addSvar_ext _ _ _)
  · split at h
    · simp only [Except.ok.injEq] at h; subst h; exact Ext.refl _
    · simp at h

theorem matchAtom_ext {inst inst' : MInst} {pat t : Term}
    (h : matchAtom inst pat t = .ok inst') : Ext inst inst' := by
  unfold matchAtom at h
  split at h
  · split at h
    · exact (bindTy_spec h).1
    · simp at h
  · split at h
    · exact (bindTy_spec h).1
    · simp at h
  · simp at h

theorem matchMiller_ext {bd : List Term} {inst inst' : MInst} {hn : String} {hT : Ty} {args : List Term} {t : Term}
    (h : matchMiller bd inst hn hT args t = .ok inst') : Ext inst inst' := by
  simp only [matchMiller] at h
  obtain ⟨Ts, _, h⟩ := bind_ok h
  obtain ⟨tT, _, h⟩ := bind_ok h
  obtain ⟨i1, h1, h⟩ := bind_ok h
  obtain ⟨r, _, h⟩ := bind_ok h
  simp only [Except.ok.injEq] at h; subst h
  exact (bindTy_spec h1).1.trans (addSvar_ext _ _ _)

/-- what the case lemmas need of the recursive call -/
def RecExt (k : Rec) : Prop := ∀ bd i p t i', k bd i p t = .ok i' → Ext i i'

theorem heurCase_ext {k : Rec} (hk : RecExt k) {bd : List Term} {inst inst' : MInst} {hn : String} {hT : Ty}
    {f a t : Term} (h : heurCase k bd inst hn hT f a t = .ok inst') : Ext inst inst' := by
  unfold heurCase at h
  split at h
  · split at h
    · obtain ⟨tfT, _, h⟩ := bind_ok h
      obtain ⟨i1, h1, h⟩ := bind_ok h
      exact ((bindTy_spec h1).1.trans (addSvar_ext _ _ _)).trans (hk _ _ _ _ _ h)
    · simp at h
  · simp at h

theorem instHeadCase_ext {k : Rec} (hk : RecExt k) {bf : Nat} {bd : List Term} {inst inst' : MInst} {s : Term}
    {args : List Term} {t : Term} (h : instHeadCase k bf bd inst s args t = .ok inst') : Ext inst inst' := by
  unfold instHeadCase at h
  obtain ⟨p2, _, h⟩ := bind_ok h
  obtain ⟨t2, _, h⟩ := bind_ok h
  exact hk _ _ _ _ _ h

theorem combCase_ext {k : Rec} (hk : RecExt k) {bd : List Term} {inst inst' : MInst} {f a t : Term}
    (h : combCase k bd inst f a t = .ok inst') : Ext inst inst' := by
  unfold combCase at h
  split at h
  · split at h
    · obtain ⟨i1, h1, h⟩ := bind_ok h
      exact (hk _ _ _ _ _ h1).trans (hk _ _ _ _ _ h)
    · obtain ⟨i1, h1, h⟩ := bind_ok h
      exact (hk _ _ _ _ _ h1).trans (hk _ _ _ _ _ h)
  · simp at h

theorem absCase_ext {k : Rec} (hk : RecExt k) {bd : List Term} {inst inst' : MInst} {x : String} {T : Ty}
    {body t : Term} (h : absCase k bd inst x T body t = .ok inst') : Ext inst inst' := by
  unfold absCase at h
  split at h
  · obtain ⟨i1, h1, h⟩ := bind_ok h
    exact ((bindTy_spec h1).1.trans (addAbsName_ext _ _ _)).trans (hk _ _ _ _ _ h)
  · obtain ⟨tT, _, h⟩ := bind_ok h
    split at h
    · simp at h
    · split at h
      · simp at h
      · obtain ⟨i1, h1, h⟩ := bind_ok h
        exact (bindTy_spec h1).1.trans (hk _ _ _ _ _ h)

theorem matchAux_ext (bf : Nat) : ∀ fuel, RecExt (matchAux bf fuel) := by
  intro fuel
  induction fuel with
  | zero => intro bd i p t i' h; simp [matchAux] at h
  | succ fuel ih =>
    intro bd i p t i' h
    cases p with
    | svar n T => exact matchSvar_ext (by simpa only [matchAux] using h)
    | var n T => exact matchAtom_ext (by simpa only [matchAux] using h)
    | const n T => exact matchAtom_ext (by simpa only [matchAux] using h)
    | bound j => simp [matchAux] at h
    | abs x T body => exact absCase_ext ih (by simpa only [matchAux] using h)
    | comb f a =>
      simp only [matchAux] at h
      split at h
      · split at h
        · split at h
          · exact heurCase_ext ih h
          · exact matchMiller_ext h
        · exact instHeadCase_ext ih h
      · exact combCase_ext ih h

/-! ### first-order fragment: soundness -/

theorem aeq_refl : ∀ t : Term, Term.aeq t t = true := by
  intro t
  induction t with
  | svar n T => simp [Term.aeq]
  | var n T => simp [Term.aeq]
  | const n T => simp [Term.aeq]
  | comb f a ihf iha => simp [Term.aeq, ihf, iha]
  | abs x T b ih => simp [Term.aeq, ih]
  | bound i => simp [Term.aeq]

theorem isFO_head : ∀ f : Term, isFO f = true → isSvar f = false → ∀ n T, headOf f ≠ .svar n T := by
  intro f
  induction f with
  | svar n T => intro _ hs; simp [isSvar] at hs
  | var n T => intro _ _ m S; simp [headOf]
  | const n T => intro _ _ m S; simp [headOf]
  | comb g b ihg _ =>
    intro h _ m S
    simp only [isFO, Bool.and_eq_true, Bool.not_eq_true'] at h
    simp only [headOf]
    exact ihg h.1.2 h.1.1 m S
  | abs x T b _ => intro h; simp [isFO] at h
  | bound i => intro h; simp [isFO] at h

theorem Instantiates.comb {j : MInst} {f a tf ta : Term} (hf : Instantiates j f tf) (ha : Instantiates j a ta) :
    Instantiates j (.comb f a) (.comb tf ta) := by
  obtain ⟨rf, hf1, hf2⟩ := hf
  obtain ⟨ra, ha1, ha2⟩ := ha
  refine ⟨.comb rf ra, ?_, ?_⟩
  · simp only [applyInst, Term.substType, Term.substRec] at hf1 ha1 ⊢
    rw [hf1, ha1]; rfl
  · simp [Term.aeq, hf2, ha2]

/-- what the first-order case lemmas need of the recursive call -/
def RecFOSound (k : Rec) : Prop :=
  ∀ bd i p t i', isFO p = true → k bd i p t = .ok i' → ∀ j, Ext i' j → Instantiates j p t

theorem matchSvar_sound {bd : List Term} {inst inst' : MInst} {n : String} {T : Ty} {t : Term}
    (h : matchSvar bd inst n T t = .ok inst') : ∀ j, Ext inst' j → Instantiates j (.svar n T) t := by
  intro j hj
  simp only [matchSvar] at h
  split at h
  · next hl =>
    split at h
    · simp at h
    · obtain ⟨tT, _, h⟩ := bind_ok h
      obtain ⟨i1, h1, h⟩ := bind_ok h
      simp only [Except.ok.injEq] at h; subst h
      have hsv : i1.svars = inst.svars := (bindTy_spec h1).2.1
      have hl' : (i1.addSvar n t).svars.lookup n = some t := by
        simp only [MInst.addSvar, hsv]; exact lookup_append_new _ n t hl
      have := hj.sv n t hl'
      exact ⟨t, by simp [applyInst, Term.substType, Term.substRec, this], aeq_refl t⟩
  · next s hl =>
    split at h
    · next hs =>
      simp only [Except.ok.injEq] at h; subst h
      have := hj.sv n s hl
      exact ⟨s, by simp [applyInst, Term.substType, Term.substRec, this], hs⟩
    · simp at h

theorem matchAtom_sound {inst inst' : MInst} {pat t : Term}
    (h : matchAtom inst pat t = .ok inst') : ∀ j, Ext inst' j → Instantiates j pat t := by
  intro j hj
  unfold matchAtom at h
  split at h
  · next n T m U =>
    split at h
    · next hnm =>
      have hT := (bindTy_spec h).2.2.2 j.tyinst hj.ty
      refine ⟨.var n (T.subst j.tyinst), by simp [applyInst, Term.substType, Term.substRec], ?_⟩
      simp [Term.aeq, hnm, hT]
    · simp at h
  · next n T m U =>
    split at h
    · next hnm =>
      have hT := (bindTy_spec h).2.2.2 j.tyinst hj.ty
      refine ⟨.const n (T.subst j.tyinst), by simp [applyInst, Term.substType, Term.substRec], ?_⟩
      simp [Term.aeq, hnm, hT]
    · simp at h
  · simp at h

theorem combCase_sound {k : Rec} (hk : RecFOSound k) (hke : RecExt k) {bd : List Term} {inst inst' : MInst}
    {f a t : Term} (hf : isFO f = true) (ha : isFO a = true)
    (h : combCase k bd inst f a t = .ok inst') : ∀ j, Ext inst' j → Instantiates j (.comb f a) t := by
  intro j hj
  unfold combCase at h
  split at h
  · split at h
    · obtain ⟨i1, h1, h⟩ := bind_ok h
      exact Instantiates.comb (hk _ _ _ _ _ hf h1 j ((hke _ _ _ _ _ h).trans hj)) (hk _ _ _ _ _ ha h j hj)
    · obtain ⟨i1, h1, h⟩ := bind_ok h
      exact Instantiates.comb (hk _ _ _ _ _ hf h j hj) (hk _ _ _ _ _ ha h1 j ((hke _ _ _ _ _ h).trans hj))
  · simp at h

theorem matchAux_fo_sound (bf : Nat) : ∀ fuel, RecFOSound (matchAux bf fuel) := by
  intro fuel
  induction fuel with
  | zero => intro bd i p t i' _ h; simp [matchAux] at h
  | succ fuel ih =>
    intro bd i p t i' hp h
    cases p with
    | svar n T => exact matchSvar_sound (by simpa only [matchAux] using h)
    | var n T => exact matchAtom_sound (by simpa only [matchAux] using h)
    | const n T => exact matchAtom_sound (by simpa only [matchAux] using h)
    | bound j => simp [isFO] at hp
    | abs x T body => simp [isFO] at hp
    | comb f a =>
      simp only [isFO, Bool.and_eq_true, Bool.not_eq_true'] at hp
      simp only [matchAux] at h
      split at h
      · next hn hT hh => exact absurd hh (isFO_head f hp.1.2 hp.1.1 hn hT)
      · exact combCase_sound ih (matchAux_ext bf fuel) hp.1.2 hp.2 h

/-! ### first-order fragment: completeness -/

theorem aeq_iff_erase : ∀ s t : Term, Term.aeq s t = true ↔ Term.erase s = Term.erase t := by
  intro s
  induction s with
  | svar n T => intro t; cases t <;> simp [Term.aeq, Term.erase]
  | var n T => intro t; cases t <;> simp [Term.aeq, Term.erase]
  | const n T => intro t; cases t <;> simp [Term.aeq, Term.erase]
  | bound i => intro t; cases t <;> simp [Term.aeq, Term.erase]
  | comb f a ihf iha => intro t; cases t <;> simp [Term.aeq, Term.erase, ihf, iha]
  | abs x T b ih => intro t; cases t <;> simp [Term.aeq, Term.erase, ih]

theorem aeq_symm {s t : Term} (h : Term.aeq s t = true) : Term.aeq t s = true :=
  (aeq_iff_erase t s).2 ((aeq_iff_erase s t).1 h).symm

theorem aeq_trans {s t u : Term} (h1 : Term.aeq s t = true) (h2 : Term.aeq t u = true) : Term.aeq s u = true :=
  (aeq_iff_erase s u).2 (((aeq_iff_erase s t).1 h1).trans ((aeq_iff_erase t u).1 h2))

theorem getType_erase : ∀ (t : Term) (bd : List Ty), Term.getType bd (Term.erase t) = Term.getType bd t := by
  intro t
  induction t with
  | svar n T => intro bd; rfl
  | var n T => intro bd; rfl
  | const n T => intro bd; rfl
  | bound i => intro bd; rfl
  | comb f a ihf _ => intro bd; simp only [Term.erase, Term.getType, ihf]
  | abs x T b ih => intro bd; simp only [Term.erase, Term.getType, ih]

theorem getType_aeq {s t : Term} (h : Term.aeq s t = true) (bd : List Ty) :
    Term.getType bd s = Term.getType bd t := by
  rw [← getType_erase s, ← getType_erase t, (aeq_iff_erase s t).1 h]

theorem hasVars_nil : ∀ t : Term, hasVars [] t = false := by
  intro t
  induction t with
  | comb f a ihf iha => simp [hasVars, ihf, iha]
  | abs x T b ih => simp [hasVars, ih]
  | var n T => simp [hasVars, memT]
  | svar n T => simp [hasVars]
  | const n T => simp [hasVars]
  | bound i => simp [hasVars]

/-- `i` lies below `σ`: every binding of `i` is what `σ` does (types semantically, terms up to alpha). -/
structure Below (i σ : MInst) : Prop where
  ty : ∀ n T, i.tyinst.lookup n = some T → Ty.subst σ.tyinst (.stvar n) = T
  sv : ∀ n s, i.svars.lookup n = some s → ∃ s', σ.svars.lookup n = some s' ∧ Term.aeq s s' = true

/-- `σ` binds every schematic variable of the pattern to a term of the variable's instantiated type. -/
def SigmaOK (σ : MInst) : Term → Prop
  | .svar n T => ∃ s, σ.svars.lookup n = some s ∧ Term.getType [] s = .ok (T.subst σ.tyinst)
  | .comb f a => SigmaOK σ f ∧ SigmaOK σ a
  | .abs _ _ b => SigmaOK σ b
  | _ => True

theorem Ext.below {i σ : MInst} (h : Ext i σ) : Below i σ :=
  ⟨fun n T hl => by simp [Ty.subst, h.ty n T hl], fun n s hl => ⟨s, h.sv n s hl, aeq_refl s⟩⟩

def TyBelow (σ0 τ : Ty.TyInst) : Prop := ∀ n T, σ0.lookup n = some T → Ty.subst τ (.stvar n) = T

mutual
theorem matchIncr_complete : ∀ (T U : Ty) (σ0 τ : Ty.TyInst), TyBelow σ0 τ → T.subst τ = U →
    ∃ σ1, Ty.matchIncr T U σ0 = some σ1 ∧ TyBelow σ1 τ
  | .stvar n, U, σ0, τ, hb, hs => by
    simp only [Ty.matchIncr]
    cases hl : σ0.lookup n with
    | some T' =>
      have : U = T' := by rw [← hs]; exact hb n T' hl
      simp [this]; exact hb
    | none =>
      refine ⟨_, rfl, ?_⟩
      intro m T hm
      cases hm0 : σ0.lookup m with
      | some T0 =>
        rw [lookup_append_some σ0 _ m T0 hm0] at hm
        simp only [Option.some.injEq] at hm; subst hm
        exact hb m T0 hm0
      | none =>
        rw [lookup_append_none σ0 _ m hm0] at hm
        simp only [List.lookup_cons, List.lookup_nil] at hm
        cases hmn : m == n with
        | true =>
          rw [hmn] at hm
          simp only [Option.some.injEq] at hm; subst hm
          have : m = n := by simpa using hmn
          subst this; exact hs
        | false => rw [hmn] at hm; simp at hm
  | .tvar n, U, σ0, τ, hb, hs => by
    simp only [Ty.subst] at hs
    simp only [Ty.matchIncr, ← hs]
    exact ⟨σ0, by simp, hb⟩
  | .con n args, U, σ0, τ, hb, hs => by
    simp only [Ty.subst] at hs
    subst hs
    simp only [Ty.matchIncr]
    obtain ⟨σ1, h1, h2⟩ := matchIncrList_complete args _ σ0 τ hb rfl
    exact ⟨σ1, by simp [h1], h2⟩
theorem matchIncrList_complete : ∀ (Ts Us : List Ty) (σ0 τ : Ty.TyInst), TyBelow σ0 τ → Ts.map (Ty.subst τ) = Us →
    ∃ σ1, Ty.matchIncrList Ts Us σ0 = some σ1 ∧ TyBelow σ1 τ
  | [], Us, σ0, τ, hb, hs => by
    simp only [List.map_nil] at hs; subst hs
    exact ⟨σ0, by simp [Ty.matchIncrList], hb⟩
  | a :: as, Us, σ0, τ, hb, hs => by
    simp only [List.map_cons] at hs; subst hs
    obtain ⟨σ1, h1, hb1⟩ := matchIncr_complete a _ σ0 τ hb rfl
    obtain ⟨σ2, h2, hb2⟩ := matchIncrList_complete as _ σ1 τ hb1 rfl
    exact ⟨σ2, by simp [Ty.matchIncrList, h1, h2], hb2⟩
end

theorem bindTy_complete {T U : Ty} {i σ : MInst} (hb : Below i σ) (hs : T.subst σ.tyinst = U) :
    ∃ i1, bindTy T U i = .ok i1 ∧ Below i1 σ ∧ i1.svars = i.svars := by
  obtain ⟨σ1, h1, hb1⟩ := matchIncr_complete T U i.tyinst σ.tyinst hb.ty hs
  exact ⟨{ i with tyinst := σ1 }, by simp [bindTy, h1], ⟨hb1, hb.sv⟩, rfl⟩

theorem Instantiates.comb_inv {σ : MInst} {f a t : Term} (h : Instantiates σ (.comb f a) t) :
    ∃ tf ta, t = .comb tf ta ∧ Instantiates σ f tf ∧ Instantiates σ a ta := by
  obtain ⟨r, h1, h2⟩ := h
  simp only [applyInst, Term.substType, Term.substRec] at h1
  obtain ⟨rf, hf, h1⟩ := bind_ok h1
  obtain ⟨ra, ha, h1⟩ := bind_ok h1
  simp only [Except.ok.injEq] at h1; subst h1
  cases t with
  | comb tf ta =>
    simp only [Term.aeq, Bool.and_eq_true] at h2
    exact ⟨tf, ta, rfl, ⟨rf, hf, h2.1⟩, ⟨ra, ha, h2.2⟩⟩
  | _ => simp [Term.aeq] at h2

/-- completeness of the recursive call on first-order patterns of size at most `N` (outside binders) -/
def RecFOComplete (k : Rec) (N : Nat) : Prop :=
  ∀ i p t σ, isFO p = true → termSize p ≤ N → Below i σ → SigmaOK σ p → Instantiates σ p t →
    ∃ i', k [] i p t = .ok i' ∧ Below i' σ

theorem matchSvar_complete {i σ : MInst} {n : String} {T : Ty} {t : Term} (hb : Below i σ)
    (hok : SigmaOK σ (.svar n T)) (hi : Instantiates σ (.svar n T) t) :
    ∃ i', matchSvar [] i n T t = .ok i' ∧ Below i' σ := by
  obtain ⟨s, hs, hsT⟩ := hok
  obtain ⟨r, hr, hrt⟩ := hi
  simp only [applyInst, Term.substType, Term.substRec, hs, Except.ok.injEq] at hr
  subst hr
  simp only [matchSvar]
  cases hl : i.svars.lookup n with
  | some s0 =>
    obtain ⟨s', hs', h0⟩ := hb.sv n s0 hl
    rw [hs] at hs'; simp only [Option.some.injEq] at hs'; subst hs'
    simp [aeq_trans h0 hrt]; exact hb
  | none =>
    have hT : Term.getType [] t = .ok (T.subst σ.tyinst) := by rw [← getType_aeq hrt]; exact hsT
    obtain ⟨i1, h1, hb1, hsv⟩ := bindTy_complete (T := T) hb rfl
    refine ⟨i1.addSvar n t, by simp [hasVars_nil, hT, liftT, h1, bind, Except.bind], hb1.ty, ?_⟩
    intro m x hm
    simp only [MInst.addSvar, hsv] at hm
    cases hm0 : i.svars.lookup m with
    | some x0 =>
      rw [lookup_append_some _ _ m x0 hm0] at hm
      simp only [Option.some.injEq] at hm; subst hm
      exact hb.sv m x0 hm0
    | none =>
      rw [lookup_append_none _ _ m hm0] at hm
      simp only [List.lookup_cons, List.lookup_nil] at hm
      cases hmn : m == n with
      | true =>
        rw [hmn] at hm
        simp only [Option.some.injEq] at hm; subst hm
        have : m = n := by simpa using hmn
        subst this
        exact ⟨s, hs, aeq_symm hrt⟩
      | false => rw [hmn] at hm; simp at hm

theorem matchAtom_complete_var {i σ : MInst} {n : String} {T : Ty} {t : Term} (hb : Below i σ)
    (hi : Instantiates σ (.var n T) t) : ∃ i', matchAtom i (.var n T) t = .ok i' ∧ Below i' σ := by
  obtain ⟨r, hr, hrt⟩ := hi
  simp only [applyInst, Term.substType, Term.substRec, List.lookup_nil, Except.ok.injEq] at hr
  subst hr
  cases t with
  | var m U =>
    simp only [Term.aeq, Bool.and_eq_true, beq_iff_eq] at hrt
    obtain ⟨i1, h1, hb1, _⟩ := bindTy_complete (T := T) hb hrt.2
    exact ⟨i1, by simp [matchAtom, hrt.1, h1], hb1⟩
  | _ => simp [Term.aeq] at hrt

theorem matchAtom_complete_const {i σ : MInst} {n : String} {T : Ty} {t : Term} (hb : Below i σ)
    (hi : Instantiates σ (.const n T) t) : ∃ i', matchAtom i (.const n T) t = .ok i' ∧ Below i' σ := by
  obtain ⟨r, hr, hrt⟩ := hi
  simp only [applyInst, Term.substType, Term.substRec, Except.ok.injEq] at hr
  subst hr
  cases t with
  | const m U =>
    simp only [Term.aeq, Bool.and_eq_true, beq_iff_eq] at hrt
    obtain ⟨i1, h1, hb1, _⟩ := bindTy_complete (T := T) hb hrt.2
    exact ⟨i1, by simp [matchAtom, hrt.1, h1], hb1⟩
  | _ => simp [Term.aeq] at hrt

theorem combCase_complete {k : Rec} {N : Nat} (hk : RecFOComplete k N) {i σ : MInst} {f a t : Term}
    (hf : isFO f = true) (ha : isFO a = true) (hsz : termSize f + termSize a ≤ N) (hb : Below i σ)
    (hok : SigmaOK σ (.comb f a)) (hi : Instantiates σ (.comb f a) t) :
    ∃ i', combCase k [] i f a t = .ok i' ∧ Below i' σ := by
  obtain ⟨tf, ta, rfl, hif, hia⟩ := hi.comb_inv
  simp only [combCase]
  split
  · obtain ⟨i1, h1, hb1⟩ := hk i f tf σ hf (by omega) hb hok.1 hif
    obtain ⟨i2, h2, hb2⟩ := hk i1 a ta σ ha (by omega) hb1 hok.2 hia
    exact ⟨i2, by simp [h1, h2, bind, Except.bind], hb2⟩
  · obtain ⟨i1, h1, hb1⟩ := hk i a ta σ ha (by omega) hb hok.2 hia
    obtain ⟨i2, h2, hb2⟩ := hk i1 f tf σ hf (by omega) hb1 hok.1 hif
    exact ⟨i2, by simp [h1, h2, bind, Except.bind], hb2⟩

theorem matchAux_fo_complete (bf : Nat) : ∀ fuel, RecFOComplete (matchAux bf fuel) fuel := by
  intro fuel
  induction fuel with
  | zero =>
    intro i p t σ _ hsz
    cases p <;> simp [termSize] at hsz
  | succ fuel ih =>
    intro i p t σ hp hsz hb hok hi
    cases p with
    | svar n T => simpa only [matchAux] using matchSvar_complete hb hok hi
    | var n T => simpa only [matchAux] using matchAtom_complete_var hb hi
    | const n T => simpa only [matchAux] using matchAtom_complete_const hb hi
    | bound j => simp [isFO] at hp
    | abs x T body => simp [isFO] at hp
    | comb f a =>
      simp only [isFO, Bool.and_eq_true, Bool.not_eq_true'] at hp
      simp only [termSize] at hsz
      simp only [matchAux]
      split
      · next hn hT hh => exact absurd hh (isFO_head f hp.1.2 hp.1.1 hn hT)
      · exact combCase_complete ih hp.1.2 hp.2 (by omega) hb hok hi

/-! ### `first_order_match_list` -/

theorem matchList_ext (bf fuel : Nat) : ∀ (pats ts : List Term) (inst inst' : MInst),
    firstOrderMatchList bf fuel pats ts inst = .ok inst' → Ext inst inst'
  | [], ts, inst, inst', h => by
    simp only [firstOrderMatchList, Except.ok.injEq] at h; subst h; exact Ext.refl _
  | [p], ts, inst, inst', h => by
    simp only [firstOrderMatchList] at h
    split at h
    · exact matchAux_ext bf fuel _ _ _ _ _ h
    · simp at h
  | p :: q :: ps, ts, inst, inst', h => by
    simp only [firstOrderMatchList] at h
    split at h
    · split at h
      · obtain ⟨i1, h1, h⟩ := bind_ok h
        exact (matchAux_ext bf fuel _ _ _ _ _ h1).trans (matchList_ext bf fuel (q :: ps) _ i1 inst' h)
      · obtain ⟨i1, h1, h⟩ := bind_ok h
        exact (matchList_ext bf fuel (q :: ps) _ inst i1 h1).trans (matchAux_ext bf fuel _ _ _ _ _ h)
    · simp at h

theorem matchList_fo_sound_aux (bf fuel : Nat) : ∀ (pats ts : List Term) (inst inst' : MInst),
    (∀ p ∈ pats, isFO p = true) → firstOrderMatchList bf fuel pats ts inst = .ok inst' →
    ∀ j, Ext inst' j → ∀ pt ∈ pats.zip ts, Instantiates j pt.1 pt.2
  | [], ts, inst, inst', _, _ => by intro j _ pt hpt; simp at hpt
  | [p], ts, inst, inst', hfo, h => by
    intro j hj pt hpt
    simp only [firstOrderMatchList] at h
    split at h
    · next t rest =>
      simp only [List.zip_cons_cons, List.zip_nil_left, List.mem_singleton] at hpt; subst hpt
      exact matchAux_fo_sound bf fuel _ _ _ _ _ (hfo p (by simp)) h j hj
    · simp at h
  | p :: q :: ps, ts, inst, inst', hfo, h => by
    intro j hj pt hpt
    simp only [firstOrderMatchList] at h
    have hfo' : ∀ p' ∈ q :: ps, isFO p' = true := fun p' hp' => hfo p' (List.mem_cons_of_mem _ hp')
    split at h
    · next t ts' =>
      simp only [List.zip_cons_cons, List.mem_cons] at hpt
      split at h
      · obtain ⟨i1, h1, h⟩ := bind_ok h
        rcases hpt with rfl | hpt
        · exact matchAux_fo_sound bf fuel _ _ _ _ _ (hfo p (by simp)) h1 j
            ((matchList_ext bf fuel _ _ _ _ h).trans hj)
        · exact matchList_fo_sound_aux bf fuel (q :: ps) ts' i1 inst' hfo' h j hj pt
            (by simpa only [List.zip_cons_cons, List.mem_cons] using hpt)
      · obtain ⟨i1, h1, h⟩ := bind_ok h
        rcases hpt with rfl | hpt
        · exact matchAux_fo_sound bf fuel _ _ _ _ _ (hfo p (by simp)) h j hj
        · exact matchList_fo_sound_aux bf fuel (q :: ps) ts' inst i1 hfo' h1 j
            ((matchAux_ext bf fuel _ _ _ _ _ h).trans hj) pt
            (by simpa only [List.zip_cons_cons, List.mem_cons] using hpt)
    · simp at h

theorem matchList_fo_sound (bf fuel : Nat) (pats ts : List Term) (inst inst' : MInst)
    (hfo : ∀ p ∈ pats, isFO p = true) (h : firstOrderMatchList bf fuel pats ts inst = .ok inst') :
    ∀ pt ∈ pats.zip ts, Instantiates inst' pt.1 pt.2 :=
  matchList_fo_sound_aux bf fuel pats ts inst inst' hfo h inst' (Ext.refl _)

/-! ### first-order fragment: the result is well-typed (what fix C09-1 establishes) -/

/-- every schematic variable of the pattern is used at its declared type `D` -/
def PatIn (D : List (String × Ty)) : Term → Prop
  | .svar n T => D.lookup n = some T
  | .comb f a => PatIn D f ∧ PatIn D a
  | .abs _ _ b => PatIn D b
  | _ => True

/-- every declared schematic variable that is bound carries a term whose type is the declared type
under the type instantiation (and under every extension of it: the type is settled). -/
def TypedBy (D : List (String × Ty)) (i : MInst) : Prop :=
  ∀ n T s, D.lookup n = some T → i.svars.lookup n = some s →
    ∃ U, Term.getType [] s = .ok U ∧ ∀ τ, ExtL i.tyinst τ → T.subst τ = U

def RecFOTyped (D : List (String × Ty)) (k : Rec) : Prop :=
  ∀ bd i p t i', isFO p = true → PatIn D p → TypedBy D i → k bd i p t = .ok i' →
    TypedBy D i' ∧ ∀ j, Ext i' j → TypedBy D j → SigmaOK j p

theorem TypedBy.mono_ty {D : List (String × Ty)} {i i' : MInst} (h : TypedBy D i) (hty : ExtL i.tyinst i'.tyinst)
    (hsv : i'.svars = i.svars) : TypedBy D i' := by
  intro n T s hD hl
  rw [hsv] at hl
  obtain ⟨U, hU, hτ⟩ := h n T s hD hl
  exact ⟨U, hU, fun τ hτ' => hτ τ (hty.trans hτ')⟩

theorem liftT_ok {α : Type} {x : Except TErr α} {a : α} (h : liftT x = .ok a) : x = .ok a := by
  cases x with
  | ok b => simpa [liftT] using h
  | error e => cases e <;> simp [liftT] at h

theorem matchSvar_typed {D : List (String × Ty)} {bd : List Term} {inst inst' : MInst} {n : String} {T : Ty}
    {t : Term} (hD : D.lookup n = some T) (ht : TypedBy D inst) (h : matchSvar bd inst n T t = .ok inst') :
    TypedBy D inst' ∧ ∀ j, Ext inst' j → TypedBy D j → SigmaOK j (.svar n T) := by
  have hext := matchSvar_ext h
  simp only [matchSvar] at h
  split at h
  · next hl =>
    split at h
    · simp at h
    · obtain ⟨tT, htT, h⟩ := bind_ok h
      obtain ⟨i1, h1, h⟩ := bind_ok h
      simp only [Except.ok.injEq] at h; subst h
      obtain ⟨he1, hsv, _, hsub⟩ := bindTy_spec h1
      have ht1 : TypedBy D i1 := ht.mono_ty he1.ty hsv
      have hl' : (i1.addSvar n t).svars.lookup n = some t := by
        simp only [MInst.addSvar, hsv]; exact lookup_append_new _ n t hl
      refine ⟨?_, fun j hj htj => ?_⟩
      · intro m T' s hDm hm
        simp only [MInst.addSvar] at hm
        cases hm0 : i1.svars.lookup m with
        | some x0 =>
          rw [lookup_append_some _ _ m x0 hm0] at hm
          simp only [Option.some.injEq] at hm; subst hm
          exact ht1 m T' x0 hDm hm0
        | none =>
          rw [lookup_append_none _ _ m hm0] at hm
          simp only [List.lookup_cons, List.lookup_nil] at hm
          cases hmn : m == n with
          | true =>
            rw [hmn] at hm
            simp only [Option.some.injEq] at hm; subst hm
            have : m = n := by simpa using hmn
            subst this
            rw [hD] at hDm; simp only [Option.some.injEq] at hDm; subst hDm
            exact ⟨tT, liftT_ok htT, fun τ hτ => hsub τ hτ⟩
          | false => rw [hmn] at hm; simp at hm
      · have hjl := hj.sv n t hl'
        obtain ⟨U, hU, hτ⟩ := htj n T t hD hjl
        exact ⟨t, hjl, by rw [hU, hτ j.tyinst (ExtL.refl _)]⟩
  · next s hl =>
    split at h
    · simp only [Except.ok.injEq] at h; subst h
      refine ⟨ht, fun j hj htj => ?_⟩
      have hjl := hj.sv n s hl
      obtain ⟨U, hU, hτ⟩ := htj n T s hD hjl
      exact ⟨s, hjl, by rw [hU, hτ j.tyinst (ExtL.refl _)]⟩
    · simp at h

theorem matchAtom_typed {D : List (String × Ty)} {inst inst' : MInst} {pat t : Term}
    (ht : TypedBy D inst) (h : matchAtom inst pat t = .ok inst') : TypedBy D inst' := by
  unfold matchAtom at h
  split at h
  · split at h
    · obtain ⟨he, hsv, _, _⟩ := bindTy_spec h; exact ht.mono_ty he.ty hsv
    · simp at h
  · split at h
    · obtain ⟨he, hsv, _, _⟩ := bindTy_spec h; exact ht.mono_ty he.ty hsv
    · simp at h
  · simp at h

theorem combCase_typed {D : List (String × Ty)} {k : Rec} (hk : RecFOTyped D k) (hke : RecExt k) {bd : List Term}
    {inst inst' : MInst} {f a t : Term} (hf : isFO f = true) (ha : isFO a = true) (hDf : PatIn D f)
    (hDa : PatIn D a) (ht : TypedBy D inst) (h : combCase k bd inst f a t = .ok inst') :
    TypedBy D inst' ∧ ∀ j, Ext inst' j → TypedBy D j → SigmaOK j (.comb f a) := by
  unfold combCase at h
  split at h
  · split at h
    · obtain ⟨i1, h1, h⟩ := bind_ok h
      obtain ⟨t1, s1⟩ := hk _ _ _ _ _ hf hDf ht h1
      obtain ⟨t2, s2⟩ := hk _ _ _ _ _ ha hDa t1 h
      exact ⟨t2, fun j hj htj => ⟨s1 j ((hke _ _ _ _ _ h).trans hj) htj, s2 j hj htj⟩⟩
    · obtain ⟨i1, h1, h⟩ := bind_ok h
      obtain ⟨t1, s1⟩ := hk _ _ _ _ _ ha hDa ht h1
      obtain ⟨t2, s2⟩ := hk _ _ _ _ _ hf hDf t1 h
      exact ⟨t2, fun j hj htj => ⟨s2 j hj htj, s1 j ((hke _ _ _ _ _ h).trans hj) htj⟩⟩
  · simp at h

theorem matchAux_fo_typed (D : List (String × Ty)) (bf : Nat) : ∀ fuel, RecFOTyped D (matchAux bf fuel) := by
  intro fuel
  induction fuel with
  | zero => intro bd i p t i' _ _ _ h; simp [matchAux] at h
  | succ fuel ih =>
    intro bd i p t i' hp hD ht h
    cases p with
    | svar n T => exact matchSvar_typed hD ht (by simpa only [matchAux] using h)
    | var n T => exact ⟨matchAtom_typed ht (by simpa only [matchAux] using h), fun _ _ _ => trivial⟩
    | const n T => exact ⟨matchAtom_typed ht (by simpa only [matchAux] using h), fun _ _ _ => trivial⟩
    | bound j => simp [isFO] at hp
    | abs x T body => simp [isFO] at hp
    | comb f a =>
      simp only [isFO, Bool.and_eq_true, Bool.not_eq_true'] at hp
      simp only [matchAux] at h
      split at h
      · next hn hT hh => exact absurd hh (isFO_head f hp.1.2 hp.1.1 hn hT)
      · exact combCase_typed ih (matchAux_ext bf fuel) hp.1.2 hp.2 hD.1 hD.2 ht h

/-- Evaluate the model on concrete inputs by rewriting (`Ty.subst` of the shared kernel model is
defined by well-founded recursion, so `rfl`/`decide` get stuck on it under binders). -/
macro "model_simp" : tactic => `(tactic|
  simp [firstOrderMatch, firstOrderMatchList, matchAux, absCase, combCase, heurCase, instHeadCase, matchMiller,
    matchSvar, matchAtom, bindTy, Ty.matchIncr, Ty.matchIncrList, Ty.subst, MInst.empty, MInst.addAbsName,
    MInst.addSvar, varNamesOf, varsOf, variantName, variantLoop, Term.substType, Term.substBoundAt, Ty.fn, headOf,
    needsHeuristic, argsOf, memT, Term.aeq, isSvar, isVar, hasVars, distinctT, Term.incrBoundvars, Term.incrAt,
    bind, Except.bind, Term.nameOf, argTypes, abstractArgs, abstractStep, opInfo, isCombConst, lam, liftT,
    Term.mkLambda, Term.abstractOver, Term.abstractOverAt, Term.isVarLike, Term.typeOfAtom, Term.getType,
    Ty.isFun, Ty.range?, Ty.domain?, tfun, findTerm, Gen.binaryOps, Gen.otherOps, pure, Except.pure,
    Term.substRec, SigmaOK, isFO, termSize, isPat, isPattern, isPatternList, svarNamesOf])

end Holpy.C09
