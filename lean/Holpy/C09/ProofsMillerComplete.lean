import Holpy.C09.ProofsSem2
/-
C09 — completeness of the Miller-pattern branch for pure Miller patterns (`?f x1 … xn`, every `xi`
the stand-in of a bound variable): apart from the type of `?f`, the branch cannot fail.
-/
set_option linter.unusedSimpArgs false
set_option linter.unusedVariables false
namespace Holpy.C09
open Holpy

/-- the two ways the abstraction loop can raise instead of answering: a free variable of the target
with the name of a stand-in but another type (`abstract_over: wrong type`), and a constant `equals`
whose type is not a function type (`get_info_for_fun` indexes its argument types) -/
def GoodFor (bd : List Term) : Term → Prop
  | .const n T => n = "equals" → ∃ a b rest, T = .con "fun" (a :: b :: rest)
  | .var n T => ∀ U, Term.var n U ∈ bd → T = U
  | .comb f a => GoodFor bd f ∧ GoodFor bd a
  | .abs _ _ b => GoodFor bd b
  | _ => True

theorem GoodFor.head {bd : List Term} : ∀ x : Term, GoodFor bd x → GoodFor bd (headOf x) := by
  intro x
  induction x with
  | comb f a ihf _ => intro h; exact ihf h.1
  | _ => intro h; exact h

theorem GoodFor.abstractOverAt {bd : List Term} (nm : String) (U : Ty) (hv : Term.var nm U ∈ bd) :
    ∀ (x : Term) (d : Nat), GoodFor bd x → ∃ b, Term.abstractOverAt (.var nm U) d x = .ok b ∧ GoodFor bd b := by
  intro x
  induction x with
  | svar m S => intro d _; exact ⟨.svar m S, rfl, trivial⟩
  | var m S =>
    intro d h
    by_cases hm : m = nm
    · subst hm
      have := h U hv; subst this
      exact ⟨.bound d, by simp [Term.abstractOverAt], trivial⟩
    · exact ⟨.var m S, by simp [Term.abstractOverAt, hm], h⟩
  | const m S => intro d h; exact ⟨.const m S, rfl, h⟩
  | bound i => intro d _; exact ⟨.bound i, rfl, trivial⟩
  | comb f a ihf iha =>
    intro d h
    obtain ⟨f', hf, gf⟩ := ihf d h.1
    obtain ⟨a', ha, ga⟩ := iha d h.2
    exact ⟨.comb f' a', by simp [Term.abstractOverAt, hf, ha, bind, Except.bind], gf, ga⟩
  | abs y T b ih =>
    intro d h
    obtain ⟨b', hb, gb⟩ := ih (d + 1) h
    exact ⟨.abs y T b', by simp [Term.abstractOverAt, hb, bind, Except.bind], gb⟩

theorem GoodFor.lamOk {bd : List Term} (nm : String) (U : Ty) (hv : Term.var nm U ∈ bd) (x : Term) (h : GoodFor bd x) :
    ∃ r, lam (.var nm U) x = .ok r ∧ GoodFor bd r := by
  obtain ⟨b, hb, gb⟩ := h.abstractOverAt nm U hv x 0
  refine ⟨.abs nm U b, ?_, gb⟩
  have : Term.mkLambda (.var nm U) x = .ok (.abs nm U b) := by
    unfold Term.mkLambda Term.abstractOver
    simp only [Term.isVarLike, if_true, hb, bind, Except.bind, Term.nameOf, Term.typeOfAtom]
  unfold lam
  rw [this]; rfl

theorem opInfo_good {bd : List Term} (x : Term) (h : GoodFor bd x) : ∃ o, opInfo (headOf x) = .ok o := by
  have hh := h.head x
  cases hx : headOf x with
  | const n T =>
    rw [hx] at hh
    unfold opInfo
    by_cases hn : n = "equals"
    · obtain ⟨a, b, rest, rfl⟩ := hh hn
      simp [hn]
    · simp [hn]; split <;> (try split) <;> exact ⟨_, rfl⟩
  | _ => exact ⟨none, rfl⟩

theorem abstractStep_good {bd : List Term} (hbd : BdOK bd) (i : MInst) (v x : Term) (hm : memT v bd = true)
    (h : GoodFor bd x) : ∃ r, abstractStep bd i v x = .ok r ∧ GoodFor bd r := by
  obtain ⟨nm, U, rfl, _, hmem⟩ := memT_var hbd hm
  have hl := h.lamOk nm U hmem x
  unfold abstractStep
  rw [if_pos hm]
  cases x with
  | comb tf ta =>
    simp only
    split
    · obtain ⟨o, ho⟩ := opInfo_good _ h
      simp only [ho, bind, Except.bind]
      split
      · exact hl
      · cases o with
        | none => exact ⟨tf, rfl, h.1⟩
        | some b =>
          cases b with
          | true => simp only; split; · exact hl
                    · exact ⟨tf, rfl, h.1⟩
          | false => exact ⟨tf, rfl, h.1⟩
    · exact hl
  | _ => exact hl

theorem abstractArgs_good {bd : List Term} (hbd : BdOK bd) (i : MInst) : ∀ (L : List Term) (x : Term),
    (∀ v ∈ L, memT v bd = true) → GoodFor bd x → ∃ r, abstractArgs bd i L x = .ok r := by
  intro L
  induction L with
  | nil => intro x _ _; exact ⟨x, rfl⟩
  | cons v rest ih =>
    intro x hL h
    obtain ⟨r1, h1, g1⟩ := abstractStep_good hbd i v x (hL v (by simp)) h
    obtain ⟨r, hr⟩ := ih r1 (fun w hw => hL w (List.mem_cons_of_mem _ hw)) g1
    exact ⟨r, by simp [abstractArgs, h1, hr, bind, Except.bind]⟩

theorem argTypes_good {bd : List Term} (i : MInst) : ∀ L : List Term, (∀ v ∈ L, memT v bd = true) →
    ∃ Ts, argTypes bd i L = .ok Ts := by
  intro L
  induction L with
  | nil => intro _; exact ⟨[], rfl⟩
  | cons v rest ih =>
    intro hL
    obtain ⟨Ts, hTs⟩ := ih (fun w hw => hL w (List.mem_cons_of_mem _ hw))
    exact ⟨v.typeOfAtom :: Ts, by simp [argTypes, hL v (by simp), hTs, bind, Except.bind]⟩

/-- pure Miller patterns: the branch succeeds as soon as the type of `?f` matches -/
theorem matchMiller_complete {bd : List Term} (hbd : BdOK bd) (i : MInst) (hn : String) (hT : Ty) (args : List Term)
    (t : Term) (hargs : ∀ v ∈ args, memT v bd = true) (hg : GoodFor bd t) (tT : Ty) (ht : Term.getType [] t = .ok tT)
    (hty : ∀ Ts, argTypes bd i args = .ok Ts → ∃ i1, bindTy hT (tfun Ts tT) i = .ok i1) :
    ∃ i', matchMiller bd i hn hT args t = .ok i' := by
  obtain ⟨Ts, hTs⟩ := argTypes_good i args hargs
  obtain ⟨i1, h1⟩ := hty Ts hTs
  obtain ⟨r, hr⟩ := abstractArgs_good hbd i1 args.reverse t (fun v hv => hargs v (by simpa using hv)) hg
  exact ⟨i1.addSvar hn r, by simp [matchMiller, hTs, ht, liftT, h1, hr, bind, Except.bind]⟩

end Holpy.C09
