import Holpy.C09.Model
import Holpy.C09.Proofs
import Holpy.C09.ProofsAbs
import Holpy.C09.ProofsAbsSound
import Holpy.C09.ProofsSem3
import Holpy.C09.ProofsTerm
import Holpy.C09.ProofsMillerComplete
import Holpy.C09.ProofsFuelMono
/-
C09 — property theorems (statements only; helper lemmas and the specification vocabulary
`Ext`, `Below`, `isFO`, `SigmaOK`, `applyInst` are in Proofs.lean).

All theorems are for an arbitrary recursion fuel `fuel` and beta-normalisation fuel `bf`.
"Applying the instantiation" is the kernel model's `substType` followed by `substRec` (the two
steps of `Term.subst` after its first loop; the first loop only re-derives type bindings that the
fixed matcher has already recorded, so it is not needed here).
-/
set_option linter.defProp false
namespace Holpy.C09
open Holpy

/-! ### concrete objects for the non-vacuity examples -/
namespace Ex
def nat : Ty := .con "nat" []
def a : Term := .var "a" nat
def b : Term := .var "b" nat
def plus : Term := .const "plus" (Ty.fn nat (Ty.fn nat nat))
def cP : Term := .const "c" (Ty.fn (.stvar "a") nat)
def cN : Term := .const "c" (Ty.fn nat nat)
/-- `?x + c (?y::?'a)` with `c :: ?'a ⇒ nat` -/
def pat : Term := .comb (.comb plus (.svar "x" nat)) (.comb cP (.svar "y" (.stvar "a")))
/-- `(a + b) + c b` -/
def tgt : Term := .comb (.comb plus (.comb (.comb plus a) b)) (.comb cN b)
/-- seed: `?x := a + b`, an unrelated `?z`, a var_inst entry and a bound-variable name -/
def seed : MInst := ⟨[], [("x", .comb (.comb plus a) b), ("z", a)], [("w", b)], [("u", "kept")]⟩
def res : MInst := ⟨[("a", nat)], [("x", .comb (.comb plus a) b), ("z", a), ("y", b)], [("w", b)], [("u", "kept")]⟩
def p : Term := .var "p" (Ty.fn nat nat)
/-- `?F ?y + ?y` against `p a + a`: the argument is matched first, then `?F ?y` is a higher-order
pattern whose argument is an instantiated schematic variable (abstraction loop, eta-contraction) -/
def patHO : Term := .comb (.comb plus (.comb (.svar "F" (Ty.fn nat nat)) (.svar "y" nat))) (.svar "y" nat)
def tgtHO : Term := .comb (.comb plus (.comb p a)) a
end Ex

/-- The instantiation returned by `first_order_match` extends the one passed in on every component
(type instantiation, schematic variables, abs_name_inst; var_inst is returned as it was) — for every
pattern, target, seed and fuel, through all branches (Miller, heuristic, eta-expansion, …).
The caller's object is untouched by construction: Python works on a copy, the model is pure. -/
theorem match_extends (bf fuel : Nat) (pat t : Term) (inst inst' : MInst)
    (h : firstOrderMatch bf fuel pat t inst = .ok inst') : Ext inst inst' :=
  matchAux_ext bf fuel [] inst pat t inst' h

example : firstOrderMatch 10 10 Ex.pat Ex.tgt Ex.seed = .ok Ex.res := rfl
example : firstOrderMatch 10 10 Ex.patHO Ex.tgtHO Ex.seed =
    .ok ⟨[], [("x", .comb (.comb Ex.plus Ex.a) Ex.b), ("z", Ex.a), ("y", Ex.a), ("F", Ex.p)], [("w", Ex.b)],
      [("u", "kept")]⟩ := rfl

/-- a Miller pattern under a binder: `%u. ?F u` against `%v. p v` gives `F := p` (eta-contracted) and
records the bound-variable name -/
example : firstOrderMatch 10 10 (.abs "u" Ex.nat (.comb (.svar "F" (Ty.fn Ex.nat Ex.nat)) (.bound 0)))
    (.abs "v" Ex.nat (.comb Ex.p (.bound 0))) MInst.empty =
    .ok ⟨[], [("F", Ex.p)], [], [("u", "v")]⟩ := by
  simp only [Ex.nat, Ex.p]; model_simp

/-- Same for `first_order_match_list`, in either processing order. -/
theorem match_list_extends (bf fuel : Nat) (pats ts : List Term) (inst inst' : MInst)
    (h : firstOrderMatchList bf fuel pats ts inst = .ok inst') : Ext inst inst' :=
  matchList_ext bf fuel pats ts inst inst' h

example : firstOrderMatchList 10 10 [Ex.pat, .svar "z" Ex.nat] [Ex.tgt, Ex.a] Ex.seed = .ok Ex.res := rfl

/-- First-order patterns (no schematic variable in head position, no binders): if matching
succeeds then the pattern, instantiated with the returned types and terms, is the target
(alpha-equal; nothing to normalise in this fragment) and the substitution does not fail. -/
theorem fo_match_sound (bf fuel : Nat) (pat t : Term) (inst inst' : MInst) (hfo : isFO pat = true)
    (h : firstOrderMatch bf fuel pat t inst = .ok inst') :
    ∃ r, Term.substRec ⟨inst'.tyinst, inst'.svars, []⟩ (Term.substType inst'.tyinst pat) = .ok r ∧
      Term.aeq r t = true :=
  matchAux_fo_sound bf fuel [] inst pat t inst' hfo h inst' (Ext.refl _)

example : isFO Ex.pat = true ∧ firstOrderMatch 10 10 Ex.pat Ex.tgt Ex.seed = .ok Ex.res := ⟨rfl, rfl⟩

/-- `fo_match_sound` for `first_order_match_list` (binder-free first-order patterns), in either
processing order.  Syntactic (alpha-equality) form; the semantic theorem for all patterns is `match_sound_sem`. -/
theorem fo_match_list_sound (bf fuel : Nat) (pats ts : List Term) (inst inst' : MInst)
    (hfo : ∀ p ∈ pats, isFO p = true)
    (h : firstOrderMatchList bf fuel pats ts inst = .ok inst') :
    ∀ pt ∈ pats.zip ts, ∃ r,
      Term.substRec ⟨inst'.tyinst, inst'.svars, []⟩ (Term.substType inst'.tyinst pt.1) = .ok r ∧
        Term.aeq r pt.2 = true :=
  matchList_fo_sound bf fuel pats ts inst inst' hfo h

example : (∀ p ∈ [Ex.pat, .svar "z" Ex.nat], isFO p = true) ∧
    firstOrderMatchList 10 10 [Ex.pat, .svar "z" Ex.nat] [Ex.tgt, Ex.a] Ex.seed = .ok Ex.res :=
  ⟨by decide, rfl⟩

/-- Completeness (and principality) for BINDER-FREE first-order patterns, with no assumption on the
types of the target or on `σ`'s values (see `fo_match_complete` for patterns with binders): if some instantiation `σ` extending
the seed binds every schematic variable of the pattern to a term of the variable's type
(`SigmaOK`) and makes the pattern equal to the target, then matching succeeds once the fuel covers
the size of the pattern, and every binding of the result is the one `σ` makes (`Below`). -/
theorem fo_match_complete_binder_free (bf fuel : Nat) (pat t : Term) (inst σ : MInst) (hfo : isFO pat = true)
    (hfuel : termSize pat ≤ fuel) (hext : Ext inst σ) (hσ : SigmaOK σ pat)
    (hinst : ∃ r, Term.substRec ⟨σ.tyinst, σ.svars, []⟩ (Term.substType σ.tyinst pat) = .ok r ∧
      Term.aeq r t = true) :
    ∃ inst', firstOrderMatch bf fuel pat t inst = .ok inst' ∧ Below inst' σ :=
  matchAux_fo_complete bf fuel inst pat t σ hfo hfuel hext.below hσ hinst

example : isFO Ex.pat = true ∧ termSize Ex.pat ≤ 10 ∧ Ext Ex.seed Ex.res ∧ SigmaOK Ex.res Ex.pat ∧
    ∃ r, Term.substRec ⟨Ex.res.tyinst, Ex.res.svars, []⟩ (Term.substType Ex.res.tyinst Ex.pat) = .ok r ∧
      Term.aeq r Ex.tgt = true :=
  ⟨rfl, by decide, match_extends 10 10 Ex.pat Ex.tgt Ex.seed Ex.res rfl,
   by simp only [Ex.pat, Ex.res, Ex.plus, Ex.cP, Ex.a, Ex.b, Ex.nat]; model_simp; exact ⟨_, rfl, rfl⟩,
   fo_match_sound 10 10 Ex.pat Ex.tgt Ex.seed Ex.res rfl rfl⟩


/-! ### first-order patterns WITH binders (`isFOB`: no schematic variable in head position of an
application — i.e. no schematic variable is applied to anything; abstractions allowed) -/

namespace Ex
/-- `%u. ?x + u` against `%v. (a + b) + v` -/
def patB : Term := .abs "u" nat (.comb (.comb plus (.svar "x" nat)) (.bound 0))
def tgtB : Term := .abs "v" nat (.comb (.comb plus (.comb (.comb plus a) b)) (.bound 0))
def resB : MInst := ⟨[], [("x", .comb (.comb plus a) b)], [], [("u", "v")]⟩
def natStable : TyStable nat := fun τ => by simp [nat, Ty.subst]
def tgtB_stable : tStable tgtB :=
  ⟨natStable, ⟨⟨TyStable.fn natStable (TyStable.fn natStable natStable),
    ⟨⟨TyStable.fn natStable (TyStable.fn natStable natStable), natStable⟩, natStable⟩⟩, trivial⟩⟩
def matchB : firstOrderMatch 10 10 patB tgtB MInst.empty = .ok resB := by
  simp only [patB, tgtB, resB, plus, a, b, nat]; model_simp
end Ex

/-- SOUNDNESS, syntactic form for the first-order class with binders (alpha-equality; the theorem
for ALL patterns, modulo beta-eta in semantic form, is `match_sound_sem`): for a closed first-order pattern with binders (`isFOB`), a
closed target that has an abstraction wherever the pattern has one (`absAligned`) and whose type
annotations contain no schematic type variables (`tStable`), and a seed whose values are closed and
whose type bindings are free of schematic type variables: if matching succeeds, the pattern
instantiated with the returned types and terms is alpha-equal to the target, and the substitution
does not fail.  OUTSIDE this theorem (judged on the implementation by the independent evaluator on
every run, not proved): (1) patterns in which a schematic variable is applied to arguments — the
Miller-pattern branch, the heuristic branch and the already-instantiated-head branch, where equality
holds only modulo beta-eta; (2) a target that is not an abstraction where the pattern is one — the
matcher eta-expands the target and the result is eta-equal, not alpha-equal; (3) targets containing
schematic type variables (outside the matcher's documented domain; there it is unsound). -/
theorem fo_match_sound_binders (bf fuel : Nat) (pat t : Term) (inst inst' : MInst) (hfo : isFOB pat = true)
    (hcp : Term.isOpenAt 0 pat = false) (hct : Term.isOpenAt 0 t = false) (hal : absAligned pat t = true)
    (hts : tStable t) (hst : TyInstStable inst.tyinst) (hcl : SvClosed inst)
    (h : firstOrderMatch bf fuel pat t inst = .ok inst') :
    ∃ r, Term.substRec ⟨inst'.tyinst, inst'.svars, []⟩ (Term.substType inst'.tyinst pat) = .ok r ∧
      Term.aeq r t = true :=
  (matchAux_fob_sound bf fuel [] inst pat t inst' hfo hcp hct hal hts
    ⟨hst, hcl, fun _ s _ => hasVars_nil s⟩ h).2.2 inst' (Ext.refl _)

example : isFOB Ex.patB = true ∧ Term.isOpenAt 0 Ex.patB = false ∧ Term.isOpenAt 0 Ex.tgtB = false ∧
    absAligned Ex.patB Ex.tgtB = true ∧ tStable Ex.tgtB ∧ TyInstStable MInst.empty.tyinst ∧ SvClosed MInst.empty ∧
    firstOrderMatch 10 10 Ex.patB Ex.tgtB MInst.empty = .ok Ex.resB :=
  ⟨rfl, rfl, rfl, rfl, Ex.tgtB_stable, fun _ _ h => by simp [MInst.empty] at h,
   fun _ _ h => by simp [MInst.empty] at h, Ex.matchB⟩

/-- COMPLETENESS (and principality) for first-order patterns, binders included: for a closed pattern
in which no schematic variable is applied to anything (`isFOB` — this is the shape of quantified
rewrite rules), a target whose type annotations contain no schematic type variables, and an
instantiation `σ` extending the seed whose values are closed, which binds every schematic variable
of the pattern to a term of the variable's type (`SigmaOK`) and makes the pattern alpha-equal to the
target: matching succeeds once the fuel covers the size of the pattern, and every binding of the
result is the one `σ` makes (`Below`).  (The stand-in variable the matcher picks for a bound
variable is proved fresh: `variantName_fresh`.) -/
theorem fo_match_complete (bf fuel : Nat) (pat t : Term) (inst σ : MInst) (hfo : isFOB pat = true)
    (hcp : Term.isOpenAt 0 pat = false) (hfuel : termSize pat ≤ fuel) (hext : Ext inst σ)
    (hst : TyInstStable inst.tyinst) (hcl : SvClosed σ) (hσ : SigmaOK σ pat) (hts : tStable t)
    (hinst : ∃ r, Term.substRec ⟨σ.tyinst, σ.svars, []⟩ (Term.substType σ.tyinst pat) = .ok r ∧
      Term.aeq r t = true) :
    ∃ inst', firstOrderMatch bf fuel pat t inst = .ok inst' ∧ Below inst' σ := by
  obtain ⟨i', h, hb, _⟩ := matchAux_fob_complete bf fuel [] inst pat t σ hfo hcp hfuel hext.below hst hcl hσ
    (fun _ _ s _ => hasVars_nil s) hts hinst
  exact ⟨i', h, hb⟩

example : isFOB Ex.patB = true ∧ Term.isOpenAt 0 Ex.patB = false ∧ termSize Ex.patB ≤ 10 ∧
    Ext MInst.empty Ex.resB ∧ TyInstStable MInst.empty.tyinst ∧ SvClosed Ex.resB ∧ SigmaOK Ex.resB Ex.patB ∧
    tStable Ex.tgtB ∧
    ∃ r, Term.substRec ⟨Ex.resB.tyinst, Ex.resB.svars, []⟩ (Term.substType Ex.resB.tyinst Ex.patB) = .ok r ∧
      Term.aeq r Ex.tgtB = true :=
  ⟨rfl, rfl, by decide, match_extends 10 10 _ _ _ _ Ex.matchB, fun _ _ h => by simp [MInst.empty] at h,
   by
     intro n s h
     simp only [Ex.resB, List.lookup_cons, List.lookup_nil] at h
     split at h
     · simp only [Option.some.injEq] at h; subst h; rfl
     · simp at h,
   by simp only [Ex.patB, Ex.resB, Ex.plus, Ex.a, Ex.b, Ex.nat]; model_simp,
   Ex.tgtB_stable,
   fo_match_sound_binders 10 10 Ex.patB Ex.tgtB MInst.empty Ex.resB rfl rfl rfl rfl Ex.tgtB_stable
     (fun _ _ h => by simp [MInst.empty] at h) (fun _ _ h => by simp [MInst.empty] at h) Ex.matchB⟩


/-! ### soundness of the WHOLE matcher, modulo beta-eta, in semantic form -/

namespace Ex
/-- `%u. ?F u` (a Miller pattern under a binder) against `%v. p v` -/
def patM : Term := .abs "u" nat (.comb (.svar "F" (Ty.fn nat nat)) (.bound 0))
def tgtM : Term := .abs "v" nat (.comb p (.bound 0))
def resM : MInst := ⟨[], [("F", p)], [], [("u", "v")]⟩
def DM : List (String × Ty) := [("F", Ty.fn nat nat)]
def natOK : TyOK nat := ⟨natStable, rfl⟩
def tgtM_ok : TgtOK tgtM := ⟨⟨Ty.fn nat nat, rfl⟩, ⟨natOK, ⟨TyOK.fn natOK natOK, trivial⟩⟩, rfl⟩
def matchM : firstOrderMatch 10 10 patM tgtM MInst.empty = .ok resM := by
  simp only [patM, tgtM, resM, p, nat]; model_simp
end Ex

/-- SOUNDNESS OF THE WHOLE MATCHER (every branch: first-order, binders, Miller patterns with the
eta-contracting shortcuts of the abstraction loop, heuristic branch, already-instantiated head with
beta-normalisation, eta-expansion of the target), modulo beta-eta, stated semantically: if
`first_order_match pat t inst` succeeds with `inst'`, then in EVERY finite standard model `M`
(Kernel/Sem.lean) and every admissible valuation `ρ` the instantiated pattern `r` (the result of
`subst_type` + the replacement of `Term.subst`) has the lax type and the denotation of the target.
`sem` identifies beta- and eta-equal terms, so this is "equal up to beta-eta".  Hypotheses: the
schematic variables of the pattern are used at their declared types `D` (`PatInS`); the target is
closed, well-typed, without schematic (type) variables and with genuine binary function types
(`TgtOK`); the seed satisfies the same conditions (`HInv`: closed well-typed instances of the
declared types — the empty seed does, `HInv.empty`); the instantiated pattern is well-typed. -/
theorem match_sound_sem (D : List (String × Ty)) (bf fuel : Nat) (pat t : Term) (inst inst' : MInst)
    (hD : PatInS D inst.tyinst pat) (ht : TgtOK t) (hseed : HInv D [] inst)
    (h : firstOrderMatch bf fuel pat t inst = .ok inst')
    (hwt : ∃ S, Term.checkedGetType [] (Term.substType inst'.tyinst pat) = .ok S)
    (r : Term) (hr : Term.substRec ⟨inst'.tyinst, inst'.svars, []⟩ (Term.substType inst'.tyinst pat) = .ok r)
    (M : Model) (ρ : Valuation) (hρ : Admissible M ρ) :
    Term.getType [] r = Term.getType [] t ∧ sem M ρ [] [] r = sem M ρ [] [] t :=
  match_sound_sem_aux D bf fuel pat t inst inst' hD ht hseed h hwt r hr M ρ hρ

example : PatInS Ex.DM MInst.empty.tyinst Ex.patM ∧ TgtOK Ex.tgtM ∧ HInv Ex.DM [] MInst.empty ∧
    firstOrderMatch 10 10 Ex.patM Ex.tgtM MInst.empty = .ok Ex.resM ∧
    (∃ S, Term.checkedGetType [] (Term.substType Ex.resM.tyinst Ex.patM) = .ok S) ∧
    Term.substRec ⟨Ex.resM.tyinst, Ex.resM.svars, []⟩ (Term.substType Ex.resM.tyinst Ex.patM)
      = .ok (.abs "u" Ex.nat (.comb Ex.p (.bound 0))) :=
  ⟨⟨⟨Ty.fn Ex.nat Ex.nat, rfl, fun _ _ => rfl⟩, trivial⟩, Ex.tgtM_ok, HInv.empty _, Ex.matchM,
   ⟨Ty.fn Ex.nat Ex.nat, by simp [Ex.patM, Ex.resM, Ex.nat, Ex.p, Term.substType, Ty.subst, Ty.fn, Term.checkedGetType,
      bind, Except.bind, Ty.isFun, Ty.domain?, Ty.range?]⟩,
   by simp [Ex.patM, Ex.resM, Ex.nat, Ex.p, Term.substType, Ty.subst, Ty.fn, Term.substRec, bind, Except.bind]⟩

/-- The Miller-pattern branch by itself (`?f x1 … xn`, head not yet instantiated, arguments distinct
stand-ins of bound variables or instantiated schematic variables, every bound variable of the target
among them): the instantiation `?f := %x1 … xn. t` computed by the abstraction loop (`abstract_over`
with its eta-contracting shortcuts and the operator table) satisfies the invariant and makes the
pattern denote what the target denotes (`ConclSem`: same lax type, same `sem` in every model under
every valuation that satisfies the instantiation). -/
theorem miller_match_sound_sem (D : List (String × Ty)) (bd : List Term) (i i' : MInst) (hn : String) (hT : Ty)
    (p t : Term) (hhead : headOf p = .svar hn hT) (hl : i.svars.lookup hn = none)
    (hnh : needsHeuristic bd i (argsOf p) t = false) (hp : PatInS D i.tyinst p) (ht : TgtOK t)
    (hinv : HInv D bd i) (hbd : BdOK bd) (h : matchMiller bd i hn hT (argsOf p) t = .ok i') :
    HInv D bd i' ∧ ConclSem i' p t :=
  matchMiller_sem hhead hl hnh hp ht hinv hbd h

example : headOf (.comb (.svar "F" (Ty.fn Ex.nat Ex.nat)) (.var "u" Ex.nat)) = .svar "F" (Ty.fn Ex.nat Ex.nat) ∧
    needsHeuristic [.var "u" Ex.nat] MInst.empty (argsOf (.comb (.svar "F" (Ty.fn Ex.nat Ex.nat)) (.var "u" Ex.nat)))
      (.comb Ex.p (.var "u" Ex.nat)) = false ∧
    matchMiller [.var "u" Ex.nat] MInst.empty "F" (Ty.fn Ex.nat Ex.nat)
      (argsOf (.comb (.svar "F" (Ty.fn Ex.nat Ex.nat)) (.var "u" Ex.nat))) (.comb Ex.p (.var "u" Ex.nat))
      = .ok ⟨[], [("F", Ex.p)], [], []⟩ :=
  ⟨rfl, rfl, rfl⟩


/-! ### termination of the recursion (the fuel of the model) -/

/-- TERMINATION, first-order class (no schematic variable applied to anything; binders allowed),
unconditional: with fuel at least twice the size of the pattern the model never answers `fuel`,
whatever the target, the seed and the beta-normalisation fuel.  (One call per node of the pattern,
plus one per abstraction for the eta-expansion of a target that is not an abstraction.) -/
theorem fo_match_terminates (bf fuel : Nat) (pat t : Term) (inst : MInst) (hfo : isFOB pat = true)
    (hfuel : 2 * termSize pat ≤ fuel) : firstOrderMatch bf fuel pat t inst ≠ .error .fuel :=
  matchAux_fob_nofuel bf fuel [] inst pat t hfo (Or.inl hfuel)

example : isFOB Ex.patB = true ∧ 2 * termSize Ex.patB ≤ 12 := ⟨rfl, by decide⟩

/-- TERMINATION, higher-order patterns: the same bound `2 * size(pattern)` suffices for every
pattern whose applied schematic variables are met uninstantiated (`Safe B pat` with `B` containing
the names the seed binds: an applied variable is not in `B` and does not occur in the sibling
sub-pattern) — first-order, binder, eta-expansion, Miller and heuristic branches.  Then the branch
that beta-normalises `inst[f] a1 … an` and matches the normal form again is never entered; that
branch is the only place where the recursion is not bounded by the pattern (its argument is a
beta-normal form, and `beta_norm` has its own fuel), so for patterns that do re-use an applied
variable termination is NOT proved (it would need strong normalisation of the instances).
Also: the bindings added by a successful match are schematic variables of the pattern. -/
theorem match_fuel_suffices (bf fuel : Nat) (pat t : Term) (inst : MInst) (B : List String) (hs : Safe B pat)
    (hB : Dom inst B) (hfuel : 2 * termSize pat ≤ fuel) :
    firstOrderMatch bf fuel pat t inst ≠ .error .fuel ∧
    ∀ inst', firstOrderMatch bf fuel pat t inst = .ok inst' → DomSub inst inst' pat :=
  matchAux_safe bf fuel [] inst pat t B hs hB (Or.inl hfuel)

example : Safe [] Ex.patM ∧ Dom MInst.empty [] ∧ 2 * termSize Ex.patM ≤ 10 ∧
    Safe [] Ex.patHO ∧ 2 * termSize Ex.patHO ≤ 20 :=
  ⟨by simp [Ex.patM, Safe, headOf], fun m hm => by simp [MInst.empty] at hm, by decide,
   by simp [Ex.patHO, Safe, headOf, svarNamesOf, Ex.plus], by decide⟩



/-- The answer does not depend on the fuel: once the model answers anything other than `fuel`
(an instantiation or an exception), it gives the same answer with any larger fuel — for every
pattern, all branches.  With `match_fuel_suffices` / `fo_match_terminates`: on the patterns covered
there the answer is the same for EVERY fuel from `2 * size(pattern)` on, i.e. it is the answer of
the unbounded Python recursion. -/
theorem match_fuel_independent (bf n d : Nat) (pat t : Term) (inst : MInst)
    (h : firstOrderMatch bf n pat t inst ≠ .error .fuel) :
    firstOrderMatch bf (n + d) pat t inst = firstOrderMatch bf n pat t inst :=
  matchAux_fuel_le bf d n [] inst pat t h

example : firstOrderMatch 10 10 Ex.pat Ex.tgt Ex.seed ≠ .error .fuel ∧
    firstOrderMatch 10 (10 + 5) Ex.pat Ex.tgt Ex.seed = .ok Ex.res := ⟨by rw [show firstOrderMatch 10 10 Ex.pat Ex.tgt Ex.seed = .ok Ex.res from rfl]; simp, rfl⟩

/-! ### completeness beyond the first-order class -/

/-- COMPLETENESS OF THE MILLER BRANCH, PARTIAL: for a PURE Miller pattern `?f x1 … xn` (every
argument the stand-in of a bound variable; the branch is entered when they are distinct and cover
the bound variables of the target) the branch cannot fail except on the type of `?f`: if the type
of `?f` matches `A1 ⇒ … ⇒ An ⇒ type(t)` the abstraction loop succeeds, whatever shape `t` has,
provided the two ways the code can RAISE are excluded (`GoodFor`: no free variable of the target
has the name of a stand-in at another type — `abstract_over: wrong type` —, and no constant
`equals` has a non-function type — `get_info_for_fun` indexes its argument types).  Together with
`miller_match_sound_sem` the instantiation found is `%x1 … xn. t` up to beta-eta.
MISSING for an unconditional "if some instantiation makes the pattern beta-eta-equal to the target
then matching succeeds": (1) arguments that are instantiated schematic variables (the code gives
up with MatchException when such an instance is neither a variable nor the last argument of the
target: genuinely incomplete); (2) the statement relative to an arbitrary beta-eta-equal instance
needs a notion of beta-eta-equality on terms (only the semantic `sem` is available), so this is
stated as "the branch succeeds", which for pure Miller patterns is equivalent because
`%x1 … xn. t` is always an instance when the types match. -/
theorem miller_match_complete_partial (bd : List Term) (hbd : BdOK bd) (i : MInst) (hn : String) (hT : Ty)
    (args : List Term) (t : Term) (hargs : ∀ v ∈ args, memT v bd = true) (hg : GoodFor bd t) (tT : Ty)
    (ht : Term.getType [] t = .ok tT)
    (hty : ∀ Ts, argTypes bd i args = .ok Ts → ∃ i1, bindTy hT (tfun Ts tT) i = .ok i1) :
    ∃ i', matchMiller bd i hn hT args t = .ok i' :=
  matchMiller_complete hbd i hn hT args t hargs hg tT ht hty

example : BdOK [.var "u" Ex.nat] ∧ (∀ v ∈ [Term.var "u" Ex.nat], memT v [.var "u" Ex.nat] = true) ∧
    GoodFor [.var "u" Ex.nat] (.comb Ex.p (.var "u" Ex.nat)) ∧
    Term.getType [] (.comb Ex.p (.var "u" Ex.nat)) = .ok Ex.nat ∧
    (∀ Ts, argTypes [.var "u" Ex.nat] MInst.empty [.var "u" Ex.nat] = .ok Ts →
      ∃ i1, bindTy (Ty.fn Ex.nat Ex.nat) (tfun Ts Ex.nat) MInst.empty = .ok i1) :=
  ⟨fun w hw => by simp at hw; exact ⟨"u", Ex.nat, hw, Ex.natOK⟩, fun v hv => by simp at hv; subst hv; rfl,
   ⟨fun U hU => by simp at hU, fun U hU => by simp at hU; exact hU.symm⟩, rfl,
   fun Ts hTs => by
     have : Ts = [Ex.nat] := by simpa [argTypes, memT, Term.aeq, Term.typeOfAtom, bind, Except.bind] using hTs.symm
     subst this; exact ⟨_, rfl⟩⟩

/-- First-order patterns whose schematic variables are used at their declared types `D`: if the
seed is well-typed (every bound declared variable carries a term of its declared type under the
seed's type instantiation) then so is the result, and the result binds every schematic variable of
the pattern to a term of the variable's instantiated type — i.e. the result is itself an
instantiation in the sense of `fo_match_complete`, and `Term.subst`'s own re-matching of the
variable types cannot fail on it.  (This is what fixes/C09-1.patch establishes.) -/
theorem fo_match_typed (D : List (String × Ty)) (bf fuel : Nat) (pat t : Term) (inst inst' : MInst)
    (hfo : isFO pat = true) (hD : PatIn D pat) (hseed : TypedBy D inst)
    (h : firstOrderMatch bf fuel pat t inst = .ok inst') : TypedBy D inst' ∧ SigmaOK inst' pat := by
  obtain ⟨h1, h2⟩ := matchAux_fo_typed D bf fuel [] inst pat t inst' hfo hD hseed h
  exact ⟨h1, h2 inst' (Ext.refl _) h1⟩

example : isFO Ex.pat = true ∧ PatIn [("x", Ex.nat), ("y", .stvar "a")] Ex.pat ∧
    TypedBy [("x", Ex.nat), ("y", .stvar "a")] MInst.empty ∧
    firstOrderMatch 10 10 Ex.pat Ex.tgt MInst.empty = .ok ⟨[("a", Ex.nat)], [("x", .comb (.comb Ex.plus Ex.a) Ex.b), ("y", Ex.b)], [], []⟩ :=
  ⟨rfl, ⟨⟨trivial, rfl⟩, trivial, rfl⟩, fun _ _ _ _ h => by simp [MInst.empty] at h, rfl⟩

/-! ### the defects repaired by fixes/C09-1..4.patch stay repaired in the model (regression witnesses) -/

/-- `?x::nat` against `true`: no match (fix 1; the pinned tree answered `x := true`). -/
theorem svar_type_checked :
    firstOrderMatch 10 10 (.svar "x" Ex.nat) (.const "true" Ty.bool) MInst.empty = .error .nomatch := rfl

/-- `Q ?y (%x. ?y)` against `Q x (%z. z)`: no match (fix 2; the pinned tree answered `y := x`). -/
theorem fresh_name_avoids_inst :
    firstOrderMatch 10 10
      (.comb (.comb (.const "Q" (Ty.fn Ex.nat (Ty.fn (Ty.fn Ex.nat Ex.nat) Ty.bool))) (.svar "y" Ex.nat))
        (.abs "x" Ex.nat (.svar "y" Ex.nat)))
      (.comb (.comb (.const "Q" (Ty.fn Ex.nat (Ty.fn (Ty.fn Ex.nat Ex.nat) Ty.bool))) (.var "x" Ex.nat))
        (.abs "z" Ex.nat (.bound 0)))
      MInst.empty = .error .nomatch := rfl

/-- `%x. ?f (c x)` against `%x. h x (c x)`: no match (fix 3; the pinned tree answered `f := h x`
with the stand-in for the bound variable escaping). -/
theorem heuristic_no_escape :
    firstOrderMatch 10 10
      (.abs "x" Ex.nat (.comb (.svar "f" (Ty.fn Ex.nat Ex.nat)) (.comb Ex.cN (.bound 0))))
      (.abs "x" Ex.nat (.comb (.comb (.var "h" (Ty.fn Ex.nat (Ty.fn Ex.nat Ex.nat))) (.bound 0)) (.comb Ex.cN (.bound 0))))
      MInst.empty = .error .nomatch := by
  simp only [Ex.cN, Ex.nat]; model_simp

end Holpy.C09
