import Holpy.C09.Model
import Holpy.C09.Proofs
/-
C09 — property theorems (statements only; helper lemmas in Proofs.lean).
-/
namespace Holpy.C09
open Holpy

/-- The instantiation returned by `first_order_match` extends the one passed in on every component
(type instantiation, schematic variables, abs_name_inst) and leaves var_inst as it was — for every
pattern, target, seed and fuel, through all branches (Miller, heuristic, eta, …). -/
theorem match_extends (bf fuel : Nat) (pat t : Term) (inst inst' : MInst)
    (h : firstOrderMatch bf fuel pat t inst = .ok inst') : Ext inst inst' :=
  matchAux_ext bf fuel [] inst pat t inst' h

end Holpy.C09
