import Holpy.C19.Poly
import Holpy.C19.Den
import Mathlib.Algebra.BigOperators.Group.List.Basic
import Mathlib.Algebra.Order.Field.Basic
/-
C19 — real denotation of the polynomial data of `Poly.lean` and the value lemmas of the polynomial
arithmetic (`collect_pairs_power`, `collect_pairs`, `Monomial`, `Polynomial`, `+ - * / ^`).
-/
namespace Holpy.C19

open Expr

/-- Value of a factor tuple: product of `base ^ power` (integer power, `zpow`). -/
noncomputable def denF (env : String → ℝ) (fs : Factors) : ℝ := (fs.map fun p => den p.1 env ^ p.2).prod

noncomputable def denM (env : String → ℝ) (m : Mono) : ℝ := (m.coeff : ℝ) * denF env m.factors

noncomputable def denP (env : String → ℝ) (p : Poly) : ℝ := (p.map (denM env)).sum

/-- Value of the (factors, coeff) pairs `collect_pairs` works on. -/
noncomputable def denK (env : String → ℝ) (l : List (Factors × Rat)) : ℝ :=
  (l.map fun p => (p.2 : ℝ) * denF env p.1).sum

/-- The recorded answers of `Conditions.is_nonzero` are true at `env`. -/
def NzOK (nz : List Expr) (env : String → ℝ) : Prop := ∀ b ∈ nz, den b env ≠ 0

@[simp] theorem denF_nil (env) : denF env [] = 1 := by simp [denF]
@[simp] theorem denF_cons (env) (p : Expr × Int) (fs : Factors) :
    denF env (p :: fs) = den p.1 env ^ p.2 * denF env fs := by simp [denF]
theorem denF_append (env) (a b : Factors) : denF env (a ++ b) = denF env a * denF env b := by
  simp [denF, List.prod_append]
theorem denF_perm (env) {a b : Factors} (h : a.Perm b) : denF env a = denF env b := by
  unfold denF; exact (h.map _).prod_eq

@[simp] theorem denK_nil (env) : denK env [] = 0 := by simp [denK]
@[simp] theorem denK_cons (env) (p : Factors × Rat) (l) :
    denK env (p :: l) = (p.2 : ℝ) * denF env p.1 + denK env l := by simp [denK]
theorem denK_append (env) (a b : List (Factors × Rat)) : denK env (a ++ b) = denK env a + denK env b := by
  simp [denK, List.sum_append]
theorem denK_perm (env) {a b : List (Factors × Rat)} (h : a.Perm b) : denK env a = denK env b := by
  unfold denK; exact (h.map _).sum_eq

@[simp] theorem denP_nil (env) : denP env [] = 0 := by simp [denP]
@[simp] theorem denP_cons (env) (m : Mono) (p : Poly) : denP env (m :: p) = denM env m + denP env p := by
  simp [denP]
theorem denP_append (env) (a b : Poly) : denP env (a ++ b) = denP env a + denP env b := by
  simp [denP, List.sum_append]

/-! ### the three insertion sorts are permutations -/

theorem insBase_perm (x : Expr × Int) (l : Factors) : (insBase x l).Perm (x :: l) := by
  induction l with
  | nil => simp [insBase]
  | cons y ys ih =>
    unfold insBase; split
    · exact .refl _
    · exact (ih.cons y).trans (.swap x y ys)

theorem sortBase_perm (l : Factors) : (sortBase l).Perm l := by
  have h : ∀ acc : Factors, (l.foldl (fun acc x => insBase x acc) acc).Perm (l ++ acc) := by
    induction l with
    | nil => intro acc; simp
    | cons x xs ih =>
      intro acc
      simp only [List.foldl_cons]
      refine (ih _).trans ?_
      refine (List.Perm.append_left xs (insBase_perm x acc)).trans ?_
      simpa using (List.perm_middle (a := x) (l₁ := xs) (l₂ := acc))
  simpa [sortBase] using h []

theorem insKey_perm (x : Factors × Rat) (l) : (insKey x l).Perm (x :: l) := by
  induction l with
  | nil => simp [insKey]
  | cons y ys ih =>
    unfold insKey; split
    · exact .refl _
    · exact (ih.cons y).trans (.swap x y ys)

theorem sortKey_perm (l : List (Factors × Rat)) : (sortKey l).Perm l := by
  have h : ∀ acc, (l.foldl (fun acc x => insKey x acc) acc).Perm (l ++ acc) := by
    induction l with
    | nil => intro acc; simp
    | cons x xs ih =>
      intro acc
      simp only [List.foldl_cons]
      refine (ih _).trans ?_
      refine (List.Perm.append_left xs (insKey_perm x acc)).trans ?_
      simpa using (List.perm_middle (a := x) (l₁ := xs) (l₂ := acc))
  simpa [sortKey] using h []

theorem insRsize_perm (x : Expr) (l) : (insRsize x l).Perm (x :: l) := by
  induction l with
  | nil => simp [insRsize]
  | cons y ys ih =>
    unfold insRsize; split
    · exact .refl _
    · exact (ih.cons y).trans (.swap x y ys)

theorem sortRsize_perm (l : List Expr) : (sortRsize l).Perm l := by
  have h : ∀ acc, (l.foldl (fun acc x => insRsize x acc) acc).Perm (l ++ acc) := by
    induction l with
    | nil => intro acc; simp
    | cons x xs ih =>
      intro acc
      simp only [List.foldl_cons]
      refine (ih _).trans ?_
      refine (List.Perm.append_left xs (insRsize_perm x acc)).trans ?_
      simpa using (List.perm_middle (a := x) (l₁ := xs) (l₂ := acc))
  simpa [sortRsize] using h []

/-! ### `collect_pairs_power` -/

theorem denF_dset (env) (k : Expr) (c0 c : Int) (l : Factors)
    (hl : dlookup k l = some c0)
    (hx : den k env ^ (c0 + c) = den k env ^ c0 * den k env ^ c) :
    denF env (dset k (c0 + c) l) = denF env l * den k env ^ c := by
  induction l with
  | nil => simp [dlookup] at hl
  | cons p r ih =>
    obtain ⟨k', v'⟩ := p
    by_cases hk : (k' == k) = true
    · have : k' = k := by simpa using hk
      subst this
      simp only [dlookup, hk, if_true, Option.some.injEq] at hl
      subst hl
      simp only [dset, hk, if_true, denF_cons, hx]; ring
    · have hk' : (k' == k) = false := by simpa using hk
      simp only [dlookup, hk', Bool.false_eq_true, if_false] at hl
      simp only [dset, hk', Bool.false_eq_true, if_false, denF_cons, ih hl]; ring

theorem denF_filter_nz (env) (l : Factors) : denF env (l.filter fun p => p.2 != 0) = denF env l := by
  induction l with
  | nil => simp
  | cons p r ih =>
    by_cases h : p.2 = 0
    · simp [List.filter_cons, h, ih]
    · simp [List.filter_cons, h, ih]

theorem cppStep_den (nz env) (hnz : NzOK nz env) (st : Factors × Factors) (p : Expr × Int) :
    denF env (cppStep nz st p).1 * denF env (cppStep nz st p).2
      = denF env st.1 * denF env st.2 * den p.1 env ^ p.2 := by
  unfold cppStep
  split
  · rename_i c0 hl
    split
    · rename_i hc
      have hx : den p.1 env ^ (c0 + p.2) = den p.1 env ^ c0 * den p.1 env ^ p.2 := by
        rcases Bool.or_eq_true _ _ |>.mp hc with h | h
        · have h1 : 0 ≤ p.2 ∧ 0 ≤ c0 := by simpa using h
          refine zpow_add' ?_
          by_cases h0 : c0 + p.2 = 0
          · right; right; omega
          · right; left; exact h0
        · have : p.1 ∈ nz := by simpa using h
          exact zpow_add₀ (hnz _ this) _ _
      simp only [denF_dset env p.1 c0 p.2 st.1 hl hx]; ring
    · simp only [denF_append, denF_cons, denF_nil]; ring
  · simp only [denF_append, denF_cons, denF_nil]; ring

theorem cpp_fold_den (nz env) (hnz : NzOK nz env) (ps : Factors) (st : Factors × Factors) :
    denF env (ps.foldl (cppStep nz) st).1 * denF env (ps.foldl (cppStep nz) st).2
      = denF env st.1 * denF env st.2 * denF env ps := by
  induction ps generalizing st with
  | nil => simp
  | cons p r ih =>
    simp only [List.foldl_cons, ih, cppStep_den nz env hnz, denF_cons]; ring

theorem collectPairsPower_den (nz env) (hnz : NzOK nz env) (ps : Factors) :
    denF env (collectPairsPower nz ps) = denF env ps := by
  unfold collectPairsPower
  simp only []
  rw [denF_perm env (sortBase_perm _), denF_append, denF_filter_nz, mul_comm,
    cpp_fold_den nz env hnz]; simp

theorem mkMono_den (nz env) (hnz : NzOK nz env) (c : Rat) (fs : Factors) :
    denM env (mkMono nz c fs) = (c : ℝ) * denF env fs := by
  simp [denM, mkMono, collectPairsPower_den nz env hnz]

/-! ### `collect_pairs`, `Polynomial(...)` -/

theorem denK_dset (env) (k : Factors) (c0 c : Rat) (l : List (Factors × Rat))
    (hl : dlookup k l = some c0) :
    denK env (dset k (c0 + c) l) = denK env l + (c : ℝ) * denF env k := by
  induction l with
  | nil => simp [dlookup] at hl
  | cons p r ih =>
    obtain ⟨k', v'⟩ := p
    by_cases hk : (k' == k) = true
    · have : k' = k := by simpa using hk
      subst this
      simp only [dlookup, hk, if_true, Option.some.injEq] at hl
      subst hl
      simp only [dset, hk, if_true, denK_cons]; push_cast; ring
    · have hk' : (k' == k) = false := by simpa using hk
      simp only [dlookup, hk', Bool.false_eq_true, if_false] at hl
      simp only [dset, hk', Bool.false_eq_true, if_false, denK_cons, ih hl]; ring

theorem cpStep_den (env) (res : List (Factors × Rat)) (p : Factors × Rat) :
    denK env (cpStep res p) = denK env res + (p.2 : ℝ) * denF env p.1 := by
  unfold cpStep
  split
  · rename_i c0 hl; exact denK_dset env p.1 c0 p.2 res hl
  · simp [denK_append]

theorem cp_fold_den (env) (ps res : List (Factors × Rat)) :
    denK env (ps.foldl cpStep res) = denK env res + denK env ps := by
  induction ps generalizing res with
  | nil => simp
  | cons p r ih => simp only [List.foldl_cons, ih, cpStep_den, denK_cons]; ring

theorem denK_filter_nz (env) (l : List (Factors × Rat)) :
    denK env (l.filter fun p => p.2 != 0) = denK env l := by
  induction l with
  | nil => simp
  | cons p r ih =>
    by_cases h : p.2 = 0
    · simp [List.filter_cons, h, ih]
    · simp [List.filter_cons, h, ih]

theorem collectPairs_den (env) (ps : List (Factors × Rat)) : denK env (collectPairs ps) = denK env ps := by
  unfold collectPairs
  rw [denK_perm env (sortKey_perm _), denK_filter_nz, cp_fold_den]; simp

theorem mkPoly_den (nz env) (hnz : NzOK nz env) (ms : List Mono) : denP env (mkPoly nz ms) = denP env ms := by
  have h1 : ∀ l : List (Factors × Rat),
      denP env (l.map fun p => mkMono nz p.2 p.1) = denK env l := by
    intro l
    induction l with
    | nil => simp
    | cons p r ih => simp [ih, mkMono_den nz env hnz]
  have h2 : denK env (ms.map fun m => (m.factors, m.coeff)) = denP env ms := by
    induction ms with
    | nil => simp
    | cons m r ih => simp [ih, denM]
  unfold mkPoly
  rw [h1, denK_filter_nz, collectPairs_den, h2]

/-! ### arithmetic -/

theorem pAdd_den (nz env) (hnz : NzOK nz env) (a b : Poly) :
    denP env (pAdd nz a b) = denP env a + denP env b := by
  simp [pAdd, mkPoly_den nz env hnz, denP_append]

theorem mNeg_den (nz env) (hnz : NzOK nz env) (m : Mono) : denM env (mNeg nz m) = - denM env m := by
  simp only [mNeg, mkMono_den nz env hnz]; simp only [denM]; push_cast; ring

theorem pNeg_den (nz env) (hnz : NzOK nz env) (a : Poly) : denP env (pNeg nz a) = - denP env a := by
  unfold pNeg
  rw [mkPoly_den nz env hnz]
  induction a with
  | nil => simp
  | cons m r ih =>
    simp only [List.map_cons, denP_cons, ih, mNeg_den nz env hnz]; ring

theorem pSub_den (nz env) (hnz : NzOK nz env) (a b : Poly) :
    denP env (pSub nz a b) = denP env a - denP env b := by
  simp [pSub, pAdd_den nz env hnz, pNeg_den nz env hnz]; ring

theorem mMul_den (nz env) (hnz : NzOK nz env) (m1 m2 : Mono) :
    denM env (mMul nz m1 m2) = denM env m1 * denM env m2 := by
  unfold mMul; rw [mkMono_den nz env hnz]; simp only [denM, denF_append]; push_cast; ring

theorem pMul_row_den (nz env) (hnz : NzOK nz env) (m : Mono) (b : Poly) :
    denP env (b.map fun m2 => mMul nz m m2) = denM env m * denP env b := by
  induction b with
  | nil => simp
  | cons m2 r2 ih2 => simp only [List.map_cons, denP_cons, ih2, mMul_den nz env hnz]; ring

theorem pMul_den (nz env) (hnz : NzOK nz env) (a b : Poly) :
    denP env (pMul nz a b) = denP env a * denP env b := by
  unfold pMul
  rw [mkPoly_den nz env hnz]
  induction a with
  | nil => simp
  | cons m r ih =>
    simp only [List.flatMap_cons, denP_append, ih, denP_cons, pMul_row_den nz env hnz]; ring

theorem denF_inv (env) (fs : Factors) : denF env (fs.map fun p => (p.1, -p.2)) = (denF env fs)⁻¹ := by
  induction fs with
  | nil => simp
  | cons p r ih => simp only [List.map_cons, denF_cons, ih, zpow_neg, mul_inv]

theorem mDiv_den (nz env) (hnz : NzOK nz env) (m1 m2 : Mono) :
    denM env (mDiv nz m1 m2) = denM env m1 / denM env m2 := by
  unfold mDiv; rw [mkMono_den nz env hnz]; simp only [denM, denF_append, denF_inv]; push_cast
  simp only [div_eq_mul_inv, mul_inv]; ring

theorem pDiv_den (nz env) (hnz : NzOK nz env) (a b r : Poly) (h : pDiv nz a b = .ok r) :
    denP env r = denP env a / denP env b := by
  unfold pDiv at h
  split at h
  · cases h
  · rename_i m
    cases h
    rw [mkPoly_den nz env hnz]
    induction a with
    | nil => simp
    | cons m1 r1 ih =>
      simp only [List.map_cons, denP_cons, ih, mDiv_den nz env hnz, denP_nil, add_zero]; ring
  · cases h

theorem denF_pow (env) (fs : Factors) (k : Int) :
    denF env (fs.map fun p => (p.1, p.2 * k)) = (denF env fs) ^ k := by
  induction fs with
  | nil => simp
  | cons p r ih => simp only [List.map_cons, denF_cons, ih, zpow_mul, mul_zpow]

theorem ratPowInt_cast (c : Rat) (k : Int) : ((ratPowInt c k : Rat) : ℝ) = (c : ℝ) ^ k := by
  unfold ratPowInt
  split
  · rename_i h
    obtain ⟨n, rfl⟩ := Int.eq_ofNat_of_zero_le h
    simp
  · rename_i h
    have hk : k = -((-k).toNat : Int) := by omega
    generalize (-k).toNat = n at hk
    subst hk
    simp

theorem mPow_den (nz env) (hnz : NzOK nz env) (m : Mono) (k : Int) :
    denM env (mPow nz m k) = (denM env m) ^ k := by
  unfold mPow; rw [mkMono_den nz env hnz]; simp only [denM, denF_pow, ratPowInt_cast, mul_zpow]

theorem getFraction_den (env) (p : Poly) (q : Rat) (h : getFraction p = some q) : denP env p = (q : ℝ) := by
  unfold getFraction at h
  split at h
  · cases h; simp
  · rename_i m
    split at h
    · rename_i he
      cases h
      have : m.factors = [] := by simpa using he
      simp [denM, this]
    · cases h
  · cases h

theorem constantP_den (nz env) (hnz : NzOK nz env) (c : Rat) : denP env (constantP nz c) = (c : ℝ) := by
  simp [constantP, mkPoly_den nz env hnz, mkMono_den nz env hnz]

theorem singleton_den (nz env) (hnz : NzOK nz env) (s : Expr) : denP env (singleton nz s) = den s env := by
  cases s <;> simp [singleton, mkPoly_den nz env hnz, mkMono_den nz env hnz, den]

end Holpy.C19
