import Holpy.C19.IvalProofs1
import Mathlib.Algebra.Order.Ring.Abs
/-
C19 — enclosure proofs for the interval model, part 2: `powNat`.
-/
namespace Holpy.C19

theorem pow_LB_nonneg {s : Rat} {f : Bool} {x : ℝ} {n : ℕ} (hn : n ≠ 0) (hs : 0 ≤ (s : ℝ))
    (h : (Bound.fin s).LB f x) : (Bound.fin (s ^ n)).LB f (x ^ n) := by
  cases f <;> simp only [Bound.LB_fin_open, Bound.LB_fin_closed] at h ⊢ <;> push_cast
  · exact pow_le_pow_left₀ hs h n
  · exact pow_lt_pow_left₀ h hs hn

theorem pow_UB_nonneg {e : Rat} {f : Bool} {x : ℝ} {n : ℕ} (hn : n ≠ 0) (hx : 0 ≤ x)
    (h : (Bound.fin e).UB f x) : (Bound.fin (e ^ n)).UB f (x ^ n) := by
  cases f <;> simp only [Bound.UB_fin_open, Bound.UB_fin_closed] at h ⊢ <;> push_cast
  · exact pow_le_pow_left₀ hx h n
  · exact pow_lt_pow_left₀ h hx hn

theorem pow_LB_nonpos {e : Rat} {f : Bool} {x : ℝ} {n : ℕ} (he : Even n) (hn : n ≠ 0)
    (h0 : (e : ℝ) ≤ 0) (h : (Bound.fin e).UB f x) : (Bound.fin (e ^ n)).LB f (x ^ n) := by
  have h' : (Bound.fin (-e)).LB f (-x) := Bound.LB_neg.2 h
  have := pow_LB_nonneg (n := n) hn (by push_cast; linarith) h'
  rwa [he.neg_pow, he.neg_pow] at this

theorem pow_UB_nonpos {s : Rat} {f : Bool} {x : ℝ} {n : ℕ} (he : Even n) (hn : n ≠ 0)
    (hx : x ≤ 0) (h : (Bound.fin s).LB f x) : (Bound.fin (s ^ n)).UB f (x ^ n) := by
  have h' : (Bound.fin (-s)).UB f (-x) := Bound.UB_neg.2 h
  have := pow_UB_nonneg (n := n) hn (by linarith) h'
  rwa [he.neg_pow, he.neg_pow] at this

theorem pow_LB_odd {s : Rat} {f : Bool} {x : ℝ} {n : ℕ} (ho : Odd n)
    (h : (Bound.fin s).LB f x) : (Bound.fin (s ^ n)).LB f (x ^ n) := by
  cases f <;> simp only [Bound.LB_fin_open, Bound.LB_fin_closed] at h ⊢ <;> push_cast
  · exact ho.strictMono_pow.monotone h
  · exact ho.strictMono_pow h

theorem pow_UB_odd {e : Rat} {f : Bool} {x : ℝ} {n : ℕ} (ho : Odd n)
    (h : (Bound.fin e).UB f x) : (Bound.fin (e ^ n)).UB f (x ^ n) := by
  cases f <;> simp only [Bound.UB_fin_open, Bound.UB_fin_closed] at h ⊢ <;> push_cast
  · exact ho.strictMono_pow.monotone h
  · exact ho.strictMono_pow h

/-- Upper end via the absolute value, for even exponents. -/
theorem pow_UB_abs {m : Rat} {f : Bool} {x : ℝ} {n : ℕ} (he : Even n) (hn : n ≠ 0)
    (h : (Bound.fin m).UB f |x|) : (Bound.fin (m ^ n)).UB f (x ^ n) := by
  have := pow_UB_nonneg (n := n) hn (abs_nonneg x) h
  rwa [he.pow_abs] at this

theorem Ival.powNat_encloses {I : Ival} {x : ℝ} (n : ℕ) (hx : I.mem x) :
    (I.powNat n).mem (x ^ n) := by
  rw [Ival.mem_iff] at hx ⊢
  obtain ⟨a1, a2, f1, f2⟩ := I
  obtain ⟨h1, h2⟩ := hx
  simp only at h1 h2
  by_cases hn : n = 0
  · subst hn; simp [Ival.powNat]
  have hn' : (n == 0) = false := by simp [hn]
  rcases Nat.even_or_odd n with he | ho
  · have he' : (n % 2 == 0) = true := by simp [Nat.even_iff.1 he]
    simp only [Ival.powNat, hn', he', if_true, Bool.false_eq_true, if_false]
    cases a1 with
    | posInf => exact absurd h1 (by simp)
    | negInf =>
      cases a2 with
      | negInf => exact absurd h2 (by simp)
      | posInf =>
        simp [Bound.le]
        exact he.pow_nonneg x
      | fin e =>
        have hxe := Bound.UB_fin_le h2
        by_cases h0 : e ≤ 0
        · have h0' : (e : ℝ) ≤ 0 := by exact_mod_cast h0
          simp [Bound.le, h0, Ival.boundPow]
          exact pow_LB_nonpos he hn h0' h2
        · simp [Bound.le, h0]
          exact he.pow_nonneg x
    | fin s =>
      have hsx := Bound.LB_fin_le h1
      cases a2 with
      | negInf => exact absurd h2 (by simp)
      | posInf =>
        by_cases hs : 0 ≤ s
        · have hs' : (0 : ℝ) ≤ s := by exact_mod_cast hs
          simp [Bound.le, hs, Ival.boundPow]
          exact pow_LB_nonneg hn hs' h1
        · simp [Bound.le, hs]
          exact he.pow_nonneg x
      | fin e =>
        have hxe := Bound.UB_fin_le h2
        by_cases hs : 0 ≤ s
        · have hs' : (0 : ℝ) ≤ s := by exact_mod_cast hs
          simp [Bound.le, hs, Ival.boundPow]
          exact ⟨pow_LB_nonneg hn hs' h1, pow_UB_nonneg hn (by linarith) h2⟩
        · by_cases h0 : e ≤ 0
          · have h0' : (e : ℝ) ≤ 0 := by exact_mod_cast h0
            simp [Bound.le, hs, h0, Ival.boundPow]
            exact ⟨pow_LB_nonpos he hn h0' h2, pow_UB_nonpos he hn (by linarith) h1⟩
          · have hs' : (s : ℝ) < 0 := by exact_mod_cast not_le.1 hs
            have h0' : (0 : ℝ) < e := by exact_mod_cast not_le.1 h0
            simp only [Bound.le, hs, h0, decide_false, Bool.false_eq_true, if_false]
            by_cases hc1 : -s > e
            · have hc1' : (e : ℝ) < -s := by exact_mod_cast hc1
              simp only [hc1, if_true]
              refine ⟨by simpa using he.pow_nonneg x, ?_⟩
              have hm : (Bound.fin (-s)).UB f1 |x| := by
                cases f1 <;> simp only [Bound.UB_fin_open, Bound.UB_fin_closed, Bound.LB_fin_open,
                  Bound.LB_fin_closed] at h1 ⊢ <;> push_cast
                · exact abs_le.2 ⟨by linarith, by linarith⟩
                · exact abs_lt.2 ⟨by linarith, by linarith⟩
              have := pow_UB_abs he hn hm
              rwa [he.neg_pow] at this
            · simp only [hc1, if_false]
              by_cases hc2 : -s = e
              · have hc2' : -(s : ℝ) = e := by exact_mod_cast hc2
                have hb : (-s == e) = true := by simp [hc2]
                simp only [hb, if_true]
                refine ⟨by simpa using he.pow_nonneg x, ?_⟩
                have hm : (Bound.fin (-s)).UB (f1 && f2) |x| := by
                  cases f1 <;> cases f2 <;>
                    simp only [Bound.UB_fin_open, Bound.UB_fin_closed, Bound.LB_fin_open,
                      Bound.LB_fin_closed, Bool.and_self, Bool.and_true, Bool.and_false] at h1 h2 ⊢ <;>
                    push_cast
                  · exact abs_le.2 ⟨by linarith, by linarith⟩
                  · exact abs_le.2 ⟨by linarith, by linarith⟩
                  · exact abs_le.2 ⟨by linarith, by linarith⟩
                  · exact abs_lt.2 ⟨by linarith, by linarith⟩
                have := pow_UB_abs he hn hm
                rwa [he.neg_pow] at this
              · have hb : (-s == e) = false := by simp [hc2]
                simp only [hb, Bool.false_eq_true, if_false]
                have hc3 : -(s : ℝ) < e := by
                  have : -s < e := lt_of_le_of_ne (not_lt.1 hc1) hc2
                  exact_mod_cast this
                refine ⟨by simpa using he.pow_nonneg x, ?_⟩
                have hm : (Bound.fin e).UB f2 |x| := by
                  cases f2 <;> simp only [Bound.UB_fin_open, Bound.UB_fin_closed] at h2 ⊢
                  · exact abs_le.2 ⟨by linarith, by linarith⟩
                  · exact abs_lt.2 ⟨by linarith, by linarith⟩
                exact pow_UB_abs he hn hm
  · have ho' : (n % 2 == 0) = false := by simp [Nat.odd_iff.1 ho]
    simp only [Ival.powNat, hn', ho', Bool.false_eq_true, if_false]
    constructor
    · cases a1 with
      | posInf => exact absurd h1 (by simp)
      | negInf => simp [Ival.boundPow, Nat.odd_iff.1 ho]
      | fin s => exact pow_LB_odd ho h1
    · cases a2 with
      | negInf => exact absurd h2 (by simp)
      | posInf => simp [Ival.boundPow]
      | fin e => exact pow_UB_odd ho h2

end Holpy.C19
