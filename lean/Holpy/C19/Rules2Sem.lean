import Holpy.C19.Rules2
import Holpy.C19.RulesSem
/-
C19 — side conditions of `substitution_inverse_value`.
-/
namespace Holpy.C19

open Expr MeasureTheory Set

/-- What `SubstitutionInverse(u, h)` relies on for `INT x:[a,b]. body` with computed bounds `lo'`, `hi'`:
* `fresh`  — `u` differs from `x` and does not occur in `body`                                   (NOT checked by the code);
* `closed` — `body`, `h` are closed-form (a restriction of the theorem);
* `hdiff`  — `h` is inside its domain and differentiable between the new bounds                  (NOT checked);
* `hcont`  — its derivative is continuous there                                                  (NOT checked);
* `fcont`  — the integrand is continuous on the image of `h`                                     (NOT checked);
* `lo_eq`, `hi_eq` — the new bounds are mapped to the old ones, `h(lo') = a`, `h(hi') = b`
  (the code obtains them from `solve_equation` and a limit computation: numerical oracle only). -/
structure SubstInvOK (u x : String) (h lo' hi' a b body : Expr) (env : String → ℝ) : Prop where
  fresh : u ≠ x ∧ body.containsVar u = false
  closed : Closed body ∧ Closed h
  hdiff : ∀ s ∈ span lo' hi' env, DiffOK h (at' env u s)
  hcont : ContinuousOn (fun s => den (derivM u h) (at' env u s)) (span lo' hi' env)
  fcont : ContinuousOn (fun t => den body (at' env x t))
            ((fun s => den h (at' env u s)) '' span lo' hi' env)
  lo_eq : den h (at' env u (den lo' env)) = den a env
  hi_eq : den h (at' env u (den hi' env)) = den b env

end Holpy.C19
