import Holpy.C19.Model
import Mathlib.Analysis.SpecialFunctions.ExpDeriv
import Mathlib.Analysis.SpecialFunctions.Log.Deriv
import Mathlib.Analysis.SpecialFunctions.Pow.Deriv
import Mathlib.Analysis.SpecialFunctions.Trigonometric.Deriv
import Mathlib.Analysis.SpecialFunctions.Trigonometric.ArctanDeriv
import Mathlib.Analysis.SpecialFunctions.Trigonometric.InverseDeriv
import Mathlib.Analysis.SpecialFunctions.Sqrt
import Mathlib.MeasureTheory.Integral.IntervalIntegral.Basic
/-
C19 — real denotation of calculator expressions and the definedness predicate used by `deriv_correct`.

`den` is total (Lean's conventions at points outside the domain: x / 0 = 0, log of a non-positive number,
`rpow` of a negative base …); `DiffOK` is the side condition under which the value is the mathematically
intended one *and* the expression is differentiable in `v` at the point `env v`.
-/
namespace Holpy.C19

open Expr

/-- Meaning of the one-argument functions the calculator knows. -/
noncomputable def fn1Den (name : String) (x : ℝ) : ℝ :=
  if name = "sin" then Real.sin x
  else if name = "cos" then Real.cos x
  else if name = "tan" then Real.tan x
  else if name = "cot" then Real.cos x / Real.sin x
  else if name = "sec" then 1 / Real.cos x
  else if name = "csc" then 1 / Real.sin x
  else if name = "exp" then Real.exp x
  else if name = "log" then Real.log x
  else if name = "sqrt" then Real.sqrt x
  else if name = "atan" then Real.arctan x
  else if name = "asin" then Real.arcsin x
  else if name = "acos" then Real.arccos x
  else if name = "acot" then Real.pi / 2 - Real.arctan x
  else if name = "abs" then |x|
  else 0

/-- Real value of an expression in an environment (`env` gives the values of the variables). -/
noncomputable def den : Expr → (String → ℝ) → ℝ
  | var n, env => env n
  | const q, _ => (q : ℝ)
  | op .add a b, env => den a env + den b env
  | op .sub a b, env => den a env - den b env
  | op .mul a b, env => den a env * den b env
  | op .div a b, env => den a env / den b env
  | op .pow a b, env => (den a env) ^ (den b env)      -- real power `Real.rpow`
  | neg a, env => - den a env
  | fn0 n, _ => if n = "pi" then Real.pi else 0
  | fn1 n a, env => fn1Den n (den a env)
  | integral v lo hi b, env => ∫ x in (den lo env)..(den hi env), den b (Function.update env v x)
  | evalAt v lo hi b, env =>
      den b (Function.update env v (den hi env)) - den b (Function.update env v (den lo env))
  | Expr.deriv v b, env => _root_.deriv (fun x => den b (Function.update env v x)) (env v)

/-- Names of the functions whose derivative `rules.deriv` knows in closed form. -/
def knownFn1 : List String :=
  ["sin", "cos", "tan", "sec", "csc", "cot", "log", "exp", "sqrt", "atan", "asin", "acos", "acot"]

/-- Side condition of one function application at argument value `x`: inside the domain, and differentiable there. -/
def fn1OK (name : String) (x : ℝ) : Prop :=
  if name = "tan" ∨ name = "sec" then Real.cos x ≠ 0
  else if name = "cot" ∨ name = "csc" then Real.sin x ≠ 0
  else if name = "log" then 0 < x
  else if name = "sqrt" then 0 < x
  else if name = "asin" ∨ name = "acos" then -1 < x ∧ x < 1
  else True

/-- `e` belongs to the closed-form fragment (`+ - * / ^`, unary minus, `pi`, the known functions), every
division / logarithm / root / power is inside its domain at `env`, and `e` is differentiable in every variable
there.  (Powers: a constant exponent `c` needs `base ≠ 0 ∨ 1 ≤ c`, and a *negative* base needs an integer
exponent `c`; any other exponent needs `0 < base`.  `sqrt` of a constant is a constant and needs nothing.)

The clause `den a env < 0 → c.den = 1` was added while proving `deriv_correct_aux`: Lean's `Real.rpow` at a
negative base and a non-integer exponent is `exp (c * log |x|) * cos (c * π)`, not a value the calculator means,
and there `1 / x ^ c ≠ x ^ (-c)`, which is the rewriting `rules.deriv` uses for `u / x ^ c`
(e.g. `1 / x ^ (1/3)` at `x = -1`: the model derivative evaluates to `1/6`, the `rpow` derivative is `2/3`). -/
def DiffOK : Expr → (String → ℝ) → Prop
  | var _, _ => True
  | const _, _ => True
  | op .add a b, env => DiffOK a env ∧ DiffOK b env
  | op .sub a b, env => DiffOK a env ∧ DiffOK b env
  | op .mul a b, env => DiffOK a env ∧ DiffOK b env
  | op .div a b, env => DiffOK a env ∧ DiffOK b env ∧ den b env ≠ 0
  | op .pow a (const c), env =>
      DiffOK a env ∧ (den a env ≠ 0 ∨ 1 ≤ (c : ℝ)) ∧ (den a env < 0 → c.den = 1)
  | op .pow a b, env => DiffOK a env ∧ DiffOK b env ∧ 0 < den a env
  | neg a, env => DiffOK a env
  | fn0 n, _ => n = "pi"
  | fn1 n a, env =>
      n ∈ knownFn1 ∧ ((n = "sqrt" ∧ a.isConst = true) ∨ (DiffOK a env ∧ fn1OK n (den a env)))
  | integral .., _ => False
  | evalAt .., _ => False
  | Expr.deriv .., _ => False

end Holpy.C19
