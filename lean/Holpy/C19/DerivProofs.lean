import Holpy.C19.DerivProofs2
/-
C19 — `deriv_correct_aux`: on the closed-form fragment, at a point where the expression is defined and
differentiable (`DiffOK`), the value of the model derivative `derivM v e` is the derivative in `v` of the value.
-/
namespace Holpy.C19

open Expr

/-- The statement proved for every expression (induction on the size). -/
def HD (v : String) (env : String → ℝ) (e : Expr) : Prop :=
  DiffOK e env →
    HasDerivAt (fun t => den e (Function.update env v t)) (den (derivM v e) env) (env v)

set_option linter.unusedSimpArgs false

/-- Unfold the model derivative and the denotation, given facts about `containsVar` etc. -/
macro "unfold_model" "[" ts:Lean.Parser.Tactic.simpLemma,* "]" : tactic =>
  `(tactic| simp only [derivM, den, Rat.cast_intCast, Int.cast_zero, Int.cast_one, Int.cast_ofNat,
      Rat.cast_sub, Rat.cast_zero, Rat.cast_one, Rat.cast_neg, Rat.cast_div, Rat.cast_ofNat,
      Bool.not_true, Bool.not_false, Bool.false_eq_true, if_true, if_false, beq_self_eq_true,
      fn1Den_sin, fn1Den_cos, fn1Den_tan, fn1Den_cot, fn1Den_sec, fn1Den_csc, fn1Den_exp, fn1Den_log,
      fn1Den_sqrt, fn1Den_atan, fn1Den_asin, fn1Den_acos, fn1Den_acot, $ts,*])

section Cases
variable {v : String} {env : String → ℝ} {x y : Expr}

theorem dc_var (n : String) : HD v env (var n) := by
  intro _
  by_cases hn : n = v
  · subst hn
    unfold_model [Function.update_self]
    exact hasDerivAt_id' _
  · have hb : (n == v) = false := by simpa using hn
    unfold_model [Function.update_of_ne hn, hb]
    exact hasDerivAt_const (env v) (_ : ℝ)

theorem dc_const (q : Rat) : HD v env (const q) := by
  intro _
  unfold_model []
  exact hasDerivAt_const (env v) (_ : ℝ)

theorem dc_fn0 (n : String) : HD v env (fn0 n) := by
  intro h
  simp only [DiffOK] at h
  subst h
  unfold_model []
  exact hasDerivAt_const (env v) (_ : ℝ)

theorem dc_add (hx : HD v env x) (hy : HD v env y) : HD v env (add x y) := by
  intro h
  simp only [DiffOK] at h
  unfold_model []
  exact hd_add (hx h.1) (hy h.2)

theorem dc_sub (hx : HD v env x) (hy : HD v env y) : HD v env (sub x y) := by
  intro h
  simp only [DiffOK] at h
  unfold_model []
  exact hd_sub (hx h.1) (hy h.2)

theorem dc_neg (hx : HD v env x) : HD v env (neg x) := by
  intro h
  simp only [DiffOK] at h
  unfold_model []
  exact hd_neg (hx h)

theorem dc_mul (hx : HD v env x) (hy : HD v env y) : HD v env (mul x y) := by
  intro h
  simp only [DiffOK] at h
  rcases Bool.eq_false_or_eq_true (x.containsVar v) with hxv | hxv
  · rcases Bool.eq_false_or_eq_true (y.containsVar v) with hyv | hyv
    · unfold_model [hxv, hyv]
      exact hd_mul (hx h.1) (hy h.2) (den_at v env x) (den_at v env y)
    · unfold_model [hxv, hyv]
      exact hd_mul_right (hx h.1) (hd_free (Closed_of_DiffOK h.2) hyv) (den_at v env y)
  · unfold_model [hxv]
    exact hd_mul_left (hd_free (Closed_of_DiffOK h.1) hxv) (hy h.2) (den_at v env x)

theorem dc_pow (hx : HD v env x) (hy : HD v env y) : HD v env (pow x y) := by
  intro h
  by_cases hc : ∃ c, y = const c
  · obtain ⟨c, rfl⟩ := hc
    simp only [DiffOK] at h
    unfold_model [powRule]
    exact hd_pow_const (hx h.1) (den_at v env x) h.2.1
  · have hc' : ∀ c, y ≠ const c := fun c hcc => hc ⟨c, hcc⟩
    rw [DiffOK_pow_nonconst hc'] at h
    obtain ⟨h1, h2, h3⟩ := h
    rcases Bool.eq_false_or_eq_true (y.containsVar v) with hyv | hyv
    · rcases Bool.eq_false_or_eq_true (x.containsVar v) with hxv | hxv
      · unfold_model [powRule_nonconst hc', hxv, hyv]
        exact hd_pow_general (hx h1) (hy h2) (den_at v env x) (den_at v env y) h3
      · unfold_model [powRule_nonconst hc', hxv, hyv]
        exact hd_pow_basefree (hd_free (Closed_of_DiffOK h1) hxv) (hy h2) (den_at v env x)
          (den_at v env y) h3
    · unfold_model [powRule_nonconst hc', hyv]
      exact hd_pow_expfree (hx h1) (hd_free (Closed_of_DiffOK h2) hyv) (den_at v env x)
        (den_at v env y) h3

theorem dc_fn1 (n : String) (hx : HD v env x) : HD v env (fn1 n x) := by
  intro h
  simp only [DiffOK] at h
  obtain ⟨hn, h⟩ := h
  rcases h with ⟨rfl, hc⟩ | ⟨h1, h2⟩
  · obtain ⟨c, rfl⟩ : ∃ c, x = const c := by
      cases x <;> simp [isConst] at hc
      exact ⟨_, rfl⟩
    unfold_model [fn1Rule_sqrt, isConst]
    exact hasDerivAt_const (env v) (_ : ℝ)
  · simp only [knownFn1, List.mem_cons, List.not_mem_nil, or_false] at hn
    rcases hn with rfl | rfl | rfl | rfl | rfl | rfl | rfl | rfl | rfl | rfl | rfl | rfl | rfl
    · unfold_model [fn1Rule_sin]
      exact hd_sin (hx h1) (den_at v env x)
    · unfold_model [fn1Rule_cos]
      exact hd_cos (hx h1) (den_at v env x)
    · unfold_model [fn1Rule_tan]
      exact hd_tan (hx h1) (den_at v env x) ((fn1OK_tan _).mp h2)
    · unfold_model [fn1Rule_sec]
      exact hd_sec (hx h1) (den_at v env x) ((fn1OK_sec _).mp h2)
    · unfold_model [fn1Rule_csc]
      exact hd_csc (hx h1) (den_at v env x) ((fn1OK_csc _).mp h2)
    · unfold_model [fn1Rule_cot]
      exact hd_cot (hx h1) (den_at v env x) ((fn1OK_cot _).mp h2)
    · unfold_model [fn1Rule_log]
      exact hd_log (hx h1) (den_at v env x) ((fn1OK_log _).mp h2)
    · unfold_model [fn1Rule_exp]
      exact hd_exp (hx h1) (den_at v env x)
    · rcases Bool.eq_false_or_eq_true x.isConst with hc | hc
      · obtain ⟨c, rfl⟩ : ∃ c, x = const c := by
          cases x <;> simp [isConst] at hc
          exact ⟨_, rfl⟩
        unfold_model [fn1Rule_sqrt, isConst]
        exact hasDerivAt_const (env v) (_ : ℝ)
      · unfold_model [fn1Rule_sqrt, hc]
        exact hd_sqrt (hx h1) (den_at v env x) ((fn1OK_sqrt _).mp h2)
    · unfold_model [fn1Rule_atan]
      exact hd_atan (hx h1) (den_at v env x)
    · unfold_model [fn1Rule_asin]
      exact hd_asin (hx h1) (den_at v env x) ((fn1OK_asin _).mp h2)
    · unfold_model [fn1Rule_acos]
      exact hd_acos (hx h1) (den_at v env x) ((fn1OK_acos _).mp h2)
    · unfold_model [fn1Rule_acot]
      exact hd_acot (hx h1) (den_at v env x)

theorem derivM_div_general (hyv : y.containsVar v = true)
    (hp : ¬ ∃ y0 y1, y = pow y0 y1 ∧ x.containsVar v = false) :
    derivM v (div x y) =
      div (sub (mul (derivM v x) y) (mul x (derivM v y))) (pow y (num 2)) := by
  cases y with
  | op o y0 y1 =>
    cases o with
    | pow =>
      have hxv : x.containsVar v = true := by
        rcases Bool.eq_false_or_eq_true (x.containsVar v) with h | h
        · exact h
        · exact absurd ⟨y0, y1, rfl, h⟩ hp
      simp only [derivM, hyv, hxv, Bool.not_true, Bool.false_eq_true, if_false]
    | _ => simp only [derivM, hyv, Bool.not_true, Bool.false_eq_true, if_false]
  | _ => simp only [derivM, hyv, Bool.not_true, Bool.false_eq_true, if_false]

theorem dc_div (hx : HD v env x) (hy : HD v env y)
    (hsub : ∀ y0 y1, y = pow y0 y1 → HD v env y0 ∧ HD v env y1) : HD v env (div x y) := by
  intro h
  simp only [DiffOK] at h
  obtain ⟨h1, h2, h3⟩ := h
  rcases Bool.eq_false_or_eq_true (y.containsVar v) with hyv | hyv
  · by_cases hp : ∃ y0 y1, y = pow y0 y1 ∧ x.containsVar v = false
    · obtain ⟨y0, y1, rfl, hxv⟩ := hp
      obtain ⟨hy0, hy1⟩ := hsub y0 y1 rfl
      have hxf := hd_free (env := env) (Closed_of_DiffOK h1) hxv
      have hn : ∀ c, neg y1 ≠ const c := fun c hc => by cases hc
      rcases Bool.eq_false_or_eq_true (y1.containsVar v) with hy1v | hy1v
      · -- the exponent contains the variable (so it is not a constant)
        have hc' : ∀ c, y1 ≠ const c := by
          intro c hc; subst hc; simp [containsVar, getVars] at hy1v
        rw [DiffOK_pow_nonconst hc'] at h2
        obtain ⟨g1, g2, g3⟩ := h2
        rcases Bool.eq_false_or_eq_true (y0.containsVar v) with hy0v | hy0v
        · unfold_model [powRule_nonconst hn, containsVar_neg, hyv, hxv, hy1v, hy0v]
          exact hd_div_pow_general hxf (hy0 g1) (hy1 g2) (den_at v env x) (den_at v env y0)
            (den_at v env y1) g3
        · unfold_model [powRule_nonconst hn, containsVar_neg, hyv, hxv, hy1v, hy0v]
          exact hd_div_pow_basefree hxf (hd_free (Closed_of_DiffOK g1) hy0v) (hy1 g2)
            (den_at v env x) (den_at v env y0) (den_at v env y1) g3
      · by_cases hc : ∃ c, y1 = const c
        · obtain ⟨c, rfl⟩ := hc
          simp only [DiffOK] at h2
          obtain ⟨g1, g2, g3⟩ := h2
          simp only [den] at h3 g2 g3
          have h0 : den y0 env ≠ 0 := by
            intro h0
            rcases g2 with g2 | g2
            · exact g2 h0
            · rw [h0, Real.zero_rpow (by linarith)] at h3
              exact h3 rfl
          have hp : 0 < den y0 env ∨ ∃ n : ℤ, (c : ℝ) = n := by
            rcases lt_or_gt_of_ne h0 with hneg | hpos
            · right
              refine ⟨c.num, ?_⟩
              have := Rat.coe_int_num_of_den_eq_one (g3 hneg)
              rw [← Rat.cast_intCast, this]
            · exact Or.inl hpos
          unfold_model [powRule_nonconst hn, containsVar_neg, hyv, hxv, hy1v]
          exact hd_div_pow_expfree hxf (hy0 g1) (den_at v env x) (den_at v env y0) h0 hp
        · have hc' : ∀ c, y1 ≠ const c := fun c hcc => hc ⟨c, hcc⟩
          rw [DiffOK_pow_nonconst hc'] at h2
          obtain ⟨g1, g2, g3⟩ := h2
          unfold_model [powRule_nonconst hn, containsVar_neg, hyv, hxv, hy1v]
          exact hd_div_pow_expfree' hxf (hy0 g1) (hd_free (Closed_of_DiffOK g2) hy1v)
            (den_at v env x) (den_at v env y0) (den_at v env y1) g3
    · rw [derivM_div_general hyv hp]
      unfold_model []
      exact hd_div (hx h1) (hy h2) (den_at v env x) (den_at v env y) h3
  · unfold_model [hyv]
    exact hd_div_right (hx h1) (hd_free (Closed_of_DiffOK h2) hyv) (den_at v env y) h3

end Cases

/-- **C19 `deriv_correct` (core).**  If `e` is in the closed-form fragment and defined / differentiable at
`env` (`DiffOK`), the value of the model derivative `derivM v e` is the derivative, in the variable `v`, of the
value of `e`. -/
theorem deriv_correct_aux (v : String) (e : Expr) (env : String → ℝ) (h : DiffOK e env) :
    HasDerivAt (fun x => den e (Function.update env v x)) (den (derivM v e) env) (env v) := by
  have main : ∀ n : ℕ, ∀ e : Expr, sizeOf e < n → HD v env e := by
    intro n
    induction n with
    | zero => intro e he; exact absurd he (Nat.not_lt_zero _)
    | succ n ih =>
      intro e he
      cases e with
      | var m => exact dc_var m
      | const q => exact dc_const q
      | op o a b =>
        simp only [Expr.op.sizeOf_spec] at he
        have ha : HD v env a := ih a (by omega)
        have hb : HD v env b := ih b (by omega)
        cases o with
        | add => exact dc_add ha hb
        | sub => exact dc_sub ha hb
        | mul => exact dc_mul ha hb
        | pow => exact dc_pow ha hb
        | div =>
          refine dc_div ha hb ?_
          rintro y0 y1 rfl
          simp only [Expr.op.sizeOf_spec] at he
          exact ⟨ih y0 (by omega), ih y1 (by omega)⟩
      | neg a =>
        simp only [Expr.neg.sizeOf_spec] at he
        exact dc_neg (ih a (by omega))
      | fn0 m => exact dc_fn0 m
      | fn1 m a =>
        simp only [Expr.fn1.sizeOf_spec] at he
        exact dc_fn1 m (ih a (by omega))
      | integral t lo hi b => intro h; simp only [DiffOK] at h
      | evalAt t lo hi b => intro h; simp only [DiffOK] at h
      | deriv t b => intro h; simp only [DiffOK] at h
  exact main (sizeOf e + 1) e (Nat.lt_succ_self _) h


end Holpy.C19
