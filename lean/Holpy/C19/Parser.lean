import Holpy.C19.Model
/-
C19 — model of the expression grammar of `integral/parser.py` (Lark, LALR, conflicts resolved by shifting) for
the node kinds of `Model.Expr`, a lexer for the strings the printer produces, and the printer as a token list.

  atom   : CNAME | INT | DECIMAL | "D" CNAME "." expr | "pi" | "G" | CNAME "(" expr ")" | "(" expr ")"
         | "INT" CNAME ":[" expr "," expr "]." expr | "[" expr "]_" CNAME "=" expr "," expr
  uminus : "-" uminus | atom
  pow    : pow "^" uminus | "-" atom "^" uminus | uminus          (shift on `"-" atom . "^"`)
  times  : times ("*"|"/") pow | pow
  plus   : plus ("+"|"-") times | times
with the transformer's folding: `c1 / c2` of two constants is a rational constant; `- c` of a positive constant
is a negative constant.  Not modelled (the model parser fails): relations, `oo`, limits, sums, indefinite
integrals, Skolem terms, functions of several arguments, `|x|`, `$x$`.
-/
namespace Holpy.C19

open Expr

inductive Tok where
  | id (s : String)        -- CNAME (keywords included; the parser tells them apart)
  | nat (n : Nat)          -- INT
  | dec (q : Rat)          -- DECIMAL
  | sym (s : String)       -- punctuation / operator literal
  deriving DecidableEq, Repr, Inhabited

/-! ## Lexer -/

def isIdStart (c : Char) : Bool := c.isAlpha || c == '_'
def isIdChar (c : Char) : Bool := c.isAlphanum || c == '_'

/-- String literals of the grammar, longest first (Lark tries longer literals first). -/
def literals : List String :=
  ["-inf", "-oo", ":[", "].", "]_", "->", "-}", "+}", "!=", ">=", "<=",
   "(", ")", ",", ".", "[", "]", "=", "{", "}", "^", "*", "/", "+", "-", ">", "<", "|", "$"]

def natOfDigits (cs : List Char) : Nat := cs.foldl (fun acc c => acc * 10 + (c.toNat - '0'.toNat)) 0

def startsWith (cs : List Char) (p : List Char) : Bool := p.isPrefixOf cs

/-- One token from the front of the input; `none` at an unknown character. -/
def lexOne (cs : List Char) : Option (Tok × List Char) :=
  match cs with
  | [] => none
  | c :: _ =>
    if isIdStart c then
      let w := cs.takeWhile isIdChar
      some (.id (String.ofList w), cs.drop w.length)
    else if c.isDigit then
      let d := cs.takeWhile Char.isDigit
      let rest := cs.drop d.length
      match rest with
      | '.' :: rest' =>
        -- DECIMAL: INT "." INT?
        let f := rest'.takeWhile Char.isDigit
        some (.dec ((natOfDigits (d ++ f) : Rat) / ((10 ^ f.length : Nat) : Rat)), rest'.drop f.length)
      | _ => some (.nat (natOfDigits d), rest)
    else
      match literals.find? (fun l => startsWith cs l.toList) with
      | some l => some (.sym l, cs.drop l.length)
      | none => none

def isWs (c : Char) : Bool := c == ' ' || c == '\t' || c == '\n' || c == '\r' || c == '\x0c'

def lexAux : Nat → List Char → List Tok → Option (List Tok)
  | 0, _, _ => none
  | fuel + 1, cs, acc =>
    let cs := cs.dropWhile isWs
    if cs.isEmpty then some acc.reverse
    else
      match lexOne cs with
      | some (t, rest) => lexAux fuel rest (t :: acc)
      | none => none

def lex (s : String) : Option (List Tok) := lexAux (s.length + 1) s.toList []

/-! ## The printer as a token list (same bracket decisions as `pp`) -/

def ratToks (q : Rat) : List Tok :=
  let sign := if q.num < 0 then [Tok.sym "-"] else []
  if q.den == 1 then sign ++ [.nat q.num.natAbs]
  else sign ++ [.nat q.num.natAbs, .sym "/", .nat q.den]

def parenT (ts : List Tok) : List Tok := [.sym "("] ++ ts ++ [.sym ")"]

def ppT : Expr → List Tok
  | var n => [.id n]
  | const q => ratToks q
  | neg a => [.sym "-"] ++ (if prio a < 80 then parenT (ppT a) else ppT a)
  | op o a b =>
    match o, a, b with
    | .div, const qa, const qb =>
      if qa.den == 1 && qb.den == 1 then ratToks qa ++ [.sym "/"] ++ ratToks qb
      else
        let s1 := if prio a < opPrio o then parenT (ppT a) else ppT a
        let s2 := if prio b ≤ opPrio o then parenT (ppT b) else ppT b
        s1 ++ [.sym (opStr o)] ++ s2
    | _, _, _ =>
      let s1 := if prio a < opPrio o then parenT (ppT a) else ppT a
      let s2 := if prio b ≤ opPrio o then parenT (ppT b) else ppT b
      let s1 := if prio a > opPrio o && isNeg a && o == .pow then parenT s1 else s1
      s1 ++ [.sym (opStr o)] ++ s2
  | fn0 n => [.id n]
  | fn1 n a => [.id n, .sym "("] ++ ppT a ++ [.sym ")"]
  | integral v lo hi b => [.id "INT", .id v, .sym ":["] ++ ppT lo ++ [.sym ","] ++ ppT hi ++ [.sym "]."] ++ ppT b
  | evalAt v lo hi b => [.sym "["] ++ ppT b ++ [.sym "]_", .id v, .sym "="] ++ ppT lo ++ [.sym ","] ++ ppT hi
  | deriv v b => [.id "D", .id v, .sym "."] ++ ppT b

/-! ## Parser -/

/-- `uminus_expr` of the transformer. -/
def mkNeg (a : Expr) : Expr :=
  match a with
  | const q => if q > 0 then const (-q) else neg a
  | _ => neg a

/-- `divides_expr` of the transformer; `none` for a zero constant denominator (Python: ZeroDivisionError). -/
def mkDiv (a b : Expr) : Option Expr :=
  match a, b with
  | const qa, const qb => if qb == 0 then none else some (const (qa / qb))
  | _, _ => some (div a b)

def keywords : List String := ["D", "pi", "G", "inf", "oo", "INT", "DIFF", "LIM"]

mutual

/-- atom -/
def parseAtom : Nat → List Tok → Option (Expr × List Tok)
  | 0, _ => none
  | fuel + 1, ts =>
    match ts with
    | .nat n :: rest => some (const (n : Rat), rest)
    | .dec q :: rest => some (const q, rest)
    | .sym "(" :: rest =>
      match parsePlus fuel rest with
      | some (e, .sym ")" :: rest') => some (e, rest')
      | _ => none
    | .sym "[" :: rest =>
      match parsePlus fuel rest with
      | some (b, .sym "]_" :: .id v :: .sym "=" :: rest1) =>
        if keywords.contains v then none else
        match parsePlus fuel rest1 with
        | some (lo, .sym "," :: rest2) =>
          match parsePlus fuel rest2 with
          | some (hi, rest3) => some (evalAt v lo hi b, rest3)
          | none => none
        | _ => none
      | _ => none
    | .id "pi" :: rest => some (fn0 "pi", rest)
    | .id "G" :: rest => some (fn0 "G", rest)
    | .id "D" :: .id v :: .sym "." :: rest =>
      if keywords.contains v then none else
      match parsePlus fuel rest with
      | some (b, rest') => some (deriv v b, rest')
      | none => none
    | .id "INT" :: .id v :: .sym ":[" :: rest =>
      if keywords.contains v then none else
      match parsePlus fuel rest with
      | some (lo, .sym "," :: rest1) =>
        match parsePlus fuel rest1 with
        | some (hi, .sym "]." :: rest2) =>
          match parsePlus fuel rest2 with
          | some (b, rest3) => some (integral v lo hi b, rest3)
          | none => none
        | _ => none
      | _ => none
    | .id n :: .sym "(" :: rest =>
      if keywords.contains n then none else
      match parsePlus fuel rest with
      | some (a, .sym ")" :: rest') => some (fn1 n a, rest')
      | _ => none
    | .id n :: rest => if keywords.contains n then none else some (var n, rest)
    | _ => none

/-- uminus : "-" uminus | atom -/
def parseUminus : Nat → List Tok → Option (Expr × List Tok)
  | 0, _ => none
  | fuel + 1, ts =>
    match ts with
    | .sym "-" :: rest =>
      match parseUminus fuel rest with
      | some (a, rest') => some (mkNeg a, rest')
      | none => none
    | _ => parseAtom fuel ts

/-- pow "^" uminus  (left associative tail) -/
def parsePowLoop : Nat → Expr → List Tok → Option (Expr × List Tok)
  | 0, _, _ => none
  | fuel + 1, acc, ts =>
    match ts with
    | .sym "^" :: rest =>
      match parseUminus fuel rest with
      | some (b, rest') => parsePowLoop fuel (pow acc b) rest'
      | none => none
    | _ => some (acc, ts)

/-- pow : pow "^" uminus | "-" atom "^" uminus | uminus -/
def parsePow : Nat → List Tok → Option (Expr × List Tok)
  | 0, _ => none
  | fuel + 1, ts =>
    match ts with
    | .sym "-" :: .sym "-" :: _ =>
      match parseUminus fuel ts with
      | some (a, rest) => parsePowLoop fuel a rest
      | none => none
    | .sym "-" :: rest =>
      match parseAtom fuel rest with
      | some (a, .sym "^" :: rest') =>
        -- LALR shifts "^" after `"-" atom`:  -(a ^ u)
        match parseUminus fuel rest' with
        | some (u, rest'') => parsePowLoop fuel (neg (pow a u)) rest''
        | none => none
      | some (a, rest') => parsePowLoop fuel (mkNeg a) rest'
      | none => none
    | _ =>
      match parseUminus fuel ts with
      | some (a, rest) => parsePowLoop fuel a rest
      | none => none

def parseTimesLoop : Nat → Expr → List Tok → Option (Expr × List Tok)
  | 0, _, _ => none
  | fuel + 1, acc, ts =>
    match ts with
    | .sym "*" :: rest =>
      match parsePow fuel rest with
      | some (b, rest') => parseTimesLoop fuel (mul acc b) rest'
      | none => none
    | .sym "/" :: rest =>
      match parsePow fuel rest with
      | some (b, rest') =>
        match mkDiv acc b with
        | some e => parseTimesLoop fuel e rest'
        | none => none
      | none => none
    | _ => some (acc, ts)

def parseTimes : Nat → List Tok → Option (Expr × List Tok)
  | 0, _ => none
  | fuel + 1, ts =>
    match parsePow fuel ts with
    | some (a, rest) => parseTimesLoop fuel a rest
    | none => none

def parsePlusLoop : Nat → Expr → List Tok → Option (Expr × List Tok)
  | 0, _, _ => none
  | fuel + 1, acc, ts =>
    match ts with
    | .sym "+" :: rest =>
      match parseTimes fuel rest with
      | some (b, rest') => parsePlusLoop fuel (add acc b) rest'
      | none => none
    | .sym "-" :: rest =>
      match parseTimes fuel rest with
      | some (b, rest') => parsePlusLoop fuel (sub acc b) rest'
      | none => none
    | _ => some (acc, ts)

def parsePlus : Nat → List Tok → Option (Expr × List Tok)
  | 0, _ => none
  | fuel + 1, ts =>
    match parseTimes fuel ts with
    | some (a, rest) => parsePlusLoop fuel a rest
    | none => none

end

/-- Parse a whole token list. -/
def parseToks (ts : List Tok) : Option Expr :=
  match parsePlus (8 * ts.length + 8) ts with
  | some (e, []) => some e
  | _ => none

def parseStr (s : String) : Option Expr :=
  match lex s with
  | some ts => parseToks ts
  | none => none

end Holpy.C19
