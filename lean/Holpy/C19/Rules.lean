import Holpy.C19.Model
/-
C19 — executable models of three more rules of `integral/rules.py` (import-free; linked into the driver).

* `substM`  — `Substitution(u, g).eval` on a definite integral, first branch (the substitution clears the old
              variable).  The rule computes `body' = normalize(body / deriv(x, g))`; `normalize` is not modelled, so
              its *result* `q` is an oracle argument of the model (the harness records it from the real run; the
              theorem holds for every `q` with the value of `body / g'`).  Then `f = q.replace(g, u)`; if `x` still
              occurs the rule goes on to solve `g = u` for `x` (not modelled: the model returns the input).  The new
              bounds are `g(a)`, `g(b)` (the rule computes them as limits `x -> a+`, `x -> b-` and normalises); when
              the rule finds numerically that the lower bound exceeds the upper one it swaps them and negates the
              integrand — `swap` is the second oracle argument.
* `partsM`  — `IntegrationByParts(u, v).eval` on a definite integral *after* its acceptance test
              `normalize(u * deriv v) == body`: `[u * v]_a^b - INT v * deriv(u)`.
* `ftcM`    — the shape `DefiniteIntegralIdentity` produces from an antiderivative `F` found in the table:
              `INT x:[a,b]. f  ~>  [F]_x=a,b`.
-/
namespace Holpy.C19

open Expr

/-- `Expr.replace(pat, rep)`: replace every occurrence of `pat` (outermost first, no descent into a replaced one).
The Python compares with `==` (alpha-equivalence on integrals); the model compares structurally. -/
def replaceE (pat rep : Expr) : Expr → Expr
  | var n => if var n == pat then rep else var n
  | const q => if const q == pat then rep else const q
  | op o a b => if op o a b == pat then rep else op o (replaceE pat rep a) (replaceE pat rep b)
  | neg a => if neg a == pat then rep else neg (replaceE pat rep a)
  | fn0 n => if fn0 n == pat then rep else fn0 n
  | fn1 n a => if fn1 n a == pat then rep else fn1 n (replaceE pat rep a)
  | integral v lo hi b =>
    if integral v lo hi b == pat then rep
    else integral v (replaceE pat rep lo) (replaceE pat rep hi) (replaceE pat rep b)
  | evalAt v lo hi b =>
    if evalAt v lo hi b == pat then rep
    else evalAt v (replaceE pat rep lo) (replaceE pat rep hi) (replaceE pat rep b)
  | deriv v b => if deriv v b == pat then rep else deriv v (replaceE pat rep b)

/-- `Substitution(u, g).eval(INT x:[a,b]. body)`; `q` = the rule's `normalize(body / deriv(x, g))`, `swap` = whether
the rule found the new lower bound numerically above the new upper one. -/
def substM (u : String) (g q : Expr) (swap : Bool) : Expr → Expr
  | integral x a b body =>
    if !(g.containsVar x) then integral x a b body          -- Python: AssertionError "variable not found"
    else
      let f := replaceE g (var u) q
      if f.containsVar x then integral x a b body           -- second branch (solve g = u for x): not modelled
      else
        let lo := subst x a g
        let hi := subst x b g
        if swap then integral u hi lo (neg f) else integral u lo hi f
  | e => e

/-- `IntegrationByParts(u, v).eval(INT x:[a,b]. body)` once accepted. -/
def partsM (u v : Expr) : Expr → Expr
  | integral x a b _ => sub (evalAt x a b (mul u v)) (integral x a b (mul v (derivM x u)))
  | e => e

/-- `INT x:[a,b]. f  ~>  [F]_x=a,b`. -/
def ftcM (F : Expr) : Expr → Expr
  | integral x a b _ => evalAt x a b F
  | e => e

/-! ## More of `integral/interval.py`: monotone functions, containment, intersection -/

/-- An endpoint that may be `sqrt`/`exp`/`log` of a rational (the Python keeps the unevaluated constant). -/
inductive SBound where
  | negInf
  | posInf
  | fin (q : Rat)
  | app (f : String) (q : Rat)
  deriving DecidableEq, Repr, Inhabited

structure SIval where
  lo : SBound
  hi : SBound
  lopen : Bool
  ropen : Bool
  deriving DecidableEq, Repr, Inhabited

namespace Ival

/-- `Interval.sqrt` (with fix C19-9: a lower end below zero gives the attained value 0). -/
def sqrtI (a : Ival) : SIval :=
  let lo : SBound × Bool := match a.lo with
    | .negInf => (.fin 0, false)
    | .fin s => if s ≤ 0 then (.fin 0, if s < 0 then false else a.lopen) else (.app "sqrt" s, a.lopen)
    | .posInf => (.posInf, a.lopen)
  let hi : SBound := match a.hi with
    | .posInf => .posInf
    | .fin e => .app "sqrt" e
    | .negInf => .negInf
  ⟨lo.1, hi, lo.2, a.ropen⟩

/-- `Interval.exp`. -/
def expI (a : Ival) : SIval :=
  let lo : SBound := match a.lo with
    | .negInf => .fin 0
    | .fin s => .app "exp" s
    | .posInf => .posInf
  let hi : SBound := match a.hi with
    | .posInf => .posInf
    | .fin e => .app "exp" e
    | .negInf => .fin 0
  ⟨lo, hi, a.lopen, a.ropen⟩

/-- `Interval.log`. -/
def logI (a : Ival) : SIval :=
  let lo : SBound := match a.lo with
    | .negInf => .negInf
    | .fin s => if s ≤ 0 then .negInf else .app "log" s
    | .posInf => .posInf
  let hi : SBound := match a.hi with
    | .posInf => .posInf
    | .fin e => .app "log" e
    | .negInf => .negInf
  ⟨lo, hi, a.lopen, a.ropen⟩

def isFin : Bound → Bool
  | .fin _ => true
  | _ => false

/-- `Interval.contained_in` on exact endpoints (the Python compares floats with a tolerance of 1e-16; at equal
infinite endpoints its flag test compares `nan` and never fires). -/
def containedIn (a b : Ival) : Bool :=
  if Bound.lt a.lo b.lo then false
  else if a.lo == b.lo && isFin a.lo && !a.lopen && b.lopen then false
  else if Bound.lt b.hi a.hi then false
  else if a.hi == b.hi && isFin a.hi && !a.ropen && b.ropen then false
  else true

/-- `Interval.intersection`. -/
def inter (a b : Ival) : Ival :=
  let lo : Bound × Bool :=
    if Bound.lt b.lo a.lo then (a.lo, a.lopen)
    else if Bound.lt a.lo b.lo then (b.lo, b.lopen)
    else (a.lo, a.lopen || b.lopen)
  let hi : Bound × Bool :=
    if Bound.lt a.hi b.hi then (a.hi, a.ropen)
    else if Bound.lt b.hi a.hi then (b.hi, b.ropen)
    else (a.hi, a.ropen || b.ropen)
  ⟨lo.1, hi.1, lo.2, hi.2⟩

end Ival

end Holpy.C19
