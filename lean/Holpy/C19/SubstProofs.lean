import Holpy.C19.SubstProofs1
import Mathlib.MeasureTheory.Integral.IntervalIntegral.IntegrationByParts
/-
C19 — `substM_value`: under `SubstOK`, the u-substitution rule on a definite integral preserves the value.
-/
namespace Holpy.C19

open Expr MeasureTheory Set

/-- The analytic core: change of variables `s = g(t)` for the recorded quotient `q`. -/
theorem subst_change_of_var (u x : String) (g q a b body : Expr) (env : String → ℝ)
    (h : SubstOK u x g q a b body env)
    (hfx : (replaceE g (var u) q).containsVar x = false) :
    (∫ s in (den g (at' env x (den a env)))..(den g (at' env x (den b env))),
        den (replaceE g (var u) q) (at' env u s)) =
      ∫ t in (den a env)..(den b env), den body (at' env x t) := by
  obtain ⟨⟨hux, hqu, _⟩, ⟨hq, _⟩, gdiff, gcont, gnz, qval, fcont⟩ := h
  have hfcl : Closed (replaceE g (var u) q) := Closed_replaceE g u hq
  -- the inner function and its derivative
  have hderiv : ∀ t ∈ uIcc (den a env) (den b env),
      HasDerivAt (fun t => den g (at' env x t)) (den (derivM x g) (at' env x t)) t := by
    intro t ht
    have hd := deriv_correct_aux x g (at' env x t) (gdiff t ht)
    simpa only [at', Function.update_idem, Function.update_self] using hd
  -- the new integrand at `g(t)` is `q` at `t`
  have hcomp : ∀ t : ℝ,
      den (replaceE g (var u) q) (at' env u (den g (at' env x t))) = den q (at' env x t) := by
    intro t
    have h1 := den_replaceE g u (at' env x t) hq hqu
    have h2 : Function.update (at' env x t) u (den g (at' env x t)) =
        Function.update (at' env u (den g (at' env x t))) x t := by
      simp only [at']
      exact Function.update_comm (Ne.symm hux) _ _ _
    rw [h2, den_update_free t hfcl hfx] at h1
    exact h1
  have hcv := intervalIntegral.integral_comp_mul_deriv'
    (g := fun s => den (replaceE g (var u) q) (at' env u s)) hderiv gcont fcont
  rw [← hcv]
  apply intervalIntegral.integral_congr
  intro t ht
  simp only [Function.comp]
  rw [hcomp t, qval t ht, div_mul_cancel₀ _ (gnz t ht)]

/-- `Substitution(u, g)` on `INT x:[a,b]. body` preserves the value, under the side conditions `SubstOK`. -/
theorem substM_value (u x : String) (g q a b body : Expr) (swap : Bool) (env : String → ℝ)
    (h : SubstOK u x g q a b body env) :
    den (substM u g q swap (integral x a b body)) env = den (integral x a b body) env := by
  by_cases h1 : g.containsVar x = true
  · by_cases h2 : (replaceE g (var u) q).containsVar x = true
    · simp only [substM, h1, h2, Bool.not_true, if_true, Bool.false_eq_true, if_false]
    · have hfx : (replaceE g (var u) q).containsVar x = false := by simpa using h2
      have key := subst_change_of_var u x g q a b body env h hfx
      have hg : Closed g := h.closed.2
      have hlo : den (subst x a g) env = den g (at' env x (den a env)) := den_subst_closed x a env hg
      have hhi : den (subst x b g) env = den g (at' env x (den b env)) := den_subst_closed x b env hg
      cases swap with
      | false =>
        simp only [substM, h1, hfx, Bool.not_true, Bool.false_eq_true, if_false, den, hlo, hhi]
        exact key
      | true =>
        simp only [substM, h1, hfx, Bool.not_true, Bool.false_eq_true, if_false, if_true, den, hlo, hhi]
        rw [intervalIntegral.integral_neg, intervalIntegral.integral_symm, neg_neg]
        exact key
  · have h1' : g.containsVar x = false := by simpa using h1
    simp only [substM, h1', Bool.not_false, if_true]

end Holpy.C19
