import Holpy.C19.Parser
/-
C19 — round trip `parse ∘ print` on token lists: basic definitions and the "step lemmas" of the parser
(one per grammar production, in "for all sufficiently large fuel" form).
-/
namespace Holpy.C19

open Expr

/-- Well-formed = in the image of the parser's transformer. -/
def WF : Expr → Prop
  | .var n => n ∉ keywords
  | .const _ => True
  | .op o a b => ¬ (o = .div ∧ a.isConst = true ∧ b.isConst = true) ∧ WF a ∧ WF b
  | .neg a => (∀ q, a = .const q → ¬ (0 < q)) ∧ WF a
  | .fn0 n => n = "pi" ∨ n = "G"
  | .fn1 n a => n ∉ keywords ∧ WF a
  | .integral v lo hi b => v ∉ keywords ∧ WF lo ∧ WF hi ∧ WF b
  | .evalAt v lo hi b => v ∉ keywords ∧ WF lo ∧ WF hi ∧ WF b
  | .deriv v b => v ∉ keywords ∧ WF b

/-- `p fuel = some r` for all sufficiently large fuel. -/
def Ev {α : Type} (p : Nat → Option α) (r : α) : Prop := ∃ n, ∀ fuel, n ≤ fuel → p fuel = some r

/-- The token list does not start with the symbol `s`. -/
def NotHd (s : String) (ts : List Tok) : Prop := ∀ ts', ts ≠ Tok.sym s :: ts'

theorem notHd_nil (s : String) : NotHd s [] := by intro ts' h; cases h
theorem notHd_cons {s : String} {t : Tok} {ts : List Tok} (h : t ≠ Tok.sym s) : NotHd s (t :: ts) := by
  intro ts' h'; cases h'; exact h rfl

def stopAtom (ts : List Tok) : Prop := NotHd "(" ts
def stopPow (ts : List Tok) : Prop := NotHd "(" ts ∧ NotHd "^" ts
def stopTimes (ts : List Tok) : Prop := stopPow ts ∧ NotHd "*" ts ∧ NotHd "/" ts
def stopPlus (ts : List Tok) : Prop := stopTimes ts ∧ NotHd "+" ts ∧ NotHd "-" ts

/-! ## Step lemmas -/

theorem powLoop_stop (f : Nat) (acc : Expr) (ts : List Tok) (h : NotHd "^" ts) :
    parsePowLoop (f + 1) acc ts = some (acc, ts) := by
  unfold parsePowLoop
  split
  · exact absurd rfl (h _)
  · rfl

theorem timesLoop_stop (f : Nat) (acc : Expr) (ts : List Tok) (h1 : NotHd "*" ts) (h2 : NotHd "/" ts) :
    parseTimesLoop (f + 1) acc ts = some (acc, ts) := by
  unfold parseTimesLoop
  split
  · exact absurd rfl (h1 _)
  · exact absurd rfl (h2 _)
  · rfl

theorem plusLoop_stop (f : Nat) (acc : Expr) (ts : List Tok) (h1 : NotHd "+" ts) (h2 : NotHd "-" ts) :
    parsePlusLoop (f + 1) acc ts = some (acc, ts) := by
  unfold parsePlusLoop
  split
  · exact absurd rfl (h1 _)
  · exact absurd rfl (h2 _)
  · rfl

theorem atom_nat (f : Nat) (n : Nat) (rest : List Tok) :
    parseAtom (f + 1) (.nat n :: rest) = some (const (n : Rat), rest) := by
  unfold parseAtom; rfl

theorem atom_paren (f : Nat) (ts : List Tok) (e : Expr) (rest' : List Tok)
    (h : parsePlus f ts = some (e, .sym ")" :: rest')) :
    parseAtom (f + 1) (.sym "(" :: ts) = some (e, rest') := by
  rw [parseAtom, h]; rfl

theorem atom_var (f : Nat) (n : String) (rest : List Tok) (hn : n ∉ keywords) (hr : NotHd "(" rest) :
    parseAtom (f + 1) (.id n :: rest) = some (var n, rest) := by
  unfold parseAtom
  split <;> simp_all [keywords, NotHd]

theorem atom_fn0 (f : Nat) (n : String) (rest : List Tok) (hn : n = "pi" ∨ n = "G") :
    parseAtom (f + 1) (.id n :: rest) = some (fn0 n, rest) := by
  rcases hn with rfl | rfl <;> rw [parseAtom]

theorem atom_fn1 (f : Nat) (n : String) (ts : List Tok) (a : Expr) (rest' : List Tok) (hn : n ∉ keywords)
    (h : parsePlus f ts = some (a, .sym ")" :: rest')) :
    parseAtom (f + 1) (.id n :: .sym "(" :: ts) = some (fn1 n a, rest') := by
  unfold parseAtom
  split <;> simp_all [keywords]
  rename_i hx heq
  exact hx _ heq.2.symm

theorem atom_deriv (f : Nat) (v : String) (ts : List Tok) (b : Expr) (rest' : List Tok) (hv : v ∉ keywords)
    (h : parsePlus f ts = some (b, rest')) :
    parseAtom (f + 1) (.id "D" :: .id v :: .sym "." :: ts) = some (deriv v b, rest') := by
  rw [parseAtom]
  simp_all [keywords]

theorem atom_integral (f : Nat) (v : String) (ts ts1 ts2 : List Tok) (lo hi b : Expr) (rest' : List Tok)
    (hv : v ∉ keywords)
    (h1 : parsePlus f ts = some (lo, .sym "," :: ts1))
    (h2 : parsePlus f ts1 = some (hi, .sym "]." :: ts2))
    (h3 : parsePlus f ts2 = some (b, rest')) :
    parseAtom (f + 1) (.id "INT" :: .id v :: .sym ":[" :: ts) = some (integral v lo hi b, rest') := by
  rw [parseAtom]
  simp_all [keywords]

theorem atom_evalAt (f : Nat) (v : String) (ts ts1 ts2 : List Tok) (lo hi b : Expr) (rest' : List Tok)
    (hv : v ∉ keywords)
    (h1 : parsePlus f ts = some (b, .sym "]_" :: .id v :: .sym "=" :: ts1))
    (h2 : parsePlus f ts1 = some (lo, .sym "," :: ts2))
    (h3 : parsePlus f ts2 = some (hi, rest')) :
    parseAtom (f + 1) (.sym "[" :: ts) = some (evalAt v lo hi b, rest') := by
  rw [parseAtom]
  simp_all [keywords]

/-! ### uminus / pow / times / plus -/

theorem uminus_neg (f : Nat) (ts : List Tok) (a : Expr) (rest' : List Tok)
    (h : parseUminus f ts = some (a, rest')) :
    parseUminus (f + 1) (.sym "-" :: ts) = some (mkNeg a, rest') := by
  rw [parseUminus, h]

theorem uminus_atom (f : Nat) (ts : List Tok) (h : NotHd "-" ts) :
    parseUminus (f + 1) ts = parseAtom f ts := by
  unfold parseUminus
  split
  · exact absurd rfl (h _)
  · rfl

theorem powLoop_step (f : Nat) (acc : Expr) (ts : List Tok) (b : Expr) (rest' : List Tok)
    (h : parseUminus f ts = some (b, rest')) :
    parsePowLoop (f + 1) acc (.sym "^" :: ts) = parsePowLoop f (pow acc b) rest' := by
  rw [parsePowLoop, h]

theorem pow_mm (f : Nat) (ts : List Tok) (a : Expr) (rest : List Tok)
    (h : parseUminus f (.sym "-" :: .sym "-" :: ts) = some (a, rest)) :
    parsePow (f + 1) (.sym "-" :: .sym "-" :: ts) = parsePowLoop f a rest := by
  rw [parsePow, h]

theorem pow_m_atom (f : Nat) (ts : List Tok) (a : Expr) (rest' : List Tok) (hts : NotHd "-" ts)
    (h : parseAtom f ts = some (a, rest')) (hr : NotHd "^" rest') :
    parsePow (f + 1) (.sym "-" :: ts) = parsePowLoop f (mkNeg a) rest' := by
  unfold parsePow
  split
  · rename_i heq
    simp only [List.cons.injEq, true_and] at heq
    exact absurd heq (hts _)
  · rename_i heq
    simp only [List.cons.injEq, true_and] at heq
    subst heq
    rw [h]
    split
    · rename_i heq2
      simp only [Option.some.injEq, Prod.mk.injEq] at heq2
      exact absurd heq2.2 (hr _)
    · rename_i heq2
      simp only [Option.some.injEq, Prod.mk.injEq] at heq2
      rw [heq2.1, heq2.2]
    · rename_i heq2; cases heq2
  · rename_i h1 h2
    exact absurd rfl (h2 _)

theorem pow_u (f : Nat) (ts : List Tok) (a : Expr) (rest : List Tok) (hts : NotHd "-" ts)
    (h : parseUminus f ts = some (a, rest)) :
    parsePow (f + 1) ts = parsePowLoop f a rest := by
  unfold parsePow
  split
  · exact absurd rfl (hts _)
  · exact absurd rfl (hts _)
  · rw [h]

theorem timesLoop_mul (f : Nat) (acc : Expr) (ts : List Tok) (b : Expr) (rest' : List Tok)
    (h : parsePow f ts = some (b, rest')) :
    parseTimesLoop (f + 1) acc (.sym "*" :: ts) = parseTimesLoop f (mul acc b) rest' := by
  rw [parseTimesLoop, h]

theorem timesLoop_div (f : Nat) (acc : Expr) (ts : List Tok) (b e : Expr) (rest' : List Tok)
    (h : parsePow f ts = some (b, rest')) (hd : mkDiv acc b = some e) :
    parseTimesLoop (f + 1) acc (.sym "/" :: ts) = parseTimesLoop f e rest' := by
  rw [parseTimesLoop, h]; simp only [hd]

theorem times_step (f : Nat) (ts : List Tok) (a : Expr) (rest : List Tok)
    (h : parsePow f ts = some (a, rest)) :
    parseTimes (f + 1) ts = parseTimesLoop f a rest := by
  rw [parseTimes, h]

theorem plusLoop_add (f : Nat) (acc : Expr) (ts : List Tok) (b : Expr) (rest' : List Tok)
    (h : parseTimes f ts = some (b, rest')) :
    parsePlusLoop (f + 1) acc (.sym "+" :: ts) = parsePlusLoop f (add acc b) rest' := by
  rw [parsePlusLoop, h]

theorem plusLoop_sub (f : Nat) (acc : Expr) (ts : List Tok) (b : Expr) (rest' : List Tok)
    (h : parseTimes f ts = some (b, rest')) :
    parsePlusLoop (f + 1) acc (.sym "-" :: ts) = parsePlusLoop f (sub acc b) rest' := by
  rw [parsePlusLoop, h]

theorem plus_step (f : Nat) (ts : List Tok) (a : Expr) (rest : List Tok)
    (h : parseTimes f ts = some (a, rest)) :
    parsePlus (f + 1) ts = parsePlusLoop f a rest := by
  rw [parsePlus, h]

end Holpy.C19
