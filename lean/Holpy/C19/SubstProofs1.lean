import Holpy.C19.RulesSem
/-
C19 — syntactic lemmas for `substM_value`: value of a naive substitution into a closed-form expression, value of
`replaceE g (var u) e` when `u` is set to the value of `g`, and `replaceE` stays in the closed-form fragment.
-/
namespace Holpy.C19

open Expr

/-- Substitution lemma on the closed-form fragment (no binders, so the naive substitution is the right one). -/
theorem den_subst_closed (x : String) (r : Expr) (env : String → ℝ) :
    ∀ {e : Expr}, Closed e → den (subst x r e) env = den e (Function.update env x (den r env)) := by
  intro e
  induction e with
  | var n =>
    intro _
    by_cases h : n = x
    · subst h; simp [subst, den]
    · have hb : (n == x) = false := by simpa using h
      simp [subst, hb, den, Function.update_of_ne h]
  | const q => intro _; simp only [subst, den]
  | op o a b iha ihb => intro hcl; cases o <;> simp only [subst, den, iha hcl.1, ihb hcl.2]
  | neg a ih => intro hcl; simp only [subst, den, ih hcl]
  | fn0 n => intro _; simp only [subst, den]
  | fn1 n a ih => intro hcl; simp only [subst, den, ih hcl]
  | integral t lo hi b => intro h; exact h.elim
  | evalAt t lo hi b => intro h; exact h.elim
  | deriv t b => intro h; exact h.elim

theorem replaceE_self (rep e : Expr) : replaceE e rep e = rep := by
  cases e <;> simp [replaceE]

/-- Replacing `g` by a fresh variable `u` and giving `u` the value of `g` does not change the value. -/
theorem den_replaceE (g : Expr) (u : String) (env : String → ℝ) :
    ∀ {e : Expr}, Closed e → e.containsVar u = false →
      den (replaceE g (var u) e) (Function.update env u (den g env)) = den e env := by
  intro e
  induction e with
  | var n =>
    intro hcl hc
    by_cases h : var n = g
    · subst h; rw [replaceE_self]; simp only [den, Function.update_self]
    · simp only [replaceE, beq_iff_eq, h, if_false]
      exact den_update_free _ hcl hc
  | const q =>
    intro hcl hc
    by_cases h : const q = g
    · subst h; rw [replaceE_self]; simp only [den, Function.update_self]
    · simp only [replaceE, beq_iff_eq, h, if_false, den]
  | op o a b iha ihb =>
    intro hcl hc
    by_cases h : op o a b = g
    · subst h; rw [replaceE_self]; simp only [den, Function.update_self]
    · rw [containsVar_op, Bool.or_eq_false_iff] at hc
      have ha := iha hcl.1 hc.1
      have hb := ihb hcl.2 hc.2
      simp only [replaceE, beq_iff_eq, h, if_false]
      cases o <;> simp only [den, ha, hb]
  | neg a ih =>
    intro hcl hc
    by_cases h : neg a = g
    · subst h; rw [replaceE_self]; simp only [den, Function.update_self]
    · have ha := ih hcl hc
      simp only [replaceE, beq_iff_eq, h, if_false, den, ha]
  | fn0 n =>
    intro hcl hc
    by_cases h : fn0 n = g
    · subst h; rw [replaceE_self]; simp only [den, Function.update_self]
    · simp only [replaceE, beq_iff_eq, h, if_false, den]
  | fn1 n a ih =>
    intro hcl hc
    by_cases h : fn1 n a = g
    · subst h; rw [replaceE_self]; simp only [den, Function.update_self]
    · have ha := ih hcl hc
      simp only [replaceE, beq_iff_eq, h, if_false, den, ha]
  | integral t lo hi b => intro h; exact h.elim
  | evalAt t lo hi b => intro h; exact h.elim
  | deriv t b => intro h; exact h.elim

/-- `replaceE` by a variable stays inside the closed-form fragment. -/
theorem Closed_replaceE (g : Expr) (u : String) :
    ∀ {e : Expr}, Closed e → Closed (replaceE g (var u) e) := by
  intro e
  induction e with
  | var n => intro _; simp only [replaceE]; split <;> trivial
  | const q => intro _; simp only [replaceE]; split <;> trivial
  | op o a b iha ihb =>
    intro hcl; simp only [replaceE]; split
    · trivial
    · exact ⟨iha hcl.1, ihb hcl.2⟩
  | neg a ih =>
    intro hcl; simp only [replaceE]; split
    · trivial
    · exact ih hcl
  | fn0 n => intro _; simp only [replaceE]; split <;> trivial
  | fn1 n a ih =>
    intro hcl; simp only [replaceE]; split
    · trivial
    · exact ih hcl
  | integral t lo hi b => intro h; exact h.elim
  | evalAt t lo hi b => intro h; exact h.elim
  | deriv t b => intro h; exact h.elim

end Holpy.C19
