import Holpy.C19.Rules
import Holpy.C19.IvalSem
import Holpy.C19.DerivProofs
import Holpy.C19.IntegralProofs
/-
C19 — side conditions of `substitution_value`, `parts_value`, `ftc_value`, and the meaning of intervals whose
endpoints are `sqrt`/`exp`/`log` of rationals.
-/
namespace Holpy.C19

open Expr MeasureTheory Set

/-- The points the integration variable `x` ranges over in `INT x:[a,b]`. -/
def span (a b : Expr) (env : String → ℝ) : Set ℝ := uIcc (den a env) (den b env)

/-- `env` with the integration variable set to `t`. -/
abbrev at' (env : String → ℝ) (x : String) (t : ℝ) : String → ℝ := Function.update env x t

/-- What `Substitution(u, g)` relies on for `INT x:[a,b]. body` with recorded quotient `q`:
* `fresh`  — the new variable occurs neither in `q` nor in `g` and differs from `x`           (NOT checked by the code);
* `closed` — `q`, `g` are closed-form (no nested binders; a restriction of the theorem);
* `gdiff`  — `g` is inside its domain and differentiable on the interval     (NOT checked; `deriv` is purely symbolic);
* `gcont`  — the derivative is continuous on the interval                                      (NOT checked);
* `gnz`    — the derivative does not vanish on the interval, so `body = (body / g') * g'`      (NOT checked);
* `qval`   — `q = normalize(body / g')` has the value of `body / g'` on the interval   (normalize: numerical oracle only);
* `fcont`  — the new integrand is continuous on the image of the interval                      (NOT checked).
What the code does check is syntactic: `g` contains `x`, and `x` no longer occurs after replacing `g` by `u`. -/
structure SubstOK (u x : String) (g q a b body : Expr) (env : String → ℝ) : Prop where
  fresh : u ≠ x ∧ q.containsVar u = false ∧ g.containsVar u = false
  closed : Closed q ∧ Closed g
  gdiff : ∀ t ∈ span a b env, DiffOK g (at' env x t)
  gcont : ContinuousOn (fun t => den (derivM x g) (at' env x t)) (span a b env)
  gnz : ∀ t ∈ span a b env, den (derivM x g) (at' env x t) ≠ 0
  qval : ∀ t ∈ span a b env, den q (at' env x t) = den body (at' env x t) / den (derivM x g) (at' env x t)
  fcont : ContinuousOn (fun s => den (replaceE g (var u) q) (at' env u s))
            ((fun t => den g (at' env x t)) '' span a b env)

/-- What `IntegrationByParts(u, v)` relies on for `INT x:[a,b]. body`:
* `accept` — the integrand is `u * dv` (this is what the code's test `normalize(u * deriv v) == body` stands for);
* `udiff`, `vdiff` — `u`, `v` are inside their domains and differentiable on the interval         (NOT checked);
* `du_int`, `dv_int` — the derivatives are interval integrable                                    (NOT checked). -/
structure PartsOK (x : String) (u v a b body : Expr) (env : String → ℝ) : Prop where
  accept : ∀ t ∈ span a b env, den body (at' env x t) = den u (at' env x t) * den (derivM x v) (at' env x t)
  udiff : ∀ t ∈ span a b env, DiffOK u (at' env x t)
  vdiff : ∀ t ∈ span a b env, DiffOK v (at' env x t)
  du_int : IntervalIntegrable (fun t => den (derivM x u) (at' env x t)) volume (den a env) (den b env)
  dv_int : IntervalIntegrable (fun t => den (derivM x v) (at' env x t)) volume (den a env) (den b env)

/-- What replacing `INT x:[a,b]. f` by `[F]_x=a,b` relies on: `F` is inside its domain and differentiable on the
interval, its symbolic derivative has the value of `f` there, and `f` is interval integrable.  (The code looks `F` up
in a table of identities and checks nothing; the harness checks `deriv F = f` for every table entry it sees used.) -/
structure FtcOK (x : String) (F a b f : Expr) (env : String → ℝ) : Prop where
  fdiff : ∀ t ∈ span a b env, DiffOK F (at' env x t)
  deriv_eq : ∀ t ∈ span a b env, den (derivM x F) (at' env x t) = den f (at' env x t)
  f_int : IntervalIntegrable (fun t => den f (at' env x t)) volume (den a env) (den b env)

/-! ### Intervals with symbolic endpoints -/

/-- Value of a finite symbolic endpoint. -/
noncomputable def SBound.val : SBound → ℝ
  | .fin q => (q : ℝ)
  | .app f q => if f = "sqrt" then Real.sqrt q else if f = "exp" then Real.exp q else if f = "log" then Real.log q else 0
  | _ => 0

/-- Membership in an interval with symbolic endpoints (same conventions as `Ival.mem`). -/
def SIval.mem (I : SIval) (x : ℝ) : Prop :=
  (match I.lo with
   | .negInf => True
   | .posInf => False
   | b => if I.lopen then b.val < x else b.val ≤ x) ∧
  (match I.hi with
   | .posInf => True
   | .negInf => False
   | b => if I.ropen then x < b.val else x ≤ b.val)

end Holpy.C19
