/-
C19 — executable model of the logic cores of holpy's symbolic integration calculator
(`integral/expr.py`, `integral/rules.py: deriv`, `integral/interval.py`, `integral/parser.py`).

Import-free (core Lean only; linked into the `c19_model` driver).  Rationals are core `Rat`
(the same type Mathlib calls `ℚ`), so the proof files can talk about the model directly.

What is mirrored, statement by statement:
* `Expr`            — Var, Const (rational), Op `+ - * / ^`, unary `-`, Fun (0/1 argument), Integral, EvalAt, Deriv.
* `getVars/containsVar/subst` — `Expr.get_vars` (binders bind also in the bounds, as in the Python) and the
                      *naive* `Expr.subst` (substitutes below binders, as in the Python).
* `derivM`          — the case analysis of `rules.deriv` with the interleaved `normalize` calls removed
                      (the harness replaces `rules.normalize` by the identity in its own process) and with the
                      two non-structural recursive calls (`c / y0^y1`, `x^y` with variable exponent, `sqrt`)
                      unfolded one step so that the recursion is structural.  `derivOk` says where Python raises.
                      FIXED behaviour (fixes/C19-1.patch, C19-2.patch): chain rule in the `cot` case; `acot`.
* `prio/pp`         — `Expr.priority` and `__str__` (bracket rules, the `a/b` special case, the `(-x) ^ n` case).
* `Ival` …          — interval arithmetic of `integral/interval.py` on rational / infinite endpoints with
                      open/closed flags: `+`, unary `-`, `-`, `*`, `inverse`, `/`, natural powers.
-/
namespace Holpy.C19

/-! ## Expressions -/

inductive BinOp where
  | add | sub | mul | div | pow
  deriving DecidableEq, Repr, Inhabited

inductive Expr where
  | var (name : String)
  | const (q : Rat)
  | op (o : BinOp) (a b : Expr)
  | neg (a : Expr)
  | fn0 (name : String)
  | fn1 (name : String) (a : Expr)
  | integral (v : String) (lo hi body : Expr)
  | evalAt (v : String) (lo hi body : Expr)
  | deriv (v : String) (body : Expr)
  deriving DecidableEq, Repr, Inhabited

namespace Expr

abbrev add (a b : Expr) := op .add a b
abbrev sub (a b : Expr) := op .sub a b
abbrev mul (a b : Expr) := op .mul a b
abbrev div (a b : Expr) := op .div a b
abbrev pow (a b : Expr) := op .pow a b
abbrev num (n : Int) : Expr := const (n : Rat)

/-- `Expr.get_vars`: free variables; an integral / evaluation / derivative binds its variable in the body
*and in the bounds* (this is what the Python does). -/
def getVars : Expr → List String
  | var n => [n]
  | const _ => []
  | op _ a b => getVars a ++ getVars b
  | neg a => getVars a
  | fn0 _ => []
  | fn1 _ a => getVars a
  | integral v lo hi b => (getVars lo ++ getVars hi ++ getVars b).filter (· != v)
  | evalAt v lo hi b => (getVars lo ++ getVars hi ++ getVars b).filter (· != v)
  | deriv v b => (getVars b).filter (· != v)

def containsVar (e : Expr) (v : String) : Bool := (getVars e).contains v

/-- `Expr.subst(var, e)`: naive substitution (goes below binders without renaming, like the Python). -/
def subst (x : String) (r : Expr) : Expr → Expr
  | var n => if n == x then r else var n
  | const q => const q
  | op o a b => op o (subst x r a) (subst x r b)
  | neg a => neg (subst x r a)
  | fn0 n => fn0 n
  | fn1 n a => fn1 n (subst x r a)
  | integral v lo hi b => integral v (subst x r lo) (subst x r hi) (subst x r b)
  | evalAt v lo hi b => evalAt v (subst x r lo) (subst x r hi) (subst x r b)
  | deriv v b => deriv v (subst x r b)

def isConst : Expr → Bool
  | const _ => true
  | _ => false

end Expr

open Expr

/-! ## `rules.deriv` without `normalize` -/

/-- The `e.op == "^"` case of `deriv` for base `x`, exponent `y`, given the derivatives `dx`, `dy` of base
and exponent (what the recursive calls return). -/
def powRule (v : String) (x y dx dy : Expr) : Expr :=
  match y with
  | const c => mul (mul y (pow x (const (c - 1)))) dx
  | _ =>
    if !(y.containsVar v) then mul (mul y (pow x (sub y (num 1)))) dx
    else
      -- rec(exp(y * log(x))) = exp(y * log x) * rec(y * log x); here y contains the variable
      let lx := fn1 "log" x
      let inner :=
        if !(lx.containsVar v) then mul dy lx
        else add (mul y (div dx x)) (mul dy lx)
      mul (fn1 "exp" (mul y lx)) inner

/-- The one-argument function cases of `deriv`; `dx` is the derivative of the argument. -/
def fn1Rule (v : String) (name : String) (x dx : Expr) : Expr :=
  if name == "sin" then mul (fn1 "cos" x) dx
  else if name == "cos" then neg (mul (fn1 "sin" x) dx)
  else if name == "tan" then mul (pow (fn1 "sec" x) (num 2)) dx
  else if name == "sec" then mul (mul (fn1 "sec" x) (fn1 "tan" x)) dx
  else if name == "csc" then mul (mul (neg (fn1 "csc" x)) (fn1 "cot" x)) dx
  else if name == "cot" then mul (neg (pow (fn1 "csc" x) (num 2))) dx
  else if name == "log" then div dx x
  else if name == "exp" then mul (fn1 "exp" x) dx
  else if name == "sqrt" then
    (if x.isConst then num 0
     else mul (mul (const (1/2 : Rat)) (pow x (const ((1/2 : Rat) - 1)))) dx)
  else if name == "atan" then div dx (add (num 1) (pow x (num 2)))
  else if name == "asin" then div dx (fn1 "sqrt" (sub (num 1) (pow x (num 2))))
  else if name == "acos" then neg (div dx (fn1 "sqrt" (sub (num 1) (pow x (num 2)))))
  else if name == "acot" then neg (div dx (add (num 1) (pow x (num 2))))
  else deriv v (fn1 name x)

/-- `rules.deriv(var, e, ctx)` with `normalize = id`. -/
def derivM (v : String) : Expr → Expr
  | var n => if n == v then num 1 else num 0
  | const _ => num 0
  | op .add x y => add (derivM v x) (derivM v y)
  | op .sub x y => sub (derivM v x) (derivM v y)
  | neg x => neg (derivM v x)
  | op .mul x y =>
    if !(x.containsVar v) then mul x (derivM v y)
    else if !(y.containsVar v) then mul (derivM v x) y
    else add (mul x (derivM v y)) (mul (derivM v x) y)
  | op .div x y =>
    if !(y.containsVar v) then div (derivM v x) y
    else
      let general := div (sub (mul (derivM v x) y) (mul x (derivM v y))) (pow y (num 2))
      match y with
      | op .pow y0 y1 =>
        if !(x.containsVar v) then
          -- rec(x * (y0 ^ (-y1))): x is free of the variable, so `x * rec(y0 ^ (-y1))`
          mul x (powRule v y0 (neg y1) (derivM v y0) (neg (derivM v y1)))
        else general
      | _ => general
  | op .pow x y => powRule v x y (derivM v x) (derivM v y)
  | fn0 n => if n == "pi" then num 0 else deriv v (fn0 n)
  | fn1 n x => fn1Rule v n x (derivM v x)
  | integral t lo hi b =>
    sub (add (integral t lo hi (derivM v b)) (mul (subst t hi b) (derivM v hi)))
        (mul (subst t lo b) (derivM v lo))
  | evalAt t lo hi b => deriv v (evalAt t lo hi b)     -- Python raises (see `derivOk`)
  | deriv t b => deriv v (deriv t b)                   -- Python raises (see `derivOk`)

/-- `powRule` visits the base / exponent only in some branches. -/
def powOk (v : String) (x y : Expr) (okx oky : Bool) : Bool :=
  match y with
  | const _ => okx
  | _ => if !(y.containsVar v) then okx else oky && (!(x.containsVar v) || okx)

/-- Where the Python `deriv` returns normally: `EvalAt`/`Deriv` nodes *reached by the recursion* raise
`NotImplementedError` (the recursion does not enter unknown functions, nor factors free of the variable). -/
def derivOk (v : String) : Expr → Bool
  | var _ => true
  | const _ => true
  | op .mul x y =>
    if !(x.containsVar v) then derivOk v y
    else if !(y.containsVar v) then derivOk v x
    else derivOk v x && derivOk v y
  | op .div x y =>
    if !(y.containsVar v) then derivOk v x
    else
      let general := derivOk v x && derivOk v y
      match y with
      | op .pow y0 y1 =>
        if !(x.containsVar v) then powOk v y0 (neg y1) (derivOk v y0) (derivOk v y1)
        else general
      | _ => general
  | op .pow x y => powOk v x y (derivOk v x) (derivOk v y)
  | op _ x y => derivOk v x && derivOk v y
  | neg x => derivOk v x
  | fn0 _ => true
  | fn1 n x =>
    if n ∈ ["sin", "cos", "tan", "sec", "csc", "cot", "log", "exp", "atan", "asin", "acos", "acot"] then derivOk v x
    else if n == "sqrt" then (x.isConst || derivOk v x)
    else true
  | integral _ lo hi b => derivOk v b && derivOk v hi && derivOk v lo
  | evalAt .. => false
  | deriv .. => false

/-! ## Printer: `Expr.priority` and `__str__` -/

def opPrio : BinOp → Nat
  | .add => 65 | .sub => 65 | .mul => 70 | .div => 70 | .pow => 75

def opStr : BinOp → String
  | .add => "+" | .sub => "-" | .mul => "*" | .div => "/" | .pow => "^"

def prio : Expr → Nat
  | var _ => 100
  | const q => if q.den != 1 then 70 else if q < 0 then 74 else 100
  | op o _ _ => opPrio o
  | neg _ => 80
  | fn0 _ => 95
  | fn1 _ _ => 95
  | integral .. => 10
  | evalAt .. => 10
  | deriv .. => 10

/-- `str(Fraction)` / `str(int)`. -/
def ratStr (q : Rat) : String :=
  if q.den == 1 then toString q.num else toString q.num ++ "/" ++ toString q.den

def isNeg : Expr → Bool
  | neg _ => true
  | _ => false

def paren (s : String) : String := "(" ++ s ++ ")"

/-- `str(e)`. (`Const` values that are integers are assumed to be Python `int`s: the `a/b` special case of
`Op.__str__` tests `isinstance(val, int)`.) -/
def pp : Expr → String
  | var n => n
  | const q => ratStr q
  | neg a =>
    let s := pp a
    "-" ++ (if prio a < 80 then paren s else s)
  | op o a b =>
    match o, a, b with
    | .div, const qa, const qb =>
      if qa.den == 1 && qb.den == 1 then toString qa.num ++ "/" ++ toString qb.num
      else
        let s1 := if prio a < opPrio o then paren (pp a) else pp a
        let s2 := if prio b ≤ opPrio o then paren (pp b) else pp b
        s1 ++ " " ++ opStr o ++ " " ++ s2
    | _, _, _ =>
      let s1 := if prio a < opPrio o then paren (pp a) else pp a
      let s2 := if prio b ≤ opPrio o then paren (pp b) else pp b
      let s1 := if prio a > opPrio o && isNeg a && o == .pow then paren s1 else s1
      s1 ++ " " ++ opStr o ++ " " ++ s2
  | fn0 n => n
  | fn1 n a => n ++ "(" ++ pp a ++ ")"
  | integral v lo hi b => "INT " ++ v ++ ":[" ++ pp lo ++ "," ++ pp hi ++ "]. " ++ pp b
  | evalAt v lo hi b => "[" ++ pp b ++ "]_" ++ v ++ "=" ++ pp lo ++ "," ++ pp hi
  | deriv v b => "D " ++ v ++ ". " ++ pp b

/-! ## Interval arithmetic (`integral/interval.py`) on rational / infinite endpoints -/

inductive Bound where
  | negInf
  | fin (q : Rat)
  | posInf
  deriving DecidableEq, Repr, Inhabited

structure Ival where
  lo : Bound
  hi : Bound
  lopen : Bool
  ropen : Bool
  deriving DecidableEq, Repr, Inhabited

namespace Bound

/-- `Expr.__neg__` on an endpoint (`-oo ↔ oo`). -/
def neg : Bound → Bound
  | negInf => posInf
  | fin q => fin (-q)
  | posInf => negInf

/-- Order of endpoints as `eval_expr` sees them (floats `-inf`, `inf`). -/
def le : Bound → Bound → Bool
  | negInf, _ => true
  | _, posInf => true
  | fin a, fin b => a ≤ b
  | _, _ => false

def lt (a b : Bound) : Bool := le a b && a != b

end Bound

namespace Ival

/-- `Interval.__add__`. -/
def add (a b : Ival) : Ival :=
  let lo := match a.lo, b.lo with
    | .negInf, _ => Bound.negInf
    | _, .negInf => Bound.negInf
    | .fin x, .fin y => Bound.fin (x + y)
    -- `+oo` as a lower endpoint: eval of `oo + c`; not produced by the calculator, kept total
    | _, _ => Bound.posInf
  let hi := match a.hi, b.hi with
    | .posInf, _ => Bound.posInf
    | _, .posInf => Bound.posInf
    | .fin x, .fin y => Bound.fin (x + y)
    | _, _ => Bound.negInf
  ⟨lo, hi, a.lopen || b.lopen, a.ropen || b.ropen⟩

/-- `Interval.__neg__`. -/
def neg (a : Ival) : Ival := ⟨a.hi.neg, a.lo.neg, a.ropen, a.lopen⟩

/-- `Interval.__sub__`. -/
def sub (a b : Ival) : Ival := add a (neg b)

/-- `lim_mul`: product of two endpoints; `none` for `±oo * 0`. -/
def limMul : Bound → Bound → Option Bound
  | .posInf, .fin b => if b > 0 then some .posInf else if b < 0 then some .negInf else none
  | .negInf, .fin b => if b < 0 then some .posInf else if b > 0 then some .negInf else none
  | .posInf, .posInf => some .posInf
  | .posInf, .negInf => some .negInf
  | .negInf, .posInf => some .negInf
  | .negInf, .negInf => some .posInf
  | .fin a, .posInf => if a > 0 then some .posInf else if a < 0 then some .negInf else none
  | .fin a, .negInf => if a < 0 then some .posInf else if a > 0 then some .negInf else none
  | .fin a, .fin b => some (.fin (a * b))

/-- Is the endpoint a closed (attained) zero?  Then every product with it is the attained value 0. -/
def closedZero (b : Bound) (isOpen : Bool) : Bool := !isOpen && b == .fin 0

/-- Open flag of the product of endpoint `a` (flag `fa`) and endpoint `b` (flag `fb`): FIXED behaviour
(fixes/C19-3.patch) — a closed zero endpoint makes the product attained. -/
def mulFlag (a : Bound) (fa : Bool) (b : Bound) (fb : Bool) : Bool :=
  (fa || fb) && !(closedZero a fa || closedZero b fb)

/-- `min(bounds, key = (value, open))`: smallest value, closed preferred on ties; first wins among equals. -/
def minBound : List (Bound × Bool) → Option (Bound × Bool)
  | [] => none
  | p :: ps =>
    match minBound ps with
    | none => some p
    | some q =>
      -- Python's `min` returns the first minimal element: keep `p` unless `q` is strictly smaller
      if Bound.lt q.1 p.1 || (q.1 == p.1 && !q.2 && p.2) then some q else some p

/-- `max(bounds, key = (value, not open))` (FIXED: closed preferred on ties); first wins among equals. -/
def maxBound : List (Bound × Bool) → Option (Bound × Bool)
  | [] => none
  | p :: ps =>
    match maxBound ps with
    | none => some p
    | some q =>
      if Bound.lt p.1 q.1 || (q.1 == p.1 && !q.2 && p.2) then some q else some p

/-- `Interval.__mul__`; `none` when every endpoint product is `oo * 0` (Python: `min()` of an empty list raises). -/
def mul (a b : Ival) : Option Ival :=
  let cands := [ (limMul a.lo b.lo, mulFlag a.lo a.lopen b.lo b.lopen),
                 (limMul a.lo b.hi, mulFlag a.lo a.lopen b.hi b.ropen),
                 (limMul a.hi b.lo, mulFlag a.hi a.ropen b.lo b.lopen),
                 (limMul a.hi b.hi, mulFlag a.hi a.ropen b.hi b.ropen) ]
  let bounds := cands.filterMap fun (p : Option Bound × Bool) => p.1.map fun v => (v, p.2)
  match minBound bounds, maxBound bounds with
  | some lo, some hi => some ⟨lo.1, hi.1, lo.2, hi.2⟩
  | _, _ => none

/-- `Interval.inverse` (FIXED behaviour, fixes/C19-4.patch: an interval with zero in its interior has the
whole line as the enclosure of its reciprocals). -/
def inverse (a : Ival) : Ival :=
  if Bound.lt a.lo (.fin 0) && Bound.lt (.fin 0) a.hi then ⟨.negInf, .posInf, true, true⟩ else
  let (lo, lopen) := match a.hi with
    | .posInf => (Bound.fin 0, true)
    | .fin e => if e == 0 then (Bound.negInf, true) else (Bound.fin (1 / e), a.ropen)
    | .negInf => (Bound.fin 0, true)     -- 1 / (-oo); not produced by the calculator
  let (hi, ropen) := match a.lo with
    | .negInf => (Bound.fin 0, true)
    | .fin s => if s == 0 then (Bound.posInf, true) else (Bound.fin (1 / s), a.lopen)
    | .posInf => (Bound.fin 0, true)
  ⟨lo, hi, lopen, ropen⟩

/-- `Interval.__truediv__`. -/
def div (a b : Ival) : Option Ival := mul a (inverse b)

def boundPow : Bound → Nat → Bound
  | .fin q, n => .fin (q ^ n)
  | .posInf, _ => .posInf
  | .negInf, n => if n % 2 == 0 then .posInf else .negInf

/-- `Interval.__pow__` for a point exponent that is a natural number `n` (FIXED behaviour,
fixes/C19-5.patch: every even exponent is treated like the exponent 2). -/
def powNat (a : Ival) (n : Nat) : Ival :=
  if n == 0 then ⟨.fin 1, .fin 1, false, false⟩
  else if n % 2 == 0 then
    if Bound.le (.fin 0) a.lo then ⟨boundPow a.lo n, boundPow a.hi n, a.lopen, a.ropen⟩
    else if Bound.le a.hi (.fin 0) then
      (match a.lo with
       | .negInf => ⟨boundPow a.hi n, .posInf, a.ropen, true⟩
       | _ => ⟨boundPow a.hi n, boundPow a.lo n, a.ropen, a.lopen⟩)
    else
      -- zero in the interior: [0, max(lo^n, hi^n)]
      match a.lo, a.hi with
      | .fin s, .fin e =>
        if -s > e then ⟨.fin 0, .fin (s ^ n), false, a.lopen⟩
        else if -s == e then ⟨.fin 0, .fin (s ^ n), false, a.lopen && a.ropen⟩
        else ⟨.fin 0, .fin (e ^ n), false, a.ropen⟩
      | _, _ => ⟨.fin 0, .posInf, false, true⟩
  else ⟨boundPow a.lo n, boundPow a.hi n, a.lopen, a.ropen⟩

end Ival

end Holpy.C19
