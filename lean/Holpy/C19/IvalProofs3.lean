import Holpy.C19.IvalProofs1
/-
C19 — enclosure proofs for the interval model, part 3: `mul` and `div`.
-/
namespace Holpy.C19

open Ival

/-! ### Signs of endpoints -/

def Bound.isNeg : Bound → Prop
  | .negInf => True
  | .fin q => q < 0
  | .posInf => False

def Bound.isPos : Bound → Prop
  | .posInf => True
  | .fin q => 0 < q
  | .negInf => False

theorem Bound.isNeg_LB {v : Bound} (hv : v.isNeg) (f : Bool) {z : ℝ} (hz : 0 ≤ z) : v.LB f z := by
  cases v with
  | negInf => trivial
  | posInf => exact absurd hv (by simp [Bound.isNeg])
  | fin q =>
    have : (q : ℝ) < 0 := by exact_mod_cast hv
    exact Bound.LB_of_lt f (by linarith)

theorem Bound.isPos_of_UB {b : Bound} {g : Bool} {y : ℝ} (h : b.UB g y) (hy : 0 < y) : b.isPos := by
  cases b with
  | negInf => exact absurd h (by simp)
  | posInf => trivial
  | fin e =>
    have := Bound.UB_fin_le h
    show 0 < e
    exact_mod_cast lt_of_lt_of_le hy this

theorem limMul_comm (a b : Bound) : limMul a b = limMul b a := by
  cases a <;> cases b <;> simp [limMul, mul_comm]

theorem limMul_neg_pos {a b : Bound} (ha : a.isNeg) (hb : b.isPos) :
    ∃ v, limMul a b = some v ∧ v.isNeg := by
  cases a <;> cases b <;> simp [Bound.isNeg, Bound.isPos] at ha hb
  · simp [limMul, hb, not_lt.2 hb.le, Bound.isNeg]
  · simp [limMul, Bound.isNeg]
  · simp [limMul, Bound.isNeg]
    exact mul_neg_of_neg_of_pos ha hb
  · simp [limMul, ha, not_lt.2 ha.le, Bound.isNeg]

theorem limMul_pos_neg {a b : Bound} (ha : a.isPos) (hb : b.isNeg) :
    ∃ v, limMul a b = some v ∧ v.isNeg := by
  rw [limMul_comm]; exact limMul_neg_pos hb ha

theorem limMul_neg_left (a b : Bound) : limMul a.neg b = (limMul a b).map Bound.neg := by
  cases a <;> cases b <;> simp [limMul, Bound.neg]
  all_goals
    rename_i q
    rcases lt_trichotomy q 0 with h | h | h
    · simp [h, not_lt.2 h.le, Bound.neg]
    · simp [h]
    · simp [h, not_lt.2 h.le, Bound.neg]

theorem closedZero_neg (a : Bound) (f : Bool) : closedZero a.neg f = closedZero a f := by
  cases a <;> simp only [closedZero, Bound.neg] <;> first | rfl | (congr 1; rw [Bool.eq_iff_iff]; simp)

theorem mulFlag_neg_left (a : Bound) (fa : Bool) (b : Bound) (fb : Bool) :
    mulFlag a.neg fa b fb = mulFlag a fa b fb := by
  simp [mulFlag, closedZero_neg]

theorem mulFlag_comm (a : Bound) (fa : Bool) (b : Bound) (fb : Bool) :
    mulFlag a fa b fb = mulFlag b fb a fa := by
  simp [mulFlag, Bool.or_comm]

/-! ### Corners -/

/-- `(a, f)` is one of the two ends of `I`. -/
def Ival.isEnd (I : Ival) (a : Bound) (f : Bool) : Prop :=
  (a = I.lo ∧ f = I.lopen) ∨ (a = I.hi ∧ f = I.ropen)

theorem Ival.isEnd_neg {I : Ival} {a : Bound} {f : Bool} (h : I.neg.isEnd a f) : I.isEnd a.neg f := by
  rcases h with ⟨h1, h2⟩ | ⟨h1, h2⟩
  · right; subst h1; exact ⟨Bound.neg_neg _, h2⟩
  · left; subst h1; exact ⟨Bound.neg_neg _, h2⟩

/-- Some endpoint product is defined and is a valid lower end for `z`. -/
def CornerLB (I J : Ival) (z : ℝ) : Prop :=
  ∃ a fa b fb v, I.isEnd a fa ∧ J.isEnd b fb ∧ limMul a b = some v ∧ v.LB (mulFlag a fa b fb) z

def CornerUB (I J : Ival) (z : ℝ) : Prop :=
  ∃ a fa b fb v, I.isEnd a fa ∧ J.isEnd b fb ∧ limMul a b = some v ∧ v.UB (mulFlag a fa b fb) z

def HasCorner (I J : Ival) : Prop :=
  ∃ a fa b fb v, I.isEnd a fa ∧ J.isEnd b fb ∧ limMul a b = some v

theorem CornerLB.swap {I J : Ival} {z : ℝ} : CornerLB I J z → CornerLB J I z := by
  rintro ⟨a, fa, b, fb, v, hI, hJ, hv, h⟩
  exact ⟨b, fb, a, fa, v, hJ, hI, by rw [limMul_comm, hv], by rwa [mulFlag_comm]⟩

theorem CornerUB.swap {I J : Ival} {z : ℝ} : CornerUB I J z → CornerUB J I z := by
  rintro ⟨a, fa, b, fb, v, hI, hJ, hv, h⟩
  exact ⟨b, fb, a, fa, v, hJ, hI, by rw [limMul_comm, hv], by rwa [mulFlag_comm]⟩

theorem HasCorner.swap {I J : Ival} : HasCorner I J → HasCorner J I := by
  rintro ⟨a, fa, b, fb, v, hI, hJ, hv⟩
  exact ⟨b, fb, a, fa, v, hJ, hI, by rw [limMul_comm, hv]⟩

theorem HasCorner.neg_left {I J : Ival} : HasCorner I J → HasCorner I.neg J := by
  rintro ⟨a, fa, b, fb, v, hI, hJ, hv⟩
  refine ⟨a.neg, fa, b, fb, v.neg, ?_, hJ, by rw [limMul_neg_left, hv]; rfl⟩
  have := Ival.isEnd_neg (I := I.neg) (a := a.neg) (f := fa)
  rcases hI with ⟨h1, h2⟩ | ⟨h1, h2⟩
  · right; subst h1; exact ⟨rfl, h2⟩
  · left; subst h1; exact ⟨rfl, h2⟩

theorem CornerUB_of_neg {I J : Ival} {z : ℝ} : CornerLB I.neg J (-z) → CornerUB I J z := by
  rintro ⟨a, fa, b, fb, v, hI, hJ, hv, h⟩
  refine ⟨a.neg, fa, b, fb, v.neg, Ival.isEnd_neg hI, hJ, by rw [limMul_neg_left, hv]; rfl, ?_⟩
  rw [mulFlag_neg_left]
  have : v.neg.neg.LB (mulFlag a fa b fb) (-z) := by rwa [Bound.neg_neg]
  exact Bound.LB_neg.1 this

theorem CornerLB_of_neg {I J : Ival} {z : ℝ} : CornerUB I.neg J (-z) → CornerLB I J z := by
  rintro ⟨a, fa, b, fb, v, hI, hJ, hv, h⟩
  refine ⟨a.neg, fa, b, fb, v.neg, Ival.isEnd_neg hI, hJ, by rw [limMul_neg_left, hv]; rfl, ?_⟩
  rw [mulFlag_neg_left]
  have : v.neg.neg.UB (mulFlag a fa b fb) (-z) := by rwa [Bound.neg_neg]
  exact Bound.UB_neg.1 this

/-- Both a lower and an upper corner. -/
def Corner (I J : Ival) (z : ℝ) : Prop := CornerLB I J z ∧ CornerUB I J z

theorem Corner.swap {I J : Ival} {z : ℝ} (h : Corner I J z) : Corner J I z := ⟨h.1.swap, h.2.swap⟩

theorem Corner.of_neg_left {I J : Ival} {z : ℝ} (h : Corner I.neg J (-z)) : Corner I J z :=
  ⟨CornerLB_of_neg h.2, CornerUB_of_neg h.1⟩

theorem Corner.of_neg_right {I J : Ival} {z : ℝ} (h : Corner I J.neg (-z)) : Corner I J z :=
  (Corner.of_neg_left h.swap).swap


/-! ### Base cases over the reals -/

theorem limMul_posInf_pos {b : Bound} (hb : b.isPos) : limMul .posInf b = some .posInf := by
  cases b <;> simp [Bound.isPos] at hb <;> simp [limMul, hb]

theorem limMul_pos_posInf {a : Bound} (ha : a.isPos) : limMul a .posInf = some .posInf := by
  rw [limMul_comm]; exact limMul_posInf_pos ha

theorem UB_mul_pos {d e : Rat} {f g : Bool} {x y : ℝ} (hx : 0 < x) (hy : 0 < y)
    (h : (Bound.fin d).UB f x) (k : (Bound.fin e).UB g y) :
    (Bound.fin (d * e)).UB (mulFlag (.fin d) f (.fin e) g) (x * y) := by
  have hd : (0 : ℝ) < d := lt_of_lt_of_le hx (Bound.UB_fin_le h)
  have he : (0 : ℝ) < e := lt_of_lt_of_le hy (Bound.UB_fin_le k)
  have hd' : d ≠ 0 := by rintro rfl; simp at hd
  have he' : e ≠ 0 := by rintro rfl; simp at he
  have hfl : mulFlag (.fin d) f (.fin e) g = (f || g) := by simp [mulFlag, closedZero, hd', he']
  rw [hfl]
  cases f <;> cases g <;> simp at h k ⊢
  · exact mul_le_mul h k hy.le hd.le
  · exact mul_lt_mul' h k hy.le hd
  · exact mul_lt_mul h k hy hd.le
  · exact mul_lt_mul'' h k hx.le hy.le

theorem LB_mul_nonneg {s t : Rat} {f g : Bool} {x y : ℝ} (hs : 0 ≤ s) (ht : 0 ≤ t)
    (hx : 0 < x) (hy : 0 < y) (h : (Bound.fin s).LB f x) (k : (Bound.fin t).LB g y) :
    (Bound.fin (s * t)).LB (mulFlag (.fin s) f (.fin t) g) (x * y) := by
  rcases hs.eq_or_lt with rfl | hs
  · exact Bound.LB_of_lt _ (by simpa using mul_pos hx hy)
  rcases ht.eq_or_lt with rfl | ht
  · exact Bound.LB_of_lt _ (by simpa using mul_pos hx hy)
  have hs' : (0 : ℝ) < s := by exact_mod_cast hs
  have ht' : (0 : ℝ) < t := by exact_mod_cast ht
  have hfl : mulFlag (.fin s) f (.fin t) g = (f || g) := by
    simp [mulFlag, closedZero, hs.ne', ht.ne']
  rw [hfl]
  cases f <;> cases g <;> simp at h k ⊢
  · exact mul_le_mul h k ht'.le hx.le
  · exact mul_lt_mul' h k ht'.le hx
  · exact mul_lt_mul h k ht' hx.le
  · exact mul_lt_mul'' h k hs'.le ht'.le

theorem pos_pos_UB {I J : Ival} {x y : ℝ} (hx : I.mem x) (hy : J.mem y) (x0 : 0 < x) (y0 : 0 < y) :
    CornerUB I J (x * y) := by
  rw [Ival.mem_iff] at hx hy
  obtain ⟨a1, a2, f1, f2⟩ := I
  obtain ⟨b1, b2, g1, g2⟩ := J
  obtain ⟨-, h2⟩ := hx
  obtain ⟨-, k2⟩ := hy
  simp only at h2 k2
  have pa := Bound.isPos_of_UB h2 x0
  have pb := Bound.isPos_of_UB k2 y0
  cases a2 with
  | negInf => exact absurd h2 (by simp)
  | posInf =>
    exact ⟨_, f2, b2, g2, _, Or.inr ⟨rfl, rfl⟩, Or.inr ⟨rfl, rfl⟩, limMul_posInf_pos pb, by simp⟩
  | fin d =>
    cases b2 with
    | negInf => exact absurd k2 (by simp)
    | posInf =>
      exact ⟨_, f2, _, g2, _, Or.inr ⟨rfl, rfl⟩, Or.inr ⟨rfl, rfl⟩, limMul_pos_posInf pa, by simp⟩
    | fin e =>
      exact ⟨_, f2, _, g2, _, Or.inr ⟨rfl, rfl⟩, Or.inr ⟨rfl, rfl⟩, rfl, UB_mul_pos x0 y0 h2 k2⟩

theorem pos_pos_LB {I J : Ival} {x y : ℝ} (hx : I.mem x) (hy : J.mem y) (x0 : 0 < x) (y0 : 0 < y) :
    CornerLB I J (x * y) := by
  rw [Ival.mem_iff] at hx hy
  obtain ⟨a1, a2, f1, f2⟩ := I
  obtain ⟨b1, b2, g1, g2⟩ := J
  obtain ⟨h1, h2⟩ := hx
  obtain ⟨k1, k2⟩ := hy
  simp only at h1 h2 k1 k2
  have z0 : 0 ≤ x * y := (mul_pos x0 y0).le
  by_cases na : a1.isNeg
  · obtain ⟨v, hv, hvn⟩ := limMul_neg_pos na (Bound.isPos_of_UB k2 y0)
    exact ⟨a1, f1, b2, g2, v, Or.inl ⟨rfl, rfl⟩, Or.inr ⟨rfl, rfl⟩, hv, Bound.isNeg_LB hvn _ z0⟩
  by_cases nb : b1.isNeg
  · obtain ⟨v, hv, hvn⟩ := limMul_pos_neg (Bound.isPos_of_UB h2 x0) nb
    exact ⟨a2, f2, b1, g1, v, Or.inr ⟨rfl, rfl⟩, Or.inl ⟨rfl, rfl⟩, hv, Bound.isNeg_LB hvn _ z0⟩
  cases a1 with
  | negInf => exact absurd trivial na
  | posInf => exact absurd h1 (by simp)
  | fin s =>
    cases b1 with
    | negInf => exact absurd trivial nb
    | posInf => exact absurd k1 (by simp)
    | fin t =>
      exact ⟨_, f1, _, g1, _, Or.inl ⟨rfl, rfl⟩, Or.inl ⟨rfl, rfl⟩, rfl,
        LB_mul_nonneg (not_lt.1 na) (not_lt.1 nb) x0 y0 h1 k1⟩

theorem LB_zero_cases {a : Bound} {f : Bool} (h : a.LB f 0) : a.isNeg ∨ (a = .fin 0 ∧ f = false) := by
  cases a with
  | negInf => exact Or.inl trivial
  | posInf => exact absurd h (by simp)
  | fin s =>
    cases f <;> simp at h
    · rcases h.eq_or_lt with h | h
      · right; simpa using h
      · left; exact h
    · left; exact h

theorem UB_zero_cases {a : Bound} {f : Bool} (h : a.UB f 0) : a.isPos ∨ (a = .fin 0 ∧ f = false) := by
  cases a with
  | posInf => exact Or.inl trivial
  | negInf => exact absurd h (by simp)
  | fin s =>
    cases f <;> simp at h
    · rcases h.eq_or_lt with h | h
      · right; simpa using h.symm
      · left; exact h
    · left; exact h

theorem LB_closedZero_left (t : Rat) (g : Bool) :
    (Bound.fin (0 * t)).LB (mulFlag (.fin 0) false (.fin t) g) 0 := by
  simp [mulFlag, closedZero]

theorem LB_closedZero_right (s : Rat) (f : Bool) :
    (Bound.fin (s * 0)).LB (mulFlag (.fin s) f (.fin 0) false) 0 := by
  simp [mulFlag, closedZero]

theorem zero_LB {I J : Ival} {y : ℝ} (hx : I.mem 0) (hy : J.mem y) (hc : HasCorner I J) :
    CornerLB I J 0 := by
  rw [Ival.mem_iff] at hx hy
  obtain ⟨a1, a2, f1, f2⟩ := I
  obtain ⟨b1, b2, g1, g2⟩ := J
  obtain ⟨h1, h2⟩ := hx
  obtain ⟨k1, k2⟩ := hy
  simp only at h1 h2 k1 k2
  rcases LB_zero_cases h1 with na | ⟨rfl, rfl⟩ <;> rcases UB_zero_cases h2 with pa | ⟨rfl, rfl⟩
  · -- negative lower end, positive upper end
    by_cases pb : b2.isPos
    · obtain ⟨v, hv, hvn⟩ := limMul_neg_pos na pb
      exact ⟨a1, f1, b2, g2, v, Or.inl ⟨rfl, rfl⟩, Or.inr ⟨rfl, rfl⟩, hv, Bound.isNeg_LB hvn _ le_rfl⟩
    by_cases nb : b1.isNeg
    · obtain ⟨v, hv, hvn⟩ := limMul_pos_neg pa nb
      exact ⟨a2, f2, b1, g1, v, Or.inr ⟨rfl, rfl⟩, Or.inl ⟨rfl, rfl⟩, hv, Bound.isNeg_LB hvn _ le_rfl⟩
    cases b1 with
    | negInf => exact absurd trivial nb
    | posInf => exact absurd k1 (by simp)
    | fin t =>
      cases b2 with
      | posInf => exact absurd trivial pb
      | negInf => exact absurd k2 (by simp)
      | fin e =>
        have ht : 0 ≤ t := not_lt.1 nb
        have he : e ≤ 0 := not_lt.1 pb
        have hty := Bound.LB_fin_le k1
        have hye := Bound.UB_fin_le k2
        have hte : t ≤ e := by exact_mod_cast hty.trans hye
        have t0 : t = 0 := le_antisymm (hte.trans he) ht
        have e0 : e = 0 := le_antisymm he (ht.trans hte)
        subst t0 e0
        have y0 : y = 0 := le_antisymm (by simpa using hye) (by simpa using hty)
        subst y0
        have hg1 : g1 = false := by cases g1 <;> simp at k1 ⊢
        subst hg1
        cases a1 with
        | posInf => exact absurd na (by simp [Bound.isNeg])
        | fin s =>
          exact ⟨_, f1, _, false, _, Or.inl ⟨rfl, rfl⟩, Or.inl ⟨rfl, rfl⟩, rfl, LB_closedZero_right s f1⟩
        | negInf =>
          cases a2 with
          | negInf => exact absurd pa (by simp [Bound.isPos])
          | fin d =>
            exact ⟨_, f2, _, false, _, Or.inr ⟨rfl, rfl⟩, Or.inl ⟨rfl, rfl⟩, rfl,
              LB_closedZero_right d f2⟩
          | posInf =>
            exfalso
            obtain ⟨a, fa, b, fb, v, hI, hJ, hv⟩ := hc
            rcases hI with ⟨rfl, -⟩ | ⟨rfl, -⟩ <;> rcases hJ with ⟨rfl, -⟩ | ⟨rfl, -⟩ <;>
              simp [limMul] at hv
  · -- negative lower end, closed zero upper end
    cases b2 with
    | negInf => exact absurd k2 (by simp)
    | fin e =>
      exact ⟨_, false, _, g2, _, Or.inr ⟨rfl, rfl⟩, Or.inr ⟨rfl, rfl⟩, rfl, LB_closedZero_left e g2⟩
    | posInf =>
      obtain ⟨v, hv, hvn⟩ := limMul_neg_pos na (b := .posInf) trivial
      exact ⟨a1, f1, _, g2, v, Or.inl ⟨rfl, rfl⟩, Or.inr ⟨rfl, rfl⟩, hv, Bound.isNeg_LB hvn _ le_rfl⟩
  · -- closed zero lower end, positive upper end
    cases b1 with
    | posInf => exact absurd k1 (by simp)
    | fin t =>
      exact ⟨_, false, _, g1, _, Or.inl ⟨rfl, rfl⟩, Or.inl ⟨rfl, rfl⟩, rfl, LB_closedZero_left t g1⟩
    | negInf =>
      obtain ⟨v, hv, hvn⟩ := limMul_pos_neg pa (b := .negInf) trivial
      exact ⟨a2, f2, _, g1, v, Or.inr ⟨rfl, rfl⟩, Or.inl ⟨rfl, rfl⟩, hv, Bound.isNeg_LB hvn _ le_rfl⟩
  · -- the point interval [0, 0]
    cases b1 with
    | posInf => exact absurd k1 (by simp)
    | fin t =>
      exact ⟨_, false, _, g1, _, Or.inl ⟨rfl, rfl⟩, Or.inl ⟨rfl, rfl⟩, rfl, LB_closedZero_left t g1⟩
    | negInf =>
      cases b2 with
      | negInf => exact absurd k2 (by simp)
      | fin e =>
        exact ⟨_, false, _, g2, _, Or.inl ⟨rfl, rfl⟩, Or.inr ⟨rfl, rfl⟩, rfl, LB_closedZero_left e g2⟩
      | posInf =>
        exfalso
        obtain ⟨a, fa, b, fb, v, hI, hJ, hv⟩ := hc
        rcases hI with ⟨rfl, -⟩ | ⟨rfl, -⟩ <;> rcases hJ with ⟨rfl, -⟩ | ⟨rfl, -⟩ <;>
          simp [limMul] at hv

theorem pos_pos {I J : Ival} {x y : ℝ} (hx : I.mem x) (hy : J.mem y) (x0 : 0 < x) (y0 : 0 < y) :
    Corner I J (x * y) := ⟨pos_pos_LB hx hy x0 y0, pos_pos_UB hx hy x0 y0⟩

theorem zero_left {I J : Ival} {y : ℝ} (hx : I.mem 0) (hy : J.mem y) (hc : HasCorner I J) :
    Corner I J 0 := by
  refine ⟨zero_LB hx hy hc, CornerUB_of_neg ?_⟩
  rw [neg_zero]
  exact zero_LB (by simpa using Ival.neg_encloses hx) hy hc.neg_left

/-- Corner lemma: some defined endpoint product bounds `x * y` from below, and some from above, each with
its `mulFlag`. -/
theorem corner_of_mem {I J : Ival} {x y : ℝ} (hx : I.mem x) (hy : J.mem y) (hc : HasCorner I J) :
    Corner I J (x * y) := by
  rcases lt_trichotomy x 0 with x0 | rfl | x0
  · rcases lt_trichotomy y 0 with y0 | rfl | y0
    · apply Corner.of_neg_left; apply Corner.of_neg_right
      have := pos_pos (Ival.neg_encloses hx) (Ival.neg_encloses hy) (neg_pos.2 x0) (neg_pos.2 y0)
      convert this using 1; ring
    · rw [mul_zero]; exact (zero_left hy hx hc.swap).swap
    · apply Corner.of_neg_left
      have := pos_pos (Ival.neg_encloses hx) hy (neg_pos.2 x0) y0
      convert this using 1; ring
  · rw [zero_mul]; exact zero_left hx hy hc
  · rcases lt_trichotomy y 0 with y0 | rfl | y0
    · apply Corner.of_neg_right
      have := pos_pos hx (Ival.neg_encloses hy) x0 (neg_pos.2 y0)
      convert this using 1; ring
    · rw [mul_zero]; exact (zero_left hy hx hc.swap).swap
    · exact pos_pos hx hy x0 y0


/-! ### `minBound` / `maxBound` -/

theorem minBound_mono1 {p q : Bound × Bool} {z : ℝ}
    (hc : (Bound.lt q.1 p.1 || (q.1 == p.1 && !q.2 && p.2)) = true) (h : p.1.LB p.2 z) :
    q.1.LB q.2 z := by
  obtain ⟨pv, pf⟩ := p
  obtain ⟨qv, qf⟩ := q
  cases pv <;> cases qv <;> cases pf <;> cases qf <;> simp [Bound.lt, Bound.le] at hc h ⊢
  all_goals
    rename_i a b
    first
    | (obtain ⟨h1, h2⟩ := hc
       have : (b : ℝ) < a := by exact_mod_cast lt_of_le_of_ne h1 h2
       linarith
       done)
    | (rcases hc with ⟨h1, h2⟩ | h3
       · have : (b : ℝ) < a := by exact_mod_cast lt_of_le_of_ne h1 h2
         linarith
       · have : (b : ℝ) = a := by exact_mod_cast h3
         linarith)

theorem minBound_mono2 {p q : Bound × Bool} {z : ℝ}
    (hc : (Bound.lt q.1 p.1 || (q.1 == p.1 && !q.2 && p.2)) = false) (h : q.1.LB q.2 z) :
    p.1.LB p.2 z := by
  obtain ⟨pv, pf⟩ := p
  obtain ⟨qv, qf⟩ := q
  cases pv <;> cases qv <;> cases pf <;> cases qf <;> simp [Bound.lt, Bound.le] at hc h ⊢
  all_goals
    rename_i a b
    first
    | (obtain ⟨h1, h2⟩ := hc
       have hab : a ≤ b := by
         rcases le_total b a with h | h
         · exact (h1 h).ge
         · exact h
       have : (a : ℝ) < b := by exact_mod_cast lt_of_le_of_ne hab (Ne.symm h2)
       linarith)
    | (have hab : a ≤ b := by
         rcases le_total b a with h | h
         · exact (hc h).ge
         · exact h
       have : (a : ℝ) ≤ b := by exact_mod_cast hab
       linarith)

theorem maxBound_mono1 {p q : Bound × Bool} {z : ℝ}
    (hc : (Bound.lt p.1 q.1 || (q.1 == p.1 && !q.2 && p.2)) = true) (h : p.1.UB p.2 z) :
    q.1.UB q.2 z := by
  obtain ⟨pv, pf⟩ := p
  obtain ⟨qv, qf⟩ := q
  cases pv <;> cases qv <;> cases pf <;> cases qf <;> simp [Bound.lt, Bound.le] at hc h ⊢
  all_goals
    rename_i a b
    first
    | (obtain ⟨h1, h2⟩ := hc
       have : (a : ℝ) < b := by exact_mod_cast lt_of_le_of_ne h1 h2
       linarith
       done)
    | (rcases hc with ⟨h1, h2⟩ | h3
       · have : (a : ℝ) < b := by exact_mod_cast lt_of_le_of_ne h1 h2
         linarith
       · have : (b : ℝ) = a := by exact_mod_cast h3
         linarith)

theorem maxBound_mono2 {p q : Bound × Bool} {z : ℝ}
    (hc : (Bound.lt p.1 q.1 || (q.1 == p.1 && !q.2 && p.2)) = false) (h : q.1.UB q.2 z) :
    p.1.UB p.2 z := by
  obtain ⟨pv, pf⟩ := p
  obtain ⟨qv, qf⟩ := q
  cases pv <;> cases qv <;> cases pf <;> cases qf <;> simp [Bound.lt, Bound.le] at hc h ⊢
  all_goals
    rename_i a b
    first
    | (obtain ⟨h1, h2⟩ := hc
       have hba : b ≤ a := by
         rcases le_total a b with h | h
         · exact (h1 h).ge
         · exact h
       have : (b : ℝ) < a := by exact_mod_cast lt_of_le_of_ne hba h2
       linarith)
    | (have hba : b ≤ a := by
         rcases le_total a b with h | h
         · exact (hc h).ge
         · exact h
       have : (b : ℝ) ≤ a := by exact_mod_cast hba
       linarith)


theorem minBound_cons_ne_none (p : Bound × Bool) (ps : List (Bound × Bool)) :
    minBound (p :: ps) ≠ none := by
  unfold minBound
  split
  · simp
  · split <;> simp

theorem maxBound_cons_ne_none (p : Bound × Bool) (ps : List (Bound × Bool)) :
    maxBound (p :: ps) ≠ none := by
  unfold maxBound
  split
  · simp
  · split <;> simp

theorem minBound_LB {z : ℝ} : ∀ (l : List (Bound × Bool)) (p : Bound × Bool), p ∈ l → p.1.LB p.2 z →
    ∃ q, minBound l = some q ∧ q.1.LB q.2 z
  | [], p, h, _ => absurd h List.not_mem_nil
  | p0 :: ps, p, hmem, hp => by
    unfold minBound
    cases hm : minBound ps with
    | none =>
      have hps : ps = [] := by
        cases ps with
        | nil => rfl
        | cons a as => exact absurd hm (minBound_cons_ne_none a as)
      subst hps
      have : p = p0 := by simpa using hmem
      subst this
      exact ⟨p, rfl, hp⟩
    | some q0 =>
      simp only
      by_cases hcond : (Bound.lt q0.1 p0.1 || (q0.1 == p0.1 && !q0.2 && p0.2)) = true
      · rw [if_pos hcond]
        refine ⟨q0, rfl, ?_⟩
        rcases List.mem_cons.1 hmem with rfl | hin
        · exact minBound_mono1 hcond hp
        · obtain ⟨q, hq, hq'⟩ := minBound_LB ps p hin hp
          rw [hm] at hq; cases hq; exact hq'
      · rw [if_neg hcond]
        refine ⟨p0, rfl, ?_⟩
        rcases List.mem_cons.1 hmem with rfl | hin
        · exact hp
        · obtain ⟨q, hq, hq'⟩ := minBound_LB ps p hin hp
          rw [hm] at hq; cases hq
          exact minBound_mono2 (by simpa using hcond) hq'

theorem maxBound_UB {z : ℝ} : ∀ (l : List (Bound × Bool)) (p : Bound × Bool), p ∈ l → p.1.UB p.2 z →
    ∃ q, maxBound l = some q ∧ q.1.UB q.2 z
  | [], p, h, _ => absurd h List.not_mem_nil
  | p0 :: ps, p, hmem, hp => by
    unfold maxBound
    cases hm : maxBound ps with
    | none =>
      have hps : ps = [] := by
        cases ps with
        | nil => rfl
        | cons a as => exact absurd hm (maxBound_cons_ne_none a as)
      subst hps
      have : p = p0 := by simpa using hmem
      subst this
      exact ⟨p, rfl, hp⟩
    | some q0 =>
      simp only
      by_cases hcond : (Bound.lt p0.1 q0.1 || (q0.1 == p0.1 && !q0.2 && p0.2)) = true
      · rw [if_pos hcond]
        refine ⟨q0, rfl, ?_⟩
        rcases List.mem_cons.1 hmem with rfl | hin
        · exact maxBound_mono1 hcond hp
        · obtain ⟨q, hq, hq'⟩ := maxBound_UB ps p hin hp
          rw [hm] at hq; cases hq; exact hq'
      · rw [if_neg hcond]
        refine ⟨p0, rfl, ?_⟩
        rcases List.mem_cons.1 hmem with rfl | hin
        · exact hp
        · obtain ⟨q, hq, hq'⟩ := maxBound_UB ps p hin hp
          rw [hm] at hq; cases hq
          exact maxBound_mono2 (by simpa using hcond) hq'

/-! ### `mul`, `div` -/

/-- The list of defined endpoint products with their flags, as built by `Ival.mul`. -/
def mulBounds (a b : Ival) : List (Bound × Bool) :=
  ([ (limMul a.lo b.lo, mulFlag a.lo a.lopen b.lo b.lopen),
     (limMul a.lo b.hi, mulFlag a.lo a.lopen b.hi b.ropen),
     (limMul a.hi b.lo, mulFlag a.hi a.ropen b.lo b.lopen),
     (limMul a.hi b.hi, mulFlag a.hi a.ropen b.hi b.ropen) ] : List (Option Bound × Bool)).filterMap
    fun (p : Option Bound × Bool) => p.1.map fun v => (v, p.2)

theorem Ival.mul_eq (a b : Ival) : a.mul b =
    match minBound (mulBounds a b), maxBound (mulBounds a b) with
    | some lo, some hi => some ⟨lo.1, hi.1, lo.2, hi.2⟩
    | _, _ => none := rfl

theorem mem_mulBounds {I J : Ival} {a b v : Bound} {fa fb : Bool} (hI : I.isEnd a fa)
    (hJ : J.isEnd b fb) (hv : limMul a b = some v) : (v, mulFlag a fa b fb) ∈ mulBounds I J := by
  unfold mulBounds
  rw [List.mem_filterMap]
  refine ⟨(limMul a b, mulFlag a fa b fb), ?_, by simp [hv]⟩
  rcases hI with ⟨rfl, rfl⟩ | ⟨rfl, rfl⟩ <;> rcases hJ with ⟨rfl, rfl⟩ | ⟨rfl, rfl⟩ <;> simp

theorem hasCorner_or_nil (I J : Ival) : HasCorner I J ∨ mulBounds I J = [] := by
  cases h11 : limMul I.lo J.lo with
  | some v => exact Or.inl ⟨_, _, _, _, v, Or.inl ⟨rfl, rfl⟩, Or.inl ⟨rfl, rfl⟩, h11⟩
  | none =>
  cases h12 : limMul I.lo J.hi with
  | some v => exact Or.inl ⟨_, _, _, _, v, Or.inl ⟨rfl, rfl⟩, Or.inr ⟨rfl, rfl⟩, h12⟩
  | none =>
  cases h21 : limMul I.hi J.lo with
  | some v => exact Or.inl ⟨_, _, _, _, v, Or.inr ⟨rfl, rfl⟩, Or.inl ⟨rfl, rfl⟩, h21⟩
  | none =>
  cases h22 : limMul I.hi J.hi with
  | some v => exact Or.inl ⟨_, _, _, _, v, Or.inr ⟨rfl, rfl⟩, Or.inr ⟨rfl, rfl⟩, h22⟩
  | none => exact Or.inr (by simp [mulBounds, h11, h12, h21, h22])

theorem Ival.mul_encloses {I J K : Ival} {x y : ℝ} (hx : I.mem x) (hy : J.mem y)
    (h : I.mul J = some K) : K.mem (x * y) := by
  rw [Ival.mul_eq] at h
  cases hlo : minBound (mulBounds I J) with
  | none => simp [hlo] at h
  | some lo =>
    cases hhi : maxBound (mulBounds I J) with
    | none => simp [hlo, hhi] at h
    | some hi =>
      simp only [hlo, hhi, Option.some.injEq] at h
      subst h
      have hc : HasCorner I J := by
        rcases hasCorner_or_nil I J with hc | he
        · exact hc
        · rw [he] at hlo; simp [minBound] at hlo
      obtain ⟨⟨a, fa, b, fb, v, hI, hJ, hv, hLB⟩, ⟨a', fa', b', fb', v', hI', hJ', hv', hUB⟩⟩ :=
        corner_of_mem hx hy hc
      obtain ⟨q, hq, hq'⟩ := minBound_LB _ _ (mem_mulBounds hI hJ hv) hLB
      obtain ⟨r, hr, hr'⟩ := maxBound_UB _ _ (mem_mulBounds hI' hJ' hv') hUB
      rw [hlo] at hq; cases hq
      rw [hhi] at hr; cases hr
      rw [Ival.mem_iff]
      exact ⟨hq', hr'⟩

theorem Ival.div_encloses {I J K : Ival} {x y : ℝ} (hx : I.mem x) (hy : J.mem y) (h0 : y ≠ 0)
    (h : I.div J = some K) : K.mem (x / y) := by
  rw [div_eq_mul_one_div]
  exact Ival.mul_encloses hx (Ival.inverse_encloses hy h0) h

end Holpy.C19
