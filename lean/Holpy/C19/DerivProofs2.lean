import Holpy.C19.DerivProofs1
/-
C19 — syntactic lemmas for `deriv_correct_aux`: the closed-form fragment, values of expressions free of the
variable, unfolding lemmas for `den` / `fn1Den` / `fn1Rule` / `powRule` / `DiffOK`.
-/
namespace Holpy.C19

open Expr

/-- The closed-form fragment: no integral / evaluation / derivative node. -/
def Closed : Expr → Prop
  | var _ => True
  | const _ => True
  | op _ a b => Closed a ∧ Closed b
  | neg a => Closed a
  | fn0 _ => True
  | fn1 _ a => Closed a
  | integral .. => False
  | evalAt .. => False
  | Expr.deriv .. => False

theorem DiffOK_pow_nonconst {a b : Expr} {env : String → ℝ} (hb : ∀ c, b ≠ const c) :
    DiffOK (op .pow a b) env ↔ DiffOK a env ∧ DiffOK b env ∧ 0 < den a env := by
  cases b <;> first | exact absurd rfl (hb _) | simp only [DiffOK]

theorem powRule_nonconst {v : String} {x y dx dy : Expr} (hb : ∀ c, y ≠ const c) :
    powRule v x y dx dy =
      if !(y.containsVar v) then mul (mul y (pow x (sub y (num 1)))) dx
      else mul (fn1 "exp" (mul y (fn1 "log" x)))
        (if !(x.containsVar v) then mul dy (fn1 "log" x)
         else add (mul y (div dx x)) (mul dy (fn1 "log" x))) := by
  cases y <;> first | exact absurd rfl (hb _) | rfl

theorem Closed_of_DiffOK {env : String → ℝ} : ∀ {e : Expr}, DiffOK e env → Closed e := by
  intro e
  induction e with
  | var n => intro _; trivial
  | const q => intro _; trivial
  | op o a b iha ihb =>
    intro h
    cases o with
    | add => simp only [DiffOK] at h; exact ⟨iha h.1, ihb h.2⟩
    | sub => simp only [DiffOK] at h; exact ⟨iha h.1, ihb h.2⟩
    | mul => simp only [DiffOK] at h; exact ⟨iha h.1, ihb h.2⟩
    | div => simp only [DiffOK] at h; exact ⟨iha h.1, ihb h.2.1⟩
    | pow =>
      by_cases hb : ∃ c, b = const c
      · obtain ⟨c, rfl⟩ := hb
        simp only [DiffOK] at h
        exact ⟨iha h.1, trivial⟩
      · rw [DiffOK_pow_nonconst (fun c hc => hb ⟨c, hc⟩)] at h
        exact ⟨iha h.1, ihb h.2.1⟩
  | neg a ih => intro h; simp only [DiffOK] at h; exact ih h
  | fn0 n => intro _; trivial
  | fn1 n a ih =>
    intro h
    simp only [DiffOK] at h
    rcases h.2 with ⟨_, hc⟩ | ⟨h1, _⟩
    · cases a <;> simp [isConst] at hc
      trivial
    · exact ih h1
  | integral t lo hi b => intro h; simp only [DiffOK] at h
  | evalAt t lo hi b => intro h; simp only [DiffOK] at h
  | deriv t b => intro h; simp only [DiffOK] at h

theorem containsVar_fn1 (n : String) (x : Expr) (v : String) :
    (fn1 n x).containsVar v = x.containsVar v := rfl

theorem containsVar_neg (x : Expr) (v : String) : (neg x).containsVar v = x.containsVar v := rfl

theorem containsVar_op (o : BinOp) (a b : Expr) (v : String) :
    (op o a b).containsVar v = (a.containsVar v || b.containsVar v) := by
  simp only [containsVar, getVars, List.contains_append]

/-- An expression of the fragment that does not contain `v` does not depend on the value of `v`. -/
theorem den_update_free {v : String} {env : String → ℝ} (t : ℝ) :
    ∀ {e : Expr}, Closed e → e.containsVar v = false → den e (Function.update env v t) = den e env := by
  intro e
  induction e with
  | var n =>
    intro _ hc
    have hne : n ≠ v := by
      intro hnv; subst hnv; simp [containsVar, getVars] at hc
    simp only [den, Function.update_of_ne hne]
  | const q => intro _ _; simp only [den]
  | op o a b iha ihb =>
    intro hcl hc
    rw [containsVar_op, Bool.or_eq_false_iff] at hc
    have ha := iha hcl.1 hc.1
    have hb := ihb hcl.2 hc.2
    cases o <;> simp only [den, ha, hb]
  | neg a ih => intro hcl hc; simp only [den, ih hcl hc]
  | fn0 n => intro _ _; simp only [den]
  | fn1 n a ih => intro hcl hc; simp only [den, ih hcl hc]
  | integral t lo hi b => intro h; exact h.elim
  | evalAt t lo hi b => intro h; exact h.elim
  | deriv t b => intro h; exact h.elim

theorem hd_free {v : String} {env : String → ℝ} {e : Expr} (hcl : Closed e)
    (hc : e.containsVar v = false) :
    HasDerivAt (fun t => den e (Function.update env v t)) 0 (env v) := by
  have : (fun t => den e (Function.update env v t)) = fun _ => den e env :=
    funext fun t => den_update_free t hcl hc
  rw [this]
  exact hasDerivAt_const _ _

theorem den_at (v : String) (env : String → ℝ) (e : Expr) :
    den e (Function.update env v (env v)) = den e env := by
  rw [Function.update_eq_self]

/-! ### unfolding lemmas -/

theorem den_num (n : Int) (env : String → ℝ) : den (num n) env = (n : ℝ) := by
  simp only [den, Rat.cast_intCast]

theorem fn1Den_sin (x : ℝ) : fn1Den "sin" x = Real.sin x := by simp [fn1Den]
theorem fn1Den_cos (x : ℝ) : fn1Den "cos" x = Real.cos x := by simp [fn1Den]
theorem fn1Den_tan (x : ℝ) : fn1Den "tan" x = Real.tan x := by simp [fn1Den]
theorem fn1Den_cot (x : ℝ) : fn1Den "cot" x = Real.cos x / Real.sin x := by simp [fn1Den]
theorem fn1Den_sec (x : ℝ) : fn1Den "sec" x = 1 / Real.cos x := by simp [fn1Den]
theorem fn1Den_csc (x : ℝ) : fn1Den "csc" x = 1 / Real.sin x := by simp [fn1Den]
theorem fn1Den_exp (x : ℝ) : fn1Den "exp" x = Real.exp x := by simp [fn1Den]
theorem fn1Den_log (x : ℝ) : fn1Den "log" x = Real.log x := by simp [fn1Den]
theorem fn1Den_sqrt (x : ℝ) : fn1Den "sqrt" x = Real.sqrt x := by simp [fn1Den]
theorem fn1Den_atan (x : ℝ) : fn1Den "atan" x = Real.arctan x := by simp [fn1Den]
theorem fn1Den_asin (x : ℝ) : fn1Den "asin" x = Real.arcsin x := by simp [fn1Den]
theorem fn1Den_acos (x : ℝ) : fn1Den "acos" x = Real.arccos x := by simp [fn1Den]
theorem fn1Den_acot (x : ℝ) : fn1Den "acot" x = Real.pi / 2 - Real.arctan x := by simp [fn1Den]

section
variable (v : String) (x dx : Expr)
theorem fn1Rule_sin : fn1Rule v "sin" x dx = mul (fn1 "cos" x) dx := by simp [fn1Rule]
theorem fn1Rule_cos : fn1Rule v "cos" x dx = neg (mul (fn1 "sin" x) dx) := by simp [fn1Rule]
theorem fn1Rule_tan : fn1Rule v "tan" x dx = mul (pow (fn1 "sec" x) (num 2)) dx := by simp [fn1Rule]
theorem fn1Rule_sec : fn1Rule v "sec" x dx = mul (mul (fn1 "sec" x) (fn1 "tan" x)) dx := by
  simp [fn1Rule]
theorem fn1Rule_csc : fn1Rule v "csc" x dx = mul (mul (neg (fn1 "csc" x)) (fn1 "cot" x)) dx := by
  simp [fn1Rule]
theorem fn1Rule_cot : fn1Rule v "cot" x dx = mul (neg (pow (fn1 "csc" x) (num 2))) dx := by
  simp [fn1Rule]
theorem fn1Rule_log : fn1Rule v "log" x dx = div dx x := by simp [fn1Rule]
theorem fn1Rule_exp : fn1Rule v "exp" x dx = mul (fn1 "exp" x) dx := by simp [fn1Rule]
theorem fn1Rule_sqrt : fn1Rule v "sqrt" x dx =
    if x.isConst then num 0
    else mul (mul (const (1/2 : Rat)) (pow x (const ((1/2 : Rat) - 1)))) dx := by simp [fn1Rule]
theorem fn1Rule_atan : fn1Rule v "atan" x dx = div dx (add (num 1) (pow x (num 2))) := by
  simp [fn1Rule]
theorem fn1Rule_asin : fn1Rule v "asin" x dx =
    div dx (fn1 "sqrt" (sub (num 1) (pow x (num 2)))) := by simp [fn1Rule]
theorem fn1Rule_acos : fn1Rule v "acos" x dx =
    neg (div dx (fn1 "sqrt" (sub (num 1) (pow x (num 2))))) := by simp [fn1Rule]
theorem fn1Rule_acot : fn1Rule v "acot" x dx = neg (div dx (add (num 1) (pow x (num 2)))) := by
  simp [fn1Rule]
end

theorem fn1OK_tan (x : ℝ) : fn1OK "tan" x ↔ Real.cos x ≠ 0 := by simp [fn1OK]
theorem fn1OK_sec (x : ℝ) : fn1OK "sec" x ↔ Real.cos x ≠ 0 := by simp [fn1OK]
theorem fn1OK_cot (x : ℝ) : fn1OK "cot" x ↔ Real.sin x ≠ 0 := by simp [fn1OK]
theorem fn1OK_csc (x : ℝ) : fn1OK "csc" x ↔ Real.sin x ≠ 0 := by simp [fn1OK]
theorem fn1OK_log (x : ℝ) : fn1OK "log" x ↔ 0 < x := by simp [fn1OK]
theorem fn1OK_sqrt (x : ℝ) : fn1OK "sqrt" x ↔ 0 < x := by simp [fn1OK]
theorem fn1OK_asin (x : ℝ) : fn1OK "asin" x ↔ -1 < x ∧ x < 1 := by simp [fn1OK]
theorem fn1OK_acos (x : ℝ) : fn1OK "acos" x ↔ -1 < x ∧ x < 1 := by simp [fn1OK]

end Holpy.C19
