import Holpy.C19.Den
import Mathlib.Tactic.FieldSimp
import Mathlib.Tactic.Ring
import Mathlib.Tactic.Linarith
/-
C19 — calculus lemmas behind `deriv_correct_aux`: one lemma per branch of `rules.deriv`, stated for
arbitrary real functions (`f`, `g`, `k` with derivatives `f'`, `g'`, `k'` at `a` and values `fa`, `ga`, `ka`).
-/
namespace Holpy.C19

section RealLemmas
variable {f g k : ℝ → ℝ} {f' g' k' a fa ga ka : ℝ}

theorem hd_add (hf : HasDerivAt f f' a) (hg : HasDerivAt g g' a) :
    HasDerivAt (fun t => f t + g t) (f' + g') a := hf.add hg

theorem hd_sub (hf : HasDerivAt f f' a) (hg : HasDerivAt g g' a) :
    HasDerivAt (fun t => f t - g t) (f' - g') a := hf.sub hg

theorem hd_neg (hf : HasDerivAt f f' a) : HasDerivAt (fun t => - f t) (- f') a := hf.neg

theorem hd_mul (hf : HasDerivAt f f' a) (hg : HasDerivAt g g' a) (hfa : f a = fa) (hga : g a = ga) :
    HasDerivAt (fun t => f t * g t) (fa * g' + f' * ga) a := by
  subst hfa hga; exact (hf.mul hg).congr_deriv (by ring)

theorem hd_mul_left (hf : HasDerivAt f 0 a) (hg : HasDerivAt g g' a) (hfa : f a = fa) :
    HasDerivAt (fun t => f t * g t) (fa * g') a := by
  subst hfa; exact (hf.mul hg).congr_deriv (by ring)

theorem hd_mul_right (hf : HasDerivAt f f' a) (hg : HasDerivAt g 0 a) (hga : g a = ga) :
    HasDerivAt (fun t => f t * g t) (f' * ga) a := by
  subst hga; exact (hf.mul hg).congr_deriv (by ring)

theorem hd_div (hf : HasDerivAt f f' a) (hg : HasDerivAt g g' a) (hfa : f a = fa) (hga : g a = ga)
    (h : ga ≠ 0) :
    HasDerivAt (fun t => f t / g t) ((f' * ga - fa * g') / ga ^ (2 : ℝ)) a := by
  subst hfa hga; rw [Real.rpow_two]; exact hf.div hg h

theorem hd_div_right (hf : HasDerivAt f f' a) (hg : HasDerivAt g 0 a) (hga : g a = ga) (h : ga ≠ 0) :
    HasDerivAt (fun t => f t / g t) (f' / ga) a := by
  subst hga; exact (hf.div hg h).congr_deriv (by field_simp; ring)

/-! ### powers -/

theorem hd_pow_const {c : ℝ} (hf : HasDerivAt f f' a) (hfa : f a = fa) (h : fa ≠ 0 ∨ 1 ≤ c) :
    HasDerivAt (fun t => f t ^ c) (c * fa ^ (c - 1) * f') a := by
  subst hfa; exact (hf.rpow_const h).congr_deriv (by ring)

theorem hd_pow_expfree (hf : HasDerivAt f f' a) (hk : HasDerivAt k 0 a) (hfa : f a = fa) (hka : k a = ka)
    (h : 0 < fa) :
    HasDerivAt (fun t => f t ^ k t) (ka * fa ^ (ka - 1) * f') a := by
  subst hfa hka; exact (hf.rpow hk h).congr_deriv (by ring)

theorem hd_pow_general (hf : HasDerivAt f f' a) (hk : HasDerivAt k k' a) (hfa : f a = fa) (hka : k a = ka)
    (h : 0 < fa) :
    HasDerivAt (fun t => f t ^ k t)
      (Real.exp (ka * Real.log fa) * (ka * (f' / fa) + k' * Real.log fa)) a := by
  subst hfa hka
  refine (hf.rpow hk h).congr_deriv ?_
  rw [Real.rpow_sub_one h.ne', Real.rpow_def_of_pos h, mul_comm (Real.log (f a))]
  field_simp

theorem hd_pow_basefree (hf : HasDerivAt f 0 a) (hk : HasDerivAt k k' a) (hfa : f a = fa) (hka : k a = ka)
    (h : 0 < fa) :
    HasDerivAt (fun t => f t ^ k t) (Real.exp (ka * Real.log fa) * (k' * Real.log fa)) a :=
  (hd_pow_general hf hk hfa hka h).congr_deriv (by simp)

/-! ### `c / y0 ^ y1` with `c` free of the variable -/

/-- exponent free of the variable (in particular a constant exponent); a negative base needs an
integer exponent. -/
theorem hd_div_pow_expfree {p : ℝ} (hf : HasDerivAt f 0 a) (hg : HasDerivAt g g' a) (hfa : f a = fa)
    (hga : g a = ga) (h0 : ga ≠ 0) (hp : 0 < ga ∨ ∃ n : ℤ, p = n) :
    HasDerivAt (fun t => f t / g t ^ p) (fa * ((-p) * ga ^ ((-p) - 1) * g')) a := by
  subst hfa hga
  have hinv : g a ^ (-p) = (g a ^ p)⁻¹ := by
    rcases hp with hp | ⟨n, rfl⟩
    · exact Real.rpow_neg hp.le p
    · rw [show (-(n : ℝ)) = ((-n : ℤ) : ℝ) by push_cast; ring, Real.rpow_intCast, Real.rpow_intCast,
        zpow_neg]
  have hP : g a ^ p ≠ 0 := by
    rcases hp with hp | ⟨n, rfl⟩
    · exact (Real.rpow_pos_of_pos hp p).ne'
    · rw [Real.rpow_intCast]; exact zpow_ne_zero n h0
  have hd := hf.div (hg.rpow_const (p := p) (Or.inl h0)) hP
  refine hd.congr_deriv ?_
  rw [Real.rpow_sub_one h0, Real.rpow_sub_one h0, hinv]
  field_simp
  ring

theorem hd_div_pow_general (hf : HasDerivAt f 0 a) (hg : HasDerivAt g g' a) (hk : HasDerivAt k k' a)
    (hfa : f a = fa) (hga : g a = ga) (hka : k a = ka) (h : 0 < ga) :
    HasDerivAt (fun t => f t / g t ^ k t)
      (fa * (Real.exp ((-ka) * Real.log ga) * ((-ka) * (g' / ga) + (-k') * Real.log ga))) a := by
  have hP : ga ^ ka ≠ 0 := (Real.rpow_pos_of_pos h ka).ne'
  have hd := hf.div (hd_pow_general hg hk hga hka h) (by subst hga hka; exact hP)
  subst hfa hga hka
  refine hd.congr_deriv ?_
  have he : Real.exp (-k a * Real.log (g a)) = (Real.exp (k a * Real.log (g a)))⁻¹ := by
    rw [neg_mul, Real.exp_neg]
  have hE : g a ^ k a = Real.exp (k a * Real.log (g a)) := by
    rw [Real.rpow_def_of_pos h, mul_comm]
  rw [he]
  simp only [hE]
  have := Real.exp_ne_zero (k a * Real.log (g a))
  field_simp
  ring

theorem hd_div_pow_expfree' (hf : HasDerivAt f 0 a) (hg : HasDerivAt g g' a) (hk : HasDerivAt k 0 a)
    (hfa : f a = fa) (hga : g a = ga) (hka : k a = ka) (h : 0 < ga) :
    HasDerivAt (fun t => f t / g t ^ k t) (fa * ((-ka) * ga ^ ((-ka) - 1) * g')) a := by
  refine (hd_div_pow_general hf hg hk hfa hga hka h).congr_deriv ?_
  rw [Real.rpow_sub_one h.ne', Real.rpow_def_of_pos h, mul_comm (Real.log ga)]
  field_simp
  ring

theorem hd_div_pow_basefree (hf : HasDerivAt f 0 a) (hg : HasDerivAt g 0 a) (hk : HasDerivAt k k' a)
    (hfa : f a = fa) (hga : g a = ga) (hka : k a = ka) (h : 0 < ga) :
    HasDerivAt (fun t => f t / g t ^ k t)
      (fa * (Real.exp ((-ka) * Real.log ga) * ((-k') * Real.log ga))) a :=
  (hd_div_pow_general hf hg hk hfa hga hka h).congr_deriv (by simp)

/-! ### the one-argument functions -/

theorem hd_sin (hf : HasDerivAt f f' a) (hfa : f a = fa) :
    HasDerivAt (fun t => Real.sin (f t)) (Real.cos fa * f') a := by
  subst hfa; exact hf.sin

theorem hd_cos (hf : HasDerivAt f f' a) (hfa : f a = fa) :
    HasDerivAt (fun t => Real.cos (f t)) (-(Real.sin fa * f')) a := by
  subst hfa; exact hf.cos.congr_deriv (by ring)

theorem hd_tan (hf : HasDerivAt f f' a) (hfa : f a = fa) (h : Real.cos fa ≠ 0) :
    HasDerivAt (fun t => Real.tan (f t)) ((1 / Real.cos fa) ^ (2 : ℝ) * f') a := by
  subst hfa
  rw [Real.rpow_two]
  exact ((Real.hasDerivAt_tan h).comp a hf).congr_deriv (by field_simp)

theorem hd_sec (hf : HasDerivAt f f' a) (hfa : f a = fa) (h : Real.cos fa ≠ 0) :
    HasDerivAt (fun t => 1 / Real.cos (f t)) (1 / Real.cos fa * Real.tan fa * f') a := by
  subst hfa
  refine ((hasDerivAt_const a (1 : ℝ)).div hf.cos h).congr_deriv ?_
  rw [Real.tan_eq_sin_div_cos]; field_simp; ring

theorem hd_csc (hf : HasDerivAt f f' a) (hfa : f a = fa) (h : Real.sin fa ≠ 0) :
    HasDerivAt (fun t => 1 / Real.sin (f t))
      (-(1 / Real.sin fa) * (Real.cos fa / Real.sin fa) * f') a := by
  subst hfa
  refine ((hasDerivAt_const a (1 : ℝ)).div hf.sin h).congr_deriv ?_
  field_simp; ring

theorem hd_cot (hf : HasDerivAt f f' a) (hfa : f a = fa) (h : Real.sin fa ≠ 0) :
    HasDerivAt (fun t => Real.cos (f t) / Real.sin (f t))
      (-((1 / Real.sin fa) ^ (2 : ℝ)) * f') a := by
  subst hfa
  rw [Real.rpow_two]
  refine (hf.cos.div hf.sin h).congr_deriv ?_
  have := Real.sin_sq_add_cos_sq (f a)
  field_simp
  linear_combination (-f') * this

theorem hd_log (hf : HasDerivAt f f' a) (hfa : f a = fa) (h : 0 < fa) :
    HasDerivAt (fun t => Real.log (f t)) (f' / fa) a := by
  subst hfa; exact hf.log h.ne'

theorem hd_exp (hf : HasDerivAt f f' a) (hfa : f a = fa) :
    HasDerivAt (fun t => Real.exp (f t)) (Real.exp fa * f') a := by
  subst hfa; exact hf.exp

theorem hd_sqrt (hf : HasDerivAt f f' a) (hfa : f a = fa) (h : 0 < fa) :
    HasDerivAt (fun t => Real.sqrt (f t)) (1 / 2 * fa ^ ((1 / 2 : ℝ) - 1) * f') a := by
  subst hfa
  have : (fun t => Real.sqrt (f t)) = fun t => f t ^ (1 / 2 : ℝ) :=
    funext fun t => Real.sqrt_eq_rpow _
  rw [this]
  exact (hf.rpow_const (Or.inl h.ne')).congr_deriv (by ring)

theorem hd_atan (hf : HasDerivAt f f' a) (hfa : f a = fa) :
    HasDerivAt (fun t => Real.arctan (f t)) (f' / (1 + fa ^ (2 : ℝ))) a := by
  subst hfa; rw [Real.rpow_two]
  exact hf.arctan.congr_deriv (by ring)

theorem hd_acot (hf : HasDerivAt f f' a) (hfa : f a = fa) :
    HasDerivAt (fun t => Real.pi / 2 - Real.arctan (f t)) (-(f' / (1 + fa ^ (2 : ℝ)))) a := by
  subst hfa; rw [Real.rpow_two]
  exact (hf.arctan.const_sub (Real.pi / 2)).congr_deriv (by ring)

theorem hd_asin (hf : HasDerivAt f f' a) (hfa : f a = fa) (h : -1 < fa ∧ fa < 1) :
    HasDerivAt (fun t => Real.arcsin (f t)) (f' / Real.sqrt (1 - fa ^ (2 : ℝ))) a := by
  subst hfa; rw [Real.rpow_two]
  exact ((Real.hasDerivAt_arcsin h.1.ne' h.2.ne).comp a hf).congr_deriv (by ring)

theorem hd_acos (hf : HasDerivAt f f' a) (hfa : f a = fa) (h : -1 < fa ∧ fa < 1) :
    HasDerivAt (fun t => Real.arccos (f t)) (-(f' / Real.sqrt (1 - fa ^ (2 : ℝ)))) a := by
  subst hfa; rw [Real.rpow_two]
  exact ((Real.hasDerivAt_arccos h.1.ne' h.2.ne).comp a hf).congr_deriv (by ring)

end RealLemmas

end Holpy.C19
