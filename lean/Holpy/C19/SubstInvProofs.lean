import Holpy.C19.Rules2Sem
import Holpy.C19.SubstProofs
import Holpy.C19.PartsProofs
/-
C19 — `substInvM_value`: under `SubstInvOK`, the inverse substitution rule `x = h(u)` on a definite integral
preserves the value.
-/
namespace Holpy.C19

open Expr MeasureTheory Set

/-- Replacing the variable `x` by `h` in a closed-form expression: the value is that of the expression with `x`
set to the value of `h`. -/
theorem den_replaceE_var (x : String) (h : Expr) (env : String → ℝ) :
    ∀ {e : Expr}, Closed e →
      den (replaceE (var x) h e) env = den e (Function.update env x (den h env)) := by
  intro e
  induction e with
  | var n =>
    intro _
    by_cases hn : n = x
    · subst hn; simp [replaceE, den]
    · have hne : ¬ (var n = var x) := fun hc => hn (by injection hc)
      simp only [replaceE, beq_iff_eq, hne, if_false, den, Function.update_of_ne hn]
  | const q => intro _; simp [replaceE, den]
  | op o a b iha ihb =>
    intro hcl
    have ha := iha hcl.1
    have hb := ihb hcl.2
    have hne : ¬ (op o a b = var x) := fun hc => by cases hc
    simp only [replaceE, beq_iff_eq, hne, if_false]
    cases o <;> simp only [den, ha, hb]
  | neg a ih =>
    intro hcl
    have hne : ¬ (neg a = var x) := fun hc => by cases hc
    simp only [replaceE, beq_iff_eq, hne, if_false, den, ih hcl]
  | fn0 n => intro _; simp [replaceE, den]
  | fn1 n a ih =>
    intro hcl
    have hne : ¬ (fn1 n a = var x) := fun hc => by cases hc
    simp only [replaceE, beq_iff_eq, hne, if_false, den, ih hcl]
  | integral t lo hi b => intro h; exact h.elim
  | evalAt t lo hi b => intro h; exact h.elim
  | deriv t b => intro h; exact h.elim

/-- The analytic core: change of variables `t = h(s)`. -/
theorem substInv_change_of_var (u x : String) (h lo' hi' a b body : Expr) (env : String → ℝ)
    (hyp : SubstInvOK u x h lo' hi' a b body env) :
    (∫ s in (den lo' env)..(den hi' env),
        den (mul (replaceE (var x) h body) (derivM u h)) (at' env u s)) =
      ∫ t in (den a env)..(den b env), den body (at' env x t) := by
  obtain ⟨⟨hux, hbu⟩, ⟨hb, _⟩, hdiff, hcont, fcont, lo_eq, hi_eq⟩ := hyp
  have hderiv : ∀ s ∈ uIcc (den lo' env) (den hi' env),
      HasDerivAt (fun s => den h (at' env u s)) (den (derivM u h) (at' env u s)) s :=
    fun s hs => hasDerivAt_den u h env s (hdiff s hs)
  have hcomp : ∀ s : ℝ,
      den (replaceE (var x) h body) (at' env u s) = den body (at' env x (den h (at' env u s))) := by
    intro s
    rw [den_replaceE_var x h (at' env u s) hb]
    have h2 : Function.update (at' env u s) x (den h (at' env u s)) =
        Function.update (at' env x (den h (at' env u s))) u s := by
      simp only [at']
      exact Function.update_comm hux _ _ _
    rw [h2, den_update_free s hb hbu]
  have hcv := intervalIntegral.integral_comp_mul_deriv'
    (g := fun t => den body (at' env x t)) hderiv hcont fcont
  rw [lo_eq, hi_eq] at hcv
  rw [← hcv]
  apply intervalIntegral.integral_congr
  intro s _
  simp only [Function.comp, den]
  rw [hcomp s]

/-- `SubstitutionInverse(u, h)` on `INT x:[a,b]. body` preserves the value, under the side conditions `SubstInvOK`. -/
theorem substInvM_value (u x : String) (h lo' hi' a b body : Expr) (swap : Bool) (env : String → ℝ)
    (hyp : SubstInvOK u x h lo' hi' a b body env) :
    den (substInvM u h lo' hi' swap (integral x a b body)) env = den (integral x a b body) env := by
  have key := substInv_change_of_var u x h lo' hi' a b body env hyp
  cases swap with
  | false =>
    simp only [substInvM, Bool.false_eq_true, if_false]
    simp only [den] at key ⊢
    exact key
  | true =>
    simp only [substInvM, if_true]
    simp only [den] at key ⊢
    rw [intervalIntegral.integral_symm, neg_neg]
    exact key

end Holpy.C19
