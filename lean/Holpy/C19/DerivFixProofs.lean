import Holpy.C19.DerivFix
import Holpy.C19.DerivProofs
/-
C19 — on expressions without derivative / integral / evaluation nodes the fixed `derivM'` is `derivM`.
-/
namespace Holpy.C19

open Expr

theorem mentionsDeriv_closed (v : String) : ∀ {e : Expr}, Closed e → mentionsDeriv v e = false := by
  intro e
  induction e with
  | var n => intro _; rfl
  | const q => intro _; rfl
  | fn0 n => intro _; rfl
  | op o a b iha ihb => intro h; simp [mentionsDeriv, iha h.1, ihb h.2]
  | neg a iha => intro h; simp [mentionsDeriv, iha h]
  | fn1 n a iha => intro h; simp [mentionsDeriv, iha h]
  | integral v' lo hi b _ _ _ => intro h; exact absurd h (by simp [Closed])
  | evalAt v' lo hi b _ _ _ => intro h; exact absurd h (by simp [Closed])
  | deriv v' b _ => intro h; exact absurd h (by simp [Closed])

theorem dep_closed (v : String) {e : Expr} (h : Closed e) : dep e v = e.containsVar v := by
  simp [dep, mentionsDeriv_closed v h]

theorem powRule'_eq (v : String) (x y dx dy : Expr) (hx : Closed x) (hy : Closed y) :
    powRule' v x y dx dy = powRule v x y dx dy := by
  have hlx : Closed (fn1 "log" x) := by simpa [Closed] using hx
  cases y <;> simp [powRule', powRule, dep_closed v hy, dep_closed v hlx]

/-- Strengthened statement: also for the two arguments of a power (needed in the `c / y0 ^ y1` case). -/
def DerivEqAt (v : String) (e : Expr) : Prop :=
  derivM' v e = derivM v e ∧
    (match e with
     | op .pow y0 y1 => derivM' v y0 = derivM v y0 ∧ derivM' v y1 = derivM v y1
     | _ => True)

theorem derivEqAt (v : String) : ∀ (e : Expr), Closed e → DerivEqAt v e := by
  intro e
  induction e with
  | var n => intro _; exact ⟨by simp [derivM', derivM], trivial⟩
  | const q => intro _; exact ⟨by simp [derivM', derivM], trivial⟩
  | fn0 n => intro _; exact ⟨by simp [derivM', derivM], trivial⟩
  | neg a iha => intro h; exact ⟨by simp [derivM', derivM, (iha h).1], trivial⟩
  | fn1 n a iha => intro h; exact ⟨by simp [derivM', derivM, (iha h).1], trivial⟩
  | integral v' lo hi b _ _ _ => intro h; exact absurd h (by simp [Closed])
  | evalAt v' lo hi b _ _ _ => intro h; exact absurd h (by simp [Closed])
  | deriv v' b _ => intro h; exact absurd h (by simp [Closed])
  | op o a b iha ihb =>
    intro h
    have ha := (iha h.1).1
    have hb := (ihb h.2).1
    have hda := dep_closed v h.1
    have hdb := dep_closed v h.2
    cases o with
    | add => exact ⟨by simp [derivM', derivM, ha, hb], trivial⟩
    | sub => exact ⟨by simp [derivM', derivM, ha, hb], trivial⟩
    | mul => exact ⟨by simp [derivM', derivM, ha, hb, hda, hdb], trivial⟩
    | pow => exact ⟨by simp [derivM', derivM, ha, hb, powRule'_eq v a b _ _ h.1 h.2], ha, hb⟩
    | div =>
      refine ⟨?_, trivial⟩
      cases b with
      | op o2 y0 y1 =>
        have h01 : Closed y0 ∧ Closed y1 := h.2
        cases o2 with
        | pow =>
          obtain ⟨hy0, hy1⟩ := (ihb h.2).2
          have hn : Closed (neg y1) := h01.2
          simp [derivM', derivM, ha, hda, hdb, hy0, hy1, powRule'_eq v y0 (neg y1) _ _ h01.1 hn,
            powRule'_eq v y0 y1 _ _ h01.1 h01.2]
        | add =>
          simp only [derivM', derivM] at hb ⊢
          simp_all
        | sub =>
          simp only [derivM', derivM] at hb ⊢
          simp_all
        | mul =>
          simp only [derivM', derivM] at hb ⊢
          simp_all
        | div =>
          simp only [derivM', derivM] at hb ⊢
          simp_all
      | var n => simp [derivM', derivM, ha, hb, hdb]
      | const q => simp [derivM', derivM, ha, hb, hdb]
      | fn0 n => simp [derivM', derivM, ha, hb, hdb]
      | neg y =>
        simp only [derivM', derivM] at hb ⊢
        simp_all
      | fn1 n y =>
        simp only [derivM', derivM] at hb ⊢
        simp_all
      | integral v' lo hi y => exact absurd h.2 (by simp [Closed])
      | evalAt v' lo hi y => exact absurd h.2 (by simp [Closed])
      | deriv v' y => exact absurd h.2 (by simp [Closed])

theorem derivM'_eq (v : String) (e : Expr) (h : Closed e) : derivM' v e = derivM v e := (derivEqAt v e h).1

end Holpy.C19
