import Holpy.Common.Sexp
import Holpy.C19.Model
import Holpy.C19.Parser
import Holpy.C19.Linearity
import Holpy.C19.Rules
import Holpy.C19.Rules2
import Holpy.C19.DerivFix
import Holpy.C19.Poly
/-
Line protocol for the C19 model (one s-expression in, one out).

  EXPR  = (v NAME) | (c NUM DEN) | (+ A B) | (- A B) | (* A B) | (/ A B) | (^ A B) | (neg A)
        | (f0 NAME) | (f1 NAME A) | (int V LO HI BODY) | (at V LO HI BODY) | (d V BODY)
  BOUND = -oo | oo | (NUM DEN)         IVAL = (BOUND BOUND T|F T|F)      -- (lo hi left_open right_open)

  (deriv V EXPR)        -> (ok EXPR) | raises
  (print EXPR)          -> (str ATOM) (tok ATOM ...)      printed string (percent-encoded), and whether
                                                          lexing it gives the printer's token list: T|F
  (parse ATOM)          -> (ok EXPR) | fail               parser model on a percent-encoded string
  (lin EXPR)            -> EXPR                           Linearity().eval (fuel: 4 * size + 8)
  (split C EXPR)        -> EXPR                           SplitRegion(C).eval, non-CPV branch
  (subst U G Q T|F EXPR) -> EXPR                          Substitution(U, G).eval with recorded normalize result Q, swap flag
  (parts U V EXPR)      -> EXPR                           IntegrationByParts(U, V).eval once accepted
  (ftc F EXPR)          -> EXPR                           INT x:[a,b]. f ~> [F]_x=a,b
  (equation OLD NEW T|F EXPR) -> (ok EXPR) | raises      Equation(OLD, NEW).eval; flag = acceptance test succeeded
  (substinv U H LO HI T|F EXPR) -> EXPR                   SubstitutionInverse(U, H).eval with computed bounds, swap flag
  (getcoeff L NE) -> EXPR     (ibe L NE C) -> EXPR        IntegrateByEquation: get_coeff, result before normalize
  (isqrt I) (iexp I) (ilog I) -> SIVAL = (SB SB T|F T|F), SB = -oo | oo | (NUM DEN) | (app NAME NUM DEN)
  (icontained I J) -> T|F        (iinter I J) -> IVAL
  (normalize (EXPR ...) EXPR) -> (ok EXPR) | zerodiv | valueerr | unsupported   poly.normalize on the polynomial
                                  fragment; first argument: the bases for which Conditions.is_nonzero said True
  (exprlt A B) -> T|F            Expr.__lt__
  (iadd I J) (isub I J) (ineg I) (imul I J) (iinv I) (idiv I J) (ipow I N) -> IVAL | raises
-/
open Holpy Holpy.C19

namespace Holpy.C19.Driver

/-- percent-decoding of harness/common/sexp.py (`%e` = empty, `%<hex>%` = one character). -/
def decAtom (a : String) : String :=
  if a == "%e" then "" else
  let rec go (cs : List Char) (acc : String) (hex : Option String) : String :=
    match cs, hex with
    | [], _ => acc
    | '%' :: rest, none => go rest acc (some "")
    | '%' :: rest, some h =>
      let n := h.toList.foldl (fun acc c =>
        let d := if c.isDigit then c.toNat - '0'.toNat
                 else if 'a' ≤ c && c ≤ 'f' then c.toNat - 'a'.toNat + 10
                 else if 'A' ≤ c && c ≤ 'F' then c.toNat - 'A'.toNat + 10 else 0
        acc * 16 + d) 0
      go rest (acc.push (Char.ofNat n)) none
    | c :: rest, none => go rest (acc.push c) none
    | c :: rest, some h => go rest acc (some (h.push c))
  go a.toList "" none

def safeChars : List Char :=
  "abcdefghijklmnopqrstuvwxyzABCDEFGHIJKLMNOPQRSTUVWXYZ0123456789_-+.'?:=<>!*/&|~^@#$,;[]{}".toList

def hexOf (n : Nat) : String := String.ofList (Nat.toDigits 16 n)

def encAtom (s : String) : String :=
  if s == "" then "%e" else
  s.toList.foldl (fun acc c => if safeChars.contains c then acc.push c else acc ++ "%" ++ hexOf c.toNat ++ "%") ""

def opOf : String → Option BinOp
  | "+" => some .add | "-" => some .sub | "*" => some .mul | "/" => some .div | "^" => some .pow
  | _ => none

def mkRat (n : Int) (d : Nat) : Rat := (n : Rat) / (d : Rat)

partial def exprOf : Sexp → Option Expr
  | .list [.atom "v", .atom n] => some (.var (decAtom n))
  | .list [.atom "c", n, d] => do some (.const (mkRat (← n.toInt?) (← d.toNat?)))
  | .list [.atom "neg", a] => do some (.neg (← exprOf a))
  | .list [.atom "f0", .atom n] => some (.fn0 (decAtom n))
  | .list [.atom "f1", .atom n, a] => do some (.fn1 (decAtom n) (← exprOf a))
  | .list [.atom "int", .atom v, lo, hi, b] => do some (.integral (decAtom v) (← exprOf lo) (← exprOf hi) (← exprOf b))
  | .list [.atom "at", .atom v, lo, hi, b] => do some (.evalAt (decAtom v) (← exprOf lo) (← exprOf hi) (← exprOf b))
  | .list [.atom "d", .atom v, b] => do some (.deriv (decAtom v) (← exprOf b))
  | .list [.atom o, a, b] => do some (.op (← opOf o) (← exprOf a) (← exprOf b))
  | _ => none

def exprTo : Expr → Sexp
  | .var n => .list [.atom "v", .atom (encAtom n)]
  | .const q => .list [.atom "c", Sexp.ofInt q.num, Sexp.ofNat q.den]
  | .op o a b => .list [.atom (opStr o), exprTo a, exprTo b]
  | .neg a => .list [.atom "neg", exprTo a]
  | .fn0 n => .list [.atom "f0", .atom (encAtom n)]
  | .fn1 n a => .list [.atom "f1", .atom (encAtom n), exprTo a]
  | .integral v lo hi b => .list [.atom "int", .atom (encAtom v), exprTo lo, exprTo hi, exprTo b]
  | .evalAt v lo hi b => .list [.atom "at", .atom (encAtom v), exprTo lo, exprTo hi, exprTo b]
  | .deriv v b => .list [.atom "d", .atom (encAtom v), exprTo b]

def boundOf : Sexp → Option Bound
  | .atom "-oo" => some .negInf
  | .atom "oo" => some .posInf
  | .list [n, d] => do some (.fin (mkRat (← n.toInt?) (← d.toNat?)))
  | _ => none

def boundTo : Bound → Sexp
  | .negInf => .atom "-oo"
  | .posInf => .atom "oo"
  | .fin q => .list [Sexp.ofInt q.num, Sexp.ofNat q.den]

def ivalOf : Sexp → Option Ival
  | .list [lo, hi, l, r] => do some ⟨← boundOf lo, ← boundOf hi, ← l.toBool?, ← r.toBool?⟩
  | _ => none

def ivalTo (i : Ival) : Sexp := .list [boundTo i.lo, boundTo i.hi, Sexp.ofBool i.lopen, Sexp.ofBool i.ropen]

def sboundTo : SBound → Sexp
  | .negInf => .atom "-oo"
  | .posInf => .atom "oo"
  | .fin q => .list [Sexp.ofInt q.num, Sexp.ofNat q.den]
  | .app f q => .list [.atom "app", .atom f, Sexp.ofInt q.num, Sexp.ofNat q.den]

def sivalTo (i : SIval) : Sexp := .list [sboundTo i.lo, sboundTo i.hi, Sexp.ofBool i.lopen, Sexp.ofBool i.ropen]

def ivalOptTo : Option Ival → String
  | some i => toString (ivalTo i)
  | none => "raises"

def handle (line : String) : String :=
  match Sexp.parse line with
  | some (.list [.atom "deriv", .atom v, e]) =>
    match exprOf e with
    | some e =>
      let v := decAtom v
      if derivOk' v e then toString (Sexp.list [.atom "ok", exprTo (derivM' v e)]) else "raises"
    | none => "bad-op"
  | some (.list [.atom "print", e]) =>
    match exprOf e with
    | some e =>
      let s := pp e
      let agree := (lex s == some (ppT e))
      toString (Sexp.list [.atom "str", .atom (encAtom s), Sexp.ofBool agree])
    | none => "bad-op"
  | some (.list [.atom "parse", .atom s]) =>
    match parseStr (decAtom s) with
    | some e => toString (Sexp.list [.atom "ok", exprTo e])
    | none => "fail"
  | some (.list [.atom "subst", .atom u, g, q, sw, e]) =>
    match exprOf g, exprOf q, sw.toBool?, exprOf e with
    | some g, some q, some sw, some e => toString (exprTo (substM (decAtom u) g q sw e))
    | _, _, _, _ => "bad-op"
  | some (.list [.atom "equation", o, n, acc, e]) =>
    match exprOf o, exprOf n, acc.toBool?, exprOf e with
    | some o, some n, some acc, some e =>
      match equationM o n acc e with
      | some r => toString (Sexp.list [.atom "ok", exprTo r])
      | none => "raises"
    | _, _, _, _ => "bad-op"
  | some (.list [.atom "substinv", .atom u, h, lo, hi, sw, e]) =>
    match exprOf h, exprOf lo, exprOf hi, sw.toBool?, exprOf e with
    | some h, some lo, some hi, some sw, some e => toString (exprTo (substInvM (decAtom u) h lo hi sw e))
    | _, _, _, _, _ => "bad-op"
  | some (.list [.atom "getcoeff", l, ne]) =>
    match exprOf l, exprOf ne with
    | some l, some ne => toString (exprTo (getCoeff l ne))
    | _, _ => "bad-op"
  | some (.list [.atom "ibe", l, ne, c]) =>
    match exprOf l, exprOf ne, exprOf c with
    | some l, some ne, some c => toString (exprTo (ibeM l ne c))
    | _, _, _ => "bad-op"
  | some (.list [.atom "parts", u, v, e]) =>
    match exprOf u, exprOf v, exprOf e with
    | some u, some v, some e => toString (exprTo (partsM u v e))
    | _, _, _ => "bad-op"
  | some (.list [.atom "ftc", f, e]) =>
    match exprOf f, exprOf e with
    | some f, some e => toString (exprTo (ftcM f e))
    | _, _ => "bad-op"
  | some (.list [.atom "isqrt", i]) =>
    match ivalOf i with
    | some i => toString (sivalTo (Ival.sqrtI i))
    | _ => "bad-op"
  | some (.list [.atom "iexp", i]) =>
    match ivalOf i with
    | some i => toString (sivalTo (Ival.expI i))
    | _ => "bad-op"
  | some (.list [.atom "ilog", i]) =>
    match ivalOf i with
    | some i => toString (sivalTo (Ival.logI i))
    | _ => "bad-op"
  | some (.list [.atom "icontained", i, j]) =>
    match ivalOf i, ivalOf j with
    | some i, some j => toString (Sexp.ofBool (Ival.containedIn i j))
    | _, _ => "bad-op"
  | some (.list [.atom "iinter", i, j]) =>
    match ivalOf i, ivalOf j with
    | some i, some j => toString (ivalTo (Ival.inter i j))
    | _, _ => "bad-op"
  | some (.list [.atom "lin", e]) =>
    match exprOf e with
    | some e => toString (exprTo (linearityM (4 * size e + 8) e))
    | none => "bad-op"
  | some (.list [.atom "split", c, e]) =>
    match exprOf c, exprOf e with
    | some c, some e => toString (exprTo (splitM c e))
    | _, _ => "bad-op"
  | some (.list [.atom "normalize", .list nz, e]) =>
    match nz.mapM exprOf, exprOf e with
    | some nz, some e =>
      match normalizeM nz e with
      | .ok r => toString (Sexp.list [.atom "ok", exprTo r])
      | .error .zeroDiv => "zerodiv"
      | .error .valueErr => "valueerr"
      | .error .unsupported => "unsupported"
    | _, _ => "bad-op"
  | some (.list [.atom "exprlt", a, b]) =>
    match exprOf a, exprOf b with
    | some a, some b => toString (Sexp.ofBool (ltE a b))
    | _, _ => "bad-op"
  | some (.list [.atom "iadd", i, j]) =>
    match ivalOf i, ivalOf j with
    | some i, some j => toString (ivalTo (Ival.add i j))
    | _, _ => "bad-op"
  | some (.list [.atom "isub", i, j]) =>
    match ivalOf i, ivalOf j with
    | some i, some j => toString (ivalTo (Ival.sub i j))
    | _, _ => "bad-op"
  | some (.list [.atom "ineg", i]) =>
    match ivalOf i with
    | some i => toString (ivalTo (Ival.neg i))
    | _ => "bad-op"
  | some (.list [.atom "imul", i, j]) =>
    match ivalOf i, ivalOf j with
    | some i, some j => ivalOptTo (Ival.mul i j)
    | _, _ => "bad-op"
  | some (.list [.atom "iinv", i]) =>
    match ivalOf i with
    | some i => toString (ivalTo (Ival.inverse i))
    | _ => "bad-op"
  | some (.list [.atom "idiv", i, j]) =>
    match ivalOf i, ivalOf j with
    | some i, some j => ivalOptTo (Ival.div i j)
    | _, _ => "bad-op"
  | some (.list [.atom "ipow", i, n]) =>
    match ivalOf i, n.toNat? with
    | some i, some n => toString (ivalTo (Ival.powNat i n))
    | _, _ => "bad-op"
  | _ => "bad-op"

end Holpy.C19.Driver

def main : IO Unit := Holpy.lineLoop Holpy.C19.Driver.handle
