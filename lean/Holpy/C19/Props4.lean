import Holpy.C19.DerivFixProofs
/-
C19 — property theorems, part 4: `deriv` after fix C19-13 (`derivM'`, DerivFix.lean — the function the driver runs
and the harness compares with `rules.deriv`).
-/
namespace Holpy.C19

open Expr

/-- The fixed `deriv` (dependence test `depends`: a sub-expression `D x. …` depends on `x`; derivative nodes are
differentiated to an unevaluated higher derivative) coincides with the earlier model on every expression without
derivative / integral / evaluation nodes. -/
theorem deriv_fix_agrees (v : String) (e : Expr) (h : Closed e) : derivM' v e = derivM v e := derivM'_eq v e h

/-- `deriv_correct` for the function the code now computes: on the closed-form fragment the value of
`rules.deriv(v, e)` (fixed, before normalisation) is the derivative of the value of `e`. -/
theorem deriv_correct_fixed (v : String) (e : Expr) (env : String → ℝ) (h : DiffOK e env) :
    HasDerivAt (fun x => den e (Function.update env v x)) (den (derivM' v e) env) (env v) := by
  rw [derivM'_eq v e (Closed_of_DiffOK h)]
  exact deriv_correct_aux v e env h

/-- Non-vacuity and the repaired behaviour: in `x * (D x. x ^ 2)` the factor `D x. x ^ 2` is no longer treated as
constant in `x` (product rule, where the old model returned `1 * (D x. x ^ 2)`); and a closed-form instance of `DiffOK`. -/
example : derivM' "x" (mul (var "x") (deriv "x" (pow (var "x") (num 2)))) =
    add (mul (var "x") (deriv "x" (deriv "x" (pow (var "x") (num 2))))) (mul (num 1) (deriv "x" (pow (var "x") (num 2)))) := by
  decide +kernel
example : derivM "x" (mul (var "x") (deriv "x" (pow (var "x") (num 2)))) =
    mul (num 1) (deriv "x" (pow (var "x") (num 2))) := by decide +kernel
example : DiffOK (mul (var "x") (fn1 "exp" (var "x"))) (fun _ => 1) := by simp [DiffOK, knownFn1, fn1OK]

end Holpy.C19
