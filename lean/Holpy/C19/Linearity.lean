import Holpy.C19.Model
/-
C19 — executable model of `rules.Linearity.eval` (definite integrals) and of `rules.SplitRegion.eval`
(the branch that does not introduce a principal value).  Import-free; linked into the driver.

`Linearity.eval`'s `rec` on `INT v:[lo,hi]. body`:
  body = a + b      ->  rec(INT a) + rec(INT b)
  body = -a         ->  -rec(INT a)
  body = a - b      ->  rec(INT a) - rec(INT b)
  body = a * b | a / b:
        num, den = decompose_expr_factor(body)
        b  = prod(f in num if f contains v);   c  = prod(f in num if not)
        db = prod(f in den if f contains v);   dc = prod(f in den if not)
        if db != 1: b = b / db;  if dc != 1: c = c / dc
        if c == 1: INT b   else: c * rec(INT b)
  body constant, body != 1  ->  body * INT 1
  otherwise          ->  unchanged
Anything that is not a definite integral is returned unchanged (indefinite integrals, limits and sums are not in
the model's expression type).  The Python recursion has no bound; the model takes fuel (the driver passes more
than the recursion can use; the theorems hold for every fuel).
-/
namespace Holpy.C19

open Expr

/-- `decompose_expr_factor`: numerator and denominator factors in the order the Python appends them
(`sign = true` is the Python's `sign == 1`). -/
def decomp : Expr → Bool → List Expr × List Expr
  | op .mul a b, s =>
    let r1 := decomp a s
    let r2 := decomp b s
    (r1.1 ++ r2.1, r1.2 ++ r2.2)
  | neg a, s =>
    let r := decomp a s
    (const (-1) :: r.1, r.2)
  | op .div a b, s =>
    let r1 := decomp a s
    let r2 := decomp b (!s)
    (r1.1 ++ r2.1, r1.2 ++ r2.2)
  | e, true => ([e], [])
  | e, false => ([], [e])

/-- `prod` of `Linearity.eval`: empty product is `1`, otherwise a left fold of `*`. -/
def prodE : List Expr → Expr
  | [] => const 1
  | x :: xs => xs.foldl (fun acc y => mul acc y) x

/-- The constant part `c` and the variable part `b` of a product/quotient integrand. -/
def splitFactors (v : String) (body : Expr) : Expr × Expr :=
  let r := decomp body true
  let b := prodE (r.1.filter (fun f => f.containsVar v))
  let c := prodE (r.1.filter (fun f => !(f.containsVar v)))
  let db := prodE (r.2.filter (fun f => f.containsVar v))
  let dc := prodE (r.2.filter (fun f => !(f.containsVar v)))
  let b := if db != const 1 then div b db else b
  let c := if dc != const 1 then div c dc else c
  (c, b)

/-- `Expr.is_constant`. -/
def isConstant : Expr → Bool
  | const _ => true
  | op _ a b => isConstant a && isConstant b
  | neg a => isConstant a
  | fn0 _ => true
  | fn1 _ a => isConstant a
  | _ => false

def isMulDiv : Expr → Bool
  | op .mul _ _ => true
  | op .div _ _ => true
  | _ => false

/-- `rec(Integral(v, lo, hi, body))` of `Linearity.eval`. -/
def linBody (v : String) (lo hi : Expr) : Nat → Expr → Expr
  | 0, body => integral v lo hi body
  | fuel + 1, body =>
    match body with
    | op .add a b => add (linBody v lo hi fuel a) (linBody v lo hi fuel b)
    | neg a => neg (linBody v lo hi fuel a)
    | op .sub a b => sub (linBody v lo hi fuel a) (linBody v lo hi fuel b)
    | _ =>
      if isMulDiv body then
        let cb := splitFactors v body
        if cb.1 == const 1 then integral v lo hi cb.2
        else mul cb.1 (linBody v lo hi fuel cb.2)
      else if isConstant body && body != const 1 then mul body (integral v lo hi (const 1))
      else integral v lo hi body

/-- `Linearity().eval(e, ctx)` on the model's expressions. -/
def linearityM (fuel : Nat) : Expr → Expr
  | integral v lo hi body => linBody v lo hi fuel body
  | e => e

/-- `SplitRegion(c).eval(e, ctx)` when `e` is a definite integral and the split point is not a pole
(non-CPV branch); other expressions are returned unchanged (the Python then looks for the first integral inside,
which the harness does not exercise). -/
def splitM (c : Expr) : Expr → Expr
  | integral v lo hi body => add (integral v lo c body) (integral v c hi body)
  | e => e

def size : Expr → Nat
  | op _ a b => size a + size b + 1
  | neg a => size a + 1
  | fn1 _ a => size a + 1
  | integral _ lo hi b => size lo + size hi + size b + 1
  | evalAt _ lo hi b => size lo + size hi + size b + 1
  | deriv _ b => size b + 1
  | _ => 1

end Holpy.C19
