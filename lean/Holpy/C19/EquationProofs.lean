import Holpy.C19.Rules2Sem
import Mathlib.Tactic.FieldSimp
import Mathlib.Tactic.Ring
/-
C19 — rewriting a subterm by an expression of equal value preserves the value (`replaceFirst`), and the algebra of
`IntegrateByEquation`.
-/
namespace Holpy.C19

open Expr MeasureTheory

theorem replaceFirst_value (old new : Expr) (h : ∀ env, den old env = den new env) :
    ∀ (e : Expr) (env : String → ℝ), den (replaceFirst old new e).1 env = den e env := by
  intro e
  induction e with
  | var n => intro env; simp only [replaceFirst]; split <;> simp_all
  | const q => intro env; simp only [replaceFirst]; split <;> simp_all
  | fn0 n => intro env; simp only [replaceFirst]; split <;> simp_all
  | op o a b iha ihb =>
    intro env
    simp only [replaceFirst]
    split
    · rename_i heq; have := (beq_iff_eq.mp heq); rw [← h env, ← this]
    · split
      · cases o <;> simp only [den, iha]
      · cases o <;> simp only [den, ihb]
  | neg a iha =>
    intro env
    simp only [replaceFirst]
    split
    · rename_i heq; have := (beq_iff_eq.mp heq); rw [← h env, ← this]
    · simp only [den, iha]
  | fn1 n a iha =>
    intro env
    simp only [replaceFirst]
    split
    · rename_i heq; have := (beq_iff_eq.mp heq); rw [← h env, ← this]
    · simp only [den, iha]
  | integral v lo hi b ihlo ihhi ihb =>
    intro env
    simp only [replaceFirst]
    split
    · rename_i heq; have := (beq_iff_eq.mp heq); rw [← h env, ← this]
    · split
      · simp only [den, ihlo]
      · split
        · simp only [den, ihhi]
        · simp only [den, ihb]
  | evalAt v lo hi b ihlo ihhi ihb =>
    intro env
    simp only [replaceFirst]
    split
    · rename_i heq; have := (beq_iff_eq.mp heq); rw [← h env, ← this]
    · split
      · simp only [den, ihlo]
      · split
        · simp only [den, ihhi]
        · simp only [den, ihb]
  | deriv v b ihb =>
    intro env
    simp only [replaceFirst]
    split
    · rename_i heq; have := (beq_iff_eq.mp heq); rw [← h env, ← this]
    · simp only [den, ihb]

theorem equationM_value (old new : Expr) (accepted : Bool) (e r : Expr)
    (h : ∀ env, den old env = den new env) (hr : equationM old new accepted e = some r) :
    ∀ env, den r env = den e env := by
  intro env
  simp only [equationM] at hr
  by_cases hc : ((replaceFirst old new e).2 && accepted) = true
  · rw [if_pos hc] at hr
    cases hr; exact replaceFirst_value old new h e env
  · rw [if_neg hc] at hr
    cases hr

theorem ibeM_value (L ne c : Expr) (env : String → ℝ)
    (hinv : den ne env = den L env) (hc : den c env ≠ 1) :
    den (ibeM L ne c) env = den L env := by
  have h1 : (1 : ℝ) - den c env ≠ 0 := fun h0 => hc (by linarith)
  simp only [ibeM, den, num, hinv]
  push_cast
  field_simp
  ring

end Holpy.C19
