import Holpy.C19.ParseProofs1
/-
C19 — round trip `parse ∘ print` on token lists: constants, the printer's bracket decisions, and the main
induction.  Results: `parse_print_toks` (and `parse_print_toks_bound`, `parse_print_toks_fuel`).
-/
namespace Holpy.C19

open Expr

/-! ## Constants -/

def intToks (z : Int) : List Tok := (if z < 0 then [Tok.sym "-"] else []) ++ [.nat z.natAbs]

theorem ratToks_eq (q : Rat) :
    ratToks q = if q.den = 1 then intToks q.num else intToks q.num ++ .sym "/" :: [.nat q.den] := by
  unfold ratToks intToks
  by_cases h : q.den = 1 <;> simp [h]

theorem natAbs_cast_of_nonneg {z : Int} (h : 0 ≤ z) : ((z.natAbs : Nat) : Rat) = (z : Rat) := by
  rw [← Rat.intCast_natCast, Int.natAbs_of_nonneg h]

theorem natAbs_cast_of_neg {z : Int} (h : z < 0) : -((z.natAbs : Nat) : Rat) = (z : Rat) := by
  rw [← Rat.intCast_natCast, ← Rat.intCast_neg, Int.ofNat_natAbs_of_nonpos (Int.le_of_lt h), Int.neg_neg]

theorem IsP_int (z : Int) : IsP (intToks z) (const (z : Rat)) := by
  unfold intToks
  by_cases h : z < 0
  · have h1 := IsP_mkNeg (IsA_natTok z.natAbs).toU
    have hpos : (0 : Rat) < ((z.natAbs : Nat) : Rat) := by
      rw [Rat.natCast_pos]; omega
    simp only [mkNeg, hpos, if_true, natAbs_cast_of_neg h] at h1
    simpa [h] using h1
  · have h1 := (IsA_natTok z.natAbs).toPL.toP
    rw [natAbs_cast_of_nonneg (by omega)] at h1
    simpa [h] using h1

theorem rat_eq_num_div_den (q : Rat) : (q.num : Rat) / ((q.den : Nat) : Rat) = q := by
  rw [← Rat.intCast_natCast, ← Rat.divInt_eq_div, Rat.num_divInt_den]

theorem rat_eq_num_of_den_one {q : Rat} (h : q.den = 1) : ((q.num : Int) : Rat) = q :=
  Rat.ext rfl h.symm

theorem IsTL_frac (q : Rat) : IsTL (intToks q.num ++ .sym "/" :: [.nat q.den]) (const q) := by
  refine IsTL_div (IsP_int q.num).toTL (IsA_natTok q.den).toPL.toP ?_
  have hd : ((q.den : Nat) : Rat) ≠ 0 := by
    rw [Ne, Rat.natCast_eq_zero_iff]; exact Nat.ne_of_gt q.den_pos
  simp [mkDiv, hd, rat_eq_num_div_den]

/-! ## Priorities -/

theorem prio_cases (e : Expr) :
    prio e = 10 ∨ prio e = 65 ∨ prio e = 70 ∨ prio e = 74 ∨ prio e = 75 ∨ prio e = 80 ∨ prio e = 95 ∨
      prio e = 100 := by
  cases e with
  | const q =>
    simp only [prio]
    split
    · simp
    · split <;> simp
  | op o a b => cases o <;> simp [prio, opPrio]
  | _ => simp [prio]

theorem prio_of_isNeg {e : Expr} (h : isNeg e = true) : prio e = 80 := by
  cases e <;> simp_all [isNeg, prio]

/-! ## The bundle of level facts of a printed expression with priority `p` -/

structure Good (ts : List Tok) (e : Expr) (pr : Nat) (ng : Bool) : Prop where
  s : IsS ts e
  sl : 65 ≤ pr → IsSL ts e
  tl : 70 ≤ pr → IsTL ts e
  p : 70 < pr → IsP ts e
  pl : 75 ≤ pr → ng = false → IsPL ts e
  u : 80 ≤ pr → IsU ts e
  a : 95 ≤ pr → IsA ts e

theorem Good.ofA {ts e} (h : IsA ts e) (p : Nat) (ng : Bool) : Good ts e p ng :=
  ⟨h.toPL.toP.toTL.toT.toSL.toS, fun _ => h.toPL.toP.toTL.toT.toSL, fun _ => h.toPL.toP.toTL,
   fun _ => h.toPL.toP, fun _ _ => h.toPL, fun _ => h.toU, fun _ => h⟩

theorem Good.ofB {ts e} (h : IsB ts e) (ng : Bool) : Good ts e 10 ng :=
  ⟨h.toS, fun h => by omega, fun h => by omega, fun h => by omega, fun h => by omega, fun h => by omega,
   fun h => by omega⟩

theorem Good.ofSL {ts e} (h : IsSL ts e) (ng : Bool) : Good ts e 65 ng :=
  ⟨h.toS, fun _ => h, fun h => by omega, fun h => by omega, fun h => by omega, fun h => by omega,
   fun h => by omega⟩

theorem Good.ofTL {ts e} (h : IsTL ts e) (ng : Bool) : Good ts e 70 ng :=
  ⟨h.toT.toSL.toS, fun _ => h.toT.toSL, fun _ => h, fun h => by omega, fun h => by omega, fun h => by omega,
   fun h => by omega⟩

theorem Good.ofP {ts e} (h : IsP ts e) (ng : Bool) : Good ts e 74 ng :=
  ⟨h.toTL.toT.toSL.toS, fun _ => h.toTL.toT.toSL, fun _ => h.toTL, fun _ => h, fun h => by omega,
   fun h => by omega, fun h => by omega⟩

theorem Good.ofPL {ts e} (h : IsPL ts e) (ng : Bool) : Good ts e 75 ng :=
  ⟨h.toP.toTL.toT.toSL.toS, fun _ => h.toP.toTL.toT.toSL, fun _ => h.toP.toTL, fun _ => h.toP, fun _ _ => h,
   fun h => by omega, fun h => by omega⟩

theorem Good.ofNeg {ts e} (hu : IsU ts e) (h : IsP ts e) : Good ts e 80 true :=
  ⟨h.toTL.toT.toSL.toS, fun _ => h.toTL.toT.toSL, fun _ => h.toTL, fun _ => h, fun _ h => (by cases h),
   fun _ => hu, fun h => by omega⟩

/-! ## Operands -/

def opL (k : Nat) (a : Expr) : List Tok := if prio a < k then parenT (ppT a) else ppT a
def opR (k : Nat) (b : Expr) : List Tok := if prio b ≤ k then parenT (ppT b) else ppT b
def powL (a : Expr) : List Tok := if isNeg a then parenT (ppT a) else opL 75 a

theorem ppT_op (o : BinOp) (a b : Expr) (h : ¬ (o = .div ∧ a.isConst = true ∧ b.isConst = true)) :
    ppT (op o a b) =
      (if o = .pow then powL a else opL (opPrio o) a) ++ .sym (opStr o) :: opR (opPrio o) b := by
  rw [ppT]
  · by_cases ho : o = .pow
    · subst ho
      by_cases hn : isNeg a = true
      · simp [powL, opR, hn, prio_of_isNeg hn, opPrio]
      · simp [powL, opL, opR, hn, opPrio]
        rfl
    · simp [opL, opR, ho]
  · intro qa qb ho ha hb
    subst ho ha hb
    exact h ⟨rfl, rfl, rfl⟩

section
variable {a : Expr} (g : Good (ppT a) a (prio a) (isNeg a))
include g

theorem Good.paren : IsA (parenT (ppT a)) a := IsA_paren g.s

theorem Good.opL65 : IsSL (opL 65 a) a := by
  unfold opL; split
  · exact g.paren.toPL.toP.toTL.toT.toSL
  · exact g.sl (by omega)

theorem Good.opL70 : IsTL (opL 70 a) a := by
  unfold opL; split
  · exact g.paren.toPL.toP.toTL
  · exact g.tl (by omega)

theorem Good.powL : IsPL (powL a) a := by
  unfold Holpy.C19.powL; split
  · exact g.paren.toPL
  · unfold opL; split
    · exact g.paren.toPL
    · exact g.pl (by omega) (by simpa using ‹¬ isNeg a = true›)

theorem Good.opL80 : IsU (opL 80 a) a := by
  unfold opL; split
  · exact g.paren.toU
  · exact g.u (by omega)

theorem Good.opR65 : IsT (opR 65 a) a := by
  unfold opR; split
  · exact g.paren.toPL.toP.toTL.toT
  · exact (g.tl (by have := prio_cases a; omega)).toT

theorem Good.opR70 : IsP (opR 70 a) a := by
  unfold opR; split
  · exact g.paren.toPL.toP
  · exact g.p (by omega)

theorem Good.opR75 : IsU (opR 75 a) a := by
  unfold opR; split
  · exact g.paren.toU
  · exact g.u (by have := prio_cases a; omega)

end

/-! ## Main induction -/

theorem mkNeg_of_WF {a : Expr} (h : ∀ q, a = .const q → ¬ (0 < q)) : mkNeg a = neg a := by
  cases a <;> simp [mkNeg]
  exact h _ rfl

theorem good_ppT (e : Expr) (h : WF e) : Good (ppT e) e (prio e) (isNeg e) := by
  induction e with
  | var n => exact Good.ofA (IsA_var h) _ _
  | const q =>
    simp only [ppT]
    rw [ratToks_eq]
    by_cases hd : q.den = 1
    · by_cases hq : q < 0
      · have : prio (const q) = 74 := by simp [prio, hd, hq]
        rw [this, if_pos hd]
        have := IsP_int q.num
        rw [rat_eq_num_of_den_one hd] at this
        exact Good.ofP this _
      · have hnum : ¬ q.num < 0 := by
          have : 0 ≤ q.num := Rat.num_nonneg.mpr (Rat.not_lt.mp hq)
          omega
        have h1 := IsA_natTok q.num.natAbs
        rw [natAbs_cast_of_nonneg (by omega), rat_eq_num_of_den_one hd] at h1
        rw [if_pos hd]
        simp only [intToks, hnum, if_false, List.nil_append]
        exact Good.ofA h1 _ _
    · have : prio (const q) = 70 := by simp [prio, hd]
      rw [this, if_neg hd]
      exact Good.ofTL (IsTL_frac q) _
  | op o a b iha ihb =>
    obtain ⟨hnc, ha, hb⟩ := h
    have ga := iha ha
    have gb := ihb hb
    rw [ppT_op o a b hnc]
    cases o with
    | add => exact Good.ofSL (IsSL_add ga.opL65 gb.opR65) _
    | sub => exact Good.ofSL (IsSL_sub ga.opL65 gb.opR65) _
    | mul => exact Good.ofTL (IsTL_mul ga.opL70 gb.opR70) _
    | div =>
      refine Good.ofTL (IsTL_div ga.opL70 gb.opR70 ?_) _
      unfold mkDiv
      split
      · exact absurd ⟨rfl, rfl, rfl⟩ hnc
      · rfl
    | pow => exact Good.ofPL (IsPL_pow ga.powL gb.opR75) _
  | neg a iha =>
    have ga := iha h.2
    have hm := mkNeg_of_WF h.1
    have : ppT (neg a) = .sym "-" :: opL 80 a := by simp only [ppT]; rfl
    rw [this]
    exact Good.ofNeg (IsU_neg ga.opL80 hm) (IsP_neg ga.opL80 hm)
  | fn0 n => exact Good.ofA (IsA_fn0 h) _ _
  | fn1 n a iha =>
    simp only [ppT]
    exact Good.ofA (IsA_fn1 h.1 (iha h.2).s) _ _
  | integral v lo hi b ihlo ihhi ihb =>
    simp only [ppT]
    exact Good.ofB (IsB_integral h.1 (ihlo h.2.1).s (ihhi h.2.2.1).s (ihb h.2.2.2).s) _
  | evalAt v lo hi b ihlo ihhi ihb =>
    simp only [ppT]
    exact Good.ofB (IsB_evalAt h.1 (ihlo h.2.1).s (ihhi h.2.2.1).s (ihb h.2.2.2).s) _
  | deriv v b ihb =>
    simp only [ppT]
    exact Good.ofB (IsB_deriv h.1 (ihb h.2).s) _

/-- Parsing the printed token list gives the expression back, with an explicit fuel bound. -/
theorem parse_print_toks_bound (e : Expr) (h : WF e) :
    ∀ fuel, 3 * (ppT e).length + 4 ≤ fuel → parsePlus fuel (ppT e) = some (e, []) := by
  have := (good_ppT e h).s [] (by simp [stopPlus, stopTimes, stopPow])
  simpa [EvN] using this

/-- Parsing the printed token list gives the expression back (for all sufficiently large fuel). -/
theorem parse_print_toks_fuel (e : Expr) (h : WF e) :
    ∃ n, ∀ fuel, n ≤ fuel → parsePlus fuel (ppT e) = some (e, []) :=
  ⟨_, parse_print_toks_bound e h⟩

/-- **Round trip**: parsing the printed token list of a well-formed expression gives the expression back. -/
theorem parse_print_toks (e : Expr) (h : WF e) : parseToks (ppT e) = some e := by
  unfold parseToks
  rw [parse_print_toks_bound e h _ (by omega)]

/-! ## The well-formedness predicate in pattern-matching form -/

/-- `WF` written with overlapping patterns (the form of the task statement); equivalent to `WF`. -/
def WFspec : Expr → Prop
  | .var n => n ∉ keywords
  | .const _ => True
  | .op .div (.const _) (.const _) => False
  | .op _ a b => WFspec a ∧ WFspec b
  | .neg (.const q) => ¬ (0 < q)
  | .neg a => WFspec a
  | .fn0 n => n = "pi" ∨ n = "G"
  | .fn1 n a => n ∉ keywords ∧ WFspec a
  | .integral v lo hi b => v ∉ keywords ∧ WFspec lo ∧ WFspec hi ∧ WFspec b
  | .evalAt v lo hi b => v ∉ keywords ∧ WFspec lo ∧ WFspec hi ∧ WFspec b
  | .deriv v b => v ∉ keywords ∧ WFspec b

theorem WFspec_op (o : BinOp) (a b : Expr) :
    WFspec (op o a b) ↔ ¬ (o = .div ∧ a.isConst = true ∧ b.isConst = true) ∧ WFspec a ∧ WFspec b := by
  cases o <;> cases a <;> cases b <;> simp [WFspec, Expr.isConst]

theorem WFspec_neg (a : Expr) : WFspec (neg a) ↔ (∀ q, a = .const q → ¬ (0 < q)) ∧ WFspec a := by
  cases a <;> simp [WFspec]

theorem WF_iff_WFspec (e : Expr) : WF e ↔ WFspec e := by
  induction e with
  | op o a b iha ihb => rw [WFspec_op, WF, iha, ihb]
  | neg a iha => rw [WFspec_neg, WF, iha]
  | var n => simp [WF, WFspec]
  | const q => simp [WF, WFspec]
  | fn0 n => simp [WF, WFspec]
  | fn1 n a iha => simp [WF, WFspec, iha]
  | integral v lo hi b i1 i2 i3 => simp [WF, WFspec, i1, i2, i3]
  | evalAt v lo hi b i1 i2 i3 => simp [WF, WFspec, i1, i2, i3]
  | deriv v b i1 => simp [WF, WFspec, i1]

theorem parse_print_toks_spec (e : Expr) (h : WFspec e) : parseToks (ppT e) = some e :=
  parse_print_toks e ((WF_iff_WFspec e).mpr h)

end Holpy.C19
