import Holpy.C19.EquationProofs
import Holpy.C19.SubstInvProofs
/-
C19 — property theorems, part 3: rewriting by an equation, inverse substitution, solving `I = a + c * I`.
`replaceFirst`/`equationM`, `substInvM`, `getCoeff`/`ibeM` (Rules2.lean) are compared with the real rules on every
run (stream `rule-models2`).
-/
namespace Holpy.C19

open Expr MeasureTheory Set

/-! ### `Equation`: rewriting a subterm -/

/-- `equationM` mirrors `Equation(old, new).eval`: the first occurrence of `old` (in `find_subexpr` order, also below
integrals, evaluations and derivatives) is replaced by `new`.  If the two sides have the same value in every
environment, the result has the value of the input.
PARTIAL: (1) the rule's acceptance test — equality of normal forms after `FullSimplify`, plus a few algebraic special
cases — is not modelled (`accepted` is an oracle flag recorded from the real run; that an accepted pair has equal
values is judged numerically only); (2) equality of the two sides is required in every environment, whereas the rule
accepts rewrites that are only valid under the stated conditions and inside the range of an enclosing integral. -/
theorem equation_value_partial (old new : Expr) (accepted : Bool) (e r : Expr)
    (h : ∀ env, den old env = den new env) (hr : equationM old new accepted e = some r) :
    ∀ env, den r env = den e env := equationM_value old new accepted e r h hr

/-- Non-vacuity: rewriting `x + x` to `2 * x` inside `INT x:[0,1]. sin(x + x)`. -/
example : equationM (add (var "x") (var "x")) (mul (num 2) (var "x")) true
      (integral "x" (num 0) (num 1) (fn1 "sin" (add (var "x") (var "x")))) =
    some (integral "x" (num 0) (num 1) (fn1 "sin" (mul (num 2) (var "x")))) := by decide +kernel
example : ∀ env, den (add (var "x") (var "x")) env = den (mul (num 2) (var "x")) env := by
  intro env; simp [den, num]; ring

/-! ### `SubstitutionInverse` -/

/-- `substInvM` mirrors `SubstitutionInverse(u, h).eval` on `INT x:[a,b]. body`: new integrand
`body.replace(x, h) * deriv(u, h)` between the rule's computed bounds `lo'`, `hi'` (oracle arguments; negated with
exchanged bounds when `swap`).  The result has the value of the integral under `SubstInvOK`: `u` fresh, `h`
differentiable with continuous derivative between the new bounds, the integrand continuous on the image, and
`h(lo') = a`, `h(hi') = b`.  The code checks none of these (the bounds come from `solve_equation` and limits:
numerical oracle only). -/
theorem substitution_inverse_value (u x : String) (h lo' hi' a b body : Expr) (swap : Bool) (env : String → ℝ)
    (hyp : SubstInvOK u x h lo' hi' a b body env) :
    den (substInvM u h lo' hi' swap (integral x a b body)) env = den (integral x a b body) env :=
  substInvM_value u x h lo' hi' a b body swap env hyp

/-- Non-vacuity: `INT x:[0,2]. x` with `x = 2 * u`, new bounds `0`, `1`. -/
example : substInvM "u" (mul (num 2) (var "u")) (num 0) (num 1) false (integral "x" (num 0) (num 2) (var "x")) =
    integral "u" (num 0) (num 1) (mul (mul (num 2) (var "u")) (mul (num 2) (num 1))) := by decide +kernel

example (env : String → ℝ) :
    SubstInvOK "u" "x" (mul (num 2) (var "u")) (num 0) (num 1) (num 0) (num 2) (var "x") env := by
  have hx : ∀ t : ℝ, Function.update env "x" t "x" = t := fun t => by simp
  have hu : ∀ t : ℝ, Function.update env "u" t "u" = t := fun t => by simp
  refine ⟨⟨by decide, by decide⟩, ⟨by simp [Closed], by simp [Closed]⟩, ?_, ?_, ?_, ?_, ?_⟩
  · intro s _; simp [DiffOK]
  · have : (fun s => den (derivM "u" (mul (num 2) (var "u"))) (at' env "u" s)) = fun _ => ((2 : ℝ) * 1) := by
      funext s; simp [derivM, den, Expr.containsVar, Expr.getVars, num]
    rw [this]; exact continuousOn_const
  · have : (fun t => den (var "x") (at' env "x" t)) = fun t => t := by funext t; simp [den, at', hx]
    rw [this]; exact continuous_id.continuousOn
  · simp [den, at', hu, num]
  · simp [den, at', hu, num]

/-! ### `IntegrateByEquation` -/

/-- `ibeM` is what `IntegrateByEquation(L).eval(e)` returns before its last `normalize`: `(ne + (-c) * L) / (1 - c)`
with `ne = normalize(e)` and `c` the coefficient of `L` in it (`getCoeff`; both recorded from the real run).  In a
calculation of `L` the current expression has the value of `L` (`hinv`); then the result has that value too whenever
`c ≠ 1`.  The code does not test `c ≠ 1` explicitly: for a numeric `c = 1` its `normalize` raises ZeroDivisionError
(no result), for a symbolic `c` the condition is silently assumed. -/
theorem integrate_by_equation_value (L ne c : Expr) (env : String → ℝ)
    (hinv : den ne env = den L env) (hc : den c env ≠ 1) :
    den (ibeM L ne c) env = den L env := ibeM_value L ne c env hinv hc

/-- Non-vacuity: `L = a - L` (coefficient `-1`): `getCoeff` finds `0 - 1`, and the hypotheses are satisfiable. -/
example : getCoeff (var "L") (sub (var "a") (var "L")) = sub (num 0) (num 1) := by decide +kernel
example : ∃ env : String → ℝ, den (sub (var "a") (var "L")) env = den (var "L") env ∧ den (neg (num 1)) env ≠ 1 :=
  ⟨fun n => if n = "a" then 2 else 1, by simp [den]; norm_num, by simp [den, num]; norm_num⟩

end Holpy.C19
