import Holpy.C19.SubstProofs
import Holpy.C19.PartsProofs
import Holpy.C19.IvalProofs4
/-
C19 — property theorems, part 2: Substitution, IntegrationByParts, the table-antiderivative (FTC) shape, and the
remaining `Interval` functions.  `substM`, `partsM`, `ftcM`, `Ival.sqrtI/expI/logI/containedIn/inter` (Rules.lean)
are compared with the real rules / `integral/interval.py` on every run (streams `rule-models`, `interval-fun`).
-/
namespace Holpy.C19

open Expr MeasureTheory Set

/-! ### Substitution -/

/-- `substM` mirrors `Substitution(u, g).eval` on `INT x:[a,b]. body` (branch where replacing `g` by `u` in the
rule's `q = normalize(body / deriv g)` clears `x`; new bounds `g(a)`, `g(b)`, swapped with a negated integrand when
`swap`): the result has the value of the integral for every recorded `q` and both values of `swap`, under `SubstOK` —
`u` fresh, `g` differentiable with continuous non-vanishing derivative on the interval, `q` has the value of
`body / g'` there, new integrand continuous on the image.  The code checks none of these; it only tests that `g`
contains `x` and that `x` disappears. -/
theorem substitution_value (u x : String) (g q a b body : Expr) (swap : Bool) (env : String → ℝ)
    (h : SubstOK u x g q a b body env) :
    den (substM u g q swap (integral x a b body)) env = den (integral x a b body) env :=
  substM_value u x g q a b body swap env h

/-- Non-vacuity: `INT x:[0,1]. 2 * cos(2 * x + 1)` with `g = 2 * x + 1` and recorded quotient `q = cos(2 * x + 1)`:
the model returns `INT u:[2*0+1, 2*1+1]. cos(u)`, and `SubstOK` holds. -/
example : substM "u" (add (mul (num 2) (var "x")) (num 1)) (fn1 "cos" (add (mul (num 2) (var "x")) (num 1))) false
      (integral "x" (num 0) (num 1) (mul (num 2) (fn1 "cos" (add (mul (num 2) (var "x")) (num 1))))) =
    integral "u" (add (mul (num 2) (num 0)) (num 1)) (add (mul (num 2) (num 1)) (num 1)) (fn1 "cos" (var "u")) := by
  decide +kernel

example (env : String → ℝ) :
    SubstOK "u" "x" (add (mul (num 2) (var "x")) (num 1)) (fn1 "cos" (add (mul (num 2) (var "x")) (num 1)))
      (num 0) (num 1) (mul (num 2) (fn1 "cos" (add (mul (num 2) (var "x")) (num 1)))) env := by
  have hx : ∀ t : ℝ, Function.update env "x" t "x" = t := fun t => by simp
  have hu : ∀ t : ℝ, Function.update env "u" t "u" = t := fun t => by simp
  refine ⟨⟨by decide, by decide, by decide⟩, ⟨by simp [Closed], by simp [Closed]⟩, ?_, ?_, ?_, ?_, ?_⟩
  · intro t _; simp [DiffOK]
  · have : (fun t => den (derivM "x" (add (mul (num 2) (var "x")) (num 1))) (at' env "x" t)) = fun _ => (2 * 1 + 0 : ℝ) := by
      funext t; simp [derivM, den, Expr.containsVar, Expr.getVars, num]
    rw [this]; exact continuousOn_const
  · intro t _; simp [derivM, den, Expr.containsVar, Expr.getVars, num]
  · intro t _
    simp [derivM, den, Expr.containsVar, Expr.getVars, num, fn1Den, at', hx]
  · have : (fun s => den (replaceE (add (mul (num 2) (var "x")) (num 1)) (var "u")
        (fn1 "cos" (add (mul (num 2) (var "x")) (num 1)))) (at' env "u" s)) = fun s => Real.cos s := by
      funext s
      have : replaceE (add (mul (num 2) (var "x")) (num 1)) (var "u")
          (fn1 "cos" (add (mul (num 2) (var "x")) (num 1))) = fn1 "cos" (var "u") := by decide +kernel
      rw [this]; simp [den, fn1Den, at', hu]
    rw [this]; exact Real.continuous_cos.continuousOn

/-! ### Integration by parts -/

/-- `partsM` mirrors `IntegrationByParts(u, v).eval` after its acceptance test: `[u * v]_a^b - INT v * deriv(u)` has the
value of `INT body` under `PartsOK` — `body = u * deriv(v)` on the interval (what the code's
`normalize(u * dv) == body` stands for), `u`, `v` differentiable there, derivatives interval integrable (not checked). -/
theorem parts_value (x : String) (u v a b body : Expr) (env : String → ℝ)
    (h : PartsOK x u v a b body env) :
    den (partsM u v (integral x a b body)) env = den (integral x a b body) env :=
  partsM_value x u v a b body env h

/-- Non-vacuity: `INT x:[0,1]. x * exp(x)` with `u = x`, `v = exp(x)` (`deriv v = exp(x) * 1`). -/
example (env : String → ℝ) :
    PartsOK "x" (var "x") (fn1 "exp" (var "x")) (num 0) (num 1) (mul (var "x") (mul (fn1 "exp" (var "x")) (num 1))) env := by
  refine ⟨?_, ?_, ?_, ?_, ?_⟩
  · intro t _; simp [derivM, fn1Rule, den, num]
  · intro t _; simp [DiffOK]
  · intro t _; simp [DiffOK, knownFn1, fn1OK]
  · apply Continuous.intervalIntegrable; simp only [derivM, den, num]; simp; exact continuous_const
  · apply Continuous.intervalIntegrable
    have : (fun t => den (derivM "x" (fn1 "exp" (var "x"))) (at' env "x" t)) = fun t => Real.exp t * 1 := by
      funext t; simp [derivM, fn1Rule, den, fn1Den, at', num]
    rw [this]; fun_prop

/-! ### Antiderivative from the table (`DefiniteIntegralIdentity`) -/

/-- `ftcM` is the shape `DefiniteIntegralIdentity` produces from a table antiderivative `F`: `[F]_x=a,b` (value
`F(b) - F(a)`, the `EvalAt` semantics) equals `INT x:[a,b]. f` under `FtcOK` — `F` differentiable on the interval, the
value of `deriv F` (the calculator's own `deriv`, by `deriv_correct`) is `f` there, `f` interval integrable.  The code
checks nothing; the harness checks `deriv F = f` for every entry of the base book and every entry it sees used. -/
theorem ftc_value (x : String) (F a b f : Expr) (env : String → ℝ)
    (h : FtcOK x F a b f env) :
    den (ftcM F (integral x a b f)) env = den (integral x a b f) env :=
  ftcM_value x F a b f env h

/-- Non-vacuity: `INT x:[0,1]. cos(x) * 1 = [sin(x)]_x=0,1`. -/
example (env : String → ℝ) :
    FtcOK "x" (fn1 "sin" (var "x")) (num 0) (num 1) (mul (fn1 "cos" (var "x")) (num 1)) env := by
  refine ⟨?_, ?_, ?_⟩
  · intro t _; simp [DiffOK, knownFn1, fn1OK]
  · intro t _; simp [derivM, fn1Rule, den, num]
  · apply Continuous.intervalIntegrable
    have : (fun t => den (mul (fn1 "cos" (var "x")) (num 1)) (at' env "x" t)) = fun t => Real.cos t * 1 := by
      funext t; simp [den, fn1Den, at', num]
    rw [this]; fun_prop

/-! ### Remaining interval functions -/

/-- `Interval.sqrt` (with fix C19-9) encloses `sqrt x` for every non-negative `x` of the interval. -/
theorem interval_encloses_sqrt {I : Ival} {x : ℝ} (hx : I.mem x) (h0 : 0 ≤ x) : (I.sqrtI).mem (Real.sqrt x) :=
  Ival.sqrtI_encloses hx h0

/-- `Interval.exp` encloses `exp x`. -/
theorem interval_encloses_exp {I : Ival} {x : ℝ} (hx : I.mem x) : (I.expI).mem (Real.exp x) := Ival.expI_encloses hx

/-- `Interval.log` encloses `log x` for every positive `x` of the interval. -/
theorem interval_encloses_log {I : Ival} {x : ℝ} (hx : I.mem x) (h0 : 0 < x) : (I.logI).mem (Real.log x) :=
  Ival.logI_encloses hx h0

/-- `Interval.contained_in` (exact endpoints) is sound: a `True` answer means inclusion. -/
theorem interval_contained_in_sound {I J : Ival} {x : ℝ} (h : I.containedIn J = true) (hx : I.mem x) : J.mem x :=
  Ival.containedIn_sound h hx

/-- `Interval.intersection` is the intersection. -/
theorem interval_intersection_mem {I J : Ival} {x : ℝ} : (I.inter J).mem x ↔ I.mem x ∧ J.mem x := Ival.inter_mem

/-- Non-vacuity: `sqrt (-1,4] = [0, sqrt 4]`, `[0,1] ⊆ (-1,2)`, `[0,3] ∩ (1,oo) = (1,3]`. -/
example : Ival.sqrtI ⟨.fin (-1), .fin 4, true, false⟩ = ⟨.fin 0, .app "sqrt" 4, false, false⟩ := by decide +kernel
example : Ival.containedIn ⟨.fin 0, .fin 1, false, false⟩ ⟨.fin (-1), .fin 2, true, true⟩ = true := by decide +kernel
example : Ival.inter ⟨.fin 0, .fin 3, false, false⟩ ⟨.fin 1, .posInf, true, true⟩ = ⟨.fin 1, .fin 3, true, false⟩ := by
  decide +kernel
example : (⟨.fin 0, .fin 1, false, false⟩ : Ival).mem (1 / 2) := by simp [Ival.mem]; norm_num

end Holpy.C19
