import Holpy.C19.Model
/-
C19 — `rules.deriv` after fix C19-13 (import-free; linked into the driver).

`Expr.get_vars` treats the variable of `D x. f` as bound, so `deriv` regarded `a ^ (D x. x ^ 2)` or the factor
`D x. x ^ 2` of `x * (D x. x ^ 2)` as constant in `x` and returned `0` resp. `D x. x ^ 2`.  The fixed code asks
`depends(t) = t.contains_var(x) or t has a sub-expression D x. …` instead, and returns `Deriv(x, e)` for a derivative
node (a higher derivative, left unevaluated).  `derivM'` is `derivM` (Model.lean) with that test; on expressions
without derivative nodes — in particular on the closed-form fragment of `deriv_correct` — the two coincide
(`DerivFixProofs.lean`).
-/
namespace Holpy.C19

open Expr

/-- Does `e` contain a node `D v. …`? -/
def mentionsDeriv (v : String) : Expr → Bool
  | op _ a b => mentionsDeriv v a || mentionsDeriv v b
  | neg a => mentionsDeriv v a
  | fn1 _ a => mentionsDeriv v a
  | integral _ lo hi b => mentionsDeriv v lo || mentionsDeriv v hi || mentionsDeriv v b
  | evalAt _ lo hi b => mentionsDeriv v lo || mentionsDeriv v hi || mentionsDeriv v b
  | deriv t b => t == v || mentionsDeriv v b
  | _ => false

/-- `depends` of the fixed `deriv`. -/
def dep (e : Expr) (v : String) : Bool := e.containsVar v || mentionsDeriv v e

def powRule' (v : String) (x y dx dy : Expr) : Expr :=
  match y with
  | const c => mul (mul y (pow x (const (c - 1)))) dx
  | _ =>
    if !(dep y v) then mul (mul y (pow x (sub y (num 1)))) dx
    else
      -- rec(exp(y * log(x))) = exp(y * log x) * rec(y * log x); here y contains the variable
      let lx := fn1 "log" x
      let inner :=
        if !(dep lx v) then mul dy lx
        else add (mul y (div dx x)) (mul dy lx)
      mul (fn1 "exp" (mul y lx)) inner

/-- `rules.deriv(var, e, ctx)` with `normalize = id`. -/
def derivM' (v : String) : Expr → Expr
  | var n => if n == v then num 1 else num 0
  | const _ => num 0
  | op .add x y => add (derivM' v x) (derivM' v y)
  | op .sub x y => sub (derivM' v x) (derivM' v y)
  | neg x => neg (derivM' v x)
  | op .mul x y =>
    if !(dep x v) then mul x (derivM' v y)
    else if !(dep y v) then mul (derivM' v x) y
    else add (mul x (derivM' v y)) (mul (derivM' v x) y)
  | op .div x y =>
    if !(dep y v) then div (derivM' v x) y
    else
      let general := div (sub (mul (derivM' v x) y) (mul x (derivM' v y))) (pow y (num 2))
      match y with
      | op .pow y0 y1 =>
        if !(dep x v) then
          -- rec(x * (y0 ^ (-y1))): x is free of the variable, so `x * rec(y0 ^ (-y1))`
          mul x (powRule' v y0 (neg y1) (derivM' v y0) (neg (derivM' v y1)))
        else general
      | _ => general
  | op .pow x y => powRule' v x y (derivM' v x) (derivM' v y)
  | fn0 n => if n == "pi" then num 0 else deriv v (fn0 n)
  | fn1 n x => fn1Rule v n x (derivM' v x)
  | integral t lo hi b =>
    sub (add (integral t lo hi (derivM' v b)) (mul (subst t hi b) (derivM' v hi)))
        (mul (subst t lo b) (derivM' v lo))
  | evalAt t lo hi b => deriv v (evalAt t lo hi b)     -- Python raises (see `derivOk`)
  | deriv t b => deriv v (deriv t b)                   -- higher derivative, left unevaluated (fix C19-13)

/-- `powRule` visits the base / exponent only in some branches. -/
def powOk' (v : String) (x y : Expr) (okx oky : Bool) : Bool :=
  match y with
  | const _ => okx
  | _ => if !(dep y v) then okx else oky && (!(dep x v) || okx)

/-- Where the Python `deriv` returns normally: `EvalAt`/`Deriv` nodes *reached by the recursion* raise
`NotImplementedError` (the recursion does not enter unknown functions, nor factors free of the variable). -/
def derivOk' (v : String) : Expr → Bool
  | var _ => true
  | const _ => true
  | op .mul x y =>
    if !(dep x v) then derivOk' v y
    else if !(dep y v) then derivOk' v x
    else derivOk' v x && derivOk' v y
  | op .div x y =>
    if !(dep y v) then derivOk' v x
    else
      let general := derivOk' v x && derivOk' v y
      match y with
      | op .pow y0 y1 =>
        if !(dep x v) then powOk' v y0 (neg y1) (derivOk' v y0) (derivOk' v y1)
        else general
      | _ => general
  | op .pow x y => powOk' v x y (derivOk' v x) (derivOk' v y)
  | op _ x y => derivOk' v x && derivOk' v y
  | neg x => derivOk' v x
  | fn0 _ => true
  | fn1 n x =>
    if n ∈ ["sin", "cos", "tan", "sec", "csc", "cot", "log", "exp", "atan", "asin", "acos", "acot"] then derivOk' v x
    else if n == "sqrt" then (x.isConst || derivOk' v x)
    else true
  | integral _ lo hi b => derivOk' v b && derivOk' v hi && derivOk' v lo
  | evalAt .. => false
  | deriv .. => true


end Holpy.C19
