import Holpy.C19.LinProofs1
/-
C19 — `Linearity.eval` preserves the value of a definite integral (`linBody_value`, `linearityM_value`).
-/
namespace Holpy.C19

open Expr MeasureTheory

/-- a constant expression (`Expr.is_constant`) has the same value in every environment -/
theorem den_of_isConstant : ∀ (e : Expr), isConstant e = true →
    ∀ (env1 env2 : String → ℝ), den e env1 = den e env2 := by
  intro e
  induction e with
  | const q => intro _ _ _; simp only [den]
  | op o a b iha ihb =>
    intro h env1 env2
    simp only [isConstant, Bool.and_eq_true] at h
    have ha := iha h.1 env1 env2
    have hb := ihb h.2 env1 env2
    cases o <;> simp only [den, ha, hb]
  | neg a ih =>
    intro h env1 env2
    simp only [isConstant] at h
    simp only [den, ih h env1 env2]
  | fn0 n => intro _ _ _; simp only [den]
  | fn1 n a ih =>
    intro h env1 env2
    simp only [isConstant] at h
    simp only [den, ih h env1 env2]
  | var n => intro h; simp [isConstant] at h
  | integral t lo hi b => intro h; simp [isConstant] at h
  | evalAt t lo hi b => intro h; simp [isConstant] at h
  | deriv t b => intro h; simp [isConstant] at h

/-- the catch-all branch of `linBody` -/
def linOther (v : String) (lo hi : Expr) (fuel : Nat) (body : Expr) : Expr :=
  if isMulDiv body then
    if (splitFactors v body).1 == const 1 then integral v lo hi (splitFactors v body).2
    else mul (splitFactors v body).1 (linBody v lo hi fuel (splitFactors v body).2)
  else if isConstant body && body != const 1 then mul body (integral v lo hi (const 1))
  else integral v lo hi body

/-- the catch-all branch of `LinOK` -/
def linOKOther (v : String) (lo hi : Expr) (env : String → ℝ) (fuel : Nat) (body : Expr) : Prop :=
  if isMulDiv body then
    ConstIn v (splitFactors v body).1 env ∧ LinOK v lo hi env fuel (splitFactors v body).2
  else True

theorem linOther_value (v : String) (lo hi : Expr) (env : String → ℝ) (fuel : Nat) (body : Expr)
    (ih : ∀ b, LinOK v lo hi env fuel b →
      den (linBody v lo hi fuel b) env = den (integral v lo hi b) env)
    (h : linOKOther v lo hi env fuel body) :
    den (linOther v lo hi fuel body) env = den (integral v lo hi body) env := by
  unfold linOther
  unfold linOKOther at h
  by_cases hmd : isMulDiv body = true
  · rw [if_pos hmd] at h ⊢
    obtain ⟨hc, hb⟩ := h
    have hfac : den (integral v lo hi body) env =
        den (splitFactors v body).1 env * den (integral v lo hi (splitFactors v body).2) env := by
      simp only [den]
      rw [← intervalIntegral.integral_const_mul]
      congr 1
      funext x
      rw [den_splitFactors v body (Function.update env v x), hc x]
    by_cases hone : (splitFactors v body).1 = const 1
    · have : ((splitFactors v body).1 == const 1) = true := by simpa using hone
      rw [if_pos this, hfac, hone, den_const_one, one_mul]
    · have : ((splitFactors v body).1 == const 1) = false := by simpa using hone
      rw [this, hfac]
      simp only [Bool.false_eq_true, if_false]
      show den (splitFactors v body).1 env * den (linBody v lo hi fuel (splitFactors v body).2) env = _
      rw [ih _ hb]
  · rw [if_neg hmd]
    by_cases hcst : (isConstant body && body != const 1) = true
    · rw [if_pos hcst]
      rw [Bool.and_eq_true] at hcst
      have hk : ∀ x, den body (Function.update env v x) = den body env :=
        fun x => den_of_isConstant body hcst.1 _ _
      simp only [den, hk, Rat.cast_one]
      rw [← intervalIntegral.integral_const_mul]
      simp only [mul_one]
    · rw [if_neg hcst]

theorem linBody_succ (v : String) (lo hi : Expr) (fuel : Nat) (body : Expr) :
    linBody v lo hi (fuel + 1) body =
      match body with
      | op .add a b => add (linBody v lo hi fuel a) (linBody v lo hi fuel b)
      | neg a => neg (linBody v lo hi fuel a)
      | op .sub a b => sub (linBody v lo hi fuel a) (linBody v lo hi fuel b)
      | _ => linOther v lo hi fuel body := by
  cases body <;> rfl

theorem linOK_succ (v : String) (lo hi : Expr) (env : String → ℝ) (fuel : Nat) (body : Expr) :
    LinOK v lo hi env (fuel + 1) body =
      match body with
      | op .add a b =>
        IntOK v lo hi a env ∧ IntOK v lo hi b env ∧ LinOK v lo hi env fuel a ∧ LinOK v lo hi env fuel b
      | neg a => LinOK v lo hi env fuel a
      | op .sub a b =>
        IntOK v lo hi a env ∧ IntOK v lo hi b env ∧ LinOK v lo hi env fuel a ∧ LinOK v lo hi env fuel b
      | _ => linOKOther v lo hi env fuel body := by
  cases body <;> rfl

/-- value of `Linearity.eval`'s result = value of the integral, for every fuel -/
theorem linBody_value (v : String) (lo hi : Expr) (env : String → ℝ) :
    ∀ (fuel : Nat) (body : Expr), LinOK v lo hi env fuel body →
      den (linBody v lo hi fuel body) env = den (integral v lo hi body) env := by
  intro fuel
  induction fuel with
  | zero => intro body _; rw [linBody]
  | succ fuel ih =>
    intro body h
    rw [linBody_succ]
    rw [linOK_succ] at h
    have other : ∀ b, linOKOther v lo hi env fuel b →
        den (linOther v lo hi fuel b) env = den (integral v lo hi b) env :=
      fun b hb => linOther_value v lo hi env fuel b ih hb
    cases body with
    | op o a b =>
      cases o with
      | add =>
        obtain ⟨ia, ib, ha, hb⟩ := h
        rw [lin_add v lo hi a b env ia ib]
        show den (linBody v lo hi fuel a) env + den (linBody v lo hi fuel b) env = _
        rw [ih a ha, ih b hb]; rfl
      | sub =>
        obtain ⟨ia, ib, ha, hb⟩ := h
        rw [lin_sub v lo hi a b env ia ib]
        show den (linBody v lo hi fuel a) env - den (linBody v lo hi fuel b) env = _
        rw [ih a ha, ih b hb]; rfl
      | mul => exact other _ h
      | div => exact other _ h
      | pow => exact other _ h
    | neg a =>
      rw [lin_neg v lo hi a env]
      show - den (linBody v lo hi fuel a) env = _
      rw [ih a h]; rfl
    | var n => exact other _ h
    | const q => exact other _ h
    | fn0 n => exact other _ h
    | fn1 n a => exact other _ h
    | integral t l u b => exact other _ h
    | evalAt t l u b => exact other _ h
    | deriv t b => exact other _ h

theorem linearityM_value (fuel : Nat) (v : String) (lo hi body : Expr) (env : String → ℝ)
    (h : LinOK v lo hi env fuel body) :
    den (linearityM fuel (integral v lo hi body)) env = den (integral v lo hi body) env :=
  linBody_value v lo hi env fuel body h

/-! ### the moved-out factor is constant in `v` for closed-form factors -/

theorem lval_constIn (v : String) (env : String → ℝ) (x : ℝ) (l : List Expr)
    (h : ∀ f ∈ l, den f (Function.update env v x) = den f env) :
    lval l (Function.update env v x) = lval l env := by
  induction l with
  | nil => rfl
  | cons a l ih =>
    rw [lval_cons, lval_cons, h a (List.mem_cons_self ..),
      ih (fun f hf => h f (List.mem_cons_of_mem _ hf))]

/-- For a product/quotient integrand all of whose `decomp` factors are closed-form, the factor `Linearity`
moves out of the integral does not depend on `v`. -/
theorem splitFactors_constIn (v : String) (body : Expr) (env : String → ℝ)
    (h : ∀ f, f ∈ (decomp body true).1 ∨ f ∈ (decomp body true).2 → Closed f) :
    ConstIn v (splitFactors v body).1 env := by
  intro x
  have key : ∀ l : List Expr, (∀ f ∈ l, Closed f) →
      lval (l.filter (fun f => !(f.containsVar v))) (Function.update env v x) =
        lval (l.filter (fun f => !(f.containsVar v))) env := by
    intro l hl
    apply lval_constIn
    intro f hf
    rw [List.mem_filter] at hf
    exact den_update_free x (hl f hf.1) (by simpa using hf.2)
  simp only [splitFactors, den_ite_div, den_prodE]
  rw [key _ (fun f hf => h f (Or.inl hf)), key _ (fun f hf => h f (Or.inr hf))]

theorem decomp_closed : ∀ (e : Expr), Closed e → ∀ (s : Bool) (f : Expr),
    f ∈ (decomp e s).1 ∨ f ∈ (decomp e s).2 → Closed f := by
  intro e
  induction e with
  | op o a b iha ihb =>
    intro hcl s f hf
    have atom : (f = op o a b ∨ False) ∨ (False ∨ f = op o a b) → Closed f := by
      intro h; rcases h with (h | h) | (h | h) <;> first | exact h.elim | (rw [h]; exact hcl)
    cases o with
    | mul =>
      rw [decomp_mul] at hf
      simp only [List.mem_append] at hf
      rcases hf with (hf | hf) | (hf | hf)
      · exact iha hcl.1 s f (Or.inl hf)
      · exact ihb hcl.2 s f (Or.inl hf)
      · exact iha hcl.1 s f (Or.inr hf)
      · exact ihb hcl.2 s f (Or.inr hf)
    | div =>
      rw [decomp_div] at hf
      simp only [List.mem_append] at hf
      rcases hf with (hf | hf) | (hf | hf)
      · exact iha hcl.1 s f (Or.inl hf)
      · exact ihb hcl.2 (!s) f (Or.inl hf)
      · exact iha hcl.1 s f (Or.inr hf)
      · exact ihb hcl.2 (!s) f (Or.inr hf)
    | add => cases s <;> simp [decomp] at hf <;> (rw [hf]; exact hcl)
    | sub => cases s <;> simp [decomp] at hf <;> (rw [hf]; exact hcl)
    | pow => cases s <;> simp [decomp] at hf <;> (rw [hf]; exact hcl)
  | neg a ih =>
    intro hcl s f hf
    rw [decomp_neg] at hf
    simp only [List.mem_cons] at hf
    rcases hf with (hf | hf) | hf
    · rw [hf]; trivial
    · exact ih hcl s f (Or.inl hf)
    · exact ih hcl s f (Or.inr hf)
  | _ => intro hcl s f hf; cases s <;> simp [decomp] at hf <;> (rw [hf]; exact hcl)

/-- In particular for a closed-form integrand. -/
theorem splitFactors_constIn_of_closed (v : String) (body : Expr) (env : String → ℝ)
    (h : Closed body) : ConstIn v (splitFactors v body).1 env :=
  splitFactors_constIn v body env (decomp_closed body h true)


end Holpy.C19
