import Holpy.C19.PolyProofs2
/-
C19 — `to_poly` computes a polynomial with the value of its argument; `normalize` preserves the value.
-/
namespace Holpy.C19

open Expr

theorem bind_ok {α β : Type} {x : Except PErr α} {f : α → Except PErr β} {r : β}
    (h : (x >>= f) = .ok r) : ∃ a, x = .ok a ∧ f a = .ok r := by
  cases x with
  | error e => simp [bind, Except.bind] at h
  | ok a => exact ⟨a, rfl, by simpa [bind, Except.bind] using h⟩

theorem rat_int_cast (k : Rat) (h : k.den = 1) : (k : ℝ) = ((k.num : Int) : ℝ) := by
  have : k = (k.num : Rat) := by
    rw [← Rat.num_div_den k]; simp [h]
  rw [this]; simp

theorem getFraction_beq {p : Poly} {q : Rat} (h : (getFraction p == some q) = true) : getFraction p = some q := by
  simpa using h

theorem toPoly_den (nz env) (hnz : NzOK nz env) (e : Expr) :
    ∀ p : Poly, PowOK e env → toPoly nz e = .ok p → denP env p = den e env := by
  induction e with
  | var n => intro p _ h; simp only [toPoly] at h; cases h; exact singleton_den nz env hnz _
  | const q => intro p _ h; simp only [toPoly] at h; cases h; simp [constantP_den nz env hnz, den]
  | neg a ih =>
    intro p hok h
    simp only [toPoly] at h
    split at h
    · obtain ⟨c, hc, h2⟩ := bind_ok h
      simp only [pure, Except.pure] at h2; cases h2
      rw [constantP_den nz env hnz, toConst_den env _ c hc]
    · obtain ⟨pa, hpa, h2⟩ := bind_ok h
      simp only [pure, Except.pure] at h2; cases h2
      rw [pNeg_den nz env hnz, ih pa (by simpa [PowOK] using hok) hpa]; simp [den]
  | op o a b iha ihb =>
    intro p hok h
    simp only [toPoly] at h
    split at h
    · obtain ⟨c, hc, h2⟩ := bind_ok h
      simp only [pure, Except.pure] at h2; cases h2
      rw [constantP_den nz env hnz, toConst_den env _ c hc]
    · obtain ⟨pa, hpa, h2⟩ := bind_ok h
      obtain ⟨pb, hpb, h3⟩ := bind_ok h2
      have hoka : PowOK a env := by cases o <;> simp only [PowOK] at hok <;> exact hok.1
      have hokb : PowOK b env := by
        cases o <;> simp only [PowOK] at hok
        all_goals first | exact hok.2.1 | exact hok.2
      have ea := iha pa hoka hpa
      have eb := ihb pb hokb hpb
      cases o
      · -- add
        simp only [pure, Except.pure] at h3; cases h3
        simp [pAdd_den nz env hnz, ea, eb, den]
      · simp only [pure, Except.pure] at h3; cases h3
        simp [pSub_den nz env hnz, ea, eb, den]
      · -- mul
        simp only [pure, Except.pure] at h3
        simp only [den, ← ea, ← eb]
        split at h3
        · cases h3; rw [pMul_den nz env hnz]
        · split at h3
          · cases h3; rw [pMul_den nz env hnz]
          · split at h3
            · cases h3; rw [pMul_den nz env hnz, singleton_den nz env hnz, fromPoly_den]
            · split at h3
              · cases h3; rw [pMul_den nz env hnz, singleton_den nz env hnz, fromPoly_den]; ring
              · cases h3
                rw [pMul_den nz env hnz, singleton_den nz env hnz, singleton_den nz env hnz, fromPoly_den,
                  fromPoly_den]
      · -- div
        simp only [pure, Except.pure] at h3
        simp only [den, ← ea, ← eb]
        split at h3
        · rename_i hc
          cases h3
          rw [constantP_den nz env hnz, getFraction_den env pa 0 (getFraction_beq hc)]; simp
        · split at h3
          · rename_i hc
            cases h3
            rw [getFraction_den env pb 1 (getFraction_beq hc)]; simp
          · split at h3
            · exact pDiv_den nz env hnz _ _ _ h3
            · split at h3
              · rw [pDiv_den nz env hnz _ _ _ h3, singleton_den nz env hnz, fromPoly_den]
              · split at h3
                · rw [pDiv_den nz env hnz _ _ _ h3, singleton_den nz env hnz, fromPoly_den]
                · rw [pDiv_den nz env hnz _ _ _ h3, singleton_den nz env hnz, singleton_den nz env hnz,
                    fromPoly_den, fromPoly_den]
      · -- pow
        simp only [pure, Except.pure] at h3
        simp only [PowOK] at hok
        simp only [den, ← ea, ← eb]
        split at h3
        · rename_i hc
          cases h3
          have ha0 : denP env pa = 0 := by
            rw [getFraction_den env pa 0 (getFraction_beq hc)]; simp
          have hb : 0 < den b env := hok.2.2 (by rw [← ea]; exact ha0)
          rw [singleton_den nz env hnz, ha0, eb]
          simp only [den, num]
          rw [Real.zero_rpow (ne_of_gt hb)]; simp
        · split at h3
          · rename_i hc
            cases h3
            rw [singleton_den nz env hnz, getFraction_den env pa 1 (getFraction_beq hc)]
            simp [den, num]
          · split at h3
            · rename_i k hk
              split at h3
              · rename_i hden
                have hden' : k.den = 1 := by simpa using hden
                have hbk : denP env pb = ((k.num : Int) : ℝ) := by
                  rw [getFraction_den env pb k hk, rat_int_cast k hden']
                rw [hbk, Real.rpow_intCast]
                split at h3
                · rename_i m
                  cases h3
                  rw [mkPoly_den nz env hnz]
                  simp [mPow_den nz env hnz]
                · cases h3
                  rw [mkPoly_den nz env hnz]
                  simp [mkMono_den nz env hnz, fromPoly_den]
              · cases h3
            · cases h3
  | _ => intro p _ h; simp [toPoly] at h

/-- `normalize` keeps the value. -/
theorem normalizeM_den (nz env) (hnz : NzOK nz env) (e r : Expr) (hok : PowOK e env)
    (h : normalizeM nz e = .ok r) : den r env = den e env := by
  unfold normalizeM at h
  obtain ⟨p, hp, h2⟩ := bind_ok h
  simp only [pure, Except.pure] at h2; cases h2
  rw [fromPoly_den, toPoly_den nz env hnz e p hok hp]

end Holpy.C19
