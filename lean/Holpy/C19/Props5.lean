import Holpy.C19.PolyProofs3
/-
C19 — property theorems, part 5: `poly.normalize` (= `from_poly ∘ to_poly`, what every `Simplify` step runs) on the
polynomial / rational-function fragment: variables, rational constants, `+ - * /`, unary minus, `^` with an integer
constant exponent.  Model: `Poly.lean` (`normalizeM`), compared with the real `normalize` on every run.
`nz` is the list of bases for which `Conditions.is_nonzero` answered True during the run (an oracle argument; the
theorems hold for every such list whose members are indeed non-zero at `env`: `NzOK`).  `den` is the total real
denotation of `Den.lean` (`x / 0 = 0`, `x ^ k` = `Real.rpow`).  `PowOK e env`: no power in `e` has base value 0 and a
non-positive exponent value (the code rewrites `0 ^ b` to `0` whatever `b` is).
-/
namespace Holpy.C19

open Expr

/-- `collect_pairs_power` (run by every `Monomial(...)`): merging the exponents of equal bases — only when both are
non-negative or `is_nonzero(base)` holds, as the code tests — dropping zero exponents and sorting keep the value of
the product of powers. -/
theorem collect_pairs_power_value (nz : List Expr) (env : String → ℝ) (hnz : NzOK nz env) (fs : Factors) :
    denF env (collectPairsPower nz fs) = denF env fs := collectPairsPower_den nz env hnz fs

/-- Non-vacuity: `x ^ 2 * x ^ (-1)` is merged to `x` when `x` is known non-zero, and NOT merged otherwise. -/
example : collectPairsPower [var "x"] [(var "x", 2), (var "x", -1)] = [(var "x", 1)] := by decide +kernel
example : collectPairsPower [] [(var "x", 2), (var "x", -1)] = [(var "x", -1), (var "x", 2)] := by decide +kernel

/-- `to_poly(e, conds)`: whenever it returns (no ZeroDivisionError, inside the fragment), the polynomial it returns —
after all collecting of like terms, constant folding, distribution of products, division by monomials and integer
powers of monomials — has the value of `e`. -/
theorem to_poly_value (nz : List Expr) (env : String → ℝ) (hnz : NzOK nz env) (e : Expr) (p : Poly)
    (hok : PowOK e env) (h : toPoly nz e = .ok p) : denP env p = den e env :=
  toPoly_den nz env hnz e p hok h

/-- `from_poly(p)`: the expression built from a polynomial (monomials sorted by `rsize`, signs absorbed into `-`,
numerator / denominator split of every monomial) has the value of the polynomial — for EVERY polynomial. -/
theorem from_poly_value (env : String → ℝ) (p : Poly) : den (fromPoly p) env = denP env p := fromPoly_den env p

/-- `normalize(e, conds)` preserves the value: for every expression of the fragment on which it returns, every
environment in which the recorded `is_nonzero` answers are true and no `0 ^ (non-positive)` occurs in `e`. -/
theorem normalize_value (nz : List Expr) (e r : Expr) (env : String → ℝ) (hnz : NzOK nz env) (hok : PowOK e env)
    (h : normalizeM nz e = .ok r) : den r env = den e env :=
  normalizeM_den nz env hnz e r hok h

theorem ok_of_toOption {x : Except PErr Expr} {r : Expr} (h : x.toOption = some r) : x = .ok r := by
  cases x <;> simp [Except.toOption] at h ⊢; exact h

/-- Non-vacuity: `x ^ 2 * x ^ (-1)` under `x != 0` normalizes to `x` (value kept at `x = 2`); `(x + 1) ^ 2 / x`
with no conditions is returned unchanged; all hypotheses are met. -/
example : den (var "x") (fun _ => 2) =
    den (mul (pow (var "x") (num 2)) (pow (var "x") (num (-1)))) (fun _ => 2) :=
  normalize_value [var "x"] _ _ (fun _ => 2) (by simp [NzOK, den]) (by simp [PowOK, den])
    (ok_of_toOption (by decide +kernel))
example : (normalizeM [] (div (pow (add (var "x") (num 1)) (num 2)) (var "x"))).toOption
    = some (div (pow (add (var "x") (num 1)) (num 2)) (var "x")) := by decide +kernel

/-- The hypothesis `PowOK` cannot be dropped: the code (and the model) rewrite `(x - x) ^ 0` to `0`, while the value
of `0 ^ 0` under `den` (and under Python's `**`) is `1`.  (`to_const_poly` leaves a literal `0 ^ 0` alone; `to_poly`
does not look at the exponent.) -/
theorem normalize_zero_pow_zero_counterexample :
    (normalizeM [] (pow (sub (var "x") (var "x")) (num 0))).toOption = some (num 0) ∧
    ∀ env, den (pow (sub (var "x") (var "x")) (num 0)) env = 1 ∧ den (num 0) env = 0 := by
  refine ⟨by decide +kernel, fun env => ?_⟩
  simp [den, num]

end Holpy.C19
