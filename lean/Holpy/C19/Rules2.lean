import Holpy.C19.Rules
/-
C19 — executable models, part 3 (import-free; linked into the driver).

* `replaceFirst` / `equationM` — `Equation(old, new).eval`: find the first occurrence of `old` (order of
  `Expr.find_subexpr`: the node itself, then arguments left to right; for integrals and evaluations lower bound, upper
  bound, body) and put `new` there.  The rule's acceptance test (equality of `FullSimplify`/normal forms, a few
  algebraic special cases) is not modelled: `accepted` is an oracle argument and the theorem needs the two sides to have
  the same value.
* `substInvM` — `SubstitutionInverse(u, h).eval` on `INT x:[a,b]. body`: new body `body.replace(x, h) * deriv(u, h)`;
  the new bounds `lo'`, `hi'` come from `solve_equation` and a limit computation (oracle arguments; the theorem needs
  `h(lo') = a`, `h(hi') = b`); `swap`: the rule found `lo' > hi'` numerically and returned `-INT u:[hi',lo']`.
* `getCoeff` / `ibeM` — `IntegrateByEquation(L).eval(e)`: with `ne = normalize(e)` (oracle argument), the coefficient
  `c` of `L` in `ne` (`get_coeff`), result `(ne + (-c) * L) / (1 - c)` (the rule normalises once more).
-/
namespace Holpy.C19

open Expr

/-- Replace the first occurrence of `old` (in `find_subexpr` order) by `new`; the flag says whether one was found. -/
def replaceFirst (old new : Expr) : Expr → Expr × Bool
  | var n => if var n == old then (new, true) else (var n, false)
  | const q => if const q == old then (new, true) else (const q, false)
  | fn0 n => if fn0 n == old then (new, true) else (fn0 n, false)
  | op o a b =>
    if op o a b == old then (new, true) else
    let ra := replaceFirst old new a
    if ra.2 then (op o ra.1 b, true) else
    let rb := replaceFirst old new b
    (op o a rb.1, rb.2)
  | neg a =>
    if neg a == old then (new, true) else
    let ra := replaceFirst old new a
    (neg ra.1, ra.2)
  | fn1 n a =>
    if fn1 n a == old then (new, true) else
    let ra := replaceFirst old new a
    (fn1 n ra.1, ra.2)
  | integral v lo hi b =>
    if integral v lo hi b == old then (new, true) else
    let r1 := replaceFirst old new lo
    if r1.2 then (integral v r1.1 hi b, true) else
    let r2 := replaceFirst old new hi
    if r2.2 then (integral v lo r2.1 b, true) else
    let r3 := replaceFirst old new b
    (integral v lo hi r3.1, r3.2)
  | evalAt v lo hi b =>
    if evalAt v lo hi b == old then (new, true) else
    let r1 := replaceFirst old new lo
    if r1.2 then (evalAt v r1.1 hi b, true) else
    let r2 := replaceFirst old new hi
    if r2.2 then (evalAt v lo r2.1 b, true) else
    let r3 := replaceFirst old new b
    (evalAt v lo hi r3.1, r3.2)
  | deriv v b =>
    if deriv v b == old then (new, true) else
    let r := replaceFirst old new b
    (deriv v r.1, r.2)

/-- `Equation(old, new).eval(e)` when the acceptance test succeeds (`accepted`); `none`: the Python raises
(`old` not found, or rewriting refused). -/
def equationM (old new : Expr) (accepted : Bool) (e : Expr) : Option Expr :=
  let r := replaceFirst old new e
  if r.2 && accepted then some r.1 else none

/-- `SubstitutionInverse(u, h).eval(INT x:[a,b]. body)` with the rule's computed bounds `lo'`, `hi'` and swap decision. -/
def substInvM (u : String) (h lo' hi' : Expr) (swap : Bool) : Expr → Expr
  | integral x _ _ body =>
    let nb := mul (replaceE (var x) h body) (derivM u h)
    if swap then neg (integral u hi' lo' nb) else integral u lo' hi' nb
  | e => e

/-- `get_coeff` of `IntegrateByEquation`: the coefficient of `L` in a linear combination. -/
def getCoeff (L : Expr) : Expr → Expr
  | op .add a b => if op .add a b == L then num 1 else add (getCoeff L a) (getCoeff L b)
  | op .sub a b => if op .sub a b == L then num 1 else sub (getCoeff L a) (getCoeff L b)
  | neg a => if neg a == L then num 1 else neg (getCoeff L a)
  | op .mul a b => if op .mul a b == L then num 1 else mul a (getCoeff L b)
  | op .div a b => if op .div a b == L then num 1 else div (getCoeff L a) b
  | e => if e == L then num 1 else num 0

/-- `IntegrateByEquation(L).eval(e)` before its final `normalize`: `ne` is the rule's `normalize(e)`, `c` its
normalised coefficient (oracle arguments; `getCoeff L ne` is compared with `c` by the harness). -/
def ibeM (L ne c : Expr) : Expr :=
  div (add ne (mul (neg c) L)) (sub (num 1) c)

end Holpy.C19
