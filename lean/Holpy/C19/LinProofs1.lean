import Holpy.C19.LinSem
import Mathlib.Algebra.BigOperators.Group.List.Basic
/-
C19 — semantics of `prodE`, `decomp`, `splitFactors` (the algebra behind `Linearity.eval`'s product case),
`splitM_value`, `constIn_of_closed`.
-/
namespace Holpy.C19

open Expr MeasureTheory

theorem splitM_value (c : Expr) (v : String) (lo hi f : Expr) (env : String → ℝ)
    (h1 : IntOK v lo c f env) (h2 : IntOK v c hi f env) :
    den (splitM c (integral v lo hi f)) env = den (integral v lo hi f) env :=
  (split v lo hi c f env h1 h2).symm

/-- the factors `Linearity` moves out are constant in `v` whenever they are closed-form -/
theorem constIn_of_closed (v : String) (c : Expr) (env : String → ℝ) (hc : Closed c)
    (hv : c.containsVar v = false) : ConstIn v c env :=
  fun x => den_update_free x hc hv

/-! ### `prodE` -/

/-- product of the values of a list of factors -/
noncomputable def lval (l : List Expr) (env : String → ℝ) : ℝ := (l.map (fun f => den f env)).prod

@[simp] theorem lval_nil (env : String → ℝ) : lval [] env = 1 := rfl

@[simp] theorem lval_cons (x : Expr) (l : List Expr) (env : String → ℝ) :
    lval (x :: l) env = den x env * lval l env := by
  simp [lval]

@[simp] theorem lval_append (l1 l2 : List Expr) (env : String → ℝ) :
    lval (l1 ++ l2) env = lval l1 env * lval l2 env := by
  simp [lval]

theorem den_const_one (env : String → ℝ) : den (const 1) env = 1 := by
  simp only [den, Rat.cast_one]

theorem den_foldl_mul (env : String → ℝ) (l : List Expr) : ∀ (acc : Expr),
    den (l.foldl (fun acc y => mul acc y) acc) env = den acc env * lval l env := by
  induction l with
  | nil => intro acc; simp
  | cons x xs ih =>
    intro acc
    rw [List.foldl_cons, ih, lval_cons]
    simp only [den]
    ring

theorem den_prodE (l : List Expr) (env : String → ℝ) : den (prodE l) env = lval l env := by
  cases l with
  | nil => simp [prodE, den_const_one]
  | cons x xs => simp [prodE, den_foldl_mul]

/-! ### `decomp` -/

/-- value of a (numerator factors, denominator factors) pair -/
noncomputable def val (r : List Expr × List Expr) (env : String → ℝ) : ℝ :=
  lval r.1 env * (lval r.2 env)⁻¹

theorem decomp_mul (a b : Expr) (s : Bool) :
    decomp (op .mul a b) s = ((decomp a s).1 ++ (decomp b s).1, (decomp a s).2 ++ (decomp b s).2) := by
  cases s <;> simp [decomp]

theorem decomp_div (a b : Expr) (s : Bool) :
    decomp (op .div a b) s =
      ((decomp a s).1 ++ (decomp b (!s)).1, (decomp a s).2 ++ (decomp b (!s)).2) := by
  cases s <;> simp [decomp]

theorem decomp_neg (a : Expr) (s : Bool) :
    decomp (neg a) s = (const (-1) :: (decomp a s).1, (decomp a s).2) := by
  cases s <;> simp [decomp]

/-- the catch-all cases of `decomp` -/
theorem decomp_atom (e : Expr) (h : isMulDiv e = false) (hn : ∀ a, e ≠ neg a) :
    decomp e true = ([e], []) ∧ decomp e false = ([], [e]) := by
  cases e with
  | op o a b =>
    cases o <;> first | (simp [isMulDiv] at h; done) | (constructor <;> simp [decomp])
  | neg a => exact absurd rfl (hn a)
  | _ => constructor <;> simp [decomp]

theorem den_neg_one (env : String → ℝ) : den (const (-1)) env = -1 := by
  simp only [den, Rat.cast_neg, Rat.cast_one]

theorem val_decomp (env : String → ℝ) : ∀ (e : Expr),
    val (decomp e true) env = den e env ∧ val (decomp e false) env = (den e env)⁻¹ := by
  intro e
  induction e with
  | op o a b iha ihb =>
    have hmul : ∀ s, val ((decomp a s).1 ++ (decomp b s).1, (decomp a s).2 ++ (decomp b s).2) env
        = val (decomp a s) env * val (decomp b s) env := by
      intro s; simp only [val, lval_append, mul_inv]; ring
    have hdiv : ∀ s, val ((decomp a s).1 ++ (decomp b (!s)).1, (decomp a s).2 ++ (decomp b (!s)).2) env
        = val (decomp a s) env * val (decomp b (!s)) env := by
      intro s; simp only [val, lval_append, mul_inv]; ring
    cases o with
    | mul =>
      rw [decomp_mul, decomp_mul, hmul, hmul, iha.1, iha.2, ihb.1, ihb.2]
      simp only [den, mul_inv, and_self]
    | div =>
      rw [decomp_div, decomp_div, hdiv, hdiv]
      simp only [Bool.not_true, Bool.not_false]
      rw [iha.1, iha.2, ihb.1, ihb.2]
      simp only [den, div_eq_mul_inv, mul_inv, inv_inv, and_self]
    | add => constructor <;> simp [decomp, val]
    | sub => constructor <;> simp [decomp, val]
    | pow => constructor <;> simp [decomp, val]
  | neg a ih =>
    rw [decomp_neg, decomp_neg]
    have h : ∀ s, val (const (-1) :: (decomp a s).1, (decomp a s).2) env = - val (decomp a s) env := by
      intro s; simp only [val, lval_cons, den_neg_one]; ring
    rw [h, h, ih.1, ih.2]
    simp only [den, inv_neg, and_self]
  | _ => constructor <;> simp [decomp, val]

/-! ### filter -/

theorem lval_filter (p : Expr → Bool) (env : String → ℝ) (l : List Expr) :
    lval l env = lval (l.filter p) env * lval (l.filter (fun f => !(p f))) env := by
  induction l with
  | nil => simp
  | cons x xs ih =>
    by_cases hp : p x = true
    · simp only [List.filter_cons, hp, lval_cons, if_true, Bool.not_true]
      rw [ih]; simp; ring
    · have hp' : p x = false := by simpa using hp
      simp only [List.filter_cons, hp', lval_cons, Bool.not_false, if_true]
      rw [ih]; simp; ring

/-! ### `splitFactors` -/

theorem den_ite_div (env : String → ℝ) (x d : Expr) :
    den (if d != const 1 then div x d else x) env = den x env * (den d env)⁻¹ := by
  by_cases h : d = const 1
  · subst h; simp [den_const_one]
  · have : (d != const 1) = true := by simpa using h
    rw [this]; simp only [if_true, den, div_eq_mul_inv]

/-- pointwise factorisation of the integrand, in every environment -/
theorem den_splitFactors (v : String) (body : Expr) (env : String → ℝ) :
    den body env = den (splitFactors v body).1 env * den (splitFactors v body).2 env := by
  have h := (val_decomp env body).1
  simp only [splitFactors, den_ite_div, den_prodE]
  rw [← h, val, lval_filter (fun f => f.containsVar v) env (decomp body true).1,
    lval_filter (fun f => f.containsVar v) env (decomp body true).2, mul_inv]
  ring

end Holpy.C19
