import Holpy.C19.Linearity
import Holpy.C19.IntegralProofs
import Holpy.C19.DerivProofs2
/-
C19 — side conditions of `linearity_value`: what "interval integrability of the parts" means along the
recursion of `Linearity.eval` (`linBody`).
-/
namespace Holpy.C19

open Expr MeasureTheory

/-- The value of `c` does not depend on the variable `v` (what `Linearity` assumes of a factor in which the
integration variable does not occur syntactically). -/
def ConstIn (v : String) (c : Expr) (env : String → ℝ) : Prop :=
  ∀ x, den c (Function.update env v x) = den c env

/-- The integrand `f` of `INT v:[lo,hi]. f` is interval integrable. -/
def IntOK (v : String) (lo hi f : Expr) (env : String → ℝ) : Prop :=
  IntervalIntegrable (integrand v f env) volume (den lo env) (den hi env)

/-- The hypotheses `Linearity.eval` needs on `INT v:[lo,hi]. body`, following its recursion: both parts of every
sum/difference it splits are interval integrable, and every factor it moves out of an integral has a value that
does not depend on `v`. -/
def LinOK (v : String) (lo hi : Expr) (env : String → ℝ) : Nat → Expr → Prop
  | 0, _ => True
  | fuel + 1, body =>
    match body with
    | op .add a b => IntOK v lo hi a env ∧ IntOK v lo hi b env ∧ LinOK v lo hi env fuel a ∧ LinOK v lo hi env fuel b
    | neg a => LinOK v lo hi env fuel a
    | op .sub a b => IntOK v lo hi a env ∧ IntOK v lo hi b env ∧ LinOK v lo hi env fuel a ∧ LinOK v lo hi env fuel b
    | _ =>
      if isMulDiv body then
        ConstIn v (splitFactors v body).1 env ∧ LinOK v lo hi env fuel (splitFactors v body).2
      else True

end Holpy.C19
