import Holpy.C19.Den
/-
C19 — the identities behind `Linearity` and `SplitRegion` on definite integrals, as statements about the
denotation (`intervalIntegral`).  The integrability hypotheses are the "stated conditions" the rules need and
the Python does not check.
-/
namespace Holpy.C19

open Expr MeasureTheory

/-- The integrand of `INT v:[..]. f` as a real function. -/
noncomputable def integrand (v : String) (f : Expr) (env : String → ℝ) : ℝ → ℝ :=
  fun x => den f (Function.update env v x)

theorem den_integral (v : String) (lo hi f : Expr) (env : String → ℝ) :
    den (integral v lo hi f) env = ∫ x in (den lo env)..(den hi env), integrand v f env x := rfl

theorem lin_add (v : String) (lo hi f g : Expr) (env : String → ℝ)
    (hf : IntervalIntegrable (integrand v f env) volume (den lo env) (den hi env))
    (hg : IntervalIntegrable (integrand v g env) volume (den lo env) (den hi env)) :
    den (integral v lo hi (add f g)) env = den (add (integral v lo hi f) (integral v lo hi g)) env := by
  simp only [den]
  exact intervalIntegral.integral_add hf hg

theorem lin_sub (v : String) (lo hi f g : Expr) (env : String → ℝ)
    (hf : IntervalIntegrable (integrand v f env) volume (den lo env) (den hi env))
    (hg : IntervalIntegrable (integrand v g env) volume (den lo env) (den hi env)) :
    den (integral v lo hi (sub f g)) env = den (sub (integral v lo hi f) (integral v lo hi g)) env := by
  simp only [den]
  exact intervalIntegral.integral_sub hf hg

theorem lin_neg (v : String) (lo hi f : Expr) (env : String → ℝ) :
    den (integral v lo hi (neg f)) env = den (neg (integral v lo hi f)) env := by
  simp only [den]
  exact intervalIntegral.integral_neg

/-- A factor whose value does not depend on the integration variable moves out of the integral. -/
theorem lin_const_mul (v : String) (lo hi c f : Expr) (env : String → ℝ)
    (hc : ∀ x, den c (Function.update env v x) = den c env) :
    den (integral v lo hi (mul c f)) env = den (mul c (integral v lo hi f)) env := by
  simp only [den, hc]
  exact intervalIntegral.integral_const_mul _ _

theorem lin_div_const (v : String) (lo hi c f : Expr) (env : String → ℝ)
    (hc : ∀ x, den c (Function.update env v x) = den c env) :
    den (integral v lo hi (div f c)) env = den (div (integral v lo hi f) c) env := by
  simp only [den, hc]
  exact intervalIntegral.integral_div _ _

theorem split (v : String) (lo hi c f : Expr) (env : String → ℝ)
    (h1 : IntervalIntegrable (integrand v f env) volume (den lo env) (den c env))
    (h2 : IntervalIntegrable (integrand v f env) volume (den c env) (den hi env)) :
    den (integral v lo hi f) env = den (add (integral v lo c f) (integral v c hi f)) env := by
  simp only [den]
  exact (intervalIntegral.integral_add_adjacent_intervals h1 h2).symm

end Holpy.C19
