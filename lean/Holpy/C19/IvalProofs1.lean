import Holpy.C19.IvalSem
import Mathlib.Tactic.Linarith
import Mathlib.Tactic.Positivity
import Mathlib.Tactic.Ring
import Mathlib.Tactic.FieldSimp
import Mathlib.Tactic.NormNum
import Mathlib.Tactic.Push
import Mathlib.Data.Rat.Cast.Order
import Mathlib.Data.Real.Basic
import Mathlib.Algebra.Order.Field.Basic
/-
C19 — enclosure proofs for the interval model, part 1: lower/upper bound predicates, `add`, `neg`, `sub`.
-/
namespace Holpy.C19

/-- `(b, f)` (value, open flag) is a valid lower end for `z`. -/
def Bound.LB (b : Bound) (f : Bool) (z : ℝ) : Prop :=
  match b with
  | .negInf => True
  | .fin a => if f then (a : ℝ) < z else (a : ℝ) ≤ z
  | .posInf => False

/-- `(b, f)` (value, open flag) is a valid upper end for `z`. -/
def Bound.UB (b : Bound) (f : Bool) (z : ℝ) : Prop :=
  match b with
  | .posInf => True
  | .fin a => if f then z < (a : ℝ) else z ≤ (a : ℝ)
  | .negInf => False

theorem Ival.mem_iff (I : Ival) (x : ℝ) : I.mem x ↔ I.lo.LB I.lopen x ∧ I.hi.UB I.ropen x := by
  unfold Ival.mem Bound.LB Bound.UB
  cases I.lo <;> cases I.hi <;> simp

@[simp] theorem Bound.LB_negInf (f : Bool) (z : ℝ) : Bound.negInf.LB f z := trivial
@[simp] theorem Bound.LB_posInf (f : Bool) (z : ℝ) : ¬ Bound.posInf.LB f z := fun h => h
@[simp] theorem Bound.UB_posInf (f : Bool) (z : ℝ) : Bound.posInf.UB f z := trivial
@[simp] theorem Bound.UB_negInf (f : Bool) (z : ℝ) : ¬ Bound.negInf.UB f z := fun h => h
@[simp] theorem Bound.LB_fin_open (a : Rat) (z : ℝ) : (Bound.fin a).LB true z ↔ (a : ℝ) < z := by
  simp [Bound.LB]
@[simp] theorem Bound.LB_fin_closed (a : Rat) (z : ℝ) : (Bound.fin a).LB false z ↔ (a : ℝ) ≤ z := by
  simp [Bound.LB]
@[simp] theorem Bound.UB_fin_open (a : Rat) (z : ℝ) : (Bound.fin a).UB true z ↔ z < (a : ℝ) := by
  simp [Bound.UB]
@[simp] theorem Bound.UB_fin_closed (a : Rat) (z : ℝ) : (Bound.fin a).UB false z ↔ z ≤ (a : ℝ) := by
  simp [Bound.UB]

theorem Bound.LB_fin_le {a : Rat} {f : Bool} {z : ℝ} (h : (Bound.fin a).LB f z) : (a : ℝ) ≤ z := by
  cases f <;> simp at h <;> linarith

theorem Bound.UB_fin_le {a : Rat} {f : Bool} {z : ℝ} (h : (Bound.fin a).UB f z) : z ≤ (a : ℝ) := by
  cases f <;> simp at h <;> linarith

/-- A strict inequality gives a lower end whatever the flag. -/
theorem Bound.LB_of_lt {a : Rat} {z : ℝ} (f : Bool) (h : (a : ℝ) < z) : (Bound.fin a).LB f z := by
  cases f <;> simp <;> linarith

theorem Bound.UB_of_lt {a : Rat} {z : ℝ} (f : Bool) (h : z < (a : ℝ)) : (Bound.fin a).UB f z := by
  cases f <;> simp <;> linarith

theorem Bound.LB_neg {b : Bound} {f : Bool} {z : ℝ} : b.neg.LB f (-z) ↔ b.UB f z := by
  cases b <;> cases f <;> simp [Bound.neg]

theorem Bound.UB_neg {b : Bound} {f : Bool} {z : ℝ} : b.neg.UB f (-z) ↔ b.LB f z := by
  cases b <;> cases f <;> simp [Bound.neg]

theorem Bound.neg_neg (b : Bound) : b.neg.neg = b := by
  cases b <;> simp [Bound.neg]

theorem Ival.neg_encloses {I : Ival} {x : ℝ} (hx : I.mem x) : (I.neg).mem (-x) := by
  rw [Ival.mem_iff] at hx ⊢
  exact ⟨Bound.LB_neg.2 hx.2, Bound.UB_neg.2 hx.1⟩

theorem Ival.mem_neg_iff {I : Ival} {x : ℝ} : (I.neg).mem (-x) ↔ I.mem x := by
  rw [Ival.mem_iff, Ival.mem_iff]
  show I.hi.neg.LB I.ropen (-x) ∧ I.lo.neg.UB I.lopen (-x) ↔ _
  rw [Bound.LB_neg, Bound.UB_neg]
  exact and_comm

theorem Ival.add_encloses {I J : Ival} {x y : ℝ} (hx : I.mem x) (hy : J.mem y) :
    (I.add J).mem (x + y) := by
  rw [Ival.mem_iff] at hx hy ⊢
  obtain ⟨a1, a2, f1, f2⟩ := I
  obtain ⟨b1, b2, g1, g2⟩ := J
  obtain ⟨hx1, hx2⟩ := hx
  obtain ⟨hy1, hy2⟩ := hy
  constructor
  · clear hx2 hy2
    cases a1 <;> cases b1 <;> cases f1 <;> cases g1 <;> simp [Ival.add] at hx1 hy1 ⊢ <;> linarith
  · clear hx1 hy1
    cases a2 <;> cases b2 <;> cases f2 <;> cases g2 <;> simp [Ival.add] at hx2 hy2 ⊢ <;> linarith

theorem Ival.sub_encloses {I J : Ival} {x y : ℝ} (hx : I.mem x) (hy : J.mem y) :
    (I.sub J).mem (x - y) := by
  rw [sub_eq_add_neg]
  exact Ival.add_encloses hx (Ival.neg_encloses hy)


/-! ### `inverse` -/

theorem one_div_LB {e : Rat} {f : Bool} {x : ℝ} (h : (Bound.fin e).UB f x) (hs : 0 < x * (e : ℝ)) :
    (Bound.fin (1 / e)).LB f (1 / x) := by
  have hx : x ≠ 0 := left_ne_zero_of_mul hs.ne'
  have he : (e : ℝ) ≠ 0 := right_ne_zero_of_mul hs.ne'
  have key : 1 / x - 1 / (e : ℝ) = ((e : ℝ) - x) / (x * e) := by field_simp
  cases f <;> simp only [Bound.UB_fin_open, Bound.UB_fin_closed, Bound.LB_fin_open,
    Bound.LB_fin_closed] at h ⊢ <;> push_cast
  · have : 0 ≤ ((e : ℝ) - x) / (x * e) := div_nonneg (by linarith) hs.le
    linarith
  · have : 0 < ((e : ℝ) - x) / (x * e) := div_pos (by linarith) hs
    linarith

theorem one_div_UB {s : Rat} {f : Bool} {x : ℝ} (h : (Bound.fin s).LB f x) (hs : 0 < x * (s : ℝ)) :
    (Bound.fin (1 / s)).UB f (1 / x) := by
  have hx : x ≠ 0 := left_ne_zero_of_mul hs.ne'
  have he : (s : ℝ) ≠ 0 := right_ne_zero_of_mul hs.ne'
  have key : 1 / (s : ℝ) - 1 / x = (x - (s : ℝ)) / (x * s) := by field_simp
  cases f <;> simp only [Bound.UB_fin_open, Bound.UB_fin_closed, Bound.LB_fin_open,
    Bound.LB_fin_closed] at h ⊢ <;> push_cast
  · have : 0 ≤ (x - (s : ℝ)) / (x * s) := div_nonneg (by linarith) hs.le
    linarith
  · have : 0 < (x - (s : ℝ)) / (x * s) := div_pos (by linarith) hs
    linarith

theorem inv_LB {e : Rat} {f : Bool} {x : ℝ} (h : (Bound.fin e).UB f x) (hs : 0 < x * (e : ℝ)) :
    (Bound.fin e⁻¹).LB f x⁻¹ := by
  simpa using one_div_LB h hs

theorem inv_UB {s : Rat} {f : Bool} {x : ℝ} (h : (Bound.fin s).LB f x) (hs : 0 < x * (s : ℝ)) :
    (Bound.fin s⁻¹).UB f x⁻¹ := by
  simpa using one_div_UB h hs

theorem Ival.inverse_encloses {I : Ival} {x : ℝ} (hx : I.mem x) (h0 : x ≠ 0) :
    (I.inverse).mem (1 / x) := by
  rw [Ival.mem_iff] at hx ⊢
  obtain ⟨a1, a2, f1, f2⟩ := I
  obtain ⟨h1, h2⟩ := hx
  simp only at h1 h2
  cases a1 with
  | posInf => exact absurd h1 (by simp)
  | negInf =>
    cases a2 with
    | negInf => exact absurd h2 (by simp)
    | posInf => simp [Ival.inverse, Bound.lt, Bound.le]
    | fin e =>
      have hxe := Bound.UB_fin_le h2
      rcases lt_trichotomy e 0 with he | he | he
      · have he' : (e : ℝ) < 0 := by exact_mod_cast he
        simp [Ival.inverse, Bound.lt, Bound.le, not_le.2 he, he.ne]
        exact ⟨inv_LB h2 (mul_pos_of_neg_of_neg (by linarith) he'), by linarith⟩
      · subst he
        have : x < 0 := lt_of_le_of_ne (by simpa using hxe) h0
        simp [Ival.inverse, Bound.lt, Bound.le]
        exact this
      · simp [Ival.inverse, Bound.lt, Bound.le, he.le, he.ne]
  | fin s =>
    have hsx := Bound.LB_fin_le h1
    cases a2 with
    | negInf => exact absurd h2 (by simp)
    | posInf =>
      rcases lt_trichotomy s 0 with hs | hs | hs
      · simp [Ival.inverse, Bound.lt, Bound.le, hs.le, hs.ne]
      · subst hs
        have : 0 < x := lt_of_le_of_ne (by simpa using hsx) (Ne.symm h0)
        simp [Ival.inverse, Bound.lt, Bound.le]
        exact this
      · have hs' : (0 : ℝ) < s := by exact_mod_cast hs
        simp [Ival.inverse, Bound.lt, Bound.le, not_le.2 hs, hs.ne']
        exact ⟨by linarith, inv_UB h1 (mul_pos (by linarith) hs')⟩
    | fin e =>
      have hxe := Bound.UB_fin_le h2
      rcases lt_trichotomy s 0 with hs | hs | hs
      · have hs' : (s : ℝ) < 0 := by exact_mod_cast hs
        rcases lt_trichotomy e 0 with he | he | he
        · have he' : (e : ℝ) < 0 := by exact_mod_cast he
          simp [Ival.inverse, Bound.lt, Bound.le, not_le.2 he, he.ne, hs.le, hs.ne]
          exact ⟨inv_LB h2 (mul_pos_of_neg_of_neg (by linarith) he'),
            inv_UB h1 (mul_pos_of_neg_of_neg (by linarith) hs')⟩
        · subst he
          have : x < 0 := lt_of_le_of_ne (by simpa using hxe) h0
          simp [Ival.inverse, Bound.lt, Bound.le, hs.le, hs.ne]
          exact inv_UB h1 (mul_pos_of_neg_of_neg this hs')
        · simp [Ival.inverse, Bound.lt, Bound.le, he.le, he.ne, hs.le, hs.ne]
      · subst hs
        have hx0 : 0 < x := lt_of_le_of_ne (by simpa using hsx) (Ne.symm h0)
        have he' : (0 : ℝ) < e := by linarith
        have he : 0 < e := by exact_mod_cast he'
        simp [Ival.inverse, Bound.lt, Bound.le, he.le, he.ne']
        exact inv_LB h2 (mul_pos hx0 he')
      · have hs' : (0 : ℝ) < s := by exact_mod_cast hs
        have hx0 : 0 < x := by linarith
        have he' : (0 : ℝ) < e := by linarith
        have he : 0 < e := by exact_mod_cast he'
        simp [Ival.inverse, Bound.lt, Bound.le, he.le, he.ne', not_le.2 hs, hs.ne']
        exact ⟨inv_LB h2 (mul_pos hx0 he'), inv_UB h1 (mul_pos hx0 hs')⟩

end Holpy.C19
