import Holpy.C19.RulesSem
import Holpy.C19.IvalProofs1
/-
C19 — enclosure proofs for the interval model, part 4: `sqrt`, `exp`, `log` (symbolic endpoints), containment and
intersection.
-/
namespace Holpy.C19

/-- `(b, f)` (value, open flag) is a valid symbolic lower end for `z`. -/
def SBound.LB (b : SBound) (f : Bool) (z : ℝ) : Prop :=
  match b with
  | .negInf => True
  | .posInf => False
  | b => if f then b.val < z else b.val ≤ z

/-- `(b, f)` (value, open flag) is a valid symbolic upper end for `z`. -/
def SBound.UB (b : SBound) (f : Bool) (z : ℝ) : Prop :=
  match b with
  | .posInf => True
  | .negInf => False
  | b => if f then z < b.val else z ≤ b.val

theorem SIval.mem_iff (I : SIval) (x : ℝ) : I.mem x ↔ I.lo.LB I.lopen x ∧ I.hi.UB I.ropen x := by
  unfold SIval.mem SBound.LB SBound.UB
  rfl

@[simp] theorem SBound.val_fin (q : Rat) : (SBound.fin q).val = (q : ℝ) := rfl
@[simp] theorem SBound.val_sqrt (q : Rat) : (SBound.app "sqrt" q).val = Real.sqrt q := by
  simp [SBound.val]
@[simp] theorem SBound.val_exp (q : Rat) : (SBound.app "exp" q).val = Real.exp q := by
  simp [SBound.val]
@[simp] theorem SBound.val_log (q : Rat) : (SBound.app "log" q).val = Real.log q := by
  simp [SBound.val]

@[simp] theorem SBound.LB_negInf (f : Bool) (z : ℝ) : SBound.negInf.LB f z := trivial
@[simp] theorem SBound.LB_posInf (f : Bool) (z : ℝ) : ¬ SBound.posInf.LB f z := fun h => h
@[simp] theorem SBound.UB_posInf (f : Bool) (z : ℝ) : SBound.posInf.UB f z := trivial
@[simp] theorem SBound.UB_negInf (f : Bool) (z : ℝ) : ¬ SBound.negInf.UB f z := fun h => h
@[simp] theorem SBound.LB_fin (q : Rat) (f : Bool) (z : ℝ) :
    (SBound.fin q).LB f z ↔ if f then (q : ℝ) < z else (q : ℝ) ≤ z := Iff.rfl
@[simp] theorem SBound.UB_fin (q : Rat) (f : Bool) (z : ℝ) :
    (SBound.fin q).UB f z ↔ if f then z < (q : ℝ) else z ≤ (q : ℝ) := Iff.rfl
@[simp] theorem SBound.LB_app (g : String) (q : Rat) (f : Bool) (z : ℝ) :
    (SBound.app g q).LB f z ↔ if f then (SBound.app g q).val < z else (SBound.app g q).val ≤ z := Iff.rfl
@[simp] theorem SBound.UB_app (g : String) (q : Rat) (f : Bool) (z : ℝ) :
    (SBound.app g q).UB f z ↔ if f then z < (SBound.app g q).val else z ≤ (SBound.app g q).val := Iff.rfl

/-! ### `sqrt` -/

theorem Ival.sqrtI_encloses {I : Ival} {x : ℝ} (hx : I.mem x) (h0 : 0 ≤ x) :
    (I.sqrtI).mem (Real.sqrt x) := by
  rw [Ival.mem_iff] at hx
  rw [SIval.mem_iff]
  obtain ⟨a1, a2, f1, f2⟩ := I
  obtain ⟨h1, h2⟩ := hx
  simp only at h1 h2
  constructor
  · clear h2
    cases a1 with
    | posInf => exact absurd h1 (by simp)
    | negInf => simp [Ival.sqrtI]
    | fin s =>
      rcases lt_trichotomy s 0 with hs | hs | hs
      · simp [Ival.sqrtI, hs.le, hs]
      · subst hs
        cases f1
        · simp [Ival.sqrtI]
        · have : (0 : ℝ) < x := by simpa using h1
          simpa [Ival.sqrtI] using Real.sqrt_pos.2 this
      · have hs' : (0 : ℝ) < s := by exact_mod_cast hs
        cases f1
        · have : (s : ℝ) ≤ x := by simpa using h1
          simpa [Ival.sqrtI, not_le.2 hs] using Real.sqrt_le_sqrt this
        · have : (s : ℝ) < x := by simpa using h1
          simpa [Ival.sqrtI, not_le.2 hs] using Real.sqrt_lt_sqrt hs'.le this
  · clear h1
    cases a2 with
    | negInf => exact absurd h2 (by simp)
    | posInf => simp [Ival.sqrtI]
    | fin e =>
      cases f2
      · have : x ≤ (e : ℝ) := by simpa using h2
        simpa [Ival.sqrtI] using Real.sqrt_le_sqrt this
      · have : x < (e : ℝ) := by simpa using h2
        simpa [Ival.sqrtI] using Real.sqrt_lt_sqrt h0 this

/-! ### `exp` -/

theorem Ival.expI_encloses {I : Ival} {x : ℝ} (hx : I.mem x) : (I.expI).mem (Real.exp x) := by
  rw [Ival.mem_iff] at hx
  rw [SIval.mem_iff]
  obtain ⟨a1, a2, f1, f2⟩ := I
  obtain ⟨h1, h2⟩ := hx
  simp only at h1 h2
  constructor
  · clear h2
    cases a1 with
    | posInf => exact absurd h1 (by simp)
    | negInf =>
      cases f1
      · simpa [Ival.expI] using (Real.exp_pos x).le
      · simpa [Ival.expI] using Real.exp_pos x
    | fin s =>
      cases f1
      · have : (s : ℝ) ≤ x := by simpa using h1
        simpa [Ival.expI] using Real.exp_le_exp.2 this
      · have : (s : ℝ) < x := by simpa using h1
        simpa [Ival.expI] using Real.exp_lt_exp.2 this
  · clear h1
    cases a2 with
    | negInf => exact absurd h2 (by simp)
    | posInf => simp [Ival.expI]
    | fin e =>
      cases f2
      · have : x ≤ (e : ℝ) := by simpa using h2
        simpa [Ival.expI] using Real.exp_le_exp.2 this
      · have : x < (e : ℝ) := by simpa using h2
        simpa [Ival.expI] using Real.exp_lt_exp.2 this

/-! ### `log` -/

theorem Ival.logI_encloses {I : Ival} {x : ℝ} (hx : I.mem x) (h0 : 0 < x) :
    (I.logI).mem (Real.log x) := by
  rw [Ival.mem_iff] at hx
  rw [SIval.mem_iff]
  obtain ⟨a1, a2, f1, f2⟩ := I
  obtain ⟨h1, h2⟩ := hx
  simp only at h1 h2
  constructor
  · clear h2
    cases a1 with
    | posInf => exact absurd h1 (by simp)
    | negInf => simp [Ival.logI]
    | fin s =>
      by_cases hs : s ≤ 0
      · simp [Ival.logI, hs]
      · have hs' : (0 : ℝ) < s := by exact_mod_cast not_le.1 hs
        cases f1
        · have : (s : ℝ) ≤ x := by simpa using h1
          simpa [Ival.logI, hs] using Real.log_le_log hs' this
        · have : (s : ℝ) < x := by simpa using h1
          simpa [Ival.logI, hs] using Real.log_lt_log hs' this
  · clear h1
    cases a2 with
    | negInf => exact absurd h2 (by simp)
    | posInf => simp [Ival.logI]
    | fin e =>
      cases f2
      · have : x ≤ (e : ℝ) := by simpa using h2
        simpa [Ival.logI] using Real.log_le_log h0 this
      · have : x < (e : ℝ) := by simpa using h2
        simpa [Ival.logI] using Real.log_lt_log h0 this

/-! ### containment and intersection -/

theorem Bound.lt_fin_fin (a b : Rat) : Bound.lt (.fin a) (.fin b) = decide (a < b) := by
  by_cases h : a < b
  · simp [Bound.lt, Bound.le, h, h.le, h.ne]
  · rcases eq_or_lt_of_le (not_lt.1 h) with h' | h'
    · simp [Bound.lt, Bound.le, h'.symm]
    · simp [Bound.lt, Bound.le, h, not_le.2 h']

theorem Ival.containedIn_sound {I J : Ival} {x : ℝ} (h : I.containedIn J = true) (hx : I.mem x) :
    J.mem x := by
  rw [Ival.mem_iff] at hx ⊢
  obtain ⟨a1, a2, f1, f2⟩ := I
  obtain ⟨b1, b2, g1, g2⟩ := J
  obtain ⟨h1, h2⟩ := hx
  simp only at h1 h2 ⊢
  unfold Ival.containedIn at h
  simp only at h
  split_ifs at h with c1 c2 c3 c4
  constructor
  · clear h2 c3 c4 h
    cases a1 with
    | posInf => exact absurd h1 (by simp)
    | negInf =>
      cases b1 with
      | negInf => simp
      | posInf => simp [Bound.lt, Bound.le] at c1
      | fin t => simp [Bound.lt, Bound.le] at c1
    | fin s =>
      cases b1 with
      | negInf => simp
      | posInf => simp [Bound.lt, Bound.le] at c1
      | fin t =>
        rw [Bound.lt_fin_fin] at c1
        have hts : t ≤ s := by simpa using c1
        have hts' : (t : ℝ) ≤ s := by exact_mod_cast hts
        rcases eq_or_lt_of_le hts with e | e
        · subst e
          cases f1 <;> cases g1 <;> simp [Ival.isFin] at c2 h1 ⊢ <;> linarith
        · have e' : (t : ℝ) < s := by exact_mod_cast e
          have := Bound.LB_fin_le h1
          exact Bound.LB_of_lt _ (by linarith)
  · clear h1 c1 c2 h
    cases a2 with
    | negInf => exact absurd h2 (by simp)
    | posInf =>
      cases b2 with
      | posInf => simp
      | negInf => simp [Bound.lt, Bound.le] at c3
      | fin t => simp [Bound.lt, Bound.le] at c3
    | fin s =>
      cases b2 with
      | posInf => simp
      | negInf => simp [Bound.lt, Bound.le] at c3
      | fin t =>
        rw [Bound.lt_fin_fin] at c3
        have hts : s ≤ t := by simpa using c3
        have hts' : (s : ℝ) ≤ t := by exact_mod_cast hts
        rcases eq_or_lt_of_le hts with e | e
        · subst e
          cases f2 <;> cases g2 <;> simp [Ival.isFin] at c4 h2 ⊢ <;> linarith
        · have e' : (s : ℝ) < t := by exact_mod_cast e
          have := Bound.UB_fin_le h2
          exact Bound.UB_of_lt _ (by linarith)

theorem Bound.inter_LB {a b : Bound} {f g : Bool} {x : ℝ} :
    (if Bound.lt b a then (a, f) else if Bound.lt a b then (b, g) else (a, f || g) : Bound × Bool).1.LB
      (if Bound.lt b a then (a, f) else if Bound.lt a b then (b, g) else (a, f || g) : Bound × Bool).2 x ↔
    a.LB f x ∧ b.LB g x := by
  cases a with
  | negInf => cases b <;> simp [Bound.lt, Bound.le]
  | posInf => cases b <;> simp [Bound.lt, Bound.le]
  | fin s =>
    cases b with
    | negInf => simp [Bound.lt, Bound.le]
    | posInf => simp [Bound.lt, Bound.le]
    | fin t =>
      simp only [Bound.lt_fin_fin]
      rcases lt_trichotomy s t with e | e | e
      · have e' : (s : ℝ) < t := by exact_mod_cast e
        simp only [e, not_lt.2 e.le, decide_true, decide_false, if_true, if_false, Bool.false_eq_true]
        constructor
        · intro h
          have := Bound.LB_fin_le h
          exact ⟨Bound.LB_of_lt _ (by linarith), h⟩
        · exact fun h => h.2
      · subst e
        cases f <;> cases g <;> simp
        · exact fun h => h.le
        · exact fun h => h.le
      · have e' : (t : ℝ) < s := by exact_mod_cast e
        simp only [e, decide_true, if_true]
        constructor
        · intro h
          have := Bound.LB_fin_le h
          exact ⟨h, Bound.LB_of_lt _ (by linarith)⟩
        · exact fun h => h.1

theorem Bound.inter_UB {a b : Bound} {f g : Bool} {x : ℝ} :
    (if Bound.lt a b then (a, f) else if Bound.lt b a then (b, g) else (a, f || g) : Bound × Bool).1.UB
      (if Bound.lt a b then (a, f) else if Bound.lt b a then (b, g) else (a, f || g) : Bound × Bool).2 x ↔
    a.UB f x ∧ b.UB g x := by
  cases a with
  | negInf => cases b <;> simp [Bound.lt, Bound.le]
  | posInf => cases b <;> simp [Bound.lt, Bound.le]
  | fin s =>
    cases b with
    | negInf => simp [Bound.lt, Bound.le]
    | posInf => simp [Bound.lt, Bound.le]
    | fin t =>
      simp only [Bound.lt_fin_fin]
      rcases lt_trichotomy s t with e | e | e
      · have e' : (s : ℝ) < t := by exact_mod_cast e
        simp only [e, decide_true, if_true]
        constructor
        · intro h
          have := Bound.UB_fin_le h
          exact ⟨h, Bound.UB_of_lt _ (by linarith)⟩
        · exact fun h => h.1
      · subst e
        cases f <;> cases g <;> simp
        · exact fun h => h.le
        · exact fun h => h.le
      · have e' : (t : ℝ) < s := by exact_mod_cast e
        simp only [e, not_lt.2 e.le, decide_true, decide_false, if_true, if_false, Bool.false_eq_true]
        constructor
        · intro h
          have := Bound.UB_fin_le h
          exact ⟨Bound.UB_of_lt _ (by linarith), h⟩
        · exact fun h => h.2

theorem Ival.inter_mem {I J : Ival} {x : ℝ} : (I.inter J).mem x ↔ I.mem x ∧ J.mem x := by
  rw [Ival.mem_iff, Ival.mem_iff, Ival.mem_iff]
  obtain ⟨a1, a2, f1, f2⟩ := I
  obtain ⟨b1, b2, g1, g2⟩ := J
  show _ ∧ _ ↔ _
  simp only [Ival.inter]
  rw [Bound.inter_LB, Bound.inter_UB]
  tauto

end Holpy.C19
