import Holpy.C19.Model
import Holpy.C19.Parser
/-
C19 — property theorems (filled in by later commits).
-/
namespace Holpy.C19
end Holpy.C19
