import Holpy.C19.DerivProofs
import Holpy.C19.IvalProofs
import Holpy.C19.IntegralProofs
import Holpy.C19.LinProofs
import Holpy.C19.ParseProofs2
/-
C19 — property theorems (statements only; proofs live in DerivProofs*, IvalProofs*, IntegralProofs).

`den` (Den.lean) is the real value of a calculator expression, `DiffOK` the domain/differentiability side
condition, `derivM` (Model.lean) mirrors `integral.rules.deriv` with the interleaved `normalize` removed,
`Ival` mirrors `integral.interval.Interval`; the model is compared with the Python on every run.
-/
namespace Holpy.C19

open Expr MeasureTheory

/-! ### Symbolic differentiation agrees with the derivative -/

/-- For every expression of the closed-form fragment (`+ - * / ^`, unary minus, `pi`, sin cos tan cot sec csc exp
log sqrt atan asin acos acot) that is inside its domain at `env`: the value of what `rules.deriv(v, e)` returns
(before normalisation) is the derivative of the value of `e` with respect to `v` — every case of the code,
including the rewriting of `c / y0 ^ y1`, powers with symbolic exponents and the repaired `cot` / `acot` cases. -/
theorem deriv_correct (v : String) (e : Expr) (env : String → ℝ) (h : DiffOK e env) :
    HasDerivAt (fun x => den e (Function.update env v x)) (den (derivM v e) env) (env v) :=
  deriv_correct_aux v e env h

/-- Non-vacuity: `x ^ 2 * cot(x) + log(x) / x ^ 3` at `x = 1` meets the side condition (chain rule, quotient with a
power denominator, the repaired `cot` case). -/
example : DiffOK (add (mul (pow (var "x") (num 2)) (fn1 "cot" (var "x"))) (div (fn1 "log" (var "x")) (pow (var "x") (num 3))))
    (fun _ => 1) := by
  have h1 : Real.sin 1 ≠ 0 := (Real.sin_pos_of_pos_of_lt_pi one_pos (by linarith [Real.two_le_pi])).ne'
  simp [DiffOK, den, knownFn1, fn1OK, Expr.isConst, h1]

/-! ### Interval bounds enclose all attained values -/

/-- `Interval.__add__`: x ∈ I, y ∈ J ⇒ x + y ∈ I + J (open/closed flags, infinite endpoints). -/
theorem interval_encloses_add {I J : Ival} {x y : ℝ} (hx : I.mem x) (hy : J.mem y) : (I.add J).mem (x + y) :=
  Ival.add_encloses hx hy

/-- `Interval.__neg__`. -/
theorem interval_encloses_neg {I : Ival} {x : ℝ} (hx : I.mem x) : (I.neg).mem (-x) := Ival.neg_encloses hx

/-- `Interval.__sub__`. -/
theorem interval_encloses_sub {I J : Ival} {x y : ℝ} (hx : I.mem x) (hy : J.mem y) : (I.sub J).mem (x - y) :=
  Ival.sub_encloses hx hy

/-- `Interval.__mul__` (with the repaired endpoint flags), whenever it returns an interval. -/
theorem interval_encloses_mul {I J K : Ival} {x y : ℝ} (hx : I.mem x) (hy : J.mem y) (h : I.mul J = some K) :
    K.mem (x * y) := Ival.mul_encloses hx hy h

/-- `Interval.inverse` (repaired: zero in the interior gives the whole line) at every non-zero point. -/
theorem interval_encloses_inverse {I : Ival} {x : ℝ} (hx : I.mem x) (h0 : x ≠ 0) : (I.inverse).mem (1 / x) :=
  Ival.inverse_encloses hx h0

/-- `Interval.__truediv__` at every non-zero divisor — no sign-definiteness of `J` is needed after the repair. -/
theorem interval_encloses_div {I J K : Ival} {x y : ℝ} (hx : I.mem x) (hy : J.mem y) (h0 : y ≠ 0)
    (h : I.div J = some K) : K.mem (x / y) := Ival.div_encloses hx hy h0 h

/-- `Interval.__pow__` with a natural-number exponent (repaired: every even exponent looks at the sign). -/
theorem interval_encloses_pow {I : Ival} {x : ℝ} (n : ℕ) (hx : I.mem x) : (I.powNat n).mem (x ^ n) :=
  Ival.powNat_encloses n hx

/-- Non-vacuity: `[0,1] * (0,1) = [0,1)` (the repaired flag), and `0 = 0 * 1/2` is a member. -/
example : Ival.mul ⟨.fin 0, .fin 1, false, false⟩ ⟨.fin 0, .fin 1, true, true⟩ = some ⟨.fin 0, .fin 1, false, true⟩ := by
  decide +kernel
example : (⟨.fin 0, .fin 1, false, true⟩ : Ival).mem ((0 : ℝ) * (1 / 2)) :=
  interval_encloses_mul (I := ⟨.fin 0, .fin 1, false, false⟩) (J := ⟨.fin 0, .fin 1, true, true⟩)
    (by simp [Ival.mem]) (by simp [Ival.mem]; norm_num) (by decide +kernel)
/-- Non-vacuity for powers and division: `[-2,1] ^ 4 = [0,16]`, `[1,1] / [-1,2] = (-oo,oo)`. -/
example : Ival.powNat ⟨.fin (-2), .fin 1, false, false⟩ 4 = ⟨.fin 0, .fin 16, false, false⟩ := by decide +kernel
example : Ival.div ⟨.fin 1, .fin 1, false, false⟩ ⟨.fin (-1), .fin 2, false, false⟩ = some ⟨.negInf, .posInf, true, true⟩ := by
  decide +kernel

/-! ### Printing an expression and parsing it back returns the same expression -/

/-- For every expression in the parser's image (`WF`: no identifier spelled like a keyword, no `c1 / c2` of two
constants and no unary minus of a positive constant — the parser's transformer folds both), parsing the token
list the printer emits (same bracket decisions as `Expr.__str__`: `priority()`, the `(-x) ^ n` rule, fractions and
negative constants) with the model of the Lark grammar gives the expression back; all rational constants, nested
integrals / evaluations / derivatives included, with the fuel the driver uses.
PARTIAL: token level.  That lexing the printed *string* `pp e` yields exactly `ppT e` is not proved; the driver
checks it on every generated case of every run (flag `T` of the `print` request), as it checks `pp`/`parse`
against `str`/`parse_expr`. -/
theorem expr_parse_print_partial (e : Expr) (h : WF e) : parseToks (ppT e) = some e := parse_print_toks e h

/-- Non-vacuity: `-(x ^ 2) * (-3/2) ^ y - INT t:[0,x]. t / (1 + t)` is well formed. -/
example : WF (sub (mul (neg (pow (var "x") (num 2))) (pow (const (-3/2 : Rat)) (var "y")))
    (integral "t" (num 0) (var "x") (div (var "t") (add (num 1) (var "t"))))) := by
  simp [WF, keywords, Expr.isConst]

/-! ### `Linearity` and `SplitRegion` preserve the value of a definite integral -/

/-- `linearityM` (Linearity.lean) mirrors `rules.Linearity.eval` on definite integrals — the recursion over `+`, `-`,
unary `-`, and `decompose_expr_factor` moving the factors / divisors free of the integration variable out — and
is compared with the real rule on every run.  The expression it returns has the value of the integral, for every
fuel, under `LinOK`: every sum/difference that is split has interval-integrable parts and every factor moved out
has a value independent of the integration variable (the conditions the rule needs and the code does not check). -/
theorem linearity_value (fuel : Nat) (v : String) (lo hi body : Expr) (env : String → ℝ)
    (h : LinOK v lo hi env fuel body) :
    den (linearityM fuel (integral v lo hi body)) env = den (integral v lo hi body) env :=
  linearityM_value fuel v lo hi body env h

/-- The "constant factor" hypothesis of `LinOK` holds automatically for closed-form integrands: the factors
`Linearity` moves out are those in which the variable does not occur (`contains_var`). -/
theorem linearity_const_factor_of_closed (v : String) (body : Expr) (env : String → ℝ) (h : Closed body) :
    ConstIn v (splitFactors v body).1 env := splitFactors_constIn_of_closed v body env h

/-- `splitM` mirrors `SplitRegion(c).eval` (branch without principal value): `INT_a^b f = INT_a^c f + INT_c^b f` under
integrability on both parts (any `c`, also outside `[a, b]`). -/
theorem split_value (c : Expr) (v : String) (lo hi f : Expr) (env : String → ℝ)
    (h1 : IntOK v lo c f env) (h2 : IntOK v c hi f env) :
    den (splitM c (integral v lo hi f)) env = den (integral v lo hi f) env :=
  splitM_value c v lo hi f env h1 h2

/-- Non-vacuity: `INT x:[0,2]. a * x / b - 3 * x` — `Linearity` returns `a / b * INT x - 3 * INT x` and the
hypotheses hold (continuous integrands, factors free of `x`). -/
example : linearityM 10 (integral "x" (num 0) (num 2) (sub (div (mul (var "a") (var "x")) (var "b")) (mul (num 3) (var "x")))) =
    sub (mul (div (var "a") (var "b")) (integral "x" (num 0) (num 2) (var "x")))
        (mul (num 3) (integral "x" (num 0) (num 2) (var "x"))) := by decide +kernel

example (env : String → ℝ) :
    LinOK "x" (num 0) (num 2) env 10 (sub (div (mul (var "a") (var "x")) (var "b")) (mul (num 3) (var "x"))) := by
  have hx : ∀ x : ℝ, Function.update env "x" x "x" = x := fun x => by simp
  have ha : ∀ x : ℝ, Function.update env "x" x "a" = env "a" := fun x => by simp [Function.update]
  have hb : ∀ x : ℝ, Function.update env "x" x "b" = env "b" := fun x => by simp [Function.update]
  refine ⟨?_, ?_, ⟨?_, trivial⟩, ⟨?_, trivial⟩⟩
  · apply Continuous.intervalIntegrable
    unfold integrand
    simp only [den, hx, ha, hb]
    fun_prop
  · apply Continuous.intervalIntegrable
    unfold integrand
    simp only [den, hx]
    fun_prop
  · exact linearity_const_factor_of_closed "x" _ env (by simp [Closed])
  · exact linearity_const_factor_of_closed "x" _ env (by simp [Closed])

/-- Non-vacuity: `INT x:[0,2]. x` splits at 1. -/
example (env : String → ℝ) :
    den (splitM (num 1) (integral "x" (num 0) (num 2) (var "x"))) env = den (integral "x" (num 0) (num 2) (var "x")) env := by
  have hid : integrand "x" (var "x") env = fun x => x := by
    funext x; simp [integrand, den]
  apply split_value <;> unfold IntOK <;> rw [hid] <;> exact continuous_id.intervalIntegrable _ _

end Holpy.C19
