import Holpy.C19.IvalProofs1
import Holpy.C19.IvalProofs2
import Holpy.C19.IvalProofs3
/-
C19 — enclosure property of every operation of the interval model (`Ival.mem` from `IvalSem.lean`):

* `Ival.add_encloses`, `Ival.neg_encloses`, `Ival.sub_encloses`, `Ival.inverse_encloses`  (IvalProofs1)
* `Ival.powNat_encloses`                                                                   (IvalProofs2)
* `Ival.mul_encloses`, `Ival.div_encloses`                                                 (IvalProofs3)

The statements are re-checked here against the exact required forms.
-/
namespace Holpy.C19

example {I J : Ival} {x y : ℝ} (hx : I.mem x) (hy : J.mem y) : (I.add J).mem (x + y) :=
  Ival.add_encloses hx hy
example {I : Ival} {x : ℝ} (hx : I.mem x) : (I.neg).mem (-x) := Ival.neg_encloses hx
example {I J : Ival} {x y : ℝ} (hx : I.mem x) (hy : J.mem y) : (I.sub J).mem (x - y) :=
  Ival.sub_encloses hx hy
example {I : Ival} {x : ℝ} (hx : I.mem x) (h0 : x ≠ 0) : (I.inverse).mem (1 / x) :=
  Ival.inverse_encloses hx h0
example {I : Ival} {x : ℝ} (n : ℕ) (hx : I.mem x) : (I.powNat n).mem (x ^ n) :=
  Ival.powNat_encloses n hx
example {I J K : Ival} {x y : ℝ} (hx : I.mem x) (hy : J.mem y) (h : I.mul J = some K) :
    K.mem (x * y) := Ival.mul_encloses hx hy h
example {I J K : Ival} {x y : ℝ} (hx : I.mem x) (hy : J.mem y) (h0 : y ≠ 0)
    (h : I.div J = some K) : K.mem (x / y) := Ival.div_encloses hx hy h0 h

end Holpy.C19
