import Holpy.C19.Model
import Mathlib.Data.Real.Basic
import Mathlib.Tactic.Linarith
import Mathlib.Tactic.Positivity
/-
C19 — meaning of the interval model: which real numbers an `Ival` contains.
-/
namespace Holpy.C19

/-- `x` lies in the interval `I` (open/closed flags respected; an infinite endpoint imposes nothing on its
own side; `+oo` as a lower or `-oo` as an upper endpoint makes the interval empty). -/
def Ival.mem (I : Ival) (x : ℝ) : Prop :=
  (match I.lo with
   | .negInf => True
   | .fin a => if I.lopen then (a : ℝ) < x else (a : ℝ) ≤ x
   | .posInf => False) ∧
  (match I.hi with
   | .posInf => True
   | .fin b => if I.ropen then x < (b : ℝ) else x ≤ (b : ℝ)
   | .negInf => False)

end Holpy.C19
