import Holpy.C19.Model
/-
C19 — executable model of `integral/poly.py: normalize = from_poly ∘ to_poly` on the POLYNOMIAL /
RATIONAL-FUNCTION fragment: variables, rational constants, `+ - * /`, unary minus and `^` with an
integer constant exponent.  Import-free (linked into `c19_model`).

Mirrored statement by statement (including accidental behaviour):
* `Expr.__le__` / `__lt__` (size, then type tag, then contents)                      — `leE`, `ltE`
* `collect_pairs_power` (dict in insertion order, the side list of factors that may not be merged,
  stable sort by base; `Conditions.is_nonzero` is an ORACLE: the list `nz` of bases for which the
  real call answered True)                                                        — `collectPairsPower`
* `collect_pairs` on (factors, coeff) pairs, sorting by the factor tuples            — `collectPairs`
* `Monomial.__init__`, `Polynomial.__init__` (which re-runs `Monomial.__init__` on every monomial),
  `+`, unary `-`, `-`, `*`, `/` by a monomial, integer powers of a monomial
* `to_const_poly` on rational constants (ZeroDivisionError; `0 ^ k`, k ≤ 0 is left symbolic by the code:
  outside the fragment), `to_poly`, `from_mono`, `from_poly` (stable sort by `rsize`, descending;
  sign-absorbing fold), `normalize`.
In the fragment every coefficient is a rational and every power an integer; whenever the code would leave
the fragment (fractional powers, symbolic exponents, functions, integrals …) the model answers
`unsupported`.
-/
namespace Holpy.C19

open Expr

/-! ## `Expr.__le__`, `__lt__` -/

def esize : Expr → Nat
  | var _ => 1
  | const _ => 1
  | op _ a b => 1 + esize a + esize b
  | neg a => 1 + esize a
  | fn0 _ => 1
  | fn1 _ a => 1 + esize a
  | integral _ lo hi b => 1 + esize lo + esize hi + esize b
  | evalAt _ lo hi b => 1 + esize lo + esize hi + esize b
  | deriv _ b => 1 + esize b

/-- Code point of the operator string (`"*" < "+" < "-" < "/" < "^"`). -/
def opOrd : BinOp → Nat
  | .mul => 42 | .add => 43 | .sub => 45 | .div => 47 | .pow => 94

/-- `a <= b` for two expressions of the SAME size (fragment constructors; anything else: `true`). -/
def leSame : Expr → Expr → Bool
  | var n, var m => decide (n ≤ m)
  | var _, const _ => true                 -- VAR = 0 <= CONST = 1
  | const _, var _ => false
  | const p, const q => decide (p ≤ q)
  | op o a1 a2, op o' b1 b2 =>
    if o != o' then decide (opOrd o ≤ opOrd o')
    else if a1 != b1 then
      (if esize a1 != esize b1 then decide (esize a1 ≤ esize b1) else leSame a1 b1)
    else if a2 != b2 then
      (if esize a2 != esize b2 then decide (esize a2 ≤ esize b2) else leSame a2 b2)
    else true
  | neg a, neg b =>
    if a != b then (if esize a != esize b then decide (esize a ≤ esize b) else leSame a b) else true
  | neg a, op o b1 _ =>
    if o != .sub then decide (45 ≤ opOrd o)
    else if a != b1 then (if esize a != esize b1 then decide (esize a ≤ esize b1) else leSame a b1)
    else true                              -- (a,) is a proper prefix of (a, b2)
  | op o a1 _, neg b =>
    if o != .sub then decide (opOrd o ≤ 45)
    else if a1 != b then (if esize a1 != esize b then decide (esize a1 ≤ esize b) else leSame a1 b)
    else false
  | _, _ => true

/-- `Expr.__le__`. -/
def leE (a b : Expr) : Bool :=
  if esize a != esize b then decide (esize a ≤ esize b) else leSame a b

/-- `Expr.__lt__`. -/
def ltE (a b : Expr) : Bool := leE a b && a != b

/-! ## Polynomials of the fragment -/

abbrev Factors := List (Expr × Int)

structure Mono where
  coeff : Rat
  factors : Factors
  deriving DecidableEq, Repr, Inhabited

abbrev Poly := List Mono

inductive PErr where
  | zeroDiv        -- ZeroDivisionError
  | valueErr       -- ValueError (division by a non-monomial; not reachable from `to_poly`)
  | unsupported    -- the code leaves the fragment here
  deriving DecidableEq, Repr, Inhabited

/-- Lookup in the insertion-ordered dict. -/
def dlookup {α β} [BEq α] (k : α) : List (α × β) → Option β
  | [] => none
  | (k', v) :: r => if k' == k then some v else dlookup k r

/-- `d[k] = v` for a key that is present. -/
def dset {α β} [BEq α] (k : α) (v : β) : List (α × β) → List (α × β)
  | [] => []
  | (k', v') :: r => if k' == k then (k', v) :: r else (k', v') :: dset k v r

/-- One iteration of the loop of `collect_pairs_power`; state = (dict `res`, `res_list`). -/
def cppStep (nz : List Expr) (st : Factors × Factors) (p : Expr × Int) : Factors × Factors :=
  match dlookup p.1 st.1 with
  | some c0 =>
    if (decide (0 ≤ p.2) && decide (0 ≤ c0)) || nz.contains p.1 then (dset p.1 (c0 + p.2) st.1, st.2)
    else (st.1, st.2 ++ [p])
  | none => (st.1 ++ [p], st.2)

/-- Stable insertion by base (`sorted(res_list, key=lambda p: p[0])`). -/
def insBase (x : Expr × Int) : Factors → Factors
  | [] => [x]
  | y :: ys => if ltE x.1 y.1 then x :: y :: ys else y :: insBase x ys

def sortBase (l : Factors) : Factors := l.foldl (fun acc x => insBase x acc) []

/-- `collect_pairs_power(ps, conds)`. -/
def collectPairsPower (nz : List Expr) (ps : Factors) : Factors :=
  let st := ps.foldl (cppStep nz) ([], [])
  sortBase (st.2 ++ st.1.filter (fun p => p.2 != 0))

/-- `Monomial(coeff, factors, conds)`. -/
def mkMono (nz : List Expr) (c : Rat) (fs : Factors) : Mono := ⟨c, collectPairsPower nz fs⟩

/-- Tuple `<` on factor tuples (first differing pair decides; a proper prefix is smaller). -/
def ltF : Factors → Factors → Bool
  | [], [] => false
  | [], _ :: _ => true
  | _ :: _, [] => false
  | (b1, k1) :: r1, (b2, k2) :: r2 =>
    if b1 != b2 then ltE b1 b2 else if k1 != k2 then decide (k1 < k2) else ltF r1 r2

/-- One iteration of the loop of `collect_pairs` (dict keyed by the factor tuple). -/
def cpStep (res : List (Factors × Rat)) (p : Factors × Rat) : List (Factors × Rat) :=
  match dlookup p.1 res with
  | some c0 => dset p.1 (c0 + p.2) res
  | none => res ++ [p]

def insKey (x : Factors × Rat) : List (Factors × Rat) → List (Factors × Rat)
  | [] => [x]
  | y :: ys => if ltF x.1 y.1 then x :: y :: ys else y :: insKey x ys

def sortKey (l : List (Factors × Rat)) : List (Factors × Rat) := l.foldl (fun acc x => insKey x acc) []

/-- `collect_pairs((mono.factors, mono.coeff) for mono in monomials)`. -/
def collectPairs (ps : List (Factors × Rat)) : List (Factors × Rat) :=
  sortKey ((ps.foldl cpStep []).filter (fun p => p.2 != 0))

/-- `Polynomial(monomials, conds)`. -/
def mkPoly (nz : List Expr) (ms : List Mono) : Poly :=
  ((collectPairs (ms.map fun m => (m.factors, m.coeff))).filter (fun p => p.2 != 0)).map
    fun p => mkMono nz p.2 p.1

def mNeg (nz : List Expr) (m : Mono) : Mono := mkMono nz (-1 * m.coeff) m.factors
def mMul (nz : List Expr) (m1 m2 : Mono) : Mono := mkMono nz (m1.coeff * m2.coeff) (m1.factors ++ m2.factors)
def mDiv (nz : List Expr) (m1 m2 : Mono) : Mono :=
  mkMono nz (m1.coeff * (1 / m2.coeff)) (m1.factors ++ m2.factors.map fun p => (p.1, -p.2))

/-- `Fraction(c) ** k` for an integer `k` (`c ≠ 0` when `k < 0`). -/
def ratPowInt (c : Rat) (k : Int) : Rat :=
  if 0 ≤ k then c ^ k.toNat else (1 / c) ^ (-k).toNat

def mPow (nz : List Expr) (m : Mono) (k : Int) : Mono :=
  mkMono nz (ratPowInt m.coeff k) (m.factors.map fun p => (p.1, p.2 * k))

def pAdd (nz : List Expr) (a b : Poly) : Poly := mkPoly nz (a ++ b)
def pNeg (nz : List Expr) (a : Poly) : Poly := mkPoly nz (a.map (mNeg nz))
def pSub (nz : List Expr) (a b : Poly) : Poly := pAdd nz a (pNeg nz b)
def pMul (nz : List Expr) (a b : Poly) : Poly :=
  mkPoly nz (a.flatMap fun m1 => b.map fun m2 => mMul nz m1 m2)

/-- `Polynomial.__truediv__`. -/
def pDiv (nz : List Expr) (a b : Poly) : Except PErr Poly :=
  match b with
  | [] => .error .zeroDiv
  | [m] => .ok (mkPoly nz (a.map fun m1 => mDiv nz m1 m))
  | _ => .error .valueErr

def isMonomial (p : Poly) : Bool := p.length == 1

/-- `Polynomial.is_fraction` / `get_fraction`. -/
def getFraction : Poly → Option Rat
  | [] => some 0
  | [m] => if m.factors.isEmpty then some m.coeff else none
  | _ => none

/-- `singleton(s, conds)`. -/
def singleton (nz : List Expr) (s : Expr) : Poly :=
  match s with
  | const q => mkPoly nz [mkMono nz q []]
  | _ => mkPoly nz [mkMono nz 1 [(s, 1)]]

/-- `constant(const_fraction(c), conds)`. -/
def constantP (nz : List Expr) (c : Rat) : Poly := mkPoly nz [mkMono nz c []]

/-! ## `from_mono`, `from_poly` -/

/-- `functools.reduce(operator.mul, factors[1:], factors[0])`, `Const(1)` for the empty list. -/
def prodP : List Expr → Expr
  | [] => num 1
  | f :: fs => fs.foldl (fun acc x => mul acc x) f

/-- Numerator / denominator factor lists of `from_mono`. -/
def splitFac : Factors → List Expr × List Expr
  | [] => ([], [])
  | (b, k) :: r =>
    let (n, d) := splitFac r
    if k == 1 then (b :: n, d)
    else if k == -1 then (n, b :: d)
    else if 0 < k then (pow b (num k) :: n, d)
    else if k < 0 then (n, pow b (num (-k)) :: d)
    else (pow b (num 0) :: n, d)      -- k = 0: Python raises TypeError; never produced by `Monomial(...)`

/-- `from_mono(m)`. -/
def fromMono (m : Mono) : Expr :=
  let (nf, df) := splitFac m.factors
  if nf.isEmpty && df.isEmpty then const m.coeff
  else if df.isEmpty then
    if m.coeff == 1 then prodP nf
    else if m.coeff == -1 then neg (prodP nf)
    else prodP (const m.coeff :: nf)
  else
    if m.coeff == 1 then div (prodP nf) (prodP df)
    else if m.coeff == -1 then neg (div (prodP nf) (prodP df))
    else mul (const m.coeff) (div (prodP nf) (prodP df))

/-- `rsize`. -/
def rsize : Expr → Nat
  | const _ => 0
  | neg a => rsize a
  | op .mul (const _) b => rsize b
  | e => esize e

/-- Stable insertion for `sorted(monos, key=rsize, reverse=True)`. -/
def insRsize (x : Expr) : List Expr → List Expr
  | [] => [x]
  | y :: ys => if rsize y < rsize x then x :: y :: ys else y :: insRsize x ys

def sortRsize (l : List Expr) : List Expr := l.foldl (fun acc x => insRsize x acc) []

/-- One step of the fold of `from_poly`: add the next monomial, absorbing a sign. -/
def addMono (res m : Expr) : Expr :=
  match m with
  | neg a => sub res a
  | op .mul (neg a) b => sub res (mul a b)
  | op .mul (const c) b => if c < 0 then sub res (mul (const (-c)) b) else add res m
  | const c => if c < 0 then sub res (const (-c)) else add res m
  | _ => add res m

/-- `from_poly(p)`. -/
def fromPoly (p : Poly) : Expr :=
  match sortRsize (p.map fromMono) with
  | [] => num 0
  | m :: ms => ms.foldl addMono m

/-! ## `to_const_poly`, `to_poly`, `normalize` -/

/-- `Expr.is_constant`. -/
def isConstantP : Expr → Bool
  | const _ => true
  | op _ a b => isConstantP a && isConstantP b
  | neg a => isConstantP a
  | fn0 _ => true
  | fn1 _ a => isConstantP a
  | _ => false

/-- `to_const_poly(e)` for expressions whose value the code keeps as a plain fraction. -/
def toConst : Expr → Except PErr Rat
  | const q => .ok q
  | op .add a b => do let x ← toConst a; let y ← toConst b; pure (x + y)
  | op .sub a b => do let x ← toConst a; let y ← toConst b; pure (x - y)
  | op .mul a b => do let x ← toConst a; let y ← toConst b; pure (x * y)
  | neg a => do let x ← toConst a; pure (-x)
  | op .div a b => do
    let x ← toConst a
    let y ← toConst b
    if y == 0 then .error .zeroDiv else pure (x * (1 / y))
  | op .pow a b => do
    let x ← toConst a
    let y ← toConst b
    if x == 0 && decide (0 < y) then pure 0
    else if x != 0 && y.den == 1 then pure (ratPowInt x y.num)
    else .error .unsupported
  | _ => .error .unsupported

/-- `to_poly(e, conds)`. -/
def toPoly (nz : List Expr) : Expr → Except PErr Poly
  | var n => .ok (singleton nz (var n))
  | const q => .ok (constantP nz q)
  | op o a b =>
    if isConstantP (op o a b) then do let c ← toConst (op o a b); pure (constantP nz c)
    else do
      let pa ← toPoly nz a
      let pb ← toPoly nz b
      match o with
      | .add => pure (pAdd nz pa pb)
      | .sub => pure (pSub nz pa pb)
      | .mul =>
        if isMonomial pa && isMonomial pb then pure (pMul nz pa pb)
        else if (getFraction pa).isSome || (getFraction pb).isSome then pure (pMul nz pa pb)
        else if isMonomial pa then pure (pMul nz pa (singleton nz (fromPoly pb)))
        else if isMonomial pb then pure (pMul nz pb (singleton nz (fromPoly pa)))
        else pure (pMul nz (singleton nz (fromPoly pa)) (singleton nz (fromPoly pb)))
      | .div =>
        if getFraction pa == some 0 then pure (constantP nz 0)
        else if getFraction pb == some 1 then pure pa
        else if isMonomial pa && isMonomial pb then pDiv nz pa pb
        else if isMonomial pa then pDiv nz pa (singleton nz (fromPoly pb))
        else if isMonomial pb then pDiv nz (singleton nz (fromPoly pa)) pb
        else pDiv nz (singleton nz (fromPoly pa)) (singleton nz (fromPoly pb))
      | .pow =>
        if getFraction pa == some 0 then pure (singleton nz (num 0))
        else if getFraction pa == some 1 then pure (singleton nz (num 1))
        else match getFraction pb with
          | some k =>
            if k.den == 1 then
              match pa with
              | [m] => pure (mkPoly nz [mPow nz m k.num])
              | _ => pure (mkPoly nz [mkMono nz 1 [(fromPoly pa, k.num)]])
            else .error .unsupported
          | none => .error .unsupported
  | neg a =>
    if isConstantP a then do let c ← toConst (neg a); pure (constantP nz c)
    else do let pa ← toPoly nz a; pure (pNeg nz pa)
  | _ => .error .unsupported

/-- `normalize(e, conds)`. -/
def normalizeM (nz : List Expr) (e : Expr) : Except PErr Expr := do
  let p ← toPoly nz e
  pure (fromPoly p)

end Holpy.C19
