import Holpy.C19.PolyProofs
/-
C19 — `from_mono` / `from_poly` give back the value of the polynomial; `to_const_poly` / `to_poly` compute a
polynomial with the value of the expression; hence `normalize` preserves the value (polynomial fragment).
-/
namespace Holpy.C19

open Expr

/-- The only side condition the value proof needs: a power whose base is zero has a positive exponent
(the code rewrites `0 ^ b` to `0` without looking at `b`). -/
def PowOK : Expr → (String → ℝ) → Prop
  | op .pow a b, env => PowOK a env ∧ PowOK b env ∧ (den a env = 0 → 0 < den b env)
  | op _ a b, env => PowOK a env ∧ PowOK b env
  | neg a, env => PowOK a env
  | _, _ => True

theorem den_pow_int (b : Expr) (k : Int) (env) : den (pow b (num k)) env = den b env ^ k := by
  simp only [den, num]
  rw [show (((k : Rat)) : ℝ) = ((k : Int) : ℝ) by push_cast; rfl, Real.rpow_intCast]

theorem prodP_fold_den (env) (l : List Expr) (acc : Expr) :
    den (l.foldl (fun acc x => mul acc x) acc) env = den acc env * (l.map fun e => den e env).prod := by
  induction l generalizing acc with
  | nil => simp
  | cons x xs ih => simp only [List.foldl_cons, ih, den, List.map_cons, List.prod_cons]; ring

theorem prodP_den (env) (l : List Expr) : den (prodP l) env = (l.map fun e => den e env).prod := by
  cases l with
  | nil => simp [prodP, den, num]
  | cons x xs => simp [prodP, prodP_fold_den]

theorem splitFac_den (env) (fs : Factors) :
    denF env fs = ((splitFac fs).1.map fun e => den e env).prod * (((splitFac fs).2.map fun e => den e env).prod)⁻¹ := by
  induction fs with
  | nil => simp [splitFac]
  | cons p r ih =>
    obtain ⟨b, k⟩ := p
    simp only [splitFac, denF_cons, ih]
    split
    · rename_i h; have : k = 1 := by simpa using h
      subst this; simp; ring
    · split
      · rename_i h; have : k = -1 := by simpa using h
        subst this; simp [mul_inv]; ring
      · split
        · simp only [List.map_cons, List.prod_cons, den_pow_int]; ring
        · split
          · simp only [List.map_cons, List.prod_cons, den_pow_int, mul_inv, zpow_neg, inv_inv]; ring
          · simp only [List.map_cons, List.prod_cons, den_pow_int]
            have : k = 0 := by omega
            subst this; simp

theorem fromMono_den (env) (m : Mono) : den (fromMono m) env = denM env m := by
  unfold fromMono denM
  rw [splitFac_den env m.factors]
  generalize (splitFac m.factors) = sf
  obtain ⟨nf, df⟩ := sf
  simp only []
  split
  · rename_i h
    have h1 : nf = [] ∧ df = [] := by simpa using h
    simp [h1.1, h1.2, den]
  · split
    · rename_i h
      have h1 : df = [] := by simpa using h
      subst h1
      split
      · rename_i hc; have : m.coeff = 1 := by simpa using hc
        simp [this, prodP_den]
      · split
        · rename_i hc; have : m.coeff = -1 := by simpa using hc
          simp [this, den, prodP_den]
        · simp [prodP_den, den]
    · split
      · rename_i hc; have : m.coeff = 1 := by simpa using hc
        simp [this, den, prodP_den, div_eq_mul_inv]
      · split
        · rename_i hc; have : m.coeff = -1 := by simpa using hc
          simp [this, den, prodP_den, div_eq_mul_inv]
        · simp [den, prodP_den, div_eq_mul_inv]

theorem addMono_den (env) (res m : Expr) : den (addMono res m) env = den res env + den m env := by
  unfold addMono
  split
  · simp [den]; ring
  · simp [den]; ring
  · split <;> simp [den] <;> ring
  · split <;> simp [den] <;> ring
  · simp [den]

theorem addMono_fold_den (env) (ms : List Expr) (m : Expr) :
    den (ms.foldl addMono m) env = den m env + (ms.map fun e => den e env).sum := by
  induction ms generalizing m with
  | nil => simp
  | cons x xs ih => simp only [List.foldl_cons, ih, addMono_den, List.map_cons, List.sum_cons]; ring

theorem map_fromMono_sum (env) (p : Poly) : ((p.map fromMono).map fun e => den e env).sum = denP env p := by
  induction p with
  | nil => simp
  | cons m r ih => simp only [List.map_cons, List.sum_cons, ih, fromMono_den, denP_cons]

theorem fromPoly_den (env) (p : Poly) : den (fromPoly p) env = denP env p := by
  have hperm := sortRsize_perm (p.map fromMono)
  have hsum : ((sortRsize (p.map fromMono)).map fun e => den e env).sum = denP env p := by
    rw [(hperm.map _).sum_eq]; exact map_fromMono_sum env p
  unfold fromPoly
  split
  · rename_i h; rw [h] at hsum; simp [den, num] at hsum ⊢; linarith
  · rename_i m ms h
    rw [h] at hsum
    rw [addMono_fold_den]; simpa using hsum

theorem toConst_den (env) (e : Expr) (q : Rat) (h : toConst e = .ok q) : den e env = (q : ℝ) := by
  induction e generalizing q with
  | const c => simp [toConst] at h; subst h; simp [den]
  | neg a ih =>
    simp only [toConst, bind, Except.bind] at h
    split at h
    · cases h
    · rename_i x hx; cases h; simp [den, ih x hx]
  | op o a b iha ihb =>
    cases o <;> simp only [toConst, bind, Except.bind] at h <;> (split at h; (· cases h)) <;>
      rename_i x hx <;> (split at h; (· cases h)) <;> rename_i y hy
    · cases h; simp [den, iha x hx, ihb y hy]
    · cases h; simp [den, iha x hx, ihb y hy]
    · cases h; simp [den, iha x hx, ihb y hy]
    · split at h
      · cases h
      · cases h; simp [den, iha x hx, ihb y hy, div_eq_mul_inv]
    · split at h
      · rename_i hc
        have h1 : x = 0 ∧ 0 < y := by simpa using hc
        cases h
        simp only [den, iha x hx, ihb y hy, h1.1, Rat.cast_zero]
        exact Real.zero_rpow (by have : (0 : ℝ) < (y : ℝ) := by exact_mod_cast h1.2
                                 exact ne_of_gt this)
      · split at h
        · rename_i hc
          have h1 : x ≠ 0 ∧ y.den = 1 := by simpa using hc
          cases h
          simp only [den, iha x hx, ihb y hy, ratPowInt_cast]
          have hy' : (y : ℝ) = ((y.num : Int) : ℝ) := by
            have : y = (y.num : Rat) := by
              rw [← Rat.num_div_den y]; simp [h1.2]
            rw [this]; simp
          rw [hy', Real.rpow_intCast]
        · cases h
  | _ => simp [toConst] at h

end Holpy.C19
