import Holpy.C19.ParseProofs
/-
C19 — round trip `parse ∘ print` on token lists: "level" predicates (a token list `ts` parses to `e` at the
atom / uminus / pow / times / plus level, closed or in continuation style for the left-associative loops) and
their closure properties, one per printer production.
-/
namespace Holpy.C19

open Expr

/-! ## `EvN` combinators -/

/-- `p fuel = some r` for all fuel `≥ N`. -/
def EvN {α : Type} (N : Nat) (p : Nat → Option α) (r : α) : Prop := ∀ fuel, N ≤ fuel → p fuel = some r

theorem EvN.mono {α : Type} {N N' : Nat} {p : Nat → Option α} {r : α} (h : EvN N p r) (hN : N ≤ N') :
    EvN N' p r := fun fuel hf => h fuel (by omega)

theorem EvN.toEv {α : Type} {N : Nat} {p : Nat → Option α} {r : α} (h : EvN N p r) : Ev p r := ⟨N, h⟩

theorem EvN.bind {α β : Type} {N1 N2 N : Nat} {q : Nat → Option β} {s : β} {k p : Nat → Option α} {r : α}
    (hq : EvN N1 q s) (hk : EvN N2 k r) (h : ∀ f, q f = some s → p (f + 1) = k f)
    (hN1 : N1 + 1 ≤ N) (hN2 : N2 + 1 ≤ N) : EvN N p r := by
  intro fuel hf
  obtain ⟨f, rfl⟩ : ∃ f, fuel = f + 1 := ⟨fuel - 1, by omega⟩
  rw [h f (hq f (by omega)), hk f (by omega)]

theorem EvN.step {α β : Type} {N1 N : Nat} {q : Nat → Option β} {s : β} {p : Nat → Option α} {r : α}
    (hq : EvN N1 q s) (h : ∀ f, q f = some s → p (f + 1) = some r) (hN1 : N1 + 1 ≤ N) : EvN N p r := by
  intro fuel hf
  obtain ⟨f, rfl⟩ : ∃ f, fuel = f + 1 := ⟨fuel - 1, by omega⟩
  exact h f (hq f (by omega))

theorem EvN.step0 {α : Type} {N : Nat} {p : Nat → Option α} {r : α} (h : ∀ f, p (f + 1) = some r)
    (hN : 1 ≤ N) : EvN N p r := by
  intro fuel hf
  obtain ⟨f, rfl⟩ : ∃ f, fuel = f + 1 := ⟨fuel - 1, by omega⟩
  exact h f

theorem EvN.shift {α : Type} {N2 N : Nat} {k p : Nat → Option α} {r : α} (hk : EvN N2 k r)
    (h : ∀ f, p (f + 1) = k f) (hN : N2 + 1 ≤ N) : EvN N p r := by
  intro fuel hf
  obtain ⟨f, rfl⟩ : ∃ f, fuel = f + 1 := ⟨fuel - 1, by omega⟩
  rw [h f, hk f (by omega)]

/-- arithmetic side goals about token-list lengths -/
macro "len_omega" : tactic =>
  `(tactic| (simp only [List.length_append, List.length_cons, List.length_nil, parenT] at *; omega))

/-! ## Stop conditions on concrete heads -/

@[simp] theorem notHd_sym (s s' : String) (ts : List Tok) : NotHd s (Tok.sym s' :: ts) ↔ s' ≠ s := by
  constructor
  · intro h heq; subst heq; exact h ts rfl
  · intro h ts' heq; simp only [List.cons.injEq, Tok.sym.injEq] at heq; exact h heq.1
@[simp] theorem notHd_id (s n : String) (ts : List Tok) : NotHd s (Tok.id n :: ts) := by
  intro ts' heq; simp at heq
@[simp] theorem notHd_natTok (s : String) (n : Nat) (ts : List Tok) : NotHd s (Tok.nat n :: ts) := by
  intro ts' heq; simp at heq
@[simp] theorem notHd_nil' (s : String) : NotHd s [] := notHd_nil s

theorem stopPlus.times {ts : List Tok} (h : stopPlus ts) : stopTimes ts := h.1
theorem stopTimes.pow {ts : List Tok} (h : stopTimes ts) : stopPow ts := h.1
theorem stopPow.atom {ts : List Tok} (h : stopPow ts) : stopAtom ts := h.1

/-- The list is non-empty and does not start with `-`. -/
def HdOk (ts : List Tok) : Prop := ∃ t ts', ts = t :: ts' ∧ t ≠ Tok.sym "-"

theorem HdOk.notHd {ts : List Tok} (h : HdOk ts) (rest : List Tok) : NotHd "-" (ts ++ rest) := by
  obtain ⟨t, ts', rfl, ht⟩ := h
  exact notHd_cons ht

/-! ## Lifting between levels (pointwise) -/

theorem lift_AU {ts : List Tok} {r : Expr × List Tok} {N : Nat} (hts : NotHd "-" ts)
    (h : EvN N (fun f => parseAtom f ts) r) : EvN (N + 1) (fun f => parseUminus f ts) r :=
  h.shift (fun f => uminus_atom f ts hts) (Nat.le_refl _)

theorem lift_UPL {ts : List Tok} {e : Expr} {rest : List Tok} {r : Expr × List Tok} {N1 N2 N : Nat}
    (hts : NotHd "-" ts)
    (h : EvN N1 (fun f => parseUminus f ts) (e, rest)) (hk : EvN N2 (fun f => parsePowLoop f e rest) r)
    (hN1 : N1 + 1 ≤ N) (hN2 : N2 + 1 ≤ N) :
    EvN N (fun f => parsePow f ts) r :=
  EvN.bind h hk (fun f hf => pow_u f ts e rest hts hf) hN1 hN2

theorem ev_powLoop_stop {e : Expr} {rest : List Tok} (h : NotHd "^" rest) :
    EvN 1 (fun f => parsePowLoop f e rest) (e, rest) :=
  EvN.step0 (fun f => powLoop_stop f e rest h) (Nat.le_refl _)

theorem ev_timesLoop_stop {e : Expr} {rest : List Tok} (h1 : NotHd "*" rest) (h2 : NotHd "/" rest) :
    EvN 1 (fun f => parseTimesLoop f e rest) (e, rest) :=
  EvN.step0 (fun f => timesLoop_stop f e rest h1 h2) (Nat.le_refl _)

theorem ev_plusLoop_stop {e : Expr} {rest : List Tok} (h1 : NotHd "+" rest) (h2 : NotHd "-" rest) :
    EvN 1 (fun f => parsePlusLoop f e rest) (e, rest) :=
  EvN.step0 (fun f => plusLoop_stop f e rest h1 h2) (Nat.le_refl _)

theorem lift_PTL {ts : List Tok} {e : Expr} {rest : List Tok} {r : Expr × List Tok} {N1 N2 N : Nat}
    (h : EvN N1 (fun f => parsePow f ts) (e, rest)) (hk : EvN N2 (fun f => parseTimesLoop f e rest) r)
    (hN1 : N1 + 1 ≤ N) (hN2 : N2 + 1 ≤ N) :
    EvN N (fun f => parseTimes f ts) r :=
  EvN.bind h hk (fun f hf => times_step f ts e rest hf) hN1 hN2

theorem lift_TSL {ts : List Tok} {e : Expr} {rest : List Tok} {r : Expr × List Tok} {N1 N2 N : Nat}
    (h : EvN N1 (fun f => parseTimes f ts) (e, rest)) (hk : EvN N2 (fun f => parsePlusLoop f e rest) r)
    (hN1 : N1 + 1 ≤ N) (hN2 : N2 + 1 ≤ N) :
    EvN N (fun f => parsePlus f ts) r :=
  EvN.bind h hk (fun f hf => plus_step f ts e rest hf) hN1 hN2

/-! ## Level predicates (fuel bounds: `3 * length + constant`) -/

def IsA (ts : List Tok) (e : Expr) : Prop :=
  HdOk ts ∧ ∀ rest, stopAtom rest → EvN (3 * ts.length) (fun f => parseAtom f (ts ++ rest)) (e, rest)
/-- binders: atoms whose last component extends as far as possible -/
def IsB (ts : List Tok) (e : Expr) : Prop :=
  HdOk ts ∧ ∀ rest, stopPlus rest → EvN (3 * ts.length) (fun f => parseAtom f (ts ++ rest)) (e, rest)
def IsU (ts : List Tok) (e : Expr) : Prop :=
  ∀ rest, stopAtom rest → EvN (3 * ts.length + 1) (fun f => parseUminus f (ts ++ rest)) (e, rest)
def IsPL (ts : List Tok) (e : Expr) : Prop :=
  ∀ rest, stopAtom rest → ∀ r N, 1 ≤ N → EvN N (fun f => parsePowLoop f e rest) r →
    EvN (N + 3 * ts.length + 1) (fun f => parsePow f (ts ++ rest)) r
def IsP (ts : List Tok) (e : Expr) : Prop :=
  ∀ rest, stopPow rest → EvN (3 * ts.length + 2) (fun f => parsePow f (ts ++ rest)) (e, rest)
def IsTL (ts : List Tok) (e : Expr) : Prop :=
  ∀ rest, stopPow rest → ∀ r N, 2 ≤ N → EvN N (fun f => parseTimesLoop f e rest) r →
    EvN (N + 3 * ts.length + 1) (fun f => parseTimes f (ts ++ rest)) r
def IsT (ts : List Tok) (e : Expr) : Prop :=
  ∀ rest, stopTimes rest → EvN (3 * ts.length + 3) (fun f => parseTimes f (ts ++ rest)) (e, rest)
def IsSL (ts : List Tok) (e : Expr) : Prop :=
  ∀ rest, stopTimes rest → ∀ r N, 3 ≤ N → EvN N (fun f => parsePlusLoop f e rest) r →
    EvN (N + 3 * ts.length + 1) (fun f => parsePlus f (ts ++ rest)) r
def IsS (ts : List Tok) (e : Expr) : Prop :=
  ∀ rest, stopPlus rest → EvN (3 * ts.length + 4) (fun f => parsePlus f (ts ++ rest)) (e, rest)

theorem IsA.toU {ts e} (h : IsA ts e) : IsU ts e :=
  fun rest hr => lift_AU (h.1.notHd rest) (h.2 rest hr)
theorem IsA.toPL {ts e} (h : IsA ts e) : IsPL ts e :=
  fun rest hr _ _ hN hk => lift_UPL (h.1.notHd rest) (h.toU rest hr) hk (by omega) (by omega)
theorem IsPL.toP {ts e} (h : IsPL ts e) : IsP ts e :=
  fun rest hr => (h rest hr.1 _ 1 (Nat.le_refl _) (ev_powLoop_stop hr.2)).mono (by omega)
theorem IsP.toTL {ts e} (h : IsP ts e) : IsTL ts e :=
  fun rest hr _ _ hN hk => lift_PTL (h rest hr) hk (by omega) (by omega)
theorem IsTL.toT {ts e} (h : IsTL ts e) : IsT ts e :=
  fun rest hr => (h rest hr.1 _ 2 (Nat.le_refl _) ((ev_timesLoop_stop hr.2.1 hr.2.2).mono (by omega))).mono
    (by omega)
theorem IsT.toSL {ts e} (h : IsT ts e) : IsSL ts e :=
  fun rest hr _ _ hN hk => lift_TSL (h rest hr) hk (by omega) (by omega)
theorem IsSL.toS {ts e} (h : IsSL ts e) : IsS ts e :=
  fun rest hr => (h rest hr.1 _ 3 (Nat.le_refl _) ((ev_plusLoop_stop hr.2.1 hr.2.2).mono (by omega))).mono
    (by omega)

theorem IsB.toS {ts e} (h : IsB ts e) : IsS ts e := by
  intro rest hr
  have hA := h.2 rest hr
  have hU := lift_AU (h.1.notHd rest) hA
  have hP : EvN (3 * ts.length + 2) _ _ :=
    lift_UPL (h.1.notHd rest) hU (ev_powLoop_stop hr.1.1.2) (by omega) (by omega)
  have hT : EvN (3 * ts.length + 3) _ _ :=
    lift_PTL hP (ev_timesLoop_stop hr.1.2.1 hr.1.2.2) (by omega) (by omega)
  exact lift_TSL hT (ev_plusLoop_stop hr.2.1 hr.2.2) (by omega) (by omega)

/-! ## Productions -/

theorem IsA_paren {ts e} (h : IsS ts e) : IsA (parenT ts) e := by
  refine ⟨⟨.sym "(", ts ++ [.sym ")"], by simp [parenT], by simp⟩, fun rest _ => ?_⟩
  have h1 := h (.sym ")" :: rest) (by simp [stopPlus, stopTimes, stopPow])
  refine h1.step (fun f hf => ?_) (by len_omega)
  have : parenT ts ++ rest = .sym "(" :: (ts ++ .sym ")" :: rest) := by simp [parenT]
  rw [this]
  exact atom_paren f _ e rest hf

theorem IsA_var {n : String} (hn : n ∉ keywords) : IsA [.id n] (var n) :=
  ⟨⟨.id n, [], rfl, by simp⟩, fun rest hr => EvN.step0 (fun f => atom_var f n rest hn hr) (by len_omega)⟩

theorem IsA_fn0 {n : String} (hn : n = "pi" ∨ n = "G") : IsA [.id n] (fn0 n) :=
  ⟨⟨.id n, [], rfl, by simp⟩, fun rest _ => EvN.step0 (fun f => atom_fn0 f n rest hn) (by len_omega)⟩

theorem IsA_natTok (n : Nat) : IsA [.nat n] (const (n : Rat)) :=
  ⟨⟨.nat n, [], rfl, by simp⟩, fun rest _ => EvN.step0 (fun f => atom_nat f n rest) (by len_omega)⟩

theorem IsA_fn1 {n : String} {ts a} (hn : n ∉ keywords) (h : IsS ts a) :
    IsA ([.id n, .sym "("] ++ ts ++ [.sym ")"]) (fn1 n a) := by
  refine ⟨⟨.id n, _, rfl, by simp⟩, fun rest _ => ?_⟩
  have h1 := h (.sym ")" :: rest) (by simp [stopPlus, stopTimes, stopPow])
  refine h1.step (fun f hf => ?_) (by len_omega)
  have : [Tok.id n, .sym "("] ++ ts ++ [.sym ")"] ++ rest = .id n :: .sym "(" :: (ts ++ .sym ")" :: rest) := by simp
  rw [this]
  exact atom_fn1 f n _ a rest hn hf

theorem IsB_deriv {v : String} {ts b} (hv : v ∉ keywords) (h : IsS ts b) :
    IsB ([.id "D", .id v, .sym "."] ++ ts) (deriv v b) := by
  refine ⟨⟨.id "D", _, rfl, by simp⟩, fun rest hr => ?_⟩
  refine (h rest hr).step (fun f hf => ?_) (by len_omega)
  exact atom_deriv f v _ b rest hv hf

theorem IsB_integral {v : String} {t1 t2 t3 lo hi b} (hv : v ∉ keywords)
    (h1 : IsS t1 lo) (h2 : IsS t2 hi) (h3 : IsS t3 b) :
    IsB ([.id "INT", .id v, .sym ":["] ++ t1 ++ [.sym ","] ++ t2 ++ [.sym "]."] ++ t3) (integral v lo hi b) := by
  refine ⟨⟨.id "INT", _, rfl, by simp⟩, fun rest hr => ?_⟩
  have e3 := h3 rest hr
  have e2 := h2 (.sym "]." :: (t3 ++ rest)) (by simp [stopPlus, stopTimes, stopPow])
  have e1 := h1 (.sym "," :: (t2 ++ .sym "]." :: (t3 ++ rest))) (by simp [stopPlus, stopTimes, stopPow])
  intro fuel hf
  obtain ⟨f, rfl⟩ : ∃ f, fuel = f + 1 := ⟨fuel - 1, by len_omega⟩
  have : [Tok.id "INT", .id v, .sym ":["] ++ t1 ++ [.sym ","] ++ t2 ++ [.sym "]."] ++ t3 ++ rest
      = .id "INT" :: .id v :: .sym ":[" :: (t1 ++ .sym "," :: (t2 ++ .sym "]." :: (t3 ++ rest))) := by simp
  rw [this]
  exact atom_integral f v _ _ _ lo hi b rest hv (e1 f (by len_omega)) (e2 f (by len_omega))
    (e3 f (by len_omega))

theorem IsB_evalAt {v : String} {t1 t2 t3 lo hi b} (hv : v ∉ keywords)
    (h1 : IsS t1 lo) (h2 : IsS t2 hi) (h3 : IsS t3 b) :
    IsB ([.sym "["] ++ t3 ++ [.sym "]_", .id v, .sym "="] ++ t1 ++ [.sym ","] ++ t2) (evalAt v lo hi b) := by
  refine ⟨⟨.sym "[", _, rfl, by simp⟩, fun rest hr => ?_⟩
  have e2 := h2 rest hr
  have e1 := h1 (.sym "," :: (t2 ++ rest)) (by simp [stopPlus, stopTimes, stopPow])
  have e3 := h3 (.sym "]_" :: .id v :: .sym "=" :: (t1 ++ .sym "," :: (t2 ++ rest)))
    (by simp [stopPlus, stopTimes, stopPow])
  intro fuel hf
  obtain ⟨f, rfl⟩ : ∃ f, fuel = f + 1 := ⟨fuel - 1, by len_omega⟩
  have : [Tok.sym "["] ++ t3 ++ [.sym "]_", .id v, .sym "="] ++ t1 ++ [.sym ","] ++ t2 ++ rest
      = .sym "[" :: (t3 ++ .sym "]_" :: .id v :: .sym "=" :: (t1 ++ .sym "," :: (t2 ++ rest))) := by simp
  rw [this]
  exact atom_evalAt f v _ _ _ lo hi b rest hv (e3 f (by len_omega)) (e1 f (by len_omega))
    (e2 f (by len_omega))

theorem IsU_mkNeg {X a} (h : IsU X a) : IsU (.sym "-" :: X) (mkNeg a) := by
  intro rest hr
  refine (h rest hr).step (fun f hf => ?_) (by len_omega)
  exact uminus_neg f _ a rest hf

theorem IsP_mkNeg {X a} (h : IsU X a) : IsP (.sym "-" :: X) (mkNeg a) := by
  intro rest hr
  by_cases hX : ∃ ts', X ++ rest = .sym "-" :: ts'
  · obtain ⟨ts', hts'⟩ := hX
    have hU := IsU_mkNeg h rest hr.1
    refine EvN.bind hU (ev_powLoop_stop hr.2) (fun f hf => ?_) (by len_omega) (by len_omega)
    simp only [List.cons_append, hts'] at hf ⊢
    exact pow_mm f ts' _ rest hf
  · have hX' : NotHd "-" (X ++ rest) := fun ts' h' => hX ⟨ts', h'⟩
    have hA : EvN (3 * X.length) (fun f => parseAtom f (X ++ rest)) (a, rest) := by
      intro fuel hf
      have : parseUminus (fuel + 1) (X ++ rest) = some (a, rest) := h rest hr.1 (fuel + 1) (by omega)
      rw [uminus_atom fuel _ hX'] at this
      exact this
    refine EvN.bind hA (ev_powLoop_stop hr.2) (fun f hf => ?_) (by len_omega) (by len_omega)
    exact pow_m_atom f _ a rest hX' hf hr.2

theorem IsU_neg {X a} (h : IsU X a) (hm : mkNeg a = neg a) : IsU (.sym "-" :: X) (neg a) :=
  hm ▸ IsU_mkNeg h

theorem IsP_neg {X a} (h : IsU X a) (hm : mkNeg a = neg a) : IsP (.sym "-" :: X) (neg a) :=
  hm ▸ IsP_mkNeg h

theorem IsPL_pow {L R a b} (hL : IsPL L a) (hR : IsU R b) : IsPL (L ++ .sym "^" :: R) (pow a b) := by
  intro rest hr r N hN hk
  have := hL (.sym "^" :: (R ++ rest)) (by simp [stopAtom]) r (N + 3 * R.length + 2) (by omega)
    (EvN.bind (hR rest hr) hk (fun f hf => powLoop_step f a _ b rest hf) (by omega) (by omega))
  have h2 := this.mono (N' := N + 3 * (L ++ .sym "^" :: R).length + 1) (by len_omega)
  simpa using h2

theorem IsTL_mul {L R a b} (hL : IsTL L a) (hR : IsP R b) : IsTL (L ++ .sym "*" :: R) (mul a b) := by
  intro rest hr r N hN hk
  have := hL (.sym "*" :: (R ++ rest)) (by simp [stopPow]) r (N + 3 * R.length + 3) (by omega)
    (EvN.bind (hR rest hr) hk (fun f hf => timesLoop_mul f a _ b rest hf) (by omega) (by omega))
  have h2 := this.mono (N' := N + 3 * (L ++ .sym "*" :: R).length + 1) (by len_omega)
  simpa using h2

theorem IsTL_div {L R a b e} (hL : IsTL L a) (hR : IsP R b) (hd : mkDiv a b = some e) :
    IsTL (L ++ .sym "/" :: R) e := by
  intro rest hr r N hN hk
  have := hL (.sym "/" :: (R ++ rest)) (by simp [stopPow]) r (N + 3 * R.length + 3) (by omega)
    (EvN.bind (hR rest hr) hk (fun f hf => timesLoop_div f a _ b e rest hf hd) (by omega) (by omega))
  have h2 := this.mono (N' := N + 3 * (L ++ .sym "/" :: R).length + 1) (by len_omega)
  simpa using h2

theorem IsSL_add {L R a b} (hL : IsSL L a) (hR : IsT R b) : IsSL (L ++ .sym "+" :: R) (add a b) := by
  intro rest hr r N hN hk
  have := hL (.sym "+" :: (R ++ rest)) (by simp [stopTimes, stopPow]) r (N + 3 * R.length + 1) (by omega)
    (EvN.bind (hR rest hr) hk (fun f hf => plusLoop_add f a _ b rest hf) (by omega) (by omega))
  have h2 := this.mono (N' := N + 3 * (L ++ .sym "+" :: R).length + 1) (by len_omega)
  simpa using h2

theorem IsSL_sub {L R a b} (hL : IsSL L a) (hR : IsT R b) : IsSL (L ++ .sym "-" :: R) (sub a b) := by
  intro rest hr r N hN hk
  have := hL (.sym "-" :: (R ++ rest)) (by simp [stopTimes, stopPow]) r (N + 3 * R.length + 1) (by omega)
    (EvN.bind (hR rest hr) hk (fun f hf => plusLoop_sub f a _ b rest hf) (by omega) (by omega))
  have h2 := this.mono (N' := N + 3 * (L ++ .sym "-" :: R).length + 1) (by len_omega)
  simpa using h2

end Holpy.C19
