import Holpy.C19.RulesSem
import Mathlib.MeasureTheory.Integral.IntervalIntegral.IntegrationByParts
import Mathlib.MeasureTheory.Integral.IntervalIntegral.FundThmCalculus
/-
C19 — `partsM` and `ftcM` preserve the value of the integral under `PartsOK` / `FtcOK`.
-/
namespace Holpy.C19

open Expr MeasureTheory Set

/-- `deriv_correct_aux` at the point `t` of the integration variable. -/
theorem hasDerivAt_den (x : String) (e : Expr) (env : String → ℝ) (t : ℝ) (h : DiffOK e (at' env x t)) :
    HasDerivAt (fun s => den e (at' env x s)) (den (derivM x e) (at' env x t)) t := by
  have := deriv_correct_aux x e (at' env x t) h
  simpa [at', Function.update_idem] using this

theorem partsM_value (x : String) (u v a b body : Expr) (env : String → ℝ)
    (h : PartsOK x u v a b body env) :
    den (partsM u v (integral x a b body)) env = den (integral x a b body) env := by
  have hu : ∀ t ∈ uIcc (den a env) (den b env),
      HasDerivAt (fun s => den u (at' env x s)) (den (derivM x u) (at' env x t)) t :=
    fun t ht => hasDerivAt_den x u env t (h.udiff t ht)
  have hv : ∀ t ∈ uIcc (den a env) (den b env),
      HasDerivAt (fun s => den v (at' env x s)) (den (derivM x v) (at' env x t)) t :=
    fun t ht => hasDerivAt_den x v env t (h.vdiff t ht)
  have key := intervalIntegral.integral_mul_deriv_eq_deriv_mul hu hv h.du_int h.dv_int
  have hL : den (integral x a b body) env =
      ∫ t in (den a env)..(den b env), den u (at' env x t) * den (derivM x v) (at' env x t) := by
    simp only [den]
    exact intervalIntegral.integral_congr (fun t ht => h.accept t ht)
  rw [hL, key]
  simp only [partsM, den, at']
  congr 1
  exact intervalIntegral.integral_congr (fun t _ => mul_comm _ _)

theorem ftcM_value (x : String) (F a b f : Expr) (env : String → ℝ)
    (h : FtcOK x F a b f env) :
    den (ftcM F (integral x a b f)) env = den (integral x a b f) env := by
  have hF : ∀ t ∈ uIcc (den a env) (den b env),
      HasDerivAt (fun s => den F (at' env x s)) (den (derivM x F) (at' env x t)) t :=
    fun t ht => hasDerivAt_den x F env t (h.fdiff t ht)
  have hcongr : ∫ t in (den a env)..(den b env), den f (at' env x t) =
      ∫ t in (den a env)..(den b env), den (derivM x F) (at' env x t) :=
    intervalIntegral.integral_congr (fun t ht => (h.deriv_eq t ht).symm)
  have hint : IntervalIntegrable (fun t => den (derivM x F) (at' env x t)) volume (den a env) (den b env) := by
    refine h.f_int.congr ?_
    exact fun t ht => (h.deriv_eq t (Set.uIoc_subset_uIcc ht)).symm
  have key := intervalIntegral.integral_eq_sub_of_hasDerivAt hF hint
  simp only [ftcM, den]
  rw [show (∫ t in (den a env)..(den b env), den f (Function.update env x t)) =
        ∫ t in (den a env)..(den b env), den f (at' env x t) from rfl, hcongr, key]

end Holpy.C19
