import Holpy.C11.Proofs
/-
C11 — type instances of a definition: instantiation of type variables (`'a`), which is what
`Thm.convert_svar` + `subst_type` do to a theorem of the theory when it is used.
-/
namespace Holpy.C11
open Holpy

/-- instantiate the type variables `'a` (schematic ones are left alone) -/
def instTy (σ : String → Ty) : Ty → Ty
  | .stvar n => .stvar n
  | .tvar n => σ n
  | .con n args => .con n (args.map (instTy σ))

def instTerm (σ : String → Ty) : Term → Term
  | .svar n T => .svar n (instTy σ T)
  | .var n T => .var n (instTy σ T)
  | .const n T => .const n (instTy σ T)
  | .comb f a => .comb (instTerm σ f) (instTerm σ a)
  | .abs x T b => .abs x (instTy σ T) (instTerm σ b)
  | .bound i => .bound i

def instView (σ : String → Ty) (v : View) : View :=
  ⟨v.args.map (fun p => (p.1, instTy σ p.2)), instTy σ v.B, instTerm σ v.rhs⟩

theorem instTy_con (σ : String → Ty) (n : String) (args : List Ty) :
    instTy σ (.con n args) = .con n (args.map (instTy σ)) := by
  simp only [instTy]

theorem instTy_bool (σ : String → Ty) : instTy σ Ty.bool = Ty.bool := by
  simp [Ty.bool, instTy]

theorem instTy_fn (σ : String → Ty) (a b : Ty) : instTy σ (Ty.fn a b) = Ty.fn (instTy σ a) (instTy σ b) := by
  simp [Ty.fn, instTy]

theorem instTy_arrows (σ : String → Ty) (As : List Ty) (B : Ty) :
    instTy σ (arrows As B) = arrows (As.map (instTy σ)) (instTy σ B) := by
  induction As with
  | nil => rfl
  | cons A As ih => simp only [arrows, instTy_fn, ih, List.map]

/-! ### typing is stable under instantiation -/

theorem isFun_inst (σ : String → Ty) (T : Ty) (h : T.isFun = true) : (instTy σ T).isFun = true := by
  unfold Ty.isFun at h
  split at h
  · simp only [instTy, Ty.isFun]
  · cases h

theorem domain?_inst (σ : String → Ty) (T d : Ty) (h : T.domain? = some d) :
    (instTy σ T).domain? = some (instTy σ d) := by
  unfold Ty.domain? at h
  split at h
  · cases h; simp only [instTy, List.map, Ty.domain?]
  · cases h

theorem range?_inst (σ : String → Ty) (T r : Ty) (h : T.range? = some r) :
    (instTy σ T).range? = some (instTy σ r) := by
  unfold Ty.range? at h
  split at h
  · cases h; simp only [instTy, List.map, Ty.range?]
  · cases h

theorem checkedGetType_inst (σ : String → Ty) (bd : List Ty) (t : Term) (T : Ty)
    (h : Term.checkedGetType bd t = .ok T) :
    Term.checkedGetType (bd.map (instTy σ)) (instTerm σ t) = .ok (instTy σ T) := by
  induction t generalizing bd T with
  | svar n S => simp only [Term.checkedGetType, instTerm] at h ⊢; cases h; rfl
  | var n S => simp only [Term.checkedGetType, instTerm] at h ⊢; cases h; rfl
  | const n S => simp only [Term.checkedGetType, instTerm] at h ⊢; cases h; rfl
  | comb f a ihf iha =>
    simp only [Term.checkedGetType, instTerm, bind, Except.bind] at h ⊢
    cases hf : Term.checkedGetType bd f with
    | error e => rw [hf] at h; cases h
    | ok tf =>
      cases ha : Term.checkedGetType bd a with
      | error e => rw [hf, ha] at h; cases h
      | ok ta =>
        rw [hf, ha] at h
        rw [ihf bd tf hf, iha bd ta ha]
        simp only at h ⊢
        cases hfun : tf.isFun with
        | false => rw [hfun] at h; cases h
        | true =>
          rw [hfun] at h
          rw [isFun_inst σ tf hfun]
          simp only [Bool.not_true, Bool.false_eq_true, if_false] at h ⊢
          cases hd : tf.domain? with
          | none => rw [hd] at h; cases h
          | some d =>
            rw [hd] at h
            rw [domain?_inst σ tf d hd]
            simp only at h ⊢
            by_cases hne : d = ta
            · subst hne
              simp only [bne_self_eq_false, Bool.false_eq_true, if_false] at h ⊢
              cases hr : tf.range? with
              | none => rw [hr] at h; cases h
              | some r =>
                rw [hr] at h
                rw [range?_inst σ tf r hr]
                cases h; rfl
            · have : (d != ta) = true := by simpa using hne
              rw [this] at h; cases h
  | abs x S b ih =>
    simp only [Term.checkedGetType, instTerm, bind, Except.bind] at h ⊢
    cases hb : Term.checkedGetType (S :: bd) b with
    | error e => rw [hb] at h; cases h
    | ok tb =>
      rw [hb] at h
      have := ih (S :: bd) tb hb
      rw [List.map_cons] at this
      rw [this]
      cases h
      simp only [instTy_fn]
  | bound i =>
    simp only [Term.checkedGetType, instTerm, List.getElem?_map] at h ⊢
    cases hi : bd[i]? with
    | none => rw [hi] at h; cases h
    | some S => rw [hi] at h; cases h; rfl

/-! ### atoms, shape -/

theorem atoms_inst (σ : String → Ty) (t : Term) :
    atoms (instTerm σ t) = (atoms t).map fun a => (a.1, a.2.1, instTy σ a.2.2) := by
  induction t with
  | comb f a ihf iha => simp [atoms, instTerm, ihf, iha]
  | abs x T b ih => simp [atoms, instTerm, ih]
  | _ => simp [atoms, instTerm]

theorem instTerm_applyArgs (σ : String → Ty) (h : Term) (l : List Term) :
    instTerm σ (applyArgs h l) = applyArgs (instTerm σ h) (l.map (instTerm σ)) := by
  induction l generalizing h with
  | nil => rfl
  | cons a as ih => simp [applyArgs, ih, instTerm]

theorem instTerm_mkProp (σ : String → Ty) (name : String) (T : Ty) (v : View) :
    instTerm σ (mkProp name T v) = mkProp name (instTy σ T) (instView σ v) := by
  simp [mkProp, mkLhs, instTerm, instTerm_applyArgs, instView, varTerms, instTy_fn, instTy_bool,
    List.map_map, Function.comp_def]

/-! ### `is_apart` types have no common instance -/

theorem apartList_inst (σ τ : String → Ty) : ∀ (as bs : List Ty),
    (∀ a ∈ as, ∀ T, apart a T = true → instTy σ a ≠ instTy τ T) → apartList as bs = true →
    as.map (instTy σ) ≠ bs.map (instTy τ)
  | [], _, _, hl => by simp [apartList] at hl
  | _ :: _, [], _, hl => by simp [apartList] at hl
  | a :: as, b :: bs, ih, hl => by
    simp only [apartList, Bool.or_eq_true] at hl
    simp only [List.map_cons, ne_eq, List.cons.injEq, not_and]
    intro h1
    rcases hl with hl | hl
    · exact absurd h1 (ih a (by simp) b hl)
    · exact apartList_inst σ τ as bs (fun x hx => ih x (by simp [hx])) hl

theorem apart_inst (σ τ : String → Ty) (S : Ty) : ∀ T, apart S T = true → instTy σ S ≠ instTy τ T := by
  induction S using Ty.ind with
  | hs n => intro T h; simp [apart] at h
  | ht n => intro T h; simp [apart] at h
  | hc n args ih =>
    intro T h
    cases T with
    | stvar m => simp [apart] at h
    | tvar m => simp [apart] at h
    | con m bs =>
      simp only [apart, Bool.or_eq_true, bne_iff_ne, ne_eq] at h
      simp only [instTy_con]
      intro heq
      injection heq with hn hargs
      rcases h with (hnm | hlen) | hl
      · exact hnm hn
      · apply hlen
        have := congrArg List.length hargs
        simpa using this
      · exact apartList_inst σ τ args bs ih hl hargs

/-! ### the instance is determined by the instance of the constant's type -/

theorem agree_of_instTy_eq (σ σ' : String → Ty) (T : Ty) (h : instTy σ T = instTy σ' T) :
    ∀ x ∈ T.tvars, σ x = σ' x := by
  induction T using Ty.ind with
  | hs n => intro x hx; simp [Ty.tvars] at hx
  | ht n => intro x hx; simp [Ty.tvars] at hx; subst hx; simpa [instTy] using h
  | hc n args ih =>
    simp only [instTy_con, Ty.con.injEq, true_and] at h
    simp only [Ty.tvars]
    clear n
    induction args with
    | nil => intro x hx; simp [Ty.tvarsList] at hx
    | cons a as iha =>
      simp only [List.map_cons, List.cons.injEq] at h
      intro x hx
      simp only [Ty.tvarsList, List.mem_append] at hx
      rcases hx with hx | hx
      · exact ih a (by simp) h.1 x hx
      · exact iha (fun b hb => ih b (by simp [hb])) h.2 x hx

theorem instTy_congr (σ σ' : String → Ty) (T : Ty) (h : ∀ x ∈ T.tvars, σ x = σ' x) :
    instTy σ T = instTy σ' T := by
  induction T using Ty.ind with
  | hs n => simp [instTy]
  | ht n => simpa [instTy] using h n (by simp [Ty.tvars])
  | hc n args ih =>
    simp only [instTy_con, Ty.con.injEq, true_and]
    simp only [Ty.tvars] at h
    clear n
    induction args with
    | nil => rfl
    | cons a as iha =>
      simp only [List.map_cons, List.cons.injEq]
      simp only [Ty.tvarsList, List.mem_append] at h
      exact ⟨ih a (by simp) (fun x hx => h x (Or.inl hx)),
        iha (fun b hb => ih b (by simp [hb])) (fun x hx => h x (Or.inr hx))⟩

theorem instTerm_congr (σ σ' : String → Ty) (t : Term)
    (h : ∀ S ∈ termTypes t, ∀ x ∈ S.tvars, σ x = σ' x) : instTerm σ t = instTerm σ' t := by
  induction t with
  | svar n T => simp [instTerm, instTy_congr σ σ' T (h T (by simp [termTypes]))]
  | var n T => simp [instTerm, instTy_congr σ σ' T (h T (by simp [termTypes]))]
  | const n T => simp [instTerm, instTy_congr σ σ' T (h T (by simp [termTypes]))]
  | comb f a ihf iha =>
    simp only [instTerm]
    rw [ihf (fun S hS => h S (by simp [termTypes, hS])), iha (fun S hS => h S (by simp [termTypes, hS]))]
  | abs x T b ih =>
    simp only [instTerm]
    rw [instTy_congr σ σ' T (h T (by simp [termTypes])), ih (fun S hS => h S (by simp [termTypes, hS]))]
  | bound i => rfl

theorem tvars_arrows (As : List Ty) (B : Ty) (x : String) :
    x ∈ (arrows As B).tvars ↔ (∃ A ∈ As, x ∈ A.tvars) ∨ x ∈ B.tvars := by
  induction As with
  | nil => simp [arrows]
  | cons A As ih =>
    simp only [arrows, Ty.fn, Ty.tvars, Ty.tvarsList, List.append_nil, List.mem_append, ih,
      List.mem_cons, exists_eq_or_imp]
    constructor
    · rintro (h | h | h)
      · exact Or.inl (Or.inl h)
      · exact Or.inl (Or.inr h)
      · exact Or.inr h
    · rintro ((h | h) | h)
      · exact Or.inl h
      · exact Or.inr (Or.inl h)
      · exact Or.inr (Or.inr h)

end Holpy.C11
