import Holpy.C11.Defs3
import Holpy.C01.PropsDefs
/-
C11 — lists of `def` items: helper notions and lemmas for Props2.lean.
-/
namespace Holpy.C11
open Holpy

/-- the theorem `Definition.get_extension` adds, as the theory stores it -/
def DefItem.toThm (d : DefItem) : String × Thm := (d.thname, ⟨[], convSvar d.prop⟩)

def defsOf (items : List DefItem) : List (String × Thm) := items.map DefItem.toThm

theorem constNames_swapKinds (t : Term) : constNames (swapKinds t) = constNames t := by
  induction t with
  | comb f a ihf iha => simp [swapKinds, constNames, ihf, iha]
  | abs x T b ih => simp [swapKinds, constNames, ih]
  | _ => simp [swapKinds, constNames]

theorem constNames_instTerm (σ : String → Ty) (t : Term) : constNames (instTerm σ t) = constNames t := by
  induction t with
  | comb f a ihf iha => simp [instTerm, constNames, ihf, iha]
  | abs x T b ih => simp [instTerm, constNames, ih]
  | _ => simp [instTerm, constNames]

theorem mem_constNames_of_atom (t : Term) (a : Nat × String × Ty) (ha : a ∈ atoms t) (hk : a.1 = 2) :
    a.2.1 ∈ constNames t := by
  induction t with
  | svar n T => simp [atoms] at ha; subst ha; cases hk
  | var n T => simp [atoms] at ha; subst ha; cases hk
  | const n T => simp [atoms] at ha; subst ha; simp [constNames]
  | comb f b ihf ihb =>
    simp only [atoms, List.mem_append] at ha
    simp only [constNames, List.mem_append]
    exact ha.imp ihf ihb
  | abs x T b ih => exact ih ha
  | bound i => simp [atoms] at ha

/-- the two valuations read every constant not called `name` the same way -/
def ConstEqOff (name : String) (ρ ρ' : Valuation) : Prop := ∀ n S, n ≠ name → ρ 2 n S = ρ' 2 n S

theorem ConstEqOff.pulls {name : String} {ρ ρ' : Valuation} (h : ConstEqOff name ρ ρ') :
    ∀ (σs : List Ty.TyInst) (M : Model), ConstEqOff name (pullsV M ρ σs) (pullsV M ρ' σs)
  | [], _ => h
  | σ :: σs, M => by
    apply ConstEqOff.pulls (ρ := ρ.pull M σ) (ρ' := ρ'.pull M σ) ?_ σs (M.pull σ)
    intro n S hn
    simp only [Valuation.pull, if_true, constVal]
    split <;> first | rfl | exact h n _ hn

theorem admissible_pulls {ρ : Valuation} : ∀ (σs : List Ty.TyInst) (M : Model), Admissible M ρ →
    Admissible (pullsM M σs) (pullsV M ρ σs)
  | [], _, h => h
  | σ :: σs, M, h => admissible_pulls (ρ := ρ.pull M σ) σs (M.pull σ) (h.pull σ)

/-- equations that do not mention `name` do not notice a change of the constants called `name` -/
theorem defsHold_off {defs : List (String × Thm)} {M : Model} {ρ ρ' : Valuation} {name : String}
    (h : DefsHold defs M ρ) (hρ : Admissible M ρ) (hoff : ConstEqOff name ρ ρ')
    (hno : ∀ d ∈ defs, name ∉ constNames d.2.prop) : DefsHold defs M ρ' := by
  intro σs ρ2 hadm hce d hd
  -- the variables of ρ2 with the (pulled) constants of ρ
  let ρ3 : Valuation := fun k n S => if k = 2 then pullsV M ρ σs 2 n S else ρ2 k n S
  have hρ3 : Admissible (pullsM M σs) ρ3 := by
    intro k n S
    show (if k = 2 then pullsV M ρ σs 2 n S else ρ2 k n S) < _
    split
    · exact admissible_pulls σs M hρ 2 n S
    · exact hadm k n S
  have h3 := h σs ρ3 hρ3 (fun n S => by simp [ρ3]) d hd
  have : sem (pullsM M σs) ρ2 [] [] d.2.prop = sem (pullsM M σs) ρ3 [] [] d.2.prop := by
    apply sem_congr
    intro a ha
    obtain ⟨k, n, S⟩ := a
    show ρ2 k n S = (if k = 2 then pullsV M ρ σs 2 n S else ρ2 k n S)
    split
    · rename_i hk
      subst hk
      have hne : n ≠ name := fun e => hno d hd (e ▸ mem_constNames_of_atom _ _ ha rfl)
      rw [hce n S, ← hoff.pulls σs M n S hne]
    · rfl
  show sem (pullsM M σs) ρ2 [] [] d.2.prop = 1
  rw [this]
  exact h3

theorem defsHold_cons {d : String × Thm} {defs : List (String × Thm)} {M : Model} {ρ : Valuation}
    (h1 : DefsHold [d] M ρ) (h2 : DefsHold defs M ρ) : DefsHold (d :: defs) M ρ := by
  intro σs ρ2 hadm hce e he
  rcases List.mem_cons.1 he with rfl | he
  · exact h1 σs ρ2 hadm hce _ (by simp)
  · exact h2 σs ρ2 hadm hce e he

theorem defsHold_subset {defs defs' : List (String × Thm)} {M : Model} {ρ : Valuation}
    (h : DefsHold defs M ρ) (hs : ∀ d ∈ defs', d ∈ defs) : DefsHold defs' M ρ :=
  fun σs ρ2 hadm hce d hd => h σs ρ2 hadm hce d (hs d hd)

/-- the constants `StdBase` constrains -/
def baseNames : List String :=
  ["true", "false", "neg", "conj", "disj", "exists", "exists1", "IF", "Some", "The", "_VAR"]

theorem stdBase_off {M : Model} {ρ ρ' : Valuation} {name : String} (hB : StdBase M ρ)
    (hoff : ConstEqOff name ρ ρ') (hn : name ∉ baseNames) : StdBase M ρ' := by
  have ne : ∀ b ∈ baseNames, b ≠ name := fun b hb e => hn (e ▸ hb)
  have e : ∀ b ∈ baseNames, ∀ S, ρ' 2 b S = ρ 2 b S := fun b hb S => (hoff b S (ne b hb)).symm
  refine ⟨?_, ?_, ?_, ?_, ?_, ?_, ?_, ?_, ?_, ?_, ?_⟩
  · rw [e _ (by simp [baseNames])]; exact hB.tru
  · rw [e _ (by simp [baseNames])]; exact hB.fls
  · rw [e _ (by simp [baseNames])]; exact hB.neg
  · rw [e _ (by simp [baseNames])]; exact hB.conj
  · rw [e _ (by simp [baseNames])]; exact hB.disj
  · intro a; rw [e _ (by simp [baseNames])]; exact hB.ex a
  · intro a; rw [e _ (by simp [baseNames])]; exact hB.ex1 a
  · intro a; rw [e _ (by simp [baseNames])]; exact hB.ite a
  · intro a p v h1 h2 h3; rw [e _ (by simp [baseNames])]; exact hB.some a p v h1 h2 h3
  · intro a p v h1 h2 h3 h4; rw [e _ (by simp [baseNames])]; exact hB.the a p v h1 h2 h3 h4
  · intro a; rw [e _ (by simp [baseNames])]; exact hB.var_ a


/-! ### the stored equation is well-typed -/

theorem logicalKind_inst (n : String) (T : Ty) (k : Nat) (a : Ty) (σ : String → Ty)
    (h : logicalKind n T = some (k, a)) : logicalKind n (instTy σ T) = some (k, instTy σ a) := by
  unfold logicalKind at h
  split at h
  · split at h
    · rename_i heq
      cases h
      subst heq
      simp only [instTy, List.map, logicalKind, if_true]
    · cases h
  · cases h
    simp only [instTy, List.map, logicalKind, Ty.bool]
  · cases h
    simp only [instTy, List.map, logicalKind]
  · cases h

theorem sigOK_inst (σ : String → Ty) (t : Term) (h : sigOK t = true) : sigOK (instTerm σ t) = true := by
  induction t with
  | svar n T => simp only [instTerm, sigOK]
  | var n T => simp only [instTerm, sigOK]
  | const n T =>
    simp only [instTerm, sigOK] at h ⊢
    split
    · rename_i hn
      rw [if_pos hn] at h
      cases hk : logicalKind n T with
      | none => rw [hk] at h; cases h
      | some p =>
        obtain ⟨k, a⟩ := p
        rw [logicalKind_inst n T k a σ hk]; rfl
    · rfl
  | comb f a ihf iha =>
    simp only [instTerm, sigOK, Bool.and_eq_true] at h ⊢
    exact ⟨ihf h.1, iha h.2⟩
  | abs x T b ih =>
    simp only [instTerm, sigOK] at h ⊢
    exact ih h
  | bound i => simp only [instTerm, sigOK]

theorem sigOK_swapKinds (t : Term) : sigOK (swapKinds t) = sigOK t := by
  induction t with
  | comb f a ihf iha => simp only [swapKinds, sigOK, ihf, iha]
  | abs x T b ih => simp only [swapKinds, sigOK, ih]
  | _ => simp [swapKinds, sigOK]

theorem checkedGetType_swapKinds (bd : List Ty) (t : Term) :
    Term.checkedGetType bd (swapKinds t) = Term.checkedGetType bd t := by
  induction t generalizing bd with
  | comb f a ihf iha => simp only [swapKinds, Term.checkedGetType, ihf, iha]
  | abs x T b ih => simp only [swapKinds, Term.checkedGetType, ih]
  | _ => simp [swapKinds, Term.checkedGetType]

/-- the stored equation of an accepted definition passes the checker's `check_thm_type` -/
theorem convSvar_welltyped (name : String) (T : Ty) (prop : Term) (h : defOK name T prop = true)
    (hs : sigOK prop = true) : Thm.checkThmTypeSig ⟨[], convSvar prop⟩ = true := by
  have hb : Term.checkedGetType [] prop = .ok Ty.bool := by
    unfold defOK at h
    cases hv : view? name T prop with
    | none => rw [hv] at h; cases h
    | some v =>
      rw [hv] at h
      obtain ⟨hT, _, _, _, htyped⟩ := viewOK_parts h
      rw [view?_spec name T prop v hv]
      have hl := lhs_typed name T v hT
      simp [mkProp, Term.checkedGetType, hl, htyped, bind, Except.bind,
        Ty.isFun_fn, Ty.domain?_fn, Ty.range?_fn]
  have h1 := checkedGetType_inst stv [] prop Ty.bool hb
  simp only [List.map_nil, instTy_bool] at h1
  simp [Thm.checkThmTypeSig, Thm.checkThmType, Thm.sigOK, convSvar, checkedGetType_swapKinds, h1,
    sigOK_swapKinds, sigOK_inst stv prop hs]

theorem acceptedRev_defOK : ∀ (items : List DefItem), acceptedRev items = true →
    ∀ d ∈ items, defOK d.name d.T d.prop = true
  | [], _, d, hd => by cases hd
  | e :: rest, h, d, hd => by
    simp only [acceptedRev, Bool.and_eq_true] at h
    rcases List.mem_cons.1 hd with rfl | hd
    · exact h.1.1.1
    · exact acceptedRev_defOK rest h.2 d hd

theorem accepted_welltyped (items : List DefItem) (hacc : accepted items = true)
    (hs : ∀ d ∈ items, sigOK d.prop = true) : ∀ d ∈ defsOf items, Thm.checkThmTypeSig d.2 = true := by
  intro d hd
  obtain ⟨e, he, rfl⟩ := List.mem_map.1 hd
  exact convSvar_welltyped e.name e.T e.prop
    (acceptedRev_defOK items.reverse hacc e (List.mem_reverse.2 he)) (hs e he)

end Holpy.C11
