import Holpy.C11.Defs
/-
C11 — naturality of `defValue` under type instantiation (`Model.pull`), and the facts about type
instances of an accepted definition that `def_conservative_poly` uses, as lemmas.
-/
namespace Holpy.C11
open Holpy

/-! ### congruence of `defCode` / `defValue` -/

theorem defCode_congr_valid (M : Model) : ∀ (As : List Ty) (B : Ty) (F F' : List Nat → Nat),
    (∀ vs, EnvOK M As vs → F vs = F' vs) → defCode M As B F = defCode M As B F'
  | [], _, F, F', h => h [] (EnvOK.nil M)
  | A :: As, B, F, F', h => by
    simp only [defCode]
    apply lamCode_congr
    intro v hv
    exact defCode_congr_valid M As B _ _ (fun vs hvs => h (v :: vs) (hvs.cons hv))

theorem defCode_pull (M : Model) (σ : Ty.TyInst) : ∀ (As : List Ty) (B : Ty) (F F' : List Nat → Nat),
    (∀ vs, EnvOK (M.pull σ) As vs → F vs = F' vs) →
    defCode M (As.map (Ty.subst σ)) (B.subst σ) F = defCode (M.pull σ) As B F'
  | [], _, F, F', h => h [] (EnvOK.nil _)
  | A :: As, B, F, F', h => by
    simp only [defCode, List.map]
    rw [← subst_arrows, ← Model.size_pull, ← Model.size_pull]
    apply lamCode_congr
    intro v hv
    exact defCode_pull M σ As B _ _ (fun vs hvs => h (v :: vs) (hvs.cons hv))

theorem argVal_same (ρ1 ρ2 : Valuation) : ∀ (xs : List (String × Ty)) (vs : List Nat),
    vs.length = xs.length → ∀ x A, (x, A) ∈ xs → argVal ρ1 xs vs 1 x A = argVal ρ2 xs vs 1 x A
  | [], _, _, x, A, hm => by cases hm
  | (y, C) :: rest, [], hl, _, _, _ => by simp at hl
  | (y, C) :: rest, v :: vs, hl, x, A, hm => by
    simp only [argVal, Valuation.update]
    by_cases hxy : x = y ∧ A = C
    · rw [if_pos ⟨trivial, hxy.1, hxy.2⟩, if_pos ⟨trivial, hxy.1, hxy.2⟩]
    · rw [if_neg (fun h => hxy ⟨h.2.1, h.2.2⟩), if_neg (fun h => hxy ⟨h.2.1, h.2.2⟩)]
      apply argVal_same ρ1 ρ2 rest vs (by simpa using hl)
      rcases List.mem_cons.1 hm with h | h
      · cases h; exact absurd ⟨rfl, rfl⟩ hxy
      · exact h

theorem argVal_constEq (ρ : Valuation) (xs : List (String × Ty)) (vs : List Nat) :
    ConstEq (argVal ρ xs vs) ρ := fun n S => argVal_other ρ xs vs 2 n S (by decide)

theorem defValue_congr (M : Model) (ρ1 ρ2 : Valuation) (w : View) (hvars : rhsVarsOK w = true)
    (hag : ∀ a ∈ atoms w.rhs, a.1 = 2 → ρ1 2 a.2.1 a.2.2 = ρ2 2 a.2.1 a.2.2) :
    defValue M ρ1 w = defValue M ρ2 w := by
  unfold defValue
  apply defCode_congr_valid
  intro vs hvs
  apply sem_congr
  intro a ha
  have h1 := List.all_eq_true.1 hvars _ ha
  have h0 := hag a ha
  obtain ⟨k, n, S⟩ := a
  simp only [Bool.or_eq_true, Bool.and_eq_true, beq_iff_eq, List.contains_eq_mem, decide_eq_true_eq] at h1
  rcases h1 with hk | ⟨hk, hmem⟩
  · subst hk
    show argVal ρ1 w.args vs 2 n S = argVal ρ2 w.args vs 2 n S
    rw [argVal_other _ _ _ _ _ _ (by decide), argVal_other _ _ _ _ _ _ (by decide), h0 rfl]
  · subst hk
    have hl : vs.length = w.args.length := by
      have := hvs.length_eq
      simpa using this.symm
    exact argVal_same ρ1 ρ2 w.args vs hl n S hmem

/-! ### one step of `pull` -/

theorem mem_names {xs : List (String × Ty)} {x : String} {A : Ty} (h : (x, A) ∈ xs) :
    x ∈ xs.map (·.1) := List.mem_map.2 ⟨(x, A), h, rfl⟩

theorem argVal_subst (ρ ρ2 : Valuation) (σ : Ty.TyInst) : ∀ (xs : List (String × Ty)) (vs : List Nat),
    vs.length = xs.length → distinct (xs.map (·.1)) = true → ∀ x A, (x, A) ∈ xs →
    argVal ρ (xs.map fun p => (p.1, p.2.subst σ)) vs 1 x (A.subst σ) = argVal ρ2 xs vs 1 x A
  | [], _, _, _, x, A, hm => by cases hm
  | (y, C) :: rest, [], hl, _, _, _, _ => by simp at hl
  | (y, C) :: rest, v :: vs, hl, hd, x, A, hm => by
    simp only [List.map, distinct, Bool.and_eq_true, Bool.not_eq_true', List.contains_eq_mem,
      decide_eq_false_iff_not] at hd
    simp only [List.map, argVal, Valuation.update]
    rcases List.mem_cons.1 hm with h | h
    · cases h
      rw [if_pos ⟨trivial, rfl, rfl⟩, if_pos ⟨trivial, rfl, rfl⟩]
    · have hne : x ≠ y := fun e => hd.1 (e ▸ mem_names h)
      rw [if_neg (fun e => hne e.2.1), if_neg (fun e => hne e.2.1)]
      exact argVal_subst ρ ρ2 σ rest vs (by simpa using hl) hd.2 x A h

/-- `defValue` of the instantiated view in `M` is `defValue` of the view in the pulled model -/
theorem defValue_pull (M : Model) (ρ : Valuation) (σ : Ty.TyInst) (w : View)
    (hd : distinct (w.args.map (·.1)) = true) (hvars : rhsVarsOK w = true)
    (htyped : Term.checkedGetType [] w.rhs = .ok w.B) :
    defValue M ρ (substView σ w) = defValue (M.pull σ) (ρ.pull M σ) w := by
  unfold defValue
  have hmap : (substView σ w).args.map (·.2) = (w.args.map (·.2)).map (Ty.subst σ) := by
    simp [substView, List.map_map, Function.comp_def]
  rw [hmap]
  show defCode M _ (w.B.subst σ) _ = _
  apply defCode_pull
  intro vs hvs
  have hl : vs.length = w.args.length := by
    have := hvs.length_eq
    simpa using this.symm
  have h1 := sem_substType M (argVal ρ (substView σ w).args vs) σ [] [] w.rhs w.B htyped
  simp only [List.map_nil] at h1
  show sem M (argVal ρ (substView σ w).args vs) [] [] (Term.substType σ w.rhs) = _
  rw [h1]
  apply sem_congr
  intro a ha
  have h2 := List.all_eq_true.1 hvars _ ha
  obtain ⟨k, n, S⟩ := a
  simp only [Bool.or_eq_true, Bool.and_eq_true, beq_iff_eq, List.contains_eq_mem, decide_eq_true_eq] at h2
  rcases h2 with hk | ⟨hk, hmem⟩
  · subst hk
    show Valuation.pull M (argVal ρ (substView σ w).args vs) σ 2 n S = argVal (ρ.pull M σ) w.args vs 2 n S
    rw [argVal_other _ _ _ _ _ _ (by decide)]
    simp only [Valuation.pull, if_true]
    exact (argVal_constEq ρ _ vs).constVal M n _
  · subst hk
    show Valuation.pull M (argVal ρ (substView σ w).args vs) σ 1 n S = argVal (ρ.pull M σ) w.args vs 1 n S
    simp only [Valuation.pull]
    rw [if_neg (by decide)]
    exact argVal_subst ρ (ρ.pull M σ) σ w.args vs hl hd n S hmem

end Holpy.C11
