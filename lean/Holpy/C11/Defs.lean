import Holpy.C11.Core
import Holpy.Kernel.DefsClass
/-
C11 — from an accepted `def` item to the class `DefsHold` of Kernel/DefsClass.lean.

A theory stores the equation of a definition in schematic form (`Thm.convert_svar`: variables become
schematic variables, type variables become schematic type variables) and the checker uses it at
type instances reached by `subst_type`, i.e. semantically in pulled models (`Model.pull`).  This
file shows that the interpretation `defValue` is NATURAL under `pull`, so that ONE valuation — the
family valuation of `def_conservative_family` — makes the stored equation true in every pulled
model: `DefsHold`.
-/
namespace Holpy.C11
open Holpy

/-! ### the family valuation, with its defining equations -/

open Classical in
/-- `ρ` with the constant `name` reinterpreted by `defValue` at every type `Ts i` -/
noncomputable def famVal {ι : Type} (name : String) (Ts : ι → Ty) (vs : ι → View) (M : Model)
    (ρ : Valuation) : Valuation := fun k n S =>
  if h : k = 2 ∧ n = name ∧ ∃ i, S = Ts i then defValue M ρ (vs (Classical.choose h.2.2)) else ρ k n S

theorem famVal_pos {ι : Type} (name : String) (Ts : ι → Ty) (vs : ι → View)
    (hcoh : ∀ i j, Ts i = Ts j → vs i = vs j) (M : Model) (ρ : Valuation) (i : ι) :
    famVal name Ts vs M ρ 2 name (Ts i) = defValue M ρ (vs i) := by
  have h : (2 : Nat) = 2 ∧ name = name ∧ ∃ j, Ts i = Ts j := ⟨rfl, rfl, i, rfl⟩
  unfold famVal
  rw [dif_pos h]
  have hc := Classical.choose_spec h.2.2
  rw [hcoh _ _ hc.symm]

theorem famVal_neg {ι : Type} (name : String) (Ts : ι → Ty) (vs : ι → View) (M : Model)
    (ρ : Valuation) (k : Nat) (n : String) (S : Ty) (h : ¬ (k = 2 ∧ n = name ∧ ∃ i, S = Ts i)) :
    famVal name Ts vs M ρ k n S = ρ k n S := by
  unfold famVal
  rw [dif_neg h]

theorem famVal_admissible {ι : Type} (name : String) (Ts : ι → Ty) (vs : ι → View)
    (hok : ∀ i, CoreOK name (Ts i) (vs i)) (hcoh : ∀ i j, Ts i = Ts j → vs i = vs j)
    (M : Model) (ρ : Valuation) (hρ : Admissible M ρ) : Admissible M (famVal name Ts vs M ρ) := by
  intro k n S
  by_cases h : k = 2 ∧ n = name ∧ ∃ i, S = Ts i
  · obtain ⟨rfl, rfl, i, rfl⟩ := h
    rw [famVal_pos n Ts vs hcoh M ρ i]
    exact defValue_lt n (Ts i) (vs i) (hok i) M ρ hρ
  · rw [famVal_neg name Ts vs M ρ k n S h]
    exact hρ k n S

/-! ### `convert_svar`: variables to schematic variables -/

def swapK : Nat → Nat
  | 0 => 1
  | 1 => 0
  | k => k

/-- exchange variables and schematic variables -/
def swapKinds : Term → Term
  | .svar n T => .var n T
  | .var n T => .svar n T
  | .comb f a => .comb (swapKinds f) (swapKinds a)
  | .abs x T b => .abs x T (swapKinds b)
  | t => t

def swapV (ρ : Valuation) : Valuation := fun k n T => ρ (swapK k) n T

theorem getType_swapKinds (bd : List Ty) (t : Term) :
    Term.getType bd (swapKinds t) = Term.getType bd t := by
  induction t generalizing bd with
  | comb f a ihf _ => simp only [swapKinds, Term.getType, ihf]
  | abs x T b ih => simp only [swapKinds, Term.getType, ih]
  | _ => simp [swapKinds, Term.getType]

theorem sem_swapKinds (M : Model) (ρ : Valuation) (bd : List Ty) (env : List Nat) (t : Term) :
    sem M ρ bd env (swapKinds t) = sem M (swapV ρ) bd env t := by
  induction t generalizing bd env with
  | svar n T => simp [swapKinds, sem, swapV, swapK]
  | var n T => simp [swapKinds, sem, swapV, swapK]
  | const n T =>
    simp only [swapKinds, sem, constVal]
    split <;> rfl
  | comb f a ihf iha => simp only [swapKinds, sem, getType_swapKinds, ihf, iha]
  | abs x T b ih =>
    simp only [swapKinds, sem, getType_swapKinds]
    split
    · congr 1
      funext v
      exact ih (T :: bd) (v :: env)
    · rfl
  | bound i => simp [swapKinds, sem]

theorem swapV_admissible {M : Model} {ρ : Valuation} (h : Admissible M ρ) : Admissible M (swapV ρ) :=
  fun k n T => h (swapK k) n T

theorem swapV_const (ρ : Valuation) (n : String) (S : Ty) : swapV ρ 2 n S = ρ 2 n S := rfl

/-- type variables to schematic type variables -/
def stv : String → Ty := fun n => .stvar n

/-- `Thm.convert_svar` on the statement of a definition (which has no schematic variables) -/
def convSvar (t : Term) : Term := swapKinds (instTerm stv t)

/-! ### instantiating schematic type variables after type variables -/

def compTy (τ : String → Ty) (σ : Ty.TyInst) : String → Ty := fun n => (τ n).subst σ

theorem stvarsList_nil_of_mem {args : List Ty} (h : Ty.stvarsList args = []) : ∀ a ∈ args, a.stvars = [] := by
  induction args with
  | nil => intro a ha; cases ha
  | cons b bs ih =>
    simp only [Ty.stvarsList, List.append_eq_nil_iff] at h
    intro a ha
    rcases List.mem_cons.1 ha with rfl | ha
    · exact h.1
    · exact ih h.2 a ha

theorem subst_instTy (τ : String → Ty) (σ : Ty.TyInst) (X : Ty) (hX : X.stvars = []) :
    (instTy τ X).subst σ = instTy (compTy τ σ) X := by
  induction X using Ty.ind with
  | hs n => simp [Ty.stvars] at hX
  | ht n => simp [instTy, compTy]
  | hc n args ih =>
    simp only [Ty.stvars] at hX
    have hargs := stvarsList_nil_of_mem hX
    simp only [instTy_con, Ty.subst_con, List.map_map, Ty.con.injEq, true_and]
    apply List.map_congr_left
    intro a ha
    exact ih a ha (hargs a ha)

theorem substType_instTerm (τ : String → Ty) (σ : Ty.TyInst) (t : Term)
    (h : ∀ S ∈ termTypes t, S.stvars = []) :
    Term.substType σ (instTerm τ t) = instTerm (compTy τ σ) t := by
  induction t with
  | svar n T => simp [instTerm, Term.substType, subst_instTy τ σ T (h T (by simp [termTypes]))]
  | var n T => simp [instTerm, Term.substType, subst_instTy τ σ T (h T (by simp [termTypes]))]
  | const n T => simp [instTerm, Term.substType, subst_instTy τ σ T (h T (by simp [termTypes]))]
  | comb f a ihf iha =>
    simp only [instTerm, Term.substType]
    rw [ihf (fun S hS => h S (by simp [termTypes, hS])), iha (fun S hS => h S (by simp [termTypes, hS]))]
  | abs x T b ih =>
    simp only [instTerm, Term.substType]
    rw [subst_instTy τ σ T (h T (by simp [termTypes])), ih (fun S hS => h S (by simp [termTypes, hS]))]
  | bound i => rfl

/-- `Ty.subst` on a view -/
def substView (σ : Ty.TyInst) (w : View) : View :=
  ⟨w.args.map (fun p => (p.1, p.2.subst σ)), w.B.subst σ, Term.substType σ w.rhs⟩

/-- nothing in the view mentions a schematic type variable -/
def StvFree (v : View) : Prop :=
  (∀ p ∈ v.args, p.2.stvars = []) ∧ v.B.stvars = [] ∧ ∀ S ∈ termTypes v.rhs, S.stvars = []

theorem substView_instView (τ : String → Ty) (σ : Ty.TyInst) (v : View) (h : StvFree v) :
    substView σ (instView τ v) = instView (compTy τ σ) v := by
  obtain ⟨h1, h2, h3⟩ := h
  simp only [substView, instView, List.map_map, View.mk.injEq]
  refine ⟨?_, subst_instTy τ σ v.B h2, substType_instTerm τ σ v.rhs h3⟩
  apply List.map_congr_left
  intro p hp
  simp [subst_instTy τ σ p.2 (h1 p hp)]

theorem subst_arrows (σ : Ty.TyInst) (As : List Ty) (B : Ty) :
    (arrows As B).subst σ = arrows (As.map (Ty.subst σ)) (B.subst σ) := by
  induction As with
  | nil => rfl
  | cons A As ih => simp only [arrows, Ty.subst_fn, ih, List.map]

end Holpy.C11
