import Holpy.C11.Defs4
import Holpy.C11.Props
/-
C11 ∘ C01 — proofs over `logic_base` extended by any sequence of ACCEPTED `def` items.

C01 proves (`check_proof_sound_over_defs_partial`) that scripts over `logic_base` + equations `defs`
are sound for every valuation in which the equations hold at every type instance (`DefsHold`), and
leaves open whether such valuations exist.  Here: for `def` items accepted by the model `defOK` of
`Definition.parse` they do, in every finite standard model.

SCOPE as in Props.lean: items of kind `def` only; each item's name is new (it does not occur in the
earlier items nor among the constants of `logic_base`), which excludes overloaded names; finite
standard models.
-/
namespace Holpy.C11
open Holpy

/-! ### one item -/

/-- ONE accepted definition: every admissible valuation `ρ` can be changed, at the constant `name`
only, into an admissible valuation under which the stored (schematic, `convert_svar`) equation holds
in `M` and in every model reached from it by type instantiation — `DefsHold` of
Kernel/DefsClass.lean.  The new values are `defValue` at every type instance; that they fit together
is the naturality of `defValue` under `Model.pull`. -/
theorem defOK_gives_DefsHold (name : String) (T : Ty) (prop : Term) (h : defOK name T prop = true)
    (hname : nonLogicalName name = true) (thname : String) (M : Model) (ρ : Valuation)
    (hρ : Admissible M ρ) :
    ∃ ρ', Admissible M ρ' ∧ (∀ k n S, ¬ (k = 2 ∧ n = name) → ρ' k n S = ρ k n S) ∧
      DefsHold [(thname, ⟨[], convSvar prop⟩)] M ρ' := by
  unfold defOK at h
  cases hv : view? name T prop with
  | none => rw [hv] at h; cases h
  | some v =>
    rw [hv] at h
    rw [view?_spec name T prop v hv]
    exact ⟨polyVal name T v M ρ, polyVal_admissible h M ρ hρ,
      fun k n S hne => polyVal_other name T v M ρ k n S hne, polyVal_defsHold h hname thname M ρ⟩

/-! ### a list of items -/

/-- A LIST of `def` items (newest first), each accepted in the theory extended by the earlier ones:
every admissible valuation of a class `C` that does not look at the new constants can be changed,
at the new constants only, into an admissible valuation of `C` under which ALL the stored equations
hold at every type instance. -/
theorem defs_list_gives_DefsHold_rev (C : Model → Valuation → Prop) (items : List DefItem)
    (hC : ∀ d ∈ items, ∀ M ρ ρ', ConstEqOff d.name ρ ρ' → C M ρ → C M ρ')
    (hacc : acceptedRev items = true) (M : Model) (ρ : Valuation) (hρ : Admissible M ρ) (hc : C M ρ) :
    ∃ ρ', Admissible M ρ' ∧ C M ρ' ∧ DefsHold (defsOf items) M ρ' := by
  induction items with
  | nil => exact ⟨ρ, hρ, hc, fun _ _ _ _ d hd => by cases hd⟩
  | cons d earlier ih =>
    simp only [acceptedRev, Bool.and_eq_true] at hacc
    obtain ⟨⟨⟨hok, hname⟩, hnew⟩, hrest⟩ := hacc
    obtain ⟨ρ1, hρ1, hc1, hd1⟩ := ih (fun e he => hC e (by simp [he])) hrest
    obtain ⟨ρ', hρ', hoth, hd'⟩ := defOK_gives_DefsHold d.name d.T d.prop hok hname d.thname M ρ1 hρ1
    have hoff : ConstEqOff d.name ρ1 ρ' := fun n S hn => (hoth 2 n S (fun h => hn h.2)).symm
    refine ⟨ρ', hρ', hC d (by simp) M ρ1 ρ' hoff hc1, defsHold_cons hd' (defsHold_off (defs := defsOf earlier) hd1 hρ1 hoff ?_)⟩
    intro e he
    obtain ⟨e0, he0, rfl⟩ := List.mem_map.1 he
    have := List.all_eq_true.1 hnew e0 he0
    simpa [DefItem.toThm, convSvar, constNames_swapKinds, constNames_instTerm] using this

/-- the same with the items in order of declaration -/
theorem defs_list_gives_DefsHold (C : Model → Valuation → Prop) (items : List DefItem)
    (hC : ∀ d ∈ items, ∀ M ρ ρ', ConstEqOff d.name ρ ρ' → C M ρ → C M ρ')
    (hacc : accepted items = true) (M : Model) (ρ : Valuation) (hρ : Admissible M ρ) (hc : C M ρ) :
    ∃ ρ', Admissible M ρ' ∧ C M ρ' ∧ DefsHold (defsOf items) M ρ' := by
  obtain ⟨ρ', h1, h2, h3⟩ := defs_list_gives_DefsHold_rev C items.reverse
    (fun d hd => hC d (List.mem_reverse.1 hd)) hacc M ρ hρ hc
  refine ⟨ρ', h1, h2, defsHold_subset (defs := defsOf items.reverse) h3 (fun d hd => ?_)⟩
  simpa [defsOf] using hd

/-! ### composition with C01 -/

/-- In every finite standard model there is a standard valuation of the base logic under which the
equations of any sequence of accepted `def` items (new names, not those of `logic_base`) hold at
every type instance: the class `StdDefs` of C01 is never empty. -/
theorem accepted_defs_inhabited (items : List DefItem) (hacc : accepted items = true)
    (hbase : ∀ d ∈ items, d.name ∉ baseNames) (M : Model) :
    ∃ ρ, Admissible M ρ ∧ C01.StdDefs (defsOf items) M ρ := by
  obtain ⟨ρ', h1, h2, h3⟩ := defs_list_gives_DefsHold StdBase items
    (fun d hd M ρ ρ' hoff hB => stdBase_off hB hoff (hbase d hd)) hacc M (C01.logicVal M)
    (C01.logicVal_admissible M) (C01.logicVal_stdBase M)
  exact ⟨ρ', h1, h2, h3⟩

/-- COMPOSITION.  Any script over `logic_base` and any sequence of `def` items accepted by the model
of `Definition.parse` (new names): every sequent the
checker accepts is well-typed and true in every finite standard model under every standard valuation
that satisfies the definitions — and such valuations exist in every model, so `⊢ false` is never
accepted.  (`sigOK`: the parser's output uses `equals` / `implies` / `all` at their types; with
`defOK` it makes the stored equations pass the checker's `check_thm_type`.) -/
theorem check_proof_sound_over_accepted_defs (items : List DefItem) (hacc : accepted items = true)
    (hbase : ∀ d ∈ items, d.name ∉ baseNames) (hs : ∀ d ∈ items, sigOK d.prop = true)
    (steps : List StepAx) (res : List Thm)
    (h : runScriptAx (C01.Gen.theoryTheorems ++ defsOf items) steps [] = .ok res) :
    (∀ th ∈ res, GoodIn (C01.StdDefs (defsOf items)) th) ∧
    (∀ M, ∃ ρ, Admissible M ρ ∧ C01.StdDefs (defsOf items) M ρ) ∧ C01.falseThm ∉ res := by
  have hgood := C01.check_proof_sound_over_defs_partial (defsOf items)
    (accepted_welltyped items hacc hs) steps res h
  refine ⟨hgood, accepted_defs_inhabited items hacc hbase, ?_⟩
  intro hm
  have hv := (hgood _ hm).valid C01.trivModel
  obtain ⟨ρ, hρ, hc⟩ := accepted_defs_inhabited items hacc hbase C01.trivModel
  have h1 := hv ρ hρ hc (fun _ hm => by cases hm)
  have h2 : sem C01.trivModel ρ [] [] C01.falseThm.prop = 0 := sem_falseC hc.1 [] []
  unfold holds at h1
  omega

/-! ### non-vacuity -/

def tyA : Ty := .tvar "a"
def tyB : Ty := .tvar "b"

/-- `K x y = x`, then `I x = K x x` (uses the earlier definition at the instance `'a ⇒ 'a ⇒ 'a`),
then `twice f x = f (f x)` -/
def demoItems : List DefItem :=
  [⟨"K", Ty.fn tyA (Ty.fn tyB tyA),
     eqAt tyA (.comb (.comb (.const "K" (Ty.fn tyA (Ty.fn tyB tyA))) (.var "x" tyA)) (.var "y" tyB)) (.var "x" tyA), "K_def"⟩,
   ⟨"I", Ty.fn tyA tyA,
     eqAt tyA (.comb (.const "I" (Ty.fn tyA tyA)) (.var "x" tyA))
       (.comb (.comb (.const "K" (Ty.fn tyA (Ty.fn tyA tyA))) (.var "x" tyA)) (.var "x" tyA)), "I_def"⟩,
   ⟨"twice", Ty.fn (Ty.fn tyA tyA) (Ty.fn tyA tyA),
     eqAt tyA (.comb (.comb (.const "twice" (Ty.fn (Ty.fn tyA tyA) (Ty.fn tyA tyA))) (.var "f" (Ty.fn tyA tyA))) (.var "x" tyA))
       (.comb (.var "f" (Ty.fn tyA tyA)) (.comb (.var "f" (Ty.fn tyA tyA)) (.var "x" tyA))), "twice_def"⟩]

example : accepted demoItems = true := by decide
/-- in the other order `I` would use `K` before it exists -/
example : accepted [demoItems[1], demoItems[0]] = false := by decide
example : ∀ d ∈ demoItems, d.name ∉ baseNames := by decide
example : ∀ d ∈ demoItems, sigOK d.prop = true := by decide

example (M : Model) (ρ : Valuation) (hρ : Admissible M ρ) :
    ∃ ρ', Admissible M ρ' ∧ (∀ k n S, ¬ (k = 2 ∧ n = "K") → ρ' k n S = ρ k n S) ∧
      DefsHold [("K_def", ⟨[], convSvar demoItems[0].prop⟩)] M ρ' :=
  defOK_gives_DefsHold "K" demoItems[0].T demoItems[0].prop (by decide) (by decide) "K_def" M ρ hρ

example (M : Model) : ∃ ρ, Admissible M ρ ∧ C01.StdDefs (defsOf demoItems) M ρ :=
  accepted_defs_inhabited demoItems (by decide) (by decide) M

/-- whatever script the checker accepts over `logic_base` + `K`, `I`, `twice` is sound, and it is
never `⊢ false` -/
example (steps : List StepAx) (res : List Thm)
    (h : runScriptAx (C01.Gen.theoryTheorems ++ defsOf demoItems) steps [] = .ok res) :
    (∀ th ∈ res, GoodIn (C01.StdDefs (defsOf demoItems)) th) ∧ C01.falseThm ∉ res :=
  let r := check_proof_sound_over_accepted_defs demoItems (by decide) (by decide) (by decide) steps res h
  ⟨r.1, r.2.2⟩

/-! ### recursive functions: out of reach of the finite-model semantics -/

def natT : Ty := .con "nat" []
def fT : Ty := Ty.fn natT Ty.bool
/-- `∀p. p ⟶ ∀p. p`, i.e. truth, from the logical constants only -/
def trueT : Term := Term.mkImplies falseT falseT

/-- `f 0 ⟷ True` -/
def primrecRule0 : Term := eqAt Ty.bool (.comb (.const "f" fT) (.const "zero" natT)) trueT
/-- `f (Suc n) ⟷ False` -/
def primrecRule1 : Term :=
  eqAt Ty.bool (.comb (.const "f" fT) (.comb (.const "Suc" (Ty.fn natT natT)) (.var "n" natT))) falseT

/-- WHY THERE IS NO `def_ind_primrec_conservative`.  The primitive recursive definition
`fun f :: nat ⇒ bool, f 0 = True, f (Suc n) = False` (one equation per constructor, distinct variable
patterns, no recursive call at all) has NO interpretation in the finite standard model whose type
`nat` has one element: there `0` and `Suc n` denote the same element.  A primitive recursive
definition is conservative only over models in which the constructors are free (`0 ≠ Suc n`, `Suc`
injective), and no FINITE carrier of `nat` (or of lists) has free constructors; so the Nat-coded
finite models of this framework cannot carry a conservativity theorem for `def.ind` items over
`nat` / `list`.  What the check does instead: the decidable predicate `primRecOK` (harness) is
evaluated on every `def.ind` item of the library and of the generated stream. -/
theorem primrec_not_conservative_in_finite_models :
    ¬ ConservativeAt "f" fT [primrecRule0, primrecRule1] := by
  intro h
  obtain ⟨c, hc, hs⟩ := h oneModel ρ0 ρ0_adm
  have hc2 : c < 2 := by
    have : oneModel.size fT = 2 := by decide
    omega
  have hadm := ρ0_adm.update 2 "f" fT c hc
  have h0 := (sat_nil_iff _ _ _).1 (hs primrecRule0 (by simp)) _ hadm (fun _ _ => rfl)
  have h1 := (sat_nil_iff _ _ _).1 (hs primrecRule1 (by simp)) _ hadm (fun _ _ => rfl)
  obtain rfl | rfl : c = 0 ∨ c = 1 := by omega
  · revert h0; decide
  · revert h1; decide

/-- with a two-element `nat` on which `Suc` is the identity the same happens; with free
constructors (impossible in a finite model) it would not: in `oneModel` each rule ALONE is fine -/
example : ∃ c, c < oneModel.size fT ∧ holds oneModel (ρ0.update 2 "f" fT c) primrecRule0 :=
  ⟨1, by decide, by unfold holds; decide⟩

end Holpy.C11
