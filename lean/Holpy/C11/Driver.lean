import Holpy.Kernel.Wire
import Holpy.Kernel.Oracle
import Holpy.C11.Model
/-
Line protocol of the C11 model:
  (defok NAME Ty Term)                               -> (T|F REASON)
  (defcex NAME Ty (Term*) SPEC NSAMPLES SEED MAXCOST) -> (ok N EXH) | (cex ((kind name Ty val)*)) | (skip WHY)
      SPEC = (((name size)*) ((name size)*) ((name size)*) default)   sizes of stvars / tvars / type constructors
      Is there a valuation of the OLD signature (every constant except `NAME :: Ty`) in the model
      SPEC under which NO value of the new constant makes all the listed instances of the defining
      equation true for all values of the (schematic) variables?  The library constants
      true/false/neg/conj/disj/exists/IF get their standard meaning; the remaining constants are
      enumerated (or sampled NSAMPLES times when there are too many valuations).
  (apart Ty Ty) -> T|F
  (accepted ((NAME Ty Term)*)) -> T|F   the items, in order of declaration, are each `defOK` and new
The search is an oracle that *uses* `sem`; it is not part of any theorem.
-/
open Holpy Holpy.Wire

namespace Holpy.C11.Driver

def sizesOf (l : List Sexp) : Option (List (String × Nat)) :=
  l.mapM fun
    | .list [.atom n, s] => do some (n, ← s.toNat?)
    | _ => none

def specOf : Sexp → Option Oracle.Spec
  | .list [.list a, .list b, .list c, d] => do
    some ⟨← sizesOf a, ← sizesOf b, ← sizesOf c, ← d.toNat?⟩
  | _ => none

/-- standard meaning of the logical constants `logic_base` defines on top of the kernel's three -/
def stdVal (M : Model) (n : String) (T : Ty) : Option Nat :=
  match n, T with
  | "true", .con "bool" [] => some 1
  | "false", .con "bool" [] => some 0
  | "neg", .con "fun" [.con "bool" [], .con "bool" []] => some (lamCode (fun x => 1 - x) 2 2)
  | "conj", .con "fun" [.con "bool" [], .con "fun" [.con "bool" [], .con "bool" []]] =>
    some (lamCode (fun x => lamCode (fun y => x * y) 2 2) 2 4)
  | "disj", .con "fun" [.con "bool" [], .con "fun" [.con "bool" [], .con "bool" []]] =>
    some (lamCode (fun x => lamCode (fun y => if x + y > 0 then 1 else 0) 2 2) 2 4)
  | "exists", .con "fun" [.con "fun" [a, .con "bool" []], .con "bool" []] =>
    some (lamCode (fun f => if f = 0 then 0 else 1) (2 ^ M.size a) 2)
  | "IF", .con "fun" [.con "bool" [], .con "fun" [a, .con "fun" [a', a'']]] =>
    if a = a' ∧ a = a'' then
      let s := M.size a
      some (lamCode (fun b => lamCode (fun x => lamCode (fun y => if b = 1 then x else y) s s) s (s ^ s)) 2 ((s ^ s) ^ s))
    else none
  | _, _ => none

def prodSizes (l : List (Oracle.Atom × Nat)) : Nat := l.foldl (fun acc p => acc * p.2) 1

/-- all instances hold under the valuation `asg` for every valuation of the variable atoms -/
def holdsForAllVars (M : Model) (props : List Term) (asg : List (Oracle.Atom × Nat))
    (vars : List (Oracle.Atom × Nat)) (totalV : Nat) : Bool :=
  (List.range totalV).all fun i =>
    let ρ := Oracle.valuationOf (Oracle.decode vars i ++ asg)
    props.all fun p => sem M ρ [] [] p == 1

inductive Verdict where
  | ok (tried : Nat) (exhaustive : Bool)
  | cex (asg : List (Oracle.Atom × Nat))
  | skip (why : String)

def search (M : Model) (name : String) (T : Ty) (props : List Term) (nsamples seed maxCost : Nat) : Verdict :=
  let atoms := props.foldl (fun acc t => Oracle.atomsAcc t acc) []
  let new : Oracle.Atom := (2, name, T)
  let sized := atoms.map (fun a => (a, M.size a.2.2))
  let cost := props.foldl (fun c t => Oracle.costAcc M t c) 0
  let sizeT := M.size T
  if cost > maxCost then .skip s!"cost {cost}"
  else if sizeT > 4096 then .skip "constant size"
  else
    let vars := sized.filter (fun p => p.1.1 != 2)
    let consts := sized.filter (fun p => p.1.1 == 2 && p.1 != new)
    let fixed := consts.filterMap (fun p => (stdVal M p.1.2.1 p.1.2.2).map (fun v => (p.1, v)))
    let free := consts.filter (fun p => (stdVal M p.1.2.1 p.1.2.2).isNone)
    let totalV := prodSizes vars
    if totalV > 4096 then .skip "variables"
    else
      let good (asg : List (Oracle.Atom × Nat)) : Bool :=
        (List.range sizeT).any fun c => holdsForAllVars M props ((new, c) :: asg ++ fixed) vars totalV
      let total := prodSizes free
      if total ≤ nsamples then
        let rec go (i fuel : Nat) : Verdict :=
          match fuel with
          | 0 => .ok total true
          | fuel + 1 =>
            if i ≥ total then .ok total true
            else
              let asg := Oracle.decode free i
              if good asg then go (i + 1) fuel else .cex (asg ++ fixed)
        go 0 (total + 1)
      else
        let rec gos (k st : Nat) : Verdict :=
          match k with
          | 0 => .ok nsamples false
          | k + 1 =>
            let (asg, st') := Oracle.sample free st
            if good asg then gos k st' else .cex (asg ++ fixed)
        -- the all-zero valuation first
        let zero := free.map (fun p => (p.1, 0))
        if good zero then gos nsamples (seed + 1) else .cex (zero ++ fixed)

def handle (line : String) : String :=
  match Sexp.parse line with
  | some (.list [.atom "defok", .atom name, ty, t]) =>
    match tyOf ty, termOf t with
    | some T, some p =>
      toString (Sexp.list [Sexp.ofBool (defOK name T p), .atom (defReason name T p)])
    | _, _ => "bad-op"
  | some (.list [.atom "accepted", .list items]) =>
    -- ((NAME Ty Term)*) in order of declaration -> T|F : `accepted` of Props2.lean
    let parsed := items.mapM fun
      | .list [.atom n, ty, t] => do some (⟨n, ← tyOf ty, ← termOf t, n ++ "_def"⟩ : DefItem)
      | _ => none
    match parsed with
    | some ds => toString (Sexp.ofBool (accepted ds))
    | none => "bad-op"
  | some (.list [.atom "apart", a, b]) =>
    match tyOf a, tyOf b with
    | some x, some y => toString (Sexp.ofBool (apart x y))
    | _, _ => "bad-op"
  | some (.list [.atom "defcex", .atom name, ty, .list ps, spec, ns, seed, maxCost]) =>
    match tyOf ty, ps.mapM termOf, specOf spec, ns.toNat?, seed.toNat?, maxCost.toNat? with
    | some T, some props, some s, some n, some sd, some mc =>
      match search s.toModel name T props n sd mc with
      | .ok k ex => toString (Sexp.list [.atom "ok", Sexp.ofNat k, Sexp.ofBool ex])
      | .cex asg => toString (Sexp.list [.atom "cex", .list (asg.map fun (a, v) =>
          .list [Sexp.ofNat a.1, .atom a.2.1, tyTo a.2.2, Sexp.ofNat v])])
      | .skip w => toString (Sexp.list [.atom "skip", .atom (w.replace " " "_")])
    | _, _, _, _, _, _ => "bad-op"
  | _ => "bad-op"

end Holpy.C11.Driver

def main : IO Unit := Holpy.lineLoop Holpy.C11.Driver.handle
